import JaqalProofs.Lemmas.WalkDisc
import JaqalProofs.Lemmas.WalkBracket
import JaqalProofs.Lemmas.WalkAddr
import JaqalProofs.Lemmas.WalkErr
/-!
# C12 — only well-bracketed prepare/measure programs are executed

`discover` (model of `DiscoverSubcircuits`, `JaqalModel/Model/Walk.lean`) accepts exactly the programs whose
flat token list satisfies the rule `Bracketed` (`JaqalModel/Model/WalkSpec.lean`, an automaton that never
looks at addresses), returns exactly the prepare/measure pairs in flat order, and each rejection class
points at a violation of the corresponding rule.
-/
namespace Jaqal.Walk

theorem paddrs_sublist_gaddrs : ∀ toks : List Tok, (paddrs toks).Sublist (gaddrs toks)
  | [] => by simp [paddrs, gaddrs]
  | .g .prep a :: r => by simpa [paddrs, gaddrs] using paddrs_sublist_gaddrs r
  | .g .meas a :: r => by
    simp only [paddrs, gaddrs]; exact List.Sublist.cons _ (paddrs_sublist_gaddrs r)
  | .g (.other _) a :: r => by
    simp only [paddrs, gaddrs]; exact List.Sublist.cons _ (paddrs_sublist_gaddrs r)
  | .lopen _ :: r => by simpa [paddrs, gaddrs] using paddrs_sublist_gaddrs r
  | .lclose :: r => by simpa [paddrs, gaddrs] using paddrs_sublist_gaddrs r

theorem paddrs_flat_nodup (body : List Stmt) : (paddrs (flatToks body)).Nodup :=
  (pairwise_lexLt_nodup (flat_sorted_list body [] 0)).sublist (paddrs_sublist_gaddrs _)

/-- **C12 (acceptance).** A program is accepted for execution exactly when, read in flat order, every
ordinary gate and every measure_all finds a subcircuit open, and no measure_all closes a subcircuit
that was opened before the body of an enclosing loop with count > 1 began. -/
theorem C12_iff (body : List Stmt) : (discover body).isOk = true ↔ Bracketed (flatToks body) := by
  rw [discover_eq_crun]
  constructor
  · intro h
    cases hc : crun (flatToks body) ⟨none, [], []⟩ with
    | error e => simp [hc, Except.isOk, Except.toBool] at h
    | ok σ =>
      obtain ⟨σT, hT⟩ := crun_brun (flatToks body) (rel_init _) (paddrs_flat_nodup body) hc
        (crun_stack_of_flat body hc)
      exact ⟨σT, hT⟩
  · rintro ⟨σT, hT⟩
    obtain ⟨σC, hC⟩ := brun_crun (flatToks body) (rel_init _) (paddrs_flat_nodup body) hT
    simp [hC, Except.isOk, Except.toBool]

theorem crun_subs : ∀ (toks : List Tok) {σ σ' : CState}, crun toks σ = .ok σ' →
    σ'.subs = σ.subs ++ pairsFrom toks σ.cur ∧ σ'.cur = openAfter toks σ.cur
  | [], σ, σ', h => by simp only [crun, Except.ok.injEq] at h; subst h; simp [pairsFrom, openAfter]
  | t :: r, σ, σ', h => by
    simp only [crun] at h
    cases hs : cstep σ t with
    | error e => simp [hs] at h
    | ok σ₁ =>
      simp only [hs] at h
      have ih := crun_subs r h
      cases t with
      | g k a =>
        cases k with
        | prep =>
          simp only [cstep, Except.ok.injEq] at hs; subst hs
          simpa [pairsFrom, openAfter] using ih
        | meas =>
          cases hc : σ.cur with
          | none => simp [cstep, hc] at hs
          | some c =>
            simp only [cstep, hc, Except.ok.injEq] at hs; subst hs
            simpa [pairsFrom, openAfter] using ih
        | other id =>
          cases hc : σ.cur with
          | none => simp [cstep, hc] at hs
          | some c =>
            simp only [cstep, hc, Except.ok.injEq] at hs; subst hs
            simpa [pairsFrom, openAfter, hc] using ih
      | lopen n =>
        simp only [cstep, Except.ok.injEq] at hs; subst hs
        simpa [pairsFrom, openAfter] using ih
      | lclose =>
        simp only [cstep] at hs
        cases hst : σ.stack with
        | nil => simp only [hst, Except.ok.injEq] at hs; subst hs; simpa [pairsFrom, openAfter] using ih
        | cons f0 r0 =>
          simp only [hst] at hs
          cases hb : blockExit f0.entry f0.count ⟨σ.cur, σ.subs⟩ with
          | error e => simp [hb] at hs
          | ok st' =>
            simp only [hb, Except.ok.injEq] at hs; subst hs
            simpa [pairsFrom, openAfter] using ih

/-- **C12 (result).** An accepted program yields exactly the prepare/measure pairs of the flat order,
in that order. -/
theorem C12_count (body : List Stmt) (traces : List (Addr × Addr)) (h : discover body = .ok traces) :
    traces = pairs (flatToks body) := by
  rw [discover_eq_crun] at h
  cases hc : crun (flatToks body) ⟨none, [], []⟩ with
  | error e => simp [hc] at h
  | ok σ =>
    simp only [hc, Except.ok.injEq] at h
    have := (crun_subs _ hc).1
    simp only [List.nil_append] at this
    rw [← h, this]; rfl

/-- a trailing unmatched prepare_all yields no subcircuit -/
theorem pairs_trailing_prepare (toks : List Tok) (a : Addr) : ∀ c, pairsFrom (toks ++ [.g .prep a]) c = pairsFrom toks c := by
  induction toks with
  | nil => intro c; simp [pairsFrom]
  | cons t r ih =>
    intro c
    cases t with
    | g k b =>
      cases k with
      | prep => simp [pairsFrom, ih]
      | meas => cases c <;> simp [pairsFrom, ih]
      | other id => simp [pairsFrom, ih]
    | lopen n => simp [pairsFrom, ih]
    | lclose => simp [pairsFrom, ih]

/-- Tokens that contain no measure_all. -/
def NoMeas : List Tok → Prop
  | [] => True
  | .g .meas _ :: _ => False
  | _ :: r => NoMeas r

/-- gates before a repeated prepare_all are discarded: whatever was open, and whatever (measure-free)
came in between, only the last prepare_all counts -/
theorem pairs_reprepare (mid : List Tok) (hm : NoMeas mid) (b : Addr) (r : List Tok) :
    ∀ c, pairsFrom (mid ++ .g .prep b :: r) c = pairsFrom r (some b) := by
  induction mid with
  | nil => intro c; simp [pairsFrom]
  | cons t m ih =>
    intro c
    cases t with
    | g k x =>
      cases k with
      | prep => simpa [pairsFrom] using ih hm _
      | meas => simp [NoMeas] at hm
      | other id => simpa [pairsFrom] using ih hm _
    | lopen n => simpa [pairsFrom] using ih hm _
    | lclose => simpa [pairsFrom] using ih hm _

theorem crun_error_split : ∀ (toks : List Tok) {σ : CState} {e : DiscErr}, crun toks σ = .error e →
    ∃ pre t post σ₁, toks = pre ++ t :: post ∧ crun pre σ = .ok σ₁ ∧ cstep σ₁ t = .error e
  | [], σ, e, h => by simp [crun] at h
  | t :: r, σ, e, h => by
    simp only [crun] at h
    cases hs : cstep σ t with
    | error e' =>
      simp only [hs, Except.error.injEq] at h; subst h
      exact ⟨[], t, r, σ, rfl, rfl, hs⟩
    | ok σ₁ =>
      simp only [hs] at h
      obtain ⟨pre, t', post, σ₂, rfl, h1, h2⟩ := crun_error_split r h
      exact ⟨t :: pre, t', post, σ₂, rfl, by simp [crun, hs, h1], h2⟩

/-- **C12 (rejections).** Every rejection is one of the three `JaqalError`s, and its class names a rule
that is violated at a definite place of the flat order:
* "gates must follow a prepare_all": an ordinary gate at which no subcircuit is open;
* "prepare_all must follow a measure_all": a measure_all at which no subcircuit is open;
* "measure_all -> prepare_all not supported in loops": raised at the closing bracket of a loop.
(The state `openAfter pre none` is the prepare_all left open by the tokens before, computed without any
reference to the visitor.) -/
theorem C12_errors (body : List Stmt) (e : DiscErr) (h : discover body = .error e) :
    ∃ pre t post, flatToks body = pre ++ t :: post ∧
      match e with
      | .gateOutside => (∃ id a, t = .g (.other id) a) ∧ openAfter pre none = none
      | .measureWithoutPrepare => (∃ a, t = .g .meas a) ∧ openAfter pre none = none
      | .measureToPrepareInLoop => t = .lclose := by
  rw [discover_eq_crun] at h
  cases hc : crun (flatToks body) ⟨none, [], []⟩ with
  | ok σ => simp [hc] at h
  | error e' =>
    simp only [hc, Except.error.injEq] at h; subst h
    obtain ⟨pre, t, post, σ₁, hsplit, hpre, hstep⟩ := crun_error_split _ hc
    have hcur := (crun_subs pre hpre).2
    simp only at hcur
    refine ⟨pre, t, post, hsplit, ?_⟩
    cases t with
    | g k a =>
      cases k with
      | prep => simp [cstep] at hstep
      | meas =>
        cases hcc : σ₁.cur with
        | none =>
          simp only [cstep, hcc, Except.error.injEq] at hstep; subst hstep
          exact ⟨⟨a, rfl⟩, by rw [← hcur, hcc]⟩
        | some c => simp [cstep, hcc] at hstep
      | other id =>
        cases hcc : σ₁.cur with
        | none =>
          simp only [cstep, hcc, Except.error.injEq] at hstep; subst hstep
          exact ⟨⟨id, a, rfl⟩, by rw [← hcur, hcc]⟩
        | some c => simp [cstep, hcc] at hstep
    | lopen n => simp [cstep] at hstep
    | lclose =>
      simp only [cstep] at hstep
      cases hst : σ₁.stack with
      | nil => simp [hst] at hstep
      | cons f0 r0 =>
        simp only [hst] at hstep
        cases he : f0.entry with
        | none => simp [blockExit, he] at hstep
        | some s =>
          simp only [blockExit, he] at hstep
          by_cases hcond : (decide (f0.count > 1) && σ₁.subs.any fun t => t.fst == s) = true
          · simp only [hcond, if_true, Except.error.injEq] at hstep; subst hstep; rfl
          · simp [hcond] at hstep

/-- **C12 (rejections, loop rule).** A rejection "measure_all -> prepare_all not supported in loops" points
at a loop statement of the program with count > 1 such that the subcircuit `s` left open by everything
before the loop in flat order is closed by a measure_all inside the loop's body. -/
theorem C12_errors_loop (body : List Stmt) (h : discover body = .error .measureToPrepareInLoop) :
    ∃ pre n par b a post s e,
      flatToks body = pre ++ flatStmt (.loop n par b) a ++ post ∧ n > 1 ∧
      openAfter pre none = some s ∧ (s, e) ∈ pairsFrom (flatList b a 0) (some s) := by
  have hl : discList body [] 0 ⟨none, []⟩ = .error .measureToPrepareInLoop := by
    simp only [discover, discStmt] at h
    cases hl : discList body [] 0 ⟨none, []⟩ with
    | error e => simp only [hl, Except.error.injEq] at h; rw [h]
    | ok st => simp [hl, blockExit] at h
  obtain ⟨pre, n, par, b, a, post, st', st'', s, stack', h1, h2, h3, h4, h5, h6⟩ :=
    errLoc_list body [] 0 ⟨none, []⟩ [] hl
  have hpre := crun_subs pre h2
  simp only [List.nil_append] at hpre
  have hb := disc_flat_list b a 0 st' []
  rw [h5] at hb
  have hbody := crun_subs _ hb
  simp only at hbody
  have hopen : openAfter pre none = some s := by rw [← hpre.2, h4]
  have hnd : (paddrs pre).Nodup := by
    have := paddrs_flat_nodup body
    rw [flatToks, h1, paddrs_append, paddrs_append] at this
    exact (List.nodup_append.mp (List.nodup_append.mp this).1).1
  rw [hbody.1, List.map_append, List.mem_append] at h6
  rcases h6 with h6 | h6
  · exfalso
    obtain ⟨x, hx, hxs⟩ := List.mem_map.mp h6
    rw [hpre.1] at hx
    exact open_not_closed pre none s (by simpa using hnd) hopen x hx hxs
  · obtain ⟨x, hx, hxs⟩ := List.mem_map.mp h6
    rw [h4] at hx
    obtain ⟨x1, x2⟩ := x
    simp only at hxs; subst hxs
    exact ⟨pre, n, par, b, a, post, x1, x2, h1, h3, hopen, hx⟩

/-! ### Non-vacuity -/

/-- `prepare_all; loop 2 { X; prepare_all; Y; measure_all }; prepare_all` : accepted, one subcircuit
(the outer opening and the trailing prepare_all yield none). -/
example : discover [.gate .prep, .loop 2 false [.gate (.other 0), .gate .prep, .gate (.other 1), .gate .meas], .gate .prep]
    = .ok [([1, 1], [1, 3])] := by rfl
example : Bracketed (flatToks [.gate .prep, .loop 2 false [.gate (.other 0), .gate .prep, .gate (.other 1), .gate .meas], .gate .prep]) :=
  ⟨_, rfl⟩
/-- `prepare_all; loop 2 { measure_all }` : rejected by the loop rule. -/
example : discover [.gate .prep, .loop 2 false [.gate .meas]] = .error .measureToPrepareInLoop := by rfl
example : ¬ Bracketed (flatToks [.gate .prep, .loop 2 false [.gate .meas]]) := by
  rintro ⟨σ, h⟩
  have : bracketCheck (flatToks [.gate .prep, .loop 2 false [.gate .meas]]) = .error .measureToPrepareInLoop := rfl
  rw [this] at h; cases h
/-- the body of a zero-count loop is read too -/
example : discover [.loop 0 false [.gate (.other 0)]] = .error .gateOutside := by rfl
example : discover [.gate .prep, .gate .meas, .gate .meas] = .error .measureWithoutPrepare := by rfl

end Jaqal.Walk

#print axioms Jaqal.Walk.C12_iff
#print axioms Jaqal.Walk.C12_count
#print axioms Jaqal.Walk.C12_errors
#print axioms Jaqal.Walk.C12_errors_loop
