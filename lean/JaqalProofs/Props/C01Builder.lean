import JaqalProofs.Lemmas.RoundTripSx
import JaqalProofs.Props.C10Text
/-!
# C01 for the builder API

"… (and every circuit built through the builder API from legal identifiers and finite numbers within Jaqal's legal block
nesting) the text produced by the code generator is itself accepted by the parser and parses to an equal circuit with the
same gate-level meaning.  Generating again reproduces the same text byte for byte."

`Props/C01.lean` has `C01_builder_api`, which ASSUMES the three layers (`BuilderLegal`: `printable`, `lexes`, `rebuilds`).
This file discharges them from a decidable condition on the S-expression alone.

* `SxLegal e` (`Lemmas/RoundTripSx.lean`, a `Bool`): `e = ("circuit", child …)`, each child a header statement, a macro
  definition or a statement, in any order, made of strings / ints / floats / `None` / lists only; every identifier a
  `LegalName` (module names `SafeMod`), every float `FloatOK` (canonical, finite), blocks nested as in Jaqal.
* `C01_builder_legal` : `SxLegal e → (build cfg e).bind tooManyRegisters = .ok c → IntsBounded c → BuilderLegal cfg e c`
  (`autoload_pulses=False`); `C01_builder_legal_any` : the same for EVERY configuration (autoload on or off, any modules,
  any `inject_pulses`), children in any order the builder accepts.
* `C01_builder_parsed` : … `→ ∃ t, gen c = .ok t ∧ parseProgram cfg t = .ok c` — **the built circuit IS the circuit
  `parse_jaqal_string` makes of its own generated text**; so every theorem about parser-produced circuits (C01 … C20)
  applies to it.
* `C01_roundtrip_builder(_any)`, `C01_meaning_builder(_any)` : the property.
* `C01_sxLegal_of_parsed` : the tree of every accepted text is `SxLegal`, so these theorems subsume the ones for texts.
* the hypotheses are needed: `C01_builder_needs_*` (each evaluated in the model; the same inputs were run through the real
  `jaqalpaq.core.circuitbuilder.build` / `generate_jaqal_program` / `parse_jaqal_string`, see the comments).
-/
set_option linter.unusedVariables false
namespace Jaqal.C01
open Jaqal Jaqal.Lexer Jaqal.Parser Jaqal.Grammar Jaqal.Builder Jaqal.Generator Jaqal.PyEq Jaqal.Pipeline Jaqal.RoundTrip
open Jaqal.Autoload

/-- `build` followed by the register-count check of `parse_jaqal_string` -/
theorem built_inv {cfg : Config} {e : BSx} {c : Circuit} (h : (build cfg e).bind tooManyRegisters = .ok c) :
    build cfg e = .ok c ∧ tooManyRegisters c = .ok c ∧ (c.registers.filter isFundamental).length ≤ 1 := by
  cases hb : build cfg e with
  | error err => rw [hb] at h; cases h
  | ok c0 =>
    rw [hb] at h
    have ht : tooManyRegisters c0 = .ok c := h
    have hc0 : c0 = c ∧ (c0.registers.filter isFundamental).length ≤ 1 := by
      unfold tooManyRegisters at ht
      split at ht
      · simp [throw_eq] at ht
      · refine ⟨by simpa [pure, Except.pure] using ht, by omega⟩
    obtain ⟨rfl, h1⟩ := hc0
    exact ⟨rfl, ht, h1⟩

/-! ## the three layers, `autoload_pulses=False` -/

/-- **Layer C for the builder API**: the tree the generator writes for a circuit built from a legal S-expression is
built, in the same configuration, to exactly that circuit — whatever the order of the children of `e`. -/
theorem C01_builder_rebuild_exact (cfg : Config) (e : BSx) (c : Circuit) (ha : cfg.autoload = false)
    (hl : SxLegal e = true) (h : (build cfg e).bind tooManyRegisters = .ok c) :
    parseBuild cfg (unbuild c) = .ok c := by
  obtain ⟨hb, ht, hone⟩ := built_inv h
  obtain ⟨cs, rfl, _, hcs⟩ := sxLegal_inv hl
  rw [C07_memo_transparent] at hb
  have hcs' : ∀ x ∈ canon cs, RoundTrip.GChild x ∧ noBr x = true := fun x hm => hcs x ((canon_perm cs).mem_iff.1 hm)
  have hre := (buildNoMemo_rebuild ha hcs' (canonical_of_built ha hcs hb hone) (buildNoMemo_reorder ha hcs hb)).1
  unfold parseBuild
  rw [C07_memo_transparent, hre]
  exact ht

/-- layer A applies: the built circuit is printable (and has no same-kind nesting, and is well-formed) -/
theorem C01_builder_facts (cfg : Config) (e : BSx) (c : Circuit) (ha : cfg.autoload = false)
    (hl : SxLegal e = true) (h : (build cfg e).bind tooManyRegisters = .ok c) : BuiltFacts c := by
  obtain ⟨hb, _, _⟩ := built_inv h
  obtain ⟨cs, rfl, _, hcs⟩ := sxLegal_inv hl
  rw [C07_memo_transparent] at hb
  exact buildNoMemo_facts ha hcs hb

/-- layer B applies: the names and floats of the built circuit are those of `e`, so with bounded integers the lexer
reads the generated text back -/
theorem C01_builder_lexsafe (cfg : Config) (e : BSx) (c : Circuit) (ha : cfg.autoload = false)
    (hl : SxLegal e = true) (h : (build cfg e).bind tooManyRegisters = .ok c) (hi : IntsBounded c) : LexSafe c := by
  obtain ⟨hb, _, _⟩ := built_inv h
  obtain ⟨cs, rfl, hs, _⟩ := sxLegal_inv hl
  rw [C07_memo_transparent] at hb
  exact lexSafe_of (buildNoMemo_safe ha hs hb) hi

/-- **A circuit built from a legal S-expression is the circuit `parse_jaqal_string` makes of its own generated text.** -/
theorem C01_builder_parsed (cfg : Config) (e : BSx) (c : Circuit) (ha : cfg.autoload = false)
    (hl : SxLegal e = true) (h : (build cfg e).bind tooManyRegisters = .ok c) (hi : IntsBounded c) :
    ∃ t, gen c = .ok t ∧ parseProgram cfg t = .ok c := by
  obtain ⟨t, hg, hre⟩ := Passes.C10_text_reduces c (C01_builder_facts cfg e c ha hl h).printable
    (C01_builder_lexsafe cfg e c ha hl h hi)
  exact ⟨t, hg, by rw [hre cfg]; exact C01_builder_rebuild_exact cfg e c ha hl h⟩

/-- **`BuilderLegal` discharged**: for an S-expression of legal identifiers, finite numbers and legal nesting, the three
layers that `C01_builder_api` assumes hold. -/
theorem C01_builder_legal (cfg : Config) (e : BSx) (c : Circuit) (ha : cfg.autoload = false)
    (hl : SxLegal e = true) (h : (build cfg e).bind tooManyRegisters = .ok c) (hi : IntsBounded c) :
    BuilderLegal cfg e c := by
  have hf := C01_builder_facts cfg e c ha hl h
  obtain ⟨t, hg, hp⟩ := C01_builder_parsed cfg e c ha hl h hi
  exact { built := h, printable := hf.printable
          lexes := C01_lex_gen c hf.printable (C01_builder_lexsafe cfg e c ha hl h hi)
          rebuilds := ⟨c, C01_builder_rebuild_exact cfg e c ha hl h, C20.C20_refl_parsed_any cfg t c hp, rfl⟩ }

/-- **C01 for the builder API** (`autoload_pulses=False`, any `inject_pulses`): the generated text of a circuit built from
a legal S-expression is accepted, parses to a circuit `==` to the built one, and generating again reproduces the text. -/
theorem C01_roundtrip_builder (cfg : Config) (e : BSx) (c : Circuit) (ha : cfg.autoload = false)
    (hl : SxLegal e = true) (h : (build cfg e).bind tooManyRegisters = .ok c) (hi : IntsBounded c) :
    ∃ t c', gen c = .ok t ∧ parseProgram cfg t = .ok c' ∧ circuitEq c c' = true ∧ gen c' = .ok t :=
  C01_builder_api cfg e c (C01_builder_legal cfg e c ha hl h hi)

/-- … **with the same gate-level meaning** under every override environment: whatever circuit the generated text parses
to has the meaning of the built one — identically (`=`: the re-parsed circuit is the built one) and a fortiori up to
`C20.MeaningEq`. -/
theorem C01_meaning_builder (cfg : Config) (e : BSx) (c : Circuit) (ha : cfg.autoload = false)
    (hl : SxLegal e = true) (h : (build cfg e).bind tooManyRegisters = .ok c) (hi : IntsBounded c) :
    ∃ t, gen c = .ok t ∧ ∀ c', parseProgram cfg t = .ok c' →
      circuitEq c c' = true ∧ gen c' = .ok t ∧
      ∀ ρ : Sem.Env, Sem.meaning ρ c' = Sem.meaning ρ c ∧ C20.MeaningEq (Sem.meaning ρ c) (Sem.meaning ρ c') := by
  obtain ⟨t, hg, hp⟩ := C01_builder_parsed cfg e c ha hl h hi
  refine ⟨t, hg, ?_⟩
  intro c' hp'
  have hcc : c' = c := by rw [hp] at hp'; cases hp'; rfl
  subst hcc
  have heq := C20.C20_refl_parsed_any cfg t c' hp
  exact ⟨heq, hg, fun ρ => ⟨rfl, (C20.C20_sound_parsed_any cfg cfg t t c' c' ρ hp hp heq).2.2⟩⟩


/-! ## every configuration (`autoload_pulses` on or off), children in any order

With autoload on a `usepulses` statement loads a module into the gate table and is refused once a statement or a macro has
been recorded; `let` / `register` / `map` may still follow statements.  `auto_to_plain_any` (`Lemmas/RoundTripSx.lean`)
extends the simulation of the autoload builder by the plain one (`Lemmas/RoundTripAutoload.lean`) from "header statements
first" to any order the builder accepts, so nothing but `SxLegal` is asked of the S-expression. -/

/-- **A circuit built from a legal S-expression is the circuit `parse_jaqal_string` makes of its own generated text — in
every configuration** (any `inject_pulses`, `autoload_pulses` on or off, any modules), re-parsing with the same
configuration. -/
theorem C01_builder_parsed_any (cfg : Config) (e : BSx) (c : Circuit) (hl : SxLegal e = true)
    (h : (build cfg e).bind tooManyRegisters = .ok c) (hi : IntsBounded c) :
    ∃ t, gen c = .ok t ∧ parseProgram cfg t = .ok c := by
  obtain ⟨hb, ht, hone⟩ := built_inv h
  obtain ⟨cs, rfl, hs, hcs⟩ := sxLegal_inv hl
  rw [C07_memo_transparent] at hb
  have hfacts := buildNoMemo_facts_sx cfg hcs hb
  have hsafe := lexSafe_of (buildNoMemo_safe_sx cfg hs hb) hi
  have hre := buildNoMemo_rebuild_sx cfg hcs hb hone
  obtain ⟨t, hg, hred⟩ := Passes.C10_text_reduces c hfacts.printable hsafe
  refine ⟨t, hg, ?_⟩
  rw [hred cfg]
  unfold parseBuild
  rw [C07_memo_transparent, hre]
  exact ht

/-- `BuilderLegal` discharged in every configuration -/
theorem C01_builder_legal_any (cfg : Config) (e : BSx) (c : Circuit) (hl : SxLegal e = true)
    (h : (build cfg e).bind tooManyRegisters = .ok c) (hi : IntsBounded c) : BuilderLegal cfg e c := by
  obtain ⟨t, hg, hp⟩ := C01_builder_parsed_any cfg e c hl h hi
  have hpr := C01_printable_any cfg t c hp
  have hpb : parseBuild cfg (unbuild c) = .ok c := C01_rebuild_exact_any cfg t c hp
  exact { built := h, printable := hpr
          lexes := C01_lex_gen c hpr (C01_lexsafe_any cfg t c hp hi)
          rebuilds := ⟨c, hpb, C20.C20_refl_parsed_any cfg t c hp, rfl⟩ }

/-- **C01 for the builder API, every configuration** -/
theorem C01_roundtrip_builder_any (cfg : Config) (e : BSx) (c : Circuit) (hl : SxLegal e = true)
    (h : (build cfg e).bind tooManyRegisters = .ok c) (hi : IntsBounded c) :
    ∃ t c', gen c = .ok t ∧ parseProgram cfg t = .ok c' ∧ circuitEq c c' = true ∧ gen c' = .ok t :=
  C01_builder_api cfg e c (C01_builder_legal_any cfg e c hl h hi)

/-- … with the same meaning, every configuration -/
theorem C01_meaning_builder_any (cfg : Config) (e : BSx) (c : Circuit) (hl : SxLegal e = true)
    (h : (build cfg e).bind tooManyRegisters = .ok c) (hi : IntsBounded c) :
    ∃ t, gen c = .ok t ∧ ∀ c', parseProgram cfg t = .ok c' →
      circuitEq c c' = true ∧ gen c' = .ok t ∧
      ∀ ρ : Sem.Env, Sem.meaning ρ c' = Sem.meaning ρ c ∧ C20.MeaningEq (Sem.meaning ρ c) (Sem.meaning ρ c') := by
  obtain ⟨t, hg, hp⟩ := C01_builder_parsed_any cfg e c hl h hi
  refine ⟨t, hg, ?_⟩
  intro c' hp'
  have hcc : c' = c := by rw [hp] at hp'; cases hp'; rfl
  subst hcc
  have heq := C20.C20_refl_parsed_any cfg t c' hp
  exact ⟨heq, hg, fun ρ => ⟨rfl, (C20.C20_sound_parsed_any cfg cfg t t c' c' ρ hp hp heq).2.2⟩⟩

/-- The bound on the integers cannot be dropped (it cannot for texts: `C01_big_stop`, and the tree of a text is a legal
S-expression: `C01_sxLegal_of_parsed`): the statement without `IntsBounded c` is FALSE. -/
def C01_roundtrip_builder_full : Prop :=
  ∀ (cfg : Config) (e : BSx) (c : Circuit), SxLegal e = true → (build cfg e).bind tooManyRegisters = .ok c →
    ∃ t c', gen c = .ok t ∧ parseProgram cfg t = .ok c' ∧ circuitEq c c' = true ∧ gen c' = .ok t

/-! ## the theorems for texts are instances -/

/-- **The tree of every accepted text is a legal S-expression with its header statements first** (and the circuit is what
`build` and the register-count check make of that tree): `C01_roundtrip_builder_any` applied to it is
`C01_roundtrip_bounded_any`. -/
theorem C01_sxLegal_of_parsed (cfg : Config) (txt : String) (c : Circuit) (h : parseProgram cfg txt = .ok c) :
    ∃ sx, parseText txt = .ok sx ∧ SxLegal (BSx.ofSx sx) = true ∧ headersFirst (BSx.ofSx sx) = true ∧
      (build cfg (BSx.ofSx sx)).bind tooManyRegisters = .ok c := by
  obtain ⟨sx, hs, bs, hp, he, hh, hb, hnb, hsafe, hnm, hbd, hpb, ht⟩ := parseProgram_shape h
  have hnobr := buildNoMemo_no_branch hnm
  refine ⟨sx, hp, ?_, ?_, ?_⟩
  · rw [he]
    exact sxLegal_of (fun x hx => ⟨hsafe x hx, hnobr x hx⟩)
  · rw [he]
    refine headersFirst_of ?_ ?_
    · intro x hx
      rcases hsafe x (List.mem_append_left _ hx) with hx' | hx'
      · exact hx'
      · exact absurd (rank_top_ge hx'.toG) (by have := rank_header_le (hh x hx); omega)
    · intro x hx
      refine ⟨?_, hnobr x (List.mem_append_right _ hx)⟩
      rcases hsafe x (List.mem_append_right _ hx) with hx' | hx'
      · exact absurd (rank_top_ge (hb x hx)) (by have := rank_header_le hx'.toG; omega)
      · exact hx'
  · rw [hbd]; exact ht

/-- `C01_roundtrip_bounded_any` re-derived from the builder theorem -/
example (cfg : Config) (txt : String) (c : Circuit) (h : parseProgram cfg txt = .ok c) (hi : IntsBounded c) :
    ∃ t c', gen c = .ok t ∧ parseProgram cfg t = .ok c' ∧ circuitEq c c' = true ∧ gen c' = .ok t := by
  obtain ⟨sx, _, hl, _, hb⟩ := C01_sxLegal_of_parsed cfg txt c h
  exact C01_roundtrip_builder_any cfg _ c hl hb hi


/-! ## the hypotheses are needed

Each input below was also handed to the REAL `jaqalpaq.core.circuitbuilder.build`, `generate_jaqal_program` and
`parse_jaqal_string(…, autoload_pulses=False)` (`/venv/bin/python`); the outcome is quoted in the comment.  In the model
everything is evaluated by the kernel. -/

/-- the conclusion of C01 for one circuit -/
def RoundTrips (cfg : Config) (c : Circuit) : Prop :=
  ∃ t c', gen c = .ok t ∧ parseProgram cfg t = .ok c' ∧ circuitEq c c' = true ∧ gen c' = .ok t

/-- evaluated: `e` builds to an `IntsBounded` circuit whose generated text is `txt`, and the parser refuses `txt` -/
def textRefused (e : BSx) (txt : String) : Bool :=
  match (build {} e).bind tooManyRegisters with
  | .ok c =>
    decide (IntsBounded c) && decide (gen c = .ok txt) &&
      (match parseProgram {} txt with
       | .error _ => true
       | .ok _ => false)
  | .error _ => false

theorem not_roundTrips_of_textRefused {e : BSx} {txt : String} (h : textRefused e txt = true) :
    ∃ c, (build {} e).bind tooManyRegisters = .ok c ∧ IntsBounded c ∧ gen c = .ok txt ∧
      (∃ err, parseProgram {} txt = .error err) ∧ ¬ RoundTrips {} c := by
  unfold textRefused at h
  cases hb : (build {} e).bind tooManyRegisters with
  | error err => rw [hb] at h; cases h
  | ok c =>
    rw [hb] at h
    simp only [Bool.and_eq_true, decide_eq_true_eq] at h
    obtain ⟨⟨hi, hg⟩, hp⟩ := h
    cases hpp : parseProgram {} txt with
    | ok c' => rw [hpp] at hp; cases hp
    | error err =>
      refine ⟨c, rfl, hi, hg, ⟨err, rfl⟩, ?_⟩
      rintro ⟨t, c', hg', hp', _⟩
      rw [hg] at hg'
      cases hg'
      rw [hpp] at hp'
      cases hp'

/-- evaluated: `e` builds to an `IntsBounded` circuit for which the generator raises -/
def genFails (e : BSx) : Bool :=
  match (build {} e).bind tooManyRegisters with
  | .ok c =>
    decide (IntsBounded c) &&
      (match gen c with
       | .error _ => true
       | .ok _ => false)
  | .error _ => false

theorem not_roundTrips_of_genFails {e : BSx} (h : genFails e = true) :
    ∃ c, (build {} e).bind tooManyRegisters = .ok c ∧ IntsBounded c ∧ (∃ err, gen c = .error err) ∧
      ¬ RoundTrips {} c := by
  unfold genFails at h
  cases hb : (build {} e).bind tooManyRegisters with
  | error err => rw [hb] at h; cases h
  | ok c =>
    rw [hb] at h
    simp only [Bool.and_eq_true, decide_eq_true_eq] at h
    obtain ⟨hi, hg⟩ := h
    cases hgg : gen c with
    | ok t => rw [hgg] at hg; cases hg
    | error err =>
      refine ⟨c, rfl, hi, ⟨err, hgg⟩, ?_⟩
      rintro ⟨t, c', hg', _⟩
      rw [hgg] at hg'
      cases hg'

/-- the number of statements of the block that is the only statement of the only top-level block -/
def innerLen (c : Circuit) : Option Nat :=
  match c.body with
  | .block _ _ _ [.block _ _ _ b] => some b.length
  | _ => none

theorem innerLen_eq {a b : Circuit} (h : circuitEq a b = true) {m n : Nat} (ha : innerLen a = some m)
    (hb : innerLen b = some n) : m = n := by
  have hbody := (C20.C20_discriminates_circuit h).2.2.2.2.1
  unfold innerLen at ha hb
  split at ha
  · rename_i p q i p2 q2 i2 b2 hab
    split at hb
    · rename_i p' q' i' p2' q2' i2' b2' hbb
      rw [hab, hbb] at hbody
      have h1 := (C20.C20_discriminates_block hbody).2.2.2.2
      have h2 : stmtEq (.block p2 q2 i2 b2) (.block p2' q2' i2' b2') = true :=
        C20.C20_discriminates_statement (pre := []) (pre' := []) (post := []) (post' := []) rfl h1
      have h3 := (C20.C20_discriminates_block h2).2.2.2.1
      simp only [Option.some.injEq] at ha hb
      omega
    · cases hb
  · cases ha

/-- evaluated: `e` builds to an `IntsBounded` circuit whose text `txt` is accepted, generates `txt` again, but parses to a
circuit that is not `==` to the built one (the inner blocks have `m ≠ n` statements) -/
def eqRefused (e : BSx) (txt : String) (m n : Nat) : Bool :=
  match (build {} e).bind tooManyRegisters with
  | .ok c =>
    decide (IntsBounded c) && decide (gen c = .ok txt) && decide (innerLen c = some m) && decide (m ≠ n) &&
      (match parseProgram {} txt with
       | .ok c' => decide (innerLen c' = some n) && decide (gen c' = .ok txt)
       | .error _ => false)
  | .error _ => false

theorem not_roundTrips_of_eqRefused {e : BSx} {txt : String} {m n : Nat} (h : eqRefused e txt m n = true) :
    ∃ c c', (build {} e).bind tooManyRegisters = .ok c ∧ IntsBounded c ∧ gen c = .ok txt ∧
      parseProgram {} txt = .ok c' ∧ gen c' = .ok txt ∧ circuitEq c c' = false ∧ ¬ RoundTrips {} c := by
  unfold eqRefused at h
  cases hb : (build {} e).bind tooManyRegisters with
  | error err => rw [hb] at h; cases h
  | ok c =>
    rw [hb] at h
    simp only [Bool.and_eq_true, decide_eq_true_eq] at h
    obtain ⟨⟨⟨⟨hi, hg⟩, hm⟩, hne⟩, hp⟩ := h
    cases hpp : parseProgram {} txt with
    | error err => rw [hpp] at hp; cases hp
    | ok c' =>
      rw [hpp] at hp
      simp only [Bool.and_eq_true, decide_eq_true_eq] at hp
      have hneq : circuitEq c c' = false := by
        cases hq : circuitEq c c' with
        | false => rfl
        | true => exact absurd (innerLen_eq hq hm hp.1) hne
      refine ⟨c, c', rfl, hi, hg, rfl, hp.2, hneq, ?_⟩
      rintro ⟨t, c'', hg', hp', he, _⟩
      rw [hg] at hg'
      cases hg'
      rw [hpp] at hp'
      cases hp'
      rw [hneq] at he
      cases he

def gateG : BSx := .list [.str "gate", .str "g"]
def gateH : BSx := .list [.str "gate", .str "h"]

/-- **"legal identifiers" is needed** (1): `build(("circuit", ("register", "a b", 2), ("gate", "g", ("array_item", "a b", 0))))`
is accepted — the builder does not look at the characters of a name — and written verbatim; the text does not parse.
Real code: text `'register a b[2]\n\ng a b[0]\n'`, then `JaqalParseError <string>:1:12: error: At token b`. -/
def cxSpace : BSx :=
  .list [.str "circuit", .list [.str "register", .str "a b", .int 2],
    .list [.str "gate", .str "g", .list [.str "array_item", .str "a b", .int 0]]]

theorem C01_builder_needs_identifier_space :
    SxLegal cxSpace = false ∧ textRefused cxSpace "register a b[2]\n\ng a b[0]\n" = true := by decide +kernel

/-- (2) a name that starts with a digit.  Real code: `'register 1x[2]\n\ng 1x[0]\n'`, `JaqalParseError … 1:10: At token 1`. -/
def cxDigit : BSx :=
  .list [.str "circuit", .list [.str "register", .str "1x", .int 2],
    .list [.str "gate", .str "g", .list [.str "array_item", .str "1x", .int 0]]]

theorem C01_builder_needs_identifier_digit :
    SxLegal cxDigit = false ∧ textRefused cxDigit "register 1x[2]\n\ng 1x[0]\n" = true := by decide +kernel

/-- (3) a keyword as a name: `let loop 2; g loop`.  Real code: `'let loop 2\n\n\ng loop\n'`, `JaqalParseError … 1:5: At token
loop`.  (This is why `LegalName` has the clause `keyword? n = none`.) -/
def cxKeyword : BSx :=
  .list [.str "circuit", .list [.str "let", .str "loop", .int 2], .list [.str "gate", .str "g", .str "loop"]]

theorem C01_builder_needs_identifier_keyword :
    SxLegal cxKeyword = false ∧ textRefused cxKeyword "let loop 2\n\n\ng loop\n" = true := by decide +kernel

/-- (4) a module name that is not a (dotted) identifier.  Real code: `'from a b usepulses *\n\n\n'`,
`JaqalParseError … 1:8: At token b`. -/
def cxModule : BSx := .list [.str "circuit", .list [.str "usepulses", .str "a b", .str "*"]]

theorem C01_builder_needs_module_name :
    SxLegal cxModule = false ∧ textRefused cxModule "from a b usepulses *\n\n\n" = true := by decide +kernel

/-- **"legal block nesting" is needed** (1): a loop directly inside a parallel block is accepted by the builder and
written; Jaqal has no such statement.  Real code: `'\n<\n\tloop 2 {\n\t\tg\n\t}\n>\n'`, `JaqalParseError … 3:2: At token loop`. -/
def cxLoopInPar : BSx :=
  .list [.str "circuit", .list [.str "parallel_block", .list [.str "loop", .int 2, .list [.str "sequential_block", gateG]]]]

theorem C01_builder_needs_nesting_loop_in_par :
    SxLegal cxLoopInPar = false ∧ textRefused cxLoopInPar "\n<\n\tloop 2 {\n\t\tg\n\t}\n>\n" = true := by decide +kernel

/-- (2) **a sequential block directly inside a sequential block**: accepted by the builder; the generator splices the
inner block into the outer one (`{ g ; h }`), so the text is accepted and is a fixed point of generate-and-parse, but the
re-parsed circuit is NOT `==` to the built one.  Real code: text `'\n{\n\tg\n\th\n}\n'`, `c == parse(text)` is `False`,
`generate(parse(text)) == text` is `True`. -/
def cxSeqInSeq : BSx :=
  .list [.str "circuit", .list [.str "sequential_block", .list [.str "sequential_block", gateG, gateH]]]

theorem C01_builder_needs_nesting_seq_in_seq :
    SxLegal cxSeqInSeq = false ∧ eqRefused cxSeqInSeq "\n{\n\tg\n\th\n}\n" 1 2 = true := by decide +kernel

/-- (3) a loop whose body is not a block is accepted by `build` (`Loop.__init__` does not look at the body), and the
generator then fails.  Real code: `generate_jaqal_program` raises `AttributeError: 'GateStatement' object has no
attribute 'subcircuit'` (not a `JaqalError`). -/
def cxLoopGate : BSx := .list [.str "circuit", .list [.str "loop", .int 2, gateG]]

theorem C01_builder_needs_nesting_loop_body :
    SxLegal cxLoopGate = false ∧ genFails cxLoopGate = true := by decide +kernel

/-- **"finite numbers" is needed**: a float beyond the range of a double (`Dec.overflows`; in Python such a literal IS
`inf`) is accepted by the builder.  Model: written `1.0e+999` and refused by the lexer.  Real code: `build(("circuit",
("gate", "g", float("inf"))))` is accepted and `generate_jaqal_program` raises `JaqalError: Cannot write non-finite
number inf in Jaqal` (same for `nan`): no text at all. -/
def cxInf : BSx := .list [.str "circuit", .list [.str "gate", .str "g", .flt ⟨false, 1, 999⟩]]

theorem C01_builder_needs_finite :
    SxLegal cxInf = false ∧ textRefused cxInf "\ng 1.0e+999\n" = true := by decide +kernel

/-- the counterexamples, as failures of the conclusion of `C01_roundtrip_builder` -/
theorem C01_builder_hypotheses_needed :
    (∀ e ∈ [cxSpace, cxDigit, cxKeyword, cxModule, cxLoopInPar, cxSeqInSeq, cxLoopGate, cxInf],
      ∃ c, (build {} e).bind tooManyRegisters = .ok c ∧ IntsBounded c ∧ ¬ RoundTrips {} c) := by
  intro e he
  simp only [List.mem_cons, List.not_mem_nil, or_false] at he
  rcases he with rfl | rfl | rfl | rfl | rfl | rfl | rfl | rfl
  · obtain ⟨c, h1, h2, _, _, h3⟩ := not_roundTrips_of_textRefused C01_builder_needs_identifier_space.2
    exact ⟨c, h1, h2, h3⟩
  · obtain ⟨c, h1, h2, _, _, h3⟩ := not_roundTrips_of_textRefused C01_builder_needs_identifier_digit.2
    exact ⟨c, h1, h2, h3⟩
  · obtain ⟨c, h1, h2, _, _, h3⟩ := not_roundTrips_of_textRefused C01_builder_needs_identifier_keyword.2
    exact ⟨c, h1, h2, h3⟩
  · obtain ⟨c, h1, h2, _, _, h3⟩ := not_roundTrips_of_textRefused C01_builder_needs_module_name.2
    exact ⟨c, h1, h2, h3⟩
  · obtain ⟨c, h1, h2, _, _, h3⟩ := not_roundTrips_of_textRefused C01_builder_needs_nesting_loop_in_par.2
    exact ⟨c, h1, h2, h3⟩
  · obtain ⟨c, _, h1, h2, _, _, _, _, h3⟩ := not_roundTrips_of_eqRefused C01_builder_needs_nesting_seq_in_seq.2
    exact ⟨c, h1, h2, h3⟩
  · obtain ⟨c, h1, h2, _, h3⟩ := not_roundTrips_of_genFails C01_builder_needs_nesting_loop_body.2
    exact ⟨c, h1, h2, h3⟩
  · obtain ⟨c, h1, h2, _, _, h3⟩ := not_roundTrips_of_textRefused C01_builder_needs_finite.2
    exact ⟨c, h1, h2, h3⟩

/-- **The register-count check is needed** (it is part of `parse_jaqal_string`, not of `build`): `build` accepts two
`register` statements, the text is written, and `parse_jaqal_string` refuses it (`JaqalError: Circuit has too many
registers: ['r', 's']`).  The S-expression is legal; the hypothesis `(build cfg e).bind tooManyRegisters = .ok c` fails. -/
def cxTwoRegs : BSx :=
  .list [.str "circuit", .list [.str "register", .str "r", .int 1], .list [.str "register", .str "s", .int 1]]

theorem C01_builder_needs_one_register :
    SxLegal cxTwoRegs = true ∧
    (match build {} cxTwoRegs with
     | .ok c => decide (gen c = .ok "register r[1]\nregister s[1]\n\n\n")
     | .error _ => false) = true ∧
    (match parseProgram {} "register r[1]\nregister s[1]\n\n\n" with
     | .error (.jaqal r) => r == "too-many-registers"
     | _ => false) = true := by decide +kernel

/-! ## non-vacuity -/

/-- a builder program that NO text has as its tree — a `let`, two `map`s and a `usepulses` AFTER a gate statement and a
macro: lets of both kinds, a let-sized register, an index alias and a slice alias, a macro with nested blocks whose
parameter `a` shadows the let, a loop, subcircuits with and without a count -/
def exB : BSx :=
  .list [.str "circuit",
    .list [.str "let", .str "n", .int 4],
    .list [.str "register", .str "r", .str "n"],
    .list [.str "gate", .str "g", .list [.str "array_item", .str "r", .int 0], .flt ⟨false, 15, -1⟩],
    .list [.str "let", .str "a", .flt ⟨true, 25, -8⟩],
    .list [.str "map", .str "s", .str "r", .int 0, .str "n", .int 2],
    .list [.str "macro", .str "m", .str "a", .str "x",
      .list [.str "sequential_block",
        .list [.str "gate", .str "g", .str "x", .str "a"],
        .list [.str "parallel_block",
          .list [.str "gate", .str "h", .str "x"],
          .list [.str "sequential_block",
            .list [.str "gate", .str "h", .list [.str "array_item", .str "s", .int 1]]]]]],
    .list [.str "map", .str "q", .str "r", .int 1],
    .list [.str "loop", .int 2,
      .list [.str "sequential_block",
        .list [.str "gate", .str "m", .flt ⟨false, 15, -1⟩, .str "q"],
        .list [.str "subcircuit_block", .int 3,
          .list [.str "gate", .str "g", .list [.str "array_item", .str "r", .int 0], .str "a"]]]],
    .list [.str "usepulses", .str "qscout.v1.std", .str "*"],
    .list [.str "subcircuit_block", .str "",
      .list [.str "gate", .str "h", .str "q"]]]

/-- the text the generator writes for it, in the model and (checked) in the real code -/
def exBText : String :=
  "from qscout.v1.std usepulses *\n\nlet n 4\nlet a -2.5e-07\n\nregister r[n]\n\nmap s r[0:n:2]\nmap q r[1]\n\nmacro m a x {\n\tg x a\n\t<\n\t\th x\n\t\t{\n\t\t\th s[1]\n\t\t}\n\t>\n}\n\ng r[0] 1.5\nloop 2 {\n\tm 1.5 q\n\tsubcircuit 3 {\n\t\tg r[0] a\n\t}\n}\nsubcircuit {\n\th q\n}\n"

/-- evaluated by the kernel: `exB` is legal, its header statements do NOT come first, it builds to an `IntsBounded`
circuit with text `exBText`, that text is accepted, the re-parsed circuit has the same lets, registers and aliases,
macro names and number of statements, and generates `exBText` again -/
theorem exB_evaluated :
    SxLegal exB = true ∧ headersFirst exB = false ∧
    (match (build {} exB).bind tooManyRegisters with
     | .ok c =>
       decide (IntsBounded c) && decide (gen c = .ok exBText) &&
         (match parseProgram {} exBText with
          | .ok c' => decide (gen c' = .ok exBText) && decide (c'.constants = c.constants) &&
              decide (c'.registers = c.registers) && decide (c'.macros.map (·.name) = c.macros.map (·.name)) &&
              decide (c'.body.stmts.length = c.body.stmts.length) && decide (c.body.stmts.length = 3)
          | .error _ => false)
     | .error _ => false) = true := by decide +kernel

/-- … and the theorems apply to it: the hypotheses of `C01_roundtrip_builder` / `C01_meaning_builder` are satisfiable by a
program with lets, a register, alias slices, a macro, a loop and a counted subcircuit -/
example : ∃ c, (build {} exB).bind tooManyRegisters = .ok c ∧ gen c = .ok exBText ∧ parseProgram {} exBText = .ok c ∧
    circuitEq c c = true ∧ ∀ ρ : Sem.Env, C20.MeaningEq (Sem.meaning ρ c) (Sem.meaning ρ c) := by
  have h0 := exB_evaluated
  obtain ⟨hl, _, h0⟩ := h0
  cases hb : (build {} exB).bind tooManyRegisters with
  | error err => rw [hb] at h0; cases h0
  | ok c =>
    rw [hb] at h0
    simp only [Bool.and_eq_true, decide_eq_true_eq] at h0
    obtain ⟨⟨hi, hg⟩, _⟩ := h0
    obtain ⟨t, hg', hall⟩ := C01_meaning_builder {} exB c rfl hl hb hi
    obtain ⟨t2, hg2, hp⟩ := C01_builder_parsed {} exB c rfl hl hb hi
    have ht : t2 = exBText := by rw [hg] at hg2; cases hg2; rfl
    subst ht
    have ht' : t = exBText := by rw [hg] at hg'; cases hg'; rfl
    subst ht'
    obtain ⟨he, _, hm⟩ := hall c hp
    exact ⟨c, rfl, hg, hp, he, fun ρ => (hm ρ).2⟩

/-- `autoload_pulses=True` (the configuration `C20.exAuto`: two modules, the second replacing `X` of the first), with header
statements the builder accepts but no text can have at that place: the register AFTER the macro, a `let` after a gate
statement, `usepulses` between them before anything is recorded -/
def exBAuto : BSx :=
  .list [.str "circuit",
    .list [.str "usepulses", .str "m1", .str "*"],
    .list [.str "let", .str "k", .int 3],
    .list [.str "usepulses", .str "m2", .str "*"],
    .list [.str "macro", .str "m", .str "q", .list [.str "sequential_block", .list [.str "gate", .str "X", .str "q", .str "k"]]],
    .list [.str "register", .str "r", .int 2],
    .list [.str "gate", .str "m", .list [.str "array_item", .str "r", .int 0]],
    .list [.str "let", .str "n", .int 1],
    .list [.str "gate", .str "R", .list [.str "array_item", .str "r", .str "n"], .flt ⟨false, 5, -1⟩]]

theorem exBAuto_evaluated :
    SxLegal exBAuto = true ∧ headersFirst exBAuto = false ∧
    (match (build C20.exAuto exBAuto).bind tooManyRegisters with
     | .ok c => decide (IntsBounded c) && decide (c.usepulses = [("m1", "*"), ("m2", "*")]) &&
         decide (c.body.stmts.length = 2)
     | .error _ => false) = true := by decide +kernel

/-- … so it survives the round trip in that configuration -/
example : ∃ c t, (build C20.exAuto exBAuto).bind tooManyRegisters = .ok c ∧ gen c = .ok t ∧
    parseProgram C20.exAuto t = .ok c := by
  obtain ⟨hl, _, h0⟩ := exBAuto_evaluated
  cases hb : (build C20.exAuto exBAuto).bind tooManyRegisters with
  | error err => rw [hb] at h0; cases h0
  | ok c =>
    rw [hb] at h0
    simp only [Bool.and_eq_true, decide_eq_true_eq] at h0
    obtain ⟨t, hg, hp⟩ := C01_builder_parsed_any C20.exAuto exBAuto c hl hb h0.1.1
    exact ⟨c, t, rfl, hg, hp⟩

#print axioms C01_builder_rebuild_exact
#print axioms C01_builder_facts
#print axioms C01_builder_lexsafe
#print axioms C01_builder_parsed
#print axioms C01_builder_legal
#print axioms C01_roundtrip_builder
#print axioms C01_meaning_builder
#print axioms C01_builder_parsed_any
#print axioms C01_builder_legal_any
#print axioms C01_roundtrip_builder_any
#print axioms C01_meaning_builder_any
#print axioms C01_sxLegal_of_parsed
#print axioms not_roundTrips_of_textRefused
#print axioms not_roundTrips_of_genFails
#print axioms not_roundTrips_of_eqRefused
#print axioms C01_builder_needs_identifier_space
#print axioms C01_builder_needs_identifier_digit
#print axioms C01_builder_needs_identifier_keyword
#print axioms C01_builder_needs_module_name
#print axioms C01_builder_needs_nesting_loop_in_par
#print axioms C01_builder_needs_nesting_seq_in_seq
#print axioms C01_builder_needs_nesting_loop_body
#print axioms C01_builder_needs_finite
#print axioms C01_builder_hypotheses_needed
#print axioms C01_builder_needs_one_register
#print axioms exB_evaluated
#print axioms exBAuto_evaluated

end Jaqal.C01
