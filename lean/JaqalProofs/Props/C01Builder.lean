import JaqalProofs.Lemmas.RoundTripSx
import JaqalProofs.Props.C10Text
/-!
# C01 for the builder API

"… (and every circuit built through the builder API from legal identifiers and finite numbers within Jaqal's legal block
nesting) the text produced by the code generator is itself accepted by the parser and parses to an equal circuit with the
same gate-level meaning.  Generating again reproduces the same text byte for byte."

`Props/C01.lean` has `C01_builder_api`, which ASSUMES the three layers (`BuilderLegal`: `printable`, `lexes`, `rebuilds`).
This file discharges them from a decidable condition on the S-expression alone.

* `SxLegal e` (`Lemmas/RoundTripSx.lean`, a `Bool`): `e = ("circuit", child …)`, each child a header statement, a macro
  definition or a statement, in any order, made of strings / ints / floats / `None` / lists only; every identifier a
  `LegalName` (module names `SafeMod`), every float `FloatOK` (canonical, finite), blocks nested as in Jaqal.
* `C01_builder_legal` : `SxLegal e → (build cfg e).bind tooManyRegisters = .ok c → IntsBounded c → BuilderLegal cfg e c`
  (`autoload_pulses=False`; `C01_builder_legal_any` for every configuration when the header statements come first).
* `C01_builder_parsed` : … `→ ∃ t, gen c = .ok t ∧ parseProgram cfg t = .ok c` — **the built circuit IS the circuit
  `parse_jaqal_string` makes of its own generated text**; so every theorem about parser-produced circuits (C01 … C20)
  applies to it.
* `C01_roundtrip_builder`, `C01_meaning_builder` : the property.
* `C01_sxLegal_of_parsed` : the tree of every accepted text is `SxLegal`, so these theorems subsume the ones for texts.
* the hypotheses are needed: `C01_builder_needs_*` (each evaluated in the model; the same inputs were run through the real
  `jaqalpaq.core.circuitbuilder.build` / `generate_jaqal_program` / `parse_jaqal_string`, see the comments).
-/
set_option linter.unusedVariables false
namespace Jaqal.C01
open Jaqal Jaqal.Lexer Jaqal.Parser Jaqal.Grammar Jaqal.Builder Jaqal.Generator Jaqal.PyEq Jaqal.Pipeline Jaqal.RoundTrip
open Jaqal.Autoload

/-- `build` followed by the register-count check of `parse_jaqal_string` -/
theorem built_inv {cfg : Config} {e : BSx} {c : Circuit} (h : (build cfg e).bind tooManyRegisters = .ok c) :
    build cfg e = .ok c ∧ tooManyRegisters c = .ok c ∧ (c.registers.filter isFundamental).length ≤ 1 := by
  cases hb : build cfg e with
  | error err => rw [hb] at h; cases h
  | ok c0 =>
    rw [hb] at h
    have ht : tooManyRegisters c0 = .ok c := h
    have hc0 : c0 = c ∧ (c0.registers.filter isFundamental).length ≤ 1 := by
      unfold tooManyRegisters at ht
      split at ht
      · simp [throw_eq] at ht
      · refine ⟨by simpa [pure, Except.pure] using ht, by omega⟩
    obtain ⟨rfl, h1⟩ := hc0
    exact ⟨rfl, ht, h1⟩

/-! ## the three layers, `autoload_pulses=False` -/

/-- **Layer C for the builder API**: the tree the generator writes for a circuit built from a legal S-expression is
built, in the same configuration, to exactly that circuit — whatever the order of the children of `e`. -/
theorem C01_builder_rebuild_exact (cfg : Config) (e : BSx) (c : Circuit) (ha : cfg.autoload = false)
    (hl : SxLegal e = true) (h : (build cfg e).bind tooManyRegisters = .ok c) :
    parseBuild cfg (unbuild c) = .ok c := by
  obtain ⟨hb, ht, hone⟩ := built_inv h
  obtain ⟨cs, rfl, _, hcs⟩ := sxLegal_inv hl
  rw [C07_memo_transparent] at hb
  have hcs' : ∀ x ∈ canon cs, RoundTrip.GChild x ∧ noBr x = true := fun x hm => hcs x ((canon_perm cs).mem_iff.1 hm)
  have hre := (buildNoMemo_rebuild ha hcs' (canonical_of_built ha hcs hb hone) (buildNoMemo_reorder ha hcs hb)).1
  unfold parseBuild
  rw [C07_memo_transparent, hre]
  exact ht

/-- layer A applies: the built circuit is printable (and has no same-kind nesting, and is well-formed) -/
theorem C01_builder_facts (cfg : Config) (e : BSx) (c : Circuit) (ha : cfg.autoload = false)
    (hl : SxLegal e = true) (h : (build cfg e).bind tooManyRegisters = .ok c) : BuiltFacts c := by
  obtain ⟨hb, _, _⟩ := built_inv h
  obtain ⟨cs, rfl, _, hcs⟩ := sxLegal_inv hl
  rw [C07_memo_transparent] at hb
  exact buildNoMemo_facts ha hcs hb

/-- layer B applies: the names and floats of the built circuit are those of `e`, so with bounded integers the lexer
reads the generated text back -/
theorem C01_builder_lexsafe (cfg : Config) (e : BSx) (c : Circuit) (ha : cfg.autoload = false)
    (hl : SxLegal e = true) (h : (build cfg e).bind tooManyRegisters = .ok c) (hi : IntsBounded c) : LexSafe c := by
  obtain ⟨hb, _, _⟩ := built_inv h
  obtain ⟨cs, rfl, hs, _⟩ := sxLegal_inv hl
  rw [C07_memo_transparent] at hb
  exact lexSafe_of (buildNoMemo_safe ha hs hb) hi

/-- **A circuit built from a legal S-expression is the circuit `parse_jaqal_string` makes of its own generated text.** -/
theorem C01_builder_parsed (cfg : Config) (e : BSx) (c : Circuit) (ha : cfg.autoload = false)
    (hl : SxLegal e = true) (h : (build cfg e).bind tooManyRegisters = .ok c) (hi : IntsBounded c) :
    ∃ t, gen c = .ok t ∧ parseProgram cfg t = .ok c := by
  obtain ⟨t, hg, hre⟩ := Passes.C10_text_reduces c (C01_builder_facts cfg e c ha hl h).printable
    (C01_builder_lexsafe cfg e c ha hl h hi)
  exact ⟨t, hg, by rw [hre cfg]; exact C01_builder_rebuild_exact cfg e c ha hl h⟩

/-- **`BuilderLegal` discharged**: for an S-expression of legal identifiers, finite numbers and legal nesting, the three
layers that `C01_builder_api` assumes hold. -/
theorem C01_builder_legal (cfg : Config) (e : BSx) (c : Circuit) (ha : cfg.autoload = false)
    (hl : SxLegal e = true) (h : (build cfg e).bind tooManyRegisters = .ok c) (hi : IntsBounded c) :
    BuilderLegal cfg e c := by
  have hf := C01_builder_facts cfg e c ha hl h
  obtain ⟨t, hg, hp⟩ := C01_builder_parsed cfg e c ha hl h hi
  exact { built := h, printable := hf.printable
          lexes := C01_lex_gen c hf.printable (C01_builder_lexsafe cfg e c ha hl h hi)
          rebuilds := ⟨c, C01_builder_rebuild_exact cfg e c ha hl h, C20.C20_refl_parsed_any cfg t c hp, rfl⟩ }

/-- **C01 for the builder API** (`autoload_pulses=False`, any `inject_pulses`): the generated text of a circuit built from
a legal S-expression is accepted, parses to a circuit `==` to the built one, and generating again reproduces the text. -/
theorem C01_roundtrip_builder (cfg : Config) (e : BSx) (c : Circuit) (ha : cfg.autoload = false)
    (hl : SxLegal e = true) (h : (build cfg e).bind tooManyRegisters = .ok c) (hi : IntsBounded c) :
    ∃ t c', gen c = .ok t ∧ parseProgram cfg t = .ok c' ∧ circuitEq c c' = true ∧ gen c' = .ok t :=
  C01_builder_api cfg e c (C01_builder_legal cfg e c ha hl h hi)

/-- … **with the same gate-level meaning** under every override environment: whatever circuit the generated text parses
to has the meaning of the built one — identically (`=`: the re-parsed circuit is the built one) and a fortiori up to
`C20.MeaningEq`. -/
theorem C01_meaning_builder (cfg : Config) (e : BSx) (c : Circuit) (ha : cfg.autoload = false)
    (hl : SxLegal e = true) (h : (build cfg e).bind tooManyRegisters = .ok c) (hi : IntsBounded c) :
    ∃ t, gen c = .ok t ∧ ∀ c', parseProgram cfg t = .ok c' →
      circuitEq c c' = true ∧ gen c' = .ok t ∧
      ∀ ρ : Sem.Env, Sem.meaning ρ c' = Sem.meaning ρ c ∧ C20.MeaningEq (Sem.meaning ρ c) (Sem.meaning ρ c') := by
  obtain ⟨t, hg, hp⟩ := C01_builder_parsed cfg e c ha hl h hi
  refine ⟨t, hg, ?_⟩
  intro c' hp'
  have hcc : c' = c := by rw [hp] at hp'; cases hp'; rfl
  subst hcc
  have heq := C20.C20_refl_parsed_any cfg t c' hp
  exact ⟨heq, hg, fun ρ => ⟨rfl, (C20.C20_sound_parsed_any cfg cfg t t c' c' ρ hp hp heq).2.2⟩⟩


/-! ## every configuration (`autoload_pulses` on or off), header statements first -/

/-- the children of a legal program whose header statements come first -/
theorem sxLegal_split {e : BSx} (hl : SxLegal e = true) (hf : headersFirst e = true) :
    ∃ hs bs, e = .list (.str "circuit" :: (hs ++ bs)) ∧ (∀ x ∈ hs, GHeader x) ∧ (∀ x ∈ bs, GTop x) ∧
      ∀ x ∈ hs ++ bs, SChildL x ∧ noBr x = true := by
  obtain ⟨cs, rfl, hs, _⟩ := sxLegal_inv hl
  obtain ⟨hs', bs', rfl, hh, hb⟩ := headersFirst_split hf
  exact ⟨hs', bs', rfl, fun x hx => (hh x hx).toG, fun x hx => (hb x hx).toG, hs⟩

/-- **A circuit built from a legal S-expression whose header statements come first is the circuit `parse_jaqal_string`
makes of its own generated text — in every configuration** (any `inject_pulses`, `autoload_pulses` on or off, any
modules), re-parsing with the same configuration. -/
theorem C01_builder_parsed_any (cfg : Config) (e : BSx) (c : Circuit) (hl : SxLegal e = true)
    (hf : headersFirst e = true) (h : (build cfg e).bind tooManyRegisters = .ok c) (hi : IntsBounded c) :
    ∃ t, gen c = .ok t ∧ parseProgram cfg t = .ok c := by
  obtain ⟨hb, ht, hone⟩ := built_inv h
  obtain ⟨hs, bs, rfl, hh, hbd, hcs⟩ := sxLegal_split hl hf
  rw [C07_memo_transparent] at hb
  have hnb : ∀ x ∈ hs ++ bs, noBr x = true := fun x hx => (hcs x hx).2
  have hfacts := buildNoMemo_facts_any cfg hh hbd hnb hb
  have hsafe := lexSafe_of (buildNoMemo_safe_any cfg hh hbd hcs hb) hi
  have hre := buildNoMemo_rebuild_any cfg hh hbd hnb hb hone
  obtain ⟨t, hg, hred⟩ := Passes.C10_text_reduces c hfacts.printable hsafe
  refine ⟨t, hg, ?_⟩
  rw [hred cfg]
  unfold parseBuild
  rw [C07_memo_transparent, hre]
  exact ht

/-- `BuilderLegal` discharged in every configuration -/
theorem C01_builder_legal_any (cfg : Config) (e : BSx) (c : Circuit) (hl : SxLegal e = true)
    (hf : headersFirst e = true) (h : (build cfg e).bind tooManyRegisters = .ok c) (hi : IntsBounded c) :
    BuilderLegal cfg e c := by
  obtain ⟨t, hg, hp⟩ := C01_builder_parsed_any cfg e c hl hf h hi
  have hpr := C01_printable_any cfg t c hp
  have hpb : parseBuild cfg (unbuild c) = .ok c := C01_rebuild_exact_any cfg t c hp
  exact { built := h, printable := hpr
          lexes := C01_lex_gen c hpr (C01_lexsafe_any cfg t c hp hi)
          rebuilds := ⟨c, hpb, C20.C20_refl_parsed_any cfg t c hp, rfl⟩ }

/-- **C01 for the builder API, every configuration** -/
theorem C01_roundtrip_builder_any (cfg : Config) (e : BSx) (c : Circuit) (hl : SxLegal e = true)
    (hf : headersFirst e = true) (h : (build cfg e).bind tooManyRegisters = .ok c) (hi : IntsBounded c) :
    ∃ t c', gen c = .ok t ∧ parseProgram cfg t = .ok c' ∧ circuitEq c c' = true ∧ gen c' = .ok t :=
  C01_builder_api cfg e c (C01_builder_legal_any cfg e c hl hf h hi)

/-- … with the same meaning, every configuration -/
theorem C01_meaning_builder_any (cfg : Config) (e : BSx) (c : Circuit) (hl : SxLegal e = true)
    (hf : headersFirst e = true) (h : (build cfg e).bind tooManyRegisters = .ok c) (hi : IntsBounded c) :
    ∃ t, gen c = .ok t ∧ ∀ c', parseProgram cfg t = .ok c' →
      circuitEq c c' = true ∧ gen c' = .ok t ∧
      ∀ ρ : Sem.Env, Sem.meaning ρ c' = Sem.meaning ρ c ∧ C20.MeaningEq (Sem.meaning ρ c) (Sem.meaning ρ c') := by
  obtain ⟨t, hg, hp⟩ := C01_builder_parsed_any cfg e c hl hf h hi
  refine ⟨t, hg, ?_⟩
  intro c' hp'
  have hcc : c' = c := by rw [hp] at hp'; cases hp'; rfl
  subst hcc
  have heq := C20.C20_refl_parsed_any cfg t c' hp
  exact ⟨heq, hg, fun ρ => ⟨rfl, (C20.C20_sound_parsed_any cfg cfg t t c' c' ρ hp hp heq).2.2⟩⟩

/-- With `autoload_pulses=True` and header statements AFTER a macro or statement (`let` / `register` / `map`; a `usepulses`
there is refused by the builder) the statement is expected to hold too, but is NOT proved: the simulation of the autoload
builder by the plain one (`Lemmas/RoundTripAutoload.lean`, `auto_to_plain`) is stated for programs `hs ++ bs`, header
statements first.  What is missing: `auto_to_plain` for an arbitrary order of the children (split the children after the
last `usepulses`; before it nothing has touched the gate table, because the builder refuses a `usepulses` once a statement
or macro has been recorded). -/
def C01_builder_any_order_full : Prop :=
  ∀ (cfg : Config) (e : BSx) (c : Circuit), SxLegal e = true → (build cfg e).bind tooManyRegisters = .ok c →
    IntsBounded c → ∃ t, gen c = .ok t ∧ parseProgram cfg t = .ok c

/-- what is proved of it: `autoload_pulses=False`, or header statements first -/
theorem C01_builder_any_order_partial (cfg : Config) (e : BSx) (c : Circuit) (hl : SxLegal e = true)
    (hside : cfg.autoload = false ∨ headersFirst e = true) (h : (build cfg e).bind tooManyRegisters = .ok c)
    (hi : IntsBounded c) : ∃ t, gen c = .ok t ∧ parseProgram cfg t = .ok c := by
  rcases hside with ha | hf
  · exact C01_builder_parsed cfg e c ha hl h hi
  · exact C01_builder_parsed_any cfg e c hl hf h hi

/-! ## the theorems for texts are instances -/

/-- **The tree of every accepted text is a legal S-expression with its header statements first** (and the circuit is what
`build` and the register-count check make of that tree): `C01_roundtrip_builder_any` applied to it is
`C01_roundtrip_bounded_any`. -/
theorem C01_sxLegal_of_parsed (cfg : Config) (txt : String) (c : Circuit) (h : parseProgram cfg txt = .ok c) :
    ∃ sx, parseText txt = .ok sx ∧ SxLegal (BSx.ofSx sx) = true ∧ headersFirst (BSx.ofSx sx) = true ∧
      (build cfg (BSx.ofSx sx)).bind tooManyRegisters = .ok c := by
  obtain ⟨sx, hs, bs, hp, he, hh, hb, hnb, hsafe, hnm, hbd, hpb, ht⟩ := parseProgram_shape h
  have hnobr := buildNoMemo_no_branch hnm
  refine ⟨sx, hp, ?_, ?_, ?_⟩
  · rw [he]
    exact sxLegal_of (fun x hx => ⟨hsafe x hx, hnobr x hx⟩)
  · rw [he]
    refine headersFirst_of ?_ ?_
    · intro x hx
      rcases hsafe x (List.mem_append_left _ hx) with hx' | hx'
      · exact hx'
      · exact absurd (rank_top_ge hx'.toG) (by have := rank_header_le (hh x hx); omega)
    · intro x hx
      refine ⟨?_, hnobr x (List.mem_append_right _ hx)⟩
      rcases hsafe x (List.mem_append_right _ hx) with hx' | hx'
      · exact absurd (rank_top_ge (hb x hx)) (by have := rank_header_le hx'.toG; omega)
      · exact hx'
  · rw [hbd]; exact ht

/-- `C01_roundtrip_bounded_any` re-derived from the builder theorem -/
example (cfg : Config) (txt : String) (c : Circuit) (h : parseProgram cfg txt = .ok c) (hi : IntsBounded c) :
    ∃ t c', gen c = .ok t ∧ parseProgram cfg t = .ok c' ∧ circuitEq c c' = true ∧ gen c' = .ok t := by
  obtain ⟨sx, _, hl, hf, hb⟩ := C01_sxLegal_of_parsed cfg txt c h
  exact C01_roundtrip_builder_any cfg _ c hl hf hb hi

#print axioms C01_builder_rebuild_exact
#print axioms C01_builder_facts
#print axioms C01_builder_lexsafe
#print axioms C01_builder_parsed
#print axioms C01_builder_legal
#print axioms C01_roundtrip_builder
#print axioms C01_meaning_builder
#print axioms C01_builder_parsed_any
#print axioms C01_builder_legal_any
#print axioms C01_roundtrip_builder_any
#print axioms C01_meaning_builder_any
#print axioms C01_builder_any_order_partial
#print axioms C01_sxLegal_of_parsed

end Jaqal.C01
