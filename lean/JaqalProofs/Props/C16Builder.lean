import JaqalProofs.Lemmas.BuilderTotal
/-!
# C16 (builder part) — on parser-produced input the builder fails with JaqalError (or the ImportError of a
`usepulses` load) and with nothing else: no `TypeError` / `ValueError` / `AttributeError` / `KeyError` / `IndexError`,
no non-termination

Model: `JaqalModel/Model/Builder.lean`. `Good err` = `err` is `Err.jaqal _` or `Err.importErr`; in particular it is no
`Err.other _` (which also covers the model's own `Unmodelled…` answers) and not `Err.hang`.

* **`C16_builder_total`**: `ParserSx e → build cfg e = .error err → Good err`, for every configuration (any injected
  gate set, autoload on or off, any import function), where `ParserSx` (in `Lemmas/BuilderTotal.lean`) is the exact
  shape of what `parse_to_sexpression` returns: `["circuit", child…]`, each child a header statement (`register`, `let`,
  the three `map` forms, `usepulses`) or a body statement (gate, loop, sequential / parallel / subcircuit block, branch,
  macro) with the argument shapes of the grammar.
* `C16_parseBuild_total`: the same for `parse_jaqal_string`'s build + "too many registers" check.
* The bridge to the parser model (`Derives ts sx → ParserSx (ofSx sx)`, hence `parseText txt = .ok sx → …`) is in
  `Props/C16ParseBuild.lean`.

How it is proved (`Lemmas/BuilderTotal.lean`): a typing invariant for the values of the context (`ValT` / `RegT`:
register sizes and slice bounds are ints or integer constants, alias sources are registers, qubit indices are ints
or integer constants) kept by every header statement (`valStep_header`), under which `reg.size`, `int(size)` and the
comparisons of `Register.__init__` / `NamedQubit.__init__` never see a value of the wrong Python type
(`qubitCheck_total`, `sliceCheck_total`, `getItem_total`); `callDef_total`: after the count check every parameter is
bound (a pigeonhole argument), so `validateAll` never answers `KeyError`; `rebuildStmt_total`: the `AttributeError`
branch of `rebuild_macro_in_context` is unreachable because a statement whose name is bound to a macro was built from
that macro (`StmtKnown`); `buildAny_total`: one traversal of `anyStep` on the statement shapes, with fuel sufficiency
(`e.depth ≤ fuel`) built into the induction; `circuitLoop_total`: the loop of `build_circuit` with the invariants of
C14 (`AccOK`, `GInv`) and the typing of the header context.
-/
namespace Jaqal.Builder
open Jaqal

/-- **C16 (builder).** -/
theorem C16_builder_total (cfg : Config) (e : BSx) (hp : ParserSx e) : ∀ err, build cfg e = .error err → Good err := by
  obtain ⟨cs, rfl, hcs⟩ := hp
  show Total (build cfg (.list (.str "circuit" :: cs)))
  unfold build buildWith
  refine Total.bind ?_ (fun inject hinj => ?_)
  · -- `normalize_native_gates`
    unfold Config.inject
    cases cfg.natives with
    | none => exact Total.pure _
    | some gs =>
      simp only []
      refine Total.bind ?_ (fun _ _ => Total.pure _)
      intro e h
      unfold normNatives at h
      simp only [] at h
      split at h
      · cases h; exact Good.jaqal _
      · cases h
  · unfold buildCore
    simp only []
    refine Total.bind ?_ (fun _ _ => Total.pure _)
    have hnat : NatOK (inject.getD []) := by
      unfold Config.inject at hinj
      cases hn : cfg.natives with
      | none => simp [hn, pure, Except.pure] at hinj; subst hinj; exact ⟨fun p hp => (by cases hp), by simp⟩
      | some gs =>
        simp only [hn] at hinj
        obtain ⟨d, hd, h4⟩ := bind_ok hinj
        simp only [pure, Except.pure] at h4
        cases h4
        exact normNatives_natOK hd
    refine circuitLoop_total (by decide) cs _ ?_ ?_
    · refine ⟨?_, ?_, ?_⟩
      · intro n v h; simp [Ctx.get] at h
      · refine ⟨?_, ?_, ?_, ?_, ?_⟩
        · intro n v hg; simp [Ctx.get] at hg
        · intro k s hk; cases hk
        · intro v hv; cases hv
        · trivial
        · intro m hm; cases hm
      · refine ⟨HInv.toBInv ?_, fun _ _ => ?_⟩ <;> exact ⟨rfl, rfl, rfl, rfl, hnat⟩
    · intro c hc
      refine ⟨hcs c hc, ?_⟩
      simp only [BSx.depth, BSx.depthList]
      have := depth_le_of_mem hc
      omega

/-- `parse_jaqal_string` (no pass requested): build, then the "too many registers" check -/
theorem C16_parseBuild_total (cfg : Config) (sx : Sx) (hp : ParserSx (BSx.ofSx sx)) :
    ∀ err, parseBuild cfg sx = .error err → Good err := by
  show Total (parseBuild cfg sx)
  unfold parseBuild
  refine Total.bind (C16_builder_total cfg _ hp) (fun c _ => ?_)
  intro e h
  unfold tooManyRegisters at h
  split at h
  · cases h; exact Good.jaqal _
  · cases h

/-- a good error is neither a foreign exception class nor non-termination -/
theorem Good.not_other {e : Err} (h : Good e) : (∀ c, e ≠ .other c) ∧ e ≠ .hang := by
  rcases h with ⟨r, rfl⟩ | rfl <;> exact ⟨fun c hc => (by cases hc), fun hc => (by cases hc)⟩

/-! ## Non-vacuity: programs with every kind of statement, accepted and rejected -/

/-- `from a usepulses *; let n 2; register r[4]; map a r[0:n]; map q r[3]; macro m x y { X x; < X y | X q > }; m a[0] a[1];
loop n { subcircuit { X q } }; branch { '1' : { X q } }` -/
def progAll : BSx :=
  .list [.str "circuit", .list [.str "usepulses", .str "a", .str "*"], .list [.str "let", .str "n", .int 2],
    .list [.str "register", .str "r", .int 4], .list [.str "map", .str "a", .str "r", .int 0, .str "n", .none],
    .list [.str "map", .str "q", .str "r", .int 3],
    .list [.str "macro", .str "m", .str "x", .str "y", .list [.str "sequential_block",
      .list [.str "gate", .str "X", .str "x"],
      .list [.str "parallel_block", .list [.str "gate", .str "X", .str "y"], .list [.str "gate", .str "X", .str "q"]]]],
    .list [.str "gate", .str "m", .list [.str "array_item", .str "a", .int 0], .list [.str "array_item", .str "a", .int 1]],
    .list [.str "loop", .str "n", .list [.str "sequential_block",
      .list [.str "subcircuit_block", .str "", .list [.str "gate", .str "X", .str "q"]]]],
    .list [.str "branch", .list [.str "case", .int 1, .list [.str "sequential_block", .list [.str "gate", .str "X", .str "q"]]]]]

example : ParserSx progAll := ⟨_, rfl, by decide⟩

/-- it is rejected (branches are experimental) — with a JaqalError, as the theorem says -/
example : (match build {} progAll with | .error (.jaqal _) => true | _ => false) = true := by decide +kernel

end Jaqal.Builder

#print axioms Jaqal.Builder.C16_builder_total
#print axioms Jaqal.Builder.C16_parseBuild_total
