import JaqalProofs.Lemmas.BuilderNames
/-!
# C16 (builder part) — the builder fails with JaqalError (or ImportError from a `usepulses` load) only

Status: STATED, NOT PROVED. This file fixes the statement (`C16_builder_total_full`, with the exact shape predicate
`ParserSx` of what `parse_to_sexpression` returns), proves the unconditional leaf facts, and records the one input
shape on which the statement is still false for the model.

## The residual case (`C16_residual_parameter_index`)
`register r[2]; macro m p { g p[r] }` — a register (or a single-qubit alias, `p[q]`) used as the index of a macro
PARAMETER. `NamedQubit.__init__` checks the index only in its "known" branch; when the source is a `Parameter` the
branch for annotated values is taken and an index that is neither a number nor an annotated value passes unchecked.
The real builder ACCEPTS the program (observed: `NamedQubit(p[Register('r', 2)], p, Register('r', 2))`); the model
answers `UnmodelledName:qubit-name` (it does not compute the `str()` of an object), which is an `Err.other`. So on the
real code this is not a wrong exception class but an accepted non-integer index (C14), and at model level it is the
only `.other` left that parser-produced input can reach, as far as the differential test shows (23 000 cases per run:
no `TypeError` / `ValueError` / `AttributeError` / `IndexError` from any program text).

## What a proof needs (none of it is hard, all of it is long)
1. a typing invariant for context values (`register` sizes are ints or integer constants, alias sources are registers,
   slice bounds are ints or integer constants, …) kept by `valStep` — the analogue of `ValOK` in `BuilderRefs.lean` —
   so that `regSize`, `pyIntOfSize`, `pyLt`, `pyLe`, `pyRangeArg` never see a value of the wrong Python type;
2. fuel sufficiency (`e.depth ≤ fuel →` no `Err.hang`), an induction like `buildVal_fuel`;
3. `callDef`: after the count check every parameter name is bound, so `validateAll` never answers `KeyError`
   (a pigeonhole argument on `odSet`);
4. `rebuildStmt`: the `AttributeError` branch is unreachable because a gate statement whose name is bound to a macro
   was built from that macro (`GKnown` / `KInv` of `BuilderNames.lean`);
5. a traversal of `anyStep` with these, using that on `ParserSx` input every arity is right and every block member is
   built to a statement.
-/
namespace Jaqal.Builder
open Jaqal

/-- the error classes C16 allows the builder: `JaqalError`, and the `ImportError` of a `usepulses` load -/
def Good (e : Err) : Prop := (∃ r, e = .jaqal r) ∨ e = .importErr

/-! ## The shapes `parse_to_sexpression` returns -/

def isStr : BSx → Bool
  | .str _ => true
  | _ => false

/-- `let_or_int`: an integer literal or an identifier -/
def isIntOrId : BSx → Bool
  | .int _ => true
  | .str _ => true
  | _ => false

/-- a slice bound: `let_or_int` or `None` -/
def isBound : BSx → Bool
  | .none => true
  | e => isIntOrId e

/-- `gate_arg`: identifier, number, or `("array_item", name, let_or_int)` -/
def isGateArg : BSx → Bool
  | .str _ => true
  | .int _ => true
  | .flt _ => true
  | .list [.str "array_item", .str _, idx] => isIntOrId idx
  | _ => false

mutual
/-- a statement inside a block: gate, loop, sequential / parallel / subcircuit block, branch -/
def isPStmt : BSx → Bool
  | .list (.str cmd :: args) =>
    if cmd = "gate" then
      match args with
      | .str _ :: gargs => gargs.all isGateArg
      | _ => false
    else if cmd = "loop" then
      match args with
      | [count, block] => isIntOrId count && isPStmt block
      | _ => false
    else if cmd = "sequential_block" ∨ cmd = "parallel_block" then isPStmts args
    else if cmd = "subcircuit_block" then
      match args with
      | count :: stmts => (isIntOrId count) && isPStmts stmts
      | [] => false
    else if cmd = "branch" then isPCases args
    else false
  | _ => false
def isPStmts : List BSx → Bool
  | [] => true
  | s :: ss => isPStmt s && isPStmts ss
/-- `["case", int, block]` -/
def isPCases : List BSx → Bool
  | [] => true
  | .list [.str "case", .int _, block] :: cs => isPStmt block && isPCases cs
  | _ :: _ => false
end

/-- a header statement -/
def isPHeader : BSx → Bool
  | .list [.str "register", .str _, size] => isIntOrId size
  | .list [.str "let", .str _, .int _] => true
  | .list [.str "let", .str _, .flt _] => true
  | .list [.str "map", .str _, .str _] => true
  | .list [.str "map", .str _, .str _, idx] => isIntOrId idx
  | .list [.str "map", .str _, .str _, a, b, c] => isBound a && isBound b && isBound c
  | .list [.str "usepulses", .str _, .str "*"] => true
  | _ => false

/-- a body statement at top level: a statement or a macro definition `["macro", name, param…, block]` -/
def isPBody : BSx → Bool
  | .list (.str "macro" :: .str n :: rest) =>
    (rest.dropLast.all isStr) &&
      (match rest.getLast? with
       | some (.list (.str "sequential_block" :: stmts)) => isPStmts stmts
       | _ => false)
  | e => isPStmt e

/-- exactly the S-expressions the parser produces: `["circuit", header…, body…]` -/
def ParserSx (e : BSx) : Prop :=
  ∃ hdr body, e = .list (.str "circuit" :: (hdr ++ body)) ∧ (∀ c ∈ hdr, isPHeader c = true) ∧
    (∀ c ∈ body, isPBody c = true)

/-- The full statement of the builder part of C16. NOT proved; false for the model on the residual case below. -/
def C16_builder_total_full : Prop :=
  ∀ (cfg : Config) (e : BSx), ParserSx e → ∀ err, build cfg e = .error err → Good err

/-! ## Leaf facts (unconditional) -/

theorem mkRegister_err {n : String} {size : Val} {e : Err} (h : mkRegister n size = .error e) : Good e := by
  unfold mkRegister at h
  split at h
  · cases h; exact Or.inl ⟨_, rfl⟩
  · split at h
    · cases h; exact Or.inl ⟨_, rfl⟩
    · cases h
  · split at h
    · cases h; exact Or.inl ⟨_, rfl⟩
    · cases h
  · split at h
    · cases h; exact Or.inl ⟨_, rfl⟩
    · split at h
      · cases h; exact Or.inl ⟨_, rfl⟩
      · cases h

theorem mkConstant_err {n : String} {v : BSx} {e : Err} (h : mkConstant n v = .error e) : Good e := by
  cases v with
  | val w => cases w <;> simp [mkConstant, throw_eq, pure, Except.pure] at h <;> exact Or.inl ⟨_, h.symm⟩
  | _ => simp [mkConstant, throw_eq, pure, Except.pure] at h <;> exact Or.inl ⟨_, h.symm⟩

theorem validateCount_err {v : Val} {e : Err} (h : validateCount v = .error e) : Good e := by
  unfold validateCount at h
  split at h
  · cases h; exact Or.inl ⟨_, rfl⟩
  · split at h
    · cases h; exact Or.inl ⟨_, rfl⟩
    · cases h

theorem addVar_err {ctx : Ctx} {n : String} {v : Val} {e : Err} (h : addVar ctx n v = .error e) : Good e := by
  unfold addVar at h
  split at h
  · cases h; exact Or.inl ⟨_, rfl⟩
  · cases h

theorem lookupId_err {ctx : Ctx} {s : String} {e : Err} (h : lookupId ctx s = .error e) : Good e := by
  unfold lookupId at h
  split at h
  · cases h
  · cases h; exact Or.inl ⟨_, rfl⟩

theorem normNatives_err {gs : List GateDef} {e : Err} (h : normNatives gs = .error e) : Good e := by
  unfold normNatives at h
  simp only [] at h
  split at h
  · cases h; exact Or.inl ⟨_, rfl⟩
  · cases h

/-- the "too many registers" check only raises JaqalError -/
theorem tooManyRegisters_err {c : Circuit} {e : Err} (h : tooManyRegisters c = .error e) : Good e := by
  unfold tooManyRegisters at h
  split at h
  · cases h; exact Or.inl ⟨_, rfl⟩
  · cases h

end Jaqal.Builder

