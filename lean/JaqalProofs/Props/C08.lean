import JaqalProofs.Lemmas.WalkDisc
import JaqalProofs.Lemmas.WalkBracket
import JaqalProofs.Lemmas.WalkVisit
import JaqalProofs.Props.C12
/-!
# C08 — termination and one readout per subcircuit visit, in order

`visit` (model of `TraceVisitor`, the base of the emulator walker and of `OutputParser`) is a fuel-indexed
transcription of the `while self.objective` state machine.  For every program accepted by `discover`:
it returns for every fuel ≥ `fuelBound` (static in the program size and the number of traces), and what it
returns is `specVisits`, which equals `execVisits ∘ unroll` : walk the program with its loops unrolled and
emit `k` whenever the executed gate occurrence is the start of trace `k`.
-/
namespace Jaqal.Walk

theorem starts_sublist : ∀ (toks : List Tok) (c : Option Addr),
    ((pairsFrom toks c).map (·.1)).Sublist (c.toList ++ paddrs toks)
  | [], c => by simp [pairsFrom]
  | .g .prep a :: r, c => by
    simp only [pairsFrom, paddrs]
    have := starts_sublist r (some a)
    simp only [Option.toList_some, List.singleton_append] at this
    exact this.trans (List.sublist_append_right _ _)
  | .g .meas a :: r, some s => by
    simp only [pairsFrom, paddrs, List.map_cons, Option.toList_some, List.singleton_append]
    have := starts_sublist r none
    simp only [Option.toList_none, List.nil_append] at this
    exact List.Sublist.cons_cons _ this
  | .g .meas a :: r, none => by simpa [pairsFrom, paddrs] using starts_sublist r none
  | .g (.other _) a :: r, c => by simpa [pairsFrom, paddrs] using starts_sublist r c
  | .lopen _ :: r, c => by simpa [pairsFrom, paddrs] using starts_sublist r c
  | .lclose :: r, c => by simpa [pairsFrom, paddrs] using starts_sublist r c

/-- What `discover` guarantees about the trace starts: strictly increasing in flat (= lexicographic)
order, and each the address of a gate statement. -/
theorem discover_starts (body : List Stmt) (traces : List (Addr × Addr)) (h : discover body = .ok traces) :
    Sorted (traces.map (·.1)) ∧ ∀ x ∈ traces.map (·.1), ValidAt body x := by
  have hc := C12_count body traces h
  have hsub : (traces.map (·.1)).Sublist (gaddrs (flatToks body)) := by
    rw [hc]
    have := starts_sublist (flatToks body) none
    simp only [Option.toList_none, List.nil_append] at this
    exact this.trans (paddrs_sublist_gaddrs _)
  refine ⟨(flat_sorted_list body [] 0).sublist hsub, ?_⟩
  intro x hx
  obtain ⟨j, r, rfl, _, hv⟩ := flat_addr_list body [] 0 x (hsub.subset hx)
  simpa using hv

theorem lexLt_nil_right : ∀ x : List Nat, lexLt x [] = false
  | [] => rfl
  | _ :: _ => rfl

/-- The refinement on sorted, valid starts. -/
theorem visit_eq_spec (starts : List Addr) (body : List Stmt) (hs : Sorted starts)
    (hv : ∀ x ∈ starts, ValidAt body x) (f : Nat) (hf : fuelBound starts body ≤ f) :
    visit f starts body = .ok (specVisits starts body) := by
  cases hst : starts with
  | nil =>
    simp only [visit, specVisits]
    rw [noHit_list [] body [] 0 0 (fun j _ _ x hx => by simp at hx)]
  | cons s0 t =>
    rw [← hst]
    have hvl : Vl starts body [] 0 := by
      intro x hx j r hr
      have := hv x hx
      rw [hr] at this; simpa using this
    have hnp : NotPassed starts 0 ([] ++ [([] : List Stmt).length]) := by
      intro j x _ hx
      have := hv x (List.mem_of_getElem? hx)
      cases x with
      | nil => simp [ValidAt] at this
      | cons n r => simp [lexLt, lexLt_nil_right]
    have := block_lemma hs body [] hvl (childOK_list hs body) [] body rfl f 0 [] true
      (by simpa [fuelBound] using hf) (fun j x hj _ => by omega) hnp
      (fun _ x _ => List.nil_prefix)
    have h0 : starts[0]? = some s0 := by rw [hst]; rfl
    rw [h0] at this
    simp only [visit]
    rw [hst] at this ⊢
    simp only [this, specVisits, List.length_nil, List.nil_append]

/-- **C08 (order).** On an accepted program, with enough fuel, the walker calls `process_trace` for
exactly the subcircuit indices `specVisits`, in that order. -/
theorem C08_order (body : List Stmt) (traces : List (Addr × Addr)) (h : discover body = .ok traces)
    (f : Nat) (hf : fuelBound (traces.map (·.1)) body ≤ f) :
    visit f (traces.map (·.1)) body = .ok (specVisits (traces.map (·.1)) body) :=
  visit_eq_spec _ body (discover_starts body traces h).1 (discover_starts body traces h).2 f hf

/-- **C08 (termination).** Executing an accepted program terminates: the `while self.objective` machine
returns (does not run out of fuel, does not raise) for every fuel ≥ the explicit bound
`fuelBound = listFuel body + |traces| + 1` (one unit per `while` test; static in the program). -/
theorem C08_terminates (body : List Stmt) (traces : List (Addr × Addr)) (h : discover body = .ok traces) :
    ∀ f, fuelBound (traces.map (·.1)) body ≤ f → (visit f (traces.map (·.1)) body).isOk = true := by
  intro f hf
  rw [C08_order body traces h f hf]; rfl

/-- **C08 (unrolled reading).** `specVisits` is: walk the program with its loops unrolled; whenever the
executed gate occurrence is the start of trace `k` (its prepare_all), that is a visit of subcircuit `k`. -/
theorem C08_unroll (body : List Stmt) (traces : List (Addr × Addr)) (h : discover body = .ok traces) :
    specVisits (traces.map (·.1)) body = execVisits (traces.map (·.1)) (unroll body) := by
  obtain ⟨hs, hv⟩ := discover_starts body traces h
  have hvl : Vl (traces.map (·.1)) body [] 0 := by
    intro x hx j r hr
    have := hv x hx
    rw [hr] at this; simpa using this
  have hnp : NotPassed (traces.map (·.1)) 0 ([] ++ [0]) := by
    intro j x _ hx
    have := hv x (List.mem_of_getElem? hx)
    cases x with
    | nil => simp [ValidAt] at this
    | cons n r => simp [lexLt, lexLt_nil_right]
  exact (spec_list hs body [] 0 0 hvl (fun j x hj _ => by omega) hnp).1

/-- **C08 (zero counts).** A loop whose count is ≤ 0 yields no visits (and executes nothing), whatever
its body contains; the traces that start inside it are still numbered (second component). -/
theorem C08_zero (starts : List Addr) (n : Int) (hn : n ≤ 0) (par : Bool) (b : List Stmt) (a : Addr) (k : Nat) :
    (specStmt starts (.loop n par b) a k).1 = [] ∧ unrollStmt (.loop n par b) a = [] ∧
    (specStmt starts (.loop n par b) a k).2 = (specList starts b a 0 k).2 := by
  have : n.toNat = 0 := by omega
  simp [specStmt, unrollStmt, this]

/-! ### Readouts (`process_trace` of the emulator walker and of `OutputParser`)

`process_trace` builds `Readout(outcome, self.readout_index)`, calls
`self.subcircuits[self.index].accept_readout(·)` (which appends it to that subcircuit's list and
increments its frequency table) and increments `readout_index`. -/

/-- (readout index, subcircuit index) of the readouts produced for a visit list. -/
def readoutsFrom : List Nat → Nat → List (Nat × Nat)
  | [], _ => []
  | k :: r, ri => (ri, k) :: readoutsFrom r (ri + 1)

def readouts (visits : List Nat) : List (Nat × Nat) := readoutsFrom visits 0

theorem readoutsFrom_spec : ∀ (v : List Nat) (ri : Nat),
    (readoutsFrom v ri).map (·.2) = v ∧ (readoutsFrom v ri).map (·.1) = List.range' ri v.length
  | [], ri => by simp [readoutsFrom]
  | k :: r, ri => by
    have := readoutsFrom_spec r (ri + 1)
    simp [readoutsFrom, this.1, this.2, List.range'_succ]

/-- **C08 (indices and counts).** There is exactly one readout per visit, in visit order, attributed to
the visited subcircuit; readout indices are 0,1,2,…; the number of readouts a subcircuit accepts (the
total of its relative-frequency table) is the number of its own visits. -/
theorem C08_indices (visits : List Nat) :
    (readouts visits).map (·.2) = visits ∧ (readouts visits).map (·.1) = List.range visits.length ∧
    ∀ k, ((readouts visits).filter (fun r => r.2 == k)).length = visits.count k := by
  have h := readoutsFrom_spec visits 0
  refine ⟨h.1, by rw [readouts, h.2, List.range_eq_range'], ?_⟩
  intro k
  have : ((readouts visits).filter (fun r => r.2 == k)).length = ((readouts visits).map (·.2)).count k := by
    rw [List.count_eq_countP, List.countP_map, List.countP_eq_length_filter]; rfl
  rw [this, readouts, h.1]

/-! ### Non-vacuity -/

/-- `loop 3 { loop 0 { P; M }; P; X; M }; P; loop 2 { Y; P }; M` -/
def ex1 : List Stmt :=
  [.loop 3 false [.loop 0 false [.gate .prep, .gate .meas], .gate .prep, .gate (.other 0), .gate .meas],
   .gate .prep, .loop 2 false [.gate (.other 1), .gate .prep], .gate .meas]

example : discover ex1 = .ok [([0, 0, 0], [0, 0, 1]), ([0, 1], [0, 3]), ([2, 1], [3])] := by rfl
example : fuelBound [[0, 0, 0], [0, 1], [2, 1]] ex1 = 20 := by rfl
/-- subcircuit 0 (inside the zero-count loop) is never visited, subcircuit 1 three times, subcircuit 2
twice (its prepare_all sits in a loop of count 2 — the straddling case of DESIGN.md) -/
example : visit 20 [[0, 0, 0], [0, 1], [2, 1]] ex1 = .ok [1, 1, 1, 2, 2] := by rfl
example : specVisits [[0, 0, 0], [0, 1], [2, 1]] ex1 = [1, 1, 1, 2, 2] := by rfl
example : execVisits [[0, 0, 0], [0, 1], [2, 1]] (unroll ex1) = [1, 1, 1, 2, 2] := by rfl
/-- too little fuel = "still running" -/
example : visit 3 [[0, 0, 0], [0, 1], [2, 1]] ex1 = .error .fuel := by rfl
example : readouts [1, 1, 1, 2, 2] = [(0, 1), (1, 1), (2, 1), (3, 2), (4, 2)] := by rfl

end Jaqal.Walk

#print axioms Jaqal.Walk.C08_order
#print axioms Jaqal.Walk.C08_terminates
#print axioms Jaqal.Walk.C08_unroll
#print axioms Jaqal.Walk.C08_zero
#print axioms Jaqal.Walk.C08_indices
