import Mathlib.Data.Complex.Basic
import Mathlib.Data.Complex.BigOperators
import Mathlib.Algebra.BigOperators.Fin
import Mathlib.Tactic.IntervalCases
import Mathlib.Tactic.LinearCombination
import JaqalProofs.Props.C03
import JaqalProofs.Lemmas.Unitary
/-!
# C03 / C15 — unitarity: the emulator's exact state has norm one

`C03_state` says the loop nest of `UnitarySerializedEmulator._make_subcircuit` computes
`U_k … U_1 |0…0⟩` (each `U_j` embedded on its qubit arguments). Here: if every gate matrix that is present
has orthonormal columns (`IsUnitaryOn U (2^|qs|)`), then

* `C03_embed_unitary`   : the embedded `2^n × 2^n` matrix has orthonormal columns,
* `C03_applyGate_norm`  : one pass of the loop nest preserves `Σ_{i<2^n} star (v i) * v i`,
* `C03_norm_preserved`  : the state the emulator computes (and `specState`) has norm `1`
  (any commutative `StarRing`),
* `C15_probabilities`   : over `ℂ`, `p i := |state i|²` satisfies `0 ≤ p i` and `Σ_{i<2^n} p i = 1`
  **before** any clipping / renormalisation (`C15_normalize` treats that step); `p` is indexed by the same
  little-endian integer as the state (bit `q` of `i` ↔ register qubit `q`),
* `C15_probabilities_GD`: the same for the executable array program `runGates` on exact Gaussian-dyadic
  scalars: it succeeds, and the dyadic rationals `GD.normSq w[i]` it reports are `≥ 0` and sum to `1`.
-/
namespace Jaqal.Emulator
open Jaqal.Bits Finset

variable {R : Type}

/-- **C03 (embedding keeps unitarity).** Distinct qubit arguments inside the register, `U` with orthonormal
columns on `2^|qs|` ⟹ `embed U qs n` has orthonormal columns on `2^n`. -/
theorem C03_embed_unitary [CommSemiring R] [StarRing R] (U : Nat → Nat → R) (qs : List Nat) (n : Nat)
    (hd : qs.Nodup) (hb : ∀ q ∈ qs, q < n) (hU : IsUnitaryOn U (2 ^ qs.length)) :
    IsUnitaryOn (embed U qs n) (2 ^ n) :=
  embed_unitary U qs n hd hb hU

/-- **C03 (one gate preserves the norm).** One pass of the bit-twiddling loop nest with a unitary gate
matrix preserves the squared norm of the first `2^n` amplitudes, for any input vector. -/
theorem C03_applyGate_norm [CommSemiring R] [StarRing R] (U : Nat → Nat → R) (qs : List Nat) (n : Nat)
    (v : Nat → R) (hd : qs.Nodup) (hb : ∀ q ∈ qs, q < n) (hU : IsUnitaryOn U (2 ^ qs.length)) :
    ∑ i ∈ range (2 ^ n), star (applyGate U qs v i) * applyGate U qs v i
      = ∑ i ∈ range (2 ^ n), star (v i) * v i := by
  rw [← matVec_norm (embed U qs n) n v (embed_unitary U qs n hd hb hU)]
  apply sum_congr rfl
  intro i hi
  rw [applyGate_eq_matVec U qs n v i hd hb (by simpa using hi)]

/-- **C03 (norm).** For a well-formed gate list in which every matrix that is present is unitary on its
dimension, the state computed by the emulator's loop nests (`runGatesFn`), equal to
`specState n gates = U_k … U_1 |0…0⟩` by `C03_state`, has squared norm `1` — the norm of `|0…0⟩`. -/
theorem C03_norm_preserved [CommSemiring R] [StarRing R] (n : Nat)
    (gates : List (Option (Nat → Nat → R) × List Nat)) (hok : GatesOK n gates) (hU : GatesUnitary gates) :
    ∑ i ∈ range (2 ^ n), star (runGatesFn gates i) * runGatesFn gates i = 1
    ∧ ∑ i ∈ range (2 ^ n), star (specState n gates i) * specState n gates i = 1
    ∧ ∑ i ∈ range (2 ^ n), star ((e0 : Nat → R) i) * (e0 : Nat → R) i = 1 := by
  refine ⟨?_, specState_norm n gates hok hU, e0_norm n⟩
  rw [← specState_norm n gates hok hU]
  apply sum_congr rfl
  intro i hi
  rw [C03_state n gates hok i (by simpa using hi)]

/-- **C15 (probabilities).** Over `ℂ`: the outcome probabilities `p i = |state i|²` of the exact state the
emulator computes from unitary gate matrices are non-negative and sum to one (no renormalisation needed).
`p` is indexed by the same little-endian basis-state integer as the state vector. -/
theorem C15_probabilities (n : Nat) (gates : List (Option (Nat → Nat → ℂ) × List Nat))
    (hok : GatesOK n gates) (hU : GatesUnitary gates) :
    (∀ i, 0 ≤ Complex.normSq (runGatesFn gates i))
    ∧ ∑ i ∈ range (2 ^ n), Complex.normSq (runGatesFn gates i) = 1 := by
  refine ⟨fun i => Complex.normSq_nonneg _, ?_⟩
  apply Complex.ofReal_injective
  rw [Complex.ofReal_sum, Complex.ofReal_one, ← (C03_norm_preserved n gates hok hU).1]
  apply sum_congr rfl
  intro i _
  rw [Complex.normSq_eq_conj_mul_self, starRingEnd_apply]

/-- The same for the specification state `U_k … U_1 |0…0⟩`. -/
theorem C15_probabilities_spec (n : Nat) (gates : List (Option (Nat → Nat → ℂ) × List Nat))
    (hok : GatesOK n gates) (hU : GatesUnitary gates) :
    (∀ i, 0 ≤ Complex.normSq (specState n gates i))
    ∧ ∑ i ∈ range (2 ^ n), Complex.normSq (specState n gates i) = 1 := by
  refine ⟨fun i => Complex.normSq_nonneg _, ?_⟩
  rw [← (C15_probabilities n gates hok hU).2]
  apply sum_congr rfl
  intro i hi
  rw [C03_state n gates hok i (by simpa using hi)]

/-- **C15 (probabilities, executable form).** The array program `runGates` on exact Gaussian-dyadic scalars
(the one the differential test compares with numpy): on a well-formed gate list whose matrices, read as
complex matrices, are unitary, it does not fail, returns `2^n` amplitudes, and the dyadic rationals
`GD.normSq w[i] = (num, k) ↦ num / 2^k` are non-negative and sum to exactly one. -/
theorem C15_probabilities_GD (n : Nat) (gates : List (Option (Array (Array GD)) × List Nat))
    (hok : GatesVecOK' n gates) (hU : GatesUnitary (mapGates GD.val (gatesFn gates))) :
    ∃ w, runGates n gates = some w ∧ w.size = 2 ^ n ∧
      (∀ i : Fin w.size, (0 : ℝ) ≤ ((GD.normSq w[i]).1 : ℝ) / 2 ^ (GD.normSq w[i]).2) ∧
      ∑ i : Fin w.size, ((GD.normSq w[i]).1 : ℝ) / 2 ^ (GD.normSq w[i]).2 = 1 := by
  obtain ⟨w, hw, hsz, hwi⟩ := C03_state_GD n gates hok
  refine ⟨w, hw, hsz, ?_, ?_⟩
  · intro i
    rw [show w[i] = w[i.1] from rfl, (hwi i.1 i.2).2]
    exact Complex.normSq_nonneg _
  · have hOK : GatesOK n (mapGates GD.val (gatesFn gates)) := by
      intro g hg hsome
      simp only [mapGates, gatesFn, List.mem_map] at hg
      obtain ⟨_, ⟨g', hg', rfl⟩, rfl⟩ := hg
      obtain ⟨U?, qs⟩ := g'
      cases U? with
      | none => simp at hsome
      | some U => exact (hok _ hg' U rfl).2
    have h1 : ∀ i : Fin w.size, ((GD.normSq w[i]).1 : ℝ) / 2 ^ (GD.normSq w[i]).2
        = (fun j => Complex.normSq (specState n (mapGates GD.val (gatesFn gates)) j)) i.1 := by
      intro i
      rw [show w[i] = w[i.1] from rfl, (hwi i.1 i.2).2]
    rw [Fintype.sum_congr _ _ h1,
      Fin.sum_univ_eq_sum_range
        (fun j => Complex.normSq (specState n (mapGates GD.val (gatesFn gates)) j)) w.size, hsz]
    exact (C15_probabilities_spec n _ hOK hU).2

/-! ### Non-vacuity: exact unitaries `X`, `CX`, `S = diag(1, i)` over `ℂ` -/
section Examples

/-- `X`. -/
noncomputable def xC : Nat → Nat → ℂ := fun r c => if r + c = 1 then 1 else 0
/-- `CX`, control = argument 0 (bit 0 of the gate index), target = argument 1 (bit 1). -/
noncomputable def cxC : Nat → Nat → ℂ := fun r c => if r = c % 2 + 2 * ((c / 2 + c % 2) % 2) then 1 else 0
/-- `S = diag(1, i)`. -/
noncomputable def sC : Nat → Nat → ℂ := fun r c => if r = c then (if r = 1 then Complex.I else 1) else 0

theorem xC_unitary : IsUnitaryOn xC (2 ^ [2].length) := by
  intro c hc c' hc'
  simp only [List.length_cons, List.length_nil] at hc hc' ⊢
  interval_cases c <;> interval_cases c' <;> simp [xC]

theorem sC_unitary : IsUnitaryOn sC (2 ^ [0].length) := by
  intro c hc c' hc'
  simp only [List.length_cons, List.length_nil] at hc hc' ⊢
  interval_cases c <;> interval_cases c' <;> simp [sC]

theorem cxC_unitary : IsUnitaryOn cxC (2 ^ [0, 1].length) := by
  intro c hc c' hc'
  simp only [List.length_cons, List.length_nil] at hc hc' ⊢
  interval_cases c <;> interval_cases c' <;> simp [cxC]

-- `embed_unitary` / `C03_applyGate_norm`: CX on qubits [2, 0] of a 3-qubit register
example : ([2, 0] : List Nat).Nodup ∧ (∀ q ∈ ([2, 0] : List Nat), q < 3) ∧ IsUnitaryOn cxC (2 ^ [2, 0].length) :=
  ⟨by decide, by decide, cxC_unitary⟩

-- a non-unitary matrix does not satisfy the hypothesis: [[1,1],[0,1]]
example : ¬ IsUnitaryOn (fun r c => if r ≤ c then (1 : ℂ) else 0) 2 := by
  intro h
  have := h 1 (by omega) 1 (by omega)
  simp [sum_range_succ] at this

/-- A two-gate (three with `S`) list on 2 qubits: `X r[1]; S r[0]; CX r[0] r[1]` plus a gate without
unitary. -/
noncomputable def unitaryExGates : List (Option (Nat → Nat → ℂ) × List Nat) :=
  [(some xC, [1]), (some sC, [0]), (none, [1, 1]), (some cxC, [0, 1])]

theorem unitaryExGates_ok : GatesOK 2 unitaryExGates := by
  simp only [unitaryExGates, GatesOK, List.forall_mem_cons, List.not_mem_nil, false_imp_iff, implies_true, and_true]
  decide

theorem unitaryExGates_unitary : GatesUnitary unitaryExGates := by
  simp only [unitaryExGates, GatesUnitary, List.forall_mem_cons, List.not_mem_nil, false_imp_iff, implies_true,
    and_true, Option.some.injEq, forall_eq', reduceCtorEq]
  exact ⟨xC_unitary, sC_unitary, trivial, cxC_unitary⟩

-- all hypotheses of `C03_norm_preserved` / `C15_probabilities` hold for it, so its probabilities sum to 1
example : ∑ i ∈ range (2 ^ 2), Complex.normSq (runGatesFn unitaryExGates i) = 1 :=
  (C15_probabilities 2 unitaryExGates unitaryExGates_ok unitaryExGates_unitary).2

-- the executable program on exact scalars: sqrt-X on r[0] then CX r[0] r[1] (arrays `sxG`, `cxG` of `Props/C03.lean`)
theorem sxG_entries : ∀ r < 2, ∀ c < 2, matFn sxG r c = if r = c then ⟨1, 1, 1⟩ else ⟨1, -1, 1⟩ := by decide
theorem cxG_entries : ∀ r < 4, ∀ c < 4,
    matFn cxG r c = if r = c % 2 + 2 * ((c / 2 + c % 2) % 2) then 1 else 0 := by decide

theorem sxG_unitary : IsUnitaryOn (fun r c => GD.val (matFn sxG r c)) (2 ^ [0].length) := by
  intro c hc c' hc'
  simp only [List.length_cons, List.length_nil] at hc hc' ⊢
  interval_cases c <;> interval_cases c' <;>
    simp [sum_range_succ, sxG_entries, GD.val]
  · linear_combination (-1/2 : ℂ) * Complex.I_sq
  · linear_combination (1/2 : ℂ) * Complex.I_sq
  · linear_combination (1/2 : ℂ) * Complex.I_sq
  · linear_combination (-1/2 : ℂ) * Complex.I_sq

theorem cxG_unitary : IsUnitaryOn (fun r c => GD.val (matFn cxG r c)) (2 ^ [0, 1].length) := by
  intro c hc c' hc'
  simp only [List.length_cons, List.length_nil] at hc hc' ⊢
  interval_cases c <;> interval_cases c' <;>
    simp [sum_range_succ, cxG_entries, GD.val_one, GD.val_zero]

example : GatesVecOK' 2 [(some sxG, [0]), (some cxG, [0, 1])] ∧
    GatesUnitary (mapGates GD.val (gatesFn [(some sxG, [0]), (some cxG, [0, 1])])) := by
  refine ⟨?_, ?_⟩
  · simp only [GatesVecOK', List.forall_mem_cons, List.not_mem_nil, false_imp_iff, implies_true, and_true,
      Option.some.injEq, forall_eq']
    decide
  · simp only [GatesUnitary, mapGates, gatesFn, List.map_cons, List.map_nil, Option.map_some,
      List.forall_mem_cons, List.not_mem_nil, false_imp_iff, implies_true, and_true, Option.some.injEq,
      forall_eq']
    exact ⟨sxG_unitary, cxG_unitary⟩


-- … and indeed the reported dyadic probabilities are 1/2, 0, 0, 1/2
example : ((runGates 2 [(some sxG, [0]), (some cxG, [0, 1])]).map (·.toList.map GD.normSq))
    = some [(1, 1), (0, 0), (0, 0), (1, 1)] := by decide

end Examples

end Jaqal.Emulator

#print axioms Jaqal.Emulator.C03_embed_unitary
#print axioms Jaqal.Emulator.C03_applyGate_norm
#print axioms Jaqal.Emulator.C03_norm_preserved
#print axioms Jaqal.Emulator.C15_probabilities
#print axioms Jaqal.Emulator.C15_probabilities_spec
#print axioms Jaqal.Emulator.C15_probabilities_GD
