import JaqalProofs.Lemmas.RunModelRefs
import JaqalProofs.Props.C12Run
import JaqalProofs.Props.C16
/-!
# C14 over the whole run: a gate never runs on a qubit other than the one its reference denotes, and a reference outside
# its register / alias is refused with JaqalError

`Props/C14.lean` says what the BUILDER guarantees of the values it constructs. Here the property is lifted to the run model
`RunModel.runModel cfg ov txt` = parse + build, `expandAll ov` (`expand_subcircuits`, `fill_in_let` with the override list `ov`,
`expand_macros`) and `execute x`. The executing stage reads the qubit references of the expanded circuit `x` twice:

* the used-qubit walk of `DiscoverSubcircuits` (`UsedQubits.checkDisjoint`) visits, for every gate statement bound to a native
  definition, the arguments of the parameters `GateDefinition.used_qubits` yields (`visit_NamedQubit` = `resolve_qubit()`,
  `visit_Register` = `resolve_qubit` of every element);
* `_make_subcircuit` (`makeSubcircuits`) resolves, for every gate `TraceSerializer` yields for a discovered trace — the gates
  between a `prepare_all` and its `measure_all`, the ones that run — every argument zipped with a QUBIT / REGISTER parameter of the
  native definition found under the gate's name, when that definition has a unitary (`quantumToken`: `resolve_qubit()` of a qubit,
  of every element of a register).

Both go through `Resolve.resolveQubit []` / `Resolve.resolveReg []`, which check the index against the size of EVERY level of the
alias chain (`idx < 0 ∨ idx ≥ size → JaqalError`).

## The handle on "the gates that run"

`skeleton x = .ok (body, tbl)`: `tbl : List GateRec` holds the ordinary gate statements `(name, gate_def, arguments)` of `x` in flat
order, `body` the walker skeleton whose `.other id` leaves index `tbl`. `Walk.discover body = .ok traces` are the traces and
`Walk.segment tr body` is exactly what the serialiser yields for `tr` (`C03_serialize`). So "a gate occurrence serialised into some
trace" is `tr ∈ traces`, `.other id ∈ Walk.segment tr body`, `tbl[id]? = some g`.

## Statements (`RefsHonoured C x body tbl traces`, `Lemmas/RunModelRefs.lean` for the predicates)

* `EmuHonoured C x.natives g` for every serialised gate `g`: its name is a native gate and every argument at a QUBIT / REGISTER
  position of that definition (if it has a unitary) is `ArgHonoured C`;
* `UsedHonoured C g` for EVERY gate statement `g` of the table (serialised or not): if it is bound to a native definition, every
  used-qubit parameter has its argument and a qubit / register there is `ArgHonoured C`.

`ArgHonoured C v`: a qubit `v` resolves (`resolveQubit [] v = .ok (r, k)`), its source is a register, its index an integer that
passes the check `C` at EVERY level of the alias chain with the index handed down level by level (`QubitChain C`, `RegChain C`:
`start + i * step` for a slice), `r` is the fundamental register at the end of the chain and `k` passes ITS check; a register
`v` has a size and every element `0 … size-1` resolves likewise.  `C = Allows` is the check as the code makes it (`size is not None
and (idx < 0 or idx >= size)` does not raise: a level WITHOUT a size checks nothing); `C = Within` is `0 ≤ idx < size` outright.
`resolveReg_ok_iff` / `resolveQubit_ok_iff`: resolution succeeds EXACTLY when the chain is allowed at every level.

* **`C14_run_refs_honoured`** — `execute x = .ok s` ⇒ `RefsHonoured Allows …`, for ANY circuit `x` (no hypothesis on `x`), and the
  traces of the summary are the serialisation of exactly these gates (`makeSubcircuits … = .ok s.traces`), where a qubit is
  written by the index it resolved to (`quantumToken_qubit`).
* **`C14_run_refs_within`** — on a flat typed circuit (`FlatT x`: what `expandAll` returns for every text) every level has a size:
  `RefsHonoured Within …`.
* **`C14_run_bad_ref_rejected`** — conversely, if a gate that would be serialised is not honoured (e.g. `C14_bad_qubit_not_honoured`:
  an emulated qubit argument whose chain is not allowed at some level, whose source is not a register, or whose index is not an
  integer), `execute x` is an error, never a result; on a flat typed circuit that error is a `JaqalError` — exactly `.jaqal _`
  (`execute_jaqal`: the class lemmas of `RunModelExec.lean` give "JaqalError or ImportError", `execute_noImport` excludes the
  latter).
* **`C14_run_text`** — for every text, configuration and override list: `runModel cfg ov txt = .ok s` ⇒ the circuit `expandAll ov`
  produced satisfies `RefsHonoured Within …` (no hypothesis: `flatOf_all`).  The references of that circuit are the ones of the
  text with let values, overriding values and macro arguments substituted — whether an index is a literal, a let value, an
  overriding value or arises by macro substitution, the gate that runs is honoured.  **`C14_run_text_error`**: every failure of the
  run after parsing is a `JaqalError` (or the `ImportError` of a `usepulses`), so an out-of-range reference detected at ANY stage
  (builder, `fill_in_let`, `expand_macros`, `execute`) ends in that class.

## What is not stated

`ArgHonoured` is established for the arguments the run READS: those at QUBIT / REGISTER (or untyped) positions of the gate's
definition.  That a qubit value never sits at a classical (INT / FLOAT) position is the builder's validation (`GateDef.validateAll`,
`Lemmas/ExpandFlat.lean: PreS`), which `FlatT` does not record; it is not re-proved here, so "EVERY `.qubit` value among the
arguments" is stated only through the positions (`quantumArgs`, `usedParams`).
-/
namespace Jaqal.RunModel
open Jaqal Jaqal.Builder Jaqal.Walk Jaqal.Resolve

/-- every gate statement of the table has been honoured by the used-qubit walk, every gate serialised into a trace by
`_make_subcircuit` -/
structure RefsHonoured (C : Val → Int → Prop) (x : Circuit) (body : List Walk.Stmt) (tbl : List GateRec)
    (traces : List (Addr × Addr)) : Prop where
  /-- the table holds gate statements of the circuit -/
  table : ∀ g ∈ tbl, g ∈ gatesOf x.body
  used : ∀ g ∈ tbl, UsedHonoured C g
  emulated : ∀ tr ∈ traces, ∀ id, GK.other id ∈ segment tr body → ∃ g, tbl[id]? = some g ∧ EmuHonoured C x.natives g

/-- what a result of `execute` means for the stages before the walk -/
theorem execute_ok {x : Circuit} {body : List Walk.Stmt} {tbl : List GateRec} {s : RunSummary}
    (hs : skeleton x = .ok (body, tbl)) (h : execute x = .ok s) :
    ∃ traces, discover body = .ok traces ∧ UsedQubits.checkDisjoint x = .ok () ∧
      makeSubcircuits x body tbl traces = .ok s.traces ∧ s.subcircuits = traces.length := by
  have hl : tooLarge x.registers = .ok () := by
    cases hl : tooLarge x.registers with
    | ok u => cases u; rfl
    | error e => simp [execute, hs, hl, bind, Except.bind] at h
  rw [execute_unfold x body tbl hs hl] at h
  cases hd : Walk.discover body with
  | error e => simp [hd, bind, Except.bind, throw, throwThe, MonadExceptOf.throw] at h
  | ok traces =>
    simp only [hd, bind, Except.bind, pure, Except.pure] at h
    cases h1 : UsedQubits.checkDisjoint x with
    | error e => simp [h1] at h
    | ok u =>
      simp only [h1] at h
      cases h2 : makeSubcircuits x body tbl traces with
      | error e => simp [h2] at h
      | ok toks =>
        simp only [h2] at h
        cases h3 : Walk.visit (Walk.fuelBound (traces.map (·.1)) body) (traces.map (·.1)) body with
        | error e => simp [h3, throw, throwThe, MonadExceptOf.throw] at h
        | ok visits =>
          simp only [h3, Except.ok.injEq] at h
          subst h
          cases u
          exact ⟨traces, rfl, rfl, h2, rfl⟩

/-- **C14 over the run (acceptance).** If the executing stage produces a result, every gate statement of the program bound to a
native definition, and every gate serialised into a trace — the gates that run —, has its qubit / register arguments resolved, with
the index allowed at every level of the alias chain; the traces of the result are the serialisation of exactly these gates. -/
theorem C14_run_refs_honoured (x : Circuit) (body : List Walk.Stmt) (tbl : List GateRec) (s : RunSummary)
    (hs : skeleton x = .ok (body, tbl)) (h : execute x = .ok s) :
    ∃ traces, discover body = .ok traces ∧ makeSubcircuits x body tbl traces = .ok s.traces ∧
      RefsHonoured Allows x body tbl traces := by
  obtain ⟨traces, hd, hc, hm, _⟩ := execute_ok hs h
  have hg := skeleton_gates hs
  exact ⟨traces, hd, hm, hg, fun g hgt => checkDisjoint_honoured hc g (hg g hgt), makeSubcircuits_honoured hd hm⟩

/-! ### Typed circuits: every level has a size -/

theorem lookup_mem {args : List (String × Val)} {p : String} {a : Val} (h : args.lookup p = some a) : (p, a) ∈ args := by
  induction args with
  | nil => cases h
  | cons x xs ih =>
    obtain ⟨k, w⟩ := x
    simp only [List.lookup] at h
    split at h
    · rename_i heq
      cases h
      have : p = k := by simpa using heq
      subst this; exact List.mem_cons_self ..
    · exact List.mem_cons_of_mem _ (ih h)

theorem quantumArgs_mem : ∀ (ps : List (String × Kind)) (as : List (String × Val)), ∀ v ∈ quantumArgs ps as, ∃ a ∈ as, a.2 = v
  | [], as, v, hv => by cases as <;> simp [quantumArgs] at hv
  | _ :: _, [], v, hv => by simp [quantumArgs] at hv
  | (pn, k) :: ps, (an, w) :: as, v, hv => by
    have ih : v ∈ quantumArgs ps as → ∃ a ∈ (an, w) :: as, a.2 = v := fun h => by
      obtain ⟨a, ha, hav⟩ := quantumArgs_mem ps as v h
      exact ⟨a, List.mem_cons_of_mem _ ha, hav⟩
    cases k with
    | qubit =>
      simp only [quantumArgs, List.mem_cons] at hv
      rcases hv with rfl | hv
      · exact ⟨_, List.mem_cons_self .., rfl⟩
      · exact ih hv
    | register =>
      simp only [quantumArgs, List.mem_cons] at hv
      rcases hv with rfl | hv
      · exact ⟨_, List.mem_cons_self .., rfl⟩
      · exact ih hv
    | int => exact ih (by simpa [quantumArgs] using hv)
    | float => exact ih (by simpa [quantumArgs] using hv)
    | none => exact ih (by simpa [quantumArgs] using hv)

theorem EmuHonoured.within {natives : List GateDef} {g : GateRec} (ht : ∀ a ∈ g.2.2, argT a.2 = true)
    (h : EmuHonoured Allows natives g) : EmuHonoured Within natives g := by
  obtain ⟨gdn, hf, hq⟩ := h
  refine ⟨gdn, hf, fun hu v hv => ?_⟩
  obtain ⟨a, ha, rfl⟩ := quantumArgs_mem _ _ v hv
  exact (hq hu _ hv).within (ht a ha)

theorem UsedHonoured.within {g : GateRec} (ht : ∀ a ∈ g.2.2, argT a.2 = true) (h : UsedHonoured Allows g) :
    UsedHonoured Within g := by
  intro htag p hp
  obtain ⟨a, hl, ha⟩ := h htag p hp
  exact ⟨a, hl, fun hq => (ha hq).within (ht _ (lookup_mem hl))⟩

theorem FlatT_args {x : Circuit} (hf : FlatT x = true) : ∀ g ∈ gatesOf x.body, ∀ a ∈ g.2.2, argT a.2 = true := by
  simp only [FlatT, Bool.and_eq_true] at hf
  exact usedT_gates x.body hf.1.1.2

theorem RefsHonoured.within {x : Circuit} {body : List Walk.Stmt} {tbl : List GateRec} {traces : List (Addr × Addr)}
    (hf : FlatT x = true) (h : RefsHonoured Allows x body tbl traces) : RefsHonoured Within x body tbl traces := by
  refine ⟨h.table, fun g hg => (h.used g hg).within (FlatT_args hf g (h.table g hg)), fun tr htr id hid => ?_⟩
  obtain ⟨g, hg, he⟩ := h.emulated tr htr id hid
  exact ⟨g, hg, he.within (FlatT_args hf g (h.table g (List.mem_of_getElem? hg)))⟩

/-- **C14 over the run (acceptance), flat typed circuit.** Every level of every alias chain has a size, and the index used at
that level lies in `0 … size-1`; the resolved index lies in `0 … size-1` of the fundamental register. -/
theorem C14_run_refs_within (x : Circuit) (body : List Walk.Stmt) (tbl : List GateRec) (s : RunSummary) (hf : FlatT x = true)
    (hs : skeleton x = .ok (body, tbl)) (h : execute x = .ok s) :
    ∃ traces, discover body = .ok traces ∧ makeSubcircuits x body tbl traces = .ok s.traces ∧
      RefsHonoured Within x body tbl traces := by
  obtain ⟨traces, hd, hm, hr⟩ := C14_run_refs_honoured x body tbl s hs h
  exact ⟨traces, hd, hm, hr.within hf⟩

/-! ### Rejection -/

/-- **C14 over the run (rejection).** If a gate that would be serialised into a trace is not honoured — by the emulator's reading
or by the used-qubit walk —, the executing stage fails: there is no result, in particular none computed on a different qubit.
On a flat typed circuit the failure is a `JaqalError`. -/
theorem C14_run_bad_ref_rejected (x : Circuit) (body : List Walk.Stmt) (tbl : List GateRec) (traces : List (Addr × Addr))
    (hs : skeleton x = .ok (body, tbl)) (hd : discover body = .ok traces)
    (tr : Addr × Addr) (htr : tr ∈ traces) (id : Nat) (hid : GK.other id ∈ segment tr body) (g : GateRec)
    (hg : tbl[id]? = some g) (hbad : ¬ EmuHonoured Allows x.natives g ∨ ¬ UsedHonoured Allows g) :
    ∃ e, execute x = .error e ∧ (FlatT x = true → ∃ r, e = .jaqal r) := by
  cases hx : execute x with
  | error e => exact ⟨e, rfl, fun hf => execute_jaqal hf hx⟩
  | ok s =>
    exfalso
    obtain ⟨traces', hd', _, hr⟩ := C14_run_refs_honoured x body tbl s hs hx
    rw [hd] at hd'; cases hd'
    obtain ⟨g', hg', he⟩ := hr.emulated tr htr id hid
    rw [hg] at hg'; cases hg'
    rcases hbad with hb | hb
    · exact hb he
    · exact hb (hr.used g (List.mem_of_getElem? hg))

/-- the concrete way a reference goes wrong: an argument the emulator resolves is a qubit reference whose chain is NOT allowed at
some level (index outside that level's size), or whose source is not a register, or whose index is not an integer -/
theorem C14_bad_qubit_not_honoured {natives : List GateDef} {name : String} {gd gdn : GateDef} {args : List (String × Val)}
    (hn : natives.find? (·.name == name) = some gdn) (hu : gdn.hasUnitary = true) {n : String} {src idx : Val}
    (hv : Val.qubit n src idx ∈ quantumArgs gdn.params args) (hbad : ¬ QubitChain Allows (.qubit n src idx)) :
    ¬ EmuHonoured Allows natives (name, gd, args) := by
  rintro ⟨gdn', hn', hq⟩
  rw [hn] at hn'; cases hn'
  rcases hq hu _ hv with ⟨r, k, hh⟩ | hh
  · exact hbad hh.chain
  · have := hh.1
    simp [Resolve.isRegister] at this

/-- … and such a reference is exactly one whose resolution raises -/
theorem C14_bad_qubit_iff (v : Val) : ¬ QubitChain Allows v ↔ ∃ e, resolveQubit [] v = .error e := by
  rw [← resolveQubit_ok_iff]
  cases h : resolveQubit [] v with
  | ok q => simp
  | error e => simp

/-! ### Text level -/

/-- **C14 over the run, from the text.** Whatever the text, the gate set and the override list: if the run produces a result,
the circuit `expandAll ov` produced — lets (with their overriding values) and macro arguments substituted — has every gate statement
honoured by the used-qubit walk and every gate of every trace honoured by the emulator, with the index inside the size of every
level of its alias chain and the resolved index inside the fundamental register; the traces of the result are the serialisation
of these gates. -/
theorem C14_run_text (cfg : Config) (ov : List (String × Num)) (txt : String) (s : RunSummary)
    (h : runModel cfg ov txt = .ok s) :
    ∃ c x body tbl traces, Pipeline.parseProgram cfg txt = .ok c ∧ expandAll ov c = .ok x ∧ FlatT x = true ∧
      skeleton x = .ok (body, tbl) ∧ discover body = .ok traces ∧ makeSubcircuits x body tbl traces = .ok s.traces ∧
      RefsHonoured Within x body tbl traces := by
  unfold runModel at h
  obtain ⟨c, hc, h⟩ := bind_ok h
  unfold runCircuit at h
  obtain ⟨x, hx, h⟩ := bind_ok h
  have hf := flatOf_all cfg ov txt c x hc hx
  cases hs : skeleton x with
  | error e => simp [execute, hs, bind, Except.bind] at h
  | ok p =>
    obtain ⟨body, tbl⟩ := p
    obtain ⟨traces, hd, hm, hr⟩ := C14_run_refs_within x body tbl s hf hs h
    exact ⟨c, x, body, tbl, traces, hc, hx, hf, hs, hd, hm, hr⟩

/-- a reference that is refused — at whichever stage its value becomes known: by the builder (literal), by `fill_in_let` (let value,
overriding value), by `expand_macros` (macro substitution) or by the executing stage — is refused with `JaqalError` (`ImportError`
is the `usepulses` loader's): once the text has parsed, the run has no other failure class. -/
theorem C14_run_text_error (cfg : Config) (ov : List (String × Num)) (txt : String) (e : Err)
    (h : runModel cfg ov txt = .error e) : (∃ r, e = .jaqal r) ∨ e = .importErr ∨ ∃ l c, e = .parse l c := by
  rcases C16_total cfg ov txt e h with (hr | hi) | hp
  · exact Or.inl hr
  · exact Or.inr (Or.inl hi)
  · exact Or.inr (Or.inr hp)

/-- … and a failure of the executing stage of a run is a `JaqalError`, exactly -/
theorem C14_run_text_exec_error (cfg : Config) (ov : List (String × Num)) (txt : String) (c x : Circuit) (e : Err)
    (hc : Pipeline.parseProgram cfg txt = .ok c) (hx : expandAll ov c = .ok x) (h : execute x = .error e) : ∃ r, e = .jaqal r :=
  execute_jaqal (flatOf_all cfg ov txt c x hc hx) h

/-! ### Non-vacuity -/
section Examples

/-- `let k 0; register q[6]; map a q[1:6:2]; map b a[0:3:2]; prepare_all; X b[k]; measure_all`:
`a = q[1], q[3], q[5]`, `b = a[0], a[2] = q[1], q[5]` — an alias of a strided alias, indexed by a let -/
def exAlias : String := "let k 0\nregister q[6]\nmap a q[1:6:2]\nmap b a[0:3:2]\nprepare_all\nX b[k]\nmeasure_all\n"

/-- the gates the run serialises -/
def exTraces (ov : List (String × Num)) (txt : String) : Option (List (List String)) :=
  match runModel exCfg ov txt with
  | .ok s => some s.traces
  | .error _ => none

def exJaqal (ov : List (String × Num)) (txt : String) : Bool :=
  match runModel exCfg ov txt with
  | .error (.jaqal _) => true
  | _ => false

-- accepted: with the let as written the gate runs on `b[0] = a[0] = q[1]`
example : exTraces [] exAlias = some [["prepare_all", "X q1", "measure_all"]] := by decide +kernel
-- accepted: the override `k = 1` moves it to `b[1] = a[2] = q[5]` — index 1 < 2 = size of b, 2 < 3 = size of a, 5 < 6 = size of q
example : exTraces [("k", .int 1)] exAlias = some [["prepare_all", "X q5", "measure_all"]] := by decide +kernel
-- rejected: the override `k = 2` leaves `b` (size 2), although `q[2]`, `a[2]` exist — JaqalError, no gate runs on another qubit
example : exJaqal [("k", .int 2)] exAlias = true := by decide +kernel
-- macro substitution: `m 1` is `X b[1]`, accepted and run on `q[5]`
example : exTraces [] "register q[6]\nmap a q[1:6:2]\nmap b a[0:3:2]\nmacro m i { X b[i] }\nprepare_all\nm 1\nmeasure_all\n" =
    some [["prepare_all", "X q5", "measure_all"]] := by decide +kernel
-- rejected: macro substitution produces the out-of-range index `b[2]` …
example : exJaqal [] "register q[6]\nmap a q[1:6:2]\nmap b a[0:3:2]\nmacro m i { X b[i] }\nprepare_all\nm 2\nmeasure_all\n" = true := by
  decide +kernel
-- … or the out-of-range reference `r[2]` with `r := b`
example : exJaqal [] "register q[6]\nmap a q[1:6:2]\nmap b a[0:3:2]\nmacro m r { X r[2] }\nprepare_all\nm b\nmeasure_all\n" = true := by
  decide +kernel

/-- a REGISTER argument through the alias of a strided alias whose stop is a let (`cfgRG`, `Props/C16.lean`: a gate set with a gate
that takes a register) -/
def exSlice : String := "let n 2\nregister q[6]\nmap a q[1:6:2]\nmap b a[0:n:2]\nprepare_all\nRG b\nmeasure_all\n"
-- accepted: with `n = 3` overriding, `b = a[0], a[2] = q[1], q[5]`: every element resolves, the gate runs on exactly these
example : (match runModel cfgRG [("n", .int 3)] exSlice with | .ok s => some s.traces | .error _ => none) =
    some [["prepare_all", "RG r1,5", "measure_all"]] := by decide +kernel
-- rejected: with `n = 5` overriding, the slice `a[0:5:2]` reaches outside its source `a` (size 3) — JaqalError
example : (match runModel cfgRG [("n", .int 5)] exSlice with | .error (.jaqal _) => true | _ => false) = true := by
  decide +kernel

/-! The hypotheses and the conclusion of `C14_run_refs_within`, evaluated: the expanded circuit of the overridden program. -/

def exQ : Val := .regF "q" (.int 6)
def exA : Val := .regS "a" exQ (.int 1) (.int 6) (.int 2)
def exB : Val := .regS "b" exA (.int 0) (.int 3) (.int 2)

/-- the chain of `b[1]`, level by level: `1 < 2` in `b`, `0 + 1·2 = 2 < 3` in `a`, `1 + 2·2 = 5 < 6` in `q` -/
example : RegChain Within exB 1 := by
  refine ⟨⟨.int 2, by decide +kernel, 2, rfl, by omega, by omega⟩, 0, 2, rfl, rfl, ?_⟩
  refine ⟨⟨.int 3, by decide +kernel, 3, rfl, by omega, by omega⟩, 1, 2, rfl, rfl, ?_⟩
  exact ⟨6, rfl, by omega, by omega⟩
example : resolveQubit [] (.qubit "b[1]" exB (.int 1)) = .ok ("q", 5) := by decide +kernel
/-- `b[2]` is not allowed at its first level (`2 ≥ 2 = size of b`), although `q[2]` and `a[2]` exist -/
example : ¬ QubitChain Allows (.qubit "b[2]" exB (.int 2)) := by
  rw [C14_bad_qubit_iff]
  exact ⟨.jaqal "index-out-of-range", by decide +kernel⟩

/-- a circuit handed to the executing stage directly (through the API, bypassing the constructors' checks) with the reference
`b[2]`: the premises of `C14_run_bad_ref_rejected` hold, and the executing stage refuses it with JaqalError -/
def exBad : Circuit :=
  { registers := [exQ, exA, exB], natives := [exGX, exPrep, exMeas],
    body := .block false false (.int 1)
      [.gate "prepare_all" exPrep [], .gate "X" exGX [("q", .qubit "b[2]" exB (.int 2))], .gate "measure_all" exMeas []] }

example : FlatT exBad = true := by decide +kernel
example : skeleton exBad = .ok ([.gate .prep, .gate (.other 0), .gate .meas],
    [("X", exGX, [("q", .qubit "b[2]" exB (.int 2))])]) := by rfl
example : discover [.gate .prep, .gate (.other 0), .gate .meas] = .ok [([0], [2])] := by decide +kernel
example : GK.other 0 ∈ segment ([0], [2]) [.gate .prep, .gate (.other 0), .gate .meas] := by decide +kernel
example : ¬ EmuHonoured Allows exBad.natives ("X", exGX, [("q", .qubit "b[2]" exB (.int 2))]) :=
  C14_bad_qubit_not_honoured (gdn := exGX) (n := "b[2]") (src := exB) (idx := .int 2) (by decide +kernel) rfl
    (by simp [quantumArgs, exGX])
    ((C14_bad_qubit_iff _).2 ⟨.jaqal "index-out-of-range", by decide +kernel⟩)
example : execute exBad = .error (.jaqal "index-out-of-range") := by decide +kernel

/-- the same circuit with the reference `b[1]` runs, on `q[5]` -/
def exGood : Circuit :=
  { registers := [exQ, exA, exB], natives := [exGX, exPrep, exMeas],
    body := .block false false (.int 1)
      [.gate "prepare_all" exPrep [], .gate "X" exGX [("q", .qubit "b[1]" exB (.int 1))], .gate "measure_all" exMeas []] }
example : FlatT exGood = true := by decide +kernel
example : (execute exGood).map (·.traces) = .ok [["prepare_all", "X q5", "measure_all"]] := by decide +kernel

end Examples

end Jaqal.RunModel

#print axioms Jaqal.RunModel.C14_run_refs_honoured
#print axioms Jaqal.RunModel.C14_run_refs_within
#print axioms Jaqal.RunModel.C14_run_bad_ref_rejected
#print axioms Jaqal.RunModel.C14_bad_qubit_not_honoured
#print axioms Jaqal.RunModel.C14_bad_qubit_iff
#print axioms Jaqal.RunModel.C14_run_text
#print axioms Jaqal.RunModel.C14_run_text_error
#print axioms Jaqal.RunModel.C14_run_text_exec_error
