import JaqalProofs.Props.C16
import JaqalProofs.Props.ParsedC10
import JaqalProofs.Lemmas.ExpandTyped
/-!
# C16 for the parsing entry point WITH its expansion flags

`Passes.parseTextWithFlags cfg em el elm ov txt` =
`parse_jaqal_string(txt, expand_macro=em, expand_let=el, expand_let_map=elm, override_dict=ov, inject_pulses=…, autoload_pulses=…)`.

## Proved
* **`C16_flags_total_nomap`** — `expand_let_map = False`, every text, configuration, `expand_macro`, `expand_let`, override list:
  every failure is `Good16` (JaqalParseError / JaqalError / ImportError; never `.other _`, never `.hang`).  Chain:
  parser (`parseError` only) → `build` (`C16_builder_total`) → `expand_macros(preserve_definitions=True)`
  (`C04_total_class` on `built_wellFormed`) → `fill_in_let` (`C05_total_class` on a typed circuit: `built_typed`, and AFTER the
  macro expansion the new link `expandMacros_typed`, `Lemmas/ExpandTyped.lean`) → the register-count check.
* **`C16_flags_total_partial`** — all eight combinations, GIVEN `MapClass` (`fill_in_map` on the result of
  `fill_in_let` fails with `JaqalError` / `ImportError` only).  `C16_flags_total_full` is the statement without it.
* **`C16_flags_pos_nomap`** / `C16_flags_pos_partial`, **`C16_flags_deterministic`**.

## Open
`MapClass` for every text (the class of `fill_in_map` after the other two): the visitor `mapVal` on `OutT` values
(`resolveRegV_spec` + `resolveReg_class`, `getItem_class`) and the rebuild of `mapSx` (`build_total_let` applies: its leaves
are embedded objects) — not done in the time available.
-/
namespace Jaqal.Passes
open Jaqal Jaqal.Builder Jaqal.Parser Jaqal.RunModel Jaqal.FillIn

/-- `fill_in_map` on what `fill_in_let` returns — on the (possibly macro-expanded) circuit built from the text — fails with
`JaqalError` / `ImportError` only.  The one link NOT proved in general. -/
def MapClass (cfg : Config) (em : Bool) (ov : List (String × Num)) (txt : String) : Prop :=
  ∀ sx c0 c1 c2, parseText txt = .ok sx → build cfg (BSx.ofSx sx) = .ok c0 →
    applySeq (if em then [Pass.macros true] else []) c0 = .ok c1 → fillInLet ov c1 = .ok c2 → Cls Good (fillInMap c2)

theorem catchRecursion_cls {α : Type} {r : M α} (h : Cls Good r) : Cls Good (catchRecursion r) := by
  intro e he
  cases r with
  | ok a => cases he
  | error e0 =>
    have h0 := h e0 rfl
    rcases h0 with ⟨s, rfl⟩ | rfl <;> (simp only [catchRecursion] at he; cases he) <;> first | exact Good.jaqal _ | exact Or.inr rfl

theorem tooManyRegisters_cls (c : Circuit) : Cls Good (tooManyRegisters c) := by
  intro e he
  unfold tooManyRegisters at he
  split at he
  · simp only [throw, throwThe, MonadExceptOf.throw] at he; cases he; exact Good.jaqal _
  · cases he

/-- the facts about what `build` makes of the parser's tree -/
theorem built_facts {cfg : Config} {txt : String} {sx : Sx} {c : Circuit} (ht : parseText txt = .ok sx)
    (hb : build cfg (BSx.ofSx sx) = .ok c) :
    ExpandMacros.WellFormed c = true ∧ TypedC c ∧ ScopedC c ∧ ∃ b, c.body = .block false false (.int 1) b :=
  ⟨built_wellFormed cfg _ c (parseText_parserSx ht) hb, built_typed cfg _ c (parseText_parserSx ht) hb,
    built_scoped cfg _ c (parseText_grammarSx ht) hb, RunModel.build_body hb⟩

/-- the optional first pass: its class, and what it keeps -/
theorem macros_stage {cfg : Config} {txt : String} {sx : Sx} {c0 : Circuit} (em : Bool) (ht : parseText txt = .ok sx)
    (hb : build cfg (BSx.ofSx sx) = .ok c0) :
    Cls Good (applySeq (if em then [Pass.macros true] else []) c0) ∧
    ∀ c1, applySeq (if em then [Pass.macros true] else []) c0 = .ok c1 →
      TypedC c1 ∧ ∃ b, c1.body = .block false false (.int 1) b := by
  obtain ⟨hw, hty, hsc, hbody⟩ := built_facts ht hb
  cases em with
  | false =>
    refine ⟨Cls.pure _, fun c1 h => ?_⟩
    simp only [Bool.false_eq_true, if_false, applySeq, pure, Except.pure] at h
    cases h; exact ⟨hty, hbody⟩
  | true =>
    simp only [if_true, applySeq, apply]
    constructor
    · refine Cls.bind ?_ (fun _ _ => Cls.pure _)
      intro e he
      obtain ⟨r, rfl⟩ := ExpandMacros.C04_total_class true c0 hw e he
      exact Good.jaqal r
    · intro c1 h
      cases hm : ExpandMacros.expandMacros true c0 with
      | error e => rw [hm] at h; cases h
      | ok c1' =>
        rw [hm] at h
        simp only [Except.bind, pure, Except.pure] at h
        cases h
        obtain ⟨_, _, _, _, _, hb1⟩ := ExpandMacros.C04_header true c0 c1 hm
        exact ⟨expandMacros_typed hw hty hsc hm, hb1⟩

theorem applySeq_append (π ρ : List Pass) (c : Circuit) : applySeq (π ++ ρ) c = (applySeq π c).bind (applySeq ρ) := by
  induction π generalizing c with
  | nil => rfl
  | cons p ps ih =>
    simp only [List.cons_append, applySeq]
    cases apply p c with
    | error e => rfl
    | ok c1 => exact ih c1

/-- the passes of the flags on a built circuit: their class -/
theorem flagPasses_cls {cfg : Config} {txt : String} {sx : Sx} {c0 : Circuit} (em el elm : Bool) (ov : List (String × Num))
    (ht : parseText txt = .ok sx) (hb : build cfg (BSx.ofSx sx) = .ok c0)
    (hmap : elm = true → MapClass cfg em ov txt) : Cls Good (applySeq (flagPasses em el elm ov) c0) := by
  unfold flagPasses
  rw [applySeq_append]
  obtain ⟨hcls, hkeep⟩ := macros_stage em ht hb
  refine Cls.bind hcls (fun c1 hc1 => ?_)
  obtain ⟨hty1, b1, hb1⟩ := hkeep c1 hc1
  have hlet : Cls Good (fillInLet ov c1) := C05_total_class ov c1 hty1 ⟨_, _, _, hb1⟩
  cases elm with
  | true =>
    simp only [if_true, applySeq, apply]
    refine Cls.bind hlet (fun c2 hc2 => Cls.bind (hmap rfl sx c0 c1 c2 ht hb hc1 hc2) (fun _ _ => Cls.pure _))
  | false =>
    cases el with
    | true =>
      simp only [Bool.false_eq_true, if_false, if_true, applySeq, apply]
      exact Cls.bind hlet (fun _ _ => Cls.pure _)
    | false => exact Cls.pure _

/-- everything behind the parser -/
theorem parseWithFlags_cls {cfg : Config} {txt : String} {sx : Sx} (em el elm : Bool) (ov : List (String × Num))
    (ht : parseText txt = .ok sx) (hmap : elm = true → MapClass cfg em ov txt) :
    Cls Good (parseWithFlags cfg em el elm ov sx) := by
  unfold parseWithFlags
  refine Cls.bind (catchRecursion_cls (Cls.bind ?_ (fun c0 hb => flagPasses_cls em el elm ov ht hb hmap)))
    (fun c _ => tooManyRegisters_cls c)
  exact C16_builder_total cfg _ (parseText_parserSx ht)

/-- **C16 for the flagged entry point, relative to `MapClass`** (only used when `expand_let_map` is set) -/
theorem C16_flags_total_partial (cfg : Config) (em el elm : Bool) (ov : List (String × Num)) (txt : String)
    (hmap : elm = true → MapClass cfg em ov txt) :
    ∀ e, parseTextWithFlags cfg em el elm ov txt = .error e → Good16 e := by
  intro e h
  unfold parseTextWithFlags Pipeline.parseSx at h
  cases hp : parseText txt with
  | error pe =>
    rw [hp] at h
    cases pe with
    | parseError l c =>
      simp only [Except.bind, Pipeline.liftErr] at h
      cases h
      exact Or.inr ⟨l, c, rfl⟩
  | ok sx =>
    rw [hp] at h
    exact Or.inl (parseWithFlags_cls em el elm ov hp hmap e h)

/-- **C16 (totality) for `parse_jaqal_string` with `expand_macro` / `expand_let`** (`expand_let_map=False`): every text,
configuration, value of the two flags and override list — a result, or JaqalParseError / JaqalError / ImportError. -/
theorem C16_flags_total_nomap (cfg : Config) (em el : Bool) (ov : List (String × Num)) (txt : String) :
    ∀ e, parseTextWithFlags cfg em el false ov txt = .error e → Good16 e :=
  C16_flags_total_partial cfg em el false ov txt (fun h => by cases h)

/-- the full statement (all eight combinations), NOT proved: missing is `MapClass` for every text -/
def C16_flags_total_full : Prop :=
  ∀ (cfg : Config) (em el elm : Bool) (ov : List (String × Num)) (txt : String) (e : Err),
    parseTextWithFlags cfg em el elm ov txt = .error e → Good16 e

theorem C16_flags_no_crash_no_hang {e : Err} (h : Good16 e) : (∀ c, e ≠ .other c) ∧ e ≠ .hang := h.not_other

/-- **C16 (position) for the flagged entry point**: a parse error is the parser's, with the position `C16_pos` describes -/
theorem C16_flags_pos_partial (cfg : Config) (em el elm : Bool) (ov : List (String × Num)) (txt : String) (l : Option Nat)
    (c : Nat) (hmap : elm = true → MapClass cfg em ov txt)
    (h : parseTextWithFlags cfg em el elm ov txt = .error (.parse l c)) :
    parseText txt = .error (.parseError l c) ∧
    ((l = none ∧ c = 0) ∨ ∃ l', l = some l' ∧ Jaqal.C02.IsTokenPos txt l' c) := by
  have ht : parseText txt = .error (.parseError l c) := by
    unfold parseTextWithFlags Pipeline.parseSx at h
    cases hp : parseText txt with
    | error pe =>
      rw [hp] at h
      cases pe with
      | parseError l' c' =>
        simp only [Except.bind, Pipeline.liftErr] at h
        cases h
        rfl
    | ok sx =>
      rw [hp] at h
      have := parseWithFlags_cls em el elm ov hp hmap _ h
      rcases this with ⟨r, hr⟩ | hr <;> cases hr
  refine ⟨ht, ?_⟩
  cases l with
  | none => exact Or.inl ⟨rfl, parseText_eof_col ht⟩
  | some l' => exact Or.inr ⟨l', rfl, Jaqal.C02.C02_error_pos_partial ht⟩

theorem C16_flags_pos_nomap (cfg : Config) (em el : Bool) (ov : List (String × Num)) (txt : String) (l : Option Nat) (c : Nat)
    (h : parseTextWithFlags cfg em el false ov txt = .error (.parse l c)) :
    parseText txt = .error (.parseError l c) ∧
    ((l = none ∧ c = 0) ∨ ∃ l', l = some l' ∧ Jaqal.C02.IsTokenPos txt l' c) :=
  C16_flags_pos_partial cfg em el false ov txt l c (fun h => by cases h) h

/-- the outcomes of a history of flagged calls -/
def flagHistory (cfg : Config) (em el elm : Bool) (ov : List (String × Num)) (txts : List String) : List (M Circuit) :=
  txts.map (parseTextWithFlags cfg em el elm ov)

/-- **C16 (determinism)**: the outcome of a call in a history is the outcome of that text processed alone -/
theorem C16_flags_deterministic (cfg : Config) (em el elm : Bool) (ov : List (String × Num)) (before after : List String)
    (txt : String) :
    (flagHistory cfg em el elm ov (before ++ txt :: after))[before.length]? = some (parseTextWithFlags cfg em el elm ov txt) := by
  simp [flagHistory]

/-! ### Non-vacuity -/

def isOkB {α : Type} : M α → Bool
  | .ok _ => true
  | _ => false
def isJaqalB {α : Type} : M α → Bool
  | .error (.jaqal _) => true
  | _ => false

/-- a macro call with a bad argument (index 5 of a register of 2): accepted without `expand_macro`, JaqalError with it -/
example : isOkB (parseTextWithFlags {} false false false [] "register r[2]\nmacro m a{g a[5]}\nm r\n") = true := by
  decide +kernel
example : isJaqalB (parseTextWithFlags {} true false false [] "register r[2]\nmacro m a{g a[5]}\nm r\n") = true := by
  decide +kernel
/-- a text that succeeds under all eight combinations -/
example : ([false, true].all fun em => [false, true].all fun el => [false, true].all fun elm =>
    isOkB (parseTextWithFlags {} em el elm [] "let n 2\nregister r[n]\nmacro m a{g a}\nm r[1]\n")) = true := by
  decide +kernel
/-- a syntax error with its position, whatever the flags -/
example : (match parseTextWithFlags {} true true false [] "let x $" with
  | .error (.parse (some l) c) => l == 1 && c == 7 | _ => false) = true := by decide +kernel

end Jaqal.Passes

#print axioms Jaqal.Passes.C16_flags_total_partial
#print axioms Jaqal.Passes.C16_flags_total_nomap
#print axioms Jaqal.Passes.C16_flags_pos_partial
#print axioms Jaqal.Passes.C16_flags_pos_nomap
#print axioms Jaqal.Passes.C16_flags_deterministic
