import JaqalProofs.Lemmas.OutputList
import JaqalProofs.Props.C08Run
import JaqalProofs.Props.C09Exec
import JaqalProofs.Props.C15
/-!
# C08 / C15 / C09 for the parser of hardware output lists

`OutputList.parseOutputs c outs` (`JaqalModel/Model/OutputList.lean`) models `parse_jaqal_output_list(c, outs)` for lists of
Python `int`s and `str`s.  All statements are for every circuit and every list, no bound on sizes.

* **`C08_outputs_one_per_visit`** — a result has exactly one readout per visit of the walk, in that order: the subcircuit indices of
  the readouts are `Walk.visit` on the skeleton of the expanded circuit, which is `specVisits` = the visits of the UNROLLED
  program (`C08_order`, `C08_unroll`); readout indices are 0,1,2,…; the `j`-th readout holds the value of the `j`-th output
  (`HwOut.value`: the integer itself, `Result.ofStr` of a string — `value_int`, `value_str`); `len(result.subcircuits)` is the
  number of traces.  `C08_outputs_like_emulator`: the visit sequence and the number of subcircuits are those of the emulator's
  run (`RunModel.runCircuit`) whenever both produce a result.
* **`C08_outputs_short`** — an accepted list cut to fewer entries than there are visits is refused with `JaqalError`;
  `C08_outputs_short_never_ok`: no list shorter than the visits is ever accepted.
* **`C08_outputs_extra_ignored`** — entries after the last visit change nothing (whatever they are, malformed ones included);
  `C08_outputs_extra_ignored_all`: also when the list is refused (same error), as soon as it is at least as long as the visits.
* **`C15_outputs_same`** — replacing integer entries `k ≥ 0` by the string `asStr n k` (any `n`) or such strings by the integer,
  at any positions, gives the same outcome — result or error; `C15_outputs_value`: more generally the outcome depends on an entry only
  through `HwOut.value`.  `C15_outputs_forms`: every accepted readout value `v ≥ 0` is `< 2^n`, so its string form `asStr n v` has
  exactly `n` characters (`n ≥ 1`) and reads back as `v`.
  **The hypothesis `v ≥ 0` cannot be dropped: the code accepts the integers `-2^n ≤ k < 0`** (numpy indexes from the end);
  the readout keeps the negative `as_int` — `ex_negative`.
* **`C08_outputs_freq`** — there is one table per subcircuit, of `2^n` entries; entry `v` of table `j` is the number of readouts of
  subcircuit `j` that numpy counts at position `v` (`hits`: value `v`, or value `v - 2^n` for a negative one); the table's total is
  the number of visits of `j`.  `C08_outputs_freq_nonneg`: when no output is negative, entry `v` = the number of `j`'s own readouts
  with value `v`.
* **`C09_outputs_exec`** — a circuit and its explicit spelling (`expandSubcircuits none none`: every `subcircuit { B }` written
  `{ prepare_all ; B ; measure_all }`) have the same outcome for every output list; `C09_outputs_rejected`: a circuit the pass
  refuses is refused here with the same error.
* Non-vacuity: `exTxt` (a loop over a subcircuit block, then a subcircuit block with a count), outputs mixing strings and integers,
  evaluated through the parser by `decide +kernel`; every theorem is instantiated on it.
-/
set_option linter.unusedVariables false
namespace Jaqal.OutputList
open Jaqal Jaqal.Builder Jaqal.Walk

/-! ### What an entry stands for -/

theorem value_int (k : Int) : (HwOut.int k).value = .ok k := rfl

/-- a string entry is read by `Result.ofStr` = `int(s[::-1], 2)`; `ValueError` where that fails -/
theorem value_str (s : String) :
    (HwOut.str s).value = match Result.ofStr s with
      | some v => .ok (v : Int)
      | none => .error (.other "ValueError") := by
  cases h : Result.ofStr s <;> simp only [HwOut.value, h] <;> rfl

/-- the integer and its `n`-character string stand for the same value -/
theorem value_asStr (n k : Nat) : (HwOut.str (Result.asStr n k)).value = (HwOut.int (k : Int)).value := by
  rw [value_str, Result.C15_roundtrip_all]
  rfl

/-! ### C08: one readout per visit, in order -/

/-- **C08 (outputs, one per visit).** -/
theorem C08_outputs_one_per_visit (c : Circuit) (outs : List HwOut) (s : OutputSummary)
    (h : parseOutputs c outs = .ok s) :
    ∃ x body tbl traces, RunModel.expandAll [] c = .ok x ∧ RunModel.skeleton x = .ok (body, tbl) ∧
      discover body = .ok traces ∧ s.subcircuits = traces.length ∧
      visit (fuelBound (traces.map (·.1)) body) (traces.map (·.1)) body = .ok (s.readouts.map (·.2.1)) ∧
      s.readouts.map (·.2.1) = specVisits (traces.map (·.1)) body ∧
      s.readouts.map (·.2.1) = execVisits (traces.map (·.1)) (unroll body) ∧
      s.readouts.map (·.1) = List.range s.readouts.length ∧
      s.readouts.length ≤ outs.length ∧
      ∀ j, j < s.readouts.length → ∃ o r, outs[j]? = some o ∧ s.readouts[j]? = some r ∧ o.value = .ok r.2.2 := by
  obtain ⟨p, hp, hc, hk⟩ := parseOutputs_ok h
  obtain ⟨x, hx, hpx⟩ := prepare_ok hp
  obtain ⟨body, tbl, traces, hs, _, _, hd, _, _, hv, hsec⟩ := prepareExpanded_ok hpx
  obtain ⟨h1, h2, h3, h4⟩ := consume_visits _ _ _ _ _ _ hc
  have hval := consume_values _ _ _ _ _ _ hc
  have hord := C08_order body traces hd _ (Nat.le_refl _)
  have hsv : p.visits = specVisits (traces.map (·.1)) body := by
    rw [hv] at hord
    exact Except.ok.inj hord
  refine ⟨x, body, tbl, traces, hx, hs, hd, by rw [hk, hsec], by rw [h1]; exact hv, by rw [h1]; exact hsv,
    by rw [h1, hsv]; exact C08_unroll body traces hd, ?_, by omega, ?_⟩
  · rw [h2, h3, List.range_eq_range']
  · intro j hj
    exact hval j (by omega)

/-- **C08 (outputs vs. emulator).** The parser of output lists attributes its readouts to the same subcircuits, in the same
order, as the emulator's run of the same circuit, and reports the same number of subcircuits. -/
theorem C08_outputs_like_emulator (c : Circuit) (outs : List HwOut) (s : OutputSummary) (r : RunModel.RunSummary)
    (h : parseOutputs c outs = .ok s) (hr : RunModel.runCircuit [] c = .ok r) :
    s.readouts.map (·.2.1) = r.visits ∧ s.subcircuits = r.subcircuits := by
  obtain ⟨x, body, tbl, traces, hx, hs, hd, hn, _, hsv, _⟩ := C08_outputs_one_per_visit c outs s h
  have he : RunModel.execute x = .ok r := by
    simpa [RunModel.runCircuit, hx, bind, Except.bind] using hr
  obtain ⟨traces', hd', hn', hv', _⟩ := RunModel.C08_run_visits x body tbl r hs he
  rw [hd] at hd'
  cases hd'
  exact ⟨by rw [hsv, hv'], by rw [hn, hn']⟩

/-- **C08 (outputs, too few).** An accepted list cut before the last visit: `JaqalError("Not enough outputs for this circuit")`. -/
theorem C08_outputs_short (c : Circuit) (outs rest : List HwOut) (s : OutputSummary)
    (h : parseOutputs c (outs ++ rest) = .ok s) (hl : outs.length < s.readouts.length) :
    parseOutputs c outs = .error (.jaqal "not-enough-outputs") := by
  obtain ⟨p, hp, hc, _⟩ := parseOutputs_ok h
  obtain ⟨_, _, h3, _⟩ := consume_visits _ _ _ _ _ _ hc
  rw [parseOutputs_eq, hp]
  simp only [Except.bind, finish, bind]
  rw [consume_prefix_short _ _ _ _ _ _ hc (by omega)]

/-- no list with fewer entries than visits is accepted -/
theorem C08_outputs_short_never_ok (c : Circuit) (outs : List HwOut) (s : OutputSummary) (h : parseOutputs c outs = .ok s) :
    s.readouts.length ≤ outs.length := by
  obtain ⟨p, _, hc, _⟩ := parseOutputs_ok h
  obtain ⟨_, _, h3, h4⟩ := consume_visits _ _ _ _ _ _ hc
  omega

/-- entries beyond the number of visits are not looked at: the outcome (result or error) is that of the first `|visits|` entries -/
theorem C08_outputs_extra_ignored_all (c : Circuit) (p : Prepared) (hp : prepare c = .ok p) (outs extra : List HwOut)
    (hl : p.visits.length ≤ outs.length) : parseOutputs c (outs ++ extra) = parseOutputs c outs := by
  rw [parseOutputs_eq, parseOutputs_eq, hp]
  simp only [Except.bind, finish, bind]
  rw [consume_append_extra _ _ _ _ _ hl]

/-- **C08 (outputs, extras).** Whatever follows the entries consumed by the visits changes nothing. -/
theorem C08_outputs_extra_ignored (c : Circuit) (outs extra : List HwOut) (s : OutputSummary)
    (h : parseOutputs c outs = .ok s) :
    parseOutputs c (outs ++ extra) = .ok s ∧ parseOutputs c (outs.take s.readouts.length ++ extra) = .ok s := by
  obtain ⟨p, hp, hc, _⟩ := parseOutputs_ok h
  obtain ⟨_, _, h3, h4⟩ := consume_visits _ _ _ _ _ _ hc
  constructor
  · rw [C08_outputs_extra_ignored_all c p hp outs extra h4, h]
  · rw [C08_outputs_extra_ignored_all c p hp _ extra (by rw [List.length_take]; omega)]
    rw [parseOutputs_eq, hp] at h ⊢
    simp only [Except.bind, finish, bind] at h ⊢
    rw [h3, consume_take]
    exact h

/-! ### C15: strings and integers -/

/-- the outcome depends on an entry only through the integer it stands for -/
theorem C15_outputs_value (c : Circuit) (outs outs' : List HwOut) (h : outs.map HwOut.value = outs'.map HwOut.value) :
    parseOutputs c outs = parseOutputs c outs' := by
  rw [parseOutputs_eq, parseOutputs_eq]
  cases prepare c with
  | error e => rfl
  | ok p =>
    simp only [Except.bind, finish, bind]
    rw [consume_congr _ _ _ _ _ h]

/-- the two spellings of one measured state: the integer `k` and the string `asStr n k` (`n` characters when `k < 2^n`) -/
inductive SameState (n : Nat) : HwOut → HwOut → Prop where
  | refl (o : HwOut) : SameState n o o
  | toStr (k : Nat) : SameState n (.int k) (.str (Result.asStr n k))
  | toInt (k : Nat) : SameState n (.str (Result.asStr n k)) (.int k)

/-- **C15 (outputs, strings = integers).** -/
theorem C15_outputs_same (c : Circuit) (n : Nat) (outs outs' : List HwOut) (h : List.Forall₂ (SameState n) outs outs') :
    parseOutputs c outs = parseOutputs c outs' := by
  apply C15_outputs_value
  induction h with
  | nil => rfl
  | cons hab _ ih =>
    simp only [List.map_cons, ih, List.cons.injEq, and_true]
    cases hab with
    | refl => rfl
    | toStr k => exact (value_asStr n k).symm
    | toInt k => exact value_asStr n k

/-- the whole list written as strings -/
def toStrings (n : Nat) : List HwOut → List HwOut
  | [] => []
  | .int k :: r => (if 0 ≤ k then .str (Result.asStr n k.toNat) else .int k) :: toStrings n r
  | o :: r => o :: toStrings n r

theorem C15_outputs_toStrings (c : Circuit) (n : Nat) (outs : List HwOut) :
    parseOutputs c (toStrings n outs) = parseOutputs c outs := by
  apply C15_outputs_same c n
  induction outs with
  | nil => exact .nil
  | cons o r ih =>
    cases o with
    | str s => exact .cons (.refl _) ih
    | int k =>
      unfold toStrings
      by_cases hk : 0 ≤ k
      · simp only [hk, if_true]
        refine .cons ?_ ih
        have : SameState n (.str (Result.asStr n k.toNat)) (.int (k.toNat : Int)) := .toInt k.toNat
        rwa [Int.toNat_of_nonneg hk] at this
      · simp only [hk, if_false]
        exact .cons (.refl _) ih

/-- **C15 (outputs, forms).** Every value the parser accepts is one numpy can index a table of `2^n` entries with; a
non-negative one is `< 2^n`, its string form has exactly `n` characters and reads back as the value. -/
theorem C15_outputs_forms (c x : Circuit) (n : Nat) (outs : List HwOut) (s : OutputSummary)
    (h : parseOutputs c outs = .ok s) (hx : RunModel.expandAll [] c = .ok x) (hn : measuredQubits x.registers = .ok n) :
    ∀ r ∈ s.readouts, (∃ k, normIndex (2 ^ n) r.2.2 = .ok k ∧ k < 2 ^ n) ∧
      (0 ≤ r.2.2 → r.2.2.toNat < 2 ^ n ∧ (0 < n → (Result.asStr n r.2.2.toNat).length = n) ∧
        Result.ofStr (Result.asStr n r.2.2.toNat) = some r.2.2.toNat) := by
  obtain ⟨p, hp, hc, _⟩ := parseOutputs_ok h
  obtain ⟨x', hx', hpx⟩ := prepare_ok hp
  rw [hx] at hx'
  cases hx'
  obtain ⟨body, tbl, traces, _, _, hq, _, _, ha, _, _⟩ := prepareExpanded_ok hpx
  rw [hn] at hq
  cases hq
  have hL : ∀ t ∈ p.tables, t.length = 2 ^ p.qubits := by
    intro t ht
    rw [allocTables_ok ha] at ht
    rw [List.eq_of_mem_replicate ht, List.length_replicate]
  intro r hr
  obtain ⟨k, hk, hkl⟩ := consume_in_range _ _ _ _ _ _ _ hc hL r hr
  refine ⟨⟨k, hk, hkl⟩, ?_⟩
  intro h0
  have hlt : r.2.2.toNat < 2 ^ p.qubits := by
    unfold normIndex at hk
    simp only [h0, if_true] at hk
    split at hk
    · next hh => exact hh
    · split at hk <;> simp [throw, throwThe, MonadExceptOf.throw] at hk
  exact ⟨hlt, fun hpos => Result.C15_as_str_length hpos hlt, Result.C15_roundtrip_all _ _⟩

/-! ### C08: relative frequencies -/

/-- **C08 (outputs, frequencies).** One table of `2^n` entries per subcircuit; entry `v` counts the subcircuit's own readouts
that numpy puts at `v`; the total is the number of the subcircuit's visits. -/
theorem C08_outputs_freq (c x : Circuit) (n : Nat) (outs : List HwOut) (s : OutputSummary)
    (h : parseOutputs c outs = .ok s) (hx : RunModel.expandAll [] c = .ok x) (hn : measuredQubits x.registers = .ok n) :
    s.tables.length = s.subcircuits ∧
    ∀ j t, s.tables[j]? = some t → t.length = 2 ^ n ∧
      (∀ v, v < 2 ^ n → t[v]? = some (hits (2 ^ n) j v s.readouts)) ∧
      t.sum = (s.readouts.map (·.2.1)).count j := by
  obtain ⟨p, hp, hc, hk⟩ := parseOutputs_ok h
  obtain ⟨x', hx', hpx⟩ := prepare_ok hp
  rw [hx] at hx'
  cases hx'
  obtain ⟨body, tbl, traces, _, _, hq, _, _, ha, _, hsec⟩ := prepareExpanded_ok hpx
  rw [hn] at hq
  cases hq
  have htb := allocTables_ok ha
  have hL : ∀ t ∈ p.tables, t.length = 2 ^ p.qubits := by
    intro t ht
    rw [htb] at ht
    rw [List.eq_of_mem_replicate ht, List.length_replicate]
  obtain ⟨g1, g2, g3, g4⟩ := consume_tables _ _ _ _ _ _ _ hc hL
  obtain ⟨h1, _, _, _⟩ := consume_visits _ _ _ _ _ _ hc
  have hlen : p.tables.length = traces.length := by rw [htb, List.length_replicate]
  refine ⟨by rw [g1, hlen, hk, hsec], ?_⟩
  intro j t ht
  have hj : j < traces.length := by
    rcases List.getElem?_eq_some_iff.mp ht with ⟨hlt, _⟩
    omega
  have hpj : p.tables[j]? = some (List.replicate (2 ^ p.qubits) 0) := by
    rw [htb, List.getElem?_replicate]
    simp [hj]
  refine ⟨g2 t (List.mem_of_getElem? ht), ?_, ?_⟩
  · intro v hv
    have := g3 j v
    simp only [cell, ht, hpj, Option.bind_some, List.getElem?_replicate, hv, if_true, Option.map_some] at this
    rw [this]
    simp
  · have := g4 j
    simp only [total, ht, hpj, Option.map_some, Option.some.injEq] at this
    rw [this, h1]
    simp

/-- a non-negative value is counted at itself -/
theorem position_nonneg (L : Nat) (k : Int) (v : Nat) (hk : 0 ≤ k) (hv : v < L) :
    (position L k == some v) = (k == (v : Int)) := by
  unfold position normIndex
  simp only [hk, if_true]
  by_cases hlt : k.toNat < L
  · simp only [hlt, if_true, pure, Except.pure]
    have : (k.toNat = v) ↔ (k = (v : Int)) := by omega
    simp [this]
  · simp only [hlt, if_false]
    have hne : ¬ (k = (v : Int)) := by omega
    by_cases ho : (2 : Int) ^ 63 ≤ k ∧ k < (2 : Int) ^ 64
    · simp only [ho, and_self, if_true, throw, throwThe, MonadExceptOf.throw]
      simp [hne]
    · simp only [ho, if_false, throw, throwThe, MonadExceptOf.throw]
      simp [hne]

/-- **C08 (outputs, frequencies, no negative output).** Entry `v` of subcircuit `j`'s table is the number of `j`'s own readouts
whose value is `v`. -/
theorem C08_outputs_freq_nonneg (c x : Circuit) (n : Nat) (outs : List HwOut) (s : OutputSummary)
    (h : parseOutputs c outs = .ok s) (hx : RunModel.expandAll [] c = .ok x) (hn : measuredQubits x.registers = .ok n)
    (h0 : ∀ r ∈ s.readouts, 0 ≤ r.2.2) :
    ∀ j t, s.tables[j]? = some t → ∀ v : Nat, v < 2 ^ n →
      t[v]? = some (s.readouts.countP (fun r => r.2.1 == j && r.2.2 == (v : Int))) := by
  intro j t ht v hv
  rw [((C08_outputs_freq c x n outs s h hx hn).2 j t ht).2.1 v hv]
  congr 1
  unfold hits
  apply List.countP_congr
  intro r hr
  simp only [position_nonneg (2 ^ n) r.2.2 v (h0 r hr) hv]

/-! ### C09: the two spellings of a subcircuit -/

/-- **C09 (outputs).** `c'` = `c` with every `subcircuit { B }` written `{ prepare_all ; B ; measure_all }`: same outcome for
every output list. -/
theorem C09_outputs_exec (c c' : Circuit) (h : ExpandSubcircuits.expandSubcircuits none none c = .ok c') (outs : List HwOut) :
    parseOutputs c' outs = parseOutputs c outs := by
  unfold parseOutputs
  rw [RunModel.C09_exec_expanded [] c c' h]

theorem C09_outputs_rejected (c : Circuit) (e : Err) (h : ExpandSubcircuits.expandSubcircuits none none c = .error e)
    (outs : List HwOut) : parseOutputs c outs = .error e := by
  simp only [parseOutputs, RunModel.expandAll, h, bind, Except.bind]

/-! ### Non-vacuity -/

theorem outputModel_ok {cfg : Config} {txt : String} {outs : List HwOut} {s : OutputSummary}
    (h : outputModel cfg txt outs = .ok s) : ∃ c, Pipeline.parseProgram cfg txt = .ok c ∧ parseOutputs c outs = .ok s := by
  unfold outputModel at h
  cases hc : Pipeline.parseProgram cfg txt with
  | error e => simp [hc, bind, Except.bind] at h
  | ok c => exact ⟨c, rfl, by simpa [hc, bind, Except.bind] using h⟩

/-- `register r[2]; loop 2 { subcircuit { Gx r[0] } }; subcircuit 3 { }` -/
def exTxt : String := "register r[2]\nloop 2 { subcircuit { Gx r[0] } }\nsubcircuit 3 { }\n"

/-- the same with the subcircuit blocks spelled out -/
def exTxt' : String := "register r[2]\nloop 2 { prepare_all\n Gx r[0]\n measure_all }\nprepare_all\nmeasure_all\n"

def exOuts : List HwOut := [.int 1, .str "01", .int 1]

def exSummary : OutputSummary :=
  { subcircuits := 2, readouts := [(0, 0, 1), (1, 0, 2), (2, 1, 1)], tables := [[0, 1, 1, 0], [0, 1, 0, 0]] }

theorem ex_run : outputModel {} exTxt exOuts = .ok exSummary := by decide +kernel

/-- all strings / all integers / extras / the explicit spelling: the same summary -/
theorem ex_strings : outputModel {} exTxt [.str "10", .str "01", .str "10"] = .ok exSummary := by decide +kernel
theorem ex_ints : outputModel {} exTxt [.int 1, .int 2, .int 1, .int 7, .str "zz"] = .ok exSummary := by decide +kernel
theorem ex_explicit : outputModel {} exTxt' exOuts = .ok exSummary := by decide +kernel

/-- too few outputs: `JaqalError`; a malformed string: `ValueError`; an integer out of range: `IndexError`; an integer in
`[2^63, 2^64)`: `OverflowError` — the last three are NOT `JaqalError`s -/
theorem ex_short : outputModel {} exTxt [.int 1, .str "01"] = .error (.jaqal "not-enough-outputs") := by decide +kernel
theorem ex_value_error : outputModel {} exTxt [.int 1, .str "0x", .int 1] = .error (.other "ValueError") := by decide +kernel
theorem ex_empty_string : outputModel {} exTxt [.int 1, .str "", .int 1] = .error (.other "ValueError") := by decide +kernel
theorem ex_index_error : outputModel {} exTxt [.int 1, .int 4, .int 1] = .error (.other "IndexError") := by decide +kernel
theorem ex_overflow_error : outputModel {} exTxt [.int 1, .int (2 ^ 63), .int 1] = .error (.other "OverflowError") := by
  decide +kernel

/-- **a negative integer is accepted**: the readout keeps `as_int = -1` (whose `as_str` is `"1-"`: two characters, not a state),
the table counts it at `2^n - 1`; `-5` is an `IndexError` -/
theorem ex_negative : outputModel {} exTxt [.int 1, .int (-1), .int (-4)] =
    .ok { subcircuits := 2, readouts := [(0, 0, 1), (1, 0, -1), (2, 1, -4)], tables := [[0, 1, 0, 1], [1, 0, 0, 0]] } := by
  decide +kernel
theorem ex_negative_out : outputModel {} exTxt [.int 1, .int (-5), .int 1] = .error (.other "IndexError") := by decide +kernel

/-- a register too large for the tables: `JaqalError` — but only when there is a subcircuit to build a table for -/
theorem ex_too_large : outputModel {} "register r[40]\nsubcircuit { }\n" [.int 0] = .error (.jaqal "frequency-tables-do-not-fit") := by
  decide +kernel
theorem ex_large_no_section : outputModel {} "register r[40]\n" [.int 0] = .ok { subcircuits := 0, readouts := [], tables := [] } := by
  decide +kernel

/-- the hypotheses of the theorems hold on the example -/
example : ∃ c, Pipeline.parseProgram {} exTxt = .ok c ∧ parseOutputs c exOuts = .ok exSummary := outputModel_ok ex_run

/-- `C08_outputs_one_per_visit` / `C08_outputs_freq` on the example: visits 0, 0, 1; subcircuit 0 saw the states 1 and 2 -/
example : exSummary.readouts.map (·.2.1) = [0, 0, 1] ∧ exSummary.readouts.map (·.1) = List.range 3 ∧
    hits 4 0 1 exSummary.readouts = 1 ∧ hits 4 0 2 exSummary.readouts = 1 ∧ hits 4 1 1 exSummary.readouts = 1 ∧
    hits 4 0 3 [(0, 0, 1), (1, 0, -1), (2, 1, -4)] = 1 := by decide

/-- `C08_outputs_short` / `C08_outputs_extra_ignored` / `C15_outputs_same` / `C09_outputs_exec` instantiated -/
example : ∃ c, Pipeline.parseProgram {} exTxt = .ok c ∧
    parseOutputs c [.int 1, .str "01"] = .error (.jaqal "not-enough-outputs") ∧
    parseOutputs c (exOuts ++ [.str "zz"]) = .ok exSummary ∧
    parseOutputs c [.str (Result.asStr 2 1), .int 2, .str (Result.asStr 2 1)] = .ok exSummary := by
  obtain ⟨c, hc, h⟩ := outputModel_ok ex_run
  refine ⟨c, hc, C08_outputs_short c [.int 1, .str "01"] [.int 1] exSummary h (by decide),
    (C08_outputs_extra_ignored c exOuts [.str "zz"] exSummary h).1, ?_⟩
  rw [← h]
  apply C15_outputs_same c 2
  refine .cons (.toInt 1) (.cons ?_ (.cons (.toInt 1) .nil))
  have : SameState 2 (.int ((2 : Nat) : Int)) (.str (Result.asStr 2 2)) := .toStr 2
  exact this

example : SameState 2 (.int 2) (.str "01") := SameState.toStr 2

end Jaqal.OutputList

#print axioms Jaqal.OutputList.C08_outputs_one_per_visit
#print axioms Jaqal.OutputList.C08_outputs_like_emulator
#print axioms Jaqal.OutputList.C08_outputs_short
#print axioms Jaqal.OutputList.C08_outputs_short_never_ok
#print axioms Jaqal.OutputList.C08_outputs_extra_ignored_all
#print axioms Jaqal.OutputList.C08_outputs_extra_ignored
#print axioms Jaqal.OutputList.C15_outputs_value
#print axioms Jaqal.OutputList.C15_outputs_same
#print axioms Jaqal.OutputList.C15_outputs_toStrings
#print axioms Jaqal.OutputList.C15_outputs_forms
#print axioms Jaqal.OutputList.C08_outputs_freq
#print axioms Jaqal.OutputList.C08_outputs_freq_nonneg
#print axioms Jaqal.OutputList.C09_outputs_exec
#print axioms Jaqal.OutputList.C09_outputs_rejected
