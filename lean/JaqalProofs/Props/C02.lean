import JaqalProofs.Lemmas.ParserSound
import JaqalProofs.Lemmas.ParserComplete
import JaqalProofs.Lemmas.SepExchange
import JaqalProofs.Lemmas.ParserErrPos
import JaqalProofs.Lemmas.LexerSpec
import JaqalProofs.Lemmas.ParserFuel
import JaqalProofs.Lemmas.LexerLayout
import JaqalProofs.Lemmas.NLRuns
import JaqalProofs.Lemmas.ParserViable
import JaqalProofs.Lemmas.LexerRegex
/-!
# C02 — the parser accepts exactly the Jaqal grammar

`Jaqal.Parser.parse` is the model of `JaqalParser` (`Model/Parser.lean`), `Jaqal.Grammar.Derives` the grammar
(`Spec/Grammar.lean`).
-/
namespace Jaqal.C02
open Jaqal Jaqal.Lexer Jaqal.Parser Jaqal.Grammar

/-- The text used by the non-vacuity examples. -/
def exampleText : String :=
  "register q[2]; let a 0.5\n\n loop 3 { < Rx q[0] a | Ry q[1] -1 > ; subcircuit { g } }\n"

/-- Whatever the parser accepts is a program of the grammar, with the reported tree. -/
theorem C02_sound {ts : List PTok} {t : Sx} (h : parse ts = .ok t) : Derives (ts.map (·.tok)) t :=
  parse_sound h

/-- Every program of the grammar is accepted, and the tree reported is the tree of the derivation. -/
theorem C02_complete {ts : List PTok} {t : Sx} (h : Derives (ts.map (·.tok)) t) : parse ts = .ok t :=
  parse_complete h

/-- The grammar assigns at most one tree to a token string (a consequence of completeness). -/
theorem C02_unique {ts : List Tok} {t₁ t₂ : Sx} (h₁ : Derives ts t₁) (h₂ : Derives ts t₂) : t₁ = t₂ := by
  let pts : List PTok := ts.map (fun t => ⟨t, 1, 0⟩)
  have e : pts.map (·.tok) = ts := by simp [pts, Function.comp_def]
  have a := C02_complete (ts := pts) (e.symm ▸ h₁)
  have b := C02_complete (ts := pts) (e.symm ▸ h₂)
  rw [a] at b
  cases b; rfl

/-- Acceptance is exactly derivability. -/
theorem C02_accepts_iff {ts : List PTok} {t : Sx} : parse ts = .ok t ↔ Derives (ts.map (·.tok)) t :=
  ⟨C02_sound, C02_complete⟩

/-- The model's recursion bound never interferes: `parse` fails only with a syntax error or an action
error (so the positions it reports are those of the recursive descent itself). -/
theorem C02_no_fuel_error (ts : List PTok) : parse ts ≠ .error .outOfFuel :=
  parse_ne_outOfFuel ts

/-! ## Separators are interchangeable -/

/-- Replacing any `;` tokens and any `|` tokens by newline tokens (`e` may depend on the token's
position, so any subset of the occurrences) never changes the result: the grammar only ever mentions
`;` inside `seqsep`/`seqpad` and `|` inside `parsep`/`parpad`, where a newline is allowed too. -/
theorem C02_sep_exchange {ts : List PTok} {t : Sx} (e : PTok → PTok)
    (he : ∀ p, SepExch p.tok (e p).tok) (h : parse ts = .ok t) : parse (ts.map e) = .ok t := by
  apply C02_complete
  have := derives_exchange (f := fun p : PTok => p.tok) (g := fun p => (e p).tok) he (C02_sound h)
  simpa [List.map_map, Function.comp_def] using this

/-- `;` ↦ newline -/
def semiToNL (p : PTok) : PTok := if p.tok = .semi then { p with tok := .NL } else p
/-- `|` ↦ newline -/
def barToNL (p : PTok) : PTok := if p.tok = .bar then { p with tok := .NL } else p

theorem C02_sep_exchange_semi {ts : List PTok} {t : Sx} (h : parse ts = .ok t) :
    parse (ts.map semiToNL) = .ok t :=
  C02_sep_exchange semiToNL (fun p => by
    unfold semiToNL SepExch; split
    · rename_i hp; exact Or.inr ⟨Or.inl hp, rfl⟩
    · exact Or.inl rfl) h

theorem C02_sep_exchange_bar {ts : List PTok} {t : Sx} (h : parse ts = .ok t) :
    parse (ts.map barToNL) = .ok t :=
  C02_sep_exchange barToNL (fun p => by
    unfold barToNL SepExch; split
    · rename_i hp; exact Or.inr ⟨Or.inr hp, rfl⟩
    · exact Or.inl rfl) h

/-- Both `;` and `|` read as a newline. -/
def normSep : Tok → Tok
  | .semi => .NL
  | .bar => .NL
  | t => t

/-- Two accepted token strings that differ only in the choice between `;`, `|` and newline (in either
direction, at any positions) have the same tree. -/
theorem C02_sep_exchange_result {ts ts' : List PTok} {t t' : Sx} (h : parse ts = .ok t)
    (h' : parse ts' = .ok t') (e : (ts.map (·.tok)).map normSep = (ts'.map (·.tok)).map normSep) :
    t = t' := by
  have hn : ∀ a : Tok, SepExch (id a) (normSep a) := by
    intro a; unfold SepExch normSep
    cases a <;> simp
  have d := derives_exchange (f := id) (g := normSep) hn (by simpa using C02_sound h)
  have d' := derives_exchange (f := id) (g := normSep) hn (by simpa using C02_sound h')
  rw [e] at d
  exact C02_unique d d'

/-! ## Nothing outside comments and blanks is dropped -/

/-- The text is, from left to right, a sequence of blanks (space, tab), comments (`//…` up to the end of
the line, `/*…*/`) and token texts, and the lexer's output is exactly the tokens of the token texts, in
order: no character outside a comment or a blank is skipped (`Covers`, `Lemmas/LexerSpec.lean`). Together
with `C02_sound`, every token reaches the statement tree's derivation. -/
theorem C02_no_drop {txt : String} {ts : List PTok} (h : lex txt = .ok ts) :
    Covers txt.toList (ts.map (·.tok)) :=
  lex_covers h

theorem example_lexes : (lex exampleText).toOption.isSome = true := by decide +kernel

/-- non-vacuity of `C02_no_drop` -/
example : ∃ ts, lex exampleText = .ok ts := by
  have := example_lexes
  cases h : lex exampleText with
  | ok ts => exact ⟨ts, rfl⟩
  | error e => rw [h] at this; simp [Except.toOption] at this

/-! ## Positions of errors -/

/-- `(l, c)` is the line and column of a place of the text where a token starts (`l` is the line the lexer
assigns to that token, `c = i − rfind("\n", 0, i)` for its offset `i`), or where lexing stops at an illegal
character or an out-of-range number. -/
def IsTokenPos (txt : String) (l c : Nat) : Prop :=
  (∃ p ∈ (lexAll txt).1, StartsAt txt.toList p.index (some p.tok) ∧ p.line = l ∧ c = colOf txt.toList p.index) ∨
  (∃ e i, (lexAll txt).2 = some e ∧ StartsAt txt.toList i none ∧ e.line = l ∧ e.col = c ∧ c = colOf txt.toList i)

/-- A parse error that is not "at end of input" is reported at a token of the text (the start of a token
the lexer produced, or the character at which lexing fails). -/
theorem C02_error_pos_partial {txt : String} {l c : Nat}
    (h : parseText txt = .error (.parseError (some l) c)) : IsTokenPos txt l c := by
  obtain ⟨hpos, herr⟩ := lexAll_positions txt
  have key : ∀ e, parse (lexAll txt).1 = .error e → e.toErr txt.toList = .parseError (some l) c →
      IsTokenPos txt l c := by
    intro e he hto
    have hat := parse_err he
    cases e with
    | syntaxAt l' i =>
      obtain ⟨p, hp, h1, h2⟩ := hat
      simp only [ParseErr.toErr, Err.parseError.injEq, Option.some.injEq] at hto
      exact Or.inl ⟨p, hp, hpos p hp, h1.trans hto.1, by rw [h2]; exact hto.2.symm⟩
    | syntaxEOF => simp [ParseErr.toErr] at hto
    | action k l' i a =>
      obtain ⟨p, hp, h1, h2⟩ := hat
      simp only [ParseErr.toErr, Err.parseError.injEq, Option.some.injEq] at hto
      exact Or.inl ⟨p, hp, hpos p hp, h1.trans hto.1, by rw [h2]; exact hto.2.symm⟩
    | outOfFuel => simp [ParseErr.toErr] at hto
  have lexCase : ∀ le, (lexAll txt).2 = some le → lexErrToErr le = .parseError (some l) c →
      IsTokenPos txt l c := by
    intro le hle hto
    obtain ⟨i, hi, hcol⟩ := herr le hle
    simp only [lexErrToErr, Err.parseError.injEq, Option.some.injEq] at hto
    exact Or.inr ⟨le, i, hle, hi, hto.1, hto.2, by rw [← hto.2, hcol]⟩
  unfold parseText at h
  split at h
  · rename_i ts hl
    have e1 : (lexAll txt).1 = ts := by rw [hl]
    split at h
    · cases h
    · rename_i e he
      exact key e (e1 ▸ he) (by injection h)
  · rename_i ts le hl
    have e1 : (lexAll txt).1 = ts := by rw [hl]
    have e2 : (lexAll txt).2 = some le := by rw [hl]
    split at h
    · exact lexCase le e2 (by injection h)
    · rename_i e he
      split at h
      · exact lexCase le e2 (by injection h)
      · exact key e (e1 ▸ he) (by injection h)

/-- **The position of a syntax error.** When the parser reports a syntax error at a token, the tokens
before it form a viable prefix of the grammar and the prefix including it does not: the error is at the
FIRST token at which the input stops being a viable prefix. `Viable` (`Spec/Grammar.lean`) refers to the
context-free part `Syntax` of the grammar — the productions without the two side conditions the actions
check and with the `import` statement — because that is what decides where a SYNTAX error is: after
`register q[0] x` the error is the syntax error at `x`, although no continuation of `register q[0]` is a
program. Every program is a sentence of the context-free part (`Derives.syntax`), so the second half holds
for the full grammar as well (`C02_error_pos_not_derivable`). -/
theorem C02_error_pos_full {ts : List PTok} {l i : Nat} (h : parse ts = .error (.syntaxAt l i)) :
    ∃ (before : List PTok) (p : PTok) (after : List PTok), ts = before ++ p :: after ∧
      p.line = l ∧ p.index = i ∧
      Viable (before.map (·.tok)) ∧ ¬ Viable ((before ++ [p]).map (·.tok)) := by
  obtain ⟨c, la, hcl, he, hv, hn⟩ := parse_anat h (by exact True.intro)
  cases la with
  | nil => simp [synErr] at he
  | cons p after =>
    simp only [synErr, ParseErr.syntaxAt.injEq] at he
    refine ⟨c, p, after, hcl, he.1.symm, he.2.symm, hv, ?_⟩
    rintro ⟨rest, hrest⟩
    apply hn (p :: rest.map (fun t => ⟨t, 0, 0⟩)) (by simp [SameHead])
    have : toks (c ++ p :: rest.map (fun t => (⟨t, 0, 0⟩ : PTok))) = (c ++ [p]).map (·.tok) ++ rest := by
      simp [toks, Function.comp_def]
    rw [this]; exact hrest

/-- An "unexpected end of input" error: the whole input is a viable prefix, and is not a sentence. -/
theorem C02_error_eof_full {ts : List PTok} (h : parse ts = .error .syntaxEOF) :
    Viable (ts.map (·.tok)) ∧ ¬ Syntax (ts.map (·.tok)) := by
  obtain ⟨c, la, hcl, he, hv, hn⟩ := parse_anat h (by exact True.intro)
  cases la with
  | cons p after => simp [synErr] at he
  | nil =>
    simp only [List.append_nil] at hcl
    subst hcl
    exact ⟨hv, by simpa using hn [] (by simp [SameHead])⟩

/-- No continuation of the input up to and including the reported token is a program. -/
theorem C02_error_pos_not_derivable {ts : List PTok} {l i : Nat} (h : parse ts = .error (.syntaxAt l i)) :
    ∃ (before : List PTok) (p : PTok) (after : List PTok), ts = before ++ p :: after ∧
      p.line = l ∧ p.index = i ∧ ¬ ∃ rest t, Derives ((before ++ [p]).map (·.tok) ++ rest) t := by
  obtain ⟨before, p, after, h1, h2, h3, -, h5⟩ := C02_error_pos_full h
  exact ⟨before, p, after, h1, h2, h3, fun ⟨rest, t, hd⟩ => h5 ⟨rest, hd.syntax⟩⟩

/-- non-vacuity: a syntax error in the middle of a token list -/
example : ∃ l i, parse (lexAll "g a\n{ x ; ] }").1 = .error (.syntaxAt l i) := by
  cases h : parse (lexAll "g a\n{ x ; ] }").1 with
  | ok t =>
    have : (parse (lexAll "g a\n{ x ; ] }").1).toOption.isSome = false := by decide +kernel
    rw [h] at this; simp [Except.toOption] at this
  | error e =>
    have : (match parse (lexAll "g a\n{ x ; ] }").1 with
      | .error (.syntaxAt _ _) => true | _ => false) = true := by decide +kernel
    rw [h] at this
    cases e with
    | syntaxAt l i => exact ⟨l, i, rfl⟩
    | _ => simp at this

/-! ## Layout

`LayoutEq` (`Lemmas/LexerLayout.lean`) is the equivalence generated by `GapInsert`: inserting, at a place
the tokenizer reaches (between two tokens, comments or blanks), a space or tab, a block comment, a `//`
comment in front of a newline or at the end of the text, or a newline next to a newline token.
The proof has three parts: the tokenizer's decisions before the place do not depend on the inserted text
(`Lemmas/LexerStable.lean`), the inserted piece yields no token or one more NL token next to an NL token
(`GapInsert.lexT`), and the grammar does not count consecutive newlines (`derives_dup_nl`,
`Lemmas/NLRuns.lean`). -/

/-- `parse_to_sexpression` succeeds exactly when the whole text lexes and its token string is a program. -/
theorem parseText_ok_iff (s : String) (x : Sx) :
    parseText s = .ok x ↔ (lexT s.toList).2 = false ∧ Derives (lexT s.toList).1 x := by
  have hl := lexAll_lexT s
  unfold parseText
  split
  · rename_i ts hlex
    rw [hlex] at hl
    simp only [Option.isSome_none] at hl
    rw [← hl]
    simp only [true_and]
    split
    · rename_i y hy
      constructor
      · intro h; cases h; exact C02_sound hy
      · intro h; rw [C02_complete h] at hy; cases hy; rfl
    · rename_i e he
      constructor
      · intro h; cases h
      · intro h; rw [C02_complete h] at he; cases he
  · rename_i ts le hlex
    rw [hlex] at hl
    simp only [Option.isSome_some] at hl
    rw [← hl]
    constructor
    · intro h
      split at h
      · cases h
      · split at h <;> cases h
    · intro h; cases h.1

theorem gapInsert_accepts {a a' : List Char} (h : GapInsert a a') (x : Sx) :
    ((lexT a).2 = false ∧ Derives (lexT a).1 x) ↔ ((lexT a').2 = false ∧ Derives (lexT a').1 x) := by
  rcases h.lexT with h | ⟨u, v, e, h1, h2⟩
  · rw [h]
  · rw [h1, h2]
    simp only
    rw [derives_dup_nl u v x]

theorem layoutEq_accepts {a a' : List Char} (h : LayoutEq a a') (x : Sx) :
    ((lexT a).2 = false ∧ Derives (lexT a).1 x) ↔ ((lexT a').2 = false ∧ Derives (lexT a').1 x) := by
  induction h with
  | refl a => exact Iff.rfl
  | ins h => exact gapInsert_accepts h x
  | symm _ ih => exact ih.symm
  | trans _ _ ih1 ih2 => exact ih1.trans ih2

/-- Layout does not matter: two texts that differ by inserted (or removed) blanks, comments and blank
lines (`LayoutEq`, generated by `GapInsert`) are both rejected, or both accepted with the same tree. -/
theorem C02_layout {txt txt' : String} (h : LayoutEq txt.toList txt'.toList) (t : Sx) :
    parseText txt = .ok t ↔ parseText txt' = .ok t := by
  rw [parseText_ok_iff, parseText_ok_iff]
  exact layoutEq_accepts h t


/-- non-vacuity of `C02_layout`: blanks, a multi-line block comment, a `//` comment and a blank line
inserted in the middle of a text. -/
theorem layout_run1 : Run "g a\n h".toList "\n h".toList [.IDENTIFIER "g", .IDENTIFIER "a"] false :=
  .tok (r := " a\n h".toList) (nl := 0) (by rfl)
    (.ws (by rfl) (.tok (r := "\n h".toList) (nl := 0) (by rfl) (.refl _)))

theorem layout_run2 : Run "g a\n h".toList " h".toList [.IDENTIFIER "g", .IDENTIFIER "a", .NL] false :=
  .tok (r := " a\n h".toList) (nl := 0) (by rfl)
    (.ws (by rfl) (.tok (r := "\n h".toList) (nl := 0) (by rfl)
      (.tok (r := " h".toList) (nl := 1) (by rfl) (.refl _))))

example : LayoutEq "g a\n h".toList "g a \n h".toList :=
  .ins (GapInsert.blank (x := "g a".toList) layout_run1 (by rfl))
example : LayoutEq "g a\n h".toList "g a/* x\n **/\n h".toList :=
  .ins (GapInsert.block (x := "g a".toList) (w := "/* x\n **/".toList) layout_run1 ⟨_, rfl⟩ (Or.inl rfl))
example : LayoutEq "g a\n h".toList "g a// c */\n h".toList :=
  .ins (GapInsert.line (x := "g a".toList) (w := "// c */".toList) layout_run1
    ⟨_, rfl, by decide⟩ (Or.inr ⟨_, rfl⟩))
example : LayoutEq "g a\n h".toList "g a\n\n h".toList :=
  .ins (GapInsert.newline (x := "g a\n".toList) layout_run2
    (Or.inl ⟨[.IDENTIFIER "g", .IDENTIFIER "a"], rfl⟩))
/-- a blank line with a blank on it: `"\n "` becomes `"\n \n"` -/
example : LayoutEq "g a\n h".toList "g a\n \nh".toList :=
  .ins (GapInsert.newline (x := "g a\n ".toList) (b := "h".toList)
    (ts := [.IDENTIFIER "g", .IDENTIFIER "a", .NL]) (lc := false)
    (.tok (r := " a\n h".toList) (nl := 0) (by rfl)
      (.ws (by rfl) (.tok (r := "\n h".toList) (nl := 0) (by rfl)
        (.tok (r := " h".toList) (nl := 1) (by rfl) (.ws (by rfl) (.refl _))))))
    (Or.inl ⟨[.IDENTIFIER "g", .IDENTIFIER "a"], rfl⟩))

/-! ## The lexer model is the regular expressions of the source

`Generated/LexerRules.lean` is produced by `harness/lexer_extract.py` from the loaded `JaqalLexer`:
`JaqalLexer._master_re.pattern` parsed with Python's own `re._parser` into the AST of `Spec/Regex.lean`
(named alternatives in rule order), plus `literals`, `ignore` and the keyword remapping. `Spec/Regex.lean`
gives that AST the semantics of a backtracking matcher. `Lemmas/LexerRegex.lean` proves, rule by rule
(`reNL_run`, `reIdent_run`, `reDotIdent_run`, `reNumber_run`, `reInt_run`, `reBinInt_run`, `reComment_run`,
`reBlock_run`), that the hand-written recognisers of `Model/Lexer.lean` return the remaining input of that
match, and then: -/

/-- One step of the model's tokenizer is: match the generated rules in order (`lexMatch`), then act on the
name of the rule that matched and on the matched text (`stepOfMatch`); when no rule matches, a character of
`literals` is a token. A change of a token rule in `slyparse.py` changes the generated file and breaks
this proof. -/
theorem C02_regex (cs : List Char) :
    step cs = stepOfMatch (Jaqal.Regex.lexMatch Jaqal.LexerRules.rules cs) cs :=
  step_regex cs

/-- The literal characters, the ignored characters and the keyword table of the model are the generated
ones. -/
theorem C02_regex_tables :
    (∀ c, (literal? c).isSome = Jaqal.LexerRules.literals.contains c) ∧
    (∀ c, isIgnore c = Jaqal.LexerRules.ignore.contains c) ∧
    (∀ s, keyword? s = (Jaqal.LexerRules.keywords.lookup s).bind tokOfName) :=
  ⟨literal_isSome, isIgnore_eq, keyword_eq⟩

/-- non-vacuity: the rules are the eight of the source, and a match that needs backtracking
(`1.` is INT `1` because NUMBER fails after the dot; `a.` is IDENTIFIER `a` because the dot is given back) -/
example : Jaqal.LexerRules.rules.map (·.1) =
    ["NL", "IDENTIFIER", "DOTIDENTIFIER", "NUMBER", "INT", "BININT", "comment", "multiline_comment"] := rfl
example : Jaqal.Regex.lexMatch Jaqal.LexerRules.rules "1. x".toList = some ("INT", ". x".toList) := by rfl
example : Jaqal.Regex.lexMatch Jaqal.LexerRules.rules "a. x".toList = some ("IDENTIFIER", ". x".toList) := by rfl
example : Jaqal.Regex.lexMatch Jaqal.LexerRules.rules "/* a **/ */".toList
    = some ("multiline_comment", " */".toList) := by rfl

/-! Non-vacuity: a program with a header, a loop over a parallel block, a subcircuit. -/

example : (lex exampleText).toOption.isSome = true := by decide +kernel

theorem example_parses : ∃ t, parse (lexAll exampleText).1 = .ok t := by
  have : (parse (lexAll exampleText).1).toOption.isSome = true := by decide +kernel
  cases h : parse (lexAll exampleText).1 with
  | ok t => exact ⟨t, rfl⟩
  | error e => rw [h] at this; simp [Except.toOption] at this

/-- the hypotheses of `C02_sound` / `C02_complete` are satisfiable by a non-trivial program -/
example : ∃ ts t, parse ts = .ok t ∧ Derives (ts.map (·.tok)) t ∧ 30 ≤ ts.length := by
  obtain ⟨t, ht⟩ := example_parses
  exact ⟨_, t, ht, C02_sound ht, by decide +kernel⟩

/-- non-vacuity of `C02_sep_exchange`: the example contains `;` and `|` tokens -/
example : ∃ ts t, parse ts = .ok t ∧ (∃ p ∈ ts, p.tok = .semi) ∧ (∃ p ∈ ts, p.tok = .bar) ∧
    parse (ts.map semiToNL) = .ok t ∧ parse (ts.map barToNL) = .ok t := by
  obtain ⟨t, ht⟩ := example_parses
  exact ⟨_, t, ht, by decide +kernel, by decide +kernel, C02_sep_exchange_semi ht, C02_sep_exchange_bar ht⟩

/-- non-vacuity of `C02_error_pos_partial`: a syntax error in the middle of a text, and a lexing error -/
def isErrAt (r : Except Err Sx) (l c : Nat) : Bool :=
  match r with
  | .error (.parseError (some l') c') => l' == l && c' == c
  | _ => false
example : isErrAt (parseText "g a\n{ x ; ] }") 2 7 = true := by decide +kernel
example : isErrAt (parseText "g a\n  $") 2 3 = true := by decide +kernel
example : isErrAt (parseText "register q[0]") 1 1 = true := by decide +kernel

#print axioms C02_sound
#print axioms C02_complete
#print axioms C02_unique
#print axioms C02_accepts_iff
#print axioms C02_no_fuel_error
#print axioms C02_sep_exchange
#print axioms C02_sep_exchange_semi
#print axioms C02_sep_exchange_bar
#print axioms C02_sep_exchange_result
#print axioms C02_no_drop
#print axioms C02_error_pos_partial
#print axioms C02_layout
#print axioms C02_regex
#print axioms C02_regex_tables
#print axioms C02_error_pos_full
#print axioms C02_error_eof_full
#print axioms C02_error_pos_not_derivable

end Jaqal.C02
