import JaqalProofs.Lemmas.ParserSound
import JaqalProofs.Lemmas.ParserComplete
import JaqalProofs.Lemmas.SepExchange
/-!
# C02 — the parser accepts exactly the Jaqal grammar

`Jaqal.Parser.parse` is the model of `JaqalParser` (`Model/Parser.lean`), `Jaqal.Grammar.Derives` the grammar
(`Spec/Grammar.lean`).
-/
namespace Jaqal.C02
open Jaqal Jaqal.Lexer Jaqal.Parser Jaqal.Grammar

/-- Whatever the parser accepts is a program of the grammar, with the reported tree. -/
theorem C02_sound {ts : List PTok} {t : Sx} (h : parse ts = .ok t) : Derives (ts.map (·.tok)) t :=
  parse_sound h

/-- Every program of the grammar is accepted, and the tree reported is the tree of the derivation. -/
theorem C02_complete {ts : List PTok} {t : Sx} (h : Derives (ts.map (·.tok)) t) : parse ts = .ok t :=
  parse_complete h

/-- The grammar assigns at most one tree to a token string (a consequence of completeness). -/
theorem C02_unique {ts : List Tok} {t₁ t₂ : Sx} (h₁ : Derives ts t₁) (h₂ : Derives ts t₂) : t₁ = t₂ := by
  let pts : List PTok := ts.map (fun t => ⟨t, 1, 0⟩)
  have e : pts.map (·.tok) = ts := by simp [pts, Function.comp_def]
  have a := C02_complete (ts := pts) (e.symm ▸ h₁)
  have b := C02_complete (ts := pts) (e.symm ▸ h₂)
  rw [a] at b
  cases b; rfl

/-- Acceptance is exactly derivability. -/
theorem C02_accepts_iff {ts : List PTok} {t : Sx} : parse ts = .ok t ↔ Derives (ts.map (·.tok)) t :=
  ⟨C02_sound, C02_complete⟩

/-! ## Separators are interchangeable -/

/-- Replacing any `;` tokens and any `|` tokens by newline tokens (`e` may depend on the token's
position, so any subset of the occurrences) never changes the result: the grammar only ever mentions
`;` inside `seqsep`/`seqpad` and `|` inside `parsep`/`parpad`, where a newline is allowed too. -/
theorem C02_sep_exchange {ts : List PTok} {t : Sx} (e : PTok → PTok)
    (he : ∀ p, SepExch p.tok (e p).tok) (h : parse ts = .ok t) : parse (ts.map e) = .ok t := by
  apply C02_complete
  have := derives_exchange (f := fun p : PTok => p.tok) (g := fun p => (e p).tok) he (C02_sound h)
  simpa [List.map_map, Function.comp_def] using this

/-- `;` ↦ newline -/
def semiToNL (p : PTok) : PTok := if p.tok = .semi then { p with tok := .NL } else p
/-- `|` ↦ newline -/
def barToNL (p : PTok) : PTok := if p.tok = .bar then { p with tok := .NL } else p

theorem C02_sep_exchange_semi {ts : List PTok} {t : Sx} (h : parse ts = .ok t) :
    parse (ts.map semiToNL) = .ok t :=
  C02_sep_exchange semiToNL (fun p => by
    unfold semiToNL SepExch; split
    · rename_i hp; exact Or.inr ⟨Or.inl hp, rfl⟩
    · exact Or.inl rfl) h

theorem C02_sep_exchange_bar {ts : List PTok} {t : Sx} (h : parse ts = .ok t) :
    parse (ts.map barToNL) = .ok t :=
  C02_sep_exchange barToNL (fun p => by
    unfold barToNL SepExch; split
    · rename_i hp; exact Or.inr ⟨Or.inr hp, rfl⟩
    · exact Or.inl rfl) h

/-- Both `;` and `|` read as a newline. -/
def normSep : Tok → Tok
  | .semi => .NL
  | .bar => .NL
  | t => t

/-- Two accepted token strings that differ only in the choice between `;`, `|` and newline (in either
direction, at any positions) have the same tree. -/
theorem C02_sep_exchange_result {ts ts' : List PTok} {t t' : Sx} (h : parse ts = .ok t)
    (h' : parse ts' = .ok t') (e : (ts.map (·.tok)).map normSep = (ts'.map (·.tok)).map normSep) :
    t = t' := by
  have hn : ∀ a : Tok, SepExch (id a) (normSep a) := by
    intro a; unfold SepExch normSep
    cases a <;> simp
  have d := derives_exchange (f := id) (g := normSep) hn (by simpa using C02_sound h)
  have d' := derives_exchange (f := id) (g := normSep) hn (by simpa using C02_sound h')
  rw [e] at d
  exact C02_unique d d'

/-! Non-vacuity: a program with a header, a loop over a parallel block, a subcircuit. -/
def exampleText : String :=
  "register q[2]; let a 0.5\n\n loop 3 { < Rx q[0] a | Ry q[1] -1 > ; subcircuit { g } }\n"

example : (lex exampleText).toOption.isSome = true := by decide +kernel

theorem example_parses : ∃ t, parse (lexAll exampleText).1 = .ok t := by
  have : (parse (lexAll exampleText).1).toOption.isSome = true := by decide +kernel
  cases h : parse (lexAll exampleText).1 with
  | ok t => exact ⟨t, rfl⟩
  | error e => rw [h] at this; simp [Except.toOption] at this

/-- the hypotheses of `C02_sound` / `C02_complete` are satisfiable by a non-trivial program -/
example : ∃ ts t, parse ts = .ok t ∧ Derives (ts.map (·.tok)) t ∧ 30 ≤ ts.length := by
  obtain ⟨t, ht⟩ := example_parses
  exact ⟨_, t, ht, C02_sound ht, by decide +kernel⟩

/-- non-vacuity of `C02_sep_exchange`: the example contains `;` and `|` tokens -/
example : ∃ ts t, parse ts = .ok t ∧ (∃ p ∈ ts, p.tok = .semi) ∧ (∃ p ∈ ts, p.tok = .bar) ∧
    parse (ts.map semiToNL) = .ok t ∧ parse (ts.map barToNL) = .ok t := by
  obtain ⟨t, ht⟩ := example_parses
  exact ⟨_, t, ht, by decide +kernel, by decide +kernel, C02_sep_exchange_semi ht, C02_sep_exchange_bar ht⟩

#print axioms C02_sound
#print axioms C02_complete
#print axioms C02_unique
#print axioms C02_accepts_iff
#print axioms C02_sep_exchange
#print axioms C02_sep_exchange_semi
#print axioms C02_sep_exchange_bar
#print axioms C02_sep_exchange_result

end Jaqal.C02
