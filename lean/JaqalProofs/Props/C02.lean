import JaqalProofs.Lemmas.ParserSound
import JaqalProofs.Lemmas.ParserComplete
import JaqalProofs.Lemmas.SepExchange
import JaqalProofs.Lemmas.ParserErrPos
import JaqalProofs.Lemmas.LexerSpec
import JaqalProofs.Lemmas.ParserFuel
import JaqalProofs.Lemmas.LexerLayout
import JaqalProofs.Lemmas.NLRuns
/-!
# C02 — the parser accepts exactly the Jaqal grammar

`Jaqal.Parser.parse` is the model of `JaqalParser` (`Model/Parser.lean`), `Jaqal.Grammar.Derives` the grammar
(`Spec/Grammar.lean`).
-/
namespace Jaqal.C02
open Jaqal Jaqal.Lexer Jaqal.Parser Jaqal.Grammar

/-- The text used by the non-vacuity examples. -/
def exampleText : String :=
  "register q[2]; let a 0.5\n\n loop 3 { < Rx q[0] a | Ry q[1] -1 > ; subcircuit { g } }\n"

/-- Whatever the parser accepts is a program of the grammar, with the reported tree. -/
theorem C02_sound {ts : List PTok} {t : Sx} (h : parse ts = .ok t) : Derives (ts.map (·.tok)) t :=
  parse_sound h

/-- Every program of the grammar is accepted, and the tree reported is the tree of the derivation. -/
theorem C02_complete {ts : List PTok} {t : Sx} (h : Derives (ts.map (·.tok)) t) : parse ts = .ok t :=
  parse_complete h

/-- The grammar assigns at most one tree to a token string (a consequence of completeness). -/
theorem C02_unique {ts : List Tok} {t₁ t₂ : Sx} (h₁ : Derives ts t₁) (h₂ : Derives ts t₂) : t₁ = t₂ := by
  let pts : List PTok := ts.map (fun t => ⟨t, 1, 0⟩)
  have e : pts.map (·.tok) = ts := by simp [pts, Function.comp_def]
  have a := C02_complete (ts := pts) (e.symm ▸ h₁)
  have b := C02_complete (ts := pts) (e.symm ▸ h₂)
  rw [a] at b
  cases b; rfl

/-- Acceptance is exactly derivability. -/
theorem C02_accepts_iff {ts : List PTok} {t : Sx} : parse ts = .ok t ↔ Derives (ts.map (·.tok)) t :=
  ⟨C02_sound, C02_complete⟩

/-- The model's recursion bound never interferes: `parse` fails only with a syntax error or an action
error (so the positions it reports are those of the recursive descent itself). -/
theorem C02_no_fuel_error (ts : List PTok) : parse ts ≠ .error .outOfFuel :=
  parse_ne_outOfFuel ts

/-! ## Separators are interchangeable -/

/-- Replacing any `;` tokens and any `|` tokens by newline tokens (`e` may depend on the token's
position, so any subset of the occurrences) never changes the result: the grammar only ever mentions
`;` inside `seqsep`/`seqpad` and `|` inside `parsep`/`parpad`, where a newline is allowed too. -/
theorem C02_sep_exchange {ts : List PTok} {t : Sx} (e : PTok → PTok)
    (he : ∀ p, SepExch p.tok (e p).tok) (h : parse ts = .ok t) : parse (ts.map e) = .ok t := by
  apply C02_complete
  have := derives_exchange (f := fun p : PTok => p.tok) (g := fun p => (e p).tok) he (C02_sound h)
  simpa [List.map_map, Function.comp_def] using this

/-- `;` ↦ newline -/
def semiToNL (p : PTok) : PTok := if p.tok = .semi then { p with tok := .NL } else p
/-- `|` ↦ newline -/
def barToNL (p : PTok) : PTok := if p.tok = .bar then { p with tok := .NL } else p

theorem C02_sep_exchange_semi {ts : List PTok} {t : Sx} (h : parse ts = .ok t) :
    parse (ts.map semiToNL) = .ok t :=
  C02_sep_exchange semiToNL (fun p => by
    unfold semiToNL SepExch; split
    · rename_i hp; exact Or.inr ⟨Or.inl hp, rfl⟩
    · exact Or.inl rfl) h

theorem C02_sep_exchange_bar {ts : List PTok} {t : Sx} (h : parse ts = .ok t) :
    parse (ts.map barToNL) = .ok t :=
  C02_sep_exchange barToNL (fun p => by
    unfold barToNL SepExch; split
    · rename_i hp; exact Or.inr ⟨Or.inr hp, rfl⟩
    · exact Or.inl rfl) h

/-- Both `;` and `|` read as a newline. -/
def normSep : Tok → Tok
  | .semi => .NL
  | .bar => .NL
  | t => t

/-- Two accepted token strings that differ only in the choice between `;`, `|` and newline (in either
direction, at any positions) have the same tree. -/
theorem C02_sep_exchange_result {ts ts' : List PTok} {t t' : Sx} (h : parse ts = .ok t)
    (h' : parse ts' = .ok t') (e : (ts.map (·.tok)).map normSep = (ts'.map (·.tok)).map normSep) :
    t = t' := by
  have hn : ∀ a : Tok, SepExch (id a) (normSep a) := by
    intro a; unfold SepExch normSep
    cases a <;> simp
  have d := derives_exchange (f := id) (g := normSep) hn (by simpa using C02_sound h)
  have d' := derives_exchange (f := id) (g := normSep) hn (by simpa using C02_sound h')
  rw [e] at d
  exact C02_unique d d'

/-! ## Nothing outside comments and blanks is dropped -/

/-- The text is, from left to right, a sequence of blanks (space, tab), comments (`//…` up to the end of
the line, `/*…*/`) and token texts, and the lexer's output is exactly the tokens of the token texts, in
order: no character outside a comment or a blank is skipped (`Covers`, `Lemmas/LexerSpec.lean`). Together
with `C02_sound`, every token reaches the statement tree's derivation. -/
theorem C02_no_drop {txt : String} {ts : List PTok} (h : lex txt = .ok ts) :
    Covers txt.toList (ts.map (·.tok)) :=
  lex_covers h

theorem example_lexes : (lex exampleText).toOption.isSome = true := by decide +kernel

/-- non-vacuity of `C02_no_drop` -/
example : ∃ ts, lex exampleText = .ok ts := by
  have := example_lexes
  cases h : lex exampleText with
  | ok ts => exact ⟨ts, rfl⟩
  | error e => rw [h] at this; simp [Except.toOption] at this

/-! ## Positions of errors -/

/-- `(l, c)` is the line and column of a place of the text where a token starts (`l` is the line the lexer
assigns to that token, `c = i − rfind("\n", 0, i)` for its offset `i`), or where lexing stops at an illegal
character or an out-of-range number. -/
def IsTokenPos (txt : String) (l c : Nat) : Prop :=
  (∃ p ∈ (lexAll txt).1, StartsAt txt.toList p.index (some p.tok) ∧ p.line = l ∧ c = colOf txt.toList p.index) ∨
  (∃ e i, (lexAll txt).2 = some e ∧ StartsAt txt.toList i none ∧ e.line = l ∧ e.col = c ∧ c = colOf txt.toList i)

/-- A parse error that is not "at end of input" is reported at a token of the text (the start of a token
the lexer produced, or the character at which lexing fails). -/
theorem C02_error_pos_partial {txt : String} {l c : Nat}
    (h : parseText txt = .error (.parseError (some l) c)) : IsTokenPos txt l c := by
  obtain ⟨hpos, herr⟩ := lexAll_positions txt
  have key : ∀ e, parse (lexAll txt).1 = .error e → e.toErr txt.toList = .parseError (some l) c →
      IsTokenPos txt l c := by
    intro e he hto
    have hat := parse_err he
    cases e with
    | syntaxAt l' i =>
      obtain ⟨p, hp, h1, h2⟩ := hat
      simp only [ParseErr.toErr, Err.parseError.injEq, Option.some.injEq] at hto
      exact Or.inl ⟨p, hp, hpos p hp, h1.trans hto.1, by rw [h2]; exact hto.2.symm⟩
    | syntaxEOF => simp [ParseErr.toErr] at hto
    | action k l' i a =>
      obtain ⟨p, hp, h1, h2⟩ := hat
      simp only [ParseErr.toErr, Err.parseError.injEq, Option.some.injEq] at hto
      exact Or.inl ⟨p, hp, hpos p hp, h1.trans hto.1, by rw [h2]; exact hto.2.symm⟩
    | outOfFuel => simp [ParseErr.toErr] at hto
  have lexCase : ∀ le, (lexAll txt).2 = some le → lexErrToErr le = .parseError (some l) c →
      IsTokenPos txt l c := by
    intro le hle hto
    obtain ⟨i, hi, hcol⟩ := herr le hle
    simp only [lexErrToErr, Err.parseError.injEq, Option.some.injEq] at hto
    exact Or.inr ⟨le, i, hle, hi, hto.1, hto.2, by rw [← hto.2, hcol]⟩
  unfold parseText at h
  split at h
  · rename_i ts hl
    have e1 : (lexAll txt).1 = ts := by rw [hl]
    split at h
    · cases h
    · rename_i e he
      exact key e (e1 ▸ he) (by injection h)
  · rename_i ts le hl
    have e1 : (lexAll txt).1 = ts := by rw [hl]
    have e2 : (lexAll txt).2 = some le := by rw [hl]
    split at h
    · exact lexCase le e2 (by injection h)
    · rename_i e he
      split at h
      · exact lexCase le e2 (by injection h)
      · exact key e (e1 ▸ he) (by injection h)

/-- The full statement of the error-position property, NOT proved here: besides `C02_error_pos_partial`, a
syntax error is reported at the FIRST token at which the input stops being a viable prefix (`Viable`:
some continuation is a program of the grammar, side conditions aside), and an action error (register size,
header after body, import) at the first token of the offending statement.
What is missing is the viability half: a proof that whenever the recursive descent consumes a token, the
consumed prefix can be completed to a program (a completion has to be constructed for every parser state).
The agreement of the reported position with the real LALR parser is instead checked by the differential
harness (`harness/agents/parse_diff.py`, token mutants and character noise). -/
def C02_error_pos_full : Prop :=
  ∀ (ts : List PTok) (l i : Nat), parse ts = .error (.syntaxAt l i) →
    ∃ (before : List PTok) (p : PTok) (after : List PTok), ts = before ++ p :: after ∧ p.line = l ∧ p.index = i ∧
      (∃ suffix t, Derives (before.map (·.tok) ++ suffix) t) ∧
      ¬ (∃ suffix t, Derives ((before ++ [p]).map (·.tok) ++ suffix) t)

/-! ## Layout

`LayoutEq` (`Lemmas/LexerLayout.lean`) is the equivalence generated by `GapInsert`: inserting, at a place
the tokenizer reaches (between two tokens, comments or blanks), a space or tab, a block comment, a `//`
comment in front of a newline or at the end of the text, or a newline next to a newline token.
The proof has three parts: the tokenizer's decisions before the place do not depend on the inserted text
(`Lemmas/LexerStable.lean`), the inserted piece yields no token or one more NL token next to an NL token
(`GapInsert.lexT`), and the grammar does not count consecutive newlines (`derives_dup_nl`,
`Lemmas/NLRuns.lean`). -/

/-- `parse_to_sexpression` succeeds exactly when the whole text lexes and its token string is a program. -/
theorem parseText_ok_iff (s : String) (x : Sx) :
    parseText s = .ok x ↔ (lexT s.toList).2 = false ∧ Derives (lexT s.toList).1 x := by
  have hl := lexAll_lexT s
  unfold parseText
  split
  · rename_i ts hlex
    rw [hlex] at hl
    simp only [Option.isSome_none] at hl
    rw [← hl]
    simp only [true_and]
    split
    · rename_i y hy
      constructor
      · intro h; cases h; exact C02_sound hy
      · intro h; rw [C02_complete h] at hy; cases hy; rfl
    · rename_i e he
      constructor
      · intro h; cases h
      · intro h; rw [C02_complete h] at he; cases he
  · rename_i ts le hlex
    rw [hlex] at hl
    simp only [Option.isSome_some] at hl
    rw [← hl]
    constructor
    · intro h
      split at h
      · cases h
      · split at h <;> cases h
    · intro h; cases h.1

theorem gapInsert_accepts {a a' : List Char} (h : GapInsert a a') (x : Sx) :
    ((lexT a).2 = false ∧ Derives (lexT a).1 x) ↔ ((lexT a').2 = false ∧ Derives (lexT a').1 x) := by
  rcases h.lexT with h | ⟨u, v, e, h1, h2⟩
  · rw [h]
  · rw [h1, h2]
    simp only
    rw [derives_dup_nl u v x]

theorem layoutEq_accepts {a a' : List Char} (h : LayoutEq a a') (x : Sx) :
    ((lexT a).2 = false ∧ Derives (lexT a).1 x) ↔ ((lexT a').2 = false ∧ Derives (lexT a').1 x) := by
  induction h with
  | refl a => exact Iff.rfl
  | ins h => exact gapInsert_accepts h x
  | symm _ ih => exact ih.symm
  | trans _ _ ih1 ih2 => exact ih1.trans ih2

/-- Layout does not matter: two texts that differ by inserted (or removed) blanks, comments and blank
lines (`LayoutEq`, generated by `GapInsert`) are both rejected, or both accepted with the same tree. -/
theorem C02_layout {txt txt' : String} (h : LayoutEq txt.toList txt'.toList) (t : Sx) :
    parseText txt = .ok t ↔ parseText txt' = .ok t := by
  rw [parseText_ok_iff, parseText_ok_iff]
  exact layoutEq_accepts h t


/-- non-vacuity of `C02_layout`: blanks, a multi-line block comment, a `//` comment and a blank line
inserted in the middle of a text. -/
theorem layout_run1 : Run "g a\n h".toList "\n h".toList [.IDENTIFIER "g", .IDENTIFIER "a"] false :=
  .tok (r := " a\n h".toList) (nl := 0) (by rfl)
    (.ws (by rfl) (.tok (r := "\n h".toList) (nl := 0) (by rfl) (.refl _)))

theorem layout_run2 : Run "g a\n h".toList " h".toList [.IDENTIFIER "g", .IDENTIFIER "a", .NL] false :=
  .tok (r := " a\n h".toList) (nl := 0) (by rfl)
    (.ws (by rfl) (.tok (r := "\n h".toList) (nl := 0) (by rfl)
      (.tok (r := " h".toList) (nl := 1) (by rfl) (.refl _))))

example : LayoutEq "g a\n h".toList "g a \n h".toList :=
  .ins (GapInsert.blank (x := "g a".toList) layout_run1 (by rfl))
example : LayoutEq "g a\n h".toList "g a/* x\n **/\n h".toList :=
  .ins (GapInsert.block (x := "g a".toList) (w := "/* x\n **/".toList) layout_run1 ⟨_, rfl⟩ (Or.inl rfl))
example : LayoutEq "g a\n h".toList "g a// c */\n h".toList :=
  .ins (GapInsert.line (x := "g a".toList) (w := "// c */".toList) layout_run1
    ⟨_, rfl, by decide⟩ (Or.inr ⟨_, rfl⟩))
example : LayoutEq "g a\n h".toList "g a\n\n h".toList :=
  .ins (GapInsert.newline (x := "g a\n".toList) layout_run2
    (Or.inl ⟨[.IDENTIFIER "g", .IDENTIFIER "a"], rfl⟩))
/-- a blank line with a blank on it: `"\n "` becomes `"\n \n"` -/
example : LayoutEq "g a\n h".toList "g a\n \nh".toList :=
  .ins (GapInsert.newline (x := "g a\n ".toList) (b := "h".toList)
    (ts := [.IDENTIFIER "g", .IDENTIFIER "a", .NL]) (lc := false)
    (.tok (r := " a\n h".toList) (nl := 0) (by rfl)
      (.ws (by rfl) (.tok (r := "\n h".toList) (nl := 0) (by rfl)
        (.tok (r := " h".toList) (nl := 1) (by rfl) (.ws (by rfl) (.refl _))))))
    (Or.inl ⟨[.IDENTIFIER "g", .IDENTIFIER "a"], rfl⟩))

/-! Non-vacuity: a program with a header, a loop over a parallel block, a subcircuit. -/

example : (lex exampleText).toOption.isSome = true := by decide +kernel

theorem example_parses : ∃ t, parse (lexAll exampleText).1 = .ok t := by
  have : (parse (lexAll exampleText).1).toOption.isSome = true := by decide +kernel
  cases h : parse (lexAll exampleText).1 with
  | ok t => exact ⟨t, rfl⟩
  | error e => rw [h] at this; simp [Except.toOption] at this

/-- the hypotheses of `C02_sound` / `C02_complete` are satisfiable by a non-trivial program -/
example : ∃ ts t, parse ts = .ok t ∧ Derives (ts.map (·.tok)) t ∧ 30 ≤ ts.length := by
  obtain ⟨t, ht⟩ := example_parses
  exact ⟨_, t, ht, C02_sound ht, by decide +kernel⟩

/-- non-vacuity of `C02_sep_exchange`: the example contains `;` and `|` tokens -/
example : ∃ ts t, parse ts = .ok t ∧ (∃ p ∈ ts, p.tok = .semi) ∧ (∃ p ∈ ts, p.tok = .bar) ∧
    parse (ts.map semiToNL) = .ok t ∧ parse (ts.map barToNL) = .ok t := by
  obtain ⟨t, ht⟩ := example_parses
  exact ⟨_, t, ht, by decide +kernel, by decide +kernel, C02_sep_exchange_semi ht, C02_sep_exchange_bar ht⟩

/-- non-vacuity of `C02_error_pos_partial`: a syntax error in the middle of a text, and a lexing error -/
def isErrAt (r : Except Err Sx) (l c : Nat) : Bool :=
  match r with
  | .error (.parseError (some l') c') => l' == l && c' == c
  | _ => false
example : isErrAt (parseText "g a\n{ x ; ] }") 2 7 = true := by decide +kernel
example : isErrAt (parseText "g a\n  $") 2 3 = true := by decide +kernel
example : isErrAt (parseText "register q[0]") 1 1 = true := by decide +kernel

#print axioms C02_sound
#print axioms C02_complete
#print axioms C02_unique
#print axioms C02_accepts_iff
#print axioms C02_no_fuel_error
#print axioms C02_sep_exchange
#print axioms C02_sep_exchange_semi
#print axioms C02_sep_exchange_bar
#print axioms C02_sep_exchange_result
#print axioms C02_no_drop
#print axioms C02_error_pos_partial
#print axioms C02_layout

end Jaqal.C02
