import JaqalProofs.Props.C13End
namespace Jaqal.RunModel
open Jaqal Jaqal.Builder Jaqal.Sem Jaqal.Walk Jaqal.UsedQubits

/-- an error value that is neither of the two JaqalErrors of the disjointness check -/
def Late (e : Err) : Prop := e ≠ parErr ∧ e ≠ gateErr

/-- a computation that never fails with one of the two JaqalErrors of the disjointness check -/
structure NoBad {α : Type} (m : M α) : Prop where
  late : ∀ e, m = .error e → Late e

theorem NoBad.ok {α : Type} (a : α) : NoBad (.ok a : M α) := ⟨by intro e h; cases h⟩
theorem NoBad.pure {α : Type} (a : α) : NoBad (Pure.pure a : M α) := ⟨by intro e h; cases h⟩
theorem NoBad.error {α : Type} {e : Err} (h : Late e) : NoBad (.error e : M α) := by
  constructor; intro e' h'; cases h'; exact h
theorem NoBad.throw {α : Type} {e : Err} (h : Late e) : NoBad (throw e : M α) := by
  constructor; intro e' h'; cases h'; exact h
theorem NoBad.bind {α β : Type} {m : M α} {f : α → M β} (hm : NoBad m) (hf : ∀ a, NoBad (f a)) : NoBad (m >>= f) := by
  constructor
  intro e h
  cases m with
  | error e' =>
    have : e' = e := by simpa [Bind.bind, Except.bind] using h
    exact hm.late e (by rw [this])
  | ok a => exact (hf a).late e h

theorem late_jaqal (s : String) (h1 : s ≠ "parallel-branches-same-qubit") (h2 : s ≠ "gate-same-qubit-twice") :
    Late (.jaqal s) := by
  constructor <;> (intro h; cases h; contradiction)
theorem late_other (s : String) : Late (.other s) := by constructor <;> (intro h; cases h)
theorem late_hang : Late .hang := by constructor <;> (intro h; cases h)

/-- one step of the case analysis: a `pure`, a `throw` of a concrete late error, a `bind`, a `match` / `if` -/
macro "nobad_step" : tactic => `(tactic| first
  | exact NoBad.pure _
  | exact NoBad.ok _
  | exact NoBad.error late_hang
  | exact NoBad.throw late_hang
  | exact NoBad.error (late_other _)
  | exact NoBad.throw (late_other _)
  | exact NoBad.error (late_jaqal _ (by decide) (by decide))
  | exact NoBad.throw (late_jaqal _ (by decide) (by decide))
  | assumption
  | (refine NoBad.bind ?_ ?_)
  | (intro _)
  | split)
macro "nobad" : tactic => `(tactic| repeat' nobad_step)

theorem resolveAV_late (ctx : Resolve.Ctx) (fuel : Nat) (v : Val) : NoBad (Resolve.resolveAV ctx fuel v) := by
  induction fuel generalizing v with
  | zero => unfold Resolve.resolveAV; nobad
  | succ n ih =>
    unfold Resolve.resolveAV
    repeat' (first | exact ih _ | nobad_step)

theorem resolveInt_late (ctx : Resolve.Ctx) (v : Val) : NoBad (Resolve.resolveInt ctx v) := by
  unfold Resolve.resolveInt
  have := resolveAV_late ctx (Resolve.avFuel ctx) v
  nobad

theorem rangeLen_late (a b c : Int) : NoBad (Resolve.rangeLen a b c) := by
  unfold Resolve.rangeLen
  nobad

theorem resolveSize_late (ctx : Resolve.Ctx) (v : Val) : NoBad (Resolve.resolveSize ctx v) := by
  fun_induction Resolve.resolveSize ctx v <;>
    repeat' (first | exact resolveInt_late _ _ | exact rangeLen_late _ _ _ | nobad_step)

theorem resolveReg_late (ctx : Resolve.Ctx) (v : Val) (i : Int) : NoBad (Resolve.resolveReg ctx v i) := by
  fun_induction Resolve.resolveReg ctx v i <;>
    repeat' (first | exact resolveInt_late _ _ | exact resolveAV_late _ _ _ | exact resolveSize_late _ _ | (nobad_step) | (solve | apply_assumption))

theorem resolveQubit_late (ctx : Resolve.Ctx) (v : Val) : NoBad (Resolve.resolveQubit ctx v) := by
  unfold Resolve.resolveQubit
  repeat' (first | exact resolveReg_late _ _ _ | exact resolveAV_late _ _ _ | nobad_step)

theorem pyInt_late (v : Val) : NoBad (UsedQubits.pyInt v) := by
  unfold UsedQubits.pyInt
  nobad

theorem regLoop_late (r : Val) (i : Int) (n : Nat) : NoBad (regLoop r i n) := by
  induction n generalizing i with
  | zero => unfold regLoop; nobad
  | succ n ih =>
    unfold regLoop
    repeat' (first | exact ih _ | exact resolveReg_late _ _ _ | nobad_step)

theorem regIndices_late (r : Val) : NoBad (regIndices r) := by
  unfold regIndices
  repeat' (first | exact regLoop_late _ _ _ | exact resolveSize_late _ _ | exact pyInt_late _ | nobad_step)

theorem quantumToken_late (v : Val) : NoBad (quantumToken v) := by
  unfold quantumToken
  repeat' (first | exact regIndices_late _ | exact resolveQubit_late _ _ | nobad_step)

theorem emuArg_late (k : Kind) (v : Val) : NoBad (emuArg k v) := by
  unfold emuArg
  repeat' (first | exact quantumToken_late _ | nobad_step)

theorem emuArgs_late (ps : List (String × Kind)) (as : List (String × Val)) : NoBad (emuArgs ps as) := by
  fun_induction emuArgs ps as <;>
    repeat' (first | exact emuArg_late _ _ | nobad_step)

theorem gateArgs_late (gd : GateDef) (as : List (String × Val)) : NoBad (gateArgs gd as) := by
  unfold gateArgs
  repeat' (first | exact emuArgs_late _ _ | nobad_step)

/-- `gatedefs[gate.name]` and the arguments of the gate never raise the two JaqalErrors of the disjointness check -/
theorem gateToken_err_ne (natives : List GateDef) (name : String) (as : List (String × Val)) :
    NoBad (gateToken natives name as) := by
  unfold gateToken
  repeat' (first | exact gateArgs_late _ _ | nobad_step)

theorem gkToken_late (natives : List GateDef) (tbl : List GateRec) (k : Walk.GK) : NoBad (gkToken natives tbl k) := by
  unfold gkToken
  repeat' (first | exact gateToken_err_ne _ _ _ | nobad_step)

theorem traceTokens_late (natives : List GateDef) (tbl : List GateRec) (ks : List Walk.GK) :
    NoBad (traceTokens natives tbl ks) := by
  induction ks with
  | nil => unfold traceTokens; nobad
  | cons k rest ih =>
    unfold traceTokens
    repeat' (first | exact ih | exact gkToken_late _ _ _ | nobad_step)

theorem nQubits_late (c : Circuit) : NoBad (nQubits c) := by
  unfold nQubits
  nobad

theorem allocate_late (v : Val) : NoBad (allocate v) := by
  unfold allocate
  nobad

theorem makeSubcircuit_late (c : Circuit) (body : List Walk.Stmt) (tbl : List GateRec) (tr : Walk.Addr × Walk.Addr) :
    NoBad (makeSubcircuit c body tbl tr) := by
  unfold makeSubcircuit
  repeat' (first | exact nQubits_late _ | exact allocate_late _ | exact traceTokens_late _ _ _ | nobad_step)

/-- `_make_subcircuit` over all traces never raises the two JaqalErrors of the disjointness check -/
theorem makeSubcircuits_err_ne (c : Circuit) (body : List Walk.Stmt) (tbl : List GateRec) (trs : List (Walk.Addr × Walk.Addr)) :
    NoBad (makeSubcircuits c body tbl trs) := by
  induction trs with
  | nil => unfold makeSubcircuits; nobad
  | cons tr rest ih =>
    unfold makeSubcircuits
    repeat' (first | exact ih | exact makeSubcircuit_late _ _ _ _ | nobad_step)

theorem ofVErr_late (e : Walk.VErr) : Late (ofVErr e) := by
  cases e
  · exact late_hang
  · exact late_other _

/-- the stages after the disjointness check never raise one of its two JaqalErrors -/
theorem afterCheck_late (x : Circuit) (body : List Walk.Stmt) (tbl : List GateRec) (traces : List (Addr × Addr)) :
    NoBad (afterCheck x body tbl traces) := by
  unfold afterCheck
  refine NoBad.bind (makeSubcircuits_err_ne _ _ _ _) (fun toks => ?_)
  show NoBad (match visit _ _ body with
    | .ok visits => _
    | .error e => _)
  repeat' (first | exact makeSubcircuits_err_ne _ _ _ _ | exact NoBad.throw (ofVErr_late _) | nobad_step)

theorem afterCheck_hlate (x : Circuit) (body : List Walk.Stmt) (tbl : List GateRec) (traces : List (Addr × Addr)) :
    afterCheck x body tbl traces ≠ .error parErr ∧ afterCheck x body tbl traces ≠ .error gateErr :=
  ⟨fun h => ((afterCheck_late x body tbl traces).late _ h).1 rfl, fun h => ((afterCheck_late x body tbl traces).late _ h).2 rfl⟩

/-- **C13 over the run, rejection, both directions at run level** (`C13_run_reject_meaning_full`, no hypothesis): for a parsed
program whose run reaches the disjointness check, the run fails with one of the two JaqalErrors of the check iff the meaning of
the source has a conflict. -/
theorem C13_run_reject_meaning_holds : C13_run_reject_meaning_full := by
  intro cfg ov txt c x body tbl traces hp hx hs hl hd
  exact C13_run_reject_meaning_partial cfg ov txt c x body tbl traces hp hx hs hl hd (afterCheck_hlate x body tbl traces)

end Jaqal.RunModel

#print axioms Jaqal.RunModel.C13_run_reject_meaning_holds
