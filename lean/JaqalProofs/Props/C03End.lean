import JaqalProofs.Lemmas.RunEnd
/-!
# End-to-end corollaries of `C03_run_total`

`Props/C03Run.lean` proves, with no hypothesis, that the summary `run_jaqal_circuit(parse_jaqal_string(text))` reports is
`specSummary (spl x₁)`, a function of the meaning tree `x₁` of the program (subcircuit blocks spelled out, under the overrides).
Here the consequences are stated.

1. **`C03_run_same_meaning`** — two runs (any two texts, configurations, override lists) whose trees agree report THE SAME
   summary: the result depends on the gate-level meaning only.  `C03_run_same_meaning_total`: from `runModel` alone (the trees
   exist).
2. **`C08_run_let_like_literal`** — lets behave like literals: for a parsed `c` and `c' = fill_in_let(c, ov)`, the run of `c`
   under `ov` and the run of `c'` under no (or any) override report the same summary whenever both succeed.  In fact
   (`C08_run_let_expand`, `C08_run_let_run`) the three passes give THE SAME expanded circuit, so the two runs agree as `Except`
   values, as soon as `expand_subcircuits` accepts `c'` (`C08_run_let_like_literal_ok`; that it always does is
   `C08_run_let_like_literal_succeeds_full`, not proved).  Proof: `expand_subcircuits` keeps the relation `FillIn.Rel` between a
   circuit and its filled copy (`rel_spell`), the second `fill_in_let` therefore writes the S-expression the first one wrote
   (`Passes.visitStmts_fixed`), and the builder cannot tell the two configurations apart (`Passes.rebuildCfg_congr`).
3. **`C12_run_brackets_meaning`**, **`C08_run_visits_meaning`** — C12 and C08 lifted from "the walker skeleton of the expanded
   circuit" to "the meaning of the program as written": the skeleton is `skelOf (spl x₁)`, its gate occurrences in flat order
   are `x₁.flat` kind by kind, they are `Bracketed`, the number of subcircuits is `pairCount x₁.flat`; unrolled, the skeleton
   reads `x₁.unroll`, and the visits are `execVisits` of it (every visit `< s.subcircuits`).
   (`C08_run_visits_positions_full`, not proved: the same with positions of `x₁.flat` in place of addresses, `semVisits`.)
4. **`C03_run_state`**, **`C03_run_state_norm`** — the property's sentence.  For any interpretation `U` of gate names and
   classical arguments as matrices over any commutative semiring: the state the emulator's loop nests compute for every
   subcircuit (`emuState`: `Emulator.runGatesFn` over the gates of the trace's segment, read in the table of the program's gate
   applications — no string involved) is `U_j … U_1 |0…0⟩`, each matrix embedded on its RESOLVED qubits (`specState`), and has
   norm one when every matrix is unitary.  Hypothesis kept explicit (decidable): `AppOK nq a` for every gate application `a` of
   the program — its qubits are distinct and inside the `nq`-qubit register.  The run model does not check distinctness (nor
   does the Python: `CX q[0] q[0]` is multiplied as it stands), so it cannot be derived.
-/
namespace Jaqal.RunModel
open Jaqal Jaqal.Builder Jaqal.Sem Jaqal.Walk

/-! ### 1. The result depends on the gate-level meaning only -/

/-- **Same meaning, same result.** Two parsed programs (any texts, any configurations, any override lists) that run, and whose
sources (subcircuit blocks spelled out) evaluate under their overrides to trees that agree once the blocks of the expanded macro
calls are spliced (`spl x = spl x'`; in particular when `x = x'`), report the same summary: as many subcircuits, the same
subcircuit at every readout, the same gates — with the same resolved qubits and the same numbers — in every subcircuit. -/
theorem C03_run_same_meaning (cfg cfg' : Config) (ov ov' : List (String × Num)) (txt txt' : String) (c c₁ c' c₁' : Circuit)
    (x x' : Sem) (s s' : RunSummary)
    (hp : Pipeline.parseProgram cfg txt = .ok c) (h1 : ExpandSubcircuits.expandSubcircuits none none c = .ok c₁)
    (hm : rawMeaning (FillIn.normOv ov) c₁ = .ok x) (hr : runCircuit ov c = .ok s)
    (hp' : Pipeline.parseProgram cfg' txt' = .ok c') (h1' : ExpandSubcircuits.expandSubcircuits none none c' = .ok c₁')
    (hm' : rawMeaning (FillIn.normOv ov') c₁' = .ok x') (hr' : runCircuit ov' c' = .ok s')
    (heq : ExpandMacros.spl x = ExpandMacros.spl x') : s = s' := by
  have a := (C03_run_meaning_raw cfg ov txt c c₁ s x hp h1 hm hr).2.1
  have b := (C03_run_meaning_raw cfg' ov' txt' c' c₁' s' x' hp' h1' hm' hr').2.1
  rw [heq, b] at a
  exact (Option.some.inj a).symm

/-- **… from the two runs alone.** Both programs HAVE such trees (`C03_run_total`), and if the trees agree the summaries do. -/
theorem C03_run_same_meaning_total (cfg cfg' : Config) (ov ov' : List (String × Num)) (txt txt' : String) (s s' : RunSummary)
    (h : runModel cfg ov txt = .ok s) (h' : runModel cfg' ov' txt' = .ok s') :
    ∃ c c₁ x c' c₁' x', Pipeline.parseProgram cfg txt = .ok c ∧ ExpandSubcircuits.expandSubcircuits none none c = .ok c₁ ∧
      rawMeaning (FillIn.normOv ov) c₁ = .ok x ∧
      Pipeline.parseProgram cfg' txt' = .ok c' ∧ ExpandSubcircuits.expandSubcircuits none none c' = .ok c₁' ∧
      rawMeaning (FillIn.normOv ov') c₁' = .ok x' ∧
      (ExpandMacros.spl x = ExpandMacros.spl x' → s = s') := by
  obtain ⟨c, c₁, x, hp, h1, hm, _, _, hs⟩ := C03_run_total cfg ov txt s h
  obtain ⟨c', c₁', x', hp', h1', hm', _, _, hs'⟩ := C03_run_total cfg' ov' txt' s' h'
  refine ⟨c, c₁, x, c', c₁', x', hp, h1, hm, hp', h1', hm', fun heq => ?_⟩
  rw [heq, hs'] at hs
  exact (Option.some.inj hs).symm

/-! ### 2. Loop counts (and everything else) given by lets behave like literals -/

/-- **The expansion of the filled program is the expansion of the program.** `c' = fill_in_let(c, ov)` is the program with every
let replaced by its (overridden) value.  If the three passes succeed on `c` under `ov` and give `x`, and `expand_subcircuits`
succeeds on `c'`, then the three passes on `c'` — under ANY override list `ov2`, in particular none — give the same circuit `x`. -/
theorem C08_run_let_expand (cfg : Config) (txt : String) (ov ov2 : List (String × Num)) (c c' c₁' x : Circuit)
    (hp : Pipeline.parseProgram cfg txt = .ok c) (hfl : FillIn.fillInLet ov c = .ok c') (hx : expandAll ov c = .ok x)
    (h1' : ExpandSubcircuits.expandSubcircuits none none c' = .ok c₁') : expandAll ov2 c' = .ok x := by
  unfold expandAll at hx ⊢
  obtain ⟨c₁, h1, hx⟩ := bind_ok hx
  obtain ⟨c2, h2, hx⟩ := bind_ok hx
  have := fillInLet_spelled (ov2 := ov2) (Passes.parsed_legal cfg txt c hp) hfl h1 h1' h2
  simp only [h1', this, hx, bind, Except.bind]

/-- **… hence the whole run is the same**, errors of the emulator included: `run(c', ov2) = run(c, ov)` as soon as the passes
succeed on `c` and `expand_subcircuits` succeeds on `c'`. -/
theorem C08_run_let_run (cfg : Config) (txt : String) (ov ov2 : List (String × Num)) (c c' c₁' x : Circuit)
    (hp : Pipeline.parseProgram cfg txt = .ok c) (hfl : FillIn.fillInLet ov c = .ok c') (hx : expandAll ov c = .ok x)
    (h1' : ExpandSubcircuits.expandSubcircuits none none c' = .ok c₁') : runCircuit ov2 c' = runCircuit ov c := by
  unfold runCircuit
  rw [C08_run_let_expand cfg txt ov ov2 c c' c₁' x hp hfl hx h1', hx]

/-- **C08: loop counts given by (overridden) lets behave like literals.** For a parsed program `c` and `c' = fill_in_let(c, ov)`
(every let — a loop count, a gate parameter, a register size, an index — replaced by the literal it stands for under the
overrides): running `c` under `ov` and running `c'` under no override (or any other list `ov2`: no let is left to override) report
the same summary whenever both succeed. -/
theorem C08_run_let_like_literal (cfg : Config) (txt : String) (ov ov2 : List (String × Num)) (c c' : Circuit) (s s' : RunSummary)
    (hp : Pipeline.parseProgram cfg txt = .ok c) (hfl : FillIn.fillInLet ov c = .ok c')
    (hr : runCircuit ov c = .ok s) (hr' : runCircuit ov2 c' = .ok s') : s' = s := by
  have hr0 := hr
  have hr0' := hr'
  unfold runCircuit at hr0 hr0'
  obtain ⟨x, hx, _⟩ := bind_ok hr0
  obtain ⟨x', hx', _⟩ := bind_ok hr0'
  unfold expandAll at hx'
  obtain ⟨c₁', h1', _⟩ := bind_ok hx'
  rw [C08_run_let_run cfg txt ov ov2 c c' c₁' x hp hfl hx h1', hr] at hr'
  exact (Except.ok.inj hr').symm

/-- … and the success of the first run carries over as soon as `expand_subcircuits` accepts `c'`. -/
theorem C08_run_let_like_literal_ok (cfg : Config) (txt : String) (ov ov2 : List (String × Num)) (c c' c₁' : Circuit)
    (s : RunSummary) (hp : Pipeline.parseProgram cfg txt = .ok c) (hfl : FillIn.fillInLet ov c = .ok c')
    (hr : runCircuit ov c = .ok s) (h1' : ExpandSubcircuits.expandSubcircuits none none c' = .ok c₁') :
    runCircuit ov2 c' = .ok s := by
  have hr0 := hr
  unfold runCircuit at hr0
  obtain ⟨x, hx, _⟩ := bind_ok hr0
  rw [C08_run_let_run cfg txt ov ov2 c c' c₁' x hp hfl hx h1', hr]

/-- NOT proved: that `expand_subcircuits` accepts `c'` whenever the run of `c` succeeds (so that `h1'` above could be dropped).
It would need: the loop counts `Builder.build` stores pass `_validate_count` (no float count survives the rebuild), and the
bounding definition found in the NORMALISED gate list of `c'` (`normNatives`: a dictionary, last entry of a name) takes no
parameter when the one found in the list of `c` (`find?`: first entry) takes none — for a gate list that names `prepare_all` twice
with different parameter lists this is doubtful. -/
def C08_run_let_like_literal_succeeds_full : Prop :=
  ∀ (cfg : Config) (txt : String) (ov : List (String × Num)) (c c' : Circuit) (s : RunSummary),
    Pipeline.parseProgram cfg txt = .ok c → FillIn.fillInLet ov c = .ok c' → runCircuit ov c = .ok s → runCircuit [] c' = .ok s

/-! ### 3. Brackets and visits, from the meaning of the program as written -/

/-- **C12 from the program's meaning.** For every text, configuration and override list: if the run reports `s`, the source
(subcircuit blocks spelled out) has a meaning tree `x₁` under the overrides, and with `body` the walker skeleton of that tree
(`skelOf`, a function of the tree alone; the blocks of the expanded macro calls spliced):
* the gate occurrences of `body` in flat order are the flat gate applications of `x₁`, kind by kind (`prepare_all`,
  `measure_all`, other);
* they satisfy the bracket rule (`Bracketed`, C12);
* the number of subcircuits is the number of prepare/measure pairs of that flat order (`pairs`), which is `pairCount x₁.flat`:
  read the gate applications of the program's meaning in textual order; a `prepare_all` (re)opens, a `measure_all` closes the
  open one, count the closings. -/
theorem C12_run_brackets_meaning (cfg : Config) (ov : List (String × Num)) (txt : String) (s : RunSummary)
    (h : runModel cfg ov txt = .ok s) :
    ∃ c c₁ x₁ body n, Pipeline.parseProgram cfg txt = .ok c ∧ ExpandSubcircuits.expandSubcircuits none none c = .ok c₁ ∧
      rawMeaning (FillIn.normOv ov) c₁ = .ok x₁ ∧ skelOf (ExpandMacros.spl x₁) = some (body, n) ∧
      tkinds (flatToks body) = x₁.flat.map (fun g => nkind g.1) ∧
      Bracketed (flatToks body) ∧
      s.subcircuits = (pairs (flatToks body)).length ∧ s.subcircuits = pairCount x₁.flat := by
  obtain ⟨c, c₁, x₁, hp, h1, hm, _, _, hs⟩ := C03_run_total cfg ov txt s h
  obtain ⟨body, n, traces, hsk, hd, hn, _, _⟩ := specSummary_inv hs
  have hb : Bracketed (flatToks body) := (C12_iff body).1 (by simp [hd, Except.isOk, Except.toBool])
  have hc := C12_count body traces hd
  have hk : tkinds (flatToks body) = x₁.flat.map (fun g => nkind g.1) := by
    rw [← flat_spl x₁]
    cases hx : ExpandMacros.spl x₁ with
    | blk par sub it ms =>
      rw [hx] at hsk
      simp only [skelOf] at hsk
      simpa only [flatToks, Sem.flat] using semSkelList_kinds ms 0 body n hsk [] 0
    | gate _ _ => rw [hx] at hsk; simp [skelOf] at hsk
    | loop _ _ => rw [hx] at hsk; simp [skelOf] at hsk
  refine ⟨c, c₁, x₁, body, n, hp, h1, hm, hsk, hk, hb, by rw [hn, hc], ?_⟩
  rw [hn, hc, skelOf_pairs hsk, flat_spl]

/-- **C08 from the program's meaning.** … and the subcircuit of every readout is the visit sequence of the UNROLLED program:
walk `unroll body` — which, read in the specification's table, is `x₁.unroll`, the gate applications of the program's meaning in
execution order, loops repeated (a count ≤ 0 contributes nothing) — and emit `k` whenever the executed occurrence is the
`prepare_all` that opens the `k`-th prepare/measure pair of the flat order (`execVisits`). -/
theorem C08_run_visits_meaning (cfg : Config) (ov : List (String × Num)) (txt : String) (s : RunSummary)
    (h : runModel cfg ov txt = .ok s) :
    ∃ c c₁ x₁ body n, Pipeline.parseProgram cfg txt = .ok c ∧ ExpandSubcircuits.expandSubcircuits none none c = .ok c₁ ∧
      rawMeaning (FillIn.normOv ov) c₁ = .ok x₁ ∧ skelOf (ExpandMacros.spl x₁) = some (body, n) ∧
      (unroll body).map (fun g => renderGK (specTable x₁) g.1) = x₁.unroll.map renderB ∧
      s.visits = execVisits ((pairs (flatToks body)).map (·.1)) (unroll body) ∧
      s.visits = specVisits ((pairs (flatToks body)).map (·.1)) body ∧
      ∀ k ∈ s.visits, k < s.subcircuits := by
  obtain ⟨c, c₁, x₁, hp, h1, hm, _, _, hs⟩ := C03_run_total cfg ov txt s h
  obtain ⟨body, n, traces, hsk, hd, hn, hv, _⟩ := specSummary_inv hs
  have hc := C12_count body traces hd
  have hu := skelOf_unroll hsk
  rw [specTable_spl, unroll_spl] at hu
  have hv2 : s.visits = execVisits (traces.map (·.1)) (unroll body) := by rw [hv, C08_unroll body traces hd]
  refine ⟨c, c₁, x₁, body, n, hp, h1, hm, hsk, hu, by rw [← hc]; exact hv2, by rw [← hc]; exact hv, ?_⟩
  intro k hk
  rw [hv2, execVisits, List.mem_filterMap] at hk
  obtain ⟨x, _, hx⟩ := hk
  rw [hn]
  have : ∀ (l : List Addr) (a : Addr) (k : Nat), indexOf? l a = some k → k < l.length := by
    intro l
    induction l with
    | nil => intro a k h; simp [indexOf?] at h
    | cons y r ih =>
      intro a k h
      simp only [indexOf?] at h
      split at h
      · simp only [Option.some.injEq] at h; subst h; simp
      · simp only [Option.map_eq_some_iff] at h
        obtain ⟨j, hj, rfl⟩ := h
        have := ih a j hj
        simp only [List.length_cons]; omega
  simpa using this _ _ _ hx

/-- NOT proved: `s.visits` written on the meaning tree alone, without the walker skeleton — `semVisits`: positions in the flat
order of the tree's gate applications in place of the walkers' addresses.  Missing: the correspondence between the addresses
of `flatToks body` (`gaddrs`, strictly increasing, hence injective) and the positions of `x₁.flat`, through `pairsFrom` and
`Walk.unrollList`.  Evaluated on the examples below (`endCheck`). -/
def C08_run_visits_positions_full : Prop :=
  ∀ (cfg : Config) (ov : List (String × Num)) (txt : String) (s : RunSummary), runModel cfg ov txt = .ok s →
    ∃ c c₁ x₁, Pipeline.parseProgram cfg txt = .ok c ∧ ExpandSubcircuits.expandSubcircuits none none c = .ok c₁ ∧
      rawMeaning (FillIn.normOv ov) c₁ = .ok x₁ ∧ s.visits = semVisits x₁

/-! ### 4. The state vector of every subcircuit -/

section State
open Jaqal.Emulator Finset

/-- **The state of a subcircuit as the emulator computes it**: the loop nests (`Emulator.applyGate`, folded by `runGatesFn`
from `|0…0⟩`) over the gates the serialiser yields for the trace `tr` of the skeleton `body` — each read in the table `T` of gate
applications: the matrix the interpretation `U` gives its name and classical arguments, on its resolved qubits; `prepare_all`,
`measure_all` and gates without an ideal unitary are skipped. -/
def emuState {R : Type} [Add R] [Mul R] [Zero R] [One R] (U : String → List SArg → Option (Nat → Nat → R))
    (T : List GateApp) (body : List Walk.Stmt) (tr : Addr × Addr) : Nat → R :=
  runGatesFn ((segment tr body).map (gkGate U T))

/-- **C03 (the property's sentence), for any gate list read in a table.** If the qubits of every gate application of the
table are distinct qubits of the `nq`-qubit register (`AppOK`, decidable), the state the emulator computes for a trace is
`U_j … U_1 |0…0⟩`: the product, in execution order, of the matrices of the segment's gates, each embedded on its resolved qubits
(`specState`, `embed`). -/
theorem C03_state_table {R : Type} [CommSemiring R] (U : String → List SArg → Option (Nat → Nat → R)) (T : List GateApp)
    (nq : Nat) (hT : ∀ a ∈ T, AppOK nq a) (body : List Walk.Stmt) (tr : Addr × Addr) (i : Nat) (hi : i < 2 ^ nq) :
    emuState U T body tr i = specState nq ((segment tr body).map (gkGate U T)) i :=
  C03_state nq _ (gatesOK_of_table U T nq hT _) i hi

/-- … and it has norm one when every matrix the interpretation gives is unitary on its dimension. -/
theorem C03_state_table_norm {R : Type} [CommSemiring R] [StarRing R] (U : String → List SArg → Option (Nat → Nat → R))
    (T : List GateApp) (nq : Nat) (hT : ∀ a ∈ T, AppOK nq a)
    (hU : ∀ a ∈ T, ∀ M, U a.1 (classicalOf a) = some M → IsUnitaryOn M (2 ^ (qubitsOf a).length))
    (body : List Walk.Stmt) (tr : Addr × Addr) :
    ∑ i ∈ range (2 ^ nq), star (emuState U T body tr i) * emuState U T body tr i = 1 :=
  (C03_norm_preserved nq _ (gatesOK_of_table U T nq hT _) (gatesUnitary_of_table U T hU _)).1

/-- **C03 over the run: the state vector of every subcircuit is the product of the program's gate matrices.**  For every text,
configuration and override list: if the run reports `s`, the source (subcircuit blocks spelled out) has a meaning tree `x₁` under
the overrides; `T = specTable x₁` are its gate applications (name, evaluated numbers, resolved qubits) in flat order, `body` the
walker skeleton of the tree, `traces` its prepare/measure traces.  For the `k`-th subcircuit, with trace `tr`:
* the gates the run reports for it (`s.traces[k]`) are the renderings of the gates of `segment tr body` read in `T` — the gate
  list the emulator multiplies, no string involved;
* for ANY interpretation `U` of gate names (and classical arguments) as matrices over ANY commutative semiring, and any register
  size `nq` such that the qubits of every gate application of the program are distinct and inside the register (`AppOK`: an
  explicit, decidable hypothesis — the run model checks the range of every reference, `C14_run_refs_within`, but NOT that the
  qubit arguments of one gate are distinct, and neither does the Python), the state the emulator's loop nests compute for the
  subcircuit is `U_j … U_1 |0…0⟩` over exactly those gates, each embedded on its resolved qubits. -/
theorem C03_run_state (cfg : Config) (ov : List (String × Num)) (txt : String) (s : RunSummary)
    (h : runModel cfg ov txt = .ok s) :
    ∃ c c₁ x₁ body n traces, Pipeline.parseProgram cfg txt = .ok c ∧
      ExpandSubcircuits.expandSubcircuits none none c = .ok c₁ ∧ rawMeaning (FillIn.normOv ov) c₁ = .ok x₁ ∧
      skelOf (ExpandMacros.spl x₁) = some (body, n) ∧ Walk.discover body = .ok traces ∧ s.subcircuits = traces.length ∧
      ∀ (k : Nat) (tr : Addr × Addr), traces[k]? = some tr →
        s.traces[k]? = some ((segment tr body).map (renderGK (specTable x₁))) ∧
        ∀ (R : Type) [CommSemiring R] (U : String → List SArg → Option (Nat → Nat → R)) (nq : Nat),
          (∀ a ∈ specTable x₁, AppOK nq a) → ∀ i < 2 ^ nq,
            emuState U (specTable x₁) body tr i = specState nq ((segment tr body).map (gkGate U (specTable x₁))) i := by
  obtain ⟨c, c₁, x₁, hp, h1, hm, _, _, hs⟩ := C03_run_total cfg ov txt s h
  obtain ⟨body, n, traces, hsk, hd, hn, _, ht⟩ := specSummary_inv hs
  rw [specTable_spl] at ht
  refine ⟨c, c₁, x₁, body, n, traces, hp, h1, hm, hsk, hd, hn, fun k tr hk => ⟨?_, ?_⟩⟩
  · rw [ht, List.getElem?_map, hk]; rfl
  · intro R _ U nq hT i hi
    exact C03_state_table U _ nq hT body tr i hi

/-- **… with norm one** when every matrix is unitary: over a commutative `*`-semiring (ℂ, or the exact Gaussian dyadics), if
the interpretation gives every gate application of the program a matrix that is unitary on `2^(number of its qubits)`, the state
of every subcircuit has squared norm `1` — no renormalisation happens or is needed. -/
theorem C03_run_state_norm (cfg : Config) (ov : List (String × Num)) (txt : String) (s : RunSummary)
    (h : runModel cfg ov txt = .ok s) :
    ∃ c c₁ x₁ body n traces, Pipeline.parseProgram cfg txt = .ok c ∧
      ExpandSubcircuits.expandSubcircuits none none c = .ok c₁ ∧ rawMeaning (FillIn.normOv ov) c₁ = .ok x₁ ∧
      skelOf (ExpandMacros.spl x₁) = some (body, n) ∧ Walk.discover body = .ok traces ∧
      ∀ (R : Type) [CommSemiring R] [StarRing R] (U : String → List SArg → Option (Nat → Nat → R)) (nq : Nat),
        (∀ a ∈ specTable x₁, AppOK nq a) →
        (∀ a ∈ specTable x₁, ∀ M, U a.1 (classicalOf a) = some M → IsUnitaryOn M (2 ^ (qubitsOf a).length)) →
        ∀ tr ∈ traces, ∑ i ∈ range (2 ^ nq),
          star (emuState U (specTable x₁) body tr i) * emuState U (specTable x₁) body tr i = 1 := by
  obtain ⟨c, c₁, x₁, body, n, traces, hp, h1, hm, hsk, hd, _, _⟩ := C03_run_state cfg ov txt s h
  exact ⟨c, c₁, x₁, body, n, traces, hp, h1, hm, hsk, hd, fun R _ _ U nq hT hU tr _ =>
    C03_state_table_norm U _ nq hT hU body tr⟩

end State

/-! ### Non-vacuity -/
section Examples
open Jaqal.Emulator

def endCX : GateDef := { name := "CX", tag := .native, params := [("c", .qubit), ("t", .qubit)], hasUnitary := true }
def endCfg : Config := { natives := some [gX, endCX, gPrep, gMeas] }

/-- a let-counted loop, an alias (`a = q[0], q[2]`), a macro; a subcircuit block in a literal loop -/
def endText : String :=
  "let n 2\nregister q[3]\nmap a q[0:3:2]\nmacro m x y { X x; CX x y }\nprepare_all\nloop n { m a[1] q[1] }\nmeasure_all\nloop 2 { subcircuit { X a[0] } }\n"

/-- the same program with the let written as a literal (and no let at all) -/
def endTextLit : String :=
  "register q[3]\nmap a q[0:3:2]\nmacro m x y { X x; CX x y }\nprepare_all\nloop 3 { m a[1] q[1] }\nmeasure_all\nloop 2 { subcircuit { X a[0] } }\n"

/-- an exact gate interpretation over `Int`: `X` and `CX` (control = first argument) as permutation matrices, nothing else -/
def endU : String → List SArg → Option (Nat → Nat → Int) :=
  fun n _ => if n == "X" then some xU else if n == "CX" then some cxU else none

/-- the gate applications of `endText` that are written with their arguments, in flat order: `a[1] = q[2]`, `a[0] = q[0]` -/
def endT : List GateApp :=
  [("X", [.qubit ("q", 2)]), ("CX", [.qubit ("q", 2), .qubit ("q", 1)]), ("X", [.qubit ("q", 0)])]

/-- everything the theorems of this file say, evaluated on `endText` under the overrides `ov`: the run succeeds; `fill_in_let`
succeeds and the run of its result under no override reports the same summary (item 2); the source has a meaning `x₁`; the number
of subcircuits is `pairCount x₁.flat` and the visits are `execVisits` of the unrolled skeleton (item 3); every gate application
is `AppOK` on 3 qubits, the table is `endT`, and the state the loop nests compute for the `k`-th subcircuit is the basis state `expectBasis[k]`
(item 4). -/
def endCheck (ov : List (String × Num)) (expectSub : Nat) (expectVisits expectBasis : List Nat) : Bool :=
  match Pipeline.parseProgram endCfg endText with
  | .ok c =>
    match ExpandSubcircuits.expandSubcircuits none none c, runCircuit ov c, FillIn.fillInLet ov c with
    | .ok c₁, .ok s, .ok c' =>
      (match runCircuit [] c' with
       | .ok s' => s' == s
       | _ => false) &&
      (match rawMeaning (FillIn.normOv ov) c₁ with
       | .ok x₁ =>
         s.subcircuits == pairCount x₁.flat && s.subcircuits == expectSub && s.visits == expectVisits &&
         s.visits == semVisits x₁ && s.visits == semVisits (ExpandMacros.spl x₁) &&
         decide (∀ a ∈ specTable x₁, AppOK 3 a) && specTable x₁ == endT &&
         (match skelOf (ExpandMacros.spl x₁) with
          | some (body, _) =>
            (match Walk.discover body with
             | .ok traces =>
               s.visits == execVisits (traces.map (·.1)) (unroll body) &&
               traces.length == expectBasis.length &&
               (traces.zip expectBasis).all (fun p =>
                 decide (∀ i < 2 ^ 3, emuState endU (specTable x₁) body p.1 i = if i = p.2 then 1 else 0))
             | _ => false)
          | none => false)
       | _ => false)
    | _, _, _ => false
  | _ => false

/-- `n = 2`: `X q2; CX q2 q1` twice takes `|000⟩` to `|010⟩` (index 2); the second subcircuit (`X q0`, visited twice) to index 1 -/
example : endCheck [] 2 [0, 1, 1] [2, 1] = true := by decide +kernel

/-- `n` overridden by 3: a third round gives `|100⟩` (index 4) -/
example : endCheck [("n", .int 3)] 2 [0, 1, 1] [4, 1] = true := by decide +kernel

/-- `C03_run_same_meaning`: the text with the let overridden by 3 and the text with the literal 3 have THE SAME tree, and report
the same summary -/
example : (match Pipeline.parseProgram endCfg endText, Pipeline.parseProgram endCfg endTextLit with
    | .ok c, .ok c' =>
      (match ExpandSubcircuits.expandSubcircuits none none c, ExpandSubcircuits.expandSubcircuits none none c' with
       | .ok c₁, .ok c₁' =>
         (match rawMeaning (FillIn.normOv [("n", .int 3)]) c₁, rawMeaning (FillIn.normOv []) c₁',
             runCircuit [("n", .int 3)] c, runCircuit [] c' with
          | .ok x, .ok x', .ok s, .ok s' =>
            semEq (ExpandMacros.spl x) (ExpandMacros.spl x') && semEq x x' && s == s' && s.subcircuits == 2
          | _, _, _, _ => false)
       | _, _ => false)
    | _, _ => false) = true := by decide +kernel

/-- the hypotheses of `C03_state_table_norm` for `endU` (over `Int`, with the trivial star): both matrices are unitary -/
theorem endU_unitary (n : String) (cl : List SArg) (M : Nat → Nat → Int) (hM : endU n cl = some M) :
    IsUnitaryOn M (2 ^ (if n = "X" then 1 else 2)) := by
  unfold endU at hM
  by_cases hx : n = "X"
  · subst hx
    simp only [beq_self_eq_true, if_true, Option.some.injEq] at hM
    subst hM
    intro c hc c' hc'
    norm_num at hc hc'
    interval_cases c <;> interval_cases c' <;> simp [xU]
  · by_cases hcx : n = "CX"
    · subst hcx
      simp at hM
      subst hM
      have hne : ¬ (("CX" : String) = "X") := by decide
      intro c hc c' hc'
      simp only [hne, if_false] at hc hc' ⊢
      norm_num at hc hc' ⊢
      interval_cases c <;> interval_cases c' <;> simp [cxU]
    · have h1 : (n == "X") = false := by simpa using hx
      have h2 : (n == "CX") = false := by simpa using hcx
      simp [h1, h2] at hM

/-- … so the hypotheses of `C03_run_state` / `C03_run_state_norm` hold for the table of `endText`, and the norm is one -/
theorem endT_hyps : (∀ a ∈ endT, AppOK 3 a) ∧
    ∀ a ∈ endT, ∀ M, endU a.1 (classicalOf a) = some M → IsUnitaryOn M (2 ^ (qubitsOf a).length) := by
  refine ⟨by decide, ?_⟩
  intro a ha M hM
  have := endU_unitary a.1 _ M hM
  simp only [endT, List.mem_cons, List.not_mem_nil, or_false] at ha
  rcases ha with rfl | rfl | rfl <;> simpa [qubitsOf, appQubitsZ] using this

example (body : List Walk.Stmt) (tr : Addr × Addr) :
    ∑ i ∈ Finset.range (2 ^ 3), star (emuState endU endT body tr i) * emuState endU endT body tr i = 1 :=
  C03_state_table_norm endU endT 3 endT_hyps.1 endT_hyps.2 body tr

end Examples

end Jaqal.RunModel

#print axioms Jaqal.RunModel.C03_run_same_meaning
#print axioms Jaqal.RunModel.C03_run_same_meaning_total
#print axioms Jaqal.RunModel.C08_run_let_expand
#print axioms Jaqal.RunModel.C08_run_let_run
#print axioms Jaqal.RunModel.C08_run_let_like_literal
#print axioms Jaqal.RunModel.C08_run_let_like_literal_ok
#print axioms Jaqal.RunModel.C12_run_brackets_meaning
#print axioms Jaqal.RunModel.C08_run_visits_meaning
#print axioms Jaqal.RunModel.C03_state_table
#print axioms Jaqal.RunModel.C03_state_table_norm
#print axioms Jaqal.RunModel.C03_run_state
#print axioms Jaqal.RunModel.C03_run_state_norm
