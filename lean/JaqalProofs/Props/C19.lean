import JaqalModel.Model.UnitTiming
import JaqalModel.Spec.Schedule
import JaqalProofs.Lemmas.UnitTiming
/-!
# C19 — unit-timing normalisation preserves the lock-step schedule

Model: `Jaqal.UnitTiming.normalize / normalizeBody` (`JaqalModel/Model/UnitTiming.lean`), a transcription of
`jaqalpaq.core.algorithm.unit_timing`.  Spec: `JaqalModel/Spec/Schedule.lean` (`dur`, `times`, `subs`,
`isFlatList`, `loopInPar`, `subInPar`).

`normalizeBody b` is the statement list of the circuit returned by
`normalize_blocks_with_unitary_timing` when the input circuit's body holds the statements `b`
(header data is copied verbatim by `visit_Circuit` and is not part of the model; the differential
test `/verif/harness/agents/time_diff.py` checks it on the real code).

All theorems are for arbitrary statement trees: any nesting (also same-kind nesting `{ { } }`, `< < > >`
that only the builder / direct construction can produce), empty blocks, subcircuit blocks (also
parallel ones), loops anywhere, arbitrary `iters`.
-/
namespace Jaqal.UnitTiming

/-! ## schedule -/

/-- Every gate instance executes at the same time step as in the input; none is lost or duplicated
(the two schedules, lists of `(gate id, step)`, are permutations of each other — for loops this counts
every iteration).  Holds for whatever step `t` the circuit starts at. -/
theorem C19_schedule {b b' : List Stmt} (h : normalizeBody b = .ok b') (t : Nat) :
    (timesSeq t b').Perm (timesSeq t b) := by
  unfold normalizeBody at h
  split at h
  · cases h
  · rename_i vs hvs
    simp at h; subst h
    rw [timesSeq_unrollAll]
    exact (normalize_inv.2 b vs hvs).2.2.2.1 t

/-- …and the total duration is unchanged. -/
theorem C19_duration {b b' : List Stmt} (h : normalizeBody b = .ok b') : durSum b' = durSum b := by
  unfold normalizeBody at h
  split at h
  · cases h
  · rename_i vs hvs
    simp at h; subst h
    rw [durSum_unrollAll]
    exact (normalize_inv.2 b vs hvs).2.1

/-- Stronger than a permutation: the gates executing at any given step `k` appear in the same
(left-to-right program) order before and after. -/
theorem C19_schedule_order {b b' : List Stmt} (h : normalizeBody b = .ok b') (t k : Nat) :
    (timesSeq t b').filter (fun p => p.2 == k) = (timesSeq t b).filter (fun p => p.2 == k) := by
  unfold normalizeBody at h
  split at h
  · cases h
  · rename_i vs hvs
    simp at h; subst h
    rw [timesSeq_unrollAll]
    exact (normalize_atStep.2 b vs hvs).1 k t

/-- No gate instance is duplicated: if the executions of the input are pairwise distinct, so are those
of the output (and by `C19_schedule` none is lost). -/
theorem C19_nodup {b b' : List Stmt} (h : normalizeBody b = .ok b') (t : Nat)
    (hn : (timesSeq t b).Nodup) : (timesSeq t b').Nodup :=
  (C19_schedule h t).nodup_iff.2 hn

/-- The same for a single statement (this is what keeps the schedule *inside* a subcircuit block, and
the block's own length, intact). -/
theorem C19_schedule_stmt {s v : Stmt} (h : normalize s = .ok v) (t : Nat) :
    (times t v).Perm (times t s) ∧ dur v = dur s :=
  ⟨(normalize_inv.1 s v h).2.2.1 t, (normalize_inv.1 s v h).2.1⟩

/-! ## shape of the result -/

/-- The result is a flat sequence: every element is a gate, a loop, a parallel group of ≥ 2 gates and
nothing else, or a sequential subcircuit block whose body is again such a sequence. -/
theorem C19_flat {b b' : List Stmt} (h : normalizeBody b = .ok b') : isFlatList b' = true := by
  unfold normalizeBody at h
  split at h
  · cases h
  · rename_i vs hvs
    simp at h; subst h
    exact unrollAll_flat (normalize_inv.2 b vs hvs).1

/-- A statement on its own normalises to itself (gate, loop) or to a *sequential* block with the same
subcircuit flag and iteration count and a flat body. -/
theorem C19_flat_stmt {s v : Stmt} (h : normalize s = .ok v) :
    (∃ i, s = .gate i ∧ v = .gate i) ∨ (∃ n body, s = .loop n body ∧ v = .loop n body) ∨
    (∃ par sub it body body', s = .block par sub it body ∧ v = .block false sub it body' ∧
      isFlatList body' = true) := by
  have hnf := (normalize_inv.1 s v h).1
  cases s with
  | gate i => simp [normalize] at h; exact .inl ⟨i, rfl, h.symm⟩
  | loop n body => simp [normalize] at h; exact .inr (.inl ⟨n, body, rfl, h.symm⟩)
  | block par sub it body =>
    obtain ⟨vs, _, ⟨_, rfl⟩ | ⟨_, chunks, _, rfl⟩⟩ := normalize_block_ok h
    · exact .inr (.inr ⟨par, sub, it, body, _, rfl, rfl, by simpa [isNF] using hnf⟩)
    · exact .inr (.inr ⟨par, sub, it, body, _, rfl, rfl, by simpa [isNF] using hnf⟩)

/-! ## subcircuit annotations -/

/-- The subcircuit blocks of the output are those of the input: same number, same program order, same
nesting depth, same `iters` (the list `(depth, iters)` in program order determines the forest of
subcircuit blocks).  Together with `C19_schedule_stmt` each of them also keeps its interior schedule. -/
theorem C19_frame {b b' : List Stmt} (h : normalizeBody b = .ok b') (d : Nat) :
    subsList d b' = subsList d b := by
  unfold normalizeBody at h
  split at h
  · cases h
  · rename_i vs hvs
    simp at h; subst h
    rw [subsList_unrollAll]
    exact (normalize_inv.2 b vs hvs).2.2.2.2.2 d

/-- Every subcircuit block also keeps its time slot: the list `(iters, start step, duration)` of the
subcircuit blocks is unchanged. -/
theorem C19_frame_slots {b b' : List Stmt} (h : normalizeBody b = .ok b') (t : Nat) :
    slotsSeq t b' = slotsSeq t b := by
  unfold normalizeBody at h
  split at h
  · cases h
  · rename_i vs hvs
    simp at h; subst h
    rw [slotsSeq_unrollAll _ _ (normalize_inv.2 b vs hvs).1]
    exact (normalize_slots.2 b vs hvs).1 t

/-! ## rejection -/

/-- `normalizeBody` fails exactly like `normalizeList` (the final splice cannot fail). -/
theorem normalizeBody_error_iff {b : List Stmt} {e : Err} :
    normalizeBody b = .error e ↔ normalizeList b = .error e := by
  unfold normalizeBody
  split <;> simp_all

/-- A failure always has its reason: `JaqalError` ⇒ some loop sits inside a parallel block (no other
loop in between); `AssertionError` ⇒ some subcircuit block sits inside a parallel block. -/
theorem C19_fails_only {b : List Stmt} {e : Err} (h : normalizeBody b = .error e) :
    (e = .loopInParallel ∧ anyLoopInPar false b = true) ∨
    (e = .assertion ∧ anySubInPar false b = true) :=
  normalizeList_error b e (normalizeBody_error_iff.1 h)

/-- Success ⇔ neither defect is present.  In particular a loop inside a parallel block is never
silently mis-scheduled. -/
theorem C19_ok_iff (b : List Stmt) :
    (∃ b', normalizeBody b = .ok b') ↔ (anyLoopInPar false b = false ∧ anySubInPar false b = false) := by
  constructor
  · rintro ⟨b', h⟩
    unfold normalizeBody at h
    split at h
    · cases h
    · rename_i vs hvs
      obtain ⟨_, h1, h2, _⟩ := normalize_dinv.2 b vs hvs
      exact ⟨h1, h2⟩
  · rintro ⟨h1, h2⟩
    cases h : normalizeBody b with
    | ok b' => exact ⟨b', rfl⟩
    | error e =>
      rcases C19_fails_only h with ⟨_, hl⟩ | ⟨_, hs⟩
      · simp [h1] at hl
      · simp [h2] at hs

/-- A loop reachable inside a parallel block without crossing a loop makes the normaliser raise; it
raises `JaqalError` unless the program *also* has a subcircuit block inside a parallel block (then the
exception is whichever offending statement the chunk loop meets first). -/
theorem C19_loop {b : List Stmt} (hl : anyLoopInPar false b = true) :
    (∃ e, normalizeBody b = .error e) ∧
    (anySubInPar false b = false → normalizeBody b = .error .loopInParallel) := by
  have hne : ∀ b', normalizeBody b ≠ .ok b' := by
    intro b' h
    have := ((C19_ok_iff b).1 ⟨b', h⟩).1
    simp [hl] at this
  cases h : normalizeBody b with
  | ok b' => exact absurd h (hne b')
  | error e =>
    refine ⟨⟨e, rfl⟩, fun hs => ?_⟩
    rcases C19_fails_only h with ⟨rfl, _⟩ | ⟨_, hs'⟩
    · rfl
    · simp [hs] at hs'

/-- Likewise a subcircuit block inside a parallel block is refused (with `AssertionError`, or with
`JaqalError` when a loop in a parallel block is met first). -/
theorem C19_sub_in_par {b : List Stmt} (hs : anySubInPar false b = true) :
    (∃ e, normalizeBody b = .error e) ∧
    (anyLoopInPar false b = false → normalizeBody b = .error .assertion) := by
  have hne : ∀ b', normalizeBody b ≠ .ok b' := by
    intro b' h
    have := ((C19_ok_iff b).1 ⟨b', h⟩).2
    simp [hs] at this
  cases h : normalizeBody b with
  | ok b' => exact absurd h (hne b')
  | error e =>
    refine ⟨⟨e, rfl⟩, fun hl => ?_⟩
    rcases C19_fails_only h with ⟨_, hl'⟩ | ⟨rfl, _⟩
    · simp [hl] at hl'
    · rfl

/-- Same statements for a single statement `s` (e.g. a block on its own). -/
theorem C19_loop_stmt {s : Stmt} {e : Err} (h : normalize s = .error e) :
    (e = .loopInParallel ∧ loopInPar false s = true) ∨ (e = .assertion ∧ subInPar false s = true) :=
  normalize_error s e h

/-! ## idempotence -/

/-- Every flat sequence is a fixed point … -/
theorem C19_flat_fixed {b : List Stmt} (h : isFlatList b = true) : normalizeBody b = .ok b := by
  obtain ⟨vs, hvs, hu⟩ := normalizeList_flat_fix b h
  simp [normalizeBody, hvs, hu]

/-- … hence normalising twice is normalising once. -/
theorem C19_idempotent {b b' : List Stmt} (h : normalizeBody b = .ok b') : normalizeBody b' = .ok b' :=
  C19_flat_fixed (C19_flat h)

/-! ## non-vacuity -/

section Examples
open Stmt

private def seqB (l : List Stmt) : Stmt := .block false false 1 l
private def parB (l : List Stmt) : Stmt := .block true false 1 l
private def subB (n : Nat) (l : List Stmt) : Stmt := .block false true n l

/-- test_par_in_seq_in_par_2: `<p0|{<g0|g1>;g2}|{<a0|a1>;a2}|p1>` ↦ `<p0|g0|g1|a0|a1|p1>;<g2|a2>`
(ids: p0=0 g0=1 g1=2 g2=3 a0=4 a1=5 a2=6 p1=7). -/
private def ex1 : List Stmt :=
  [parB [gate 0, seqB [parB [gate 1, gate 2], gate 3], seqB [parB [gate 4, gate 5], gate 6], gate 7]]
private def ex1' : List Stmt :=
  [parB [gate 0, gate 1, gate 2, gate 4, gate 5, gate 7], parB [gate 3, gate 6]]

example : normalizeBody ex1 = .ok ex1' := by decide
example : timesSeq 0 ex1 = [(0,0),(1,0),(2,0),(3,1),(4,0),(5,0),(6,1),(7,0)] := by decide
example : timesSeq 0 ex1' = [(0,0),(1,0),(2,0),(4,0),(5,0),(7,0),(3,1),(6,1)] := by decide
example : isFlatList ex1' = true := by decide
example : isFlatList ex1 = false := by decide

/-- test_seq_in_par_in_seq: `{g0;g1;<p0|p1|p2|{q0;q1}>;g2}` ↦ `g0;g1;<p0|p1|p2|q0>;q1;g2`. -/
example : normalizeBody [seqB [gate 0, gate 1, parB [gate 2, gate 3, gate 4, seqB [gate 5, gate 6]], gate 7]]
    = .ok [gate 0, gate 1, parB [gate 2, gate 3, gate 4, gate 5], gate 6, gate 7] := by decide

/-- test_par_in_seq_in_par_1: `<p0|p1|{<g0|g1>;g2}>` ↦ `<p0|p1|g0|g1>;g2`. -/
example : normalizeBody [parB [gate 0, gate 1, seqB [parB [gate 2, gate 3], gate 4]]]
    = .ok [parB [gate 0, gate 1, gate 2, gate 3], gate 4] := by decide

/-- test_single_gate / test_sequential_block / test_parallel_block / test_top_level_loop. -/
example : normalizeBody [gate 0] = .ok [gate 0] := by decide
example : normalizeBody [seqB [gate 0]] = .ok [gate 0] := by decide
example : normalizeBody [parB [gate 0, gate 1]] = .ok [parB [gate 0, gate 1]] := by decide
example : normalizeBody [loop 5 (seqB [gate 0, gate 1])] = .ok [loop 5 (seqB [gate 0, gate 1])] := by decide

/-- test_reject_nested_loop: `<{loop 5 {}}>` raises JaqalError. -/
example : normalizeBody [parB [seqB [loop 5 (seqB [])]]] = .error .loopInParallel := by decide
example : anyLoopInPar false [parB [seqB [loop 5 (seqB [])]]] = true := by decide

/-- unequal branch lengths, empty blocks, a singleton chunk emitted bare, a subcircuit with iterations,
a loop (whose body, containing a loop in a parallel block, is left alone) in sequence. -/
private def ex2 : List Stmt :=
  [gate 0,
   subB 7 [parB [seqB [gate 1, gate 2, gate 3], seqB [], parB [], seqB [parB [gate 4, seqB [gate 5, gate 6]], gate 7]],
           loop 2 (parB [gate 8, loop 3 (seqB [gate 9])])],
   seqB [seqB [gate 10], subB 1 []]]
private def ex2' : List Stmt :=
  [gate 0,
   subB 7 [parB [gate 1, gate 4, gate 5], parB [gate 2, gate 6], parB [gate 3, gate 7],
           loop 2 (parB [gate 8, loop 3 (seqB [gate 9])])],
   gate 10, subB 1 []]

example : normalizeBody ex2 = .ok ex2' := by decide
example : subsList 0 ex2 = [(0, 7), (0, 1)] ∧ subsList 0 ex2' = [(0, 7), (0, 1)] := by decide
example : durSum ex2 = 11 ∧ durSum ex2' = 11 := by decide
example : slotsSeq 0 ex2 = [(7, 1, 9), (1, 11, 0)] ∧ slotsSeq 0 ex2' = [(7, 1, 9), (1, 11, 0)] := by decide
example : (timesSeq 0 ex2).Nodup := by decide
example : (timesSeq 0 ex2).length = 17 := by decide
example : anyLoopInPar false ex2 = false ∧ anySubInPar false ex2 = false := by decide
example : normalizeBody ex2' = .ok ex2' := by decide

/-- a subcircuit block under a parallel block trips the `assert` (reachable only by building core
objects directly: the circuit builder refuses such a program); which exception is raised when both
defects are present depends on the order inside the chunk. -/
example : normalizeBody [parB [seqB [subB 1 [gate 0]], gate 1]] = .error .assertion := by decide
example : normalizeBody [parB [seqB [subB 1 []], loop 1 (seqB [])]] = .error .assertion := by decide
example : normalizeBody [parB [loop 1 (seqB []), seqB [subB 1 []]]] = .error .loopInParallel := by decide
/-- a *parallel* subcircuit block comes back as a sequential one with the same annotation -/
example : normalizeBody [.block true true 3 [gate 0, seqB [gate 1, gate 2]]]
    = .ok [.block false true 3 [parB [gate 0, gate 1], gate 2]] := by decide

end Examples

end Jaqal.UnitTiming

open Jaqal.UnitTiming in
#print axioms C19_schedule
open Jaqal.UnitTiming in
#print axioms C19_schedule_order
open Jaqal.UnitTiming in
#print axioms C19_nodup
open Jaqal.UnitTiming in
#print axioms C19_frame_slots
open Jaqal.UnitTiming in
#print axioms C19_duration
open Jaqal.UnitTiming in
#print axioms C19_schedule_stmt
open Jaqal.UnitTiming in
#print axioms C19_flat
open Jaqal.UnitTiming in
#print axioms C19_flat_stmt
open Jaqal.UnitTiming in
#print axioms C19_frame
open Jaqal.UnitTiming in
#print axioms C19_fails_only
open Jaqal.UnitTiming in
#print axioms C19_ok_iff
open Jaqal.UnitTiming in
#print axioms C19_loop
open Jaqal.UnitTiming in
#print axioms C19_sub_in_par
open Jaqal.UnitTiming in
#print axioms C19_loop_stmt
open Jaqal.UnitTiming in
#print axioms C19_flat_fixed
open Jaqal.UnitTiming in
#print axioms C19_idempotent
