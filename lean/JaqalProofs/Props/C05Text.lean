import JaqalProofs.Lemmas.LetTextFinal
import JaqalProofs.Props.ParsedC05
/-!
# C05 from texts — the open finding `defaulted-stop-frozen` as a machine-checked refutation

C05: substituting let-constants, optionally overridden, yields a circuit "whose meaning equals the meaning of the original
circuit evaluated with each constant bound to its overriding value if given, else its declared value".

`Props/C05.lean: C05_meaning` proves this of every well-formed CIRCUIT (`Props/ParsedC05.lean`: of every parsed circuit):
`meaning [] (fill_in_let c ov) = meaning ov c`.  Read FROM THE TEXT the clause says more: the filled circuit means what the
program means in which every overridden `let` is declared with its overriding value.  That statement is `C05_text_full`, and
it is FALSE (`C05_text_refuted`): `build_map` stores a defaulted slice stop (`map c a[1:]`) as the NUMBER `a.size` evaluated
while building, so the built circuit has forgotten that the stop of `c` depends on `n`.

* `C05_text_full`     the clause from texts (a `def`, refuted).
* `C05_text_witness`  `let n 2; register r[6]; map a r[0:n]; map c a[1:]; foo c` with `n = 4`: the text parses, the rewritten
                      tree is the parse of the text with `let n 4`, both build, both `fill_in_let`s succeed, both results have
                      a meaning; the filled circuit applies `foo` to ONE qubit `[r[1]]`, the rewritten program to THREE
                      `[r[1], r[2], r[3]]`; the registers `r, a, c` denote `r[0..5], r[0..3], [r[1]]` resp. `…, r[1..3]`.
                      Same on the real code (`/venv/bin/python`, see `harness/extra_c05.py`).
* `C05_text_refuted`  `¬ C05_text_full`.
* `C05_text_partial`  the clause PROVED under the decidable side condition `NoFrozenStop ov sx` (no alias declaration with a
                      defaulted stop over a source that depends on an overridden let) — all configurations, texts, overrides;
                      `C05_text_builder`: there the rewritten tree builds to the re-valued circuit `revalC ov c`.
* `C05_text_example`  non-vacuity: `… map a r[0:n]; map c a[1:n]; foo c` (explicit stop) with `n = 4` satisfies the side
                      condition (the witness does not), everything succeeds, both sides apply `foo` to `[r[1], r[2], r[3]]`.
-/
set_option linter.unusedVariables false
namespace Jaqal.FillIn
open Jaqal Jaqal.Builder Jaqal.Sem

/-- **C05 read from the text.**  `sx` the tree of the text, `rewriteLets ov sx` the tree of the text in which every overridden
let is declared with its overriding value (`Lemmas/LetText.lean`); both build (same configuration), both `fill_in_let`s
succeed (the first WITH the overrides, the second without): then the two results have the same meaning. -/
def C05_text_full : Prop :=
  ∀ (cfg : Config) (txt : String) (ov : List (String × Num)) (sx : Sx) (c c' f f' : Circuit),
    Parser.parseText txt = .ok sx → parseBuild cfg sx = .ok c → parseBuild cfg (rewriteLets ov sx) = .ok c' →
    fillInLet ov c = .ok f → fillInLet [] c' = .ok f' → meaning [] f = meaning [] f'

/-! ### The witness -/

def witTxt : String := "let n 2\nregister r[6]\nmap a r[0:n]\nmap c a[1:]\nfoo c\n"
/-- the same text with the let rewritten -/
def witTxt' : String := "let n 4\nregister r[6]\nmap a r[0:n]\nmap c a[1:]\nfoo c\n"
def witOv : List (String × Num) := [("n", .int 4)]

def fq (l : List Nat) : List FQ := l.map (fun i => ("r", (i : Int)))

/-- the denotations of the registers of a circuit without lets -/
def regDens (c : Circuit) : M (List (List FQ)) := c.registers.mapM (evalReg [] [])

/-- everything said of the witness, as one Boolean the kernel evaluates -/
def witCheck : Bool :=
  match Parser.parseText witTxt, Parser.parseText witTxt' with
  | .ok sx, .ok sx2 =>
    Sx.eqb (rewriteLets witOv sx) sx2 &&
    match parseBuild {} sx, parseBuild {} (rewriteLets witOv sx) with
    | .ok c, .ok c' =>
      match fillInLet witOv c, fillInLet [] c' with
      | .ok f, .ok f' =>
        decide (regDens f = .ok [fq [0, 1, 2, 3, 4, 5], fq [0, 1, 2, 3], fq [1]]) &&
        decide (regDens f' = .ok [fq [0, 1, 2, 3, 4, 5], fq [0, 1, 2, 3], fq [1, 2, 3]]) &&
        match meaning [] f, meaning [] f' with
        | .ok s, .ok s' =>
          decide (s.flat = [("foo", [.reg (fq [1])])]) && decide (s'.flat = [("foo", [.reg (fq [1, 2, 3])])])
        | _, _ => false
      | _, _ => false
    | _, _ => false
  | _, _ => false

theorem witCheck_true : witCheck = true := by decide +kernel

/-- **The witness of `defaulted-stop-frozen`, written out.** -/
theorem C05_text_witness :
    ∃ (sx : Sx) (c c' f f' : Circuit) (s s' : Sem),
      Parser.parseText witTxt = .ok sx ∧ Parser.parseText witTxt' = .ok (rewriteLets witOv sx) ∧
      parseBuild {} sx = .ok c ∧ parseBuild {} (rewriteLets witOv sx) = .ok c' ∧
      fillInLet witOv c = .ok f ∧ fillInLet [] c' = .ok f' ∧
      -- the registers `r`, `a`, `c` of the two results: `c` is one qubit in the first, three in the second
      regDens f = .ok [fq [0, 1, 2, 3, 4, 5], fq [0, 1, 2, 3], fq [1]] ∧
      regDens f' = .ok [fq [0, 1, 2, 3, 4, 5], fq [0, 1, 2, 3], fq [1, 2, 3]] ∧
      -- the meanings: `foo` applied to the register `c`
      meaning [] f = .ok s ∧ meaning [] f' = .ok s' ∧
      s.flat = [("foo", [.reg (fq [1])])] ∧ s'.flat = [("foo", [.reg (fq [1, 2, 3])])] := by
  have h := witCheck_true
  unfold witCheck at h
  cases hp : Parser.parseText witTxt with
  | error e => rw [hp] at h; cases h
  | ok sx =>
    cases hp2 : Parser.parseText witTxt' with
    | error e => rw [hp, hp2] at h; cases h
    | ok sx2 =>
      rw [hp, hp2] at h
      simp only [Bool.and_eq_true] at h
      obtain ⟨he, h⟩ := h
      have he := Sx.eqb_eq _ _ he
      cases hb : parseBuild {} sx with
      | error e => rw [hb] at h; cases h
      | ok c =>
        cases hb' : parseBuild {} (rewriteLets witOv sx) with
        | error e => rw [hb, hb'] at h; cases h
        | ok c' =>
          rw [hb, hb'] at h
          simp only [] at h
          cases hf : fillInLet witOv c with
          | error e => rw [hf] at h; cases h
          | ok f =>
            cases hf' : fillInLet [] c' with
            | error e => rw [hf, hf'] at h; cases h
            | ok f' =>
              rw [hf, hf'] at h
              simp only [Bool.and_eq_true, decide_eq_true_eq] at h
              obtain ⟨⟨hr, hr'⟩, h⟩ := h
              cases hm : meaning [] f with
              | error e => rw [hm] at h; cases h
              | ok s =>
                cases hm' : meaning [] f' with
                | error e => rw [hm, hm'] at h; cases h
                | ok s' =>
                  rw [hm, hm'] at h
                  simp only [Bool.and_eq_true, decide_eq_true_eq] at h
                  exact ⟨sx, c, c', f, f', s, s', rfl, by rw [he], hb, hb', hf, hf', hr, hr', hm, hm', h.1, h.2⟩

/-- **The text-level clause of C05 is false** — in the model, and in the real code (`harness/extra_c05.py`). -/
theorem C05_text_refuted : ¬ C05_text_full := by
  intro hfull
  obtain ⟨sx, c, c', f, f', s, s', hp, _, hb, hb', hf, hf', _, _, hm, hm', hs, hs'⟩ := C05_text_witness
  have h := hfull {} witTxt witOv sx c c' f f' hp hb hb' hf hf'
  rw [hm, hm'] at h
  have e : s = s' := Except.ok.inj h
  rw [e, hs'] at hs
  revert hs
  decide

/-! ### The positive part

**The side condition** `NoFrozenStop ov sx` (`Lemmas/LetTextFinal.lean`; decidable, on the tree of the text): walking the
header, keep the set `dep` of names whose object may depend on an overridden let — the overridden lets themselves, and every
register / alias one of whose components (size, source, index, bound) is in `dep` (`Lemmas/LetTextTop.lean: depStep`); the
condition fails at the first `map c a[k:]` / `map c a[:]` / `map c a[k::s]` (stop not written) whose source `a` is in `dep`
(`frozenAt`).  Sufficient, not necessary: a FUNDAMENTAL register sized by an overridden let is in `dep` although `build_map`
then stores the stop symbolically (the `Constant` itself), so `let n 4; register r[n]; map a r[1:]` is excluded although
harmless; the shapes that really fail have an ALIAS as source (`harness/extra_c05.py: frozen_default_shape`). -/

theorem parseProgram_of {cfg : Config} {txt : String} {sx : Sx} {c : Circuit} (hp : Parser.parseText txt = .ok sx)
    (hb : parseBuild cfg sx = .ok c) : Pipeline.parseProgram cfg txt = .ok c := by
  unfold Pipeline.parseProgram Pipeline.parseSx
  rw [hp]
  exact hb

/-- **the builder half**: under the side condition the circuit built from the rewritten tree is the circuit built from the
tree with the declared values of the overridden lets replaced (`revalC`, `Lemmas/LetTextSem.lean`) — every configuration,
every text, every override dictionary; no bound on sizes or depths.  (`Lemmas/LetTextBuild.lean: stmt_rel`,
`LetTextTop.lean: header_rel`, `LetTextCircuit.lean: stepTail_rel, circuitLoop_rel`, `LetTextFinal.lean: parseBuild_reval`;
the memo table is switched off by `C07_memo_transparent`.) -/
theorem C05_text_builder (cfg : Config) (txt : String) (ov : List (String × Num)) (sx : Sx) (c c' : Circuit)
    (hp : Parser.parseText txt = .ok sx) (hn : NoFrozenStop ov sx = true) (hb : parseBuild cfg sx = .ok c)
    (hb' : parseBuild cfg (rewriteLets ov sx) = .ok c') : c' = revalC ov c :=
  parseBuild_reval ov cfg txt sx c c' hp hn hb hb'

/-- **C05_text_partial — C05 from texts, outside the finding.**  The clause of `C05_text_full` holds under `NoFrozenStop`:
for every configuration, text, override dictionary: if the tree of the text has no alias declaration with a defaulted stop
over a source that depends on an overridden let, both trees build and both `fill_in_let`s succeed, then the filled circuit
means what the program with the lets rewritten means (equal as results: both defined and equal, or both the same error). -/
theorem C05_text_partial (cfg : Config) (txt : String) (ov : List (String × Num)) (sx : Sx) (c c' f f' : Circuit)
    (hp : Parser.parseText txt = .ok sx) (hn : NoFrozenStop ov sx = true) (hb : parseBuild cfg sx = .ok c)
    (hb' : parseBuild cfg (rewriteLets ov sx) = .ok c') (hf : fillInLet ov c = .ok f) (hf' : fillInLet [] c' = .ok f') :
    meaning [] f = meaning [] f' := by
  have hw := (Passes.parsed_legal cfg txt c (parseProgram_of hp hb)).wf2
  have := C05_text_builder cfg txt ov sx c c' hp hn hb hb'
  subst this
  exact text_clause_of_reval ov hw hf hf'

/-- … and the registers: the second circuit's registers are the re-valued registers of the first -/
theorem C05_text_partial_registers (cfg : Config) (txt : String) (ov : List (String × Num)) (sx : Sx) (c c' : Circuit)
    (hp : Parser.parseText txt = .ok sx) (hn : NoFrozenStop ov sx = true) (hb : parseBuild cfg sx = .ok c)
    (hb' : parseBuild cfg (rewriteLets ov sx) = .ok c') : c'.registers = c.registers.map (reval ov) := by
  rw [C05_text_builder cfg txt ov sx c c' hp hn hb hb']
  rfl

/-- without any side condition, for ONE program: whenever the rewritten tree builds to the re-valued circuit (a decidable
fact about the two built circuits), the clause holds -/
theorem C05_text_of_reval (cfg : Config) (txt : String) (ov : List (String × Num)) (sx : Sx) (c f f' : Circuit)
    (hp : Parser.parseText txt = .ok sx) (hb : parseBuild cfg sx = .ok c)
    (hf : fillInLet ov c = .ok f) (hf' : fillInLet [] (revalC ov c) = .ok f') : meaning [] f = meaning [] f' :=
  text_clause_of_reval ov (Passes.parsed_legal cfg txt c (parseProgram_of hp hb)).wf2 hf hf'

/-! ### Non-vacuity: a let-bounded slice with an EXPLICIT stop, overridden -/

def okTxt : String := "let n 2\nregister r[6]\nmap a r[0:n]\nmap c a[1:n]\nfoo c\n"

/-- the side condition holds of `okTxt`, fails of the witness; both runs succeed and apply `foo` to `[r[1], r[2], r[3]]` -/
def okCheck : Bool :=
  match Parser.parseText okTxt, Parser.parseText witTxt with
  | .ok sx, .ok wsx =>
    NoFrozenStop witOv sx && !NoFrozenStop witOv wsx &&
    match parseBuild {} sx, parseBuild {} (rewriteLets witOv sx) with
    | .ok c, .ok c' =>
      match fillInLet witOv c, fillInLet [] c' with
      | .ok f, .ok f' =>
        decide (regDens f = .ok [fq [0, 1, 2, 3, 4, 5], fq [0, 1, 2, 3], fq [1, 2, 3]]) &&
        decide (regDens f' = .ok [fq [0, 1, 2, 3, 4, 5], fq [0, 1, 2, 3], fq [1, 2, 3]]) &&
        match meaning [] f, meaning [] f' with
        | .ok s, .ok s' =>
          decide (s.flat = [("foo", [.reg (fq [1, 2, 3])])]) && decide (s'.flat = [("foo", [.reg (fq [1, 2, 3])])])
        | _, _ => false
      | _, _ => false
    | _, _ => false
  | _, _ => false

theorem C05_text_example : okCheck = true := by decide +kernel

/-- the side condition is sufficient, NOT necessary: `let n 4; register r[n]; map a r[1:]; foo a` with `n = 6` fails it (the
source `r` depends on `n`), yet the stop of `a` is stored as the `Constant` `n` itself (`r.size` of a fundamental register)
and both sides apply `foo` to `[r[1], …, r[5]]` -/
def fundTxt : String := "let n 4\nregister r[n]\nmap a r[1:]\nfoo a\n"

def fundCheck : Bool :=
  match Parser.parseText fundTxt with
  | .ok sx =>
    !NoFrozenStop [("n", .int 6)] sx &&
    match parseBuild {} sx, parseBuild {} (rewriteLets [("n", .int 6)] sx) with
    | .ok c, .ok c' =>
      match fillInLet [("n", .int 6)] c, fillInLet [] c' with
      | .ok f, .ok f' =>
        match meaning [] f, meaning [] f' with
        | .ok s, .ok s' =>
          decide (s.flat = [("foo", [.reg (fq [1, 2, 3, 4, 5])])]) && decide (s'.flat = [("foo", [.reg (fq [1, 2, 3, 4, 5])])])
        | _, _ => false
      | _, _ => false
    | _, _ => false
  | _ => false

theorem C05_text_side_not_necessary : fundCheck = true := by decide +kernel

end Jaqal.FillIn

#print axioms Jaqal.FillIn.C05_text_witness
#print axioms Jaqal.FillIn.C05_text_refuted
#print axioms Jaqal.FillIn.C05_text_builder
#print axioms Jaqal.FillIn.C05_text_partial
#print axioms Jaqal.FillIn.C05_text_partial_registers
#print axioms Jaqal.FillIn.C05_text_of_reval
#print axioms Jaqal.FillIn.C05_text_example
#print axioms Jaqal.FillIn.C05_text_side_not_necessary
