import JaqalProofs.Lemmas.PassTextSubs
import JaqalProofs.Lemmas.PassTextEval1
import JaqalProofs.Lemmas.PassTextEval2
import JaqalProofs.Lemmas.PassTextEval3
/-!
# C10, last clause — the text of a pass result

"… the result of any pass on a parser-produced circuit is again a legal Jaqal circuit: it can be generated as text and
re-parsed to a circuit of the same meaning."  `C10_legal_text_partial` (`Props/C10.lean`) ASSUMES `Generator.Printable c'`
and the whole round trip of `c'`.  This file replaces those two hypotheses, as far as it gets, by proofs.

## Results

* `C10_text_reduces` (layers A + B for ANY circuit, not only parse results): a circuit that is `printable` and `LexSafe`
  is generated, and parsing its text in ANY configuration is building the tree `unbuild c'` in that configuration.  What
  remains of "the text re-parses to the same meaning" is a statement about `Builder.parseBuild` on `unbuild c'`: no lexer,
  no parser.
* `C10_printable_subs`, `C10_namesOK_subs`, `C10_lexsafe_subs`: `expand_subcircuits` keeps `printable` and the names /
  floats half of `LexSafe` (`PassText.NamesOK`; the bounding names `prepare_all`, `measure_all` are identifiers), so with
  `IntsBounded c'` the result is `LexSafe`.  NOTE `Legal` is NOT "exactly the hypothesis C01 needs": it says nothing about
  the nesting of blocks (`okItems`) nor about names, so `printable c` / `NamesOK c` are separate invariants (both hold of
  every parsed circuit: `C01_printable_any`, `PassText.parsed_namesOK`).
* `C10_text_subs_layers`: for a PARSED circuit and `expand_subcircuits`, hypothesis-free up to `IntsBounded c'`: the text is
  generated and `parseProgram cfg' t = parseBuild cfg' (unbuild c')` for every `cfg'`.
* **`C10_text_subs_refuted`, `C10_text_subs_refuted_natives` — the clause is FALSE for `expand_subcircuits`**, in the model
  and in the real code (both texts checked with `/venv/bin/python`; kernel evaluations in `Lemmas/PassTextEval1/2.lean`):
  1. `subcircuit { g }; prepare_all 1` (also `register r[1]; subcircuit { g r[0] }; prepare_all r[0]`), no gate set:
     `prepare_all` is an anonymous gate with one parameter.  The pass inserts `prepare_all` WITHOUT arguments; the generated
     text `{ prepare_all; g; measure_all }; prepare_all 1` is refused by `parse_jaqal_string`
     (`JaqalError: Too many parameters for gate prepare_all`; model: `too-many-parameters`).
  2. `subcircuit { g }` with an injected gate set that does not define `prepare_all` / `measure_all`
     (`inject_pulses={"g": GateDefinition("g", [])}`): the text of the result is refused under the same configuration
     (`JaqalError: No gate prepare_all defined`) — as is the text of EVERY result that had a subcircuit:
     `_choose_bounding_gate` makes a fresh `GateDefinition` that is in no gate set — and accepted without a gate set.
  Hence `C10_text_full` below is stated for sequences WITHOUT `expand_subcircuits`, and `C10_text_subs_full` carries the
  side condition the two counterexamples dictate.
* `C10_text_subs_partial`: `expand_subcircuits` on a parsed circuit with everything but layer C proved.
* `C10_text_partial`: `C10_text_full` for one pass from the two open statements `C10_printable_full`, `C10_layerC_full`.
* `C10_text_example` (non-vacuity, `Lemmas/PassTextEval3.lean`): the example of C01 (lets, alias slice, macro, loop,
  subcircuits) through `run_jaqal_circuit`'s pipeline, through `fill_in_let(n=6) ; fill_in_map` and through
  `expand_macros(preserve_definitions=True)`: the result is printable, `IntsBounded`, and the tree of its text builds to a
  circuit with the same gate applications — evaluated by the kernel.
* `C10_text_of_layerC`: the composition — for a parsed circuit, an applicable sequence of passes, a result that is
  `printable`, `NamesOK` and `IntsBounded`, and GIVEN layer C for the result (hypothesis `hC`, about the builder alone:
  `unbuild c'` builds under `cfg'` to a circuit that means what `c'` means) the text of the result re-parses under `cfg'`
  to a circuit with the canonical meaning `tr π s`.

## What is open (kept as `def … _full : Prop`)

* layer C for pass results (`C10_layerC_full`): `parseBuild cfg' (unbuild c')` succeeds with a circuit of the same meaning.
  `C01_rebuild_exact` and everything under it (`buildNoMemo_rebuild`, `buildNoMemo_reorder`, `loop_rebuild`, `StepOut`)
  is NOT about texts: it is about any program `cs` of pure S-expressions with `GChild e ∧ noBr e` for every child and a
  successful `buildNoMemo cfg (circuit :: cs)`.  But `fill_in_let` / `fill_in_map` hand the builder an S-expression whose
  leaves are embedded objects (`BSx.val`), which `GHeader` / `GTop` / `GStmt` do not describe, so layer C for these two
  passes is NOT an instance; it needs either the `StepOut` induction redone for `.val` leaves or a proof that the embedded
  objects are what the context binds under their names.
* `printable` / `NamesOK` for `expand_macros`, `fill_in_let`, `fill_in_map` (`C10_printable_full`, `C10_namesOK_full`;
  for `fill_in_let` the overrides must be `FloatOK`: an override `inf` is written as `inf` and read back as an identifier).
-/
set_option linter.unusedVariables false
namespace Jaqal.Passes
open Jaqal Jaqal.Sem Jaqal.Builder Jaqal.Pipeline Jaqal.RoundTrip Jaqal.PassText

/-! ## Layers A + B for any circuit -/

/-- **C10_text_reduces.** For every circuit that is printable and `LexSafe` — parse result or not — the generator
succeeds, and parsing the generated text in any configuration is building `unbuild c` in that configuration. -/
theorem C10_text_reduces (c : Circuit) (hp : printable c = true) (hs : LexSafe c) :
    ∃ t, Generator.gen c = .ok t ∧ ∀ cfg : Config, parseProgram cfg t = parseBuild cfg (unbuild c) :=
  text_reduces c hp hs

/-! ## `expand_subcircuits`: layers A and B -/

/-- `expand_subcircuits` keeps a legal printable circuit printable (`hprint` of `C10_legal_text_partial`) -/
theorem C10_printable_subs (c c' : Circuit) (hL : Legal c) (hp : printable c = true) (h : apply .subs c = .ok c') :
    printable c' = true :=
  subs_printable hL hp h

/-- `expand_subcircuits` invents two names, both identifiers, and no float -/
theorem C10_namesOK_subs (c c' : Circuit) (hL : Legal c) (hn : NamesOK c) (h : apply .subs c = .ok c') : NamesOK c' :=
  subs_namesOK hL hn h

/-- … so the result is `LexSafe` as soon as its integers are bounded -/
theorem C10_lexsafe_subs (c c' : Circuit) (hL : Legal c) (hn : NamesOK c) (h : apply .subs c = .ok c')
    (hi : IntsBounded c') : LexSafe c' :=
  lexSafe_of (subs_namesOK hL hn h) hi

/-- **Layers A and B for `expand_subcircuits` on a parsed circuit** (any configuration, no hypothesis but the integer
bound): the text of the result is generated, and re-parsing it in any configuration `cfg'` is building `unbuild c'`. -/
theorem C10_text_subs_layers (cfg : Config) (txt : String) (c c' : Circuit) (hp : parseProgram cfg txt = .ok c)
    (h : apply .subs c = .ok c') (hi : IntsBounded c') :
    printable c' = true ∧ LexSafe c' ∧
    ∃ t, Generator.gen c' = .ok t ∧ ∀ cfg' : Config, parseProgram cfg' t = parseBuild cfg' (unbuild c') := by
  have hL := parsed_legal cfg txt c hp
  have hpr := subs_printable hL (C01.C01_printable_any cfg txt c hp) h
  have hls := C10_lexsafe_subs c c' hL (parsed_namesOK hp) h hi
  exact ⟨hpr, hls, text_reduces c' hpr hls⟩

/-! ## The clause fails for `expand_subcircuits` -/

/-- **The last clause of C10 is false for `expand_subcircuits`** (model; the real code behaves the same:
`JaqalError: Too many parameters for gate prepare_all`).  The text `subcircuit { g }; prepare_all 1` is accepted without a
gate set (`prepare_all` is an anonymous one-parameter gate); `expand_subcircuits` succeeds on its circuit (the sequence
`[expand_subcircuits]` is applicable), the result is `IntsBounded`, its text `{ prepare_all; g; measure_all }; prepare_all 1`
is generated — and `parse_jaqal_string` refuses that text: the inserted `prepare_all` has no argument, the user's has one.
(Same with `register r[1]; subcircuit { g r[0] }; prepare_all r[0]`.) -/
theorem C10_text_subs_refuted :
    ∃ c c' t, parseProgram {} cxText = .ok c ∧ Applicable [] [.subs] c ∧ apply .subs c = .ok c' ∧ IntsBounded c' ∧
      Generator.gen c' = .ok t ∧ parseProgram {} t = .error (.jaqal "too-many-parameters") := by
  have h0 := cxText_refused
  have h1 := cxText_bounded
  cases hp : parseProgram {} cxText with
  | error e => rw [hp] at h0; cases h0
  | ok c =>
    rw [hp] at h0 h1
    simp only [] at h0 h1
    cases h : apply .subs c with
    | error e => rw [h] at h0; cases h0
    | ok c' =>
      rw [h] at h0 h1
      simp only [decide_eq_true_eq] at h0 h1
      obtain ⟨_, _, t, hg, hre⟩ := C10_text_subs_layers {} cxText c c' hp h h1
      refine ⟨c, c', t, rfl, ⟨parsed_legal {} cxText c hp, trivial, fun _ _ => trivial⟩, h, h1, hg, ?_⟩
      rw [hre {}]
      cases hb' : parseBuild {} (unbuild c') with
      | ok x => rw [hb'] at h0; cases h0
      | error e =>
        rw [hb'] at h0
        cases e <;> simp only [Bool.false_eq_true] at h0
        rename_i r
        have : r = "too-many-parameters" := by simpa using h0
        rw [this]

/-- **… and with an injected gate set that does not define the bounding gates the text of the result is refused under the
configuration the circuit was parsed with** (real code: `JaqalError: No gate prepare_all defined`), for the simplest program
with a subcircuit (`subcircuit { g }`, `inject_pulses = {g()}`): `_choose_bounding_gate` makes a fresh `GateDefinition`
that is in no gate set.  Read WITHOUT a gate set (`cfg' = {}`) the same text is accepted.  So for `expand_subcircuits` the
configuration of the re-parse cannot in general be the original one. -/
theorem C10_text_subs_refuted_natives :
    ∃ c c' t, parseProgram cxNatives cxText2 = .ok c ∧ Applicable [] [.subs] c ∧ apply .subs c = .ok c' ∧ IntsBounded c' ∧
      Generator.gen c' = .ok t ∧ (∃ e, parseProgram cxNatives t = .error e) ∧ ∃ c2, parseProgram {} t = .ok c2 := by
  have h0 := cxText2_refused
  have h1 := cxText2_bounded
  have h2 := cxText2_plain
  cases hp : parseProgram cxNatives cxText2 with
  | error e => rw [hp] at h0; cases h0
  | ok c =>
    rw [hp] at h0 h1 h2
    simp only [] at h0 h1 h2
    cases h : apply .subs c with
    | error e => rw [h] at h0; cases h0
    | ok c' =>
      rw [h] at h0 h1 h2
      simp only [decide_eq_true_eq] at h0 h1 h2
      obtain ⟨_, _, t, hg, hre⟩ := C10_text_subs_layers cxNatives cxText2 c c' hp h h1
      refine ⟨c, c', t, rfl, ⟨parsed_legal _ cxText2 c hp, trivial, fun _ _ => trivial⟩, h, h1, hg, ?_, ?_⟩
      · rw [hre cxNatives]
        cases hb' : parseBuild cxNatives (unbuild c') with
        | ok x => rw [hb'] at h0; cases h0
        | error e => exact ⟨e, rfl⟩
      · rw [hre {}]
        cases hb' : parseBuild {} (unbuild c') with
        | ok x => exact ⟨x, rfl⟩
        | error e => rw [hb'] at h2; simp [Except.toOption] at h2

/-! ## The composition -/

/-- layer C for one circuit, weak form: the generator's tree builds, under `cfg'`, to a circuit of the same meaning -/
def LayerC (cfg' : Config) (ρ : Env) (c' : Circuit) : Prop :=
  ∃ c2, parseBuild cfg' (unbuild c') = .ok c2 ∧ meaning ρ c2 = meaning ρ c'

/-- **C10_text_of_layerC.** The text of the result of an applicable pass sequence: with `printable`, `NamesOK` and
`IntsBounded` of the result, and layer C (a statement about the builder alone) as a hypothesis, the generated text
re-parses under `cfg'` to a circuit with the canonical meaning.  Compared with `C10_legal_text_partial` the lexer and the
parser are gone from the hypotheses. -/
theorem C10_text_of_layerC (cfg' : Config) (ρ : Env) (π : List Pass) (c c' : Circuit) (s : Sem)
    (happ : Applicable ρ π c) (ha : applySeq π c = .ok c') (hm : meaning (envAfter ρ π) c = .ok s)
    (hprint : printable c' = true) (hn : NamesOK c') (hi : IntsBounded c') (hC : LayerC cfg' ρ c') :
    ∃ t c2, Generator.gen c' = .ok t ∧ parseProgram cfg' t = .ok c2 ∧ meaning ρ c2 = .ok (tr π s) := by
  obtain ⟨t, hg, hre⟩ := text_reduces c' hprint (lexSafe_of hn hi)
  obtain ⟨c2, hb, hmm⟩ := hC
  exact ⟨t, c2, hg, by rw [hre cfg', hb], by rw [hmm]; exact C10_canonical ρ π c c' s happ ha hm⟩


/-! ## What stays open -/

/-- every float of every override dictionary of the sequence can be read back by the lexer (an override `inf` / `1e999`
is written `inf` and read back as an identifier) -/
def OvOK (π : List Pass) : Prop :=
  ∀ ov, Pass.let_ ov ∈ π → ∀ p ∈ ov, match p.2 with
    | .flt d => FloatOK d
    | .int _ => True

/-- layers A and B for the other three passes: each keeps `printable` and (for `fill_in_let`: given `OvOK`) `NamesOK`.
Proved for `expand_subcircuits` (`C10_printable_subs`, `C10_namesOK_subs`); OPEN for `expand_macros` (induction over
`replStmt` / `expStmt` as in `Lemmas/PassesLegalMacros.lean`: `okItems par (spliceInto par s r) = okItems par (s :: r)`, a
substituted count passes `badCount`, hence `okRef`; a re-indexed qubit `getItem s i` is `isItem`, for which the scoping of
macro parameters `PreS` of `Lemmas/ExpandFlat.lean` is needed: an unbound register parameter indexed by a float would be
named `a[0.5]`) and for `fill_in_let` / `fill_in_map` (through `FillIn.Rebuilt` / `Rel`: the statement tree is kept up to
`par' = par && !sub`; the registers are `mkRegister` / `mkSliceN` / `mkQubit` of numbers). -/
def C10_printable_full : Prop :=
  ∀ (p : Pass) (c c' : Circuit), Legal c → printable c = true → NamesOK c → OvOK [p] → apply p c = .ok c' →
    printable c' = true ∧ NamesOK c'

/-- layer C for pass results, sequences without `expand_subcircuits`, same configuration: OPEN for all passes.
(`C01_rebuild_exact` is about programs of PURE S-expressions — `GChild e ∧ noBr e` — not about texts, but `fill_in_let` /
`fill_in_map` hand the builder embedded objects (`BSx.val`), so their results are not instances; `expand_macros` builds its
result directly.)  Evaluated on the example of C01 (`C10_text_example`) for all four passes and two pipelines. -/
def C10_layerC_full : Prop :=
  ∀ (cfg : Config) (txt : String) (ρ : Env) (π : List Pass) (c c' : Circuit),
    parseProgram cfg txt = .ok c → Applicable ρ π c → hasSubs π = false → applySeq π c = .ok c' → LayerC cfg ρ c'

/-- **the clause, full strength**, for sequences without `expand_subcircuits` (for which it is false as it stands:
`C10_text_subs_refuted`) -/
def C10_text_full : Prop :=
  ∀ (cfg : Config) (txt : String) (ρ : Env) (π : List Pass) (c c' : Circuit) (s : Sem),
    parseProgram cfg txt = .ok c → Applicable ρ π c → hasSubs π = false → OvOK π → applySeq π c = .ok c' →
    meaning (envAfter ρ π) c = .ok s → IntsBounded c' →
    ∃ t c2, Generator.gen c' = .ok t ∧ parseProgram cfg t = .ok c2 ∧ meaning ρ c2 = .ok (tr π s)

/-- no gate statement named like a bounding gate carries an argument -/
def BoundingUnused (c : Circuit) : Prop :=
  ∀ s ∈ ExpandSubcircuits.flatG c.body ++ c.macros.flatMap (fun m => ExpandSubcircuits.flatG m.body),
    match s with
    | .gate n _ a => (n = "prepare_all" ∨ n = "measure_all") → a = []
    | _ => True

/-- … and with `expand_subcircuits` in the sequence: the side condition the two counterexamples dictate — both bounding
gates are native gates of the circuit, or there is no gate set at all (anonymous gates allowed) and the program does not
use the two names with arguments.  OPEN (believed true; not proved, not refuted by the differential test). -/
def C10_text_subs_full : Prop :=
  ∀ (cfg : Config) (txt : String) (ρ : Env) (π : List Pass) (c c' : Circuit) (s : Sem),
    parseProgram cfg txt = .ok c → Applicable ρ π c → OvOK π → applySeq π c = .ok c' →
    (((ExpandSubcircuits.findNative c "prepare_all").isSome ∧ (ExpandSubcircuits.findNative c "measure_all").isSome) ∨
      (cfg.natives = none ∧ cfg.autoload = false ∧ BoundingUnused c)) →
    meaning (envAfter ρ π) c = .ok s → IntsBounded c' →
    ∃ t c2, Generator.gen c' = .ok t ∧ parseProgram cfg t = .ok c2 ∧ meaning ρ c2 = .ok (tr π s)

/-- what is proved of `C10_text_full`: from layers A, B (`C10_printable_full`) and C (`C10_layerC_full`) — for a single pass,
where `C10_printable_full` applies directly (for sequences it is iterated along `Applicable`) -/
theorem C10_text_partial (hAB : C10_printable_full) (hC : C10_layerC_full) (cfg : Config) (txt : String) (ρ : Env) (p : Pass)
    (c c' : Circuit) (s : Sem) (hp : parseProgram cfg txt = .ok c) (happ : Applicable ρ [p] c) (hns : hasSubs [p] = false)
    (hov : OvOK [p]) (ha : apply p c = .ok c') (hm : meaning (envAfter ρ [p]) c = .ok s) (hi : IntsBounded c') :
    ∃ t c2, Generator.gen c' = .ok t ∧ parseProgram cfg t = .ok c2 ∧ meaning ρ c2 = .ok (tr [p] s) := by
  have hseq : applySeq [p] c = .ok c' := by
    simp only [applySeq, ha]; rfl
  obtain ⟨hpr, hn⟩ := hAB p c c' (parsed_legal cfg txt c hp) (C01.C01_printable_any cfg txt c hp) (parsed_namesOK hp) hov ha
  exact C10_text_of_layerC cfg ρ [p] c c' s happ hseq hm hpr hn hi (hC cfg txt ρ [p] c c' hp happ hns hseq)

/-- **`expand_subcircuits` on a parsed circuit, everything but layer C proved**: given only that the tree of the result
builds under `cfg'` to a circuit of the same meaning, the text of the result re-parses under `cfg'` to the spelled-out
meaning of the original. -/
theorem C10_text_subs_partial (cfg cfg' : Config) (txt : String) (ρ : Env) (c c' : Circuit) (s : Sem)
    (hp : parseProgram cfg txt = .ok c) (ha : apply .subs c = .ok c') (hm : meaning ρ c = .ok s) (hi : IntsBounded c')
    (hC : LayerC cfg' ρ c') :
    ∃ t c2, Generator.gen c' = .ok t ∧ parseProgram cfg' t = .ok c2 ∧ meaning ρ c2 = .ok (spellN s) := by
  have hL := parsed_legal cfg txt c hp
  have hseq : applySeq [.subs] c = .ok c' := by
    simp only [applySeq, ha]; rfl
  exact C10_text_of_layerC cfg' ρ [.subs] c c' s ⟨hL, trivial, fun _ _ => trivial⟩ hseq hm
    (subs_printable hL (C01.C01_printable_any cfg txt c hp) ha) (subs_namesOK hL (parsed_namesOK hp) ha) hi hC

/-! ## Non-vacuity -/

/-- the example of C01 (`C01.exSx`: lets of both kinds, a let-sized register, whole / index / slice aliases, a macro, nested
blocks, a loop, subcircuits with and without a count) through three pass sequences: the result is printable and
`IntsBounded` (so, being `NamesOK`-free of new names, layers A and B apply) and layer C holds up to `Sem.flat`:
`unbuild c'` builds to a circuit with the same gate applications in the same order.  (The hypotheses of
`C10_text_subs_layers` — a parsed text, a successful pass, a bounded result — are exhibited by `C10_text_subs_refuted`.) -/
theorem C10_text_example :
    textCheck [.subs, .let_ [], .macros false] C01.exC = true ∧
    textCheck [.let_ [("n", .int 6)], .map] C01.exC = true ∧
    textCheck [.macros true] C01.exC = true :=
  ⟨exC_text_run, exC_text_let_map, exC_text_macros⟩

end Jaqal.Passes

#print axioms Jaqal.Passes.C10_text_reduces
#print axioms Jaqal.Passes.C10_printable_subs
#print axioms Jaqal.Passes.C10_namesOK_subs
#print axioms Jaqal.Passes.C10_lexsafe_subs
#print axioms Jaqal.Passes.C10_text_subs_layers
#print axioms Jaqal.Passes.C10_text_subs_refuted
#print axioms Jaqal.Passes.C10_text_subs_refuted_natives
#print axioms Jaqal.Passes.C10_text_of_layerC
#print axioms Jaqal.Passes.C10_text_partial
#print axioms Jaqal.Passes.C10_text_subs_partial
#print axioms Jaqal.Passes.C10_text_example
