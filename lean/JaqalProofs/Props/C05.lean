import JaqalProofs.Lemmas.FillInSem
import JaqalProofs.Props.C14
/-!
# C05 — let substitution with overrides

`fillInLet ov c` (`JaqalModel/Model/FillIn.lean`) = `LetFiller` + `RegisterVisitor` + `Builder.build`.

* `C05_meaning` — the result, evaluated with NO environment, means what the original means under the overriding values
  (`normOv ov`: an integral float override counts as the integer, as in a `let` line), macro calls included.
* `C05_no_consts` — no gate argument, loop count, subcircuit count (body and macros), qubit index, register size or alias
  bound of the result is a constant.
* `C05_shadow` — a macro parameter is returned as it is, whatever the override dictionary says about its name.
* `C05_qubit_name` — a declared single-qubit alias and a qubit with a non-constant index keep their name, the anonymous
  `r[n]` is renamed `r[<value>]`; every qubit is rebuilt on the visited register.
* `C05_frame` — block kinds, subcircuit flags, the gate / loop skeleton, gate names, macro names and parameter names,
  constants, native gates and usepulses are preserved.
* `C05_revalidate` — every value of the result satisfies `ValOK` (C14): indices and slices are re-checked against the
  NEW sizes; `C05_shrink_rejected`: an override that shrinks a register below a used index is rejected.
* `C05_idempotent_val` — every visited value is a fixed point of any later visit; the circuit-level statement is kept as
  `def C05_idempotent_full`, proved as `C05_idempotent` in `Props/C10.lean` (via `Lemmas/PassesIdem.lean`).
-/
namespace Jaqal.FillIn
open Jaqal Jaqal.Builder Jaqal.Sem

/-! ### The rebuild -/

theorem letVal_regLike {ov : List (String × Num)} {rv : Bool} {v v' : Val} (hv : isRegLike v = true)
    (h : letVal ov rv v = .ok v') : isRegLike v' = true := by
  cases v <;> simp [isRegLike] at hv <;> simp only [letVal] at h
  · obtain ⟨nf, _, h⟩ := bind_ok h
    split at h
    · obtain ⟨ni, _, h⟩ := bind_ok h
      obtain ⟨_, hq⟩ := constIndexQubit_mk h
      rw [mkQubit_eq hq]; rfl
    · rw [mkQubit_eq h]; rfl
  · split at h
    · obtain ⟨ns, _, h⟩ := bind_ok h
      rw [mkRegister_eq h]; rfl
    · cases h; rfl
  · obtain ⟨nf, _, h⟩ := bind_ok h
    cases h; rfl
  · obtain ⟨nf, _, h⟩ := bind_ok h
    obtain ⟨a', _, h⟩ := bind_ok h
    obtain ⟨b', _, h⟩ := bind_ok h
    obtain ⟨s', _, h⟩ := bind_ok h
    rw [(mkSliceN_eq h).1]; rfl

/-- what `fillInLet` returns: the rebuild of the visited registers, macros and statements -/
theorem fillInLet_rebuilt {ov : List (String × Num)} {c c' : Circuit} (hw : WellFormed c) (h : fillInLet ov c = .ok c') :
    ∃ bs regs, c.body = .block false false (.int 1) bs ∧ c.registers.mapM (letVal ov true) = .ok regs ∧
      Rebuilt (letVal ov false) (fun _ => letVal ov false) (letVal ov false) c regs bs c' := by
  obtain ⟨bs, hbs⟩ := hw.body
  unfold fillInLet letSx at h
  obtain ⟨sx, hsx, h⟩ := bind_ok h
  obtain ⟨body, hbody, hsx⟩ := bind_ok hsx
  obtain ⟨stmts, hstmts, hsx⟩ := bind_ok hsx
  obtain ⟨regs, hregs, hsx⟩ := bind_ok hsx
  obtain ⟨macros, hmacros, hsx⟩ := bind_ok hsx
  simp only [pure, Except.pure] at hsx
  cases hsx
  rw [hbs] at hbody
  simp only [letStmt, visitStmt, Bool.false_eq_true, if_false] at hbody
  obtain ⟨es, hes, hbody⟩ := bind_ok hbody
  simp only [pure, Except.pure] at hbody
  cases hbody
  simp only [tailOf, pure, Except.pure] at hstmts
  cases hstmts
  refine ⟨bs, regs, hbs, hregs, ?_⟩
  exact build_circuitSx (F := letVal ov false) (Fm := fun _ => letVal ov false) (G := letVal ov false) hmacros hes hw.consts
    (mapM_all (fun a b ha hab => letVal_regLike ha hab) hregs hw.regs) h

/-! ### Meaning -/

theorem C05_meaning (ov : List (String × Num)) (c c' : Circuit) (hw : WellFormed c) (h : fillInLet ov c = .ok c') :
    meaning [] c' = meaning (normOv ov) c := by
  obtain ⟨bs, regs, hbs, _, hr⟩ := fillInLet_rebuilt hw h
  have hB : BlocksOKList bs := by
    have := hw.blocks
    rw [hbs] at this
    simp only [BlocksOK] at this
    exact this.2.2
  exact Rebuilt_meaning (P := fun _ => True)
    (fun v v' b _ hf => ⟨(letVal_sem v false v' hf b).2.2.2, (letVal_sem v false v' hf b).1⟩)
    (fun v v' b _ hf => ⟨(letVal_sem v false v' hf b).1, fun hn => letVal_none (hn ▸ hf)⟩)
    (fun _ v v' b _ hf => ⟨(letVal_sem v false v' hf b).2.2.2, (letVal_sem v false v' hf b).1⟩)
    hr hbs hB (allValsList_true bs) (fun m hm => ⟨hw.macros m hm, allVals_true m.body⟩)

/-! ### No constant is left -/

/-- no qubit index, register size or alias bound inside the value is a constant, nor is the value itself -/
def noConst : Val → Bool
  | .const _ _ => false
  | .qubit _ src idx => noConst src && !isConst idx
  | .regF _ size => !isConst size
  | .regA _ src => noConst src
  | .regS _ src a b s => noConst src && !isConst a && !isConst b && !isConst s
  | _ => true

theorem noConst_not_isConst {v : Val} (h : noConst v = true) : isConst v = false := by
  cases v <;> first | rfl | simp [noConst] at h

theorem resolveConstant_noConst {ov : List (String × Num)} {v v' : Val} (h : resolveConstant ov v = .ok v') :
    noConst v' = true := by
  obtain ⟨_, d, _, hcase⟩ := resolveConstant_num h
  rcases hcase with ⟨x, _, rfl⟩ | ⟨_, rfl, hd⟩
  · cases hx : Num.asInteger x <;> rfl
  · cases v' <;> first | rfl | simp [Val.isNum] at hd

theorem letVal_noConst {ov : List (String × Num)} : ∀ (v : Val) (rv : Bool) (v' : Val), letVal ov rv v = .ok v' →
    noConst v' = true := by
  intro v
  induction v with
  | const n d => intro rv v' h; exact resolveConstant_noConst (v := .const n d) h
  | qubit n src idx ihs _ =>
    intro rv v' h
    simp only [letVal] at h
    obtain ⟨nf, hnf, h⟩ := bind_ok h
    have h1 := ihs rv nf hnf
    split at h
    · obtain ⟨ni, hni, h⟩ := bind_ok h
      have h2 := noConst_not_isConst (resolveConstant_noConst hni)
      obtain ⟨_, hq⟩ := constIndexQubit_mk h
      rw [mkQubit_eq hq]; simp [noConst, h1, h2]
    · rename_i hc
      rw [mkQubit_eq h]; simp [noConst, h1, hc]
  | regF n size _ =>
    intro rv v' h
    simp only [letVal] at h
    split at h
    · obtain ⟨ns, hns, h⟩ := bind_ok h
      rw [mkRegister_eq h]
      simp [noConst, noConst_not_isConst (resolveConstant_noConst hns)]
    · rename_i hc
      cases h
      simp [noConst, hc]
  | regA n src ih =>
    intro rv v' h
    simp only [letVal] at h
    obtain ⟨nf, hnf, h⟩ := bind_ok h
    cases h
    simpa [noConst] using ih rv nf hnf
  | regS n src a b s ihs iha ihb ihst =>
    intro rv v' h
    simp only [letVal] at h
    obtain ⟨nf, hnf, h⟩ := bind_ok h
    obtain ⟨a', ha', h⟩ := bind_ok h
    obtain ⟨b', hb', h⟩ := bind_ok h
    obtain ⟨s', hs', h⟩ := bind_ok h
    rw [(mkSliceN_eq h).1]
    simp [noConst, ihs rv nf hnf, noConst_not_isConst (iha rv a' ha'), noConst_not_isConst (ihb rv b' hb'),
      noConst_not_isConst (ihst rv s' hs')]
  | int _ => intro rv v' h; cases h; rfl
  | flt _ => intro rv v' h; cases h; rfl
  | param _ _ => intro rv v' h; cases h; rfl
  | none => intro rv v' h; cases h; rfl
  | str _ => intro rv v' h; cases h; rfl

theorem noConst_normCount {v : Val} (h : noConst v = true) : noConst (normCount v) = true := by
  cases v <;> exact h

/-- **C05_no_consts**: no gate argument, loop count or subcircuit count of the body or of a macro body, and no register
of the result, is or contains (as an index, a size, a slice bound, along its alias chain) a constant. -/
theorem C05_no_consts (ov : List (String × Num)) (c c' : Circuit) (hw : WellFormed c) (h : fillInLet ov c = .ok c') :
    AllVals (fun v => noConst v = true) c'.body ∧ (∀ m ∈ c'.macros, AllVals (fun v => noConst v = true) m.body) ∧
      ∀ v ∈ c'.registers, noConst v = true := by
  obtain ⟨bs, regs, hbs, hregs, hr⟩ := fillInLet_rebuilt hw h
  have hF : ∀ v v', True → letVal ov false v = .ok v' → noConst v' = true := fun v v' _ hv => letVal_noConst v false v' hv
  have hG : ∀ v v', True → letVal ov false v = .ok v' → noConst (normCount v') = true :=
    fun v v' _ hv => noConst_normCount (hF v v' trivial hv)
  refine ⟨?_, ?_, ?_⟩
  · obtain ⟨ss, hc', hrel⟩ := hr.body
    rw [hc']
    simp only [AllVals]
    exact ⟨fun hx => (by cases hx), Rel_outs hF hG bs ss hrel (allValsList_true bs)⟩
  · intro m' hm'
    obtain ⟨m, _, hmm⟩ := forall₂_right hr.macros m' hm'
    exact Rel_out hF hG _ _ hmm.2.2 (allVals_true _)
  · rw [hr.registers]
    exact mapM_all (P := fun _ => True) (fun a b _ hab => letVal_noConst a true b hab) hregs (fun _ _ => trivial)

/-! ### Shadowing -/

/-- a macro parameter is left alone even when the override dictionary (or a `let`) uses its name -/
theorem C05_shadow (ov : List (String × Num)) (rv : Bool) (p : String) (k : Kind) :
    letVal ov rv (.param p k) = .ok (.param p k) := rfl

/-- in the rebuilt gate statement every argument that was a parameter is that parameter -/
theorem C05_shadow_gate (ov : List (String × Num)) {G : Val → M Val} {n n' : String} {gd gd' : GateDef}
    {args args' : List (String × Val)} (h : Rel (letVal ov false) G (.gate n gd args) (.gate n' gd' args')) :
    List.Forall₂ (fun a a' => ∀ p k, a.2 = .param p k → a'.2 = .param p k) args args' := by
  simp only [Rel] at h
  refine forall₂_imp ?_ h.2
  intro a a' hab p k hp
  rw [hp] at hab
  exact (Except.ok.inj hab).symm

/-- a qubit of a parameter register indexed by a parameter keeps both, whatever their names -/
theorem C05_shadow_qubit (ov : List (String × Num)) (rv : Bool) (nm p i : String) (k k' : Kind) (v' : Val)
    (h : letVal ov rv (.qubit nm (.param p k) (.param i k')) = .ok v') : v' = .qubit nm (.param p k) (.param i k') := by
  simp only [letVal, isConst, Bool.false_eq_true, if_false, bind, Except.bind, pure, Except.pure] at h
  exact mkQubit_eq h

/-! ### Qubit names -/

/-- `make_item_name(qubit.alias_from, qubit.alias_index)` -/
def itemNameOf (src idx : Val) : Option String := (src.name?).bind (fun an => itemName an idx)

/-- **C05_qubit_name**: the rebuilt qubit is `NamedQubit(nm, visited register, value of the index)`; a qubit whose index is
not a constant, and a declared single-qubit alias (`map m r[n]`: its name is not `r[n]`), keep their name; the anonymous
`r[n]` is renamed after the visited register and the value of the index (`r[2]`). -/
theorem C05_qubit_name (ov : List (String × Num)) (name : String) (src idx v' : Val)
    (h : letVal ov false (.qubit name src idx) = .ok v') :
    ∃ nm nf ni, v' = .qubit nm nf ni ∧ letVal ov false src = .ok nf ∧
      ((isConst idx = false ∨ itemNameOf src idx ≠ some name) → nm = name) ∧
      (isConst idx = true → itemNameOf src idx = some name → ∃ an, nf.name? = some an ∧ itemName an ni = some nm) := by
  simp only [letVal] at h
  obtain ⟨nf, hnf, h⟩ := bind_ok h
  split at h
  · rename_i hc
    obtain ⟨ni, _, h⟩ := bind_ok h
    simp only [constIndexQubit, Bool.false_eq_true, if_false] at h
    cases hn : itemNameOf src idx with
    | none => simp only [itemNameOf] at hn; simp [hn, throw_eq] at h
    | some nm0 =>
      simp only [itemNameOf] at hn
      simp only [hn] at h
      by_cases hne : (name != nm0) = true
      · simp only [hne, if_true] at h
        refine ⟨name, nf, ni, mkQubit_eq h, hnf, fun _ => rfl, ?_⟩
        intro _ he
        simp only [Option.some.injEq] at he
        subst he
        simp at hne
      · simp only [hne, Bool.false_eq_true, if_false] at h
        have hname : nm0 = name := (by simpa using hne : name = nm0).symm
        unfold FillIn.getItem at h
        split at h
        · simp [throw_eq] at h
        · split at h
          · simp [throw_eq] at h
          · rename_i an han
            split at h
            · rename_i n' hn'
              refine ⟨n', nf, ni, mkQubit_eq h, hnf, ?_, fun _ _ => ⟨an, han, hn'⟩⟩
              intro hcase
              rcases hcase with hcase | hcase
              · rw [hc] at hcase; cases hcase
              · exact absurd (by simp [hname]) hcase
            · obtain ⟨_, _, h⟩ := bind_ok h
              simp [throw_eq] at h
  · rename_i hc
    refine ⟨name, nf, idx, mkQubit_eq h, hnf, fun _ => rfl, ?_⟩
    intro hc'
    exact absurd hc' hc

/-! ### Frame -/

/-- what the pass is not responsible for in a statement: block kinds, subcircuit flags, the loop / gate skeleton, gate
names and arities -/
inductive Skel where
  | gate (name : String) (argc : Nat)
  | block (par sub : Bool) (body : List Skel)
  | loop (body : Skel)

mutual
def skel : Stmt → Skel
  | .gate n _ args => .gate n args.length
  | .block par sub _ body => .block par sub (skels body)
  | .loop _ b => .loop (skel b)
def skels : List Stmt → List Skel
  | [] => []
  | s :: ss => skel s :: skels ss
end

theorem forall₂_length {α β : Type} {R : α → β → Prop} {l : List α} {l' : List β} (h : List.Forall₂ R l l') :
    l'.length = l.length := by
  induction h with
  | nil => rfl
  | cons _ _ ih => simp [ih]

mutual
theorem Rel_skel {F G : Val → M Val} : ∀ (s s' : Stmt), Rel F G s s' → BlocksOK s → skel s' = skel s
  | .gate n gd args, .gate n' gd' args', h, _ => by
    simp only [Rel] at h
    simp only [skel, h.1, forall₂_length h.2]
  | .block par sub it body, .block par' sub' it' body', h, hB => by
    simp only [Rel] at h
    obtain ⟨rfl, rfl, _, hbody⟩ := h
    simp only [BlocksOK] at hB
    rw [skel, skel, Rel_skels body body' hbody hB.2.2]
    cases sub' with
    | false => cases par <;> rfl
    | true => have := (hB.2.1 rfl).1; subst this; rfl
  | .loop c b, .loop c' b', h, hB => by
    simp only [Rel] at h
    simp only [BlocksOK] at hB
    simp only [skel, Rel_skel b b' h.2 hB]
  | .gate _ _ _, .block _ _ _ _, h, _ | .gate _ _ _, .loop _ _, h, _
  | .block _ _ _ _, .gate _ _ _, h, _ | .block _ _ _ _, .loop _ _, h, _
  | .loop _ _, .gate _ _ _, h, _ | .loop _ _, .block _ _ _ _, h, _ => by simp [Rel] at h
theorem Rel_skels {F G : Val → M Val} : ∀ (l l' : List Stmt), RelList F G l l' → BlocksOKList l → skels l' = skels l
  | [], [], _, _ => rfl
  | s :: ss, s' :: ss', h, hB => by
    simp only [RelList] at h
    simp only [BlocksOKList] at hB
    simp only [skels, Rel_skel s s' h.1 hB.1, Rel_skels ss ss' h.2 hB.2]
  | [], _ :: _, h, _ | _ :: _, [], h, _ => by simp [RelList] at h
end

theorem letVal_name {ov : List (String × Num)} {v v' : Val} (hv : isRegLike v = true) (h : letVal ov true v = .ok v') :
    v'.name? = v.name? := by
  cases v <;> simp [isRegLike] at hv <;> simp only [letVal] at h
  · obtain ⟨nf, _, h⟩ := bind_ok h
    split at h
    · obtain ⟨ni, _, h⟩ := bind_ok h
      simp only [constIndexQubit, if_true] at h
      rw [mkQubit_eq h]; rfl
    · rw [mkQubit_eq h]; rfl
  · split at h
    · obtain ⟨ns, _, h⟩ := bind_ok h
      rw [mkRegister_eq h]; rfl
    · cases h; rfl
  · obtain ⟨nf, _, h⟩ := bind_ok h
    cases h; rfl
  · obtain ⟨nf, _, h⟩ := bind_ok h
    obtain ⟨a', _, h⟩ := bind_ok h
    obtain ⟨b', _, h⟩ := bind_ok h
    obtain ⟨s', _, h⟩ := bind_ok h
    rw [(mkSliceN_eq h).1]; rfl

theorem mapM_map_eq {α β γ : Type} {f : α → M β} {g : α → γ} {g' : β → γ} (hf : ∀ a b, f a = .ok b → g' b = g a) :
    ∀ {l : List α} {l' : List β}, l.mapM f = .ok l' → l'.map g' = l.map g := by
  intro l
  induction l with
  | nil => intro l' h; simp only [List.mapM_nil, pure, Except.pure] at h; cases h; rfl
  | cons a l ih =>
    intro l' h
    simp only [List.mapM_cons] at h
    obtain ⟨b, hb, h⟩ := bind_ok h
    obtain ⟨bs, hbs, h⟩ := bind_ok h
    cases h
    simp [hf a b hb, ih hbs]

theorem macros_frame {Fm : Macro → Val → M Val} {G : Val → M Val} : ∀ {ms ms' : List Macro},
    List.Forall₂ (fun m m' => MacroRel (Fm m) G m m') ms ms' →
    (∀ m ∈ ms, BlocksOK m.body) →
    List.Forall₂ (fun m m' => m'.name = m.name ∧ m'.params.map (·.1) = m.params.map (·.1) ∧ skel m'.body = skel m.body)
      ms ms' := by
  intro ms ms' h
  induction h with
  | nil => intro _; exact List.Forall₂.nil
  | @cons m m' ms ms' hm _ ih =>
    intro hall
    refine List.Forall₂.cons ⟨hm.1, ?_, Rel_skel _ _ hm.2.2 (hall m (by simp))⟩ (ih (fun x hx => hall x (by simp [hx])))
    rw [hm.2.1, List.map_map]; rfl

/-- **C05_frame**: everything the pass is not responsible for is preserved. -/
theorem C05_frame (ov : List (String × Num)) (c c' : Circuit) (hw : WellFormed c) (h : fillInLet ov c = .ok c') :
    c'.usepulses = c.usepulses ∧ c'.constants = c.constants ∧ skel c'.body = skel c.body ∧
    List.Forall₂ (fun m m' => m'.name = m.name ∧ m'.params.map (·.1) = m.params.map (·.1) ∧ skel m'.body = skel m.body)
      c.macros c'.macros ∧
    c'.registers.map Val.name? = c.registers.map Val.name? ∧
    ((c.natives = [] ∧ c'.natives = []) ∨ (c.natives ≠ [] ∧ ∃ d, normNatives c.natives = .ok d ∧ c'.natives = d.map (·.2))) := by
  obtain ⟨bs, regs, hbs, hregs, hr⟩ := fillInLet_rebuilt hw h
  have hB := hw.blocks
  rw [hbs] at hB
  simp only [BlocksOK] at hB
  refine ⟨hr.usepulses, hr.constants, ?_, ?_, ?_, hr.natives⟩
  · obtain ⟨ss, hc', hrel⟩ := hr.body
    rw [hc', hbs]
    simp only [skel, Rel_skels bs ss hrel hB.2.2]
  · exact macros_frame hr.macros hw.macros
  · rw [hr.registers]
    have : ∀ {l : List Val} {l' : List Val}, l.mapM (letVal ov true) = .ok l' → (∀ v ∈ l, isRegLike v = true) →
        l'.map Val.name? = l.map Val.name? := by
      intro l
      induction l with
      | nil => intro l' h _; simp only [List.mapM_nil, pure, Except.pure] at h; cases h; rfl
      | cons a l ih =>
        intro l' h hall
        simp only [List.mapM_cons] at h
        obtain ⟨b, hb, h⟩ := bind_ok h
        obtain ⟨bs, hbs, h⟩ := bind_ok h
        cases h
        simp [letVal_name (hall a (by simp)) hb, ih hbs (fun v hv => hall v (by simp [hv]))]
    exact this hregs hw.regs

/-! ### Re-validation -/

theorem letVal_class {ov : List (String × Num)} {rv : Bool} {v v' : Val} (h : letVal ov rv v = .ok v')
    (hc : Builder.isRegister v = true ∨ isParam v = true) : Builder.isRegister v' = true ∨ isParam v' = true := by
  cases v <;> simp [Builder.isRegister, isParam] at hc <;> simp only [letVal] at h
  · cases h; exact Or.inr rfl
  · split at h
    · obtain ⟨ns, _, h⟩ := bind_ok h
      rw [mkRegister_eq h]; exact Or.inl rfl
    · cases h; exact Or.inl rfl
  · obtain ⟨nf, _, h⟩ := bind_ok h
    cases h; exact Or.inl rfl
  · obtain ⟨nf, _, h⟩ := bind_ok h
    obtain ⟨a', _, h⟩ := bind_ok h
    obtain ⟨b', _, h⟩ := bind_ok h
    obtain ⟨s', _, h⟩ := bind_ok h
    rw [(mkSliceN_eq h).1]; exact Or.inl rfl

theorem fgetItem_ok {arr idx v : Val} (h : FillIn.getItem arr idx = .ok v) (harr : ValOK arr)
    (hr : Builder.isRegister arr = true ∨ isParam arr = true) : ValOK v := by
  unfold FillIn.getItem at h
  split at h
  · simp [throw_eq] at h
  · split at h
    · simp [throw_eq] at h
    · split at h
      · exact mkQubit_ok h harr hr
      · obtain ⟨_, _, h⟩ := bind_ok h
        simp [throw_eq] at h

/-- every value the visitors construct has passed the constructors' checks AGAIN, with the sizes, indices and bounds
now literal: it satisfies C14's declarative validity `ValOK` (a literal index into a register of literal size lies in
`0 .. size-1`, every element of a literal slice lies inside its source, a literal size is ≥ 1) -/
theorem letVal_ok {ov : List (String × Num)} : ∀ (v : Val) (rv : Bool) (v' : Val), ValOK v → letVal ov rv v = .ok v' →
    ValOK v' := by
  intro v
  induction v with
  | const n d =>
    intro rv v' _ h
    obtain ⟨_, _, _, hcase⟩ := resolveConstant_num (v := .const n d) h
    rcases hcase with ⟨x, _, rfl⟩ | ⟨_, rfl, hd⟩
    · cases hx : Num.asInteger x <;> simp [Val.ofNum, ValOK]
    · cases v' <;> simp only [Val.isNum] at hd <;> trivial
  | qubit n src idx ihs _ =>
    intro rv v' hok h
    simp only [ValOK] at hok
    simp only [letVal] at h
    obtain ⟨nf, hnf, h⟩ := bind_ok h
    have h1 := ihs rv nf hok.1 hnf
    have h2 := letVal_class hnf hok.2.1
    split at h
    · obtain ⟨ni, hni, h⟩ := bind_ok h
      obtain ⟨_, hq⟩ := constIndexQubit_mk h
      exact mkQubit_ok hq h1 h2
    · exact mkQubit_ok h h1 h2
  | regF n size _ =>
    intro rv v' hok h
    simp only [letVal] at h
    split at h
    · obtain ⟨ns, _, h⟩ := bind_ok h
      exact mkRegister_ok h
    · cases h; exact hok
  | regA n src ih =>
    intro rv v' hok h
    simp only [ValOK] at hok
    simp only [letVal] at h
    obtain ⟨nf, hnf, h⟩ := bind_ok h
    cases h
    exact ⟨ih rv nf hok.1 hnf, letVal_class hnf hok.2⟩
  | regS n src a b s ihs _ _ _ =>
    intro rv v' hok h
    simp only [ValOK] at hok
    simp only [letVal] at h
    obtain ⟨nf, hnf, h⟩ := bind_ok h
    obtain ⟨a', _, h⟩ := bind_ok h
    obtain ⟨b', _, h⟩ := bind_ok h
    obtain ⟨s', _, h⟩ := bind_ok h
    exact mkSlice_ok (mkSliceN_eq h).2.2.2.2 (ihs rv nf hok.1 hnf) (letVal_class hnf hok.2.1)
  | int _ => intro rv v' _ h; cases h; trivial
  | flt _ => intro rv v' _ h; cases h; trivial
  | param _ _ => intro rv v' _ h; cases h; trivial
  | none => intro rv v' _ h; cases h; trivial
  | str _ => intro rv v' _ h; cases h; trivial

theorem ValOK_normCount {v : Val} (h : ValOK v) : ValOK (normCount v) := by
  cases v <;> exact h

/-- **C05_revalidate**: if the values of the input are valid (C14: everything the builder constructs is), so are
those of the result — checked against the NEW sizes — in the body, the macros and the registers. -/
theorem C05_revalidate (ov : List (String × Num)) (c c' : Circuit) (hw : WellFormed c) (h : fillInLet ov c = .ok c')
    (hb : AllVals ValOK c.body) (hm : ∀ m ∈ c.macros, AllVals ValOK m.body) (hregs : ∀ v ∈ c.registers, ValOK v) :
    AllVals ValOK c'.body ∧ (∀ m ∈ c'.macros, AllVals ValOK m.body) ∧ ∀ v ∈ c'.registers, ValOK v := by
  obtain ⟨bs, regs, hbs, hrs, hr⟩ := fillInLet_rebuilt hw h
  have hF : ∀ v v', ValOK v → letVal ov false v = .ok v' → ValOK v' := fun v v' hv hl => letVal_ok v false v' hv hl
  have hG : ∀ v v', ValOK v → letVal ov false v = .ok v' → ValOK (normCount v') :=
    fun v v' hv hl => ValOK_normCount (hF v v' hv hl)
  refine ⟨?_, ?_, ?_⟩
  · obtain ⟨ss, hc', hrel⟩ := hr.body
    rw [hbs] at hb
    simp only [AllVals] at hb
    rw [hc']
    simp only [AllVals]
    exact ⟨fun hx => (by cases hx), Rel_outs hF hG bs ss hrel hb.2⟩
  · intro m' hm'
    obtain ⟨m, hmem, hmm⟩ := forall₂_right hr.macros m' hm'
    exact Rel_out hF hG _ _ hmm.2.2 (hm m hmem)
  · rw [hr.registers]
    exact mapM_all (fun a b ha hab => letVal_ok a true b ha hab) hrs hregs

/-- an override that shrinks a register below a used index is rejected (with a `JaqalError`: see the examples) -/
theorem C05_shrink_rejected (ov : List (String × Num)) (nm r N : String) (d : Val) (k i : Int)
    (hov : lookupOv ov N = some (.int k)) (hi : k ≤ i) (v' : Val) :
    letVal ov false (.qubit nm (.regF r (.const N d)) (.int i)) ≠ .ok v' := by
  intro h
  simp only [letVal] at h
  obtain ⟨nf, hnf, h⟩ := bind_ok h
  simp only [isConst, if_true] at hnf
  obtain ⟨ns, hns, hnf⟩ := bind_ok hnf
  simp only [resolveConstant, hov, pure, Except.pure] at hns
  cases hns
  have e := mkRegister_eq hnf
  subst e
  simp only [isConst, Bool.false_eq_true, if_false] at h
  unfold mkQubit at h
  obtain ⟨_, hq, _⟩ := bind_ok h
  have := qubitCheck_lit (k := k) hq rfl
  omega

/-! ### Idempotence -/

/-- a visited value is a fixed point of every later visit (any overrides, either visitor) -/
theorem C05_idempotent_val {ov : List (String × Num)} : ∀ (v : Val) (rv : Bool) (v' : Val), letVal ov rv v = .ok v' →
    ∀ (ov2 : List (String × Num)) (rv2 : Bool), letVal ov2 rv2 v' = .ok v' := by
  intro v
  induction v with
  | const n d =>
    intro rv v' h ov2 rv2
    obtain ⟨_, _, _, hcase⟩ := resolveConstant_num (v := .const n d) h
    rcases hcase with ⟨x, _, rfl⟩ | ⟨_, rfl, hd⟩
    · cases hx : Num.asInteger x <;> rfl
    · cases v' <;> first | rfl | simp [Val.isNum] at hd
  | qubit n src idx ihs _ =>
    intro rv v' h ov2 rv2
    simp only [letVal] at h
    obtain ⟨nf, hnf, h⟩ := bind_ok h
    have h1 := ihs rv nf hnf ov2 rv2
    have fin : ∀ n' ni, isConst ni = false → mkQubit n' nf ni = .ok (.qubit n' nf ni) →
        letVal ov2 rv2 (.qubit n' nf ni) = .ok (.qubit n' nf ni) := by
      intro n' ni hc hq
      simp only [letVal, h1, hc, Bool.false_eq_true, if_false, bind, Except.bind, hq]
    split at h
    · obtain ⟨ni, hni, h⟩ := bind_ok h
      have hc := noConst_not_isConst (resolveConstant_noConst hni)
      obtain ⟨n', hq⟩ := constIndexQubit_mk h
      have := mkQubit_eq hq; subst this; exact fin _ _ hc hq
    · rename_i hc
      have := mkQubit_eq h; subst this
      exact fin _ _ (by simpa using hc) h
  | regF n size _ =>
    intro rv v' h ov2 rv2
    simp only [letVal] at h
    split at h
    · obtain ⟨ns, hns, h⟩ := bind_ok h
      have hc := noConst_not_isConst (resolveConstant_noConst hns)
      rw [mkRegister_eq h]
      simp only [letVal, hc, Bool.false_eq_true, if_false]
      rfl
    · rename_i hc
      cases h
      simp only [letVal, hc, Bool.false_eq_true, if_false]
      rfl
  | regA n src ih =>
    intro rv v' h ov2 rv2
    simp only [letVal] at h
    obtain ⟨nf, hnf, h⟩ := bind_ok h
    cases h
    simp only [letVal, ih rv nf hnf ov2 rv2, bind, Except.bind, pure, Except.pure]
  | regS n src a b s ihs iha ihb ihst =>
    intro rv v' h ov2 rv2
    simp only [letVal] at h
    obtain ⟨nf, hnf, h⟩ := bind_ok h
    obtain ⟨a', ha', h⟩ := bind_ok h
    obtain ⟨b', hb', h⟩ := bind_ok h
    obtain ⟨s', hs', h⟩ := bind_ok h
    have e := (mkSliceN_eq h).1
    subst e
    simp only [letVal, ihs rv nf hnf ov2 rv2, iha rv a' ha' ov2 rv2, ihb rv b' hb' ov2 rv2, ihst rv s' hs' ov2 rv2,
      bind, Except.bind, h]
  | int _ => intro rv v' h ov2 rv2; cases h; rfl
  | flt _ => intro rv v' h ov2 rv2; cases h; rfl
  | param _ _ => intro rv v' h ov2 rv2; cases h; rfl
  | none => intro rv v' h ov2 rv2; cases h; rfl
  | str _ => intro rv v' h ov2 rv2; cases h; rfl

/-- **C05_idempotent at full strength**: a second `fill_in_let`, with any overrides, returns the circuit unchanged.
Stated here; PROVED as `C05_idempotent` in `Props/C10.lean` (`fillInLet_idempotent`, `Lemmas/PassesIdem.lean`: the second run
hands the builder the very S-expression of the first under a configuration it cannot tell apart).  Also checked on the real
code by the oracle `idempotent`. -/
def C05_idempotent_full : Prop :=
  ∀ (ov ov2 : List (String × Num)) (c c' : Circuit), WellFormed c → fillInLet ov c = .ok c' → fillInLet ov2 c' = .ok c'

/-! ### Non-vacuity: the running example (`Lemmas/FillInSem.lean`: `exC`; `cdigest` = registers, statements and macros as
decidable data) -/
section Examples

/-- the override `n ↦ 6.0` grows the register and moves the alias' stop -/
def ov6 : List (String × Num) := [("n", .flt ⟨false, 6, 0⟩)]
def exR6 : Val := .regF "r" (.int 6)
def exA6 : Val := .regS "a" exR6 (.int 1) (.int 6) (.int 2)

example : WellFormed exC := exC_wellFormed
-- loop count `k` ↦ 1, `r[k]` ↦ `r[1]` on the NEW register, subcircuit count `n` ↦ 6, `a[k]` ↦ `a[1]` on the new alias;
-- inside the macro the parameter `n` is untouched although `n` is overridden
example : (fillInLet ov6 exC).map cdigest = .ok ([exR6, exA6],
    [("block par=false sub=false", [.int 1]),
      ("loop", [.int 1]), ("block par=false sub=false", [.int 1]),
        ("M", [.qubit "r[1]" exR6 (.int 1), .int 2]), ("end", []),
      ("block par=false sub=true", [.int 6]), ("X", [.qubit "a[1]" exA6 (.int 1)]), ("end", []),
     ("end", []),
     ("macro M x n", []), ("block par=false sub=false", [.int 1]),
      ("P", [.param "x" .none, .param "n" .none]), ("X", [.qubit "a[0]" exA6 (.int 0)]), ("end", [])]) := by
  decide +kernel
-- the meaning: `P r[1] 2; X r[1]`, then the subcircuit with `X r[3]`
example : ((fillInLet ov6 exC).bind (meaning [])).map Sem.Sem.flat = (meaning (normOv ov6) exC).map Sem.Sem.flat := by
  decide +kernel
example : (meaning (normOv ov6) exC).map Sem.Sem.flat =
    .ok [("P", [.qubit ("r", 1), .num (.int 2)]), ("X", [.qubit ("r", 1)]), ("X", [.qubit ("r", 3)])] := by decide +kernel
-- shrinking the register to 2 qubits leaves `a = r[1:2:2]` with one element: `a[k] = a[1]` is rejected
example : (fillInLet [("n", .int 2)] exC).map cdigest = .error (.jaqal "index-out-of-range") := by decide +kernel
-- a fractional size is rejected, and so is a fractional value where an index is needed
example : (fillInLet [("n", .flt ⟨false, 25, -1⟩)] exC).map cdigest = .error (.jaqal "invalid-size") := by decide +kernel
example : (fillInLet [("k", .flt ⟨false, 5, -1⟩)] exC).map cdigest = .error (.jaqal "index-not-integer") := by decide +kernel
-- a declared single-qubit alias `map m r[k]` keeps its name as a gate argument, the anonymous `r[k]` becomes `r[1]`
example : letVal ov6 false (.qubit "m" exR (.const "k" (.int 1))) = .ok (.qubit "m" exR6 (.int 1)) := by decide +kernel
example : letVal ov6 false (.qubit "r[k]" exR (.const "k" (.int 1))) = .ok (.qubit "r[1]" exR6 (.int 1)) := by decide +kernel
-- a second pass changes nothing
example : ((fillInLet ov6 exC).bind (fillInLet [])).map cdigest = (fillInLet ov6 exC).map cdigest := by decide +kernel

end Examples

end Jaqal.FillIn

#print axioms Jaqal.FillIn.C05_meaning
#print axioms Jaqal.FillIn.C05_no_consts
#print axioms Jaqal.FillIn.C05_shadow
#print axioms Jaqal.FillIn.C05_shadow_gate
#print axioms Jaqal.FillIn.C05_shadow_qubit
#print axioms Jaqal.FillIn.C05_qubit_name
#print axioms Jaqal.FillIn.C05_frame
#print axioms Jaqal.FillIn.C05_revalidate
#print axioms Jaqal.FillIn.C05_shrink_rejected
#print axioms Jaqal.FillIn.C05_idempotent_val
