import JaqalProofs.Props.C16Flags
import JaqalProofs.Lemmas.FillInMapClass
/-!
# C16 for the parsing entry point with ALL its expansion flags — no hypothesis left

`Props/C16Flags.lean` proves C16 for `Passes.parseTextWithFlags cfg em el elm ov txt` =
`parse_jaqal_string(txt, expand_macro=em, expand_let=el, expand_let_map=elm, override_dict=ov, …)` relative to `MapClass`
(`fill_in_map` on the result of `fill_in_let` fails with `JaqalError` / `ImportError` only).  `Lemmas/FillInMapClass.lean` proves
`mapClass_holds : ∀ cfg em ov txt, MapClass cfg em ov txt`, which closes it:

* **`C16_flags_total`** `: C16_flags_total_full` — every text, configuration, override list and all eight combinations of
  `expand_macro` / `expand_let` / `expand_let_map`: a result, or JaqalParseError / JaqalError / ImportError (`Good16`); never
  `.other _` (an uncaught Python exception), never `.hang`.
* **`C16_flags_pos`** — all eight combinations: a parse error is the parser's own, with the position `C16_pos` describes.
* `C16_flags_no_crash_no_hang_all` — the reading of `Good16` for the flagged entry point.
-/
namespace Jaqal.Passes
open Jaqal Jaqal.Builder Jaqal.Parser Jaqal.RunModel Jaqal.FillIn

/-- **C16 (totality) for `parse_jaqal_string` with all its expansion flags.** -/
theorem C16_flags_total : C16_flags_total_full :=
  fun cfg em el elm ov txt e h => C16_flags_total_partial cfg em el elm ov txt (fun _ => mapClass_holds cfg em ov txt) e h

/-- **C16 (position) for the flagged entry point**, all eight combinations of the flags -/
theorem C16_flags_pos (cfg : Config) (em el elm : Bool) (ov : List (String × Num)) (txt : String) (l : Option Nat) (c : Nat)
    (h : parseTextWithFlags cfg em el elm ov txt = .error (.parse l c)) :
    parseText txt = .error (.parseError l c) ∧
    ((l = none ∧ c = 0) ∨ ∃ l', l = some l' ∧ Jaqal.C02.IsTokenPos txt l' c) :=
  C16_flags_pos_partial cfg em el elm ov txt l c (fun _ => mapClass_holds cfg em ov txt) h

/-- no crash (`.other _`) and no hang, whatever the flags -/
theorem C16_flags_no_crash_no_hang_all (cfg : Config) (em el elm : Bool) (ov : List (String × Num)) (txt : String) (e : Err)
    (h : parseTextWithFlags cfg em el elm ov txt = .error e) : (∀ c, e ≠ .other c) ∧ e ≠ .hang :=
  C16_flags_no_crash_no_hang (C16_flags_total cfg em el elm ov txt e h)

/-! ### Non-vacuity -/

/-- with `expand_let_map`: a whole alias as a gate argument is accepted without the flag, a JaqalError with it -/
example : isOkB (parseTextWithFlags {} false false false [] "register r[2]\nmap a r\ng a\n") = true := by decide +kernel
example : isJaqalB (parseTextWithFlags {} false false true [] "register r[2]\nmap a r\ng a\n") = true := by decide +kernel
/-- with `expand_let_map`: an alias index out of range (index 3 of a slice of 2) is a JaqalError -/
example : isJaqalB (parseTextWithFlags {} false false true [] "register r[4]\nmap a r[0:2]\ng a[3]\n") = true := by
  decide +kernel
/-- a text that succeeds with `expand_let_map`, with and without the macro expansion, with an override -/
example : ([false, true].all fun em => [false, true].all fun el =>
    isOkB (parseTextWithFlags {} em el true [("n", .int 3)]
      "let n 2\nregister r[n]\nmap a r[0:2:1]\nmacro m x{g x}\nm a[1]\n")) = true := by
  decide +kernel
/-- a syntax error with its position under `expand_let_map` -/
example : (match parseTextWithFlags {} true true true [] "let x $" with
  | .error (.parse (some l) c) => l == 1 && c == 7 | _ => false) = true := by decide +kernel

end Jaqal.Passes

#print axioms Jaqal.Passes.C16_flags_total
#print axioms Jaqal.Passes.C16_flags_pos
#print axioms Jaqal.Passes.C16_flags_no_crash_no_hang_all
