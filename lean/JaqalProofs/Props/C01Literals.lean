import JaqalProofs.Lemmas.NumText
import JaqalProofs.Lemmas.NumTextRegex
/-!
# C01, literal layer: numbers written by the code generator are read back by the lexer as the same
value, and writing again gives the same text.

`genFloat` = `generate_jaqal_float` (after the repair), `genInt` = `str(int)`, `readLiteral` = the
lexer's NUMBER / INT rules on a whole-string literal (NUMBER is tried first). A float is its exact
canonical decimal `Dec` (DESIGN.md §3.3). All statements are for every decimal / every integer: any
number of digits, any exponent, both `repr` layouts, both signs, `0.0` and `-0.0`.
-/
namespace Jaqal.NumText
open Jaqal

/-- To evaluate closed examples on character lists rather than on the byte representation of `String`. -/
theorem ofList_eq {l : List Char} {s : String} (h : l = s.toList) : String.ofList l = s := by
  rw [h, String.ofList_toList]

/-! ## floats -/

/-- For ANY decimal (canonical or not) the text written is read back as its canonical form. -/
theorem C01_float_roundtrip_normalize (d : Dec) :
    readLiteral (genFloat d) = some (.flt d.normalize) := by
  rw [readLiteral, genFloat, String.toList_ofList]; exact readLiteralL_genFloatL d

/-- The float round trip: what `generate_jaqal_float` writes for the float with canonical decimal `d`
is one NUMBER token whose value is `d`. (This is the statement that failed before the repair, e.g.
for `1e-06`; see `C01_old_repr_counterexample`.) -/
theorem C01_float_roundtrip (d : Dec) (h : d.Canonical) :
    readLiteral (genFloat d) = some (.flt d) := by
  rw [C01_float_roundtrip_normalize, normalize_of_canonical h]

/-- Byte-stable second generation. -/
theorem C01_float_stable (d d' : Dec) (h : readLiteral (genFloat d) = some (.flt d')) :
    genFloat d' = genFloat d := by
  rw [C01_float_roundtrip_normalize] at h
  simp only [Option.some.injEq, Num.flt.injEq] at h
  subst h
  simp only [genFloat, genFloatL_normalize]

/-- `readNumber` (NUMBER rule alone) agrees. -/
theorem C01_float_readNumber (d : Dec) (h : d.Canonical) : readNumber (genFloat d) = some d := by
  have hm := matchNumber_genFloatL d [] Stop.nil
  rw [List.append_nil] at hm
  rw [readNumber, genFloat, String.toList_ofList, readNumberL, hm]
  simp only [numberValue_genFloatL, normalize_of_canonical h]

-- non-vacuity: both layouts, both signs, zero, the repaired case, many digits, large exponents
example : (⟨false, 1, -6⟩ : Dec).Canonical := by decide
example : genFloat ⟨false, 1, -6⟩ = "1.0e-06" := ofList_eq (by decide)
example : genFloat ⟨true, 15, -6⟩ = "-1.5e-05" := ofList_eq (by decide)
example : genFloat ⟨false, 1, -4⟩ = "0.0001" := ofList_eq (by decide)
example : genFloat ⟨false, 15, -1⟩ = "1.5" := ofList_eq (by decide)
example : genFloat ⟨false, 3, 0⟩ = "3.0" := ofList_eq (by decide)
example : genFloat ⟨false, 1, 15⟩ = "1000000000000000.0" := ofList_eq (by decide)
example : genFloat ⟨false, 1, 16⟩ = "1.0e+16" := ofList_eq (by decide)
example : genFloat ⟨false, 123456789012345, 86⟩ = "1.23456789012345e+100" := ofList_eq (by decide)
example : genFloat ⟨false, 25, -301⟩ = "2.5e-300" := ofList_eq (by decide)
example : genFloat ⟨false, 0, 0⟩ = "0.0" := ofList_eq (by decide)
example : genFloat ⟨true, 0, 0⟩ = "-0.0" := ofList_eq (by decide)
example : readLiteral "1.0e-06" = some (.flt ⟨false, 1, -6⟩) := by
  have h := C01_float_roundtrip ⟨false, 1, -6⟩ (by decide)
  rwa [show genFloat ⟨false, 1, -6⟩ = "1.0e-06" from ofList_eq (by decide)] at h

/-! ## ints -/

theorem C01_int_roundtrip (i : Int) : readLiteral (genInt i) = some (.int i) := by
  rw [readLiteral, genInt, String.toList_ofList]; exact readLiteralL_genIntL i

theorem C01_int_stable (i j : Int) (h : readLiteral (genInt i) = some (.int j)) :
    genInt j = genInt i := by
  rw [C01_int_roundtrip] at h
  simp only [Option.some.injEq, Num.int.injEq] at h
  rw [h]

theorem C01_int_readInt (i : Int) : readInt (genInt i) = some i := by
  have hm := matchInt_genIntL i [] (by simp)
  rw [List.append_nil] at hm
  rw [readInt, genInt, String.toList_ofList, readIntL, hm]
  exact intValue_genIntL i

/-- `genInt` is Lean's `toString` on `Int` (so a generator model may use either). -/
theorem genInt_eq_toString (i : Int) : genInt i = toString i := by
  rw [Int.toString_eq_repr, Int.repr_eq_if, genInt, genIntL]
  by_cases h : i < 0
  · have h' : ¬ (0 ≤ i) := by omega
    have e : (-i).toNat = i.natAbs := by omega
    simp only [h, h', if_true, if_false, e, Nat.repr_eq_ofList_toDigits, natDigits]
    rw [← String.toList_inj]; simp
  · have h' : 0 ≤ i := by omega
    have e : i.toNat = i.natAbs := by omega
    simp only [h, h', if_true, if_false, e, Nat.repr_eq_ofList_toDigits, natDigits]

example : genInt (-12345678901234567890123) = "-12345678901234567890123" := ofList_eq (by decide)
example : genInt 0 = "0" := ofList_eq (by decide)
example : readLiteral "15" = some (.int 15) := by
  have h := C01_int_roundtrip 15
  rwa [show genInt 15 = "15" from ofList_eq (by decide)] at h

/-! ## numbers as the builder stores them (`as_integer`) -/

/-- A `Num` whose float part is a canonical decimal (every float is). -/
def NumCanonical : Num → Prop
  | .int _ => True
  | .flt d => d.Canonical

instance (x : Num) : Decidable (NumCanonical x) := by
  cases x <;> unfold NumCanonical <;> exact inferInstance

theorem asInteger_idem (x : Num) : x.asInteger.asInteger = x.asInteger := by
  cases x with
  | int a => rfl
  | flt d =>
    by_cases h : d.isIntegral = true <;> simp [Num.asInteger, h]

/-- The number the builder stores for a `let` (`as_integer(value)`) is written, read back as exactly
the same `Num` (same type, same value), which is `==` to the original, and a second generation
(after the builder's `as_integer` again) is byte-identical. -/
theorem C01_num_roundtrip (x : Num) (hx : NumCanonical x) :
    ∃ y, readLiteral (genNum x.asInteger) = some y ∧ y = x.asInteger ∧ Num.veq y x = true ∧
      genNum y.asInteger = genNum x.asInteger := by
  refine ⟨x.asInteger, ?_, rfl, ?_, by rw [asInteger_idem]⟩
  · cases x with
    | int a => exact C01_int_roundtrip a
    | flt d =>
      simp only [Num.asInteger]
      split
      · exact C01_int_roundtrip _
      · exact C01_float_roundtrip d hx
  · cases x with
    | int a => simp [Num.asInteger, Num.veq]
    | flt d =>
      simp only [Num.asInteger]
      split
      · rename_i h; simp [Num.veq, h]
      · simp [Num.veq]

example : NumCanonical (.flt ⟨false, 3, 0⟩) ∧ (Num.flt ⟨false, 3, 0⟩).asInteger = .int 3 := by decide
example : genNum (Num.flt ⟨false, 3, 0⟩).asInteger = "3" := ofList_eq (by decide)
example : NumCanonical (.flt ⟨true, 0, 0⟩) ∧ (Num.flt ⟨true, 0, 0⟩).asInteger = .int 0 := by decide
example : NumCanonical (.flt ⟨false, 15, -1⟩) ∧
    (Num.flt ⟨false, 15, -1⟩).asInteger = .flt ⟨false, 15, -1⟩ := by decide

/-! ## what the repair fixed -/

/-- Plain `repr` writes `1e-06`, which is not a NUMBER (no dot): the lexer reads `1`, `e`, `-06`. -/
theorem C01_old_repr_counterexample :
    readLiteral (reprFloat ⟨false, 1, -6⟩) ≠ some (.flt ⟨false, 1, -6⟩) := by
  rw [readLiteral, reprFloat, String.toList_ofList]; decide

example : reprFloat ⟨false, 1, -6⟩ = "1e-06" := ofList_eq (by decide)
example : readLiteralL "1e-06".toList = none := by decide

/-! ## a literal followed by a separator is exactly one token -/

/-- After the text of a float, any character that is not a digit, `e` or `E` ends the NUMBER token
exactly there. -/
theorem C01_no_token_merge_float_gen (d : Dec) (rest : List Char) (h : Stop rest) :
    matchNumber ((genFloat d).toList ++ rest) = some ((genFloat d).toList, rest) := by
  rw [genFloat, String.toList_ofList]; exact matchNumber_genFloatL d rest h

theorem C01_no_token_merge (d : Dec) (rest : List Char) :
    matchNumber ((genFloat d).toList ++ ' ' :: rest) = some ((genFloat d).toList, ' ' :: rest) ∧
    matchNumber ((genFloat d).toList ++ '\n' :: rest) = some ((genFloat d).toList, '\n' :: rest) :=
  ⟨C01_no_token_merge_float_gen d _ (Stop.space rest), C01_no_token_merge_float_gen d _ (Stop.newline rest)⟩

/-- After the text of an int, any character that is not a digit or a dot: NUMBER does not match and
INT matches exactly the int. -/
theorem C01_no_token_merge_int_gen (i : Int) (rest : List Char)
    (h : ∀ c ∈ rest.head?, c.isDigit = false ∧ c ≠ '.') :
    matchNumber ((genInt i).toList ++ rest) = none ∧
    matchInt ((genInt i).toList ++ rest) = some ((genInt i).toList, rest) := by
  rw [genInt, String.toList_ofList]
  exact ⟨matchNumber_genIntL i rest h, matchInt_genIntL i rest (fun c hc => (h c hc).1)⟩

theorem C01_no_token_merge_int (i : Int) (rest : List Char) :
    (matchNumber ((genInt i).toList ++ ' ' :: rest) = none ∧
      matchInt ((genInt i).toList ++ ' ' :: rest) = some ((genInt i).toList, ' ' :: rest)) ∧
    (matchNumber ((genInt i).toList ++ '\n' :: rest) = none ∧
      matchInt ((genInt i).toList ++ '\n' :: rest) = some ((genInt i).toList, '\n' :: rest)) :=
  ⟨C01_no_token_merge_int_gen i _ (by intro c hc; simp at hc; subst hc; decide),
   C01_no_token_merge_int_gen i _ (by intro c hc; simp at hc; subst hc; decide)⟩

/-- The generated text of a float uses only `[-+0-9.e]`, begins with a digit or `-`, ends with a digit. -/
theorem C01_charset_float (d : Dec) :
    (∀ c ∈ (genFloat d).toList, c.isDigit = true ∨ c = '-' ∨ c = '+' ∨ c = '.' ∨ c = 'e') ∧
    (∃ c, (genFloat d).toList.head? = some c ∧ (c = '-' ∨ c.isDigit = true)) ∧
    (∃ c, (genFloat d).toList.getLast? = some c ∧ c.isDigit = true) := by
  rw [genFloat, String.toList_ofList]
  refine ⟨?_, ?_, ?_⟩
  · intro c hc
    rw [genFloatL_eq] at hc
    rcases (genParts_wf d.normalize).chars c hc with h | h | h | h | ⟨sg, ds, h⟩
    · exact .inl h
    · exact .inr (.inl h)
    · exact .inr (.inr (.inl h))
    · exact .inr (.inr (.inr (.inl h)))
    · exact .inr (.inr (.inr (.inr (genParts_ex_char _ h))))
  · obtain ⟨c, r, h1, h2⟩ := genFloatL_head d
    exact ⟨c, by rw [h1]; rfl, h2⟩
  · rw [genFloatL_eq]; exact (genParts_wf d.normalize).last

/-- The generated text of an int is an optional `-` followed by digits. -/
theorem C01_charset_int (i : Int) :
    (∀ c ∈ (genInt i).toList, c.isDigit = true ∨ c = '-') ∧
    (∃ c, (genInt i).toList.head? = some c ∧ (c = '-' ∨ c.isDigit = true)) ∧
    (∃ c, (genInt i).toList.getLast? = some c ∧ c.isDigit = true) := by
  rw [genInt, String.toList_ofList]
  refine ⟨?_, ?_, ?_⟩
  · intro c hc
    rw [genIntL_eq] at hc
    rcases List.mem_append.mp hc with hc | hc
    · split at hc
      · simp at hc; exact .inr hc
      · simp at hc
    · exact .inl (isDigit_natDigits c hc)
  · obtain ⟨c, r, h1, h2⟩ := genIntL_head i
    exact ⟨c, by rw [h1]; rfl, h2⟩
  · rw [genIntL_eq, List.getLast?_append]
    cases h : (natDigits i.natAbs).getLast? with
    | none => exact absurd (List.getLast?_eq_none_iff.mp h) natDigits_ne_nil
    | some c => exact ⟨c, rfl, isDigit_natDigits c (List.mem_of_getLast? h)⟩

example : matchNumber ("1.0e-06 2.5\n".toList) = some ("1.0e-06".toList, " 2.5\n".toList) := by decide
example : matchNumber ("15 2.5\n".toList) = none ∧
    matchInt ("15 2.5\n".toList) = some ("15".toList, " 2.5\n".toList) := by decide

/-! ## the readers are the token regular expressions

`Lemmas/NumTextRegex.lean` defines a generic backtracking matcher `Re.run` (greedy star and option,
alternatives tried in Python's priority order) and the two token expressions `numberRe`, `intRe` in it.
`matchNumber` / `matchInt` return exactly the first match that matcher finds: same remaining input
(hence same success/failure), and the matched text is the consumed prefix. -/
theorem C01_readers_are_the_regexes (cs : List Char) :
    numberRe.run some cs = (matchNumber cs).map (·.2) ∧
    (∀ m r, matchNumber cs = some (m, r) → m ++ r = cs) ∧
    intRe.run some cs = (matchInt cs).map (·.2) ∧
    (∀ m r, matchInt cs = some (m, r) → m ++ r = cs) := by
  refine ⟨?_, fun m r h => matchNumber_prefix h, ?_, fun m r h => matchInt_prefix h⟩
  · rw [numberRe_run, matchNumber, Option.map_map]; rfl
  · rw [intRe_run, matchInt, Option.map_map]; rfl

example : numberRe.run some "1.5e+3x".toList = some ['x'] := by decide
example : numberRe.run some "1.5e+x".toList = some "e+x".toList := by decide   -- exponent group skipped
example : numberRe.run some "1e-06".toList = none := by decide

#print axioms C01_readers_are_the_regexes
#print axioms C01_float_roundtrip_normalize
#print axioms C01_float_roundtrip
#print axioms C01_float_stable
#print axioms C01_float_readNumber
#print axioms C01_int_roundtrip
#print axioms C01_int_stable
#print axioms C01_int_readInt
#print axioms C01_num_roundtrip
#print axioms C01_old_repr_counterexample
#print axioms C01_no_token_merge_float_gen
#print axioms C01_no_token_merge
#print axioms C01_no_token_merge_int_gen
#print axioms C01_no_token_merge_int
#print axioms C01_charset_float
#print axioms C01_charset_int

end Jaqal.NumText
