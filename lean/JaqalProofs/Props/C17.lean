import JaqalProofs.Lemmas.FrontEnds
/-!
# C17 — Jaqal text, the `CircuitBuilder` API and the Python Q-syntax build the same circuit

All three front ends end in `circuitbuilder.build(sexpr, …)`; the theorems compare the S-expressions
(`Model/FrontEnds.lean`: `lowerQ`, `lowerOO`, `parseSx`, each `Prog → M Sx`).

## Equality up to what `build` ignores
`a ≈ b` is `a.map norm = b.map norm` (same error, or results equal after `norm`).  `Sx` already identifies
Python tuples with lists (harmless: `SExpression.is_convertible`, `SExpression.__init__` and
`GateMemoizer._make_hashable / make_context_entry` treat them alike; nothing else looks at the container
type).  `norm` identifies the three spellings of an absent subcircuit count: `""` (parser:
`subcircuit_gate_block` does `ret.appendleft("")`), `None` (`CircuitBuilder.subcircuit(iterations=None)`)
and `1` (`Q.subcircuit(argument=1)`), exactly in the position `build_subcircuit_block` reads them:
```
count = args[0]
if count == "" or count is None: built_count = 1
else: built_count = self.build(count, context, gate_context)     # build(1) == 1
```
so `BlockStatement(statements, subcircuit=True, iterations=1)` results in the three cases, and the
statements `args[1:]` are built the same way.  `Identifier` objects (versus `str`) occur only in
`usepulses` statements, which are out of scope here.
`build (norm e) = build e` on everything the front ends produce, and hence "equal circuits", is proved
against the builder model in `Props/C17Build.lean` (`C17_build_norm`, `C17_build_front_ends`); the direct
oracle `count_variants` of `harness/agents/qsyn_diff.py` checks the same on the real `build`.

## What is and is not covered
* A `Prog` refers to lets / registers by creation index; anonymous ones get the `Namer`'s names in all three
  front ends (text and builder API have no anonymous objects).  Usepulses, maps, macros, branches: out of scope.
* The text front end additionally (a) needs names that are identifiers and not keywords, (b) accepts only
  the nesting of the grammar (`Prog.legal`: no `{}` directly in `{}`, `<>` holds gates and `{}` only) and a
  literal register size `> 0` (else `JaqalParseError`), (c) `parse_jaqal_string` raises
  "Circuit has too many registers" after `build` for two or more registers, which neither `build` nor the
  other front ends do.  These belong to the tie between `parseSx` and the real parser and are checked by
  the correspondence script, not stated here.
* Q-syntax rejects (JaqalError, raised by `validate_int` resp. `QBlock._validate_statement` BEFORE `build`
  is reached): a register size or qubit index that is a let with a non-integral value; a subcircuit
  directly inside a subcircuit (`C17_q_accepts`: exactly these).  When `lowerQ p` succeeds the S-expressions
  agree (`C17_same`), so `build` decides alike for all three; when it fails, that `build` also rejects
  `parseSx p` is a fact about `build` (`Register.__init__` refuses a size of FLOAT kind since today's repair —
  before it `let n 0.5; register q[n]` was accepted by text and `CircuitBuilder` and rejected by Q-syntax;
  `build_subcircuit_block` refuses nested subcircuits), checked by the correspondence (oracle `three_equal`).
-/
namespace Jaqal.FrontEnds
open Jaqal

/-- Equality up to the differences `build` cannot observe. -/
def Equiv (a b : M Sx) : Prop := a.map norm = b.map norm

@[inherit_doc] scoped infix:50 " ≈ " => Equiv

/-! ## C17_same -/

/-- The three front ends hand `build` the same S-expression (up to `norm`): the builder API and the text
always; Q-syntax whenever it gets as far as calling `build`, for the program itself if its body begins
with a prepare or a subcircuit (`¬ wraps p`), else for the program wrapped in `prepare_all … measure_all`. -/
theorem C17_same (p : Prog) :
    lowerOO p ≈ parseSx p ∧
    (∀ s, lowerQ p = .ok s →
      (wraps p = false → .ok s ≈ parseSx p) ∧ (wraps p = true → .ok s ≈ parseSx (wrap p))) := by
  have hn1 : normCount (norm Sx.none) = normCount (norm (.str "")) := by simp [norm, normCount]
  have hn2 : normCount (norm (.int 1)) = normCount (norm (.str "")) := by simp [norm, normCount]
  refine ⟨?_, ?_⟩
  · rw [lowerOO_eq, parseSx_eq]
    exact MRel.map_eq (genProg_norm hn1 p)
  · intro s hs
    have hg := lowerQ_gen p hs
    constructor
    · intro hw
      simp only [hw, Bool.false_eq_true, if_false] at hg
      rw [parseSx_eq, ← hg]
      exact MRel.map_eq (genProg_norm hn2 p)
    · intro hw
      simp only [hw, if_true] at hg
      rw [parseSx_eq, ← hg]
      exact MRel.map_eq (genProg_norm hn2 (wrap p))

/-- When does Q-syntax get as far as `build`?  For a program whose references all exist: exactly when
every register size and every qubit index passes `validate_int` (a literal, or a let with an integral
value — `Count.intOK`) and no subcircuit stands directly inside a subcircuit (`innerOKs`).  In all other
cases the decorated function raises before `build` is called (that the class is `JaqalError` is checked by
the correspondence only).  Together with `C17_same`: for `p.wf ∧ p.qOK` all three front ends hand `build`
`norm`-equal S-expressions, and outside `qOK` Q-syntax produces no circuit at all. -/
theorem C17_q_accepts (p : Prog) (hwf : p.wf = true) : (∃ s, lowerQ p = .ok s) ↔ p.qOK = true :=
  lowerQ_ok_iff p hwf

/-- The text and builder-API lowerings are defined for every program whose references exist. -/
theorem C17_text_defined (p : Prog) (hwf : p.wf = true) : ∃ s, parseSx p = .ok s := by
  simp only [Prog.wf, Bool.and_eq_true] at hwf
  obtain ⟨⟨ln, rn⟩, hn⟩ := namer_total p.letNames p.regNames
  obtain ⟨h1, h2⟩ := namer_ok hn
  obtain ⟨l1, _⟩ := nameAll_spec _ _ _ h1
  obtain ⟨l2, _⟩ := nameAll_spec _ _ _ h2
  have hl1 : ln.length = p.lets.length := by simpa [Prog.letNames] using l1
  have hl2 : rn.length = p.regs.length := by simpa [Prog.regNames] using l2
  obtain ⟨regs, hr⟩ := declRegsSx_ok (ln := ln) rn p.regs (by rw [hl1]; exact hwf.1)
  obtain ⟨body, hb⟩ := genStmts_ok (.str "") (ln := ln) (rn := rn) p.body (by rw [hl1, hl2]; exact hwf.2)
  simp [parseSx_eq, genProg, hn, hr, hb, bind, Except.bind, pure, Except.pure]

/-! ## C17_wrap -/

/-- `circuit_from_stack` adds the implicit `prepare_all` / `measure_all` (`do_implicit_measure`) exactly
when the body does not begin with a prepare or a subcircuit, where "begins with" (`beginsPrepOrSub`)
looks at the FIRST statement only and descends into sequential blocks, parallel blocks and loops.

What the code does in the corner cases (all follow from this theorem; see the examples below):
* empty body: wrapped (`prepare_all; measure_all`) — agrees with the property text;
* first statement a loop / parallel / sequential block whose first statement is `prepare_all` (at any
  depth): NOT wrapped — agrees with the text read as "begins with";
* the loop count is not looked at: `loop 0 { prepare_all … }` followed by gates is not wrapped although no
  prepare is ever executed; an empty leading block hides a following prepare: `{ } ; prepare_all ; …` IS
  wrapped (two prepares in a row).  Both are literal readings of "begin with"; reported as observations. -/
theorem C17_wrap (p : Prog) (st : Stack) (h : runQ p = .ok st) :
    ∃ qs, st.iterStatements = .ok qs ∧ doImplicitMeasure qs = wraps p := by
  rw [runQ_eq] at h
  simp only [bind, Except.bind] at h
  cases hos : toRegObjs (letObjs p.lets) p.regs with
  | error e => simp [hos] at h
  | ok os =>
    cases hqs : toQs (letObjs p.lets) p.body with
    | error e => simp [hos, hqs] at h
    | ok qs =>
      simp only [hos, hqs, pure, Except.pure, Except.ok.injEq] at h
      subst h
      exact ⟨qs, rfl, doImplicit_eq hqs⟩

/-- `wraps` spelled out. -/
theorem C17_wrap_spec (p : Prog) : wraps p = true ↔ beginsPrepOrSub p.body = false := by
  simp [wraps]

/-- The shape of the result: the wrapped body is `prepare_all`, the body, `measure_all`. -/
theorem C17_wrap_shape (p : Prog) : (wrap p).body = .gate "prepare_all" [] :: (p.body ++ [.gate "measure_all" []]) := rfl

/-! ## C17_fresh -/

/-- The `Namer` never loops forever, keeps user names, and the names it generates (for anonymous lets
`genNames lets ln`, for anonymous registers `genNames regs rn`) are pairwise distinct — also across the
two kinds — and differ from every user name of either kind; for ALL user name lists, including names of
the form `__c0`, `__r3`. -/
theorem C17_fresh (lets regs : List (Option String)) :
    ∃ ln rn, namer lets regs = .ok (ln, rn) ∧
      ln.length = lets.length ∧ rn.length = regs.length ∧
      (∀ (i : Nat) (n : String), lets[i]? = some (some n) → ln[i]? = some n) ∧
      (∀ (i : Nat) (n : String), regs[i]? = some (some n) → rn[i]? = some n) ∧
      (genNames lets ln ++ genNames regs rn).Nodup ∧
      ∀ n ∈ genNames lets ln ++ genNames regs rn, n ∉ userNames lets regs := by
  obtain ⟨⟨ln, rn⟩, h⟩ := namer_total lets regs
  obtain ⟨h1, h2⟩ := namer_ok h
  obtain ⟨l1, u1, js, hp, _, hg, hf⟩ := nameAll_spec _ _ _ h1
  obtain ⟨l2, u2, ks, kp, _, kg, kf⟩ := nameAll_spec _ _ _ h2
  refine ⟨ln, rn, h, l1, l2, u1, u2, ?_, ?_⟩
  · rw [List.nodup_append]
    refine ⟨hg ▸ nodup_map_of_pairwise_lt letTemplate_inj hp,
      kg ▸ nodup_map_of_pairwise_lt regTemplate_inj kp, ?_⟩
    intro a ha b hb hab
    rw [hg] at ha; rw [kg] at hb
    obtain ⟨j, _, rfl⟩ := List.mem_map.1 ha
    obtain ⟨k, _, rfl⟩ := List.mem_map.1 hb
    exact letTemplate_ne_regTemplate j k hab
  · intro n hn
    rcases List.mem_append.1 hn with hn | hn
    · exact hf n hn
    · exact kf n hn

/-- The `Namer` before the repair skipped user names of the SAME kind only: a user register `__c0` and an
anonymous let collide (`build` then raises "already exists in context"). -/
theorem C17_fresh_old_counterexample :
    namerOld [none] [some "__c0"] = .ok (["__c0"], ["__c0"]) ∧
    namer [none] [some "__c0"] = .ok (["__c1"], ["__c0"]) := by decide

/-! ## Non-vacuity and the corner cases, on concrete programs -/

/-- `let __c0 2 ; <anonymous let> 0.5… ; register <anonymous>[__c0]`, a loop, a subcircuit without count. -/
def ex1 : Prog :=
  { lets := [⟨some "__c0", .int 2⟩, ⟨none, .int 1⟩],
    regs := [⟨none, .ref 0⟩],
    body := [.gate "X" [.qubit 0 (.ref 1)], .loop (.lit 3) [.par [.gate "Y" [.qubit 0 (.lit 0)], .gate "Z" [.num (.int 7)]]],
             .sub .absent [.gate "prepare_all" [], .gate "measure_all" []]] }

example : wraps ex1 = true := by decide
example : lowerQ ex1 = .ok (.list [.str "circuit",
    .list [.str "let", .str "__c0", .int 2], .list [.str "let", .str "__c1", .int 1],
    .list [.str "register", .str "__r0", .str "__c0"],
    .list [.str "gate", .str "prepare_all"],
    .list [.str "gate", .str "X", .list [.str "array_item", .str "__r0", .str "__c1"]],
    .list [.str "loop", .int 3, .list [.str "sequential_block", .list [.str "parallel_block",
      .list [.str "gate", .str "Y", .list [.str "array_item", .str "__r0", .int 0]],
      .list [.str "gate", .str "Z", .int 7]]]],
    .list [.str "subcircuit_block", .int 1, .list [.str "gate", .str "prepare_all"], .list [.str "gate", .str "measure_all"]],
    .list [.str "gate", .str "measure_all"]]) := by rfl
/-- … while the parser writes `""` and the builder API `None` for the absent count. -/
example : parseSx (wrap ex1) = .ok (.list [.str "circuit",
    .list [.str "let", .str "__c0", .int 2], .list [.str "let", .str "__c1", .int 1],
    .list [.str "register", .str "__r0", .str "__c0"],
    .list [.str "gate", .str "prepare_all"],
    .list [.str "gate", .str "X", .list [.str "array_item", .str "__r0", .str "__c1"]],
    .list [.str "loop", .int 3, .list [.str "sequential_block", .list [.str "parallel_block",
      .list [.str "gate", .str "Y", .list [.str "array_item", .str "__r0", .int 0]],
      .list [.str "gate", .str "Z", .int 7]]]],
    .list [.str "subcircuit_block", .str "", .list [.str "gate", .str "prepare_all"], .list [.str "gate", .str "measure_all"]],
    .list [.str "gate", .str "measure_all"]]) := by rfl
example : lowerQ ex1 ≈ parseSx (wrap ex1) := ((C17_same ex1).2 _ rfl).2 rfl

example : ex1.wf = true ∧ ex1.qOK = true := by decide
example : ∃ st, runQ ex1 = .ok st := ⟨_, rfl⟩

/-- Body beginning with a subcircuit: no wrap. -/
def ex2 : Prog := { lets := [], regs := [], body := [.sub (.given (.lit 10)) [.gate "prepare_all" [], .gate "measure_all" []]] }
example : wraps ex2 = false ∧ lowerQ ex2 = parseSx ex2 := ⟨rfl, rfl⟩

/-- Empty body: wrapped. -/
example : wraps ⟨[], [], []⟩ = true ∧
    lowerQ ⟨[], [], []⟩ = .ok (.list [.str "circuit", .list [.str "gate", .str "prepare_all"], .list [.str "gate", .str "measure_all"]]) :=
  ⟨rfl, rfl⟩

/-- First statement a loop (or a parallel block) whose first statement is `prepare_all`: not wrapped. -/
example : wraps ⟨[], [], [.loop (.lit 2) [.gate "prepare_all" [], .gate "measure_all" []]]⟩ = false := by decide
example : wraps ⟨[], [], [.par [.gate "prepare_all" [], .gate "X" []]]⟩ = false := by decide
/-- OBSERVATION: the loop count is not looked at — nothing is prepared at run time, yet no wrap. -/
example : wraps ⟨[], [], [.loop (.lit 0) [.gate "prepare_all" []], .gate "X" []]⟩ = false := by decide
/-- OBSERVATION: an empty leading block hides the prepare that follows — wrapped, two prepares in a row. -/
example : wraps ⟨[], [], [.seq [], .gate "prepare_all" [], .gate "measure_all" []]⟩ = true := by decide

/-- `Q.subcircuit(None)` (a `QSubcircuitBlock` whose `argument is None`) gets the default count `1` and nothing
else — the same S-expression as `Q.subcircuit()`.  (Before today's repair of `QBlock.build` — the
`lookup_object(self.argument)` line was not in an `else` — it also got a `None` where the first statement
belongs.)  A loop without argument is refused. -/
theorem C17_subcircuit_none_argument :
    buildQ [] [] (.block .sub .none [.gateCall "X" []])
      = .ok (.list [.str "subcircuit_block", .int 1, .list [.str "gate", .str "X"]]) ∧
    buildQ [] [] (.block .sub .none [.gateCall "X" []]) = buildQ [] [] (.block .sub (subCountVal .absent) [.gateCall "X" []]) ∧
    buildQ [] [] (.block .loop .none []) = .error (.jaqal "requires an argument") := ⟨rfl, rfl, rfl⟩

/-- A register sized by a let with a non-integral value: Q-syntax refuses it in `validate_int`, before `build`;
the other two front ends produce the S-expression and it is `build` that refuses it (`Register.__init__`:
"Cannot size register … of non-integer kind", today's repair — before it text and builder API accepted
`let n 0.5; register q[n]`).  `parseSx` / `lowerOO` only produce S-expressions, so the agreement of the
three front ends on such programs is a fact about `build`, checked by the correspondence (oracle
`three_equal`), not by a theorem here. -/
example : lowerQ ⟨[⟨some "n", .flt ⟨false, 5, -1⟩⟩], [⟨some "q", .ref 0⟩], []⟩ = .error (.jaqal "Invalid int value") ∧
    parseSx ⟨[⟨some "n", .flt ⟨false, 5, -1⟩⟩], [⟨some "q", .ref 0⟩], []⟩
      = .ok (.list [.str "circuit", .list [.str "let", .str "n", .flt ⟨false, 5, -1⟩], .list [.str "register", .str "q", .str "n"]]) :=
  ⟨rfl, rfl⟩

/-- Non-vacuity of `C17_fresh` on names shaped like generated ones, in both namespaces. -/
example : namer [some "__c0", none, some "__r0", none] [some "__c1", none, none, some "__r2"]
    = .ok (["__c0", "__c2", "__r0", "__c3"], ["__c1", "__r1", "__r3", "__r2"]) := by decide

end Jaqal.FrontEnds

#print axioms Jaqal.FrontEnds.C17_same
#print axioms Jaqal.FrontEnds.C17_q_accepts
#print axioms Jaqal.FrontEnds.C17_text_defined
#print axioms Jaqal.FrontEnds.C17_wrap
#print axioms Jaqal.FrontEnds.C17_wrap_spec
#print axioms Jaqal.FrontEnds.C17_fresh
#print axioms Jaqal.FrontEnds.C17_fresh_old_counterexample
#print axioms Jaqal.FrontEnds.C17_subcircuit_none_argument
