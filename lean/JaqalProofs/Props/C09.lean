import JaqalProofs.Lemmas.ExpandSubcircuits
/-!
# C09 — expanding subcircuits (structural half)

`expandSubcircuits` (model of `expand_subcircuits`) is the tree map `spell p m`, where `p = prepare_def()` and
`m = measure_def()` are the bounding gate statements: every subcircuit block
`.block par true it B` becomes `.block par false 1 (p :: B' ++ [m])` (`B'` = the spelled-out statements of `B`),
every other block keeps its kind and statements (its iteration count, which is 1 for a non-subcircuit block, is
written as 1), loops keep their counts, gate statements are untouched; the same in every macro body; header data
are copied.

A bounding NAME (the caller's string, or the default `prepare_all` / `measure_all`) that is defined as a macro of the
circuit is refused with `JaqalError` before anything else (`C09_macro_clash`); all other theorems are about a run that
succeeds, which implies there is no such clash.

What the code does and the one-line summary of C09 does not say: the ITERATION COUNT of a subcircuit block
(`subcircuit 100 { … }`) is dropped by the pass (`BlockStatement(parallel=block.parallel, statements=…)`), and the
`parallel` flag of the block is kept (the grammar only produces sequential subcircuit blocks).

The execution half of C09 (same runs, same reported outputs for both spellings) belongs to the walker component
(C08/C12); the link stated here is `C09_flat` / `C09_flat_sem`: after expansion the flat gate sequence of
`subcircuit { B }` is `prepare :: flat B ++ [measure]`.
-/
namespace Jaqal.ExpandSubcircuits
open Jaqal

/-- the prepare statement the pass inserts -/
def prepStmt (prep : Option GateDefChoice) (c : Circuit) : Stmt := boundGate (chooseBounding prep "prepare_all" c)
/-- the measure statement the pass inserts -/
def measStmt (meas : Option GateDefChoice) (c : Circuit) : Stmt := boundGate (chooseBounding meas "measure_all" c)

def spellMacro (p m : Stmt) (mc : Macro) : Macro := { name := mc.name, params := mc.params, body := spell p m mc.body }

/-- unfolding of the pass when it succeeds -/
theorem expand_ok {prep meas : Option GateDefChoice} {c c' : Circuit} (h : expandSubcircuits prep meas c = .ok c') :
    ∃ stmts, statementsOf (spell (prepStmt prep c) (measStmt meas c) c.body) = .ok stmts ∧
      loopsOk c.body = true ∧ (∀ m ∈ c.macros, loopsOk m.body = true) ∧
      boundingClash prep "prepare_all" c = false ∧ boundingClash meas "measure_all" c = false ∧
      c' = { usepulses := c.usepulses, constants := c.constants, registers := c.registers,
             macros := c.macros.map (spellMacro (prepStmt prep c) (measStmt meas c)), natives := c.natives,
             body := .block false false (.int 1) stmts } := by
  obtain ⟨hcp, hcm⟩ := expandSubcircuits_ok_noclash h
  rw [expandSubcircuits_noclash hcp hcm] at h
  unfold expandCore at h
  simp only [bind, Except.bind] at h
  cases hm : visitMacros (chooseBounding prep "prepare_all" c) (chooseBounding meas "measure_all" c) c.macros with
  | error e => rw [hm] at h; cases h
  | ok ms =>
    rw [hm] at h; simp only at h
    cases hb : visitStmt (chooseBounding prep "prepare_all" c) (chooseBounding meas "measure_all" c) c.body with
    | error e => rw [hb] at h; cases h
    | ok b =>
      rw [hb] at h; simp only at h
      cases hs : statementsOf b with
      | error e => rw [hs] at h; cases h
      | ok stmts =>
        rw [hs] at h; simp only [pure, Except.pure, Except.ok.injEq] at h
        refine ⟨stmts, ?_, visitStmt_loopsOk _ _ _ _ hb, visitMacros_loopsOk _ _ _ _ hm, hcp, hcm, ?_⟩
        · unfold prepStmt measStmt; rw [← visitStmt_spell _ _ _ _ hb]; exact hs
        · rw [← h, visitMacros_eq _ _ _ _ hm]; rfl

/-- **C09_shape.** The result is the tree map `spell` of the input: on the body (whose statements are put into a fresh
sequential top-level block) and on every macro body. -/
theorem C09_shape {prep meas : Option GateDefChoice} {c c' : Circuit} (h : expandSubcircuits prep meas c = .ok c') :
    c'.macros = c.macros.map (spellMacro (prepStmt prep c) (measStmt meas c)) ∧
    ∃ stmts, statementsOf (spell (prepStmt prep c) (measStmt meas c) c.body) = .ok stmts ∧
      c'.body = .block false false (.int 1) stmts := by
  obtain ⟨stmts, hs, hlb, hlm, hcp, hcm, rfl⟩ := expand_ok h
  exact ⟨rfl, stmts, hs, rfl⟩

/-- what `spell` does to a subcircuit block: a block of the same `parallel` flag, no longer a subcircuit, iteration
count 1, that begins with the prepare statement and ends with the measure statement -/
theorem C09_shape_subcircuit (p m : Stmt) (par : Bool) (it : Val) (B : List Stmt) :
    spell p m (.block par true it B) = .block par false (.int 1) (p :: spellList p m B ++ [m]) := by
  simp [spell]

/-- … to any other block, to loops and to gate statements: nothing but the recursion -/
theorem C09_shape_other (p m : Stmt) :
    (∀ par it B, spell p m (.block par false it B) = .block par false (.int 1) (spellList p m B)) ∧
    (∀ n b, spell p m (.loop n b) = .loop n (spell p m b)) ∧
    (∀ n gd a, spell p m (.gate n gd a) = .gate n gd a) := by
  refine ⟨?_, ?_, ?_⟩ <;> intros <;> simp [spell]

/-- for a circuit whose body is an ordinary top-level block (what the builder makes) the new body IS the spelled-out body -/
theorem C09_shape_body {prep meas : Option GateDefChoice} {c c' : Circuit} {it : Val} {b : List Stmt}
    (hb : c.body = .block false false it b) (h : expandSubcircuits prep meas c = .ok c') :
    c'.body = spell (prepStmt prep c) (measStmt meas c) c.body := by
  obtain ⟨stmts, hs, hlb, hlm, hcp, hcm, rfl⟩ := expand_ok h
  rw [hb] at hs ⊢
  simp only [spell, Bool.false_eq_true, if_false, statementsOf, pure, Except.pure, Except.ok.injEq] at hs ⊢
  rw [hs]

/-- **C09_none_left.** No subcircuit block remains, neither in the body nor in a macro. -/
theorem C09_none_left {prep meas : Option GateDefChoice} {c c' : Circuit} (h : expandSubcircuits prep meas c = .ok c') :
    hasSub c'.body = false ∧ ∀ mc ∈ c'.macros, hasSub mc.body = false := by
  obtain ⟨stmts, hs, hlb, hlm, hcp, hcm, rfl⟩ := expand_ok h
  have hp : hasSub (prepStmt prep c) = false := by simp [prepStmt, boundGate, hasSub]
  have hm : hasSub (measStmt meas c) = false := by simp [measStmt, boundGate, hasSub]
  constructor
  · have h1 := hasSub_spell _ _ hp hm c.body
    simp only [hasSub, Bool.false_or]
    exact hasSubList_of_statements _ _ h1 hs
  · intro mc hmc
    simp only [List.mem_map] at hmc
    obtain ⟨m0, _, rfl⟩ := hmc
    exact hasSub_spell _ _ hp hm m0.body

/-- **C09_defs.** Which definition the inserted statements call: the caller's definition object when one is supplied;
otherwise the circuit's native gate of the supplied (or default) name when there is one; otherwise a fresh
parameterless definition of that name.  The inserted statements are `gd()`: no arguments. -/
theorem C09_defs (c : Circuit) :
    (∀ g dflt, chooseBounding (some (.defn g)) dflt c = g) ∧
    (∀ n g dflt, findNative c n = some g → chooseBounding (some (.name n)) dflt c = g) ∧
    (∀ n dflt, findNative c n = none → chooseBounding (some (.name n)) dflt c = freshDef n) ∧
    (∀ g dflt, findNative c dflt = some g → chooseBounding none dflt c = g) ∧
    (∀ dflt, findNative c dflt = none → chooseBounding none dflt c = freshDef dflt) ∧
    (∀ prep, prepStmt prep c = .gate (chooseBounding prep "prepare_all" c).name (chooseBounding prep "prepare_all" c) []) ∧
    (∀ meas, measStmt meas c = .gate (chooseBounding meas "measure_all" c).name (chooseBounding meas "measure_all" c) []) := by
  refine ⟨?_, ?_, ?_, ?_, ?_, ?_, ?_⟩ <;> intros <;> simp_all [chooseBounding, prepStmt, measStmt, boundGate]

/-- the native definition is found by its name -/
theorem C09_defs_native (c : Circuit) (n : String) (g : GateDef) (h : findNative c n = some g) : g ∈ c.natives ∧ g.name = n := by
  unfold findNative at h
  exact ⟨List.mem_of_find?_eq_some h, by simpa using List.find?_some h⟩

/-- **C09_header.** -/
theorem C09_header {prep meas : Option GateDefChoice} {c c' : Circuit} (h : expandSubcircuits prep meas c = .ok c') :
    c'.constants = c.constants ∧ c'.registers = c.registers ∧ c'.natives = c.natives ∧ c'.usepulses = c.usepulses ∧
    c'.macros.map (·.name) = c.macros.map (·.name) ∧ c'.macros.map (·.params) = c.macros.map (·.params) := by
  obtain ⟨stmts, hs, hlb, hlm, hcp, hcm, rfl⟩ := expand_ok h
  refine ⟨rfl, rfl, rfl, rfl, ?_, ?_⟩ <;> simp [spellMacro, Function.comp_def]

/-- **C09_flat.** The gate statements of the result, in textual order, are those of the input with the gates of each
subcircuit block bracketed by the prepare and the measure statement.  In particular (`C09_flat_subcircuit`) the flat
sequence of an expanded `subcircuit { B }` is `prepare :: flat B' ++ [measure]`. -/
theorem C09_flat {prep meas : Option GateDefChoice} {c c' : Circuit} {it : Val} {b : List Stmt}
    (hb : c.body = .block false false it b) (h : expandSubcircuits prep meas c = .ok c') :
    flatG c'.body = flatB (prepStmt prep c) (measStmt meas c) c.body := by
  rw [C09_shape_body hb h]
  exact flatG_spell _ _ (by simp [prepStmt, boundGate, flatG]) (by simp [measStmt, boundGate, flatG]) _

theorem C09_flat_subcircuit (pd md : GateDef) (par : Bool) (it : Val) (B : List Stmt) :
    flatG (spell (boundGate pd) (boundGate md) (.block par true it B))
      = boundGate pd :: flatGList (spellList (boundGate pd) (boundGate md) B) ++ [boundGate md] := by
  simp [spell, flatG, flatGList, flatGList_append, boundGate]

/-- the same link on the meaning: when neither bounding name is a macro, the meaning of an expanded subcircuit block
is a block whose flat gate sequence is `(prepare, []) :: flat (meaning of the expanded statements) ++ [(measure, [])]` -/
theorem C09_flat_sem (ρ : Sem.Env) (mden : Sem.MacroDen) (bnd : Sem.Bind) (pd md : GateDef) (par : Bool) (it : Val) (B : List Stmt)
    (sem : Sem.Sem) (hp : Sem.lookup mden pd.name = none) (hm : Sem.lookup mden md.name = none)
    (h : Sem.evalStmt ρ mden bnd (spell (boundGate pd) (boundGate md) (.block par true it B)) = .ok sem) :
    ∃ sems, Sem.evalStmts ρ mden bnd (spellList (boundGate pd) (boundGate md) B) = .ok sems ∧
      sem = .blk par false 1 (.gate pd.name [] :: sems ++ [.gate md.name []]) ∧
      sem.flat = (pd.name, []) :: Sem.flatList sems ++ [(md.name, [])] := by
  have evalStmts_append : ∀ (l : List Stmt) (x : Stmt) (r : List Sem.Sem),
      Sem.evalStmts ρ mden bnd (l ++ [x]) = .ok r →
      ∃ a y, Sem.evalStmts ρ mden bnd l = .ok a ∧ Sem.evalStmt ρ mden bnd x = .ok y ∧ r = a ++ [y] := by
    intro l
    induction l with
    | nil =>
      intro x r h
      simp only [List.nil_append, Sem.evalStmts, bind, Except.bind, pure, Except.pure] at h
      cases hx : Sem.evalStmt ρ mden bnd x with
      | error e => rw [hx] at h; cases h
      | ok y => rw [hx] at h; simp only [Except.ok.injEq] at h; exact ⟨[], y, by simp [Sem.evalStmts, pure, Except.pure], rfl, by simp [← h]⟩
    | cons s l ih =>
      intro x r h
      simp only [List.cons_append, Sem.evalStmts, bind, Except.bind] at h
      cases hs : Sem.evalStmt ρ mden bnd s with
      | error e => rw [hs] at h; cases h
      | ok ys =>
        rw [hs] at h; simp only at h
        cases hr : Sem.evalStmts ρ mden bnd (l ++ [x]) with
        | error e => rw [hr] at h; cases h
        | ok r' =>
          rw [hr] at h; simp only [pure, Except.pure, Except.ok.injEq] at h
          obtain ⟨a, y, ha, hy, rfl⟩ := ih x r' hr
          exact ⟨ys :: a, y, by simp [Sem.evalStmts, hs, ha, bind, Except.bind, pure, Except.pure], hy, by simp [← h]⟩
  have flatList_append : ∀ (a b : List Sem.Sem), Sem.flatList (a ++ b) = Sem.flatList a ++ Sem.flatList b := by
    intro a b; induction a with
    | nil => simp [Sem.flatList]
    | cons s r ih => simp [Sem.flatList, ih]
  have gateEval : ∀ gd : GateDef, Sem.lookup mden gd.name = none →
      Sem.evalStmt ρ mden bnd (boundGate gd) = .ok (.gate gd.name []) := by
    intro gd hl
    simp [boundGate, Sem.evalStmt, hl, bind, Except.bind, pure, Except.pure]
  simp only [spell, if_true, Sem.evalStmt, List.cons_append, Sem.evalStmts, bind, Except.bind] at h
  simp only [Sem.evalInt, Sem.evalNum, bind, Except.bind, pure, Except.pure, gateEval pd hp] at h
  cases hr : Sem.evalStmts ρ mden bnd (spellList (boundGate pd) (boundGate md) B ++ [boundGate md]) with
  | error e => rw [hr] at h; cases h
  | ok r =>
    rw [hr] at h; simp only [Except.ok.injEq] at h
    obtain ⟨a, y, ha, hy, rfl⟩ := evalStmts_append _ _ _ hr
    rw [gateEval md hm] at hy; simp only [Except.ok.injEq] at hy; subst hy
    refine ⟨a, ha, h.symm, ?_⟩
    rw [← h]; simp [Sem.Sem.flat, Sem.flatList, flatList_append]

/-- **C09_idempotent.** A second run (same choices) changes nothing. -/
theorem C09_idempotent {prep meas : Option GateDefChoice} {c c' : Circuit} (h : expandSubcircuits prep meas c = .ok c') :
    expandSubcircuits prep meas c' = .ok c' := by
  have hnone := C09_none_left h
  obtain ⟨stmts, hs, hlb, hlm, hcp, hcm, rfl⟩ := expand_ok h
  -- same natives, so the same bounding definitions
  have hp : hasSub (prepStmt prep c) = false := by simp [prepStmt, boundGate, hasSub]
  have hm : hasSub (measStmt meas c) = false := by simp [measStmt, boundGate, hasSub]
  have hpp : spell (prepStmt prep c) (measStmt meas c) (prepStmt prep c) = prepStmt prep c := by simp [prepStmt, boundGate, spell]
  have hmm : spell (prepStmt prep c) (measStmt meas c) (measStmt meas c) = measStmt meas c := by simp [measStmt, boundGate, spell]
  -- the statements of the new body are already spelled out
  have hst : spellList (prepStmt prep c) (measStmt meas c) stmts = stmts := by
    exact spellList_of_statements _ _ hp hm hpp hmm c.body stmts hs
  have hch1 : chooseBounding prep "prepare_all"
      { usepulses := c.usepulses, constants := c.constants, registers := c.registers,
        macros := c.macros.map (spellMacro (prepStmt prep c) (measStmt meas c)), natives := c.natives,
        body := .block false false (.int 1) stmts } = chooseBounding prep "prepare_all" c := by
    cases prep with
    | none => rfl
    | some u => cases u <;> rfl
  have hch2 : chooseBounding meas "measure_all"
      { usepulses := c.usepulses, constants := c.constants, registers := c.registers,
        macros := c.macros.map (spellMacro (prepStmt prep c) (measStmt meas c)), natives := c.natives,
        body := .block false false (.int 1) stmts } = chooseBounding meas "measure_all" c := by
    cases meas with
    | none => rfl
    | some u => cases u <;> rfl
  have hcl : ∀ (u : Option GateDefChoice) (d : String), boundingClash u d
      { usepulses := c.usepulses, constants := c.constants, registers := c.registers,
        macros := c.macros.map (spellMacro (prepStmt prep c) (measStmt meas c)), natives := c.natives,
        body := .block false false (.int 1) stmts } = boundingClash u d c := by
    intro u d
    unfold boundingClash
    cases boundingName u d with
    | none => rfl
    | some n => simp [List.any_map, spellMacro, Function.comp_def]
  rw [expandSubcircuits_noclash (by rw [hcl]; exact hcp) (by rw [hcl]; exact hcm)]
  unfold expandCore
  simp only [hch1, hch2]
  have hlp : loopsOk (prepStmt prep c) = true := by simp [prepStmt, boundGate, loopsOk]
  have hlq : loopsOk (measStmt meas c) = true := by simp [measStmt, boundGate, loopsOk]
  have hmac := visitMacros_ok (chooseBounding prep "prepare_all" c) (chooseBounding meas "measure_all" c)
    (c.macros.map (spellMacro (prepStmt prep c) (measStmt meas c))) (Or.inr hnone.2) (by
      intro mc hmc
      simp only [List.mem_map] at hmc
      obtain ⟨m0, hm0, rfl⟩ := hmc
      simp only [spellMacro]
      rw [loopsOk_spell _ _ hlp hlq]; exact hlm m0 hm0)
  have hbody := visitStmt_ok (chooseBounding prep "prepare_all" c) (chooseBounding meas "measure_all" c)
    (.block false false (.int 1) stmts) (Or.inr hnone.1) (by
      simp only [loopsOk]
      exact loopsOkList_of_statements _ _ (by rw [loopsOk_spell _ _ hlp hlq]; exact hlb) hs)
  simp only [bind, Except.bind, hmac, hbody]
  have e1 : boundGate (chooseBounding prep "prepare_all" c) = prepStmt prep c := rfl
  have e2 : boundGate (chooseBounding meas "measure_all" c) = measStmt meas c := rfl
  simp only [e1, e2, spell, Bool.false_eq_true, if_false, statementsOf, pure, Except.pure, hst, List.map_map]
  congr 2
  apply List.map_congr_left
  intro mc _
  simp [spellMacro, Function.comp, spell_spell _ _ hp hm hpp hmm]

/-- **C09_total.** The pass fails only on a subcircuit block whose bounding definition takes parameters (and on a loop
whose count is a float, which `LoopStatement` itself rejects): and when a bounding NAME is defined as a macro (`C09_macro_clash`): with
parameterless definitions (the default) whose names are not macros, legal loop counts and a block as body it succeeds. -/
theorem C09_total (prep meas : Option GateDefChoice) (c : Circuit) (par sub : Bool) (it : Val) (b : List Stmt)
    (hb : c.body = .block par sub it b) (hlb : loopsOk c.body = true) (hlm : ∀ m ∈ c.macros, loopsOk m.body = true)
    (hcp : boundingClash prep "prepare_all" c = false) (hcm : boundingClash meas "measure_all" c = false)
    (hp : (chooseBounding prep "prepare_all" c).params = []) (hm : (chooseBounding meas "measure_all" c).params = []) :
    ∃ c', expandSubcircuits prep meas c = .ok c' := by
  rw [expandSubcircuits_noclash hcp hcm]
  unfold expandCore
  simp only [bind, Except.bind, visitMacros_ok _ _ c.macros (Or.inl ⟨hp, hm⟩) hlm, visitStmt_ok _ _ c.body (Or.inl ⟨hp, hm⟩) hlb]
  rw [hb]
  cases sub <;> simp [spell, statementsOf, pure, Except.pure]

/-- a bounding definition WITH parameters makes the pass raise `JaqalError` at the first subcircuit block -/
theorem C09_param_rejected (prep meas : Option GateDefChoice) (c : Circuit) (par : Bool) (it : Val) (b : List Stmt)
    (hmac : c.macros = []) (hb : c.body = .block par true it b)
    (hp : (chooseBounding prep "prepare_all" c).params ≠ []) :
    ∃ r, expandSubcircuits prep meas c = .error (.jaqal r) := by
  have hcl : ∀ (u : Option GateDefChoice) (d : String), boundingClash u d c = false := by
    intro u d; unfold boundingClash; cases boundingName u d <;> simp [hmac]
  rw [expandSubcircuits_noclash (hcl _ _) (hcl _ _)]
  unfold expandCore
  simp only [hmac, visitMacros, hb, visitStmt, if_true, bind, Except.bind, pure, Except.pure, callPos_nil, hp, if_false]
  exact ⟨_, rfl⟩

/-- **C09_macro_clash.** A bounding name — the caller's string or the default `prepare_all` / `measure_all` — that is
defined as a macro of the circuit makes the pass raise `JaqalError`, whether or not a subcircuit block occurs; a
definition OBJECT supplied by the caller is never checked. -/
theorem C09_macro_clash (prep meas : Option GateDefChoice) (c : Circuit)
    (h : boundingClash prep "prepare_all" c = true ∨ boundingClash meas "measure_all" c = true) :
    expandSubcircuits prep meas c = .error (.jaqal "bounding-name-is-a-macro") := by
  rw [expandSubcircuits_eq]
  rcases h with h | h
  · simp [h]
  · cases boundingClash prep "prepare_all" c <;> simp [h]

theorem C09_macro_clash_iff (user : Option GateDefChoice) (dflt : String) (c : Circuit) :
    boundingClash user dflt c = true ↔
      ∃ n, boundingName user dflt = some n ∧ ∃ m ∈ c.macros, m.name = n := by
  unfold boundingClash
  cases boundingName user dflt with
  | none => simp
  | some n => simp [List.any_eq_true]

theorem C09_defn_never_clashes (g : GateDef) (dflt : String) (c : Circuit) :
    boundingClash (some (.defn g)) dflt c = false := rfl

/-- **C09_total_class.** Whenever the pass rejects a circuit (whose body is a block, as every built circuit's is) the
exception is a `JaqalError`: a bounding name that is a macro, a bounding definition with parameters, or a loop count
`LoopStatement` refuses. -/
theorem C09_total_class (prep meas : Option GateDefChoice) (c : Circuit) (par sub : Bool) (it : Val) (b : List Stmt)
    (hb : c.body = .block par sub it b) :
    ∀ err, expandSubcircuits prep meas c = .error err → ∃ r, err = .jaqal r := by
  have h : JaqalOnly (expandSubcircuits prep meas c) := by
    rw [expandSubcircuits_eq]
    apply JaqalOnly.ite (JaqalOnly.jaqal _)
    apply JaqalOnly.ite (JaqalOnly.jaqal _)
    unfold expandCore
    apply JaqalOnly.bind (visitMacros_class _ _ _)
    intro ms _
    apply JaqalOnly.bind (visitStmt_class _ _ _)
    intro body hbody
    have := visitStmt_spell _ _ _ _ hbody
    rw [hb] at this
    subst this
    cases sub <;> simp only [spell, if_true, Bool.false_eq_true, if_false, statementsOf] <;>
      exact JaqalOnly.bind (JaqalOnly.pure _) (fun _ _ => JaqalOnly.pure _)
  exact h

/-! ## Non-vacuity -/

/-- `register r[2]; macro F x { subcircuit 5 { X x } }; loop 3 { subcircuit { F r[0]; < X r[1] > } }` with native
`prepare_all`, `measure_all`, `X` -/
def exX : GateDef := { name := "X", tag := .native, params := [("q", .qubit)], hasUnitary := true }
def exPrep : GateDef := { name := "prepare_all", tag := .busy, params := [] }
def exMeas : GateDef := { name := "measure_all", tag := .busy, params := [] }
def exR : Val := .regF "r" (.int 2)
def exF : Macro :=
  { name := "F", params := [("x", .none)],
    body := .block false false (.int 1) [.block false true (.int 5) [.gate "X" exX [("q", .param "x" .none)]]] }
def exFdef : GateDef := { name := "F", tag := .macro, params := [("x", .none)] }
def exCircuit : Circuit :=
  { registers := [exR], macros := [exF], natives := [exX, exPrep, exMeas],
    body := .block false false (.int 1)
      [.loop (.int 3) (.block false false (.int 1)
        [.block false true (.int 1)
          [.gate "F" exFdef [("x", .qubit "r[0]" exR (.int 0))],
           .block true false (.int 1) [.gate "X" exX [("q", .qubit "r[1]" exR (.int 1))]]]])] }

def exResult : Circuit :=
  { registers := [exR], natives := [exX, exPrep, exMeas],
    macros := [Macro.mk "F" [("x", .none)] (.block false false (.int 1) [.block false false (.int 1)
        [.gate "prepare_all" exPrep [], .gate "X" exX [("q", .param "x" .none)], .gate "measure_all" exMeas []]])],
    body := .block false false (.int 1)
      [.loop (.int 3) (.block false false (.int 1)
        [.block false false (.int 1)
          [.gate "prepare_all" exPrep [],
           .gate "F" exFdef [("x", .qubit "r[0]" exR (.int 0))],
           .block true false (.int 1) [.gate "X" exX [("q", .qubit "r[1]" exR (.int 1))]],
           .gate "measure_all" exMeas []]])] }

/-- the hypothesis of every theorem above is satisfiable by a circuit with subcircuit blocks in the body and in a macro;
the native definitions are the ones used -/
example : ∃ c', expandSubcircuits none none exCircuit = .ok c' ∧ hasSub exCircuit.body = true ∧
    chooseBounding none "prepare_all" exCircuit = exPrep := by
  refine ⟨exResult, ?_, by decide, by decide⟩
  rfl

/-- the caller's definition is used when supplied; a fresh definition when the circuit has no native of that name -/
example : chooseBounding (some (.defn exMeas)) "prepare_all" exCircuit = exMeas ∧
    chooseBounding (some (.name "nosuch")) "prepare_all" exCircuit = freshDef "nosuch" := by decide

/-- a bounding definition with a parameter is rejected -/
example : ∃ r, expandSubcircuits (some (.name "X")) none
    { exCircuit with macros := [], body := .block false true (.int 1) [] } = .error (.jaqal r) :=
  C09_param_rejected _ _ _ false (.int 1) [] rfl rfl (by decide)

/-- `macro prepare_all { }` in a circuit without native gates: the default bounding name is a macro, the pass refuses
(also without any subcircuit block); a definition object supplied by the caller is not checked -/
def exClash : Circuit :=
  { macros := [Macro.mk "prepare_all" [] (.block false false (.int 1) [])],
    body := .block false false (.int 1) [.block false true (.int 1) []] }

example : expandSubcircuits none none exClash = .error (.jaqal "bounding-name-is-a-macro") :=
  C09_macro_clash none none exClash (Or.inl (by decide))

example : ∃ c', expandSubcircuits (some (.defn exPrep)) none exClash = .ok c' := ⟨_, rfl⟩

end Jaqal.ExpandSubcircuits

#print axioms Jaqal.ExpandSubcircuits.C09_shape
#print axioms Jaqal.ExpandSubcircuits.C09_shape_subcircuit
#print axioms Jaqal.ExpandSubcircuits.C09_shape_other
#print axioms Jaqal.ExpandSubcircuits.C09_shape_body
#print axioms Jaqal.ExpandSubcircuits.C09_none_left
#print axioms Jaqal.ExpandSubcircuits.C09_defs
#print axioms Jaqal.ExpandSubcircuits.C09_defs_native
#print axioms Jaqal.ExpandSubcircuits.C09_header
#print axioms Jaqal.ExpandSubcircuits.C09_flat
#print axioms Jaqal.ExpandSubcircuits.C09_flat_subcircuit
#print axioms Jaqal.ExpandSubcircuits.C09_flat_sem
#print axioms Jaqal.ExpandSubcircuits.C09_idempotent
#print axioms Jaqal.ExpandSubcircuits.C09_total
#print axioms Jaqal.ExpandSubcircuits.C09_param_rejected
#print axioms Jaqal.ExpandSubcircuits.C09_total_class
#print axioms Jaqal.ExpandSubcircuits.C09_macro_clash
#print axioms Jaqal.ExpandSubcircuits.C09_macro_clash_iff
