import JaqalProofs.Props.C20Autoload
/-!
# C01 with `autoload_pulses` on or off

Every theorem of `Props/C01.lean` about circuits in the range of `parseProgram` carries `cfg.autoload = false`.

**Where the hypothesis is used.**  In one place only: the `usepulses` case of `Builder.stepTail`
(`Model/Builder.lean`), reached through `step_usepulses` (`Lemmas/RoundTripProgram.lean`), `stepTail_eq` / `step_apply`
(`Lemmas/RoundTripSwap.lean`), `loop_usepulses` (`Lemmas/FillInBuild.lean`); every other lemma of the chain only hands
it down.  With autoload off a `usepulses` statement is recorded and nothing else happens.  With autoload on it is refused
after the first statement or macro, needs `cfg.imports module` to be there, and REPLACES the gate table and the
native-gate table by `updateGates … (cfg.imports module)` (gates named like an injected one are skipped when
`inject_pulses` is a non-empty table).  Outside that case the builder looks at `cfg` only through
`cfg.anonymousAllowed`, false whenever autoload is on.

**The statements are true with autoload on, re-parsing with the same `cfg`** (same `inject_pulses`, same modules), and
are proved here with NO hypothesis on `cfg.imports` (the modules may redefine each other's gates, redefine nothing, hold
the same gate twice, …; a module that is missing makes the first parse fail).  The proof
(`Lemmas/RoundTripAutoload.lean`) does not redo the chain: a successful run of the autoload builder on a program of the
grammar IS a run of the builder with autoload off, unknown gates refused, from the loaded table (`auto_to_plain`); the
loop-level lemmas of the chain apply to that run; and on the generator's tree — `usepulses` statements first — a run of
the plain builder from the loaded table is a run of the autoload builder from the injected one (`plain_to_auto`).

The integer bound `IntsBounded` stays: it has nothing to do with autoload (`C01_big_stop`).
-/
namespace Jaqal.C01
open Jaqal Jaqal.Lexer Jaqal.Parser Jaqal.Grammar Jaqal.Builder Jaqal.Generator Jaqal.PyEq Jaqal.Pipeline Jaqal.RoundTrip
open Jaqal.Autoload

/-- `C01_built_facts` for every configuration -/
theorem C01_built_facts_any (cfg : Config) (txt : String) (c : Circuit) (h : parseProgram cfg txt = .ok c) :
    BuiltFacts c := by
  obtain ⟨sx, hs, bs, _, _, hh, hb, hnb, _, hnm, _, _, _⟩ := parseProgram_shape h
  exact buildNoMemo_facts_any cfg hh hb hnb hnm

/-- **Every circuit the parser and builder produce is printable**, `autoload_pulses` on or off -/
theorem C01_printable_any (cfg : Config) (txt : String) (c : Circuit) (h : parseProgram cfg txt = .ok c) :
    printable c = true :=
  (C01_built_facts_any cfg txt c h).printable

theorem C01_no_same_kind_nesting_any (cfg : Config) (txt : String) (c : Circuit) (h : parseProgram cfg txt = .ok c) :
    NoSameKindNesting c :=
  (C01_built_facts_any cfg txt c h).noNesting

/-- a parser-produced circuit is well-formed in the sense of `C20_refl` (hence `c == c`), every configuration -/
theorem C01_wf_any (cfg : Config) (txt : String) (c : Circuit) (h : parseProgram cfg txt = .ok c) : WF c :=
  parsed_wf_any h

/-- **Layer C for every accepted text, every configuration**: parsing what the generator's tree says, in the same
configuration, gives back the circuit itself — whatever the order of the header statements of the text (`usepulses`
statements may stand between lets, the register and the aliases; the generator writes them first). -/
theorem C01_rebuild_exact_any (cfg : Config) (txt : String) (c : Circuit) (h : parseProgram cfg txt = .ok c) :
    parseBuild cfg (unbuild c) = .ok c := by
  obtain ⟨sx, hs, bs, _, _, hh, hb, hnb, _, hnm, _, _, ht⟩ := parseProgram_shape h
  have hone : (c.registers.filter isFundamental).length ≤ 1 := by
    unfold tooManyRegisters at ht
    split at ht
    · simp [throw_eq] at ht
    · omega
  have hre := buildNoMemo_rebuild_any cfg hh hb hnb hnm hone
  unfold parseBuild
  rw [C07_memo_transparent, hre]
  exact ht

theorem C01_rebuild_any (cfg : Config) (txt : String) (c : Circuit) (h : parseProgram cfg txt = .ok c) :
    Rebuild cfg c :=
  ⟨c, C01_rebuild_exact_any cfg txt c h, C20.C20_refl c (C01_wf_any cfg txt c h), rfl⟩

/-- `C01_lexsafe` for every configuration: the builder invents no names and no floats, with or without loaded modules
(a loaded gate DEFINITION is never written by the generator; the gate NAMES of the statements are those of the text) -/
theorem C01_lexsafe_any (cfg : Config) (txt : String) (c : Circuit) (h : parseProgram cfg txt = .ok c)
    (hi : IntsBounded c) : LexSafe c := by
  obtain ⟨sx, hs, bs, _, _, hh, hb, hnb, hsafe, hnm, _, _, _⟩ := parseProgram_shape h
  exact lexSafe_of (buildNoMemo_safe_any cfg hh hb (fun e hm => ⟨hsafe e hm, hnb e hm⟩) hnm) hi

theorem C01_lexsafe_iff_any (cfg : Config) (txt : String) (c : Circuit) (h : parseProgram cfg txt = .ok c) :
    LexSafe c ↔ IntsBounded c :=
  ⟨intsBounded_of_lexSafe, C01_lexsafe_any cfg txt c h⟩

/-- **Layer B for every accepted text whose circuit is `IntsBounded`, every configuration** -/
theorem C01_lex_gen_bounded_any (cfg : Config) (txt : String) (c : Circuit) (h : parseProgram cfg txt = .ok c)
    (hi : IntsBounded c) : LexGen c :=
  C01_lex_gen c (C01_printable_any cfg txt c h) (C01_lexsafe_any cfg txt c h hi)

/-- **C01 for every configuration** (`C01_roundtrip_bounded` without `cfg.autoload = false`): for every text
`parse_jaqal_string` accepts — any `inject_pulses`, `autoload_pulses` on or off, any modules behind `usepulses` —, if
every integer the generator writes for the circuit has at most 4300 digits then the generated text is accepted in the
same configuration, parses to a circuit `==` to the original one, and generating again reproduces the text byte for
byte. -/
theorem C01_roundtrip_bounded_any (cfg : Config) (txt : String) (c : Circuit) (h : parseProgram cfg txt = .ok c)
    (hi : IntsBounded c) :
    ∃ t c', gen c = .ok t ∧ parseProgram cfg t = .ok c' ∧ circuitEq c c' = true ∧ gen c' = .ok t :=
  C01_compose cfg c (C01_printable_any cfg txt c h) (C01_lex_gen_bounded_any cfg txt c h hi) (C01_rebuild_any cfg txt c h)

/-- … in fact the re-parsed circuit is the very same circuit: `parse(generate(c)) = c`. -/
theorem C01_roundtrip_exact_any (cfg : Config) (txt : String) (c : Circuit) (h : parseProgram cfg txt = .ok c)
    (hi : IntsBounded c) : ∃ t, gen c = .ok t ∧ parseProgram cfg t = .ok c := by
  obtain ⟨t, ts, hg, hl, hts⟩ := C01_lex_gen_bounded_any cfg txt c h hi
  have hb := C01_rebuild_exact_any cfg txt c h
  refine ⟨t, hg, ?_⟩
  have hparse := C01_parse_toks c (C01_printable_any cfg txt c h) ts hts
  have htext : parseText t = .ok (unbuild c) := by
    unfold parseText
    rw [lexAll_of_lex hl]
    simp only [hparse]
  unfold parseProgram parseSx
  rw [htext]
  exact hb

/-- The re-parsed circuit is again `IntsBounded`, so the round trip can be iterated. -/
theorem C01_roundtrip_bounded_again_any (cfg : Config) (txt : String) (c : Circuit) (h : parseProgram cfg txt = .ok c)
    (hi : IntsBounded c) : ∃ t c', gen c = .ok t ∧ parseProgram cfg t = .ok c' ∧ IntsBounded c' := by
  obtain ⟨t, hg, hp⟩ := C01_roundtrip_exact_any cfg txt c h hi
  exact ⟨t, c, hg, hp, hi⟩

/-- **Same meaning, every configuration** (`C01_meaning_parsed` without `cfg.autoload = false`). -/
theorem C01_meaning_parsed_any (cfg : Config) (txt : String) (c : Circuit) (h : parseProgram cfg txt = .ok c)
    (hi : IntsBounded c) :
    ∃ t c', gen c = .ok t ∧ parseProgram cfg t = .ok c' ∧ circuitEq c c' = true ∧ gen c' = .ok t ∧
      ∀ ρ : Sem.Env, C20.MeaningEq (Sem.meaning ρ c) (Sem.meaning ρ c') := by
  obtain ⟨t, c', h1, h2, h3, h4⟩ := C01_roundtrip_bounded_any cfg txt c h hi
  exact ⟨t, c', h1, h2, h3, h4, fun ρ => (C20.C20_sound_parsed_any cfg cfg txt t c c' ρ h h2 h3).2.2⟩

/-! ## non-vacuity: `autoload_pulses=True`, two modules, the second replacing a gate of the first -/

/-- the text `C20.exAutoTxt` (`usepulses` statements between a let, the register and the macro; `X` called with the two
parameters of the SECOND module's definition) is accepted by the autoload configuration `C20.exAuto` and its circuit is
`IntsBounded` (`C20.C20_auto_example_accepted`, evaluated by the kernel); so it survives the round trip in that
configuration, with the same meaning. -/
example : ∃ c t, parseProgram C20.exAuto C20.exAutoTxt = .ok c ∧ gen c = .ok t ∧ parseProgram C20.exAuto t = .ok c ∧
    ∀ ρ : Sem.Env, C20.MeaningEq (Sem.meaning ρ c) (Sem.meaning ρ c) := by
  have h0 := C20.C20_auto_example_accepted
  cases h : parseProgram C20.exAuto C20.exAutoTxt with
  | error e => rw [h] at h0; cases h0
  | ok c =>
    rw [h] at h0
    simp only [Bool.and_eq_true, decide_eq_true_eq] at h0
    have hi : IntsBounded c := h0.1.1.1.1
    obtain ⟨t, h1, h2⟩ := C01_roundtrip_exact_any _ _ c h hi
    exact ⟨c, t, rfl, h1, h2, fun ρ => (C20.C20_sound_parsed_any _ _ _ _ c c ρ h h (C20.C20_refl_parsed_any _ _ c h)).2.2⟩

/-- the same with `X(q)` injected: the modules' `X` is skipped, so `X q 3` is refused (too many parameters, in the macro body) — the
configuration matters, and the re-parse must use the same one -/
theorem C01_auto_inject_matters :
    (match parseProgram C20.exAutoInject C20.exAutoTxt with
     | .error (.jaqal r) => r == "too-many-parameters"
     | _ => false) = true := by decide +kernel

/-- with autoload on, a module that is not there is an `ImportError`: no circuit, nothing to round-trip -/
theorem C01_auto_missing_module :
    (match parseProgram C20.exAuto "from no usepulses *\n" with
     | .error .importErr => true
     | _ => false) = true := by decide +kernel

#print axioms C01_built_facts_any
#print axioms C01_printable_any
#print axioms C01_no_same_kind_nesting_any
#print axioms C01_wf_any
#print axioms C01_rebuild_exact_any
#print axioms C01_rebuild_any
#print axioms C01_lexsafe_any
#print axioms C01_lexsafe_iff_any
#print axioms C01_lex_gen_bounded_any
#print axioms C01_roundtrip_bounded_any
#print axioms C01_roundtrip_exact_any
#print axioms C01_roundtrip_bounded_again_any
#print axioms C01_meaning_parsed_any
#print axioms C01_auto_inject_matters
#print axioms C01_auto_missing_module

end Jaqal.C01
