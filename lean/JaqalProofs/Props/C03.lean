import Mathlib.Algebra.BigOperators.Group.Finset.Sigma
import Mathlib.Algebra.BigOperators.Group.Finset.Piecewise
import Mathlib.Algebra.BigOperators.Ring.Finset
import JaqalModel.Model.Emulator
import JaqalProofs.Lemmas.Bits
import JaqalProofs.Lemmas.EmulatorVec
import JaqalProofs.Lemmas.GD
/-!
# C03 — emulator state = ordered product of gate unitaries on |0…0⟩

`Jaqal.Emulator.applyGate` is the loop nest of `UnitarySerializedEmulator._make_subcircuit`.
The specification is the matrix `embed U qs n` = "`U` on the qubits `qs` (bit `k` of the gate index ↔
`k`-th qubit argument), identity on the other qubits of an `n`-qubit register (bit `q` of the state
index ↔ register qubit `q`)".
-/
namespace Jaqal.Emulator
open Jaqal.Bits Finset

variable {R : Type}

/-! ### Specification -/

/-- `i` and `j` carry the same bits on the bystander qubits (those of the register not in `qs`). -/
def Agree (qs : List Nat) (n i j : Nat) : Prop := ∀ b < n, b ∉ qs → i.testBit b = j.testBit b

instance (qs : List Nat) (n i j : Nat) : Decidable (Agree qs n i j) := by unfold Agree; infer_instance

/-- Matrix of `U ⊗ 1`: `U` on the qubits `qs` (little-endian in argument order), identity elsewhere. -/
def embed [Zero R] (U : Nat → Nat → R) (qs : List Nat) (n : Nat) (i j : Nat) : R :=
  if Agree qs n i j then U (gather qs i) (gather qs j) else 0

/-- Matrix–vector product on a `2^n`-dimensional space. -/
def matVec [AddCommMonoid R] [Mul R] (A : Nat → Nat → R) (n : Nat) (v : Nat → R) (i : Nat) : R :=
  ∑ j ∈ range (2 ^ n), A i j * v j

/-- `U_k … U_1 |0…0⟩` in execution order; gates without a unitary do not appear. -/
def specState [CommSemiring R] (n : Nat) (gates : List (Option (Nat → Nat → R) × List Nat)) : Nat → R :=
  (gates.filterMap (fun g => g.1.map (fun U => (U, g.2)))).foldl
    (fun v g => matVec (embed g.1 g.2 n) n v) e0

/-! ### The loop nest as a sum -/

theorem foldl_add_range [AddCommMonoid R] (f : Nat → R) (k : Nat) :
    (List.range k).foldl (fun acc c => acc + f c) 0 = ∑ c ∈ range k, f c := by
  induction k with
  | zero => simp
  | succ k ih => rw [List.range_succ, List.foldl_append, ih, sum_range_succ]; rfl

/-- For distinct qubit arguments the loop nest computes
`Σ_c v[scatter c (clear i)] * U[gather i, c]` (no condition on the register size). -/
theorem applyGate_eq_sum [CommSemiring R] (U : Nat → Nat → R) (qs : List Nat) (v : Nat → R) (i : Nat)
    (hd : qs.Nodup) :
    applyGate U qs v i = ∑ c ∈ range (2 ^ qs.length), v (scatter qs c (clear qs i)) * U (gather qs i) c := by
  unfold applyGate
  rw [rowMask_eq qs hd i]
  simp only [colIndex_eq]
  exact foldl_add_range _ _

theorem clear_eq_of_agree (qs : List Nat) (n i j : Nat) (hi : i < 2 ^ n) (hj : j < 2 ^ n)
    (h : Agree qs n i j) : clear qs i = clear qs j := by
  apply Nat.eq_of_testBit_eq
  intro b
  rw [testBit_clear, testBit_clear]
  by_cases hq : b ∈ qs
  · simp [hq]
  · by_cases hb : b < n
    · rw [h b hb hq]
    · have hb' : n ≤ b := by omega
      rw [Nat.testBit_lt_two_pow (Nat.lt_of_lt_of_le hi (Nat.pow_le_pow_right (by omega) hb')),
        Nat.testBit_lt_two_pow (Nat.lt_of_lt_of_le hj (Nat.pow_le_pow_right (by omega) hb'))]

/-- **Central theorem.** The loop nest is the matrix–vector product with `U ⊗ 1` in the stated
little-endian convention. -/
theorem C03_applyGate_eq_embed [CommSemiring R] (U : Nat → Nat → R) (qs : List Nat) (n : Nat)
    (v : Nat → R) (i : Nat) (hd : qs.Nodup) (hb : ∀ q ∈ qs, q < n) (hi : i < 2 ^ n) :
    applyGate U qs v i = ∑ j ∈ range (2 ^ n), embed U qs n i j * v j := by
  rw [applyGate_eq_sum U qs v i hd]
  have hR : ∑ j ∈ range (2 ^ n), embed U qs n i j * v j
      = ∑ j ∈ (range (2 ^ n)).filter (Agree qs n i), U (gather qs i) (gather qs j) * v j := by
    rw [sum_filter]
    apply sum_congr rfl
    intro j _
    unfold embed
    split <;> simp
  rw [hR]
  apply sum_nbij' (fun c => scatter qs c (clear qs i)) (fun j => gather qs j)
  · intro c _
    simp only [mem_filter, mem_range]
    refine ⟨scatter_lt qs c _ n (clear_lt qs i n hi) hb, ?_⟩
    intro b _ hbq
    rw [testBit_scatter _ _ _ _ hbq, testBit_clear]
    simp [hbq]
  · intro j _
    simpa using gather_lt qs j
  · intro c hc
    exact gather_scatter qs hd c _ (by simpa using hc) (clear_cleared qs i)
  · intro j hj
    simp only [mem_filter, mem_range] at hj
    show scatter qs (gather qs j) (clear qs i) = j
    rw [clear_eq_of_agree qs n i j hi hj.1 hj.2, scatter_gather qs hd j]
  · intro c hc
    show v (scatter qs c (clear qs i)) * U (gather qs i) c = _
    rw [gather_scatter qs hd c _ (by simpa using hc) (clear_cleared qs i), mul_comm]

/-- Same statement with `matVec`. -/
theorem applyGate_eq_matVec [CommSemiring R] (U : Nat → Nat → R) (qs : List Nat) (n : Nat)
    (v : Nat → R) (i : Nat) (hd : qs.Nodup) (hb : ∀ q ∈ qs, q < n) (hi : i < 2 ^ n) :
    applyGate U qs v i = matVec (embed U qs n) n v i :=
  C03_applyGate_eq_embed U qs n v i hd hb hi

theorem matVec_congr [CommSemiring R] (A : Nat → Nat → R) (n : Nat) (v v' : Nat → R)
    (h : ∀ j < 2 ^ n, v j = v' j) (i : Nat) : matVec A n v i = matVec A n v' i := by
  unfold matVec
  apply sum_congr rfl
  intro j hj
  rw [h j (by simpa using hj)]

/-- The new entries below `2^n` only depend on the old entries below `2^n`. -/
theorem applyGate_congr [CommSemiring R] (U : Nat → Nat → R) (qs : List Nat) (n : Nat)
    (v v' : Nat → R) (hd : qs.Nodup) (hb : ∀ q ∈ qs, q < n) (h : ∀ j < 2 ^ n, v j = v' j)
    (i : Nat) (hi : i < 2 ^ n) : applyGate U qs v i = applyGate U qs v' i := by
  rw [applyGate_eq_matVec U qs n v i hd hb hi, applyGate_eq_matVec U qs n v' i hd hb hi]
  exact matVec_congr _ n v v' h i

/-! ### Whole subcircuit -/

/-- Well-formed gate list: distinct qubit arguments inside the register. -/
def GatesOK (n : Nat) (gates : List (Option (Nat → Nat → R) × List Nat)) : Prop :=
  ∀ g ∈ gates, g.1.isSome → g.2.Nodup ∧ ∀ q ∈ g.2, q < n

theorem foldl_state [CommSemiring R] (n : Nat) (gates : List (Option (Nat → Nat → R) × List Nat))
    (hok : GatesOK n gates) (v v' : Nat → R) (h : ∀ j < 2 ^ n, v j = v' j) :
    ∀ i < 2 ^ n,
      gates.foldl (fun v g => match g.1 with
        | none => v
        | some U => applyGate U g.2 v) v i
      = (gates.filterMap (fun g => g.1.map (fun U => (U, g.2)))).foldl
        (fun v g => matVec (embed g.1 g.2 n) n v) v' i := by
  induction gates generalizing v v' with
  | nil => simpa using h
  | cons g gs ih =>
    have hgs : GatesOK n gs := fun g' hg' => hok g' (List.mem_cons_of_mem _ hg')
    obtain ⟨U?, qs⟩ := g
    cases U? with
    | none => simpa using ih hgs v v' h
    | some U =>
      have hg := hok (some U, qs) List.mem_cons_self rfl
      simp only [List.foldl_cons, List.filterMap_cons, Option.map_some]
      apply ih hgs
      intro j hj
      rw [applyGate_eq_matVec U qs n v j hg.1 hg.2 hj]
      exact matVec_congr _ n v v' h j

/-- **C03 (state).** The state after the gates of a subcircuit is `U_k … U_1 |0…0⟩`, each `U_j`
embedded on its argument qubits, in execution order. -/
theorem C03_state [CommSemiring R] (n : Nat) (gates : List (Option (Nat → Nat → R) × List Nat))
    (hok : GatesOK n gates) (i : Nat) (hi : i < 2 ^ n) :
    runGatesFn gates i = specState n gates i :=
  foldl_state n gates hok e0 e0 (fun _ _ => rfl) i hi

/-- **C03 (idle).** Gates without a unitary leave the state unchanged: they can be dropped. -/
theorem C03_idle [Add R] [Mul R] [Zero R] [One R] (gates : List (Option (Nat → Nat → R) × List Nat)) :
    runGatesFn gates = runGatesFn (gates.filter (fun g => g.1.isSome)) := by
  unfold runGatesFn
  generalize (e0 : Nat → R) = v
  induction gates generalizing v with
  | nil => rfl
  | cons g gs ih =>
    obtain ⟨U?, qs⟩ := g
    cases U? with
    | none => simpa using ih v
    | some U => simpa using ih _

theorem C03_idle_step [Add R] [Mul R] [Zero R] [One R] (gs gs' : List (Option (Nat → Nat → R) × List Nat))
    (qs : List Nat) : runGatesFn (gs ++ (none, qs) :: gs') = runGatesFn (gs ++ gs') := by
  rw [C03_idle, C03_idle (gs ++ gs')]
  simp

/-- Well-formed gate list in array form: square matrices of size `2^|qs|`, distinct qubit arguments
inside the register. -/
def GatesVecOK' (n : Nat) (gates : List (Option (Array (Array R)) × List Nat)) : Prop :=
  ∀ g ∈ gates, ∀ U, g.1 = some U → MatOK U g.2.length ∧ g.2.Nodup ∧ ∀ q ∈ g.2, q < n

/-- **C03 (state, executable form).** On a well-formed gate list the array program `runGates` (the one
compared with numpy by the differential test) does not fail, returns a vector of size `2^n`, and its
entries are those of `U_k … U_1 |0…0⟩`. -/
theorem C03_state_vec [CommSemiring R] (n : Nat) (gates : List (Option (Array (Array R)) × List Nat))
    (hok : GatesVecOK' n gates) :
    ∃ w, runGates n gates = some w ∧ w.size = 2 ^ n ∧
      ∀ i, (h : i < w.size) → w[i] = specState n (gatesFn gates) i := by
  obtain ⟨w, hw, hsz, hwi⟩ := runGates_eq_fn n gates (fun g hg U hU => ⟨(hok g hg U hU).1, (hok g hg U hU).2.2⟩)
  refine ⟨w, hw, hsz, ?_⟩
  intro i h
  have hi : i < 2 ^ n := hsz ▸ h
  have hOK : GatesOK n (gatesFn gates) := by
    intro g hg hsome
    simp only [gatesFn, List.mem_map] at hg
    obtain ⟨g', hg', rfl⟩ := hg
    obtain ⟨U?, qs⟩ := g'
    cases U? with
    | none => simp at hsome
    | some U => exact (hok _ hg' U rfl).2
  rw [← C03_state n (gatesFn gates) hOK i hi, ← hwi i hi]
  simp [vecFn, h]

/-- **C03 (state, executable scalars).** For the exact Gaussian-dyadic scalars `GD` the driver computes
with (and the differential test compares with numpy), read as complex numbers through `GD.val`:
`runGates` succeeds on a well-formed gate list and yields `U_k … U_1 |0…0⟩` over `ℂ`; the reported
`normSq` is `|amplitude|²`. -/
theorem C03_state_GD (n : Nat) (gates : List (Option (Array (Array GD)) × List Nat))
    (hok : GatesVecOK' n gates) :
    ∃ w, runGates n gates = some w ∧ w.size = 2 ^ n ∧
      ∀ i, (h : i < w.size) →
        GD.val w[i] = specState n (mapGates GD.val (gatesFn gates)) i ∧
        (((GD.normSq w[i]).1 : ℝ) / 2 ^ (GD.normSq w[i]).2
          = Complex.normSq (specState n (mapGates GD.val (gatesFn gates)) i)) := by
  obtain ⟨w, hw, hsz, hwi⟩ := runGates_eq_fn n gates (fun g hg U hU => ⟨(hok g hg U hU).1, (hok g hg U hU).2.2⟩)
  refine ⟨w, hw, hsz, ?_⟩
  intro i h
  have hi : i < 2 ^ n := hsz ▸ h
  have hOK : GatesOK n (mapGates GD.val (gatesFn gates)) := by
    intro g hg hsome
    simp only [mapGates, gatesFn, List.mem_map] at hg
    obtain ⟨_, ⟨g', hg', rfl⟩, rfl⟩ := hg
    obtain ⟨U?, qs⟩ := g'
    cases U? with
    | none => simp at hsome
    | some U => exact (hok _ hg' U rfl).2
  have hval : GD.val w[i] = specState n (mapGates GD.val (gatesFn gates)) i := by
    rw [← C03_state n _ hOK i hi,
      ← runGatesFn_map GD.val GD.val_zero GD.val_one GD.val_add GD.val_mul, ← hwi i hi]
    simp [vecFn, h]
  exact ⟨hval, by rw [GD.normSq_val, hval]⟩

/-! ### Identity -/

theorem eq_of_gather_agree (qs : List Nat) (n i j : Nat) (hi : i < 2 ^ n) (hj : j < 2 ^ n)
    (hg : gather qs i = gather qs j) (ha : Agree qs n i j) : i = j := by
  apply Nat.eq_of_testBit_eq
  intro b
  by_cases hq : b ∈ qs
  · obtain ⟨k, hk, rfl⟩ := List.getElem_of_mem hq
    rw [← testBit_gather qs i k hk, ← testBit_gather qs j k hk, hg]
  · by_cases hb : b < n
    · exact ha b hb hq
    · have hb' : n ≤ b := by omega
      rw [Nat.testBit_lt_two_pow (Nat.lt_of_lt_of_le hi (Nat.pow_le_pow_right (by omega) hb')),
        Nat.testBit_lt_two_pow (Nat.lt_of_lt_of_le hj (Nat.pow_le_pow_right (by omega) hb'))]

/-- The identity matrix. -/
def idMat [Zero R] [One R] (r c : Nat) : R := if r = c then 1 else 0

theorem embed_idMat [Zero R] [One R] (qs : List Nat) (n i j : Nat) (hi : i < 2 ^ n) (hj : j < 2 ^ n) :
    embed (idMat : Nat → Nat → R) qs n i j = if i = j then 1 else 0 := by
  unfold embed idMat
  by_cases h : i = j
  · subst h; simp [Agree]
  · rw [if_neg h]
    split
    · rename_i ha
      rw [if_neg]
      intro hg
      exact h (eq_of_gather_agree qs n i j hi hj hg ha)
    · rfl

/-- **C03 (identity).** A gate whose matrix is the identity leaves the state unchanged. -/
theorem C03_identity [CommSemiring R] (qs : List Nat) (n : Nat) (v : Nat → R) (i : Nat) (hi : i < 2 ^ n) :
    matVec (embed (idMat : Nat → Nat → R) qs n) n v i = v i := by
  unfold matVec
  rw [sum_congr rfl (fun j hj => by rw [embed_idMat qs n i j hi (by simpa using hj)])]
  simp [hi]

/-- The loop nest itself with the identity matrix (distinct qubits; any index, any register size). -/
theorem applyGate_idMat [CommSemiring R] (qs : List Nat) (hd : qs.Nodup) (v : Nat → R) (i : Nat) :
    applyGate (idMat : Nat → Nat → R) qs v i = v i := by
  rw [applyGate_eq_sum _ qs v i hd]
  unfold idMat
  simp only [mul_ite, mul_one, mul_zero]
  rw [sum_ite_eq]
  simp [gather_lt, scatter_gather qs hd i]

/-! ### Gates on disjoint qubits commute -/

theorem scatter_clear_comm (qs₁ qs₂ : List Nat) (hd₁ : qs₁.Nodup) (hd₂ : qs₂.Nodup)
    (hdisj : ∀ q ∈ qs₁, q ∉ qs₂) (c₁ c₂ i : Nat) :
    scatter qs₂ c₂ (clear qs₂ (scatter qs₁ c₁ (clear qs₁ i)))
      = scatter qs₁ c₁ (clear qs₁ (scatter qs₂ c₂ (clear qs₂ i))) := by
  apply Nat.eq_of_testBit_eq
  intro b
  simp only [testBit_scatter_clear _ hd₁, testBit_scatter_clear _ hd₂]
  by_cases h1 : b ∈ qs₁
  · have h2 : b ∉ qs₂ := hdisj b h1
    simp [h1, h2]
  · simp [h1]

theorem gather_scatter_other (qs₁ qs₂ : List Nat) (hdisj : ∀ q ∈ qs₁, q ∉ qs₂) (c₁ i : Nat) :
    gather qs₂ (scatter qs₁ c₁ (clear qs₁ i)) = gather qs₂ i := by
  apply gather_congr
  intro q hq
  have hn : q ∉ qs₁ := fun h => hdisj q h hq
  rw [testBit_scatter _ _ _ _ hn, testBit_clear]
  simp [hn]

/-- The loop nests of two gates on disjoint sets of distinct qubits commute (any vector, any index). -/
theorem applyGate_comm [CommSemiring R] (U₁ U₂ : Nat → Nat → R) (qs₁ qs₂ : List Nat)
    (hd₁ : qs₁.Nodup) (hd₂ : qs₂.Nodup) (hdisj : ∀ q ∈ qs₁, q ∉ qs₂) (v : Nat → R) (i : Nat) :
    applyGate U₁ qs₁ (applyGate U₂ qs₂ v) i = applyGate U₂ qs₂ (applyGate U₁ qs₁ v) i := by
  have hdisj' : ∀ q ∈ qs₂, q ∉ qs₁ := fun q h2 h1 => hdisj q h1 h2
  rw [applyGate_eq_sum U₁ qs₁ _ i hd₁, applyGate_eq_sum U₂ qs₂ _ i hd₂]
  simp only [applyGate_eq_sum U₂ qs₂ v _ hd₂, applyGate_eq_sum U₁ qs₁ v _ hd₁,
    gather_scatter_other qs₁ qs₂ hdisj, gather_scatter_other qs₂ qs₁ hdisj', sum_mul]
  rw [sum_comm]
  apply sum_congr rfl; intro c₂ _
  apply sum_congr rfl; intro c₁ _
  rw [scatter_clear_comm qs₁ qs₂ hd₁ hd₂ hdisj c₁ c₂ i]
  exact mul_right_comm _ _ _

/-- **C03 (parallel branches).** Embedded gates on disjoint qubits commute, so every interleaving of
parallel branches yields the same state. -/
theorem C03_embed_comm [CommSemiring R] (U₁ U₂ : Nat → Nat → R) (qs₁ qs₂ : List Nat) (n : Nat)
    (hd₁ : qs₁.Nodup) (hd₂ : qs₂.Nodup) (hb₁ : ∀ q ∈ qs₁, q < n) (hb₂ : ∀ q ∈ qs₂, q < n)
    (hdisj : ∀ q ∈ qs₁, q ∉ qs₂) (v : Nat → R) (i : Nat) (hi : i < 2 ^ n) :
    matVec (embed U₁ qs₁ n) n (matVec (embed U₂ qs₂ n) n v) i
      = matVec (embed U₂ qs₂ n) n (matVec (embed U₁ qs₁ n) n v) i := by
  rw [← applyGate_eq_matVec U₁ qs₁ n _ i hd₁ hb₁ hi, ← applyGate_eq_matVec U₂ qs₂ n _ i hd₂ hb₂ hi,
    ← applyGate_congr U₁ qs₁ n _ _ hd₁ hb₁ (fun j hj => applyGate_eq_matVec U₂ qs₂ n v j hd₂ hb₂ hj) i hi,
    ← applyGate_congr U₂ qs₂ n _ _ hd₂ hb₂ (fun j hj => applyGate_eq_matVec U₁ qs₁ n v j hd₁ hb₁ hj) i hi]
  exact applyGate_comm U₁ U₂ qs₁ qs₂ hd₁ hd₂ hdisj v i

/-! ### Any interleaving of two parallel branches -/

/-- `l` is an interleaving of `l₁` and `l₂` (the relative order inside each branch is kept). -/
inductive Interleave {α : Type} : List α → List α → List α → Prop
  | nil : Interleave [] [] []
  | left {a l₁ l₂ l} : Interleave l₁ l₂ l → Interleave (a :: l₁) l₂ (a :: l)
  | right {b l₁ l₂ l} : Interleave l₁ l₂ l → Interleave l₁ (b :: l₂) (b :: l)

/-- One step of `runGatesFn`. -/
def stepFn [Add R] [Mul R] [Zero R] (v : Nat → R) (g : Option (Nat → Nat → R) × List Nat) : Nat → R :=
  match g.1 with
  | none => v
  | some U => applyGate U g.2 v

theorem runGatesFn_eq_foldl_stepFn [Add R] [Mul R] [Zero R] [One R]
    (gates : List (Option (Nat → Nat → R) × List Nat)) : runGatesFn gates = gates.foldl stepFn e0 := rfl

/-- Two gates act on disjoint sets of distinct qubits. -/
def Indep (g₁ g₂ : Option (Nat → Nat → R) × List Nat) : Prop :=
  g₁.2.Nodup ∧ g₂.2.Nodup ∧ ∀ q ∈ g₁.2, q ∉ g₂.2

theorem stepFn_comm [CommSemiring R] (g₁ g₂ : Option (Nat → Nat → R) × List Nat) (h : Indep g₁ g₂)
    (v : Nat → R) : stepFn (stepFn v g₁) g₂ = stepFn (stepFn v g₂) g₁ := by
  obtain ⟨U₁?, qs₁⟩ := g₁
  obtain ⟨U₂?, qs₂⟩ := g₂
  cases U₁? <;> cases U₂? <;> try rfl
  rename_i U₁ U₂
  funext i
  exact (applyGate_comm U₁ U₂ qs₁ qs₂ h.1 h.2.1 h.2.2 v i).symm

theorem foldl_stepFn_comm [CommSemiring R] (l : List (Option (Nat → Nat → R) × List Nat))
    (b : Option (Nat → Nat → R) × List Nat) (h : ∀ a ∈ l, Indep a b) (v : Nat → R) :
    l.foldl stepFn (stepFn v b) = stepFn (l.foldl stepFn v) b := by
  induction l generalizing v with
  | nil => rfl
  | cons a l ih =>
    rw [List.foldl_cons, List.foldl_cons, ← stepFn_comm a b (h a List.mem_cons_self) v]
    exact ih (fun a' ha' => h a' (List.mem_cons_of_mem _ ha')) _

/-- **C03 (parallel branches, any interleaving).** If every gate of branch `l₁` is independent of every
gate of branch `l₂`, then every interleaving of the two branches, executed anywhere inside a subcircuit,
gives the same state as running `l₁` then `l₂`. -/
theorem C03_interleave [CommSemiring R] (pre post l₁ l₂ l : List (Option (Nat → Nat → R) × List Nat))
    (hl : Interleave l₁ l₂ l) (hind : ∀ a ∈ l₁, ∀ b ∈ l₂, Indep a b) :
    runGatesFn (pre ++ l ++ post) = runGatesFn (pre ++ (l₁ ++ l₂) ++ post) := by
  simp only [runGatesFn_eq_foldl_stepFn, List.foldl_append]
  congr 1
  generalize List.foldl stepFn e0 pre = v
  induction hl generalizing v with
  | nil => rfl
  | left _ ih =>
    rw [List.foldl_cons, List.foldl_cons]
    exact ih (fun a ha b hb => hind a (List.mem_cons_of_mem _ ha) b hb) _
  | @right b l₁ l₂ l _ ih =>
    rw [List.foldl_cons, ih (fun a ha b' hb' => hind a ha b' (List.mem_cons_of_mem _ hb')),
      List.foldl_cons, foldl_stepFn_comm l₁ b (fun a ha => hind a ha b List.mem_cons_self)]

/-! ### Non-vacuity: concrete instances (scalars `Int`) -/
section Examples

/-- `X`. -/
def xU : Nat → Nat → Int := fun r c => if r + c = 1 then 1 else 0
/-- `CX` with control = argument 0 (bit 0 of the gate index), target = argument 1 (bit 1). -/
def cxU : Nat → Nat → Int := fun r c => if r = c % 2 + 2 * ((c / 2 + c % 2) % 2) then 1 else 0
/-- a non-symmetric one-qubit matrix `[[1,2],[3,4]]` (the theorems do not need unitarity) -/
def aU : Nat → Nat → Int := fun r c => 1 + 2 * r + c

/-- the basis vector `|k⟩` -/
def basis (k : Nat) : Nat → Int := fun j => if j = k then 1 else 0

-- the bit-twiddling loops on a concrete index: i = 0b101, qubits [2,0] → bystander mask 0, row 0b11
example : rowMask [2, 0] 5 = (0, 3) := by decide
example : rowMask [0, 2] 6 = (2, 2) := by decide
example : colIndex [2, 0] 2 1 = 6 := by decide     -- column bit 0 ↦ qubit 2
example : colIndex [2, 0] 2 2 = 3 := by decide     -- column bit 1 ↦ qubit 0

-- CX r[2] r[0] on |100⟩ (index 4: qubit 2 set) gives |101⟩ (index 5): control = first argument
example : (List.range 8).map (applyGate cxU [2, 0] (basis 4)) = [0, 0, 0, 0, 0, 1, 0, 0] := by decide
-- … and on |001⟩ (only the target set) nothing happens
example : (List.range 8).map (applyGate cxU [2, 0] (basis 1)) = [0, 1, 0, 0, 0, 0, 0, 0] := by decide
-- CX r[0] r[2] on |001⟩ gives |101⟩
example : (List.range 8).map (applyGate cxU [0, 2] (basis 1)) = [0, 0, 0, 0, 0, 1, 0, 0] := by decide
-- the same numbers from the specification
example : (List.range 8).map (matVec (embed cxU [2, 0] 3) 3 (basis 4)) = [0, 0, 0, 0, 0, 1, 0, 0] := by decide
example : embed cxU [2, 0] 3 5 4 = 1 ∧ embed cxU [2, 0] 3 4 4 = 0 ∧ embed cxU [2, 0] 3 7 6 = 1 ∧
    embed cxU [2, 0] 3 7 4 = 0 := by decide
-- row/column orientation on a non-symmetric matrix: out[0] = 1·v0 + 2·v1, out[1] = 3·v0 + 4·v1 on qubit 1
example : (List.range 4).map (applyGate aU [1] (fun j => [10, 0, 1, 0].getD j 0)) = [12, 0, 34, 0] := by decide
example : (List.range 4).map (matVec (embed aU [1] 2) 2 (fun j => [10, 0, 1, 0].getD j 0)) = [12, 0, 34, 0] := by
  decide

-- the hypotheses of the central theorem are satisfiable by a non-trivial instance
example : ([2, 0] : List Nat).Nodup ∧ (∀ q ∈ ([2, 0] : List Nat), q < 3) ∧ 5 < 2 ^ 3 := by decide

-- a whole subcircuit: X r[2]; (no unitary) r[1]; CX r[2] r[0]  →  |101⟩
example : GatesOK 3 [(some xU, [2]), (none, [1, 1]), (some cxU, [2, 0])] := by
  simp only [GatesOK, List.forall_mem_cons, List.not_mem_nil, false_imp_iff, implies_true, and_true]
  decide
example : (List.range 8).map (runGatesFn [(some xU, [2]), (none, [1, 1]), (some cxU, [2, 0])])
    = [0, 0, 0, 0, 0, 1, 0, 0] := by decide
example : (List.range 8).map (specState 3 [(some xU, [2]), (none, [1, 1]), (some cxU, [2, 0])])
    = [0, 0, 0, 0, 0, 1, 0, 0] := by decide

-- the executable array program on the same subcircuit
def xA : Array (Array Int) := #[#[0, 1], #[1, 0]]
def cxA : Array (Array Int) := #[#[1, 0, 0, 0], #[0, 0, 0, 1], #[0, 0, 1, 0], #[0, 1, 0, 0]]
example : runGates 3 [(some xA, [2]), (none, [1, 1]), (some cxA, [2, 0])] = some #[0, 0, 0, 0, 0, 1, 0, 0] := by
  decide
example : GatesVecOK' 3 [(some xA, [2]), (none, [1, 1]), (some cxA, [2, 0])] := by
  simp only [GatesVecOK', List.forall_mem_cons, List.not_mem_nil, false_imp_iff, implies_true, and_true,
    Option.some.injEq, forall_eq', reduceCtorEq, false_imp_iff]
  decide
-- where numpy raises IndexError the model returns `none`: 2×2 matrix for a two-qubit gate, qubit outside the register
example : runGates 2 [(some xA, [0, 1])] = none := by decide
example : runGates 2 [(some xA, [2])] = none := by decide

-- exact scalars: sqrt-X on r[0] then CX r[0] r[1]  →  ((1+i)|00⟩ + (1-i)|11⟩)/2, probabilities 1/2
def sxG : Array (Array GD) := #[#[⟨1, 1, 1⟩, ⟨1, -1, 1⟩], #[⟨1, -1, 1⟩, ⟨1, 1, 1⟩]]
def cxG : Array (Array GD) := #[#[1, 0, 0, 0], #[0, 0, 0, 1], #[0, 0, 1, 0], #[0, 1, 0, 0]]
example : runGates 2 [(some sxG, [0]), (some cxG, [0, 1])] = some #[⟨1, 1, 1⟩, 0, 0, ⟨1, -1, 1⟩] := by decide
example : ((runGates 2 [(some sxG, [0]), (some cxG, [0, 1])]).map (·.toList.map GD.normSq))
    = some [(1, 1), (0, 0), (0, 0), (1, 1)] := by decide
example : GatesVecOK' 2 [(some sxG, [0]), (some cxG, [0, 1])] := by
  simp only [GatesVecOK', List.forall_mem_cons, List.not_mem_nil, false_imp_iff, implies_true, and_true,
    Option.some.injEq, forall_eq']
  decide

-- disjoint qubit lists as in a parallel block `< CX r[2] r[0] | A r[1] >`
example : ∀ q ∈ ([2, 0] : List Nat), q ∉ ([1] : List Nat) := by decide
example : (List.range 8).map (applyGate cxU [2, 0] (applyGate aU [1] (basis 4)))
    = (List.range 8).map (applyGate aU [1] (applyGate cxU [2, 0] (basis 4))) := by decide
-- an interleaving `[a₁, b₁, a₂]` of the branches `[a₁, a₂]` and `[b₁]`
example : Interleave [(some cxU, [2, 0]), (some xU, [2])] [(some aU, [1])]
    [(some cxU, [2, 0]), (some aU, [1]), (some xU, [2])] := .left (.right (.left .nil))
example : ∀ a ∈ [(some cxU, [2, 0]), (some xU, [2])], ∀ b ∈ [(some aU, [1])], Indep a b := by
  simp only [Indep, List.forall_mem_cons, List.not_mem_nil, false_imp_iff, implies_true, and_true]
  decide
-- … whereas gates sharing a qubit do not commute in general (the hypothesis is needed)
example : applyGate xU [1] (applyGate aU [1] (basis 0)) 0 ≠ applyGate aU [1] (applyGate xU [1] (basis 0)) 0 := by
  decide

end Examples

end Jaqal.Emulator

#print axioms Jaqal.Emulator.C03_applyGate_eq_embed
#print axioms Jaqal.Emulator.C03_state
#print axioms Jaqal.Emulator.C03_state_vec
#print axioms Jaqal.Emulator.C03_state_GD
#print axioms Jaqal.Emulator.C03_idle
#print axioms Jaqal.Emulator.C03_idle_step
#print axioms Jaqal.Emulator.C03_identity
#print axioms Jaqal.Emulator.C03_embed_comm
#print axioms Jaqal.Emulator.C03_interleave
