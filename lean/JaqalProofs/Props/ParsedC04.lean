import JaqalProofs.Lemmas.ParsedLegal
/-!
# C04 for the circuits the parser produces — no well-formedness hypothesis

Split out of the former `Props/ParsedPasses.lean`; see `Props/ParsedEx.lean` for the overview and the non-vacuity example.
-/
set_option linter.unusedVariables false
open Jaqal Jaqal.Sem

namespace Jaqal.ExpandMacros
open Jaqal.Passes Jaqal.Builder

/-- **C04_meaning for parsed circuits**: macro expansion of a circuit the parser produced preserves its meaning. -/
theorem C04_meaning_parsed (cfg : Config) (txt : String) (ρ : Env) (p : Bool) (c c' : Circuit) (s : Sem)
    (hp : Pipeline.parseProgram cfg txt = .ok c) (h : expandMacros p c = .ok c') (hm : meaning ρ c = .ok s) :
    meaning ρ c' = .ok s :=
  C04_meaning ρ p c c' s (parsed_legal cfg txt c hp).wf1 h hm

theorem C04_no_calls_parsed (cfg : Config) (txt : String) (p : Bool) (c c' : Circuit)
    (hp : Pipeline.parseProgram cfg txt = .ok c) (h : expandMacros p c = .ok c') : noCalls c.macros c'.body = true :=
  C04_no_calls p c c' h

theorem C04_header_parsed (cfg : Config) (txt : String) (p : Bool) (c c' : Circuit)
    (hp : Pipeline.parseProgram cfg txt = .ok c) (h : expandMacros p c = .ok c') :
    c'.constants = c.constants ∧ c'.registers = c.registers ∧ c'.natives = c.natives ∧ c'.usepulses = c.usepulses ∧
    c'.macros = (if p then c.macros else []) ∧ ∃ stmts, c'.body = .block false false (.int 1) stmts :=
  C04_header p c c' h

/-- the body of a parsed circuit is a plain block, so `C04_shape` needs no hypothesis -/
theorem C04_shape_parsed (cfg : Config) (txt : String) (p : Bool) (c c' : Circuit)
    (hp : Pipeline.parseProgram cfg txt = .ok c) (h : expandMacros p c = .ok c') :
    nf c'.body = true ∧ ∃ b, c.body = .block false false (.int 1) b ∧
      (noCalls c.macros c.body = true → nf c.body = true → c'.body = .block false false (.int 1) b) := by
  obtain ⟨b, hb⟩ := RunModel.parseProgram_body hp
  have := C04_shape p c c' (.int 1) b hb h
  exact ⟨this.1, b, hb, this.2⟩

theorem C04_idempotent_parsed (cfg : Config) (txt : String) (p : Bool) (c c' : Circuit)
    (hp : Pipeline.parseProgram cfg txt = .ok c) (h : expandMacros p c = .ok c') : expandMacros p c' = .ok c' := by
  obtain ⟨b, hb⟩ := RunModel.parseProgram_body hp
  exact C04_idempotent p c c' false (.int 1) b hb h

/-- on a parsed circuit every rejection of `expand_macros` is a `JaqalError` -/
theorem C04_total_class_parsed (cfg : Config) (txt : String) (p : Bool) (c : Circuit)
    (hp : Pipeline.parseProgram cfg txt = .ok c) : ∀ err, expandMacros p c = .error err → ∃ r, err = .jaqal r :=
  C04_total_class p c (parsed_legal cfg txt c hp).wf1

end Jaqal.ExpandMacros
