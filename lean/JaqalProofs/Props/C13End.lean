import JaqalProofs.Lemmas.UsedMeaning
import JaqalProofs.Lemmas.PassesLegalMacros
import JaqalProofs.Props.C03Run
import JaqalProofs.Props.C13Run
/-!
# C13 from the program as written — the emulator refuses exactly the programs whose MEANING has a conflict

`Props/C13Run.lean` states acceptance / rejection on the EXPANDED circuit and the library's own walk (`Conflict`, `Repeat`).  Here the
same is said of the MEANING of the source program (`Spec/Sem.lean`), with the specification-side notions of
`Lemmas/UsedMeaning.lean`: `semQubits` (all fundamental qubits of the gate applications of a tree; busy gate = every qubit of the
registers, idle gate = none, native gate = the qubit / register arguments at the used positions, read off the gate definitions'
tags), `SemPar` (some parallel block has two distinct branches whose `semQubits` intersect), `SemRepeat` (one gate application
names one qubit at two used positions — `checkDisjoint` refuses that too, with the other JaqalError), `SemConflict` (either).

For a parsed program `c` (`parseProgram cfg txt = .ok c`) whose three passes succeed (`expandAll ov c = .ok x`):
`c₁` = subcircuit blocks spelled out, `c₂ = fill_in_let(c₁, ov)`, `x₁` = the meaning tree of `c₁` under the overrides
(`rawMeaning`, as in `C03_run_total`), `m = spl x₁` the tree the run walks (`x₁` with the blocks of the expanded macro calls
spliced).  The table of gate definitions is `circuitDefs c₂` (the definitions the gate statements of the program point to: one
per gate name, `built_functional`), the qubits of a busy gate are `all_qubits` of the (filled) registers.

* `C13_run_reject_meaning` — when the run reaches the disjointness check (`skeleton`, `tooLarge`, `discover` succeed):
  `SemConflict m` ⇒ the run fails with one of the two JaqalErrors of the check (`parErr` if only `SemPar`, `gateErr` if only
  `SemRepeat`); the check refuses ⇔ `SemConflict m`; the check passes ⇔ `¬ SemConflict m`.
  The remaining direction AT RUN LEVEL (run fails with `parErr`/`gateErr` ⇒ `SemConflict`) needs that the stages AFTER the check
  never raise those two messages: `C13_run_reject_meaning_partial` (hypothesis spelled out), `C13_run_reject_meaning_full` (def).
* `C13_run_accept_meaning` — `runModel cfg ov txt = .ok s → ¬ SemConflict m`.  No hypothesis.
* `C13_sem_order` — `SemConflict` does not depend on the order in which the branches of parallel blocks are written (`SemPerm`,
  on meaning trees); `C13_run_order_check` — permuting the branches of parallel blocks of the expanded circuit (`PermParC`) does not
  change acceptance by the check.  `C13_run_order_meaning_full` (def, NOT proved): the same from `PermParC` on the SOURCE, for
  acceptance, `s.visits`, `s.subcircuits`.
-/
namespace Jaqal.RunModel
open Jaqal Jaqal.Builder Jaqal.Sem Jaqal.Walk Jaqal.UsedQubits

/-- one definition per gate name among the definitions the gate statements of a built circuit point to -/
theorem built_functional (cfg : Config) (e : BSx) (c : Circuit) (hb : build cfg e = .ok c) : Functional (circuitDefs c) := by
  obtain ⟨g, hk⟩ := Builder.built_known cfg _ c hb
  have known : ∀ gd ∈ circuitDefs c, Builder.GKnown g gd := by
    intro gd hgd
    simp only [circuitDefs, List.mem_map, List.mem_append, List.mem_flatMap] at hgd
    obtain ⟨x, hx | ⟨m, hm, hx⟩, rfl⟩ := hgd
    · exact hk.body _ (stmtGates_spec c.macros c.body x hx).1
    · exact hk.macros m hm _ (stmtGates_spec c.macros m.body x hx).1
  exact fun a ha b hb hn => Builder.KnownTable.functional (known a ha) (known b hb) hn

/-- what the chain establishes of the circuit the emulator is handed, against the meaning of the source -/
structure RunFacts (ov : List (String × Num)) (c x c₁ c₂ : Circuit) (x₁ : Sem) : Prop where
  subs : ExpandSubcircuits.expandSubcircuits none none c = .ok c₁
  filled : FillIn.fillInLet ov c₁ = .ok c₂
  raw : rawMeaning (FillIn.normOv ov) c₁ = .ok x₁
  regs : x.registers = c₂.registers
  macros : x.macros = []
  sem : evalStmt [] [] [] x.body = .ok (ExpandMacros.spl x₁)
  functional : Functional (circuitDefs c₂)
  flat : FlatS (circuitDefs c₂) x.body
  regsT : regsT x.registers = true

theorem run_facts {cfg : Config} {txt : String} {ov : List (String × Num)} {c x : Circuit}
    (hp : Pipeline.parseProgram cfg txt = .ok c) (hx : expandAll ov c = .ok x) : ∃ c₁ c₂ x₁, RunFacts ov c x c₁ c₂ x₁ := by
  have hf := flatOf_all cfg ov txt c x hp hx
  have hx' := hx
  unfold expandAll at hx'
  obtain ⟨c₁, h1, hx'⟩ := bind_ok hx'
  obtain ⟨c₂, h2, hx'⟩ := bind_ok hx'
  obtain ⟨x₁, hm⟩ := parsed_source_meaning hp h1 hx
  have hL : Passes.Legal c₁ := Passes.C10_legal_preserved_subs c c₁ (Passes.parsed_legal cfg txt c hp) h1
  have e1 : rawMeaning [] c₂ = .ok x₁ := by rw [fillInLet_raw ov c₁ c₂ hL.wf2 h2]; exact hm
  have hw : ExpandMacros.WellFormed c₂ = true := builtWellFormed_all cfg ov txt c c₁ c₂ hp h1 h2
  have e2 := expandMacros_raw [] false c₂ x x₁ hw hx' e1
  have hhead := ExpandMacros.C04_header false c₂ x hx'
  have hmac : x.macros = [] := by simpa using hhead.2.2.2.2.1
  unfold rawMeaning at e2
  rw [hmac] at e2
  have hwx := Passes.expandMacros_wellFormed false c₂ x hw hx'
  simp only [ExpandMacros.WellFormed, Bool.and_eq_true] at hwx
  have hwb : ExpandMacros.wfStmt [] x.body = true := by have := hwx.1.1.1.2; rwa [hmac] at this
  have hfun : Functional (circuitDefs c₂) := by
    have h2' := h2
    unfold FillIn.fillInLet at h2'
    obtain ⟨e, _, hb⟩ := bind_ok h2'
    exact built_functional _ e c₂ hb
  have hdefs : DefsIn (circuitDefs c₂) x.body := by
    refine expandMacros_defs (circuitDefs c₂) false c₂ x hx' ?_ ?_
    · intro g hg
      simp only [circuitDefs, List.mem_map, List.mem_append]
      exact ⟨g, Or.inl hg, rfl⟩
    · intro m hm g hg
      simp only [circuitDefs, List.mem_map, List.mem_append, List.mem_flatMap]
      exact ⟨g, Or.inr ⟨m, hm, hg⟩, rfl⟩
  simp only [FlatT, Bool.and_eq_true] at hf
  exact ⟨c₁, c₂, x₁, h1, h2, hm, hhead.2.1, hmac, e2, hfun, ⟨hf.1.1.2, hwb, hdefs⟩, hf.1.2⟩

/-- the run of a parsed, expanded program is the executing stage on the expansion -/
theorem runModel_eq {cfg : Config} {txt : String} {ov : List (String × Num)} {c x : Circuit}
    (hp : Pipeline.parseProgram cfg txt = .ok c) (hx : expandAll ov c = .ok x) : runModel cfg ov txt = execute x := by
  simp only [runModel, runCircuit, hp, hx, bind, Except.bind]

/-- the stages of `execute` after the disjointness check -/
def afterCheck (x : Circuit) (body : List Walk.Stmt) (tbl : List GateRec) (traces : List (Addr × Addr)) : M RunSummary := do
  let toks ← makeSubcircuits x body tbl traces
  let starts := traces.map (·.1)
  match Walk.visit (Walk.fuelBound starts body) starts body with
  | .ok visits => pure { subcircuits := traces.length, visits := visits, traces := toks }
  | .error e => throw (ofVErr e)

theorem execute_at_check (x : Circuit) (body : List Walk.Stmt) (tbl : List GateRec) (traces : List (Addr × Addr))
    (hs : skeleton x = .ok (body, tbl)) (hl : tooLarge x.registers = .ok ()) (hd : discover body = .ok traces) :
    execute x = (do checkDisjoint x; afterCheck x body tbl traces) := by
  rw [execute_unfold x body tbl hs hl]
  simp only [hd, bind, Except.bind, pure, Except.pure, afterCheck]
  rfl

/-- **C13 over the run, rejection, on the meaning of the source.**  For a parsed program whose run reaches the disjointness check:
with `m = spl x₁` the meaning tree of the source under the overrides (subcircuit blocks spelled out, expanded macro bodies spliced),
`D` the gate definitions of the program and `Q` all qubits of its registers,

* the check refuses (with one of its two JaqalErrors, and with nothing else) ⇔ `SemConflict D Q m`; it passes ⇔ `¬ SemConflict D Q m`;
* what the check raises is what the run raises: `SemConflict D Q m` ⇒ `runModel cfg ov txt` fails with `parErr` or `gateErr` —
  `parErr` ("Parallel branches of block acting on the same qubit.") when only `SemPar`, `gateErr` ("Gate … acting on the same qubit
  more than once.") when only `SemRepeat`; when both hold, the first in visit order;
* `¬ SemConflict D Q m` ⇒ the run is `afterCheck` (the later stages). -/
theorem C13_run_reject_meaning (cfg : Config) (ov : List (String × Num)) (txt : String) (c x : Circuit)
    (body : List Walk.Stmt) (tbl : List GateRec) (traces : List (Addr × Addr))
    (hp : Pipeline.parseProgram cfg txt = .ok c) (hx : expandAll ov c = .ok x)
    (hs : skeleton x = .ok (body, tbl)) (hl : tooLarge x.registers = .ok ()) (hd : discover body = .ok traces) :
    ∃ c₁ c₂ x₁ allQ, ExpandSubcircuits.expandSubcircuits none none c = .ok c₁ ∧ FillIn.fillInLet ov c₁ = .ok c₂ ∧
      rawMeaning (FillIn.normOv ov) c₁ = .ok x₁ ∧ meaning (FillIn.normOv ov) c₁ = .ok x₁.norm ∧
      allQubits c₂.registers = .ok allQ ∧
      ((checkDisjoint x = .error parErr ∨ checkDisjoint x = .error gateErr) ↔
        SemConflict (circuitDefs c₂) (fqOf allQ) (ExpandMacros.spl x₁)) ∧
      (checkDisjoint x = .ok () ↔ ¬ SemConflict (circuitDefs c₂) (fqOf allQ) (ExpandMacros.spl x₁)) ∧
      (∀ e, checkDisjoint x = .error e → runModel cfg ov txt = .error e ∧ (e = parErr ∨ e = gateErr)) ∧
      (SemConflict (circuitDefs c₂) (fqOf allQ) (ExpandMacros.spl x₁) →
        runModel cfg ov txt = .error parErr ∨ runModel cfg ov txt = .error gateErr) ∧
      (SemPar (circuitDefs c₂) (fqOf allQ) (ExpandMacros.spl x₁) → ¬ SemRepeat (circuitDefs c₂) (ExpandMacros.spl x₁) →
        runModel cfg ov txt = .error parErr) ∧
      (SemRepeat (circuitDefs c₂) (ExpandMacros.spl x₁) → ¬ SemPar (circuitDefs c₂) (fqOf allQ) (ExpandMacros.spl x₁) →
        runModel cfg ov txt = .error gateErr) ∧
      (runModel cfg ov txt = .error parErr → checkDisjoint x = .error parErr →
        SemPar (circuitDefs c₂) (fqOf allQ) (ExpandMacros.spl x₁)) ∧
      (runModel cfg ov txt = .error gateErr → checkDisjoint x = .error gateErr →
        SemRepeat (circuitDefs c₂) (ExpandMacros.spl x₁)) ∧
      (¬ SemConflict (circuitDefs c₂) (fqOf allQ) (ExpandMacros.spl x₁) →
        runModel cfg ov txt = afterCheck x body tbl traces) := by
  obtain ⟨c₁, c₂, x₁, F⟩ := run_facts hp hx
  obtain ⟨allQ, u, ha, _, _, k1, k2, k3, k4, k5, k6, k7⟩ :=
    flat_checkDisjoint x (circuitDefs c₂) F.functional F.macros F.flat F.regsT _ F.sem
  have hrun : runModel cfg ov txt = (do checkDisjoint x; afterCheck x body tbl traces) := by
    rw [runModel_eq hp hx, execute_at_check x body tbl traces hs hl hd]
  have herr : ∀ e, checkDisjoint x = .error e → runModel cfg ov txt = .error e := by
    intro e he; rw [hrun, he]; rfl
  refine ⟨c₁, c₂, x₁, allQ, F.subs, F.filled, F.raw, ?_, by rw [← F.regs]; exact ha, k2, k1,
    fun e he => ⟨herr e he, k3 e he⟩, ?_, fun h1 h2 => herr _ (k6 h1 h2), fun h1 h2 => herr _ (k7 h1 h2),
    fun _ h => k4 h, fun _ h => k5 h, ?_⟩
  · rw [meaning_eq_raw, F.raw]; rfl
  · intro hc
    rcases k2.2 hc with h | h
    · exact Or.inl (herr _ h)
    · exact Or.inr (herr _ h)
  · intro hn
    have := k1.2 hn
    rw [hrun, this]; rfl

/-- the direction of `C13_run_reject_meaning` that is left at RUN level: a run that fails with one of the two messages of the
disjointness check was refused BY the check — i.e. the stages after the check (`afterCheck`: `_make_subcircuit`, the trace visitor)
never raise those two messages.  True of the model by inspection of the error strings; NOT proved (it is a statement about every
error string of `Resolve`, `makeSubcircuits` and the walkers).  `C13_run_reject_meaning_partial` is the equivalence with exactly
that as its hypothesis. -/
def C13_run_reject_meaning_full : Prop :=
  ∀ (cfg : Config) (ov : List (String × Num)) (txt : String) (c x : Circuit) (body : List Walk.Stmt) (tbl : List GateRec)
    (traces : List (Addr × Addr)), Pipeline.parseProgram cfg txt = .ok c → expandAll ov c = .ok x →
    skeleton x = .ok (body, tbl) → tooLarge x.registers = .ok () → discover body = .ok traces →
    ∃ c₁ c₂ x₁ allQ, ExpandSubcircuits.expandSubcircuits none none c = .ok c₁ ∧ FillIn.fillInLet ov c₁ = .ok c₂ ∧
      rawMeaning (FillIn.normOv ov) c₁ = .ok x₁ ∧ allQubits c₂.registers = .ok allQ ∧
      ((runModel cfg ov txt = .error parErr ∨ runModel cfg ov txt = .error gateErr) ↔
        SemConflict (circuitDefs c₂) (fqOf allQ) (ExpandMacros.spl x₁))

/-- **C13 over the run, rejection, both directions at run level**, given that the stages after the check do not fail with one of
the two messages of the check (`hlate`). -/
theorem C13_run_reject_meaning_partial (cfg : Config) (ov : List (String × Num)) (txt : String) (c x : Circuit)
    (body : List Walk.Stmt) (tbl : List GateRec) (traces : List (Addr × Addr))
    (hp : Pipeline.parseProgram cfg txt = .ok c) (hx : expandAll ov c = .ok x)
    (hs : skeleton x = .ok (body, tbl)) (hl : tooLarge x.registers = .ok ()) (hd : discover body = .ok traces)
    (hlate : afterCheck x body tbl traces ≠ .error parErr ∧ afterCheck x body tbl traces ≠ .error gateErr) :
    ∃ c₁ c₂ x₁ allQ, ExpandSubcircuits.expandSubcircuits none none c = .ok c₁ ∧ FillIn.fillInLet ov c₁ = .ok c₂ ∧
      rawMeaning (FillIn.normOv ov) c₁ = .ok x₁ ∧ allQubits c₂.registers = .ok allQ ∧
      ((runModel cfg ov txt = .error parErr ∨ runModel cfg ov txt = .error gateErr) ↔
        SemConflict (circuitDefs c₂) (fqOf allQ) (ExpandMacros.spl x₁)) := by
  obtain ⟨c₁, c₂, x₁, allQ, h1, h2, h3, _, h5, _, k1, _, k8, _, _, _, _, k13⟩ :=
    C13_run_reject_meaning cfg ov txt c x body tbl traces hp hx hs hl hd
  refine ⟨c₁, c₂, x₁, allQ, h1, h2, h3, h5, ⟨fun hr => ?_, k8⟩⟩
  apply Classical.byContradiction
  intro hn
  rw [k13 hn] at hr
  rcases hr with hr | hr
  · exact hlate.1 hr
  · exact hlate.2 hr

/-- **C13 over the run, acceptance, on the meaning of the source.**  No hypothesis: if `run_jaqal_circuit(parse_jaqal_string(text))`
returns, then the meaning of the source program (subcircuit blocks spelled out, under the overrides) has no parallel block with two
branches acting on a common qubit, and no gate application naming one qubit twice. -/
theorem C13_run_accept_meaning (cfg : Config) (ov : List (String × Num)) (txt : String) (s : RunSummary)
    (h : runModel cfg ov txt = .ok s) :
    ∃ c c₁ c₂ x₁ allQ, Pipeline.parseProgram cfg txt = .ok c ∧ ExpandSubcircuits.expandSubcircuits none none c = .ok c₁ ∧
      FillIn.fillInLet ov c₁ = .ok c₂ ∧ rawMeaning (FillIn.normOv ov) c₁ = .ok x₁ ∧
      meaning (FillIn.normOv ov) c₁ = .ok x₁.norm ∧ allQubits c₂.registers = .ok allQ ∧
      specSummary (ExpandMacros.spl x₁) = some s ∧
      ¬ SemConflict (circuitDefs c₂) (fqOf allQ) (ExpandMacros.spl x₁) := by
  have h' := h
  unfold runModel at h'
  obtain ⟨c, hp, hr⟩ := bind_ok h'
  have hr' := hr
  unfold runCircuit at hr'
  obtain ⟨x, hx, he⟩ := bind_ok hr'
  obtain ⟨c₁, c₂, x₁, F⟩ := run_facts hp hx
  obtain ⟨allQ, u, ha, _, _, k1, _⟩ := flat_checkDisjoint x (circuitDefs c₂) F.functional F.macros F.flat F.regsT _ F.sem
  have hsum := (C03_run_meaning_raw cfg ov txt c c₁ s x₁ hp F.subs F.raw hr).2.1
  refine ⟨c, c₁, c₂, x₁, allQ, hp, F.subs, F.filled, F.raw, ?_, by rw [← F.regs]; exact ha, hsum, ?_⟩
  · rw [meaning_eq_raw, F.raw]; rfl
  · apply k1.1
    cases hs : skeleton x with
    | error e => simp [execute, hs, bind, Except.bind] at he
    | ok p =>
      obtain ⟨body, tbl⟩ := p
      have hl : tooLarge x.registers = .ok () := by
        cases hl : tooLarge x.registers with
        | ok u => cases u; rfl
        | error e => simp [execute, hs, hl, bind, Except.bind] at he
      rw [execute_unfold x body tbl hs hl] at he
      cases hd : Walk.discover body with
      | error e => simp [hd, bind, Except.bind, throw, throwThe, MonadExceptOf.throw] at he
      | ok traces =>
        simp only [hd, bind, Except.bind, pure, Except.pure] at he
        cases h1 : checkDisjoint x with
        | error e => simp [h1] at he
        | ok v => cases v; rfl


/-! ### From the text -/

/-- the outcome of the disjointness check of the run of a text, when the run gets that far -/
def checkOf (cfg : Config) (ov : List (String × Num)) (txt : String) : Option (M Unit) :=
  match Pipeline.parseProgram cfg txt with
  | .ok c =>
    match expandAll ov c with
    | .ok x =>
      match skeleton x with
      | .ok (body, _) =>
        match tooLarge x.registers, Walk.discover body with
        | .ok (), .ok _ => some (checkDisjoint x)
        | _, _ => none
      | _ => none
    | _ => none
  | _ => none

/-- **C13 from the text.**  When the run of a text reaches the disjointness check, with outcome `r`: `r` is a refusal with `parErr`
only if the meaning has a parallel block with two overlapping branches (`SemPar`), with `gateErr` only if a gate application names a
qubit twice (`SemRepeat`) — and then that is what the run raises —, and `r` is acceptance iff `¬ SemConflict`. -/
theorem C13_check_text (cfg : Config) (ov : List (String × Num)) (txt : String) (r : M Unit) (h : checkOf cfg ov txt = some r) :
    ∃ c c₁ c₂ x₁ allQ, Pipeline.parseProgram cfg txt = .ok c ∧ ExpandSubcircuits.expandSubcircuits none none c = .ok c₁ ∧
      FillIn.fillInLet ov c₁ = .ok c₂ ∧ rawMeaning (FillIn.normOv ov) c₁ = .ok x₁ ∧ allQubits c₂.registers = .ok allQ ∧
      (r = .ok () ↔ ¬ SemConflict (circuitDefs c₂) (fqOf allQ) (ExpandMacros.spl x₁)) ∧
      (r = .error parErr → SemPar (circuitDefs c₂) (fqOf allQ) (ExpandMacros.spl x₁) ∧ runModel cfg ov txt = .error parErr) ∧
      (r = .error gateErr → SemRepeat (circuitDefs c₂) (ExpandMacros.spl x₁) ∧ runModel cfg ov txt = .error gateErr) ∧
      (SemConflict (circuitDefs c₂) (fqOf allQ) (ExpandMacros.spl x₁) → r = .error parErr ∨ r = .error gateErr) := by
  unfold checkOf at h
  cases hp : Pipeline.parseProgram cfg txt with
  | error e => simp [hp] at h
  | ok c =>
    cases hx : expandAll ov c with
    | error e => simp [hp, hx] at h
    | ok x =>
      cases hs : skeleton x with
      | error e => simp [hp, hx, hs] at h
      | ok p =>
        obtain ⟨body, tbl⟩ := p
        cases hl : tooLarge x.registers with
        | error e => simp [hp, hx, hs, hl] at h
        | ok u =>
          cases u
          cases hd : Walk.discover body with
          | error e => simp [hp, hx, hs, hl, hd] at h
          | ok traces =>
            simp only [hp, hx, hs, hl, hd, Option.some.injEq] at h
            subst h
            obtain ⟨c₁, c₂, x₁, allQ, h1, h2, h3, _, h5, k2, k1, k3, _, _, _, k11, k12, _⟩ :=
              C13_run_reject_meaning cfg ov txt c x body tbl traces hp hx hs hl hd
            exact ⟨c, c₁, c₂, x₁, allQ, rfl, h1, h2, h3, h5, k1, fun he => ⟨k11 (k3 _ he).1 he, (k3 _ he).1⟩,
              fun he => ⟨k12 (k3 _ he).1 he, (k3 _ he).1⟩, k2.2⟩

/-! ### Branch order -/

/-- **C13, branch order, on the meaning.**  `SemConflict` — what the run refuses — does not depend on the order in which the
branches of the parallel blocks of the meaning tree are written (`SemPerm`: any permutation of the branches of any number of parallel
blocks, at any depth). -/
theorem C13_sem_order (defs : List GateDef) (allQ : List FQ) (m m' : Sem) (h : SemPerm m m') :
    (SemConflict defs allQ m ↔ SemConflict defs allQ m') ∧ (SemPar defs allQ m ↔ SemPar defs allQ m') ∧
      (SemRepeat defs m ↔ SemRepeat defs m') ∧ ∀ q, q ∈ semQubits defs allQ m ↔ q ∈ semQubits defs allQ m' :=
  ⟨semConflict_perm defs allQ h, semPar_perm defs allQ h, semRepeat_perm defs h, semQubits_perm defs allQ h⟩

/-- **C13, branch order, the check of the run.**  For a parsed program and its expansion `x`: writing the branches of the parallel
blocks of the expanded circuit in another order (`PermParC`) changes neither the used-qubit sets nor the verdict of the
disjointness check — with no hypothesis on the analysis (it succeeds: `flat_used_ok`). -/
theorem C13_run_order_check (cfg : Config) (ov : List (String × Num)) (txt : String) (c x x' : Circuit)
    (hp : Pipeline.parseProgram cfg txt = .ok c) (hx : expandAll ov c = .ok x) (hperm : PermParC x x') :
    (checkDisjoint x = .ok () ↔ checkDisjoint x' = .ok ()) ∧
      ((∃ e, checkDisjoint x = .error e) ↔ (∃ e, checkDisjoint x' = .error e)) ∧
      ∃ u u', usedCircuit x = .ok u ∧ usedCircuit x' = .ok u' ∧ ∀ r i, Mem u r i ↔ Mem u' r i := by
  obtain ⟨c₁, c₂, x₁, F⟩ := run_facts hp hx
  obtain ⟨allQ, u, _, _, hu, _⟩ := flat_checkDisjoint x (circuitDefs c₂) F.functional F.macros F.flat F.regsT _ F.sem
  obtain ⟨u', hu', hm⟩ := C13_orderC_used x x' hperm u hu
  exact ⟨C13_orderC_accept x x' hperm u hu, C13_orderC_reject x x' hperm u hu, u, u', hu, hu', hm⟩

/-- NOT proved: branch order from the SOURCE.  Permuting the branches of parallel blocks of the source program (body and macro
bodies: `PermParC`) leaves acceptance, the number of subcircuits and the subcircuit of every readout unchanged.  Missing: that the
three passes map `PermParC` sources to `PermParC` expansions (in particular `expand_macros`, whose splices turn a permutation of the
branches of a parallel block into a permutation of the spliced list), and that `Walk.discover` / `Walk.visit` are invariant under
it (the ADDRESSES of the traces move with the branches).  What is proved: `C13_sem_order` (the verdict is a function of the meaning
tree up to branch order), `C13_run_order_check` (the verdict of the check on permuted expansions), `C13_order_state_perm` +
`C03_interleave` (the state vector). -/
def C13_run_order_meaning_full : Prop :=
  ∀ (cfg : Config) (ov : List (String × Num)) (txt txt' : String) (c c' : Circuit) (s : RunSummary),
    Pipeline.parseProgram cfg txt = .ok c → Pipeline.parseProgram cfg txt' = .ok c' → PermParC c c' →
    runModel cfg ov txt = .ok s → ∃ s', runModel cfg ov txt' = .ok s' ∧ s'.subcircuits = s.subcircuits ∧ s'.visits = s.visits

/-! ### Non-vacuity -/
section Examples

/-- an alias chain (`b[0]` is `a[1]` is `r[2]`) and a macro whose body is a parallel block: the two branches of
`m b[0] r[2]` = `< X b[0] | X r[2] >` collide only through the alias -/
def c13Bad : String :=
  "register r[4]\nmap a r[1:4]\nmap b a[1:3]\nmacro m x y { < X x | X y > }\nprepare_all\nm b[0] r[2]\nmeasure_all\n"
/-- its twin: `r[1]` instead of `r[2]` -/
def c13Good : String :=
  "register r[4]\nmap a r[1:4]\nmap b a[1:3]\nmacro m x y { < X x | X y > }\nprepare_all\nm b[0] r[1]\nmeasure_all\n"

def isErr (e : Err) : M Unit → Bool
  | .error e' => e' == e
  | _ => false
def isOk : M Unit → Bool
  | .ok _ => true
  | _ => false

/-- the hypothesis of `C13_check_text`, evaluated: the run of the first text reaches the check, which refuses it with `parErr` -/
theorem c13Bad_check : (checkOf cfgX [] c13Bad).map (isErr parErr) = some true := by decide +kernel
/-- … and accepts the twin -/
theorem c13Good_check : (checkOf cfgX [] c13Good).map isOk = some true := by decide +kernel

/-- hence (`C13_check_text`) the run of the first text fails with `parErr`, and its meaning has a parallel block with two branches
acting on a common qubit -/
example : runModel cfgX [] c13Bad = .error parErr ∧ ∃ defs allQ m, SemPar defs allQ m := by
  have hb := c13Bad_check
  cases h : checkOf cfgX [] c13Bad with
  | none => rw [h] at hb; cases hb
  | some r =>
    rw [h] at hb
    have hr' : r = .error parErr := by
      cases r with
      | ok u => simp [isErr] at hb
      | error e =>
        simp only [Option.map_some, isErr, Option.some.injEq, beq_iff_eq] at hb
        rw [hb]
    obtain ⟨c, c₁, c₂, x₁, allQ, _, _, _, _, _, _, k, _⟩ := C13_check_text cfgX [] c13Bad r h
    exact ⟨(k hr').2, _, _, _, (k hr').1⟩

/-- … and the meaning of the twin has no conflict -/
example : ∃ defs allQ m, ¬ SemConflict defs allQ m := by
  have hb := c13Good_check
  cases h : checkOf cfgX [] c13Good with
  | none => rw [h] at hb; cases hb
  | some r =>
    rw [h] at hb
    have hr' : r = .ok () := by
      cases r with
      | ok u => cases u; rfl
      | error e => simp [isOk] at hb
    obtain ⟨c, c₁, c₂, x₁, allQ, _, _, _, _, _, k, _⟩ := C13_check_text cfgX [] c13Good r h
    exact ⟨_, _, _, k.1 hr'⟩

/-- the specification side by hand: in `< X r[2] | X r[2] >` the two branches have the same `semQubits` -/
example : SemPar [gX] [("r", 0), ("r", 1), ("r", 2), ("r", 3)]
    (.blk true false 1 [.gate "X" [.qubit ("r", 2)], .gate "X" [.qubit ("r", 2)]]) :=
  SemPar.here (j := 0) (k := 1) (q := ("r", 2)) (by decide) rfl rfl (by decide) (by decide)

/-- … and `CX r[2] r[2]` names one qubit twice -/
example : SemRepeat [{ name := "CX", tag := .native, params := [("c", .qubit), ("t", .qubit)] }]
    (.gate "CX" [.qubit ("r", 2), .qubit ("r", 2)]) :=
  SemRepeat.gate ⟨_, List.mem_singleton.2 rfl, rfl, rfl, 0, 1, ("c", .qubit), ("t", .qubit), .qubit ("r", 2), .qubit ("r", 2),
    ("r", 2), by decide, rfl, rfl, rfl, rfl, rfl, rfl, by decide, by decide⟩

end Examples


end Jaqal.RunModel

#print axioms Jaqal.RunModel.C13_run_reject_meaning
#print axioms Jaqal.RunModel.C13_run_reject_meaning_partial
#print axioms Jaqal.RunModel.C13_run_accept_meaning
#print axioms Jaqal.RunModel.C13_check_text
#print axioms Jaqal.RunModel.C13_sem_order
#print axioms Jaqal.RunModel.C13_run_order_check
