import JaqalProofs.Lemmas.RoundTripTokens
import JaqalProofs.Lemmas.RoundTripProgram
import JaqalProofs.Lemmas.RoundTripOrder
import JaqalProofs.Lemmas.RoundTripLex
import JaqalProofs.Lemmas.RoundTripGenProgram
import JaqalProofs.Lemmas.RoundTripBounded
import JaqalProofs.Props.C02
import JaqalProofs.Props.C07
import JaqalProofs.Props.C14
import JaqalProofs.Props.C20
import Mathlib.Data.List.Nodup
/-!
# C01 — generated text parses back to an equal circuit, and generating again reproduces the text

`Pipeline.parseProgram cfg txt` models `parse_jaqal_string(txt, inject_pulses=cfg.natives, autoload_pulses=False)`
(`Model/Pipeline.lean`: lexer + LALR parser, then the circuit builder and its register-count check),
`Generator.gen` models `generate_jaqal_program`, `PyEq.circuitEq` is Python's `==` on circuits.

The round trip is cut into three layers, so that a failure localises:

* (A) `C01_tokens_derive` — PROVED for every `printable` circuit: the generator's output, read as tokens
  (`Pipeline.toks`), is a program of the grammar with statement tree `Pipeline.unbuild c`; hence (`C02_complete`)
  the parser model accepts ANY positioned token list with these tokens and returns exactly `unbuild c`
  (`C01_parse_toks`);
* (B) `LexGen c` — lexing the text `gen c` gives `toks c`;
* (C) `Rebuild cfg c` — the builder maps `unbuild c` to a circuit `==` to `c` that generates the same text.

`C01_compose` (PROVED) is the composition: (A) + (B) + (C) for one circuit give the round trip for that circuit.

For circuits in the range of `parseProgram` (any text, `autoload_pulses=False`):
* `C01_printable` — PROVED: every such circuit is printable (so (A) applies), has no same-kind nesting
  (`C01_no_same_kind_nesting`) and is well-formed (`C01_wf`, hence `c == c`);
* `C01_rebuild` — (C) PROVED for EVERY accepted text, with `c' = c` exactly: `C01_reorder` (the builder makes the
  same circuit from the statements sorted by section — usepulses, lets, register and aliases, macros, statements —
  and with at most one fundamental register that is the generator's order) and `C01_rebuild_canonical` (programs in
  the generator's order; every generated text is such a program);
* `C01_lex_gen` — (B) PROVED for every printable circuit whose names / floats / ints the lexer can read back
  (`LexSafe`); `C01_lexsafe` — PROVED: a parser-produced circuit is `LexSafe` if and only if (`C01_lexsafe_iff`) all
  the integers the generator writes for it have at most 4300 digits (`IntsBounded`, decidable); names and floats are
  those of the text.  Without the bound it is false (`C01_lexsafe_full`, `C01_big_stop`): `register r[N]; let m -N;
  map a r[m:]; map b a[:]` with a 4300-digit `N` is accepted and makes the defaulted stop `2N` of `b` a 4301-digit
  integer — in the model and in the real code, where `generate_jaqal_program` then raises `ValueError` (`str(int)`).
**`C01_roundtrip_bounded`** — the property, PROVED for every accepted text whose circuit is `IntsBounded`.
All layer statements are computable; the differential harness evaluates them in the model on every generated program
(driver op `round_trip_layers`, `harness/agents/c01_diff.py`) next to the round trip of the real code.
-/
namespace Jaqal.C01
open Jaqal Jaqal.Lexer Jaqal.Parser Jaqal.Grammar Jaqal.Builder Jaqal.Generator Jaqal.PyEq Jaqal.Pipeline Jaqal.RoundTrip

/-! ## (A) token layer -/

/-- Layer A. For every circuit whose slots hold something Jaqal has syntax for, the tokens the generator writes
form a program of the grammar whose statement tree is `unbuild c`: headers first (usepulses, lets, the register,
aliases), then macros and statements; each statement on its own line; same-kind nested blocks spliced; a
subcircuit count of 1 left out; slice bounds and steps written out. -/
theorem C01_tokens_derive (c : Circuit) (h : printable c = true) : Derives (toks c) (unbuild c) :=
  toks_derive c h

/-- Hence the parser model accepts the generator's tokens, wherever they stand in the text, and returns
`unbuild c` (and no other tree: `C02_unique`). -/
theorem C01_parse_toks (c : Circuit) (h : printable c = true) (ts : List PTok) (hts : ts.map (·.tok) = toks c) :
    parse ts = .ok (unbuild c) :=
  C02.C02_complete (hts ▸ C01_tokens_derive c h)

/-! ## (B), (C) and the composition -/

/-- Layer B for one circuit: the generator succeeds and its text lexes to `toks c`. -/
def LexGen (c : Circuit) : Prop := ∃ t ts, gen c = .ok t ∧ lex t = .ok ts ∧ ts.map (·.tok) = toks c

/-- Layer C for one circuit: building `unbuild c` gives a circuit `==` to `c` that generates the same text. -/
def Rebuild (cfg : Config) (c : Circuit) : Prop :=
  ∃ c', parseBuild cfg (unbuild c) = .ok c' ∧ circuitEq c c' = true ∧ gen c' = gen c

theorem lexAll_of_lex {t : String} {ts : List PTok} (h : lex t = .ok ts) : lexAll t = (ts, none) := by
  unfold lex at h
  split at h
  · rename_i ts' heq
    cases h
    exact heq
  · cases h

/-- The three layers compose: a circuit that is printable, whose text lexes to its tokens and whose tree rebuilds
to an equal circuit with the same text, survives the round trip, and the second generation is byte-identical. -/
theorem C01_compose (cfg : Config) (c : Circuit) (hp : printable c = true) (hB : LexGen c) (hC : Rebuild cfg c) :
    ∃ t c', gen c = .ok t ∧ parseProgram cfg t = .ok c' ∧ circuitEq c c' = true ∧ gen c' = .ok t := by
  obtain ⟨t, ts, hg, hl, hts⟩ := hB
  obtain ⟨c', hb, he, hg'⟩ := hC
  refine ⟨t, c', hg, ?_, he, hg'.trans hg⟩
  have hparse := C01_parse_toks c hp ts hts
  have htext : parseText t = .ok (unbuild c) := by
    unfold parseText
    rw [lexAll_of_lex hl]
    simp only [hparse]
  unfold parseProgram parseSx
  rw [htext]
  exact hb

/-- The property for ALL parser-produced circuits.  FALSE as it stands, in the model and in the real code: an accepted
program can compute an integer of more than 4300 digits (`C01_big_stop`), which `str(int)` / `int(text)` refuse; the
true statement is `C01_roundtrip_bounded`.  (It used to be refuted also by `map b r[0:t:0]`: a literal zero step next
to a let bound was accepted and then not written by `notate_slice`; `Register.__init__` now rejects it before looking
at the other bounds, see `C01_zero_step_rejected`.) -/
def C01_roundtrip_full : Prop :=
  ∀ (cfg : Config) (txt : String) (c : Circuit), cfg.autoload = false → parseProgram cfg txt = .ok c →
    ∃ t c', gen c = .ok t ∧ parseProgram cfg t = .ok c' ∧ circuitEq c c' = true ∧ gen c' = .ok t

/-! ### what every parser-produced circuit is like -/

/-- a text accepted by `parseProgram`: its tree, the shape and names of the tree's children, the memo-free build -/
theorem parseProgram_inv {cfg : Config} {txt : String} {c : Circuit} (h : parseProgram cfg txt = .ok c) :
    ∃ sx cs, parseText txt = .ok sx ∧ BSx.ofSx sx = .list (.str "circuit" :: cs) ∧
      (∀ e ∈ cs, GChild e ∧ noBr e = true) ∧ buildNoMemo cfg (.list (.str "circuit" :: cs)) = .ok c ∧
      parseBuild cfg sx = .ok c ∧ tooManyRegisters c = .ok c := by
  unfold parseProgram parseSx at h
  cases hp : parseText txt with
  | error e => rw [hp] at h; cases h
  | ok sx =>
    rw [hp] at h
    have hpb : parseBuild cfg sx = .ok c := h
    have h2 := hpb
    unfold parseBuild at h2
    obtain ⟨c0, hb, ht⟩ := bind_ok h2
    have hc0 : c0 = c := by
      unfold tooManyRegisters at ht
      split at ht
      · simp [throw_eq] at ht
      · simpa [pure, Except.pure] using ht
    subst hc0
    have hnb := parseText_noBr hp
    have hder : ∃ ts, Derives ts sx := by
      unfold parseText at hp
      split at hp
      · rename_i ts _
        cases hq : parse ts with
        | ok x => rw [hq] at hp; simp only [] at hp; cases hp; exact ⟨_, parse_sound hq⟩
        | error e => rw [hq] at hp; cases hp
      · rename_i ts le _
        cases hq : parse ts with
        | ok x => rw [hq] at hp; cases hp
        | error e => rw [hq] at hp; simp only [] at hp; split at hp <;> cases hp
    obtain ⟨ts, hd⟩ := hder
    obtain ⟨hs, bs, he, hh, hbod⟩ := derives_gprogram hd
    refine ⟨sx, hs ++ bs, rfl, he, ?_, ?_, hpb, ht⟩
    · intro e hmem
      rw [he] at hnb
      simp only [noBr, noBrList, Bool.and_eq_true] at hnb
      refine ⟨?_, noBr_mem hnb.2 hmem⟩
      rcases List.mem_append.1 hmem with hm | hm
      · exact Or.inl (hh e hm)
      · exact Or.inr (hbod e hm)
    · rw [← he, ← C07_memo_transparent]; exact hb

/-- **Every circuit the parser and builder produce is printable** (layer A applies to it), has no same-kind nesting and
is well-formed — whatever the order of the statements of the text. -/
theorem C01_built_facts (cfg : Config) (txt : String) (c : Circuit) (ha : cfg.autoload = false)
    (h : parseProgram cfg txt = .ok c) : BuiltFacts c := by
  obtain ⟨sx, cs, _, _, hcs, hb, _, _⟩ := parseProgram_inv h
  exact buildNoMemo_facts ha hcs hb

theorem C01_printable (cfg : Config) (txt : String) (c : Circuit) (ha : cfg.autoload = false)
    (h : parseProgram cfg txt = .ok c) : printable c = true :=
  (C01_built_facts cfg txt c ha h).printable

/-- A parser-produced circuit has no block directly inside a block of its own kind (subcircuits and the top level
apart): the generator has nothing to splice, and `==` on the statement lists of `c` and of the re-parsed circuit
compares like with like. -/
theorem C01_no_same_kind_nesting (cfg : Config) (txt : String) (c : Circuit) (ha : cfg.autoload = false)
    (h : parseProgram cfg txt = .ok c) : NoSameKindNesting c :=
  (C01_built_facts cfg txt c ha h).noNesting

/-- a parser-produced circuit is well-formed in the sense of `C20_refl`: its dictionaries have distinct keys and every
qubit has a named source; hence `c == c` -/
theorem C01_wf (cfg : Config) (txt : String) (c : Circuit) (ha : cfg.autoload = false)
    (h : parseProgram cfg txt = .ok c) : WF c := by
  have hf := C01_built_facts cfg txt c ha h
  obtain ⟨sx, cs, _, he, _, _, hpb, _⟩ := parseProgram_inv h
  unfold parseBuild at hpb
  obtain ⟨c0, hb, ht⟩ := bind_ok hpb
  have hc0 : c0 = c := by
    unfold tooManyRegisters at ht
    split at ht
    · simp [throw_eq] at ht
    · simpa [pure, Except.pure] using ht
  subst hc0
  have hn := C14_names_build cfg _ _ hb
  have hnames := hn.names
  have key : ∀ (l : List Val), (∀ v ∈ l, ∃ n, v.name? = some n) → (l.map Builder.nameOf).Nodup → (l.map Val.name?).Nodup := by
    intro l hl hnd
    have : l.map Val.name? = (l.map Builder.nameOf).map some := by
      rw [List.map_map]
      apply List.map_congr_left
      intro v hv
      obtain ⟨n, hn'⟩ := hl v hv
      simp [Builder.nameOf, hn']
    rw [this]
    exact hnd.map (Option.some_injective _)
  rw [List.map_append] at hnames
  have hmn := hn.macroNames
  refine { constKeys := key _ hf.namedConsts (List.Nodup.of_append_left hnames),
           regKeys := key _ hf.namedRegs (List.Nodup.of_append_right hnames),
           macroKeys := ?_, nativeKeys := ?_, consts := hf.wfConsts, regs := hf.wfRegs, macros := hf.wfMacros,
           body := hf.wfBody }
  · have := (List.Nodup.of_append_left hmn).map (Option.some_injective _)
    simpa [List.map_map, Function.comp_def] using this
  · have := (List.Nodup.of_append_right hmn).map (Option.some_injective _)
    simpa [List.map_map, Function.comp_def] using this

/-! ### (C) for programs in the generator's order, and its reduction to a reordering lemma in general -/

/-- the statements of the tree come in the generator's order -/
def CanonicalSx (sx : Sx) : Prop :=
  ∃ cs, BSx.ofSx sx = .list (.str "circuit" :: cs) ∧ Canonical cs

/-- **Layer C for every text whose statements come in the generator's order**: the tree the generator writes for
the circuit is built to exactly that circuit. -/
theorem C01_rebuild_canonical (cfg : Config) (txt : String) (c : Circuit) (ha : cfg.autoload = false)
    (h : parseProgram cfg txt = .ok c) (hcan : ∀ sx, parseText txt = .ok sx → CanonicalSx sx) :
    parseBuild cfg (unbuild c) = .ok c ∧ Rebuild cfg c := by
  obtain ⟨sx, cs, hp, he, hcs, hb, _, ht⟩ := parseProgram_inv h
  obtain ⟨cs', he', hc'⟩ := hcan sx hp
  have : cs' = cs := by rw [he] at he'; cases he'; rfl
  subst this
  have hre := (buildNoMemo_rebuild ha hcs hc' hb).1
  have hpb : parseBuild cfg (unbuild c) = .ok c := by
    unfold parseBuild
    rw [C07_memo_transparent, hre]
    exact ht
  exact ⟨hpb, c, hpb, C20.C20_refl c (C01_wf cfg txt c ha h), rfl⟩

/-- **The builder does not care about the order of the sections** (`Lemmas/RoundTripOrder.lean`).  `canon cs` is
the stable sort of the children by section — usepulses, lets, register and aliases, macros, statements: a permutation
(`canon_perm`), sorted (`canon_sorted`), each section in its old order (`canon_filter`).  If `build_circuit` accepts
the children `cs` it accepts `canon cs` and makes the same circuit; and when the circuit has at most one fundamental
register (`parse_jaqal_string` refuses more), the `register` statement comes before every `map` statement, so that
`canon cs` is in the generator's order.

Why it holds (`Lemmas/RoundTripSwap.lean`, `swap_step`): a let depends on nothing; the register only on lets; an alias
on lets, the register and earlier aliases, whose relative order is kept; names are unique (`add_to_context` refuses
duplicates), so looking a name up in a larger context gives the same value (`buildAny_transfer`); a macro body and a
statement see the same gate definitions in either order because the table only grows by fresh names, an anonymous
definition is determined by the name and the number of arguments of any successful call, and a macro cannot be defined
after its name was used as a gate; `nestingCheck` follows macro calls with a fuel bound equal to the size of the table,
which is enough in every table the builder makes because a macro body only calls what was defined before it
(`Lemmas/RoundTripTable.lean`, `nesting_eq`). -/
def C01_reorder_full : Prop :=
  ∀ (cfg : Config) (cs : List BSx) (c : Circuit), cfg.autoload = false → (∀ e ∈ cs, GChild e ∧ noBr e = true) →
    buildNoMemo cfg (.list (.str "circuit" :: cs)) = .ok c →
    buildNoMemo cfg (.list (.str "circuit" :: canon cs)) = .ok c ∧
      ((c.registers.filter isFundamental).length ≤ 1 → Canonical (canon cs))

/-- PROVED. -/
theorem C01_reorder : C01_reorder_full :=
  fun _ _ _ ha hcs h => ⟨buildNoMemo_reorder ha hcs h, canonical_of_built ha hcs h⟩

/-- Without the bound on the registers the sorted children need not be in the generator's order (and the circuit is
not a fixed point of generate-and-parse: the generator writes all registers first): `map a r` between two `register`
statements. -/
example : ¬ Canonical (canon [.list [.str "register", .str "r", .int 1], .list [.str "map", .str "a", .str "r"],
    .list [.str "register", .str "s", .int 1]]) := by
  simp [Canonical, canon, ins, cls, rank]

/-- layer (C) for all parser-produced circuits -/
def C01_rebuild_full : Prop :=
  ∀ (cfg : Config) (txt : String) (c : Circuit), cfg.autoload = false → parseProgram cfg txt = .ok c → Rebuild cfg c

/-- (C) in general follows from the reordering lemma, with the very same circuit. -/
theorem C01_rebuild_exact_of_reorder (hR : C01_reorder_full) (cfg : Config) (txt : String) (c : Circuit)
    (ha : cfg.autoload = false) (h : parseProgram cfg txt = .ok c) : parseBuild cfg (unbuild c) = .ok c := by
  obtain ⟨sx, cs, hp, he, hcs, hb, _, ht⟩ := parseProgram_inv h
  obtain ⟨hb', hcan⟩ := hR cfg cs c ha hcs hb
  have hone : (c.registers.filter isFundamental).length ≤ 1 := by
    unfold tooManyRegisters at ht
    split at ht
    · simp [throw_eq] at ht
    · omega
  have hcs' : ∀ e ∈ canon cs, GChild e ∧ noBr e = true := fun e hm => hcs e ((canon_perm cs).mem_iff.1 hm)
  have hre := (buildNoMemo_rebuild ha hcs' (hcan hone) hb').1
  unfold parseBuild
  rw [C07_memo_transparent, hre]
  exact ht

/-- (C) in general follows from the reordering lemma. -/
theorem C01_rebuild_of_reorder (hR : C01_reorder_full) : C01_rebuild_full := by
  intro cfg txt c ha h
  exact ⟨c, C01_rebuild_exact_of_reorder hR cfg txt c ha h, C20.C20_refl c (C01_wf cfg txt c ha h), rfl⟩

/-- **Layer C, PROVED for every accepted text** (`autoload_pulses=False`), whatever the order of its statements: the
tree the generator writes for the circuit is built to exactly that circuit. -/
theorem C01_rebuild : C01_rebuild_full := C01_rebuild_of_reorder C01_reorder

/-- … in one line: parsing what the generator's tree says gives back the circuit itself. -/
theorem C01_rebuild_exact (cfg : Config) (txt : String) (c : Circuit) (ha : cfg.autoload = false)
    (h : parseProgram cfg txt = .ok c) : parseBuild cfg (unbuild c) = .ok c :=
  C01_rebuild_exact_of_reorder C01_reorder cfg txt c ha h

/-! ### (B) the text layer -/

/-- **Layer B**, PROVED for every printable circuit that is `LexSafe`: all its names are read back as one IDENTIFIER
(module names as IDENTIFIER or DOTIDENTIFIER), all its floats are canonical decimals that do not overflow, all its ints
have at most 4300 digits (`int(text)` refuses more).  The generator does not raise on it, and lexing the text gives
exactly `toks c` (`Lemmas/RoundTripGenProgram.lean`: the text is, piece by piece, a spelling of those tokens). -/
theorem C01_lex_gen (c : Circuit) (hp : printable c = true) (hs : LexSafe c) : LexGen c := by
  obtain ⟨t, pts, ht, hl, hm⟩ := lex_gen c hp hs
  exact ⟨t, pts, ht, hl, hm⟩

/-- a parser-produced circuit is `LexSafe` — FALSE without a bound on the integers (`C01_big_stop`): the stop of a
defaulted slice of an alias is computed (`src.size`), and `register r[N]; let m -N; map a r[m:]; map b a[:]` with a
4300-digit `N` makes it a 4301-digit int, which `gen` writes and `lex` refuses (the real `generate_jaqal_program`
raises `ValueError` on it: `str(int)` refuses more than 4300 digits). -/
def C01_lexsafe_full : Prop :=
  ∀ (cfg : Config) (txt : String) (c : Circuit), cfg.autoload = false → parseProgram cfg txt = .ok c → LexSafe c

/-- **The true version**: a parser-produced circuit all of whose integers — as the generator writes them, the computed
defaults of slices included — have at most 4300 digits is `LexSafe`.  Names: every name of the circuit is the text of
an IDENTIFIER token of the program (`parseText_safe`: the lexer's IDENTIFIER tokens are identifiers that are not
keywords, and the grammar puts them at the name positions of the tree; `buildNoMemo_safe`: the builder invents no
names).  Floats: every float of the circuit is the value of a NUMBER token, a canonical decimal that does not overflow
(`Lexer.step`). -/
theorem C01_lexsafe (cfg : Config) (txt : String) (c : Circuit) (ha : cfg.autoload = false)
    (h : parseProgram cfg txt = .ok c) (hi : IntsBounded c) : LexSafe c := by
  obtain ⟨sx, cs, hp, he, hcs, hb, _, _⟩ := parseProgram_inv h
  obtain ⟨cs', he', hsafe⟩ := parseText_safe hp
  have : cs' = cs := by rw [he] at he'; cases he'; rfl
  subst this
  exact lexSafe_of (buildNoMemo_safe ha (fun e hm => ⟨hsafe e hm, (hcs e hm).2⟩) hb) hi

/-- The bound is exactly what is needed. -/
theorem C01_lexsafe_iff (cfg : Config) (txt : String) (c : Circuit) (ha : cfg.autoload = false)
    (h : parseProgram cfg txt = .ok c) : LexSafe c ↔ IntsBounded c :=
  ⟨intsBounded_of_lexSafe, C01_lexsafe cfg txt c ha h⟩

/-- layer (B) for all parser-produced circuits (false without the bound, like `C01_lexsafe_full`) -/
def C01_lex_gen_full : Prop :=
  ∀ (cfg : Config) (txt : String) (c : Circuit), cfg.autoload = false → parseProgram cfg txt = .ok c → LexGen c

theorem C01_lex_gen_of_lexsafe (hS : C01_lexsafe_full) : C01_lex_gen_full :=
  fun cfg txt c ha h => C01_lex_gen c (C01_printable cfg txt c ha h) (hS cfg txt c ha h)

/-- **Layer B, PROVED for every accepted text whose circuit is `IntsBounded`.** -/
theorem C01_lex_gen_bounded (cfg : Config) (txt : String) (c : Circuit) (ha : cfg.autoload = false)
    (h : parseProgram cfg txt = .ok c) (hi : IntsBounded c) : LexGen c :=
  C01_lex_gen c (C01_printable cfg txt c ha h) (C01_lexsafe cfg txt c ha h hi)

/-- The property follows from the layer statements (kept for reference; `C01_reorder` is proved, `C01_lex_gen_full` is
false without the bound). -/
theorem C01_roundtrip_partial (hB : C01_lex_gen_full) (hR : C01_reorder_full) : C01_roundtrip_full :=
  fun cfg txt c ha h => C01_compose cfg c (C01_printable cfg txt c ha h) (hB cfg txt c ha h)
    (C01_rebuild_of_reorder hR cfg txt c ha h)

/-- **C01, PROVED**: for every text `parse_jaqal_string` accepts (`autoload_pulses=False`, any `inject_pulses`), whatever
the order of its statements, if every integer the generator writes for the circuit has at most 4300 digits then the
generated text is accepted, parses to a circuit `==` to the original one (in fact to the very same circuit), and
generating again reproduces the text byte for byte. -/
theorem C01_roundtrip_bounded (cfg : Config) (txt : String) (c : Circuit) (ha : cfg.autoload = false)
    (h : parseProgram cfg txt = .ok c) (hi : IntsBounded c) :
    ∃ t c', gen c = .ok t ∧ parseProgram cfg t = .ok c' ∧ circuitEq c c' = true ∧ gen c' = .ok t :=
  C01_compose cfg c (C01_printable cfg txt c ha h) (C01_lex_gen_bounded cfg txt c ha h hi) (C01_rebuild cfg txt c ha h)

/-- The re-parsed circuit is again `IntsBounded`, so the round trip can be iterated. -/
theorem C01_roundtrip_bounded_again (cfg : Config) (txt : String) (c : Circuit) (ha : cfg.autoload = false)
    (h : parseProgram cfg txt = .ok c) (hi : IntsBounded c) :
    ∃ t c', gen c = .ok t ∧ parseProgram cfg t = .ok c' ∧ IntsBounded c' := by
  obtain ⟨t, ts, hg, hl, hts⟩ := C01_lex_gen_bounded cfg txt c ha h hi
  have hb := C01_rebuild_exact cfg txt c ha h
  refine ⟨t, c, hg, ?_, hi⟩
  have hparse := C01_parse_toks c (C01_printable cfg txt c ha h) ts hts
  have htext : parseText t = .ok (unbuild c) := by
    unfold parseText
    rw [lexAll_of_lex hl]
    simp only [hparse]
  unfold parseProgram parseSx
  rw [htext]
  exact hb

/-- non-vacuity: a text whose statements are NOT in the generator's order (the register before the let, a statement
before the macro) is accepted and its circuit is `IntsBounded` … -/
theorem C01_example_accepted : (match parseProgram {} "register r[2]\nlet n 1\nG r[n]\nmacro m a { G a }\nm r[0]\n" with
    | .ok c => decide (IntsBounded c)
    | .error _ => false) = true := by decide +kernel

/-- … so it survives the round trip. -/
example : ∃ c t c', parseProgram {} "register r[2]\nlet n 1\nG r[n]\nmacro m a { G a }\nm r[0]\n" = .ok c ∧
    gen c = .ok t ∧ parseProgram {} t = .ok c' ∧ circuitEq c c' = true ∧ gen c' = .ok t := by
  have h0 := C01_example_accepted
  cases h : parseProgram {} "register r[2]\nlet n 1\nG r[n]\nmacro m a { G a }\nm r[0]\n" with
  | error e => rw [h] at h0; cases h0
  | ok c =>
    rw [h] at h0
    obtain ⟨t, c', h1, h2, h3, h4⟩ := C01_roundtrip_bounded {} _ c rfl h (by simpa using h0)
    exact ⟨c, t, c', rfl, h1, h2, h3, h4⟩

/-! ### the bound cannot be dropped -/

/-- `10^4300 − 1`: 4300 nines -/
def bigN : Int := 10 ^ 4300 - 1

/-- the tree of `register r[N]; let m -N; map a r[m:]; map b a[:]` for an integer `N` -/
def bigSx (N : Int) : Sx :=
  .list [.str "circuit", .list [.str "register", .str "r", .int N], .list [.str "let", .str "m", .int (-N)],
    .list [.str "map", .str "a", .str "r", .str "m", .none, .none],
    .list [.str "map", .str "b", .str "a", .none, .none, .none]]

/-- **The hypothesis of `C01_lexsafe` cannot be dropped in the model**: the builder accepts the tree of
`register r[N]; let m -N; map a r[m:]; map b a[:]` with `N = 10^4300 − 1` (all of whose integers have 4300 digits,
so the lexer produces it), and the circuit is not `IntsBounded` — the defaulted stop of `b` is the size `2N` of `a`,
a 4301-digit integer — hence not `LexSafe`: `gen` writes that integer and `lex` refuses it.  (The real code accepts
the same text, and `generate_jaqal_program` then raises `ValueError`: `str(int)` refuses more than 4300 digits.) -/
theorem C01_big_stop : ∃ c, parseBuild {} (bigSx bigN) = .ok c ∧ ¬ IntsBounded c ∧ ¬ LexSafe c := by
  have h0 : (match parseBuild {} (bigSx bigN) with
      | .ok c => decide (IntsBounded c)
      | .error _ => true) = false := by decide +kernel
  cases h : parseBuild {} (bigSx bigN) with
  | error e => rw [h] at h0; cases h0
  | ok c =>
    rw [h] at h0
    have hn : ¬ IntsBounded c := by simpa using h0
    exact ⟨c, rfl, hn, fun hs => hn (intsBounded_of_lexSafe hs)⟩

/-- one digit less and the circuit is `IntsBounded` -/
example : (match parseBuild {} (bigSx (10 ^ 4299 - 1)) with
    | .ok c => decide (IntsBounded c)
    | .error _ => false) = true := by decide +kernel

/-- **The round trip, PROVED outright**, for every accepted text whose statements come in the generator's order and
whose circuit the lexer can read back (`LexSafe`): the generated text is accepted, parses to a circuit `==` to the
original one (in fact to the very same circuit), and generating again reproduces the text byte for byte. -/
theorem C01_roundtrip_canonical (cfg : Config) (txt : String) (c : Circuit) (ha : cfg.autoload = false)
    (h : parseProgram cfg txt = .ok c) (hcan : ∀ sx, parseText txt = .ok sx → CanonicalSx sx) (hs : LexSafe c) :
    ∃ t c', gen c = .ok t ∧ parseProgram cfg t = .ok c' ∧ circuitEq c c' = true ∧ gen c' = .ok t :=
  C01_compose cfg c (C01_printable cfg txt c ha h) (C01_lex_gen c (C01_printable cfg txt c ha h) hs)
    (C01_rebuild_canonical cfg txt c ha h hcan).2

/-- For a text in the generator's order only (B) is missing. -/
theorem C01_roundtrip_canonical_partial (hB : C01_lex_gen_full) (cfg : Config) (txt : String) (c : Circuit)
    (ha : cfg.autoload = false) (h : parseProgram cfg txt = .ok c)
    (hcan : ∀ sx, parseText txt = .ok sx → CanonicalSx sx) :
    ∃ t c', gen c = .ok t ∧ parseProgram cfg t = .ok c' ∧ circuitEq c c' = true ∧ gen c' = .ok t :=
  C01_compose cfg c (C01_printable cfg txt c ha h) (hB cfg txt c ha h) (C01_rebuild_canonical cfg txt c ha h hcan).2

/-! ### a literal zero step is rejected at build -/

/-- the tree of `let t 1; register r[6]; map b r[0:t:0]` -/
def zsSx : Sx :=
  .list [.str "circuit", .list [.str "let", .str "t", .int 1], .list [.str "register", .str "r", .int 6],
    .list [.str "map", .str "b", .str "r", .int 0, .str "t", .int 0]]

/-- `map b r[0:t:0]` is a JaqalError ("zero-step") although the stop is a let: the one parser-accepted shape that did
not survive the round trip (`notate_slice` does not write a step of 0) is no longer accepted. -/
theorem C01_zero_step_rejected :
    (match parseBuild {} zsSx with
     | .error (.jaqal r) => r == "zero-step"
     | _ => false) = true := by decide +kernel

/-- In general: `Register.__init__` never constructs a slice alias with the literal step 0. -/
theorem C01_no_literal_zero_step (n : String) (src a b v : Val) : mkSlice n src a b (.int 0) ≠ .ok v := by
  have key : ∃ e, sliceCheck src a b (.int 0) = .error e := by
    unfold sliceCheck
    generalize ((isIntLit a || isAV a) && (isIntLit b || isAV b) && (isIntLit (.int 0) || isAV (.int 0))) = X
    cases X
    · exact ⟨_, rfl⟩
    · exact ⟨.jaqal "zero-step", rfl⟩
  obtain ⟨e, he⟩ := key
  intro h
  unfold mkSlice at h
  rw [he] at h
  cases h

/-! ## same meaning -/

/-- The re-parsed circuit has the same gate-level meaning (`Spec/Sem.lean`, numbers by value) under every
override environment: `C20_sound`.  `ParserLike` (declarations are dictionaries, every qubit reference points into
the circuit's own register dictionary) and the common macro order are what `C20_sound` needs; for circuits built by
`parseProgram` they are consequences of `C14_sound_all` that have not been derived yet (`C20_sound_full`). -/
theorem C01_meaning (ρ : Sem.Env) (c c' : Circuit) (hc : ParserLike c) (hc' : ParserLike c')
    (horder : c.macros.map (·.name) = c'.macros.map (·.name)) (heq : circuitEq c c' = true) :
    C20.MeaningEq (Sem.meaning ρ c) (Sem.meaning ρ c') :=
  (C20.C20_sound ρ c c' hc hc' horder heq).2.2

/-- **Same meaning, unconditionally**: under the hypotheses of `C01_roundtrip_bounded` the re-parsed circuit has the same
gate-level meaning (`Spec/Sem.lean`, numbers by value) as the original one under EVERY override environment — the round
trip (`C01_roundtrip_bounded`: the re-parse `c'` is `==` to `c`) composed with the soundness of `==` for parser-produced
circuits (`C20_sound_parsed`: both circuits come out of `parse_jaqal_string`, so neither `ParserLike` nor a common macro
order has to be assumed). -/
theorem C01_meaning_parsed (cfg : Config) (txt : String) (c : Circuit) (ha : cfg.autoload = false)
    (h : parseProgram cfg txt = .ok c) (hi : IntsBounded c) :
    ∃ t c', gen c = .ok t ∧ parseProgram cfg t = .ok c' ∧ circuitEq c c' = true ∧ gen c' = .ok t ∧
      ∀ ρ : Sem.Env, C20.MeaningEq (Sem.meaning ρ c) (Sem.meaning ρ c') := by
  obtain ⟨t, c', h1, h2, h3, h4⟩ := C01_roundtrip_bounded cfg txt c ha h hi
  exact ⟨t, c', h1, h2, h3, h4, fun ρ => (C20.C20_sound_parsed cfg cfg txt t c c' ρ ha ha h h2 h3).2.2⟩

/-- non-vacuity: the accepted text of `C01_example_accepted` (a let, an indexed qubit, a macro and a call) -/
example : ∃ c t c', parseProgram {} "register r[2]\nlet n 1\nG r[n]\nmacro m a { G a }\nm r[0]\n" = .ok c ∧
    gen c = .ok t ∧ parseProgram {} t = .ok c' ∧ ∀ ρ : Sem.Env, C20.MeaningEq (Sem.meaning ρ c) (Sem.meaning ρ c') := by
  have h0 := C01_example_accepted
  cases h : parseProgram {} "register r[2]\nlet n 1\nG r[n]\nmacro m a { G a }\nm r[0]\n" with
  | error e => rw [h] at h0; cases h0
  | ok c =>
    rw [h] at h0
    obtain ⟨t, c', h1, h2, _, _, h5⟩ := C01_meaning_parsed {} _ c rfl h (by simpa using h0)
    exact ⟨c, t, c', rfl, h1, h2, h5⟩

/-! ## circuits built through the builder API -/

/-- What "built from legal identifiers and finite numbers within Jaqal's legal block nesting" means for an
S-expression handed to `build`: it builds to a printable circuit (numbers in let / argument positions, ints or
names in size / index / bound / count positions, no `{ {} }`, no subcircuit inside `< >` or another subcircuit, loop
and macro bodies are blocks) whose names lex as identifiers.  A register size or map index given as an integral
FLOAT is stored as an int (`build_register` / `build_map` apply `as_integer`), so it is printable — see
`C01_builder_float_size_printable`. -/
structure BuilderLegal (cfg : Config) (e : BSx) (c : Circuit) : Prop where
  built : (build cfg e).bind tooManyRegisters = .ok c
  printable : printable c = true
  lexes : LexGen c
  rebuilds : Rebuild cfg c

theorem C01_builder_api (cfg : Config) (e : BSx) (c : Circuit) (h : BuilderLegal cfg e c) :
    ∃ t c', gen c = .ok t ∧ parseProgram cfg t = .ok c' ∧ circuitEq c c' = true ∧ gen c' = .ok t :=
  C01_compose cfg c h.printable h.lexes h.rebuilds

/-- `["circuit", ["register", "r", 2.0]]` builds to the register of size `2` (an int): `register r[2]` is written.
(Before the repair the float was stored and `register r[2.0]`, a syntax error, was written.) -/
theorem C01_builder_float_size_printable :
    (build {} (.list [.str "circuit", .list [.str "register", .str "r", .flt ⟨false, 2, 0⟩]])).toOption.map
      (fun (c : Circuit) => (c.registers, Pipeline.printable c)) = some ([Val.regF "r" (.int 2)], true) := by
  decide +kernel

/-! ## fixpoints used by layer C -/

/-- `as_integer` is idempotent: the stored let value / index is read back unchanged. -/
theorem C01_asInteger_idem (v : Val) : asIntegerV (asIntegerV v) = asIntegerV v := by
  cases v <;> try rfl
  rename_i d
  by_cases h : d.isIntegral = true
  · simp [asIntegerV, Num.asInteger, Val.ofNum, h]
  · simp [asIntegerV, Num.asInteger, Val.ofNum, h]

/-- a subcircuit count of 1 is written as nothing and read back as 1; any other int count is written and read back -/
theorem C01_subcount_fixpoint (recV : BSx → M Val) (i : Int) (hrec : recV (.int i) = .ok (.int i)) :
    subCount recV (BSx.ofSx (subCountSx (.int i))) = .ok (.int i) := by
  by_cases h : i = 1
  · subst h; rfl
  · have : itersNe1 (.int i) = true := by simp [itersNe1, h]
    simp only [subCountSx, this, if_true, refSx, BSx.ofSx, subCount, hrec]

/-- written-out slice defaults are fixpoints: a stop that is present is kept as it is -/
theorem C01_slice_stop_fixpoint (src stop : Val) (h : stop ≠ .none) : defaultStop src stop = .ok stop := by
  unfold defaultStop
  have : (stop == Val.none) = false := by
    cases stop <;> first | rfl | exact absurd rfl h
  simp [this]
  rfl

/-! ## non-vacuity -/

/-- the statement tree of
```
let n 4; let a -2.5e-7; register r[n]; map w r; map q r[1]; map s r[0:n:2]
macro m a x { g x a ; < h x | { h s[1] ; h w[3] } > }
loop 2 { m 1.5 q ; subcircuit 3 { g r[0] a } }
subcircuit { h q }
```
(lets of both kinds, a let-sized register, the three alias forms, a macro whose parameter `a` shadows the let, nested
blocks, a loop, subcircuits with and without a count) -/
def exSx : Sx :=
  .list [.str "circuit",
    .list [.str "let", .str "n", .int 4],
    .list [.str "let", .str "a", .flt ⟨true, 25, -8⟩],
    .list [.str "register", .str "r", .str "n"],
    .list [.str "map", .str "w", .str "r"],
    .list [.str "map", .str "q", .str "r", .int 1],
    .list [.str "map", .str "s", .str "r", .int 0, .str "n", .int 2],
    .list [.str "macro", .str "m", .str "a", .str "x",
      .list [.str "sequential_block",
        .list [.str "gate", .str "g", .str "x", .str "a"],
        .list [.str "parallel_block",
          .list [.str "gate", .str "h", .str "x"],
          .list [.str "sequential_block",
            .list [.str "gate", .str "h", .list [.str "array_item", .str "s", .int 1]],
            .list [.str "gate", .str "h", .list [.str "array_item", .str "w", .int 3]]]]]],
    .list [.str "loop", .int 2,
      .list [.str "sequential_block",
        .list [.str "gate", .str "m", .flt ⟨false, 15, -1⟩, .str "q"],
        .list [.str "subcircuit_block", .int 3,
          .list [.str "gate", .str "g", .list [.str "array_item", .str "r", .int 0], .str "a"]]]],
    .list [.str "subcircuit_block", .str "",
      .list [.str "gate", .str "h", .str "q"]]]

/-- the circuit the builder makes of it -/
def exC : Circuit :=
  match parseBuild {} exSx with
  | .ok c => c
  | .error _ => {}

theorem exC_built : parseBuild {} exSx = .ok exC := by
  have h : (parseBuild {} exSx).toOption.isSome = true := by decide +kernel
  unfold exC
  cases hb : parseBuild {} exSx with
  | ok c => rfl
  | error e => rw [hb] at h; simp [Except.toOption] at h

/-- the example is printable, so layer A applies to it … -/
theorem exC_printable : printable exC = true := by decide +kernel

example : Derives (toks exC) (unbuild exC) := C01_tokens_derive exC exC_printable

/-- … it has 102 tokens, macro, loop, both subcircuit forms and the three alias forms among them … -/
example : (toks exC).length = 102 ∧ Tok.MACRO ∈ toks exC ∧ Tok.LOOP ∈ toks exC ∧ Tok.SUBCIRCUIT ∈ toks exC ∧
    Tok.colon ∈ toks exC ∧ Tok.NUMBER ⟨true, 25, -8⟩ ∈ toks exC := by decide +kernel

/-- the circuit rebuilt from the example's tree -/
def exC2 : Circuit :=
  match parseBuild {} (unbuild exC) with
  | .ok c => c
  | .error _ => {}

/-- … and rebuilding its tree succeeds with the same lets, the same register and aliases (by `=`, hence `==`), the
same macro and as many statements. (`stmtEq` is defined by well-founded recursion, which the kernel does not
unfold; `circuitEq exC exC2` and the equality of the texts are evaluated natively by the differential harness,
op `round_trip_layers`.) -/
theorem exC_rebuild :
    (parseBuild {} (unbuild exC)).toOption.isSome = true ∧ exC2.constants = exC.constants ∧
    exC2.registers = exC.registers ∧ exC2.macros.map (·.name) = exC.macros.map (·.name) ∧
    exC2.body.stmts.length = exC.body.stmts.length ∧
    dictEq Val.name? valEq exC.registers exC2.registers = true := by decide +kernel

/-! non-vacuity of layer B: `let n -2.5e-07; register r[2]; g r[0] n` is printable and `LexSafe`, so its generated text
lexes to its tokens -/

/-- `let n -2.5e-07 ; register r[2] ; g r[0] n` -/
def c0 : Circuit :=
  { constants := [.const "n" (.flt ⟨true, 25, -8⟩)],
    registers := [.regF "r" (.int 2)],
    body := .block false false (.int 1)
      [.gate "g" (anonDef "g" 2) [("p0", .qubit "r[0]" (.regF "r" (.int 2)) (.int 0)), ("p1", .const "n" (.flt ⟨true, 25, -8⟩))]] }

theorem legal_r : LegalName "r" := by
  refine ⟨⟨'r', [], rfl, by decide, ?_⟩, rfl⟩
  simp [TailOK, identTail]
theorem legal_g : LegalName "g" := by
  refine ⟨⟨'g', [], rfl, by decide, ?_⟩, rfl⟩
  simp [TailOK, identTail]
theorem legal_n : LegalName "n" := by
  refine ⟨⟨'n', [], rfl, by decide, ?_⟩, rfl⟩
  simp [TailOK, identTail]

theorem c0_printable : printable c0 = true := by decide

theorem c0_safe : LexSafe c0 := by
  refine ⟨(by intro u hu; cases hu), ?_, ?_, (by intro m hm; cases hm), ?_⟩
  · intro v hv
    simp only [c0, List.mem_singleton] at hv
    subst hv
    exact ⟨legal_n, by decide, by decide⟩
  · intro v hv
    simp only [c0, List.mem_singleton] at hv
    subst hv
    exact ⟨legal_r, show IntOK 2 by unfold IntOK; decide⟩
  · intro s hs
    simp only [c0, Stmt.stmts, List.mem_singleton] at hs
    subst hs
    refine ⟨legal_g, ?_, ?_, trivial⟩
    · have : isItem "r[0]" (.regF "r" (.int 2)) (.int 0) = true := by decide
      simp only [SafeArg, this, if_true]
      exact ⟨legal_r, show IntOK 0 by unfold IntOK; decide⟩
    · exact legal_n

/-- the generated text of `c0` lexes to its 17 tokens -/
example : LexGen c0 ∧ (toks c0).length = 17 := ⟨C01_lex_gen c0 c0_printable c0_safe, by decide⟩

/-! A whole TEXT through all three layers (`Pipeline.layers {} "register r[2]\ng r[0]\n"` is
`⟨true, true, true, true⟩`) can be checked with `#eval`; kernel evaluation of the lexer on computed strings needs tens of
gigabytes, so it is not made a theorem here. The differential harness evaluates `layers` natively on every generated
program (op `round_trip_layers`). -/

#print axioms C01_tokens_derive
#print axioms C01_parse_toks
#print axioms C01_compose
#print axioms C01_built_facts
#print axioms C01_printable
#print axioms C01_no_same_kind_nesting
#print axioms C01_wf
#print axioms C01_rebuild_canonical
#print axioms C01_lex_gen
#print axioms C01_rebuild_of_reorder
#print axioms C01_reorder
#print axioms C01_rebuild
#print axioms C01_rebuild_exact
#print axioms C01_lexsafe
#print axioms C01_lexsafe_iff
#print axioms C01_lex_gen_bounded
#print axioms C01_roundtrip_bounded
#print axioms C01_roundtrip_bounded_again
#print axioms C01_example_accepted
#print axioms C01_big_stop
#print axioms C01_roundtrip_partial
#print axioms C01_roundtrip_canonical
#print axioms C01_roundtrip_canonical_partial
#print axioms C01_zero_step_rejected
#print axioms C01_no_literal_zero_step
#print axioms C01_meaning
#print axioms C01_meaning_parsed
#print axioms C01_builder_api
#print axioms C01_builder_float_size_printable
#print axioms C01_asInteger_idem
#print axioms C01_subcount_fixpoint
#print axioms C01_slice_stop_fixpoint
#print axioms exC_built
#print axioms exC_printable
#print axioms exC_rebuild

end Jaqal.C01
