import JaqalProofs.Lemmas.RoundTripTokens
import JaqalProofs.Props.C02
import JaqalProofs.Props.C20
/-!
# C01 — generated text parses back to an equal circuit, and generating again reproduces the text

`Pipeline.parseProgram cfg txt` models `parse_jaqal_string(txt, inject_pulses=cfg.natives, autoload_pulses=False)`
(`Model/Pipeline.lean`: lexer + LALR parser, then the circuit builder and its register-count check),
`Generator.gen` models `generate_jaqal_program`, `PyEq.circuitEq` is Python's `==` on circuits.

The round trip is cut into three layers, so that a failure localises:

* (A) `C01_tokens_derive` — PROVED for every `printable` circuit: the generator's output, read as tokens
  (`Pipeline.toks`), is a program of the grammar with statement tree `Pipeline.unbuild c`; hence (`C02_complete`)
  the parser model accepts ANY positioned token list with these tokens and returns exactly `unbuild c`
  (`C01_parse_toks`);
* (B) `LexGen c` — lexing the text `gen c` gives `toks c`;
* (C) `Rebuild cfg c` — the builder maps `unbuild c` to a circuit `==` to `c` that generates the same text.

`C01_compose` (PROVED) is the composition: (A) + (B) + (C) for one circuit give the round trip for that circuit.
What is NOT proved in general is that every circuit in the range of `parseProgram` is `printable` and satisfies (B)
and (C): these are the definitions `C01_printable_full`, `C01_lex_gen_full`, `C01_rebuild_full`, with the missing
lemmas named below; `C01_roundtrip_partial` derives the property from them.  All three statements (and
`printable`) are computable; the differential harness evaluates them in the model on every generated program
(driver op `round_trip_layers`, `harness/agents/c01_diff.py`) next to the round trip of the real code.
-/
namespace Jaqal.C01
open Jaqal Jaqal.Lexer Jaqal.Parser Jaqal.Grammar Jaqal.Builder Jaqal.Generator Jaqal.PyEq Jaqal.Pipeline

/-! ## (A) token layer -/

/-- Layer A. For every circuit whose slots hold something Jaqal has syntax for, the tokens the generator writes
form a program of the grammar whose statement tree is `unbuild c`: headers first (usepulses, lets, the register,
aliases), then macros and statements; each statement on its own line; same-kind nested blocks spliced; a
subcircuit count of 1 left out; slice bounds and steps written out. -/
theorem C01_tokens_derive (c : Circuit) (h : printable c = true) : Derives (toks c) (unbuild c) :=
  toks_derive c h

/-- Hence the parser model accepts the generator's tokens, wherever they stand in the text, and returns
`unbuild c` (and no other tree: `C02_unique`). -/
theorem C01_parse_toks (c : Circuit) (h : printable c = true) (ts : List PTok) (hts : ts.map (·.tok) = toks c) :
    parse ts = .ok (unbuild c) :=
  C02.C02_complete (hts ▸ C01_tokens_derive c h)

/-! ## (B), (C) and the composition -/

/-- Layer B for one circuit: the generator succeeds and its text lexes to `toks c`. -/
def LexGen (c : Circuit) : Prop := ∃ t ts, gen c = .ok t ∧ lex t = .ok ts ∧ ts.map (·.tok) = toks c

/-- Layer C for one circuit: building `unbuild c` gives a circuit `==` to `c` that generates the same text. -/
def Rebuild (cfg : Config) (c : Circuit) : Prop :=
  ∃ c', parseBuild cfg (unbuild c) = .ok c' ∧ circuitEq c c' = true ∧ gen c' = gen c

theorem lexAll_of_lex {t : String} {ts : List PTok} (h : lex t = .ok ts) : lexAll t = (ts, none) := by
  unfold lex at h
  split at h
  · rename_i ts' heq
    cases h
    exact heq
  · cases h

/-- The three layers compose: a circuit that is printable, whose text lexes to its tokens and whose tree rebuilds
to an equal circuit with the same text, survives the round trip, and the second generation is byte-identical. -/
theorem C01_compose (cfg : Config) (c : Circuit) (hp : printable c = true) (hB : LexGen c) (hC : Rebuild cfg c) :
    ∃ t c', gen c = .ok t ∧ parseProgram cfg t = .ok c' ∧ circuitEq c c' = true ∧ gen c' = .ok t := by
  obtain ⟨t, ts, hg, hl, hts⟩ := hB
  obtain ⟨c', hb, he, hg'⟩ := hC
  refine ⟨t, c', hg, ?_, he, hg'.trans hg⟩
  have hparse := C01_parse_toks c hp ts hts
  have htext : parseText t = .ok (unbuild c) := by
    unfold parseText
    rw [lexAll_of_lex hl]
    simp only [hparse]
  unfold parseProgram parseSx
  rw [htext]
  exact hb

/-- The property for parser-produced circuits. (It used to be refuted by `map b r[0:t:0]`: a literal zero step next
to a let bound was accepted and then not written by `notate_slice`; `Register.__init__` now rejects it before looking
at the other bounds, see `C01_zero_step_rejected`.) -/
def C01_roundtrip_full : Prop :=
  ∀ (cfg : Config) (txt : String) (c : Circuit), cfg.autoload = false → parseProgram cfg txt = .ok c →
    ∃ t c', gen c = .ok t ∧ parseProgram cfg t = .ok c' ∧ circuitEq c c' = true ∧ gen c' = .ok t

/-- MISSING (builder range lemma `parseProgram_printable`): every value the builder puts in a slot from a parser
S-expression has a spelling — let values are numbers, sizes / indices / bounds / counts are ints or lets or
parameters, alias sources are named, loop and macro bodies are blocks, a subcircuit never stands in a `< >`, a
slice step is never the int 0.  Provable from `derives_parserSx` (C16) by following `buildAny` on `ParserSx`
inputs; not done here. -/
def C01_printable_full : Prop :=
  ∀ (cfg : Config) (txt : String) (c : Circuit), cfg.autoload = false → parseProgram cfg txt = .ok c →
    printable c = true

/-- MISSING (text layer `lex_gen`): for a parser-produced circuit the generator does not raise and its text lexes
to `toks c`.  Ingredients that exist: the literal lemmas of `Props/C01Literals.lean` (`C01_float_roundtrip`,
`C01_int_roundtrip`, `C01_no_token_merge*`: a number followed by a blank, newline or `]` is one token with the same
value).  Ingredients that are missing: (1) `Lexer.mNumber`/`mInt` (used by `lex`) agree with
`NumText.parseNumber`/`parseInt` (used by those lemmas); (2) every name the builder stores is a legal, non-keyword
identifier (from the IDENTIFIER tokens it came from: `lex_covers` gives the token texts) and an identifier followed
by ` `, `\n`, `[`, `]` lexes as one IDENTIFIER token; (3) `lexAux` over a concatenation of such pieces. -/
def C01_lex_gen_full : Prop :=
  ∀ (cfg : Config) (txt : String) (c : Circuit), cfg.autoload = false → parseProgram cfg txt = .ok c → LexGen c

/-- MISSING (builder layer `rebuild`): for `c` in the range of `parseProgram`, `parseBuild cfg (unbuild c)` succeeds
with a circuit `==` to `c` generating the same text.  The relation between `c` and the rebuilt `c'` is equality up
to (i) written-out slice bounds (already defaults in `c`: start 0 / stop size / step 1 are stored by the first
build), (ii) `as_integer` (idempotent: `C01_asInteger_idem`), (iii) the subcircuit count (`C01_subcount_fixpoint`),
and NO splicing: a parser-produced circuit has no directly nested same-kind block (`C01_no_same_kind_nesting_sx`
is the S-expression half).  Needs the builder's context after the first build to be reproduced by the second
(names unique per namespace: `C14_names_distinct`; memo transparency: `C07_memo_transparent`). -/
def C01_rebuild_full : Prop :=
  ∀ (cfg : Config) (txt : String) (c : Circuit), cfg.autoload = false → parseProgram cfg txt = .ok c → Rebuild cfg c

/-- The property follows from the three range lemmas. -/
theorem C01_roundtrip_partial (hP : C01_printable_full) (hB : C01_lex_gen_full) (hC : C01_rebuild_full) :
    C01_roundtrip_full :=
  fun cfg txt c ha h => C01_compose cfg c (hP cfg txt c ha h) (hB cfg txt c ha h) (hC cfg txt c ha h)

/-! ### a literal zero step is rejected at build -/

/-- the tree of `let t 1; register r[6]; map b r[0:t:0]` -/
def zsSx : Sx :=
  .list [.str "circuit", .list [.str "let", .str "t", .int 1], .list [.str "register", .str "r", .int 6],
    .list [.str "map", .str "b", .str "r", .int 0, .str "t", .int 0]]

/-- `map b r[0:t:0]` is a JaqalError ("zero-step") although the stop is a let: the one parser-accepted shape that did
not survive the round trip (`notate_slice` does not write a step of 0) is no longer accepted. -/
theorem C01_zero_step_rejected :
    (match parseBuild {} zsSx with
     | .error (.jaqal r) => r == "zero-step"
     | _ => false) = true := by decide +kernel

/-- In general: `Register.__init__` never constructs a slice alias with the literal step 0. -/
theorem C01_no_literal_zero_step (n : String) (src a b v : Val) : mkSlice n src a b (.int 0) ≠ .ok v := by
  have key : ∃ e, sliceCheck src a b (.int 0) = .error e := by
    unfold sliceCheck
    generalize ((isIntLit a || isAV a) && (isIntLit b || isAV b) && (isIntLit (.int 0) || isAV (.int 0))) = X
    cases X
    · exact ⟨_, rfl⟩
    · exact ⟨.jaqal "zero-step", rfl⟩
  obtain ⟨e, he⟩ := key
  intro h
  unfold mkSlice at h
  rw [he] at h
  cases h

/-! ## same meaning -/

/-- The re-parsed circuit has the same gate-level meaning (`Spec/Sem.lean`, numbers by value) under every
override environment: `C20_sound`.  `ParserLike` (declarations are dictionaries, every qubit reference points into
the circuit's own register dictionary) and the common macro order are what `C20_sound` needs; for circuits built by
`parseProgram` they are consequences of `C14_sound_all` that have not been derived yet (`C20_sound_full`). -/
theorem C01_meaning (ρ : Sem.Env) (c c' : Circuit) (hc : ParserLike c) (hc' : ParserLike c')
    (horder : c.macros.map (·.name) = c'.macros.map (·.name)) (heq : circuitEq c c' = true) :
    C20.MeaningEq (Sem.meaning ρ c) (Sem.meaning ρ c') :=
  (C20.C20_sound ρ c c' hc hc' horder heq).2.2

/-! ## circuits built through the builder API -/

/-- What "built from legal identifiers and finite numbers within Jaqal's legal block nesting" means for an
S-expression handed to `build`: it builds to a printable circuit (numbers in let / argument positions, ints or
names in size / index / bound / count positions, no `{ {} }`, no subcircuit inside `< >` or another subcircuit, loop
and macro bodies are blocks) whose names lex as identifiers.  A register size or map index given as an integral
FLOAT is stored as an int (`build_register` / `build_map` apply `as_integer`), so it is printable — see
`C01_builder_float_size_printable`. -/
structure BuilderLegal (cfg : Config) (e : BSx) (c : Circuit) : Prop where
  built : (build cfg e).bind tooManyRegisters = .ok c
  printable : printable c = true
  lexes : LexGen c
  rebuilds : Rebuild cfg c

theorem C01_builder_api (cfg : Config) (e : BSx) (c : Circuit) (h : BuilderLegal cfg e c) :
    ∃ t c', gen c = .ok t ∧ parseProgram cfg t = .ok c' ∧ circuitEq c c' = true ∧ gen c' = .ok t :=
  C01_compose cfg c h.printable h.lexes h.rebuilds

/-- `["circuit", ["register", "r", 2.0]]` builds to the register of size `2` (an int): `register r[2]` is written.
(Before the repair the float was stored and `register r[2.0]`, a syntax error, was written.) -/
theorem C01_builder_float_size_printable :
    (build {} (.list [.str "circuit", .list [.str "register", .str "r", .flt ⟨false, 2, 0⟩]])).toOption.map
      (fun (c : Circuit) => (c.registers, Pipeline.printable c)) = some ([Val.regF "r" (.int 2)], true) := by
  decide +kernel

/-! ## fixpoints used by layer C -/

/-- `as_integer` is idempotent: the stored let value / index is read back unchanged. -/
theorem C01_asInteger_idem (v : Val) : asIntegerV (asIntegerV v) = asIntegerV v := by
  cases v <;> try rfl
  rename_i d
  by_cases h : d.isIntegral = true
  · simp [asIntegerV, Num.asInteger, Val.ofNum, h]
  · simp [asIntegerV, Num.asInteger, Val.ofNum, h]

/-- a subcircuit count of 1 is written as nothing and read back as 1; any other int count is written and read back -/
theorem C01_subcount_fixpoint (recV : BSx → M Val) (i : Int) (hrec : recV (.int i) = .ok (.int i)) :
    subCount recV (BSx.ofSx (subCountSx (.int i))) = .ok (.int i) := by
  by_cases h : i = 1
  · subst h; rfl
  · have : itersNe1 (.int i) = true := by simp [itersNe1, h]
    simp only [subCountSx, this, if_true, refSx, BSx.ofSx, subCount, hrec]

/-- written-out slice defaults are fixpoints: a stop that is present is kept as it is -/
theorem C01_slice_stop_fixpoint (src stop : Val) (h : stop ≠ .none) : defaultStop src stop = .ok stop := by
  unfold defaultStop
  have : (stop == Val.none) = false := by
    cases stop <;> first | rfl | exact absurd rfl h
  simp [this]
  rfl

/-! ## non-vacuity -/

/-- the statement tree of
```
let n 4; let a -2.5e-7; register r[n]; map w r; map q r[1]; map s r[0:n:2]
macro m a x { g x a ; < h x | { h s[1] ; h w[3] } > }
loop 2 { m 1.5 q ; subcircuit 3 { g r[0] a } }
subcircuit { h q }
```
(lets of both kinds, a let-sized register, the three alias forms, a macro whose parameter `a` shadows the let, nested
blocks, a loop, subcircuits with and without a count) -/
def exSx : Sx :=
  .list [.str "circuit",
    .list [.str "let", .str "n", .int 4],
    .list [.str "let", .str "a", .flt ⟨true, 25, -8⟩],
    .list [.str "register", .str "r", .str "n"],
    .list [.str "map", .str "w", .str "r"],
    .list [.str "map", .str "q", .str "r", .int 1],
    .list [.str "map", .str "s", .str "r", .int 0, .str "n", .int 2],
    .list [.str "macro", .str "m", .str "a", .str "x",
      .list [.str "sequential_block",
        .list [.str "gate", .str "g", .str "x", .str "a"],
        .list [.str "parallel_block",
          .list [.str "gate", .str "h", .str "x"],
          .list [.str "sequential_block",
            .list [.str "gate", .str "h", .list [.str "array_item", .str "s", .int 1]],
            .list [.str "gate", .str "h", .list [.str "array_item", .str "w", .int 3]]]]]],
    .list [.str "loop", .int 2,
      .list [.str "sequential_block",
        .list [.str "gate", .str "m", .flt ⟨false, 15, -1⟩, .str "q"],
        .list [.str "subcircuit_block", .int 3,
          .list [.str "gate", .str "g", .list [.str "array_item", .str "r", .int 0], .str "a"]]]],
    .list [.str "subcircuit_block", .str "",
      .list [.str "gate", .str "h", .str "q"]]]

/-- the circuit the builder makes of it -/
def exC : Circuit :=
  match parseBuild {} exSx with
  | .ok c => c
  | .error _ => {}

theorem exC_built : parseBuild {} exSx = .ok exC := by
  have h : (parseBuild {} exSx).toOption.isSome = true := by decide +kernel
  unfold exC
  cases hb : parseBuild {} exSx with
  | ok c => rfl
  | error e => rw [hb] at h; simp [Except.toOption] at h

/-- the example is printable, so layer A applies to it … -/
theorem exC_printable : printable exC = true := by decide +kernel

example : Derives (toks exC) (unbuild exC) := C01_tokens_derive exC exC_printable

/-- … it has 102 tokens, macro, loop, both subcircuit forms and the three alias forms among them … -/
example : (toks exC).length = 102 ∧ Tok.MACRO ∈ toks exC ∧ Tok.LOOP ∈ toks exC ∧ Tok.SUBCIRCUIT ∈ toks exC ∧
    Tok.colon ∈ toks exC ∧ Tok.NUMBER ⟨true, 25, -8⟩ ∈ toks exC := by decide +kernel

/-- the circuit rebuilt from the example's tree -/
def exC2 : Circuit :=
  match parseBuild {} (unbuild exC) with
  | .ok c => c
  | .error _ => {}

/-- … and rebuilding its tree succeeds with the same lets, the same register and aliases (by `=`, hence `==`), the
same macro and as many statements. (`stmtEq` is defined by well-founded recursion, which the kernel does not
unfold; `circuitEq exC exC2` and the equality of the texts are evaluated natively by the differential harness,
op `round_trip_layers`.) -/
theorem exC_rebuild :
    (parseBuild {} (unbuild exC)).toOption.isSome = true ∧ exC2.constants = exC.constants ∧
    exC2.registers = exC.registers ∧ exC2.macros.map (·.name) = exC.macros.map (·.name) ∧
    exC2.body.stmts.length = exC.body.stmts.length ∧
    dictEq Val.name? valEq exC.registers exC2.registers = true := by decide +kernel

/-! A whole TEXT through all three layers (`Pipeline.layers {} "register r[2]\ng r[0]\n"` is
`⟨true, true, true, true⟩`) can be checked with `#eval`; kernel evaluation of the lexer on computed strings needs tens of
gigabytes, so it is not made a theorem here. The differential harness evaluates `layers` natively on every generated
program (op `round_trip_layers`). -/

#print axioms C01_tokens_derive
#print axioms C01_parse_toks
#print axioms C01_compose
#print axioms C01_roundtrip_partial
#print axioms C01_zero_step_rejected
#print axioms C01_no_literal_zero_step
#print axioms C01_meaning
#print axioms C01_builder_api
#print axioms C01_builder_float_size_printable
#print axioms C01_asInteger_idem
#print axioms C01_subcount_fixpoint
#print axioms C01_slice_stop_fixpoint
#print axioms exC_built
#print axioms exC_printable
#print axioms exC_rebuild

end Jaqal.C01
