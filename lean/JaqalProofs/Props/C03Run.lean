import JaqalProofs.Lemmas.RunMeaning
import JaqalProofs.Props.C14Run
import JaqalProofs.Props.C08Run
import JaqalProofs.Props.ParsedC04
import JaqalProofs.Props.ParsedC05
/-!
# C03 over the whole run — the gates the emulator multiplies are the unrolled meaning of the program

`Props/C03.lean` proves that a LIST of (matrix, qubits) pairs is multiplied correctly; `Lemmas/WalkSerialize.lean` (`C03_serialize`)
that the serialiser yields `Walk.segment tr body`.  Here the two halves are linked to the specification `Spec/Sem.lean`: the token
lists of `RunModel.RunSummary.traces` (gate name, `q<index>` for a qubit RESOLVED to its index in the fundamental register,
`r<i,j,…>` for a register argument, `i<int>` / `f<neg>:<mant>:<exp>` for numbers) ARE the specification's gate applications
(`Sem.GateApp`: name and EVALUATED arguments — lets and overrides applied, macros expanded, alias chains followed by list
indexing), written by `renderApp` (`Lemmas/RunMeaning.lean`).

`x` is the circuit the emulator is handed (`expandAll ov c`), `FlatT x` what `C16_total`'s chain establishes of it for every
parsed program (`flatOf_all`), `m` its meaning `Sem.evalStmt [] [] [] x.body` (no let, no macro is left), `specTable m` the flat
gate applications of `m` without `prepare_all` / `measure_all`.

On the expanded circuit:
* **`C03_run_table`** — the gate table of the walker skeleton, rendered, is `(specTable m).map renderApp`: every qubit token is
  the specification's resolved qubit, every number the specification's number (`C03_run_table_rows`: row by row, for the rows that
  render).  **`C03_run_args`** — the same without strings: argument by argument the library's reading IS the specification's value
  (`ArgAgree`: `resolve_qubit` of a qubit reference gives the specification's fundamental qubit; the `i`-th element of a register
  argument resolves to the `i`-th qubit of its denotation; a number is that number).
* **`C03_run_shape`** — the walker skeleton is `semSkel` of `m` (a function of the meaning tree alone: same blocks, loops with the
  same counts, ordinary gates numbered in flat order), and unrolling it and reading the ids in the table gives `m.unroll`, rendered
  (brackets by name).
* **`C03_run_traces`** / **`C03_run_summary`** — for `execute x = .ok s`: `s.traces = specTraces m` and `s = specSummary m`,
  functions of `m` ALONE: discover the prepare/measure traces of `semSkel m`, take the segment each serialises to
  (`C03_serialize`), render its gates from `specTable m`; the visits are `Walk.specVisits` of the same skeleton (`C08_run_visits`).

Without any hypothesis — for every text, configuration (gate set, autoload, import function) and override list:
* **`C03_run_total`** — the capstone.  If `runModel cfg ov txt = .ok s` then the program, subcircuit blocks spelled out (`c₁`), HAS a
  meaning tree `x₁` under the overrides (`rawMeaning`: `Sem.meaning` before `Sem.norm`; `Sem.meaning (normOv ov) c₁ = x₁.norm`) and
  `s = specSummary (spl x₁)`: the tree the run walks is `x₁` with the blocks of the expanded macro calls spliced
  (`ExpandMacros.spl`), and the subcircuits, the subcircuit of every readout and the gates of every subcircuit — each token a gate
  application of the source's meaning with ITS resolved qubits and numbers — are computed from that tree alone.
  (`parsed_source_meaning`: the source has a meaning because its expansion succeeds — `filled_meaning`, the converse direction
  of `C04_meaning` for what `fill_in_let` returns of a parsed program.)
* **`C03_run_exists`** — the same on the expanded circuit: the circuit `x` the emulator was handed HAS a meaning `m`
  (`parsed_expand_meaning`: the constructors' checks hold again after `fill_in_let`, `C05_revalidate`; `expand_macros` keeps them,
  `expand_vok`; a flat typed circuit whose registers are valid chains and whose literal indices are in range evaluates,
  `flat_os_meaning`) and `s = specSummary m`.

From the source program (`parseProgram cfg txt = .ok c`, `runCircuit ov c = .ok s`):
* **`C03_run_meaning_raw`**, **`C03_run_meaning_raw_source`**, **`C03_run_text`** — the capstone.  If the program evaluates, under
  the overrides, to the tree `x₀` (`rawMeaning`: `Sem.meaning` before `Sem.norm`), then `s = specSummary (spl (spellSem P M x₀))`:
  the tree the run walks is a function of `x₀` alone — every subcircuit block spelled `prepare_all ; … ; measure_all`
  (`Passes.spellSem`, what `expand_subcircuits` does: `expandSubcircuits_raw`), `fill_in_let` changes nothing
  (`fillInLet_raw`), the blocks of the expanded macro calls spliced (`ExpandMacros.spl`, what `expand_macros` does:
  `expandMacros_raw`) — and discovery, serialisation and rendering are computed from that tree alone.  These are
  `expandSubcircuits_meaning`, `C05_meaning`, `C04_meaning` BEFORE normalisation, obtained from the same lemmas.
* **`C03_run_meaning`**, `C03_run_meaning_source` — the same through `Sem.meaning` (normalised): the run reports `specSummary m`
  for a tree `m` with `m.norm = m₀`, hence with the flat / unrolled gate applications of `m₀` (`flat_norm`, `unroll_norm`).

## What is assumed, and why

* In the theorems about a BARE expanded circuit (`C03_run_table` … `C03_run_summary`) that the specification gives the circuit a
  meaning (`hm`) is a hypothesis.  It cannot be derived from `FlatT` and the success of the run: `FlatT` is a typing, and a flat
  typed circuit can hold `map a q[0:10]` over `register q[4]` (the constructors refuse it, `FlatT` does not know), on which
  `X a[1]` runs but has no meaning (`Sem.evalReg`: "slice leaves its source") — the example `c03NoMeaning` below evaluates exactly
  this.  For the expansion of a PARSED program the hypothesis is PROVED (`parsed_expand_meaning`), and so is the meaning of the
  source with its subcircuit blocks spelled out (`parsed_source_meaning`): `C03_run_exists`, `C03_run_total` assume nothing.
* For the program AS WRITTEN (`C03_run_text`, `C03_run_meaning_raw_source`, `C03_run_meaning_source`) that it has a meaning
  stays a hypothesis, and cannot be dropped: the count of a subcircuit block is removed by `expand_subcircuits` before
  `fill_in_let` sees it, so an override that makes it a non-integer does not stop the run but leaves the program as written
  without a meaning (`c03CountText` below evaluates this).
* `C03_run_meaning` relates the run to a tree `m` with `m.norm = m₀`, not to `m₀` itself: `Sem.meaning` splices a block nested in a
  block of the same kind, which changes the ADDRESSES the walkers use, not the gates (`C03_specTraces_norm_full`, NOT proved;
  `C03_run_meaning_raw` / `C03_run_total` avoid the question by naming the tree exactly).
-/
namespace Jaqal.RunModel
open Jaqal Jaqal.Builder Jaqal.Sem Jaqal.Walk

/-! ### Functions of the meaning tree alone -/

/-- the walker skeleton of the meaning of a circuit body, and the number of ordinary gates in it -/
def skelOf : Sem → Option (List Walk.Stmt × Nat)
  | .blk _ _ _ ms => semSkelList 0 ms
  | _ => none

/-- **what the run reports, computed from the meaning alone**: the prepare/measure traces of the skeleton, and for each the gates
of the segment it serialises to, rendered from the specification's table -/
def specTraces (m : Sem) : Option (List (List String)) :=
  match skelOf m with
  | none => none
  | some (body, _) =>
    match Walk.discover body with
    | .ok traces => some (traces.map (fun tr => (Walk.segment tr body).map (renderGK (specTable m))))
    | .error _ => none

/-- **the whole summary of the run, computed from the meaning alone**: number of subcircuits, the subcircuit visited at every
readout (`Walk.specVisits`: the tree-recursive reading of "visit" of C08), the gates of every subcircuit -/
def specSummary (m : Sem) : Option RunSummary :=
  match skelOf m with
  | none => none
  | some (body, _) =>
    match Walk.discover body with
    | .ok traces =>
      some { subcircuits := traces.length
             visits := Walk.specVisits (traces.map (·.1)) body
             traces := traces.map (fun tr => (Walk.segment tr body).map (renderGK (specTable m))) }
    | .error _ => none

theorem flatT_args {x : Circuit} (hf : FlatT x = true) : ∀ g ∈ gatesOf x.body, ∀ a ∈ g.2.2, argT a.2 = true := by
  simp only [FlatT, Bool.and_eq_true] at hf
  exact usedT_gates x.body hf.1.1.2

/-- the skeleton and the table of a flat typed circuit against its meaning -/
theorem skeleton_sem {x : Circuit} {body : List Walk.Stmt} {tbl : List GateRec} {m : Sem} (hf : FlatT x = true)
    (hs : skeleton x = .ok (body, tbl)) (hm : evalStmt [] [] [] x.body = .ok m) :
    skelOf m = some (body, tbl.length) ∧ Rows tbl (specTable m) := by
  have hargs := flatT_args hf
  unfold skeleton at hs
  split at hs
  · rename_i par sub it b hb
    rw [hb] at hm hargs
    simp only [evalStmt] at hm
    obtain ⟨n, _, hm1⟩ := bind_ok hm
    obtain ⟨ms, hms, hm2⟩ := bind_ok hm1
    simp only [pure, Except.pure, Except.ok.injEq] at hm2
    subst hm2
    obtain ⟨h1, new, h2, h3⟩ := skelList_sem b [] body tbl ms (by simpa only [gatesOf] using hargs) hs hms
    simp only [List.nil_append] at h2
    subst h2
    exact ⟨by simpa only [skelOf, List.length_nil] using h1, by simpa only [specTable, Sem.flat] using h3⟩
  · cases hs

/-! ### 1. The gate table -/

/-- **C03 over the run, the table (row by row).** The table has one row per non-bracket gate application of the meaning, in flat
order; a row has the name of its application, and whatever `_make_subcircuit` writes for it is the rendering of the application. -/
theorem C03_run_table_rows (x : Circuit) (body : List Walk.Stmt) (tbl : List GateRec) (m : Sem) (hf : FlatT x = true)
    (hs : skeleton x = .ok (body, tbl)) (hm : evalStmt [] [] [] x.body = .ok m) :
    tbl.length = (specTable m).length ∧
    ∀ (i : Nat) (g : GateRec), tbl[i]? = some g → ∃ app, (specTable m)[i]? = some app ∧ g.1 = app.1 ∧
      ∀ t, gateToken x.natives g.1 g.2.2 = .ok t → t = renderApp app := by
  obtain ⟨_, hrows⟩ := skeleton_sem hf hs hm
  refine ⟨hrows.length, fun i g hg => ?_⟩
  obtain ⟨app, ha, hr⟩ := hrows.get i g hg
  exact ⟨app, ha, hr.1, fun t ht => hr.token ht⟩

/-- **C03 over the run, the table.** If every gate of the table renders, the rendered table is the rendered list of the flat gate
applications of the meaning with `prepare_all` / `measure_all` removed: every qubit token the emulator uses is the
specification's resolved qubit, every number the specification's number. -/
theorem C03_run_table (x : Circuit) (body : List Walk.Stmt) (tbl : List GateRec) (m : Sem) (ts : List String)
    (hf : FlatT x = true) (hs : skeleton x = .ok (body, tbl)) (hm : evalStmt [] [] [] x.body = .ok m)
    (htok : tbl.mapM (fun g => gateToken x.natives g.1 g.2.2) = .ok ts) :
    ts = (m.flat.filter notBracket).map renderApp :=
  (skeleton_sem hf hs hm).2.tokens ts htok

/-- **C03 over the run, the table, argument by argument (no strings).** For every row of the table and the gate application at
its place: as many arguments, and the library's reading of each is the specification's value (`ArgAgree`): a number is that
number, a qubit reference RESOLVES (`NamedQubit.resolve_qubit`, through the alias chain) to that fundamental qubit, the `i`-th
element of a register argument resolves to the `i`-th qubit of the register's denotation. -/
theorem C03_run_args (x : Circuit) (body : List Walk.Stmt) (tbl : List GateRec) (m : Sem) (hf : FlatT x = true)
    (hs : skeleton x = .ok (body, tbl)) (hm : evalStmt [] [] [] x.body = .ok m) :
    ∀ (i : Nat) (g : GateRec), tbl[i]? = some g → ∃ app, (specTable m)[i]? = some app ∧ g.1 = app.1 ∧
      g.2.2.length = app.2.length ∧
      ∀ (j : Nat) (a : String × Val) (sa : SArg), g.2.2[j]? = some a → app.2[j]? = some sa → ArgAgree a.2 sa := by
  obtain ⟨_, hrows⟩ := skeleton_sem hf hs hm
  intro i g hg
  obtain ⟨app, ha, hr⟩ := hrows.get i g hg
  exact ⟨app, ha, hr.1, hr.args.1, hr.args.2⟩

/-! ### 2. The shape -/

/-- **C03 over the run, the shape.** The walker skeleton is `semSkel` of the meaning — a function of the meaning tree alone — and
unrolling it (`Walk.unroll`: execution order, loops repeated) and reading the gate ids in the specification's table gives the
unrolled meaning `m.unroll`, rendered (`prepare_all` / `measure_all` by name). -/
theorem C03_run_shape (x : Circuit) (body : List Walk.Stmt) (tbl : List GateRec) (m : Sem) (hf : FlatT x = true)
    (hs : skeleton x = .ok (body, tbl)) (hm : evalStmt [] [] [] x.body = .ok m) :
    skelOf m = some (body, tbl.length) ∧
    (Walk.unroll body).map (fun g => renderGK (specTable m) g.1) = m.unroll.map renderB := by
  obtain ⟨hsk, _⟩ := skeleton_sem hf hs hm
  refine ⟨hsk, ?_⟩
  cases m with
  | blk par sub it ms =>
    simp only [skelOf] at hsk
    obtain ⟨_, h2⟩ := semSkelList_unroll (specTable (.blk par sub it ms)) ms 0 body tbl.length hsk
    have := h2 (by
      intro i app hi
      simpa only [Nat.zero_add, specTable, Sem.flat] using hi) [] 0
    simpa only [Walk.unroll, Sem.unroll] using this
  | gate _ _ => simp [skelOf] at hsk
  | loop _ _ => simp [skelOf] at hsk

/-! ### 3. The traces -/

/-- **C03 over the run, the traces.** Each subcircuit's token list is the rendering, from the specification's table, of the
segment of the skeleton its trace serialises to (`C03_serialize`). -/
theorem C03_run_traces_seg (x : Circuit) (m : Sem) (s : RunSummary) (hf : FlatT x = true)
    (hm : evalStmt [] [] [] x.body = .ok m) (h : execute x = .ok s) :
    ∃ body n traces, skelOf m = some (body, n) ∧ Walk.discover body = .ok traces ∧ s.subcircuits = traces.length ∧
      s.traces = traces.map (fun tr => (Walk.segment tr body).map (renderGK (specTable m))) := by
  cases hs : skeleton x with
  | error e => simp [execute, hs, bind, Except.bind] at h
  | ok p =>
    obtain ⟨body, tbl⟩ := p
    obtain ⟨traces, hd, _, hmk, hn⟩ := execute_ok hs h
    obtain ⟨hsk, hrows⟩ := skeleton_sem hf hs hm
    exact ⟨body, tbl.length, traces, hsk, hd, hn, makeSubcircuits_spec hd hrows traces s.traces (fun _ h => h) hmk⟩

/-- **C03 over the run, the traces, as a function of the meaning alone.** -/
theorem C03_run_traces (x : Circuit) (m : Sem) (s : RunSummary) (hf : FlatT x = true)
    (hm : evalStmt [] [] [] x.body = .ok m) (h : execute x = .ok s) : specTraces m = some s.traces := by
  obtain ⟨body, n, traces, hsk, hd, _, ht⟩ := C03_run_traces_seg x m s hf hm h
  simp only [specTraces, hsk, hd, ht]

/-- **C03 over the run, the whole summary as a function of the meaning alone**: which subcircuit every readout belongs to
(`C08_run_visits`) and the gates of every subcircuit. -/
theorem C03_run_summary (x : Circuit) (m : Sem) (s : RunSummary) (hf : FlatT x = true)
    (hm : evalStmt [] [] [] x.body = .ok m) (h : execute x = .ok s) : specSummary m = some s := by
  cases hs : skeleton x with
  | error e => simp [execute, hs, bind, Except.bind] at h
  | ok p =>
    obtain ⟨body, tbl⟩ := p
    obtain ⟨traces, hd, hn, hv, _⟩ := C08_run_visits x body tbl s hs h
    obtain ⟨traces', hd', _, hmk, _⟩ := execute_ok hs h
    rw [hd] at hd'
    cases hd'
    obtain ⟨hsk, hrows⟩ := skeleton_sem hf hs hm
    have ht := makeSubcircuits_spec hd hrows traces s.traces (fun _ h => h) hmk
    simp only [specSummary, hsk, hd]
    cases s
    simp only at hn hv ht
    subst hn hv ht
    rfl

/-! ### 4. From the source program -/

/-- the meaning of the circuit the emulator is handed is the meaning of the source under the overrides -/
theorem expandAll_meaning {cfg : Config} {txt : String} {ov : List (String × Num)} {c c₁ x : Circuit} {m₀ : Sem}
    (hp : Pipeline.parseProgram cfg txt = .ok c) (h1 : ExpandSubcircuits.expandSubcircuits none none c = .ok c₁)
    (hx : expandAll ov c = .ok x) (hm : meaning (FillIn.normOv ov) c₁ = .ok m₀) :
    ∃ m, evalStmt [] [] [] x.body = .ok m ∧ m.norm = m₀ := by
  unfold expandAll at hx
  obtain ⟨c1, hc1, hx⟩ := bind_ok hx
  rw [h1] at hc1
  cases hc1
  obtain ⟨c2, hc2, hx⟩ := bind_ok hx
  have hL : Passes.Legal c₁ := Passes.C10_legal_preserved_subs c c₁ (Passes.parsed_legal cfg txt c hp) h1
  have e1 : meaning [] c2 = .ok m₀ := by rw [FillIn.C05_meaning ov c₁ c2 hL.wf2 hc2]; exact hm
  have hw : ExpandMacros.WellFormed c2 = true := builtWellFormed_all cfg ov txt c c₁ c2 hp h1 hc2
  have e2 := ExpandMacros.C04_meaning [] false c2 x m₀ hw hx e1
  have hmac : x.macros = [] := by simpa using (ExpandMacros.C04_header false c2 x hx).2.2.2.2.1
  unfold meaning at e2
  rw [hmac] at e2
  obtain ⟨m, hm', e3⟩ := bind_ok e2
  simp only [pure, Except.pure, Except.ok.injEq] at e3
  exact ⟨m, hm', e3⟩

/-- **C03 over the run, from the source program.** For a parsed program that runs, and whose source (subcircuit blocks spelled
out) has the meaning `m₀` under the overrides: the traces the run reports are `specTraces m` — discovery, serialisation and
rendering computed from a meaning tree alone — for a tree `m` that is `m₀` up to the splicing of same-kind nested blocks
(`m.norm = m₀`), hence with the same flat and the same unrolled gate applications as `m₀`. -/
theorem C03_run_meaning (cfg : Config) (ov : List (String × Num)) (txt : String) (c c₁ : Circuit) (s : RunSummary) (m₀ : Sem)
    (hp : Pipeline.parseProgram cfg txt = .ok c) (h1 : ExpandSubcircuits.expandSubcircuits none none c = .ok c₁)
    (hm : meaning (FillIn.normOv ov) c₁ = .ok m₀) (hr : runCircuit ov c = .ok s) :
    ∃ m, m.norm = m₀ ∧ m.flat = m₀.flat ∧ m.unroll = m₀.unroll ∧ specTable m = specTable m₀ ∧
      specTraces m = some s.traces ∧ specSummary m = some s := by
  unfold runCircuit at hr
  obtain ⟨x, hx, he⟩ := bind_ok hr
  obtain ⟨m, hmx, hn⟩ := expandAll_meaning hp h1 hx hm
  have hf := flatOf_all cfg ov txt c x hp hx
  refine ⟨m, hn, ?_, ?_, ?_, C03_run_traces x m s hf hmx he, C03_run_summary x m s hf hmx he⟩
  · rw [← hn, flat_norm]
  · rw [← hn, unroll_norm]
  · rw [← hn, specTable, specTable, flat_norm]

/-! ### 4'. The same without `Sem.norm`: the tree the run walks is a function of the source's meaning tree -/

/-- the meaning tree as evaluated, before `Sem.norm` (`Sem.meaning ρ c` is `(rawMeaning ρ c).map Sem.norm`) -/
def rawMeaning (ρ : Env) (c : Circuit) : M Sem := evalStmt ρ (denoteMacros ρ c.macros) [] c.body

theorem meaning_eq_raw (ρ : Env) (c : Circuit) : meaning ρ c = (do let s ← rawMeaning ρ c; pure s.norm) := rfl

/-- `fill_in_let` keeps the meaning tree as it is (`C05_meaning` before normalisation) -/
theorem fillInLet_raw (ov : List (String × Num)) (c c' : Circuit) (hw : FillIn.WellFormed c)
    (h : FillIn.fillInLet ov c = .ok c') : rawMeaning [] c' = rawMeaning (FillIn.normOv ov) c := by
  obtain ⟨bs, regs, hbs, _, hr⟩ := FillIn.fillInLet_rebuilt hw h
  have hB : FillIn.BlocksOKList bs := by
    have := hw.blocks
    rw [hbs] at this
    simp only [FillIn.BlocksOK] at this
    exact this.2.2
  have hF : ∀ (v v' : Val) (b : Bind), True → FillIn.letVal ov false v = .ok v' →
      evalArg [] b v' = evalArg (FillIn.normOv ov) b v ∧ evalNum [] b v' = evalNum (FillIn.normOv ov) b v :=
    fun v v' b _ hf => ⟨(FillIn.letVal_sem v false v' hf b).2.2.2, (FillIn.letVal_sem v false v' hf b).1⟩
  have hG : ∀ (v v' : Val) (b : Bind), True → FillIn.letVal ov false v = .ok v' →
      evalNum [] b v' = evalNum (FillIn.normOv ov) b v ∧ (v' = .none → v = .none) :=
    fun v v' b _ hf => ⟨(FillIn.letVal_sem v false v' hf b).1, fun hn => FillIn.letVal_none (hn ▸ hf)⟩
  obtain ⟨ss, hc', hrel⟩ := hr.body
  have hmd : denoteMacros [] c'.macros = denoteMacros (FillIn.normOv ov) c.macros :=
    FillIn.denoteMacros_rel (P := fun _ => True) hF hG (Fm := fun _ => FillIn.letVal ov false)
      (fun _ v v' b hp hf => hF v v' b hp hf) hr.macros
      (fun m hm => ⟨hw.macros m hm, FillIn.allVals_true m.body⟩) []
  unfold rawMeaning
  rw [hmd, hc', hbs]
  simp only [evalStmt, FillIn.Rel_evalStmts (P := fun _ => True) hF hG _ bs ss [] hrel hB (FillIn.allValsList_true bs)]
  rfl

open Jaqal.ExpandMacros in
/-- `expand_macros` on the meaning tree as evaluated: the tree of the expansion is the tree of the original with the blocks the
expansion splices spliced (`ExpandMacros.spl`: a block nested directly in a block of the same kind — what a macro body becomes at
its call) (`C04_meaning` before normalisation) -/
theorem expandMacros_raw (ρ : Env) (p : Bool) (c c' : Circuit) (x : Sem) (hwf : WellFormed c = true)
    (h : expandMacros p c = .ok c') (hm : rawMeaning ρ c = .ok x) : rawMeaning ρ c' = .ok (spl x) := by
  obtain ⟨body, stmts, hb, hs, rfl⟩ := expand_ok h
  simp only [WellFormed, Bool.and_eq_true] at hwf
  obtain ⟨⟨⟨⟨hwm, hwb⟩, hshape⟩, _⟩, _⟩ := hwf
  cases hcb : c.body with
  | gate n gd a => rw [hcb] at hshape; cases hshape
  | loop n b => rw [hcb] at hshape; cases hshape
  | block par sub it b0 =>
    rw [hcb] at hshape hb
    cases par <;> cases sub <;> try (cases hshape; done)
    unfold rawMeaning at hm ⊢
    have hx := hm
    have hmd' : ∀ n, findMacro c.macros n = none → lookup (denoteMacros ρ (if p then c.macros else [])) n = none := by
      intro n hn
      cases p with
      | true => exact findMacro_none_lookup ρ c.macros n hn
      | false => rfl
    have hcall := replaceGate_callOK ρ c.macros _ hmd' hwm c.macros.length
    rw [hcb] at hx hwb
    have key := (expStmt_sem ρ c.macros _ hmd' _ hcall [] _ body x hwb hb hx).1
    simp only [expStmt, bind, Except.bind] at hb
    cases hl : expList (replaceGate c.macros c.macros.length) false b0 with
    | error e => rw [hl] at hb; cases hb
    | ok l =>
      rw [hl] at hb; simp only at hb
      have hit : neq1 it = false := by
        unfold mkBlock at hb
        split at hb
        · cases hb
        · next hc => simpa using hc
      have := mkBlock_ok hb; subst this
      simp only [statementsOf, pure, Except.pure, Except.ok.injEq] at hs; subst hs
      simp only [evalStmt, bind, Except.bind, neq1_false_evalInt hit] at hx key
      cases hxs : evalStmts ρ (denoteMacros ρ c.macros) [] b0 with
      | error e => rw [hxs] at hx; cases hx
      | ok xs =>
        rw [hxs] at hx; simp only [pure, Except.pure, Except.ok.injEq] at hx; subst hx
        cases hys : evalStmts ρ (denoteMacros ρ (if p then c.macros else [])) [] l with
        | error e => rw [hys] at key; cases key
        | ok ys =>
          rw [hys] at key; simp only [pure, Except.pure, Except.ok.injEq] at key
          simp only [evalStmt, evalInt, evalNum, hys, bind, Except.bind, pure, Except.pure]
          rw [key]

/-- **C03 over the run, from the source's meaning tree itself.** For a parsed program that runs: if the source (subcircuit
blocks spelled out) evaluates, under the overrides, to the tree `x₁` (`rawMeaning`: `Sem.meaning` before `Sem.norm`), then the run
reports `specSummary (spl x₁)`: the tree it walks is `x₁` with the blocks of the expanded macro calls spliced, a function of `x₁`
alone; discovery, serialisation and rendering are computed from that tree alone. -/
theorem C03_run_meaning_raw (cfg : Config) (ov : List (String × Num)) (txt : String) (c c₁ : Circuit) (s : RunSummary) (x₁ : Sem)
    (hp : Pipeline.parseProgram cfg txt = .ok c) (h1 : ExpandSubcircuits.expandSubcircuits none none c = .ok c₁)
    (hm : rawMeaning (FillIn.normOv ov) c₁ = .ok x₁) (hr : runCircuit ov c = .ok s) :
    specTraces (ExpandMacros.spl x₁) = some s.traces ∧ specSummary (ExpandMacros.spl x₁) = some s ∧
      (ExpandMacros.spl x₁).norm = x₁.norm := by
  unfold runCircuit at hr
  obtain ⟨x, hx, he⟩ := bind_ok hr
  have hf := flatOf_all cfg ov txt c x hp hx
  unfold expandAll at hx
  obtain ⟨c1, hc1, hx⟩ := bind_ok hx
  rw [h1] at hc1
  cases hc1
  obtain ⟨c2, hc2, hx⟩ := bind_ok hx
  have hL : Passes.Legal c₁ := Passes.C10_legal_preserved_subs c c₁ (Passes.parsed_legal cfg txt c hp) h1
  have e1 : rawMeaning [] c2 = .ok x₁ := by rw [fillInLet_raw ov c₁ c2 hL.wf2 hc2]; exact hm
  have hw : ExpandMacros.WellFormed c2 = true := builtWellFormed_all cfg ov txt c c₁ c2 hp h1 hc2
  have e2 := expandMacros_raw [] false c2 x x₁ hw hx e1
  have hmac : x.macros = [] := by simpa using (ExpandMacros.C04_header false c2 x hx).2.2.2.2.1
  unfold rawMeaning at e2
  rw [hmac] at e2
  exact ⟨C03_run_traces x _ s hf e2 he, C03_run_summary x _ s hf e2 he, ExpandMacros.norm_spl x₁⟩

open Jaqal.Passes Jaqal.ExpandSubcircuits Jaqal.ExpandMacros in
/-- `expand_subcircuits` on the meaning tree as evaluated: every subcircuit block spelled `prepare_all ; … ; measure_all`
(`Passes.spellSem`; `expandSubcircuits_meaning` before normalisation) -/
theorem expandSubcircuits_raw (ρ : Env) (c c' : Circuit) (it : Val) (b : List Stmt) (x : Sem)
    (hb : c.body = .block false false it b) (h : expandSubcircuits none none c = .ok c') (hm : rawMeaning ρ c = .ok x) :
    rawMeaning ρ c' = .ok (spellSem (.gate "prepare_all" []) (.gate "measure_all" []) x) := by
  have hnb := noBoundingMacro_of_ok h
  have hbody := C09_shape_body hb h
  have hmac := (C09_shape h).1
  have hpn := chooseBounding_none_name "prepare_all" c
  have hmn := chooseBounding_none_name "measure_all" c
  unfold rawMeaning at hm ⊢
  have hrel0 : MdRel (.gate (chooseBounding none "prepare_all" c).name []) (.gate (chooseBounding none "measure_all" c).name [])
      ([] : MacroDen) [] := fun n => ⟨fun _ => rfl, fun ar f h => by cases h⟩
  obtain ⟨hrel, hp, hmm⟩ := mdRel_fold ρ _ _ c.macros [] [] hrel0 rfl rfl (by rw [hpn, hmn]; exact hnb)
  have key := evalStmt_spell ρ _ _ _ _ hrel hp hmm c.body [] x hm
  rw [hbody, hmac, denoteMacros_eq]
  simp only [prepStmt, measStmt]
  rw [key, hpn, hmn]

/-- **… and from the program AS WRITTEN** (subcircuit blocks not spelled out): if it evaluates, under the overrides, to the tree
`x₀`, the run reports `specSummary` of `x₀` with every subcircuit block spelled `prepare_all ; … ; measure_all` and the blocks of
the expanded macro calls spliced — a function of `x₀` alone. -/
theorem C03_run_meaning_raw_source (cfg : Config) (ov : List (String × Num)) (txt : String) (c : Circuit) (s : RunSummary)
    (x₀ : Sem) (hp : Pipeline.parseProgram cfg txt = .ok c) (hm : rawMeaning (FillIn.normOv ov) c = .ok x₀)
    (hr : runCircuit ov c = .ok s) :
    specSummary (ExpandMacros.spl (Passes.spellSem (.gate "prepare_all" []) (.gate "measure_all" []) x₀)) = some s := by
  have hr' := hr
  unfold runCircuit expandAll at hr'
  obtain ⟨x, hx, _⟩ := bind_ok hr'
  obtain ⟨c₁, h1, _⟩ := bind_ok hx
  obtain ⟨b, hb⟩ := parseProgram_body hp
  have hm1 := expandSubcircuits_raw (FillIn.normOv ov) c c₁ (.int 1) b x₀ hb h1 hm
  exact (C03_run_meaning_raw cfg ov txt c c₁ s _ hp h1 hm1 hr).2.1

/-- **C03 over the run, from the text.** Whatever `run_jaqal_circuit(parse_jaqal_string(text))` reports is `specSummary` of the
tree the program as written evaluates to (under the overrides), subcircuit blocks spelled out and expanded macro bodies spliced —
whenever the specification gives the program a meaning. -/
theorem C03_run_text (cfg : Config) (ov : List (String × Num)) (txt : String) (s : RunSummary)
    (h : runModel cfg ov txt = .ok s) :
    ∃ c, Pipeline.parseProgram cfg txt = .ok c ∧ ∀ x₀, rawMeaning (FillIn.normOv ov) c = .ok x₀ →
      specSummary (ExpandMacros.spl (Passes.spellSem (.gate "prepare_all" []) (.gate "measure_all" []) x₀)) = some s := by
  unfold runModel at h
  obtain ⟨c, hc, hr⟩ := bind_ok h
  exact ⟨c, hc, fun x₀ hx => C03_run_meaning_raw_source cfg ov txt c s x₀ hc hx hr⟩

/-- the same from the program AS WRITTEN (subcircuit blocks not spelled out): if it has the meaning `s₀` under the overrides, the
run reports `specTraces m` for a tree `m` that is, up to same-kind nesting, `s₀` with every subcircuit block spelled
`prepare_all ; … ; measure_all` (`Passes.spellN`, `expandSubcircuits_meaning`) -/
theorem C03_run_meaning_source (cfg : Config) (ov : List (String × Num)) (txt : String) (c : Circuit) (s : RunSummary) (s₀ : Sem)
    (hp : Pipeline.parseProgram cfg txt = .ok c) (hm : meaning (FillIn.normOv ov) c = .ok s₀) (hr : runCircuit ov c = .ok s) :
    ∃ m, m.norm = Passes.spellN s₀ ∧ m.unroll = (Passes.spellN s₀).unroll ∧
      specTraces m = some s.traces ∧ specSummary m = some s := by
  have hr' := hr
  unfold runCircuit expandAll at hr'
  obtain ⟨x, hx, _⟩ := bind_ok hr'
  obtain ⟨c₁, h1, _⟩ := bind_ok hx
  obtain ⟨b, hb⟩ := parseProgram_body hp
  have hm1 := Passes.expandSubcircuits_meaning (FillIn.normOv ov) c c₁ (.int 1) b s₀ hb h1 hm
  obtain ⟨m, h2, _, h3, _, h4, h5⟩ := C03_run_meaning cfg ov txt c c₁ s _ hp h1 hm1 hr
  exact ⟨m, h2, h3, h4, h5⟩

/-! ### 5. Existence: for a parsed program the expanded circuit HAS a meaning -/

/-- what the chain establishes of the circuit `fill_in_let` returns of a parsed program (subcircuit blocks spelled out first) -/
structure FilledFacts (c2 : Circuit) : Prop where
  pre : PreC c2
  wf : ExpandMacros.WellFormed c2 = true
  vsBody : VS c2.body
  vsMacros : ∀ m ∈ c2.macros, VS m.body
  it1Body : It1 c2.body
  it1Macros : ∀ m ∈ c2.macros, It1 m.body

open Jaqal.FillIn Jaqal.ExpandSubcircuits in
/-- for every parsed program: what the constructors checked holds again after `fill_in_let` (`C05_revalidate`), so every register of
the filled circuit is a valid chain and every literal index lies inside its register (`vok_of_valOK`); no subcircuit block is left
(`C09_none_left`, `C05_frame`) and every block has the count 1 (`BlocksOK`) -/
theorem parsed_filled {cfg : Config} {txt : String} {ov : List (String × Num)} {c c1 c2 : Circuit}
    (hp : Pipeline.parseProgram cfg txt = .ok c) (hc1 : expandSubcircuits none none c = .ok c1)
    (hc2 : fillInLet ov c1 = .ok c2) : FilledFacts c2 := by
  have hL : Passes.Legal c1 := Passes.C10_legal_preserved_subs c c1 (Passes.parsed_legal cfg txt c hp) hc1
  have hL2 : Passes.Legal c2 := Passes.C10_legal_preserved_let' ov c1 c2 hL hc2
  -- the filled circuit is `PreC`
  have hpre : PreC c2 := by
    have hp' := hp
    unfold Pipeline.parseProgram Pipeline.parseSx at hp'
    cases hpt : Parser.parseText txt with
    | error pe => rw [hpt] at hp'; cases hp'
    | ok sx =>
      rw [hpt] at hp'
      exact filled_preC (parseText_grammarSx hpt) (parseText_parserSx hpt) hp' hc1 hc2
  -- what the constructors checked, on the spelled-out circuit
  obtain ⟨hvb, hvm, hvr⟩ := parsed_valOK cfg txt c hp
  obtain ⟨b, hb⟩ := parseProgram_body hp
  obtain ⟨stmts, hs, _, _, _, _, hc1eq⟩ := ExpandSubcircuits.expand_ok hc1
  have hpg : AllVals ValOK (prepStmt none c) := by intro a ha; cases ha
  have hmg : AllVals ValOK (measStmt none c) := by intro a ha; cases ha
  have hb1 : AllVals ValOK c1.body := by
    have h1 := allVals_spell (prepStmt none c) (measStmt none c) hpg hmg c.body hvb
    rw [hb] at h1 hs
    simp only [spell, Bool.false_eq_true, if_false, ExpandSubcircuits.statementsOf, pure, Except.pure, Except.ok.injEq] at hs h1
    subst hs
    rw [hc1eq]
    exact h1
  have hm1 : ∀ m ∈ c1.macros, AllVals ValOK m.body := by
    rw [hc1eq]
    intro m hm
    obtain ⟨m0, hm0, rfl⟩ := List.mem_map.1 hm
    exact allVals_spell _ _ hpg hmg m0.body (hvm m0 hm0)
  have hr1 : ∀ v ∈ c1.registers, ValOK v := by rw [hc1eq]; exact hvr
  obtain ⟨ok2b, ok2m, _⟩ := C05_revalidate ov c1 c2 hL.wf2 hc2 hb1 hm1 hr1
  -- no subcircuit block is left
  obtain ⟨hsb1, hsm1⟩ := C09_none_left hc1
  obtain ⟨_, _, hsk, hskm, _, _⟩ := C05_frame ov c1 c2 hL.wf2 hc2
  have hsb2 : hasSub c2.body = false := by rw [hasSub_skel, hsk, ← hasSub_skel]; exact hsb1
  have hsm2 : ∀ m' ∈ c2.macros, hasSub m'.body = false := by
    intro m' hm'
    obtain ⟨m1, hm1', _, _, hsk'⟩ := forall₂_right hskm m' hm'
    rw [hasSub_skel, hsk', ← hasSub_skel]
    exact hsm1 m1 hm1'
  exact ⟨hpre, hL2.wf1, vs_of _ _ _ c2.body hpre.body ok2b hsb2,
    fun m hm => vs_of _ _ _ m.body (hpre.macros m hm) (ok2m m hm) (hsm2 m hm),
    it1_of c2.body hL2.wf2.blocks hsb2, fun m hm => it1_of m.body (hL2.wf2.macros m hm) (hsm2 m hm)⟩

/-- **The circuit the emulator is handed has a meaning**, for every parsed program, configuration and override list:
`expand_macros` keeps what `parsed_filled` says (`expand_vok`: a qubit reference it rebuilds passes `NamedQubit.__init__` again),
and a flat typed circuit with such arguments evaluates (`flat_os_meaning`). -/
theorem parsed_expand_meaning {cfg : Config} {txt : String} {ov : List (String × Num)} {c x : Circuit}
    (hp : Pipeline.parseProgram cfg txt = .ok c) (hx : expandAll ov c = .ok x) : ∃ m, evalStmt [] [] [] x.body = .ok m := by
  have hf := flatOf_all cfg ov txt c x hp hx
  unfold expandAll at hx
  obtain ⟨c1, hc1, hx⟩ := bind_ok hx
  obtain ⟨c2, hc2, hx⟩ := bind_ok hx
  have hff := parsed_filled hp hc1 hc2
  exact flat_os_meaning hf (expand_vok hff.pre hff.vsBody hff.vsMacros hx)

/-- **The source program has a meaning** (subcircuit blocks spelled out, under the overrides), for every parsed program whose
three passes succeed: the filled circuit evaluates because its expansion succeeds (`filled_meaning`, the converse direction of
`C04_meaning`), and `fill_in_let` does not change the meaning tree (`fillInLet_raw`). -/
theorem parsed_source_meaning {cfg : Config} {txt : String} {ov : List (String × Num)} {c c₁ x : Circuit}
    (hp : Pipeline.parseProgram cfg txt = .ok c) (h1 : ExpandSubcircuits.expandSubcircuits none none c = .ok c₁)
    (hx : expandAll ov c = .ok x) : ∃ x₁, rawMeaning (FillIn.normOv ov) c₁ = .ok x₁ := by
  unfold expandAll at hx
  obtain ⟨c1, hc1, hx⟩ := bind_ok hx
  rw [h1] at hc1
  cases hc1
  obtain ⟨c2, hc2, hx⟩ := bind_ok hx
  have hff := parsed_filled hp h1 hc2
  have hL : Passes.Legal c₁ := Passes.C10_legal_preserved_subs c c₁ (Passes.parsed_legal cfg txt c hp) h1
  have hwf : ExpandMacros.wfMacrosFrom c2.macros [] c2.macros = true := by
    have := hff.wf
    simp only [ExpandMacros.WellFormed, Bool.and_eq_true] at this
    exact this.1.1.1.1
  obtain ⟨y, hy⟩ := filled_meaning hff.pre hwf hff.vsBody hff.vsMacros hff.it1Body hff.it1Macros hx
  exact ⟨y, by rw [← fillInLet_raw ov c₁ c2 hL.wf2 hc2]; exact hy⟩

/-- **C03 over the run — no hypothesis.** Whatever the text, the configuration and the overrides: if
`run_jaqal_circuit(parse_jaqal_string(text))` reports `s`, then the circuit `x` the emulator was handed (subcircuit blocks, lets
and macros expanded) has a meaning `m` in the specification, and `s = specSummary m`: the subcircuits, the subcircuit of every
readout and the gates of every subcircuit — each token a gate application of `m` with ITS resolved qubits and numbers — are
computed from `m` alone. -/
theorem C03_run_exists (cfg : Config) (ov : List (String × Num)) (txt : String) (s : RunSummary)
    (h : runModel cfg ov txt = .ok s) :
    ∃ c x m, Pipeline.parseProgram cfg txt = .ok c ∧ expandAll ov c = .ok x ∧ evalStmt [] [] [] x.body = .ok m ∧
      specTraces m = some s.traces ∧ specSummary m = some s := by
  unfold runModel at h
  obtain ⟨c, hc, hr⟩ := bind_ok h
  unfold runCircuit at hr
  obtain ⟨x, hx, he⟩ := bind_ok hr
  obtain ⟨m, hm⟩ := parsed_expand_meaning hc hx
  have hf := flatOf_all cfg ov txt c x hc hx
  exact ⟨c, x, m, hc, hx, hm, C03_run_traces x m s hf hm he, C03_run_summary x m s hf hm he⟩

/-- **C03 over the run, from the source, no hypothesis** (`C03_run_meaning_raw` with its hypothesis proved). For every text,
configuration and override list: if `run_jaqal_circuit(parse_jaqal_string(text))` reports `s`, then the program — subcircuit
blocks spelled out — HAS a meaning tree `x₁` under the overrides (`Sem.meaning` of it is `x₁.norm`), and `s` is `specSummary` of
`x₁` with the blocks of the expanded macro calls spliced: subcircuits, the subcircuit of every readout and the gates of every
subcircuit, each token a gate application of the source's meaning with ITS resolved qubits and numbers. -/
theorem C03_run_total (cfg : Config) (ov : List (String × Num)) (txt : String) (s : RunSummary)
    (h : runModel cfg ov txt = .ok s) :
    ∃ c c₁ x₁, Pipeline.parseProgram cfg txt = .ok c ∧ ExpandSubcircuits.expandSubcircuits none none c = .ok c₁ ∧
      rawMeaning (FillIn.normOv ov) c₁ = .ok x₁ ∧ meaning (FillIn.normOv ov) c₁ = .ok x₁.norm ∧
      specTraces (ExpandMacros.spl x₁) = some s.traces ∧ specSummary (ExpandMacros.spl x₁) = some s := by
  unfold runModel at h
  obtain ⟨c, hc, hr⟩ := bind_ok h
  have hr' := hr
  unfold runCircuit at hr'
  obtain ⟨x, hx, _⟩ := bind_ok hr'
  have hx' := hx
  unfold expandAll at hx'
  obtain ⟨c₁, h1, _⟩ := bind_ok hx'
  obtain ⟨x₁, hm⟩ := parsed_source_meaning hc h1 hx
  obtain ⟨h2, h3, _⟩ := C03_run_meaning_raw cfg ov txt c c₁ s x₁ hc h1 hm hr
  refine ⟨c, c₁, x₁, hc, h1, hm, ?_, h2, h3⟩
  rw [meaning_eq_raw, hm]
  rfl

/-- `C03_run_spelled_full` (below) holds -/
theorem C03_run_spelled (cfg : Config) (ov : List (String × Num)) (txt : String) (c c₁ : Circuit) (s : RunSummary)
    (hp : Pipeline.parseProgram cfg txt = .ok c) (h1 : ExpandSubcircuits.expandSubcircuits none none c = .ok c₁)
    (hr : runCircuit ov c = .ok s) :
    ∃ x₁, rawMeaning (FillIn.normOv ov) c₁ = .ok x₁ ∧ specSummary (ExpandMacros.spl x₁) = some s := by
  have hr' := hr
  unfold runCircuit at hr'
  obtain ⟨x, hx, _⟩ := bind_ok hr'
  obtain ⟨x₁, hm⟩ := parsed_source_meaning hp h1 hx
  exact ⟨x₁, hm, (C03_run_meaning_raw cfg ov txt c c₁ s x₁ hp h1 hm hr).2.1⟩

/-- The full statement: `C03_run_meaning_raw` without the hypothesis that the specification gives the source (subcircuit blocks
spelled out) a meaning.  PROVED: `C03_run_spelled` (`C03_run_spelled_full_holds`).  (For the program AS WRITTEN the
corresponding statement is false: `c03CountText` below.) -/
def C03_run_spelled_full : Prop :=
  ∀ (cfg : Config) (ov : List (String × Num)) (txt : String) (c c₁ : Circuit) (s : RunSummary),
    Pipeline.parseProgram cfg txt = .ok c → ExpandSubcircuits.expandSubcircuits none none c = .ok c₁ → runCircuit ov c = .ok s →
    ∃ x₁, rawMeaning (FillIn.normOv ov) c₁ = .ok x₁ ∧ specSummary (ExpandMacros.spl x₁) = some s

theorem C03_run_spelled_full_holds : C03_run_spelled_full :=
  fun cfg ov txt c c₁ s hp h1 hr => C03_run_spelled cfg ov txt c c₁ s hp h1 hr

/-- NOT proved: that `specTraces` does not see `Sem.norm` (the walkers' ADDRESSES change when a block nested
in a block of the same kind is spliced, the gates do not), so that `C03_run_meaning` could speak of `specTraces m₀` for the
normalised meaning `m₀` of the source itself.  (`C03_run_meaning_raw` makes this unnecessary: it names the tree exactly.) -/
def C03_specTraces_norm_full : Prop := ∀ m : Sem, specTraces m.norm = specTraces m

/-! ### Non-vacuity -/
section Examples

/-- a let (overridden below), an alias slice with a stride, a macro with a parallel block, a loop counted by the let, a nested
block, a subcircuit block inside a loop -/
def c03Text : String :=
  "let n 2\nregister q[4]\nmap a q[1:4:2]\nmacro m x y { X x; < X y > }\nprepare_all\nloop n { m a[0] q[0] }\n{ X a[1] }\nmeasure_all\nloop 2 { subcircuit { m q[2] a[1] } }\n"

/-- The hypotheses of `C03_run_table` … `C03_run_meaning_source`, evaluated on one text: it parses, expands and runs; the expanded
circuit is `FlatT`, every row of its table renders, its body has a meaning `m`; the source (as written, and with the subcircuit
blocks spelled out) has a meaning under the overrides.  And the conclusions: `specTraces m` / `specSummary m` are what the run
reports — and so is `specTraces m₀` for the (normalised) meaning of the source itself, the statement `C03_run_meaning_full` asks
for; and `specSummary (spl x₁) = some s` for the tree `x₁` the spelled-out source evaluates to, the conclusion of
`C03_run_total`. `expected` = the traces. -/
def c03Hyps (cfg : Config) (ov : List (String × Num)) (txt : String) (expected : List (List String)) : Bool :=
  match Pipeline.parseProgram cfg txt with
  | .ok c =>
    match ExpandSubcircuits.expandSubcircuits none none c, expandAll ov c, runCircuit ov c with
    | .ok c₁, .ok x, .ok s =>
      FlatT x &&
      (match skeleton x with
       | .ok (_, tbl) =>
         (match tbl.mapM (fun g => gateToken x.natives g.1 g.2.2) with
          | .ok _ => true
          | _ => false)
       | _ => false) &&
      (match evalStmt [] [] [] x.body with
       | .ok m => specTraces m == some s.traces && specSummary m == some s
       | _ => false) &&
      (match meaning (FillIn.normOv ov) c₁ with
       | .ok m₀ => specTraces m₀ == some s.traces
       | _ => false) &&
      (match meaning (FillIn.normOv ov) c with
       | .ok _ => true
       | _ => false) &&
      (match rawMeaning (FillIn.normOv ov) c₁ with
       | .ok x₁ => specSummary (ExpandMacros.spl x₁) == some s
       | _ => false) &&
      s.traces == expected
    | _, _, _ => false
  | _ => false

/-- `a = q[1], q[3]`; the macro call `m a[0] q[0]` is `X q[1]; < X q[0] >`, twice; `X a[1]` is `X q[3]`; the subcircuit in the
second loop is one trace (visited twice) -/
example : c03Hyps cfgX [] c03Text
    [["prepare_all", "X q1", "X q0", "X q1", "X q0", "X q3", "measure_all"], ["prepare_all", "X q2", "X q3", "measure_all"]]
    = true := by decide +kernel

/-- the same text with the let overridden: the loop is unrolled three times — in the run and in the meaning -/
example : c03Hyps cfgX [("n", .int 3)] c03Text
    [["prepare_all", "X q1", "X q0", "X q1", "X q0", "X q1", "X q0", "X q3", "measure_all"],
     ["prepare_all", "X q2", "X q3", "measure_all"]] = true := by decide +kernel

/-- a gate with a classical parameter, next to the register-taking gate of `Props/C16.lean` -/
def c03gR : GateDef := { name := "R", tag := .native, params := [("q", .qubit), ("t", .float)], hasUnitary := true }
def c03cfgR : Config := { natives := some [c03gR, gRG, gPrep, gMeas] }
def c03Text2 : String := "register q[3]\nmap a q[0:3:2]\nlet t 0.5\nprepare_all\nRG a\nR a[1] t\nR q[0] -2\nmeasure_all\n"

/-- a register argument (`a = q[0], q[2]` ↦ `r0,2`), a float let (`0.5` ↦ `f0:5:-1`), an integer literal -/
example : c03Hyps c03cfgR [] c03Text2 [["prepare_all", "RG r0,2", "R q2 f0:5:-1", "R q0 i-2", "measure_all"]] = true := by
  decide +kernel

/-- … and with the float let overridden by an integer: the run and the meaning both hold `3` -/
example : c03Hyps c03cfgR [("t", .int 3)] c03Text2 [["prepare_all", "RG r0,2", "R q2 i3", "R q0 i-2", "measure_all"]] = true := by
  decide +kernel

/-- **the hypothesis `hm` cannot be derived from `FlatT` and the success of the run**: `map a q[0:10]` over `register q[4]`
(which no constructor accepts, but which is flat and typed); `X a[1]` runs as `X q[1]`, and has no meaning -/
def c03NoMeaning : Circuit :=
  { registers := [.regF "q" (.int 4)], natives := [gX, gPrep, gMeas],
    body := .block false false (.int 1)
      [.gate "prepare_all" gPrep [],
       .gate "X" gX [("q", .qubit "a[1]" (.regS "a" (.regF "q" (.int 4)) (.int 0) (.int 10) (.int 1)) (.int 1))],
       .gate "measure_all" gMeas []] }

example : FlatT c03NoMeaning = true ∧
    (match execute c03NoMeaning with
     | .ok s => s.traces == [["prepare_all", "X q1", "measure_all"]]
     | _ => false) = true ∧
    (match evalStmt [] [] [] c03NoMeaning.body with
     | .error (.jaqal _) => true
     | _ => false) = true := by decide +kernel

/-- `let n 2; register q[2]; subcircuit n { X q[0] }` with `n` overridden by `2.5`: the run succeeds (the count is gone before
`fill_in_let`), the spelled-out program has a meaning, the program as written has none ("not an integer") -/
def c03CountText : String := "let n 2\nregister q[2]\nsubcircuit n { X q[0] }\n"

example : (match Pipeline.parseProgram cfgX c03CountText with
    | .ok c =>
      let ov : List (String × Num) := [("n", .flt { neg := false, mant := 25, exp := -1 })]
      (match runCircuit ov c with
       | .ok s => s.traces == [["prepare_all", "X q0", "measure_all"]]
       | _ => false) &&
      (match rawMeaning (FillIn.normOv ov) c with
       | .error (.jaqal _) => true
       | _ => false) &&
      (match ExpandSubcircuits.expandSubcircuits none none c with
       | .ok c₁ => (match rawMeaning (FillIn.normOv ov) c₁ with
         | .ok _ => true
         | _ => false)
       | _ => false)
    | _ => false) = true := by decide +kernel

end Examples

end Jaqal.RunModel

#print axioms Jaqal.RunModel.C03_run_table_rows
#print axioms Jaqal.RunModel.C03_run_table
#print axioms Jaqal.RunModel.C03_run_args
#print axioms Jaqal.RunModel.C03_run_shape
#print axioms Jaqal.RunModel.C03_run_traces_seg
#print axioms Jaqal.RunModel.C03_run_traces
#print axioms Jaqal.RunModel.C03_run_summary
#print axioms Jaqal.RunModel.C03_run_meaning
#print axioms Jaqal.RunModel.C03_run_meaning_source
#print axioms Jaqal.RunModel.C03_run_meaning_raw
#print axioms Jaqal.RunModel.C03_run_meaning_raw_source
#print axioms Jaqal.RunModel.C03_run_text
#print axioms Jaqal.RunModel.C03_run_exists
#print axioms Jaqal.RunModel.C03_run_total
#print axioms Jaqal.RunModel.C03_run_spelled
