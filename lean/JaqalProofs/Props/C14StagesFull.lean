import JaqalProofs.Props.C14Stages
/-!
# C14, both orders of `fill_in_let` / `expand_macros`, both facts at once

Proves `C14_stage_order_full` (`Props/C14Stages.lean`, kept there as an unproved `def`):

* after `fill_in_let ; expand_macros` no let-constant is left — `expand_noConstRefs`: the induction of
  `Lemmas/RefsStages.lean: replStmt_valOK` once more, for `FillIn.noConst` (the substitution of constant-free arguments into
  constant-free bodies makes no constant);
* after `expand_macros ; fill_in_let` no macro call is left — `noCalls_skel`: `noCalls` reads the statement skeleton only,
  and `C05_frame` says the rebuild keeps it.
-/
namespace Jaqal.Stages
open Jaqal Jaqal.Builder Jaqal.ExpandMacros Jaqal.FillIn

/-! ### `expand_macros` keeps `noConst` -/

/-- the predicate of `NoConstRefs` on one value -/
abbrev NC (v : Val) : Prop := noConst v = true

theorem isConst_filterFloat {i : Val} (h : isConst i = false) : isConst (filterFloat i) = false := by
  cases i <;> simp only [filterFloat] <;> first | exact h | (split <;> rfl)

theorem getItem_nc {s i w : Val} (hs : NC s) (hi : isConst i = false) (h : ExpandMacros.getItem s i = .ok w) : NC w := by
  unfold ExpandMacros.getItem at h
  split at h
  · cases h
  · cases h
  · obtain ⟨u, _, h⟩ := bind_ok h
    obtain ⟨nm, _, h⟩ := bind_ok h
    simp only [pure, Except.pure, Except.ok.injEq] at h
    subst h
    simp only [NC, noConst, Bool.and_eq_true, Bool.not_eq_true']
    exact ⟨hs, hi⟩
  · cases h

theorem lookupArg_mem {args : List (String × Val)} {n : String} {a : Val} (hl : lookupArg args n = some a) :
    ∃ e ∈ args, e.2 = a := by
  unfold lookupArg at hl
  cases hf : args.find? (fun x => x.1 == n) with
  | none => rw [hf] at hl; cases hl
  | some e =>
    rw [hf] at hl
    simp only [Option.map_some, Option.some.injEq] at hl
    exact ⟨e, List.mem_of_find?_eq_some hf, hl⟩

/-- a value that is no constant is no constant after the substitution (the arguments are not constants) -/
theorem substVal_notConst {args : List (String × Val)} (hargs : ∀ e ∈ args, NC e.2) {v w : Val}
    (hv : isConst v = false) (h : substVal args v = .ok w) : isConst w = false := by
  cases v with
  | param n k =>
    simp only [substVal] at h
    cases hl : lookupArg args n with
    | none => rw [hl] at h; simp only [pure, Except.pure, Except.ok.injEq] at h; subst h; rfl
    | some a =>
      rw [hl] at h
      simp only at h
      split at h
      · simp only [pure, Except.pure, Except.ok.injEq] at h
        subst h
        obtain ⟨e, he, rfl⟩ := lookupArg_mem hl
        exact noConst_not_isConst (hargs e he)
      · cases h
  | qubit nm src idx =>
    simp only [substVal] at h
    obtain ⟨s, _, h⟩ := bind_ok h
    split at h
    · cases h
    · obtain ⟨i, _, h⟩ := bind_ok h
      unfold ExpandMacros.getItem at h
      split at h
      · cases h
      · cases h
      · obtain ⟨u, _, h⟩ := bind_ok h
        obtain ⟨nm', _, h⟩ := bind_ok h
        simp only [pure, Except.pure, Except.ok.injEq] at h
        subst h
        rfl
      · cases h
  | const _ _ => cases hv
  | int _ => simp only [substVal, pure, Except.pure, Except.ok.injEq] at h; subst h; rfl
  | flt _ => simp only [substVal, pure, Except.pure, Except.ok.injEq] at h; subst h; rfl
  | regF _ _ => simp only [substVal, pure, Except.pure, Except.ok.injEq] at h; subst h; rfl
  | regA _ _ => simp only [substVal, pure, Except.pure, Except.ok.injEq] at h; subst h; rfl
  | regS _ _ _ _ _ => simp only [substVal, pure, Except.pure, Except.ok.injEq] at h; subst h; rfl
  | none => simp only [substVal, pure, Except.pure, Except.ok.injEq] at h; subst h; rfl
  | str _ => simp only [substVal, pure, Except.pure, Except.ok.injEq] at h; subst h; rfl

/-- a constant-free value of a macro body with constant-free arguments substituted is constant-free -/
theorem substVal_nc {args : List (String × Val)} (hargs : ∀ e ∈ args, NC e.2) :
    ∀ (v w : Val), NC v → substVal args v = .ok w → NC w := by
  intro v
  induction v with
  | param n k =>
    intro w _ h
    simp only [substVal] at h
    cases hl : lookupArg args n with
    | none => rw [hl] at h; simp only [pure, Except.pure, Except.ok.injEq] at h; subst h; rfl
    | some a =>
      rw [hl] at h
      simp only at h
      split at h
      · simp only [pure, Except.pure, Except.ok.injEq] at h
        subst h
        obtain ⟨e, he, rfl⟩ := lookupArg_mem hl
        exact hargs e he
      · cases h
  | qubit nm src idx ihs _ =>
    intro w hv h
    have hv' : noConst src = true ∧ isConst idx = false := by
      have := hv
      simp only [NC, noConst, Bool.and_eq_true, Bool.not_eq_true'] at this
      exact this
    simp only [substVal] at h
    obtain ⟨s, hs, h⟩ := bind_ok h
    split at h
    · cases h
    · obtain ⟨i, hi, h⟩ := bind_ok h
      exact getItem_nc (ihs s hv'.1 hs) (isConst_filterFloat (substVal_notConst hargs hv'.2 hi)) h
  | int _ => intro w hv h; simp only [substVal, pure, Except.pure, Except.ok.injEq] at h; subst h; exact hv
  | flt _ => intro w hv h; simp only [substVal, pure, Except.pure, Except.ok.injEq] at h; subst h; exact hv
  | const _ _ _ => intro w hv h; simp only [substVal, pure, Except.pure, Except.ok.injEq] at h; subst h; exact hv
  | regF _ _ _ => intro w hv h; simp only [substVal, pure, Except.pure, Except.ok.injEq] at h; subst h; exact hv
  | regA _ _ _ => intro w hv h; simp only [substVal, pure, Except.pure, Except.ok.injEq] at h; subst h; exact hv
  | regS _ _ _ _ _ _ _ _ _ => intro w hv h; simp only [substVal, pure, Except.pure, Except.ok.injEq] at h; subst h; exact hv
  | none => intro w hv h; simp only [substVal, pure, Except.pure, Except.ok.injEq] at h; subst h; exact hv
  | str _ => intro w hv h; simp only [substVal, pure, Except.pure, Except.ok.injEq] at h; subst h; exact hv

theorem substArgs_nc {args : List (String × Val)} (hargs : ∀ e ∈ args, NC e.2) :
    ∀ (gargs new : List (String × Val)), (∀ a ∈ gargs, NC a.2) → substArgs args gargs = .ok new →
      new.map (·.1) = gargs.map (·.1) ∧ ∀ a ∈ new, NC a.2
  | [], new, _, h => by simp only [substArgs, pure, Except.pure, Except.ok.injEq] at h; subst h; simp
  | (n, v) :: rest, new, hg, h => by
    simp only [substArgs] at h
    obtain ⟨v', h1, h⟩ := bind_ok h
    obtain ⟨rest', h2, h⟩ := bind_ok h
    simp only [pure, Except.pure, Except.ok.injEq] at h
    subst h
    obtain ⟨i1, i2⟩ := substArgs_nc hargs rest rest' (fun a ha => hg a (by simp [ha])) h2
    refine ⟨by simp [i1], ?_⟩
    intro a ha
    rcases List.mem_cons.1 ha with rfl | ha
    · exact substVal_nc hargs v v' (hg (n, v) (by simp)) h1
    · exact i2 a ha

/-- the property of `call` (= `replace_gate`) the induction needs -/
def CallNC (call : Stmt → M Stmt) : Prop :=
  ∀ (n : String) (gd : GateDef) (a : List (String × Val)) (g' : Stmt),
    (∀ e ∈ a, NC e.2) → call (.gate n gd a) = .ok g' → AllVals NC g'

section expand
variable (ms : List Macro)

mutual
  theorem replStmt_nc (call : Stmt → M Stmt) (hc : CallNC call) (args : List (String × Val))
      (hargs : ∀ e ∈ args, NC e.2) :
      ∀ (s s' : Stmt), wfStmt ms s = true → AllVals NC s → replStmt call args s = .ok s' → AllVals NC s'
    | .gate n gd gargs, s', hw, hv, h => by
      simp only [replStmt] at h
      obtain ⟨new, hnew, h⟩ := bind_ok h
      obtain ⟨g, hg, h⟩ := bind_ok h
      obtain ⟨hnn, hna⟩ := substArgs_nc hargs gargs new hv hnew
      have hw' := hw
      simp only [wfStmt, wfGate, Bool.and_eq_true, beq_iff_eq, decide_eq_true_eq] at hw'
      obtain ⟨⟨⟨⟨hname, hnames⟩, hnd⟩, hok⟩, hmac⟩ := hw'
      have hnames' : new.map (·.1) = gd.params.map (·.1) := by rw [hnn, hnames]
      have := callKw_ok hg hnames' hnd
      subst this
      exact hc gd.name gd new s' hna h
    | .loop c body, s', hw, hv, h => by
      simp only [replStmt] at h
      obtain ⟨c', hc', h⟩ := bind_ok h
      obtain ⟨b', hb', h⟩ := bind_ok h
      obtain ⟨rfl, _⟩ := mkLoop_ok h
      simp only [wfStmt, Bool.and_eq_true] at hw
      simp only [AllVals] at hv ⊢
      exact ⟨substVal_nc hargs c c' hv.1 hc', replStmt_nc call hc args hargs body b' hw.2 hv.2 hb'⟩
    | .block par sub it body, s', hw, hv, h => by
      simp only [replStmt] at h
      obtain ⟨stmts, hs, h⟩ := bind_ok h
      obtain ⟨it', hit', h⟩ := bind_ok h
      rw [mkBlock_ok h]
      simp only [wfStmt, Bool.and_eq_true] at hw
      simp only [AllVals] at hv ⊢
      exact ⟨fun hsub => substVal_nc hargs it it' (hv.1 hsub) hit',
        replList_nc call hc args hargs par body stmts hw.2 hv.2 hs⟩
  theorem replList_nc (call : Stmt → M Stmt) (hc : CallNC call) (args : List (String × Val))
      (hargs : ∀ e ∈ args, NC e.2) (par : Bool) :
      ∀ (l l' : List Stmt), wfStmtList ms l = true → AllValsList NC l → replList call args par l = .ok l' →
        AllValsList NC l'
    | [], l', _, _, h => by simp only [replList, pure, Except.pure] at h; cases h; trivial
    | s :: r, l', hw, hv, h => by
      simp only [replList] at h
      obtain ⟨s', hs', h⟩ := bind_ok h
      obtain ⟨r', hr', h⟩ := bind_ok h
      simp only [pure, Except.pure, Except.ok.injEq] at h
      subst h
      simp only [wfStmtList, Bool.and_eq_true] at hw
      exact allVals_spliceInto par s' r' (replStmt_nc call hc args hargs s s' hw.1 hv.1 hs')
        (replList_nc call hc args hargs par r r' hw.2 hv.2 hr')
end

theorem replaceGate_nc (hwf : ∀ m ∈ ms, wfStmt ms m.body = true) (hvm : ∀ m ∈ ms, AllVals NC m.body) :
    ∀ (fuel : Nat), CallNC (replaceGate ms fuel) := by
  intro fuel
  induction fuel with
  | zero =>
    intro n gd a g' ha h
    simp only [replaceGate] at h
    cases hf : findMacro ms n with
    | none => rw [hf] at h; simp only [pure, Except.pure] at h; cases h; exact ha
    | some m => rw [hf] at h; simp only at h; split at h <;> cases h
  | succ f ih =>
    intro n gd a g' ha h
    simp only [replaceGate] at h
    cases hf : findMacro ms n with
    | none => rw [hf] at h; simp only [pure, Except.pure] at h; cases h; exact ha
    | some m =>
      rw [hf] at h; simp only at h
      split at h
      · cases h
      · have hmem : m ∈ ms := List.mem_of_find?_eq_some hf
        exact replStmt_nc ms (replaceGate ms f) ih a ha m.body g' (hwf m hmem) (hvm m hmem) h

mutual
  theorem expStmt_nc (call : Stmt → M Stmt) (hc : CallNC call) :
      ∀ (s s' : Stmt), AllVals NC s → expStmt call s = .ok s' → AllVals NC s'
    | .gate n gd gargs, s', hv, h => by
      simp only [expStmt] at h
      exact hc n gd gargs s' hv h
    | .loop c body, s', hv, h => by
      simp only [expStmt] at h
      obtain ⟨b', hb', h⟩ := bind_ok h
      obtain ⟨rfl, _⟩ := mkLoop_ok h
      simp only [AllVals] at hv ⊢
      exact ⟨hv.1, expStmt_nc call hc body b' hv.2 hb'⟩
    | .block par sub it body, s', hv, h => by
      simp only [expStmt] at h
      obtain ⟨stmts, hs, h⟩ := bind_ok h
      rw [mkBlock_ok h]
      simp only [AllVals] at hv ⊢
      exact ⟨hv.1, expList_nc call hc par body stmts hv.2 hs⟩
  theorem expList_nc (call : Stmt → M Stmt) (hc : CallNC call) (par : Bool) :
      ∀ (l l' : List Stmt), AllValsList NC l → expList call par l = .ok l' → AllValsList NC l'
    | [], l', _, h => by simp only [expList, pure, Except.pure] at h; cases h; trivial
    | s :: r, l', hv, h => by
      simp only [expList] at h
      obtain ⟨s', hs', h⟩ := bind_ok h
      obtain ⟨r', hr', h⟩ := bind_ok h
      simp only [pure, Except.pure, Except.ok.injEq] at h
      subst h
      exact allVals_spliceInto par s' r' (expStmt_nc call hc s s' hv.1 hs') (expList_nc call hc par r r' hv.2 hr')
end

end expand

theorem iterStmts_nc : ∀ (s : Stmt) (l : List Stmt), AllVals NC s → iterStmts s = .ok l → AllValsList NC l
  | .gate _ _ _, l, _, h => by cases h
  | .block _ _ _ b, l, hv, h => by
    simp only [iterStmts, pure, Except.pure, Except.ok.injEq] at h; subst h; simp only [AllVals] at hv; exact hv.2
  | .loop _ b, l, hv, h => by
    simp only [iterStmts] at h; simp only [AllVals] at hv; exact iterStmts_nc b l hv.2 h

/-- **`expand_macros` keeps `NoConstRefs`** (any `ExpandMacros.WellFormed` circuit) -/
theorem expand_noConstRefs {p : Bool} {c x : Circuit} (hw : ExpandMacros.WellFormed c = true) (hk : NoConstRefs c)
    (h : expandMacros p c = .ok x) : NoConstRefs x := by
  simp only [ExpandMacros.WellFormed, Bool.and_eq_true] at hw
  have hwm : ∀ m ∈ c.macros, wfStmt c.macros m.body = true := Passes.wfMacrosFrom_mem (ms := c.macros) [] c.macros hw.1.1.1.1
  unfold expandMacros at h
  obtain ⟨body, hbody, h⟩ := bind_ok h
  obtain ⟨stmts, hstmts, h⟩ := bind_ok h
  simp only [pure, Except.pure, Except.ok.injEq] at h
  subst h
  have hcall := replaceGate_nc c.macros hwm hk.macros c.macros.length
  have hb := expStmt_nc _ hcall c.body body hk.body hbody
  have hl : AllValsList NC stmts := by
    cases body with
    | block par sub it b =>
      simp only [statementsOf, pure, Except.pure, Except.ok.injEq] at hstmts; subst hstmts
      simp only [AllVals] at hb; exact hb.2
    | gate _ _ _ => cases hstmts
    | loop cnt b =>
      simp only [statementsOf] at hstmts; simp only [AllVals] at hb; exact iterStmts_nc b stmts hb.2 hstmts
  refine ⟨hk.registers, ⟨fun hx => (by cases hx), hl⟩, ?_⟩
  intro m hm
  cases p with
  | true => exact hk.macros m (by simpa using hm)
  | false => simp at hm

/-! ### `noCalls` reads the skeleton only -/

mutual
  /-- `noCalls` on a skeleton -/
  def noCallsSk (ms : List Macro) : Skel → Bool
    | .gate n _ => !isMacro ms n
    | .loop b => noCallsSk ms b
    | .block _ _ body => noCallsSkList ms body
  def noCallsSkList (ms : List Macro) : List Skel → Bool
    | [] => true
    | s :: r => noCallsSk ms s && noCallsSkList ms r
end

mutual
  theorem noCalls_skel (ms : List Macro) : ∀ (s : Stmt), noCalls ms s = noCallsSk ms (skel s)
    | .gate _ _ _ => by simp only [noCalls, skel, noCallsSk]
    | .loop _ b => by simp only [noCalls, skel, noCallsSk, noCalls_skel ms b]
    | .block _ _ _ body => by simp only [noCalls, skel, noCallsSk, noCallsList_skels ms body]
  theorem noCallsList_skels (ms : List Macro) : ∀ (l : List Stmt), noCallsList ms l = noCallsSkList ms (skels l)
    | [] => by simp only [noCallsList, skels, noCallsSkList]
    | s :: r => by simp only [noCallsList, skels, noCallsSkList, noCalls_skel ms s, noCallsList_skels ms r]
end

/-- `fill_in_let` makes no macro call: what had none (with respect to any macro list) has none afterwards -/
theorem let_noCalls {ov : List (String × Num)} {c c' : Circuit} (ms : List Macro) (hw : FillIn.WellFormed c)
    (h : fillInLet ov c = .ok c') (hn : noCalls ms c.body = true) : noCalls ms c'.body = true := by
  obtain ⟨_, _, hs, _⟩ := C05_frame ov c c' hw h
  rw [noCalls_skel, hs, ← noCalls_skel]
  exact hn

/-! ### Both orders, both facts -/

/-- after `fill_in_let ; expand_macros` (parsed circuit): valid, no let-constant, no macro call -/
theorem C14_stage_order_noconst (cfg : Config) (txt : String) (ov : List (String × Num)) (p : Bool) (c c1 c2 : Circuit)
    (hp : Pipeline.parseProgram cfg txt = .ok c) (h1 : fillInLet ov c = .ok c1)
    (h2 : ExpandMacros.expandMacros p c1 = .ok c2) :
    KnownRefsOK c2 ∧ NoConstRefs c2 ∧ ExpandMacros.noCalls c1.macros c2.body = true := by
  obtain ⟨_, n1, k2, nc⟩ := (C14_stage_order cfg txt ov p c hp).1 c1 c2 h1 h2
  have hL1 : Passes.Legal c1 := Passes.C10_legal_seq_parsed cfg txt [.let_ ov] c c1 hp
    (by simp [Passes.applySeq, Passes.apply, h1, Except.bind, pure, Except.pure])
  exact ⟨k2, expand_noConstRefs hL1.wf1 n1 h2, nc⟩

/-- after `expand_macros ; fill_in_let` (parsed circuit): valid, no let-constant, no macro call -/
theorem C14_stage_order_nocalls (cfg : Config) (txt : String) (ov : List (String × Num)) (p : Bool) (c c1 c2 : Circuit)
    (hp : Pipeline.parseProgram cfg txt = .ok c) (h1 : ExpandMacros.expandMacros p c = .ok c1)
    (h2 : fillInLet ov c1 = .ok c2) :
    KnownRefsOK c2 ∧ NoConstRefs c2 ∧ ExpandMacros.noCalls c.macros c2.body = true := by
  obtain ⟨_, nc, k2, n2⟩ := (C14_stage_order cfg txt ov p c hp).2 c1 c2 h1 h2
  have hL1 : Passes.Legal c1 := Passes.C10_legal_seq_parsed cfg txt [.macros p] c c1 hp
    (by simp [Passes.applySeq, Passes.apply, h1, Except.bind, pure, Except.pure])
  exact ⟨k2, n2, let_noCalls c.macros hL1.wf2 h2 nc⟩

/-- **C14, both orders of the two passes, both facts at once** (`C14_stage_order_full`). -/
theorem C14_stage_order_holds : C14_stage_order_full := by
  intro cfg txt ov p c hp
  exact ⟨fun c1 c2 h1 h2 => C14_stage_order_noconst cfg txt ov p c c1 c2 hp h1 h2,
    fun c1 c2 h1 h2 => C14_stage_order_nocalls cfg txt ov p c c1 c2 hp h1 h2⟩

end Jaqal.Stages

#print axioms Jaqal.Stages.C14_stage_order_noconst
#print axioms Jaqal.Stages.C14_stage_order_nocalls
#print axioms Jaqal.Stages.C14_stage_order_holds
