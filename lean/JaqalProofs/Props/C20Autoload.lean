import JaqalProofs.Lemmas.RoundTripAutoload
/-!
# C20 for parser-produced circuits, `autoload_pulses` on or off

`C20_sound_parsed` (`Props/C20.lean`) takes `cfgA.autoload = false` and `cfgB.autoload = false`, inherited from
`parsed_parserLike`.  `Lemmas/RoundTripAutoload.lean` proves `parsed_parserLike_any` for every configuration (a run of
the autoload builder is a run of the plain builder from the loaded gate table), so the hypotheses go.
-/
namespace Jaqal.C20
open Jaqal Jaqal.PyEq Jaqal.Builder

/-- a module table for the examples: `m1` has `X(q)` and `R(q, a)`; `m2` REPLACES `X` by a two-parameter `X(q, k)`
and adds `MM(q)` — tagged as a macro, which nothing forbids `get_jaqal_gates` to hand over in the model -/
def exImports (m : String) : Option (List GateDef) :=
  if m = "m1" then
    some [{ name := "X", tag := .native, params := [("q", Kind.qubit)], hasUnitary := true },
          { name := "R", tag := .native, params := [("q", Kind.qubit), ("a", Kind.float)], hasUnitary := true }]
  else if m = "m2" then
    some [{ name := "X", tag := .native, params := [("q", Kind.qubit), ("k", Kind.int)] },
          { name := "MM", tag := .macro, params := [("q", Kind.qubit)] }]
  else Option.none

/-- `parse_jaqal_string(…, autoload_pulses=True)` over that module table, nothing injected -/
def exAuto : Config := { natives := Option.none, autoload := true, imports := exImports }

/-- … and with `X(q)` injected (`inject_pulses` wins over what the modules say about `X`) -/
def exAutoInject : Config :=
  { natives := some [{ name := "X", tag := .native, params := [("q", Kind.qubit)], hasUnitary := true }],
    autoload := true, imports := exImports }

/-- `usepulses` statements interleaved with the other header statements (the grammar allows any order inside the
header; the generator writes the `usepulses` statements first), the second module replacing a gate of the first, and
`X` called with the two parameters of the second module's definition -/
def exAutoTxt : String :=
  "let n 1\nfrom m1 usepulses *\nregister r[2]\nfrom m2 usepulses *\nmacro m q { X q 3 }\nR r[n] 0.5\nm r[0]\n"

/-- **C20 soundness for parser-produced circuits, every configuration** (`C20_sound_parsed` without the two autoload
hypotheses): two circuits returned by `parse_jaqal_string` — any `inject_pulses`, `autoload_pulses` on or off, any
modules, any two texts — that compare equal with `==` have identical `let` and register declarations (name by name,
numbers by value) and the same gate-level meaning under every override environment. -/
theorem C20_sound_parsed_any (cfgA cfgB : Builder.Config) (ta tb : String) (a b : Circuit) (ρ : Sem.Env)
    (ha : Pipeline.parseProgram cfgA ta = .ok a) (hb : Pipeline.parseProgram cfgB tb = .ok b)
    (h : circuitEq a b = true) :
    (a.constants.length = b.constants.length ∧
      ∀ x ∈ a.constants, ∃ y ∈ b.constants, y.name? = x.name? ∧ valEq x y = true) ∧
    (a.registers.length = b.registers.length ∧
      ∀ x ∈ a.registers, ∃ y ∈ b.registers, y.name? = x.name? ∧ valEq x y = true) ∧
    MeaningEq (Sem.meaning ρ a) (Sem.meaning ρ b) :=
  C20_sound_parsedLike ρ a b (Autoload.parsed_parserLike_any ha) (Autoload.parsed_parserLike_any hb) h

/-- every parser-produced circuit is `==` to itself, whatever the configuration -/
theorem C20_refl_parsed_any (cfg : Builder.Config) (txt : String) (c : Circuit)
    (h : Pipeline.parseProgram cfg txt = .ok c) : circuitEq c c = true :=
  C20_refl c (Autoload.parsed_wf_any h)

/-- the example text is accepted with autoload on: its circuit is `IntsBounded`, two modules are recorded, the native
table is `X` (the two-parameter one of the second module, in the place of the first), `R`, `MM` -/
theorem C20_auto_example_accepted :
    (match Pipeline.parseProgram exAuto exAutoTxt with
     | .ok c => decide (RoundTrip.IntsBounded c) && decide (c.usepulses = [("m1", "*"), ("m2", "*")]) &&
        decide (c.natives.map (fun g => (g.name, g.params.length)) = [("X", 2), ("R", 2), ("MM", 1)]) &&
        decide (c.macros.length = 1) && decide (c.body.stmts.length = 2)
     | .error _ => false) = true := by decide +kernel

/-- non-vacuity: an autoload configuration, an accepted text -/
example : ∃ c, Pipeline.parseProgram exAuto exAutoTxt = .ok c ∧ circuitEq c c = true ∧
    ∀ ρ : Sem.Env, MeaningEq (Sem.meaning ρ c) (Sem.meaning ρ c) := by
  have h0 := C20_auto_example_accepted
  cases h : Pipeline.parseProgram exAuto exAutoTxt with
  | error e => rw [h] at h0; cases h0
  | ok c =>
    have hr := C20_refl_parsed_any exAuto _ c h
    exact ⟨c, rfl, hr, fun ρ => (C20_sound_parsed_any exAuto exAuto _ _ c c ρ h h hr).2.2⟩

end Jaqal.C20

#print axioms Jaqal.C20.C20_sound_parsed_any
#print axioms Jaqal.C20.C20_refl_parsed_any
#print axioms Jaqal.C20.C20_auto_example_accepted
