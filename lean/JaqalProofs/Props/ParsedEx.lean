import JaqalProofs.Props.ParsedC04
import JaqalProofs.Props.ParsedC05
import JaqalProofs.Props.ParsedC06
import JaqalProofs.Props.ParsedC10
/-!
# The pass properties C04 / C05 / C06 / C10 for the circuits the parser produces — no well-formedness hypothesis

`Lemmas/ParsedLegal.lean: parsed_legal` proves `Passes.Legal c` (= `ExpandMacros.WellFormed c = true`, `FillIn.WellFormed c`,
`Deep c`) of every circuit `Pipeline.parseProgram cfg txt` returns, for every configuration and text.  Here the hypotheses
"`c` is well formed" of the pass theorems are discharged by it: in every statement below the only thing said of the input
circuit is `Pipeline.parseProgram cfg txt = .ok c`.

* C04 (`namespace Jaqal.ExpandMacros`): `C04_meaning_parsed`, `C04_no_calls_parsed`, `C04_header_parsed`, `C04_shape_parsed`,
  `C04_idempotent_parsed`, `C04_total_class_parsed`.
* C05 (`namespace Jaqal.FillIn`): `C05_meaning_parsed`, `C05_no_consts_parsed`, `C05_frame_parsed`, `C05_idempotent_parsed`.
* C06 (`namespace Jaqal.FillIn`): `C06_fill_in_map_parsed` — UNDER THE DECIDABLE CONDITION `goodRefs c = true`
  (`Lemmas/ParsedLegal.lean`): every qubit reference among the gate arguments goes through a `ValidChain` and has an integer
  (literal or let) index.  It cannot be dropped: the parser accepts `let n 8; register r[n]; map d r[6:10]; X d[0]`
  (`goodRefs_parsed_fails`), for which the specification of meaning rejects `d[0]` while `fill_in_map` writes `r[6]`; and
  macro bodies that index a parameter have no chain at all.  `FillIn.WellFormed c` — the other hypothesis — is discharged.
* C10 (`namespace Jaqal.Passes`):
  - `C10_legal_parsed`            a parsed circuit is `Legal`;
  - `C10_legal_preserved_parsed`  every pass applied to a parsed circuit gives a `Legal` circuit; `C10_legal_seq_parsed`: so does
                                  every sequence of passes;
  - `C10_applicable_parsed`       every sequence without `fill_in_map` is applicable from a parsed circuit;
                                  `C10_applicable_parsed_side`: every sequence is, given the side condition of its `fill_in_map`
                                  steps (`SideOK`: `stepSide` at every step, nothing else — `True` for a sequence without
                                  `fill_in_map`);
  - `C10_canonical_parsed`, `C10_commute_parsed` (sequences without `fill_in_map`: NO hypothesis besides "same passes, same
    overrides, both succeed, the original has a meaning"), `C10_commute_parsed_map` (any sequences, `SideOK` for both);
  - `C10_idempotent_parsed`       `P (P c) = P c` for all four passes on a parsed circuit; `C10_idempotent_seq_parsed`: also on
                                  the result of any sequence of passes on a parsed circuit.
* Non-vacuity: `exTxt` (a let, a let-sized register, a macro with a parameter, a loop, a subcircuit) — `ex_macros` …
  `ex_seq2` evaluate the premises of every corollary on it (`decide +kernel`), `ex_premises` restates them.
-/
set_option linter.unusedVariables false
open Jaqal Jaqal.Sem

namespace Jaqal.Passes
open Jaqal.Builder

/-- `let n 2; register r[n]; macro M x { G x }; loop n { M r[1] }; subcircuit { M r[0] }` -/
def exTxt : String := "let n 2\nregister r[n]\nmacro M x { G x }\nloop n { M r[1] }\nsubcircuit { M r[0] }\n"

def exCfg : Config := {}

def isOk {α : Type} (m : M α) : Bool :=
  match m with
  | .ok _ => true
  | .error _ => false

theorem isOk_ok {α : Type} {m : M α} (h : isOk m = true) : ∃ a, m = .ok a := by
  cases m with
  | ok a => exact ⟨a, rfl⟩
  | error e => cases h

/-- a check on the circuit of a result -/
def chk (r : M Circuit) (f : Circuit → Bool) : Bool :=
  match r with
  | .error _ => false
  | .ok c => f c

theorem chk_ok {r : M Circuit} {f : Circuit → Bool} (h : chk r f = true) : ∃ c, r = .ok c ∧ f c = true := by
  cases r with
  | error e => cases h
  | ok c => exact ⟨c, rfl, h⟩

/-- a check evaluated on what `exTxt` parses to -/
def exChk (f : Circuit → Bool) : Bool := chk (Pipeline.parseProgram exCfg exTxt) f

/-- (stated through `chk_ok` for an arbitrary result: no tactic ever looks at the closed term `parseProgram exCfg exTxt`) -/
theorem exChk_ok {f : Circuit → Bool} (h : exChk f = true) : ∃ c, Pipeline.parseProgram exCfg exTxt = .ok c ∧ f c = true :=
  chk_ok h

/-! the premises of the corollaries, evaluated on `exTxt` one by one (each evaluation parses the text again: a few seconds) -/
theorem ex_macros : exChk (fun c => isOk (ExpandMacros.expandMacros false c) && !c.macros.isEmpty) = true := by decide +kernel
theorem ex_macros_keep : exChk (fun c => isOk (ExpandMacros.expandMacros true c)) = true := by decide +kernel
theorem ex_let : exChk (fun c => isOk (FillIn.fillInLet [("n", .int 2)] c)) = true := by decide +kernel
theorem ex_map : exChk (fun c => isOk (FillIn.fillInMap c) && FillIn.goodRefs c) = true := by decide +kernel
theorem ex_meaning : exChk (fun c => isOk (meaning [] c) && isOk (meaning (FillIn.normOv [("n", .int 2)]) c)) = true := by
  decide +kernel
theorem ex_seq1 : exChk (fun c => isOk (applySeq [.let_ [("n", .int 2)], .macros false, .subs] c)) = true := by decide +kernel
theorem ex_seq2 : exChk (fun c => isOk (applySeq [.subs, .macros false, .let_ [("n", .int 2)]] c)) = true := by decide +kernel

/-- the premises of every corollary above hold of `exTxt`: it parses, both variants of `expand_macros`, `fill_in_let` (with an
override), `fill_in_map` succeed on the result, `goodRefs` holds, it has a meaning, and two orders of the three passes
`fill_in_let`, `expand_macros`, `expand_subcircuits` succeed. -/
theorem ex_premises : ∃ c, Pipeline.parseProgram exCfg exTxt = .ok c ∧ c.macros ≠ [] ∧
    (∃ c', ExpandMacros.expandMacros false c = .ok c') ∧ (∃ c', ExpandMacros.expandMacros true c = .ok c') ∧
    (∃ c', FillIn.fillInLet [("n", .int 2)] c = .ok c') ∧ (∃ c', FillIn.fillInMap c = .ok c') ∧ FillIn.goodRefs c = true ∧
    (∃ s, meaning [] c = .ok s) ∧ (∃ s, meaning (envAfter [] [.let_ [("n", .int 2)], .macros false, .subs]) c = .ok s) ∧
    (∃ c1, applySeq [.let_ [("n", .int 2)], .macros false, .subs] c = .ok c1) ∧
    (∃ c2, applySeq [.subs, .macros false, .let_ [("n", .int 2)]] c = .ok c2) := by
  obtain ⟨c, hc, h1⟩ := exChk_ok ex_macros
  have same : ∀ {f : Circuit → Bool}, exChk f = true → f c = true := by
    intro f hf
    obtain ⟨c', hc', h'⟩ := exChk_ok hf
    rw [hc] at hc'
    cases hc'
    exact h'
  have h2 := same ex_macros_keep
  have h3 := same ex_let
  have h4 := same ex_map
  have h5 := same ex_meaning
  have h6 := same ex_seq1
  have h7 := same ex_seq2
  simp only [Bool.and_eq_true] at h1 h4 h5
  refine ⟨c, hc, ?_, isOk_ok h1.1, isOk_ok h2, isOk_ok h3, isOk_ok h4.1, h4.2, isOk_ok h5.1, isOk_ok h5.2, isOk_ok h6, isOk_ok h7⟩
  intro he
  rw [he] at h1
  exact absurd h1.2 (by decide)

/-- the two orders of the example have the same meaning — by `C10_commute_parsed`, no evaluation of the results -/
example : ∀ c c1 c2, Pipeline.parseProgram exCfg exTxt = .ok c →
    applySeq [.let_ [("n", .int 2)], .macros false, .subs] c = .ok c1 →
    applySeq [.subs, .macros false, .let_ [("n", .int 2)]] c = .ok c2 → meaning [] c1 = meaning [] c2 := by
  intro c c1 c2 hp a1 a2
  obtain ⟨c0, hp0, _, _, _, _, _, _, _, ⟨s, hs⟩, _, _⟩ := ex_premises
  rw [hp] at hp0
  cases hp0
  refine C10_commute_parsed exCfg exTxt [] [("n", .int 2)] _ _ c c1 c2 s hp ?_ ?_ ?_ a1 a2 hs
  · intro p
    simp only [List.mem_cons, List.mem_nil_iff, or_false]
    constructor
    · rintro (h | h | h)
      · exact Or.inr (Or.inr h)
      · exact Or.inr (Or.inl h)
      · exact Or.inl h
    · rintro (h | h | h)
      · exact Or.inr (Or.inr h)
      · exact Or.inr (Or.inl h)
      · exact Or.inl h
  · intro ov' h
    simp only [List.mem_cons, List.mem_nil_iff, or_false] at h
    rcases h with h | h | h
    · cases h; rfl
    · cases h
    · cases h
  · intro p h
    simp only [List.mem_cons, List.mem_nil_iff, or_false] at h
    rcases h with rfl | rfl | rfl <;> rfl

end Jaqal.Passes
