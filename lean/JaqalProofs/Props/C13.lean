import JaqalModel.Model.UsedQubits
import JaqalModel.Spec.Sem
import JaqalProofs.Lemmas.UsedQubits
import JaqalProofs.Lemmas.UsedQubitsOrder
import JaqalProofs.Props.C03
/-!
# C13 — used-qubit analysis is exact; overlapping parallel branches are rejected; branch order is immaterial

Model: `JaqalModel/Model/UsedQubits.lean` (`UsedQubitIndicesVisitor`, `DiscoverSubcircuits`' disjoint merge).

## What is proved

* `C13_exact`, `C13_exact_stmt` — whenever the analysis returns, `i ∈ u[r]` **iff** some gate application reachable
  from the statement (through blocks, loops, macro calls with `bind_argument`-bound parameters) acts on `(r, i)`
  (`Acts`, `Lemmas/UsedQubits.lean`): the `resolve_qubit` of a qubit argument / every member of a register argument
  in a *used-qubit position* of a native gate, every qubit of the fundamental registers for a busy gate, nothing
  for an idle gate. Used-qubit position = a parameter of the `GateDef` whose kind is `qubit`, `register` or `none`
  (`usedKind`: `not p.classical`, untyped parameters included because `classical` raises and the exception handler yields
  them). The leaves are spelled out by `C13_leaf_qubit`, `C13_leaf_classical`, `C13_busy`, `C13_idle`.
* `C13_reject` — given that the plain analysis returns, the walk under `validate_parallel` fails iff some reachable
  parallel block has two distinct branches acting on a common qubit (`Conflict`) or some reachable native gate statement
  has two used-qubit arguments acting on a common qubit (`Repeat`); the error is the JaqalError "Parallel branches…"
  only if `Conflict`, "Gate … acting on the same qubit more than once." only if `Repeat`, and nothing else; it succeeds
  iff neither holds.
* `C13_order_used`, `C13_order_accept` — permuting the branches of any parallel blocks of the body (`PermPar`) changes
  neither the used sets (as sets) nor acceptance. `C13_order_state` — the state-vector consequence from `C03_interleave`,
  with the bridging lemma `C13_indep_of_disjoint` (disjoint used sets ⇒ `Indep` of the serialised gates).

## What is NOT proved (kept as `C13_exact_full`)

`Acts` reads the leaves through the library's own resolution (`Resolve.resolveQubit`, `bindArgument`). The statement against
the SPECIFICATION (`Sem.evalStmt`: call-by-value macro denotation, registers as lists of fundamental qubits) is
`C13_exact_full`. Its proof needs, beyond the walk exactness proved here, (1) C06: `Resolve.resolveQubit` (closed form
`start + i·step` composed along the alias chain) agrees with list indexing into `Sem.evalReg`, and (2) the correspondence
between the visitor's context (parameter ↦ `bind_argument`-evaluated `Val`, caller's bindings leaking into the callee)
and the spec's `Bind` (parameter ↦ evaluated `SArg`). `C13_exact_partial` isolates exactly that bridge as a hypothesis.
The differential test (`harness/agents/used_diff.py`, oracle `used_exact`) checks the full statement on the real code against
an independent ground truth.
-/
namespace Jaqal.UsedQubits
open Jaqal.Resolve

/-! ### circuit-level plumbing -/

theorem usedCircuitV_ok (vp : Bool) (c : Circuit) (u : Used) (h : usedCircuitV vp c = .ok u) :
    ∃ allQ, allQubits c.registers = .ok allQ ∧ KeysNodup allQ ∧
      usedStmtF vp allQ c.macros (defaultFuel c.macros c.body) [] c.body = .ok u := by
  simp only [usedCircuitV, bind, Except.bind] at h
  split at h
  · cases h
  · rename_i allQ hq
    exact ⟨allQ, hq, allQubits_keysNodup _ _ _ hq keysNodup_nil, h⟩

/-! ### C13_exact -/

/-- **C13 (exactness, any statement, any context).** -/
theorem C13_exact_stmt (allQ : Used) (hq : KeysNodup allQ) (macros : List Macro) (ctx : Ctx) (s : Stmt) (u : Used)
    (h : usedStmt allQ macros ctx s = .ok u) (r : String) (i : Int) :
    Mem u r i ↔ Acts allQ macros ctx s r i :=
  usedStmtF_mem_iff false allQ hq macros _ ctx s u h r i

/-- **C13 (exactness, circuit).** `get_used_qubit_indices(circuit)` returns exactly the qubits some gate application
reachable from the body acts on, `all_qubits` being `range(int(size))` of every fundamental register. -/
theorem C13_exact (c : Circuit) (u : Used) (h : usedCircuit c = .ok u) :
    ∃ allQ, allQubits c.registers = .ok allQ ∧
      ∀ r i, Mem u r i ↔ Acts allQ c.macros [] c.body r i := by
  obtain ⟨allQ, h1, h2, h3⟩ := usedCircuitV_ok false c u h
  exact ⟨allQ, h1, fun r i => usedStmtF_mem_iff false allQ h2 _ _ _ _ _ h3 r i⟩

/-- the result is independent of the fuel: any two successful runs agree (as sets) -/
theorem C13_fuel_irrelevant (vp vp' : Bool) (allQ : Used) (hq : KeysNodup allQ) (macros : List Macro) (f f' : Nat) (ctx : Ctx)
    (s : Stmt) (u u' : Used) (h : usedStmtF vp allQ macros f ctx s = .ok u) (h' : usedStmtF vp' allQ macros f' ctx s = .ok u')
    (r : String) (i : Int) : Mem u r i ↔ Mem u' r i :=
  (usedStmtF_mem_iff vp allQ hq macros f ctx s u h r i).trans (usedStmtF_mem_iff vp' allQ hq macros f' ctx s u' h' r i).symm

theorem Mem_singleton (a : String) (b : Int) (r : String) (i : Int) : Mem [(a, [b])] r i ↔ r = a ∧ i = b := by
  simp only [Mem, get]
  by_cases e : a = r
  · subst e; simp
  · simp [e]; intro h; exact absurd h.symm e

/-- leaf: a qubit argument contributes exactly its `resolve_qubit(context)` -/
theorem C13_leaf_qubit (ctx : Ctx) (f : Nat) (n : String) (src idx : Val) (u : Used)
    (h : visitVal ctx f (.qubit n src idx) = .ok u) :
    ∃ q, resolveQubit ctx (.qubit n src idx) = .ok q ∧ ∀ r i, Mem u r i ↔ (r, i) = q := by
  have h' : (do let q ← resolveQubit ctx (.qubit n src idx); pure [(q.1, [q.2])] : M Used) = .ok u := by
    cases f <;> simpa only [visitVal] using h
  simp only [bind, Except.bind] at h'
  split at h'
  · cases h'
  · rename_i q hq
    simp only [pure, Except.pure, Except.ok.injEq] at h'; subst h'
    refine ⟨q, hq, fun r i => ?_⟩
    rw [Mem_singleton]
    obtain ⟨a, b⟩ := q
    simp [Prod.ext_iff]

/-- leaf: numbers, let-constants and `None` contribute nothing, whatever the kind of the parameter they are bound to
(an untyped anonymous gate called with a number) -/
theorem C13_leaf_classical (ctx : Ctx) (f : Nat) (v : Val)
    (hv : (∃ k, v = .int k) ∨ (∃ d, v = .flt d) ∨ (∃ n x, v = .const n x) ∨ v = .none) :
    visitVal ctx f v = .ok [] := by
  rcases hv with ⟨k, rfl⟩ | ⟨d, rfl⟩ | ⟨n, x, rfl⟩ | rfl <;> cases f <;> rfl

/-- a busy gate (`prepare_all`, `measure_all`) acts on every qubit of the fundamental registers -/
theorem C13_busy (allQ : Used) (macros : List Macro) (ctx : Ctx) (name : String) (gd : GateDef) (args : List (String × Val))
    (hb : gd.tag = .busy) (r : String) (i : Int) :
    Acts allQ macros ctx (.gate name gd args) r i ↔ Mem allQ r i := by
  constructor
  · intro h
    cases h with
    | native ht => rw [hb] at ht; cases ht
    | busy _ hm => exact hm
    | call ht => rw [hb] at ht; cases ht
  · exact Acts.busy hb

/-- an idle gate acts on nothing -/
theorem C13_idle (allQ : Used) (macros : List Macro) (ctx : Ctx) (name : String) (gd : GateDef) (args : List (String × Val))
    (hb : gd.tag = .idle) (r : String) (i : Int) :
    ¬ Acts allQ macros ctx (.gate name gd args) r i := by
  intro h
  cases h with
  | native ht => rw [hb] at ht; cases ht
  | busy ht => rw [hb] at ht; cases ht
  | call ht => rw [hb] at ht; cases ht

/-! ### C13_reject -/

theorem parErr_ne_gateErr : parErr ≠ gateErr := by
  intro h
  simp only [Err.jaqal.injEq] at h
  exact absurd h (by decide)

/-- **C13 (rejection).** For a program on which the analysis itself does not fail, the walk with `validate_parallel` in
force (`DiscoverSubcircuits`: `merge_into(..., disjoint=block.parallel)` and the within-gate overlap test)

* succeeds iff no reachable parallel block has two distinct branches acting on a common qubit (`Conflict`) AND no
  reachable native gate statement has two used-qubit arguments acting on a common qubit (`Repeat`);
* fails iff `Conflict ∨ Repeat`; what it raises is one of the two JaqalErrors and nothing else — "Parallel branches of
  block acting on the same qubit." (`parErr`) only if `Conflict`, "Gate … acting on the same qubit more than once."
  (`gateErr`) only if `Repeat` (when both hold the first in visit order wins), hence exactly `parErr` when only
  `Conflict` holds and exactly `gateErr` when only `Repeat` holds. -/
theorem C13_reject (c : Circuit) (u : Used) (h : usedCircuit c = .ok u) :
    ∃ allQ, allQubits c.registers = .ok allQ ∧
      (checkDisjoint c = .ok () ↔ ¬ Conflict allQ c.macros [] c.body ∧ ¬ Repeat allQ c.macros [] c.body) ∧
      ((∃ e, checkDisjoint c = .error e) ↔ Conflict allQ c.macros [] c.body ∨ Repeat allQ c.macros [] c.body) ∧
      (∀ e, checkDisjoint c = .error e → e = parErr ∨ e = gateErr) ∧
      (checkDisjoint c = .error parErr → Conflict allQ c.macros [] c.body) ∧
      (checkDisjoint c = .error gateErr → Repeat allQ c.macros [] c.body) ∧
      (Conflict allQ c.macros [] c.body → ¬ Repeat allQ c.macros [] c.body → checkDisjoint c = .error parErr) ∧
      (Repeat allQ c.macros [] c.body → ¬ Conflict allQ c.macros [] c.body → checkDisjoint c = .error gateErr) := by
  obtain ⟨allQ, h1, h2, h3⟩ := usedCircuitV_ok false c u h
  refine ⟨allQ, h1, ?_⟩
  have hcd : checkDisjoint c =
      (do let _ ← usedStmtF true allQ c.macros (defaultFuel c.macros c.body) [] c.body; pure ()) := by
    simp only [checkDisjoint, usedCircuitV, h1, bind, Except.bind]
  rcases usedStmtF_true allQ h2 _ _ _ _ _ h3 with ⟨hn, ht⟩ | ⟨e, hf, ht⟩
  · have hok : checkDisjoint c = .ok () := by rw [hcd, ht]; rfl
    rw [not_fails_iff] at hn
    rw [hok]
    refine ⟨⟨fun _ => hn, fun _ => rfl⟩, ⟨fun ⟨e, x⟩ => (by cases x), ?_⟩, fun e x => (by cases x),
      fun x => (by cases x), fun x => (by cases x), fun hc _ => absurd hc hn.1, fun hr _ => absurd hr hn.2⟩
    rintro (hc | hr)
    · exact absurd hc hn.1
    · exact absurd hr hn.2
  · have herr : checkDisjoint c = .error e := by rw [hcd, ht]; rfl
    rw [herr]
    rcases hf with ⟨he, hc⟩ | ⟨he, hr⟩
    · subst he
      refine ⟨⟨fun x => (by cases x), fun x => absurd hc x.1⟩, ⟨fun _ => Or.inl hc, fun _ => ⟨_, rfl⟩⟩,
        fun e x => (by cases x; exact Or.inl rfl), fun _ => hc, ?_, fun _ _ => rfl, fun _ hnc => absurd hc hnc⟩
      intro x
      simp only [Except.error.injEq] at x
      exact absurd x parErr_ne_gateErr
    · subst he
      refine ⟨⟨fun x => (by cases x), fun x => absurd hr x.2⟩, ⟨fun _ => Or.inr hr, fun _ => ⟨_, rfl⟩⟩,
        fun e x => (by cases x; exact Or.inr rfl), ?_, fun _ => hr, fun _ hnr => absurd hr hnr, fun _ _ => rfl⟩
      intro x
      simp only [Except.error.injEq] at x
      exact absurd x.symm parErr_ne_gateErr

/-! ### C13_order -/

theorem PermPar.symm {s s' : Stmt} (h : PermPar s s') : PermPar s' s := by
  induction h with
  | refl s => exact .refl s
  | here hp => exact .here hp.symm
  | inBlock _ ih => exact .inBlock ih
  | inLoop _ ih => exact .inLoop ih
  | trans _ _ ih1 ih2 => exact .trans ih2 ih1

/-- **C13 (branch order, used sets).** Permuting the branches of parallel blocks of the body leaves the analysis
defined and its result unchanged as a family of sets. -/
theorem C13_order_used (c : Circuit) (body' : Stmt) (hp : PermPar c.body body') (u : Used) (h : usedCircuit c = .ok u) :
    ∃ u', usedCircuit { c with body := body' } = .ok u' ∧ ∀ r i, Mem u r i ↔ Mem u' r i := by
  obtain ⟨allQ, h1, h2, h3⟩ := usedCircuitV_ok false c u h
  have hfuel : defaultFuel c.macros body' = defaultFuel c.macros c.body := by
    simp only [defaultFuel, stmtDepth_perm hp]
  obtain ⟨u', hu'⟩ := ok_perm allQ c.macros hp _ [] ⟨u, h3⟩
  refine ⟨u', ?_, fun r i => ?_⟩
  · simp only [usedCircuit, usedCircuitV, h1, bind, Except.bind, hfuel]
    exact hu'
  · rw [usedStmtF_mem_iff false allQ h2 _ _ _ _ _ h3, usedStmtF_mem_iff false allQ h2 _ _ _ _ _ hu']
    exact acts_perm allQ c.macros hp [] r i

/-- **C13 (branch order, acceptance).** … and leaves acceptance by the disjointness check unchanged. -/
theorem C13_order_accept (c : Circuit) (body' : Stmt) (hp : PermPar c.body body') (u : Used) (h : usedCircuit c = .ok u) :
    checkDisjoint c = .ok () ↔ checkDisjoint { c with body := body' } = .ok () := by
  obtain ⟨u', hu', _⟩ := C13_order_used c body' hp u h
  obtain ⟨allQ, h1, h2, _⟩ := C13_reject c u h
  obtain ⟨allQ', h1', h2', _⟩ := C13_reject { c with body := body' } u' hu'
  have : allQ' = allQ := by
    have e : allQubits c.registers = .ok allQ' := h1'
    rw [h1] at e; cases e; rfl
  subst this
  rw [h2, h2']
  exact and_congr (not_congr (conflict_perm allQ' c.macros hp [])) (not_congr (repeat_perm allQ' c.macros hp []))

/-! ### State vectors (C03) -/

open Jaqal.Emulator in
/-- **Bridging lemma.** If every serialised gate of branch 1 acts on distinct qubits that all belong to `A`, every
serialised gate of branch 2 on distinct qubits in `B`, and `A`, `B` are disjoint — which is what the disjointness check
establishes for the used sets of two branches (`C13_reject`, `C13_exact`), the serialisation of a branch touching only
qubits of its used set — then the gates satisfy the `Indep` hypothesis of `C03_interleave`.
Distinctness of the qubits of ONE gate is the other thing the walk under `validate_parallel` establishes
(`¬ Repeat`, `C13_reject`: `CX q[0] q[0]` is rejected). -/
theorem C13_indep_of_disjoint {R : Type} (l₁ l₂ : List (Option (Nat → Nat → R) × List Nat)) (A B : Nat → Prop)
    (h1 : ∀ g ∈ l₁, g.2.Nodup ∧ ∀ q ∈ g.2, A q) (h2 : ∀ g ∈ l₂, g.2.Nodup ∧ ∀ q ∈ g.2, B q)
    (hd : ∀ q, A q → ¬ B q) : ∀ a ∈ l₁, ∀ b ∈ l₂, Indep a b :=
  fun a ha b hb => ⟨(h1 a ha).1, (h2 b hb).1, fun q hq hq' => hd q ((h1 a ha).2 q hq) ((h2 b hb).2 q hq')⟩

open Jaqal.Emulator in
theorem interleave_left {α : Type} (l : List α) : Interleave l [] l := by
  induction l with
  | nil => exact .nil
  | cons a l ih => exact .left ih

open Jaqal.Emulator in
theorem interleave_swap {α : Type} (l₁ l₂ : List α) : Interleave l₁ l₂ (l₂ ++ l₁) := by
  induction l₂ with
  | nil => exact interleave_left l₁
  | cons b l₂ ih => exact .right ih

open Jaqal.Emulator in
/-- **C13 (branch order, state vector).** Two parallel branches whose used-qubit sets are disjoint can be written in
either order — or interleaved in any way — without changing the emulator's state. -/
theorem C13_order_state {R : Type} [CommSemiring R] (pre post l₁ l₂ l : List (Option (Nat → Nat → R) × List Nat))
    (A B : Nat → Prop)
    (h1 : ∀ g ∈ l₁, g.2.Nodup ∧ ∀ q ∈ g.2, A q) (h2 : ∀ g ∈ l₂, g.2.Nodup ∧ ∀ q ∈ g.2, B q)
    (hd : ∀ q, A q → ¬ B q) (hl : Interleave l₁ l₂ l) :
    runGatesFn (pre ++ l ++ post) = runGatesFn (pre ++ (l₁ ++ l₂) ++ post) ∧
    runGatesFn (pre ++ (l₂ ++ l₁) ++ post) = runGatesFn (pre ++ (l₁ ++ l₂) ++ post) :=
  ⟨C03_interleave pre post l₁ l₂ l hl (C13_indep_of_disjoint l₁ l₂ A B h1 h2 hd),
   C03_interleave pre post l₁ l₂ (l₂ ++ l₁) (interleave_swap l₁ l₂) (C13_indep_of_disjoint l₁ l₂ A B h1 h2 hd)⟩

/-! ### The statement against the specification (`Spec/Sem.lean`) -/

mutual
  /-- the gate statements occurring in a statement -/
  def stmtGates : Stmt → List (String × GateDef × List (String × Val))
    | .gate n gd args => [(n, gd, args)]
    | .block _ _ _ b => stmtsGates b
    | .loop _ b => stmtGates b
  def stmtsGates : List Stmt → List (String × GateDef × List (String × Val))
    | [] => []
    | s :: r => stmtGates s ++ stmtsGates r
end

/-- every gate definition some gate statement of the circuit (body or macro bodies) points to -/
def circuitDefs (c : Circuit) : List GateDef :=
  ((stmtGates c.body) ++ c.macros.flatMap (fun m => stmtGates m.body)).map (·.2.1)

/-- Spec-level "the application `app = (name, evaluated arguments)` acts on `(r, i)`": read off the `GateDef` of that
name — busy: every qubit of the fundamental registers; native: `(r, i)` is the qubit argument, or a member of the
register argument, at a position `j` whose parameter has kind `qubit`, `register` or none (`usedKind`); idle / numbers:
nothing. -/
def ActsOn (defs : List GateDef) (allQ : Used) (app : Sem.GateApp) (r : String) (i : Int) : Prop :=
  ∃ gd ∈ defs, gd.name = app.1 ∧
    ((gd.tag = .busy ∧ Mem allQ r i) ∨
     (gd.tag = .native ∧ ∃ (j : Nat) (p : String × Kind), gd.params[j]? = some p ∧ usedKind p.2 = true ∧
        (app.2[j]? = some (.qubit (r, i)) ∨ ∃ qs, app.2[j]? = some (.reg qs) ∧ (r, i) ∈ qs)))

/-- index / size / bound values are integers, possibly through let-constants or (integer-bound) parameters -/
def IntLike : Val → Prop
  | .int _ => True
  | .const _ v => IntLike v
  | .param _ k => k = .int ∨ k = .none
  | _ => False

/-- What the builder establishes, as far as this property needs it. -/
structure WellFormed (c : Circuit) : Prop where
  /-- one definition per gate name -/
  defsFunctional : ∀ g ∈ circuitDefs c, ∀ g' ∈ circuitDefs c, g.name = g'.name → g = g'
  macroNames : (c.macros.map (·.name)).Nodup
  /-- a statement carries the definition of its name, and its arguments are keyed by the definition's parameters, in order -/
  aligned : ∀ x ∈ stmtGates c.body ++ c.macros.flatMap (fun m => stmtGates m.body),
    x.2.1.name = x.1 ∧ x.2.2.map (·.1) = x.2.1.params.map (·.1) ∧ (x.2.2.map (·.1)).Nodup
  /-- in the body a statement is a macro call iff its name is a macro; the definition then has the macro's parameters -/
  bodyTags : ∀ x ∈ stmtGates c.body, (x.2.1.tag = .macro ↔ x.1 ∈ c.macros.map (·.name)) ∧
    ∀ m ∈ c.macros, m.name = x.1 → m.params = x.2.1.params
  /-- macro `k` may call the macros defined before it only -/
  macroTags : ∀ (k : Nat) m, c.macros[k]? = some m → ∀ x ∈ stmtGates m.body,
    (x.2.1.tag = .macro ↔ x.1 ∈ (c.macros.take k).map (·.name)) ∧
    ∀ m' ∈ c.macros.take k, m'.name = x.1 → m'.params = x.2.1.params
  /-- one fundamental register at most per name, sizes integer-like -/
  regs : ∀ v ∈ c.registers, ∀ n sz, v = .regF n sz → IntLike sz

/-- **C13_exact at full strength (NOT proved).** For a well-formed circuit on which both the analysis and the
specification's evaluation (declared let values, `ρ = []`) succeed, `i ∈ u[r]` iff some gate application of the meaning
of the body — macros expanded call-by-value, qubits resolved as list indexing into the registers' denotations — acts on
`(r, i)`. Missing: C06 (`Resolve.resolveQubit` = `Sem.evalQubit` on well-formed references) and the context/`Bind`
correspondence for macro calls; see `C13_exact_partial`. -/
def C13_exact_full : Prop :=
  ∀ (c : Circuit) (u allQ : Used) (sem : Sem.Sem), WellFormed c → usedCircuit c = .ok u →
    allQubits c.registers = .ok allQ →
    Sem.evalStmt [] (Sem.denoteMacros [] c.macros) [] c.body = .ok sem →
    ∀ r i, Mem u r i ↔ ∃ app ∈ sem.flat, ActsOn (circuitDefs c) allQ app r i

/-- `C13_exact_full` with the missing bridge as a hypothesis: the gate applications the visitor reaches, resolved by the
library (`Acts`), are those of the specification's meaning (`ActsOn` over `Sem.flat`). -/
theorem C13_exact_partial (c : Circuit) (u allQ : Used) (sem : Sem.Sem) (h : usedCircuit c = .ok u)
    (hq : allQubits c.registers = .ok allQ)
    (_hs : Sem.evalStmt [] (Sem.denoteMacros [] c.macros) [] c.body = .ok sem)
    (bridge : ∀ r i, Acts allQ c.macros [] c.body r i ↔ ∃ app ∈ sem.flat, ActsOn (circuitDefs c) allQ app r i) :
    ∀ r i, Mem u r i ↔ ∃ app ∈ sem.flat, ActsOn (circuitDefs c) allQ app r i := by
  obtain ⟨allQ', h1, h2⟩ := C13_exact c u h
  rw [hq] at h1; cases h1
  exact fun r i => (h2 r i).trans (bridge r i)

/-! ### Non-vacuity: concrete circuits -/
section Examples

def R4 : Val := .regF "r" (.int 4)
def qv (i : Int) : Val := .qubit s!"r[{i}]" R4 (.int i)
def gX : GateDef := { name := "X", tag := .native, params := [("q", .qubit)], hasUnitary := true }
def gCX : GateDef := { name := "CX", tag := .native, params := [("c", .qubit), ("t", .qubit)], hasUnitary := true }
def gIX : GateDef := { name := "I_X", tag := .idle, params := [("q", .qubit)] }
def gP : GateDef := { name := "prepare_all", tag := .busy, params := [] }
def gRG : GateDef := { name := "RG", tag := .native, params := [("g", .register)] }
def gAnon : GateDef := { name := "foo", tag := .native, params := [("p0", .none), ("p1", .none)] }
def gM (n : String) (ps : List String) : GateDef := { name := n, tag := .macro, params := ps.map (·, Kind.none) }
def seq (b : List Stmt) : Stmt := .block false false (.int 1) b
def par (b : List Stmt) : Stmt := .block true false (.int 1) b
def X (v : Val) : Stmt := .gate "X" gX [("q", v)]

/-- nested macros that reuse AND swap parameter names:
`macro foo a b { X a }  macro bar b a { foo a b }  bar r[0] r[2]` -/
def c1 : Circuit := {
  registers := [R4],
  macros := [
    { name := "foo", params := [("a", .none), ("b", .none)], body := seq [X (.param "a" .none)] },
    { name := "bar", params := [("b", .none), ("a", .none)],
      body := seq [.gate "foo" (gM "foo" ["a", "b"]) [("a", .param "a" .none), ("b", .param "b" .none)]] }],
  body := seq [.gate "bar" (gM "bar" ["b", "a"]) [("b", qv 0), ("a", qv 2)]] }

example : usedCircuit c1 = .ok [("r", [2])] := by rfl
-- the specification agrees: the only gate application of the meaning is `X` on `(r, 2)`
example : (Sem.evalStmt [] (Sem.denoteMacros [] c1.macros) [] c1.body).map Sem.Sem.flat
    = .ok [("X", [.qubit ("r", 2)])] := by rfl

/-- alias chain with let bounds: `let k 1; map a r[0:4:2]; map b a[k:2]; X b[0]` is `X r[2]`;
`RG a` (register argument) uses `r[0], r[2]`; the anonymous untyped `foo 1 r[3]` uses `r[3]` only. -/
def aliasA : Val := .regS "a" R4 (.int 0) (.int 4) (.int 2)
def aliasB : Val := .regS "b" aliasA (.const "k" (.int 1)) (.int 2) .none
def c2 : Circuit := {
  registers := [R4, aliasA, aliasB],
  body := seq [X (.qubit "b[0]" aliasB (.int 0)), .gate "RG" gRG [("g", aliasA)],
               .gate "foo" gAnon [("p0", .int 1), ("p1", qv 3)]] }

example : usedCircuit c2 = .ok [("r", [2, 0, 3])] := by rfl
example : usedStmt [("r", [0, 1, 2, 3])] [] [] (X (.qubit "b[0]" aliasB (.int 0))) = .ok [("r", [2])] := by rfl

/-- busy and idle gates: `prepare_all` uses everything, `I_X r[0]` nothing -/
def c3 : Circuit := { registers := [R4], body := seq [.gate "I_X" gIX [("q", qv 0)]] }
def c3' : Circuit := { registers := [R4], body := seq [.gate "I_X" gIX [("q", qv 0)], .gate "prepare_all" gP []] }
example : usedCircuit c3 = .ok [] := by rfl
example : usedCircuit c3' = .ok [("r", [0, 1, 2, 3])] := by rfl

/-- `< X r[0] | I_X r[0] | { X r[1] } >` is accepted, `< X r[0] | bar r[1] r[0] >` (through two macros) rejected,
`< prepare_all | X r[0] >` rejected; `CX r[0] r[0]` (one gate, the same qubit twice) is rejected with the other error —
directly, through an alias (`b[0]` is `r[2]`) and through macro arguments — while the plain analysis accepts it. -/
def c4 (b : List Stmt) : Circuit := { c1 with body := seq [par b] }
example : checkDisjoint (c4 [X (qv 0), .gate "I_X" gIX [("q", qv 0)], seq [X (qv 1)]]) = .ok () := by rfl
example : checkDisjoint (c4 [X (qv 0), .gate "bar" (gM "bar" ["b", "a"]) [("b", qv 1), ("a", qv 0)]]) = .error parErr := by rfl
example : checkDisjoint (c4 [.gate "prepare_all" gP [], X (qv 0)]) = .error parErr := by rfl
example : checkDisjoint (c4 [.gate "CX" gCX [("c", qv 0), ("t", qv 0)], X (qv 1)]) = .error gateErr := by rfl
example : usedCircuit (c4 [.gate "CX" gCX [("c", qv 0), ("t", qv 0)], X (qv 1)]) = .ok [("r", [0, 1])] := by rfl
example : checkDisjoint { c2 with body := seq [.gate "CX" gCX [("c", .qubit "b[0]" aliasB (.int 0)), ("t", qv 2)]] }
    = .error gateErr := by rfl
def cRep : Circuit := {
  registers := [R4],
  macros := [{ name := "mm", params := [("x", .none), ("y", .none)],
               body := seq [.gate "CX" gCX [("c", .param "y" .none), ("t", .param "x" .none)]] }],
  body := seq [.gate "mm" (gM "mm" ["x", "y"]) [("x", qv 1), ("y", qv 1)]] }
example : checkDisjoint cRep = .error gateErr := by rfl
example : usedCircuit cRep = .ok [("r", [1])] := by rfl
-- by `C13_reject`, a `Repeat` exists there
example : ∃ allQ, Repeat allQ cRep.macros [] cRep.body := by
  obtain ⟨allQ, _, _, _, _, _, h, _⟩ := C13_reject cRep [("r", [1])] (by rfl)
  exact ⟨allQ, h (by rfl)⟩
-- the hypothesis of `C13_reject` holds on the rejected program, hence (by the theorem) a `Conflict` exists
example : ∃ allQ, Conflict allQ c1.macros [] (seq [par [X (qv 0), .gate "bar" (gM "bar" ["b", "a"]) [("b", qv 1), ("a", qv 0)]]]) := by
  obtain ⟨allQ, _, _, _, _, h, _⟩ := C13_reject (c4 [X (qv 0), .gate "bar" (gM "bar" ["b", "a"]) [("b", qv 1), ("a", qv 0)]])
    [("r", [0])] (by rfl)
  exact ⟨allQ, h (by rfl)⟩

/-- a permutation of the branches of a nested parallel block -/
example : PermPar (seq [X (qv 3), par [X (qv 0), X (qv 1), seq [X (qv 2)]]])
    (seq [X (qv 3), par [seq [X (qv 2)], X (qv 0), X (qv 1)]]) :=
  PermPar.inBlock (pre := [X (qv 3)]) (post := [])
    (PermPar.here ((List.Perm.refl _).cons _ |>.cons _ |>.trans (List.perm_append_comm (l₁ := [X (qv 0), X (qv 1)]) (l₂ := [seq [X (qv 2)]]))))
example : usedCircuit { c1 with body := seq [X (qv 3), par [X (qv 0), X (qv 1), seq [X (qv 2)]]] } = .ok [("r", [3, 0, 1, 2])] := by rfl
example : usedCircuit { c1 with body := seq [X (qv 3), par [seq [X (qv 2)], X (qv 0), X (qv 1)]] } = .ok [("r", [3, 2, 0, 1])] := by rfl

/-- a macro that calls itself (impossible through the builder) exhausts the fuel: Python `RecursionError` -/
def c5 : Circuit := {
  registers := [R4],
  macros := [{ name := "m", params := [], body := seq [.gate "m" (gM "m" []) []] }],
  body := seq [.gate "m" (gM "m" []) []] }
example : usedCircuit c5 = .error .hang := by rfl

/-- `RG r` on a let-sized register: `int(obj.resolve_size())` resolves the `Constant` (it used to be `range(Constant)` → `TypeError`) -/
def c6 : Circuit := {
  registers := [.regF "r" (.const "n" (.int 3))],
  body := seq [.gate "RG" gRG [("g", .regF "r" (.const "n" (.int 3)))]] }
example : usedCircuit c6 = .ok [("r", [0, 1, 2])] := by rfl

end Examples

end Jaqal.UsedQubits

#print axioms Jaqal.UsedQubits.C13_exact_stmt
#print axioms Jaqal.UsedQubits.C13_exact
#print axioms Jaqal.UsedQubits.C13_fuel_irrelevant
#print axioms Jaqal.UsedQubits.C13_leaf_qubit
#print axioms Jaqal.UsedQubits.C13_leaf_classical
#print axioms Jaqal.UsedQubits.C13_busy
#print axioms Jaqal.UsedQubits.C13_idle
#print axioms Jaqal.UsedQubits.C13_reject
#print axioms Jaqal.UsedQubits.C13_order_used
#print axioms Jaqal.UsedQubits.C13_order_accept
#print axioms Jaqal.UsedQubits.C13_indep_of_disjoint
#print axioms Jaqal.UsedQubits.C13_order_state
#print axioms Jaqal.UsedQubits.C13_exact_partial
