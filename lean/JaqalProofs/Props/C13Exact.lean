import JaqalProofs.Lemmas.UsedQubitsSpec
import JaqalProofs.Lemmas.UsedQubitsOrderMacros
import JaqalProofs.Lemmas.BuiltSpecOK
/-!
# C13_exact against the specification (`Spec/Sem.lean`)

`C13_exact_spec`: for a circuit as the builder makes it — pass 1's `ExpandMacros.WellFormed` (statements carry the
definition of their name, arguments keyed by its parameters in order, macro bodies call earlier macros only), plus
`SpecOK` below (a statement is tagged as a macro call iff it names a macro, one definition per gate name, every argument
typed as the builder types them: registers sized and sliced by ints / integer lets (`Builder.RegT`), qubit sources such
registers or parameters, indices integers / integer lets / parameters, numbers literals or numeric lets) — on which both
the used-qubit analysis and the specification's evaluation succeed:

  `i ∈ u[r]  ↔  ∃ app ∈ Sem.flat (meaning of the body), ActsOn (definitions of the circuit) all_qubits app r i`

**`C13_exact_parsed`** is that statement for every circuit `parse_jaqal_string` returns on parser output, with no
hypothesis about the circuit left: `builder_specOK` (from `built_known`, `built_gateShape`, `built_typed`) and
`Builder.parsed_wellFormed` (`Lemmas/BuiltSpecOK.lean`) discharge `SpecOK` and `WellFormed`. That alias chains are VALID is
not assumed: the builder does not check let-valued sizes and bounds, and `validChain_of_eval` shows validity follows
wherever `Sem.evalReg` succeeds. (Only proviso: native gate definitions handed in through the configuration are not tagged
`.macro`, which Python's `GateDefinition` objects never are.)

Branch order, macro bodies included: `PermParC` closes `PermPar` over the body and the macro bodies; `C13_orderC_used`,
`C13_orderC_accept`, `C13_orderC_reject` (the walk goes through the permuted callee at every call:
`Lemmas/UsedQubitsOrderMacros.lean`), and `C13_order_state_perm` (any permutation of any number of pairwise independent
branches leaves the state vector unchanged, wherever the block sits).

i.e. the analysis returns exactly the fundamental qubits on which some gate application of the circuit's MEANING
(macros expanded call-by-value, qubits resolved by list indexing into the registers' denotations) acts, read off the
gate definition (`ActsOn`: busy → all, native → qubit / register arguments at the positions of kind qubit / register /
untyped, idle → none). This discharges the `bridge` hypothesis of `C13_exact_partial`.

Relation to `C13_exact_full` (`Props/C13.lean`): that `def` quantifies over `UsedQubits.WellFormed`, which says nothing about
alias chains being valid or numbers being builder-shaped, so it covers circuits (hand-built through the API: float sizes,
slices leaving their source, `None` bounds, nested constants) on which the library's closed-form resolution and the
specification's list reading need not agree. `C13_exact_spec` is the same conclusion under the hypotheses the builder
actually establishes (`ExpandMacros.WellFormed` from pass 1 + `SpecOK`); `C13_exact_bridge` is the `bridge` hypothesis of
`C13_exact_partial` as a theorem. Not covered by `GoodArg`: a slice with an absent (`None`) bound (the builder fills all
three), a let constant whose value is another constant, `None` / string arguments.

The proof is the logical relation `CtxRel ctx b` (`Lemmas/UsedQubitsSpec.lean`) between the visitor's context and the
specification's bindings, preserved by `bind_argument` vs `evalArg` at every macro call (`ctxRel_call`), with C06
(`chain_spec`) at the leaves.
-/
namespace Jaqal.UsedQubits
open Jaqal Jaqal.Resolve Jaqal.FillIn

/-! ### plumbing -/

theorem mem_stmtsGates (l : List Stmt) (x : String × GateDef × List (String × Val)) :
    x ∈ stmtsGates l ↔ ∃ s ∈ l, x ∈ stmtGates s := by
  induction l with
  | nil => simp [stmtsGates]
  | cons s r ih => simp [stmtsGates, ih]

theorem wfStmtList_mem (ms : List Macro) : ∀ (l : List Stmt), ExpandMacros.wfStmtList ms l = true →
    ∀ s ∈ l, ExpandMacros.wfStmt ms s = true
  | [], _, s, hs => by cases hs
  | x :: r, h, s, hs => by
    simp only [ExpandMacros.wfStmtList, Bool.and_eq_true] at h
    rcases List.mem_cons.1 hs with rfl | hs
    · exact h.1
    · exact wfStmtList_mem ms r h.2 s hs

theorem evalStmts_ok {ρ : Sem.Env} {md : Sem.MacroDen} {b : Sem.Bind} : ∀ {l : List Stmt} {xs : List Sem.Sem},
    Sem.evalStmts ρ md b l = .ok xs →
    (∀ s ∈ l, ∃ x ∈ xs, Sem.evalStmt ρ md b s = .ok x) ∧ (∀ x ∈ xs, ∃ s ∈ l, Sem.evalStmt ρ md b s = .ok x) := by
  intro l
  induction l with
  | nil =>
    intro xs h
    simp only [Sem.evalStmts, pure, Except.pure, Except.ok.injEq] at h; subst h
    simp
  | cons s r ih =>
    intro xs h
    simp only [Sem.evalStmts] at h
    obtain ⟨y, hy, h⟩ := Builder.bind_ok h
    obtain ⟨ys, hys, h⟩ := Builder.bind_ok h
    simp only [pure, Except.pure, Except.ok.injEq] at h; subst h
    obtain ⟨i1, i2⟩ := ih hys
    constructor
    · intro s' hs'
      rcases List.mem_cons.1 hs' with rfl | hs'
      · exact ⟨y, List.mem_cons_self, hy⟩
      · obtain ⟨x, hx, he⟩ := i1 s' hs'; exact ⟨x, List.mem_cons_of_mem _ hx, he⟩
    · intro x hx
      rcases List.mem_cons.1 hx with rfl | hx
      · exact ⟨s, List.mem_cons_self, hy⟩
      · obtain ⟨s', hs', he⟩ := i2 x hx; exact ⟨s', List.mem_cons_of_mem _ hs', he⟩

theorem mem_flatList (xs : List Sem.Sem) (app : Sem.GateApp) : app ∈ Sem.flatList xs ↔ ∃ x ∈ xs, app ∈ x.flat := by
  induction xs with
  | nil => simp [Sem.flatList]
  | cons x r ih => simp [Sem.flatList, ih]

/-! ### what is required of the gate statements beyond pass 1's `WellFormed` -/

/-- one gate statement: its definition is one of `defs`; it is tagged as a macro call iff it names a macro; its
arguments are `GoodArg`s -/
def GateOK (ms : List Macro) (defs : List GateDef) (x : String × GateDef × List (String × Val)) : Prop :=
  x.2.1 ∈ defs ∧ (x.2.1.tag = .macro ↔ ExpandMacros.isMacro ms x.1 = true) ∧ ∀ a ∈ x.2.2, GoodArg a.2

def StmtOK (ms : List Macro) (defs : List GateDef) (s : Stmt) : Prop := ∀ x ∈ stmtGates s, GateOK ms defs x

/-- one definition per gate name -/
def Functional (defs : List GateDef) : Prop := ∀ g ∈ defs, ∀ g' ∈ defs, g.name = g'.name → g = g'

/-- `ActsOn` for the one definition of that name -/
theorem actsOn_iff {defs : List GateDef} (hfun : Functional defs) {gd : GateDef} (hgd : gd ∈ defs) (allQ : Used)
    (vs : List Sem.SArg) (r : String) (i : Int) :
    ActsOn defs allQ (gd.name, vs) r i ↔
      ((gd.tag = .busy ∧ Mem allQ r i) ∨
       (gd.tag = .native ∧ ∃ (j : Nat) (p : String × Kind), gd.params[j]? = some p ∧ usedKind p.2 = true ∧
          ∃ sa, vs[j]? = some sa ∧ Has sa r i)) := by
  have inner : ∀ (j : Nat), (vs[j]? = some (.qubit (r, i)) ∨ ∃ qs, vs[j]? = some (.reg qs) ∧ (r, i) ∈ qs) ↔
      ∃ sa, vs[j]? = some sa ∧ Has sa r i := by
    intro j
    constructor
    · rintro (h | ⟨qs, h, hm⟩)
      · exact ⟨_, h, (has_iff _ r i).2 (Or.inl rfl)⟩
      · exact ⟨_, h, (has_iff _ r i).2 (Or.inr ⟨qs, rfl, hm⟩)⟩
    · rintro ⟨sa, h, hh⟩
      rcases (has_iff sa r i).1 hh with rfl | ⟨qs, rfl, hm⟩
      · exact Or.inl h
      · exact Or.inr ⟨qs, h, hm⟩
  constructor
  · rintro ⟨g, hg, hn, hc⟩
    have : g = gd := hfun g hg gd hgd hn
    subst this
    rcases hc with hb | ⟨ht, j, p, hp, hk, hv⟩
    · exact Or.inl hb
    · exact Or.inr ⟨ht, j, p, hp, hk, (inner j).1 hv⟩
  · rintro (hb | ⟨ht, j, p, hp, hk, hv⟩)
    · exact ⟨gd, hgd, rfl, Or.inl hb⟩
    · exact ⟨gd, hgd, rfl, Or.inr ⟨ht, j, p, hp, hk, (inner j).2 hv⟩⟩

/-- a native gate statement: the visitor's loop over the used-qubit parameters against the evaluated argument list -/
theorem native_agree {ctx : Resolve.Ctx} {b : Sem.Bind} (hrel : CtxRel ctx b) (vp : Bool) (gd : GateDef)
    (args : List (String × Val)) (hal : args.map (·.1) = gd.params.map (·.1)) (hnd : (gd.params.map (·.1)).Nodup)
    (hg : ∀ a ∈ args, GoodArg a.2) (u : Used) (hu : visitUsedParams vp ctx args [] (usedParams gd) = .ok u)
    (vs : List Sem.SArg) (hvs : ExpandMacros.evalArgs [] b args = .ok vs) (r : String) (i : Int) :
    Mem u r i ↔ ∃ (j : Nat) (p : String × Kind), gd.params[j]? = some p ∧ usedKind p.2 = true ∧
      ∃ sa, vs[j]? = some sa ∧ Has sa r i := by
  have hnd' : (args.map (·.1)).Nodup := hal ▸ hnd
  -- the argument at the position of a parameter
  have argAt : ∀ (j : Nat) (p : String × Kind), gd.params[j]? = some p →
      ∃ a, args[j]? = some (p.1, a) ∧ args.lookup p.1 = some a := by
    intro j p hp
    have h1 : (args.map (·.1))[j]? = some p.1 := by rw [hal]; simp [hp]
    simp only [List.getElem?_map, Option.map_eq_some_iff] at h1
    obtain ⟨⟨n, a⟩, ha, hn⟩ := h1
    simp only at hn; subst hn
    exact ⟨a, ha, lookup_of_getElem hnd' ha⟩
  rw [visitUsedParams_mem _ _ _ _ _ _ hu]
  constructor
  · rintro (h0 | ⟨p, hp, a, ua, hl, hv, hm⟩)
    · exact absurd h0 (Mem_nil _ _)
    · simp only [usedParams, List.mem_map, List.mem_filter] at hp
      obtain ⟨pk, ⟨hpk, hk⟩, rfl⟩ := hp
      obtain ⟨j, hj, hjp⟩ := List.getElem_of_mem hpk
      have hp' : gd.params[j]? = some pk := by rw [List.getElem?_eq_getElem hj, hjp]
      obtain ⟨a', ha', hl'⟩ := argAt j pk hp'
      rw [hl] at hl'; cases hl'
      obtain ⟨sa, hsa, he⟩ := evalArgs_getElem hvs j _ ha'
      exact ⟨j, pk, hp', hk, sa, hsa, (visit_arg hrel (hg _ (List.mem_of_getElem? ha')) hv he r i).1 hm⟩
  · rintro ⟨j, pk, hp', hk, sa, hsa, hh⟩
    obtain ⟨a, ha, hl⟩ := argAt j pk hp'
    have hmem : pk.1 ∈ usedParams gd := by
      simp only [usedParams, List.mem_map, List.mem_filter]
      exact ⟨pk, ⟨List.mem_of_getElem? hp', hk⟩, rfl⟩
    obtain ⟨a', ua, hl', hv⟩ := visitUsedParams_all_ok _ _ _ _ _ _ hu _ hmem
    rw [hl] at hl'; cases hl'
    obtain ⟨sa', hsa', he⟩ := evalArgs_getElem hvs j _ ha
    rw [hsa] at hsa'; cases hsa'
    exact Or.inr ⟨pk.1, hmem, a, ua, hl, hv, (visit_arg hrel (hg _ (List.mem_of_getElem? ha)) hv he r i).2 hh⟩

/-! ### the walk -/

/-- **The used-qubit walk against the meaning of a statement**, in related contexts, through macro calls. -/
theorem used_spec (ms : List Macro) (hwf : ExpandMacros.wfMacrosFrom ms [] ms = true) (defs : List GateDef)
    (hfun : Functional defs) (allQ : Used) (hq : KeysNodup allQ) (hms : ∀ m ∈ ms, StmtOK ms defs m.body) (vp : Bool) :
    ∀ (fuel : Nat) (ctx : Resolve.Ctx) (b : Sem.Bind) (s : Stmt) (u : Used) (sem : Sem.Sem), CtxRel ctx b →
      ExpandMacros.wfStmt ms s = true → StmtOK ms defs s →
      usedStmtF vp allQ ms fuel ctx s = .ok u → Sem.evalStmt [] (Sem.denoteMacros [] ms) b s = .ok sem →
      ∀ r i, Mem u r i ↔ ∃ app ∈ sem.flat, ActsOn defs allQ app r i := by
  intro fuel
  induction fuel with
  | zero => intro ctx b s u sem _ _ _ h; simp [usedStmtF] at h
  | succ f ih =>
    intro ctx b s u sem hrel hw hok hu he r i
    cases s with
    | gate n gd args =>
      obtain ⟨hgd, htag, hga⟩ : GateOK ms defs (n, gd, args) := hok _ (by simp [stmtGates])
      simp only [ExpandMacros.wfStmt, ExpandMacros.wfGate, Bool.and_eq_true] at hw
      obtain ⟨⟨⟨⟨hn, hal⟩, hnd⟩, _⟩, hmp⟩ := hw
      have hn' : n = gd.name := by simpa using hn
      have hal' : args.map (·.1) = gd.params.map (·.1) := by simpa using hal
      have hnd' : (gd.params.map (·.1)).Nodup := by simpa using hnd
      obtain ⟨vs, hvs, hgs⟩ := ExpandMacros.evalStmt_gate_inv he
      cases hfm : ExpandMacros.findMacro ms n with
      | some m =>
        have htm : gd.tag = .macro := htag.2 (by simp [ExpandMacros.isMacro, hfm])
        have hfind : List.find? (fun m => m.name == n) ms = some m := hfm
        simp only [usedStmtF, htm, hfind] at hu
        obtain ⟨bs, hbs, hu⟩ := Builder.bind_ok hu
        obtain ⟨hwb, fden, hlk, hfd⟩ := ExpandMacros.lookup_denote [] ms hwf n m hfm
        simp only [ExpandMacros.gateSem, hlk] at hgs
        split at hgs
        · rw [hfd] at hgs
          simp only [hfm] at hmp
          have hpm : gd.params = m.params := by simpa using hmp
          have hnames : m.params.map (·.1) = args.map (·.1) := by rw [hal', hpm]
          rw [hnames] at hgs
          have hrel' := ctxRel_call hrel hga hbs hvs
          have hmem : m ∈ ms := List.mem_of_find?_eq_some hfm
          exact ih (bs ++ ctx) _ m.body u sem hrel' hwb (hms m hmem) hu hgs r i
        · cases hgs
      | none =>
        have hnm : ¬ gd.tag = .macro := by
          intro ht
          have := htag.1 ht
          simp [ExpandMacros.isMacro, hfm] at this
        have hlk := ExpandMacros.findMacro_none_lookup [] ms n hfm
        simp only [ExpandMacros.gateSem, hlk, pure, Except.pure, Except.ok.injEq] at hgs
        subst hgs
        simp only [Sem.Sem.flat, List.mem_singleton, exists_eq_left]
        rw [hn', actsOn_iff hfun hgd]
        cases htg : gd.tag with
        | «macro» => exact absurd htg hnm
        | busy =>
          simp only [usedStmtF, htg] at hu
          rw [mergeInto_mem _ _ _ _ hu hq]
          simp [Mem_nil]
        | idle =>
          simp only [usedStmtF, htg, pure, Except.pure, Except.ok.injEq] at hu
          subst hu
          simp [Mem_nil]
        | native =>
          simp only [usedStmtF, htg] at hu
          rw [native_agree hrel vp gd args hal' hnd' hga u hu vs hvs r i]
          simp
    | block par sub it body =>
      simp only [usedStmtF] at hu
      simp only [ExpandMacros.wfStmt, Bool.and_eq_true] at hw
      simp only [Sem.evalStmt] at he
      obtain ⟨k, _, he⟩ := Builder.bind_ok he
      obtain ⟨xs, hxs, he⟩ := Builder.bind_ok he
      simp only [pure, Except.pure, Except.ok.injEq] at he; subst he
      obtain ⟨e1, e2⟩ := evalStmts_ok hxs
      have hok' : ∀ s ∈ body, StmtOK ms defs s := fun s hs x hx =>
        hok x (by simp only [stmtGates]; exact (mem_stmtsGates body x).2 ⟨s, hs, hx⟩)
      rw [foldBlock_mem _ (fun s us => usedStmtF_keysNodup _ _ _ _ _ s us) _ _ _ _ hu]
      simp only [Sem.Sem.flat, mem_flatList]
      constructor
      · rintro (h0 | ⟨s, hs, us, hus, hm⟩)
        · exact absurd h0 (Mem_nil _ _)
        · obtain ⟨x, hx, hex⟩ := e1 s hs
          obtain ⟨app, happ, hact⟩ := (ih ctx b s us x hrel (wfStmtList_mem ms body hw.2 s hs) (hok' s hs) hus hex r i).1 hm
          exact ⟨app, ⟨x, hx, happ⟩, hact⟩
      · rintro ⟨app, ⟨x, hx, happ⟩, hact⟩
        obtain ⟨s, hs, hex⟩ := e2 x hx
        obtain ⟨us, hus⟩ := foldBlock_all_ok _ _ _ _ _ hu s hs
        exact Or.inr ⟨s, hs, us, hus,
          (ih ctx b s us x hrel (wfStmtList_mem ms body hw.2 s hs) (hok' s hs) hus hex r i).2 ⟨app, happ, hact⟩⟩
    | loop c body =>
      simp only [usedStmtF] at hu
      simp only [ExpandMacros.wfStmt, Bool.and_eq_true] at hw
      simp only [Sem.evalStmt] at he
      obtain ⟨k, _, he⟩ := Builder.bind_ok he
      obtain ⟨x, hx, he⟩ := Builder.bind_ok he
      simp only [pure, Except.pure, Except.ok.injEq] at he; subst he
      simp only [Sem.Sem.flat]
      exact ih ctx b body u x hrel hw.2 (fun y hy => hok y (by simpa [stmtGates] using hy)) hu hx r i

/-! ### circuits -/

/-- what `C13_exact_spec` needs beyond pass 1's `ExpandMacros.WellFormed`: one definition per gate name; a statement is
tagged as a macro call iff it names a macro of the circuit; arguments are `GoodArg`s (registers sized and sliced by ints /
integer lets, integer / let / parameter indices, literal or let numbers) — in the body and in every macro body. -/
structure SpecOK (c : Circuit) : Prop where
  functional : Functional (circuitDefs c)
  body : ∀ x ∈ stmtGates c.body,
    (x.2.1.tag = .macro ↔ ExpandMacros.isMacro c.macros x.1 = true) ∧ ∀ a ∈ x.2.2, GoodArg a.2
  macros : ∀ m ∈ c.macros, ∀ x ∈ stmtGates m.body,
    (x.2.1.tag = .macro ↔ ExpandMacros.isMacro c.macros x.1 = true) ∧ ∀ a ∈ x.2.2, GoodArg a.2

theorem ctxRel_nil : CtxRel [] [] := by
  intro n sa h
  simp [Sem.lookup] at h

/-- **C13_exact against the specification, any statement of a well-formed circuit, any related context.** -/
theorem C13_exact_spec_stmt (c : Circuit) (hwf : ExpandMacros.WellFormed c = true) (hok : SpecOK c)
    (allQ : Used) (hq : KeysNodup allQ) (ctx : Resolve.Ctx) (b : Sem.Bind) (hrel : CtxRel ctx b) (s : Stmt)
    (hws : ExpandMacros.wfStmt c.macros s = true)
    (hs : ∀ x ∈ stmtGates s, x.2.1 ∈ circuitDefs c ∧
      (x.2.1.tag = .macro ↔ ExpandMacros.isMacro c.macros x.1 = true) ∧ ∀ a ∈ x.2.2, GoodArg a.2)
    (u : Used) (sem : Sem.Sem) (hu : usedStmt allQ c.macros ctx s = .ok u)
    (he : Sem.evalStmt [] (Sem.denoteMacros [] c.macros) b s = .ok sem) :
    ∀ r i, Mem u r i ↔ ∃ app ∈ sem.flat, ActsOn (circuitDefs c) allQ app r i := by
  simp only [ExpandMacros.WellFormed, Bool.and_eq_true] at hwf
  obtain ⟨⟨⟨⟨hwm, _⟩, _⟩, _⟩, _⟩ := hwf
  have hms : ∀ m ∈ c.macros, StmtOK c.macros (circuitDefs c) m.body := by
    intro m hm x hx
    obtain ⟨h1, h2⟩ := hok.macros m hm x hx
    refine ⟨?_, h1, h2⟩
    simp only [circuitDefs, List.mem_map, List.mem_append, List.mem_flatMap]
    exact ⟨x, Or.inr ⟨m, hm, hx⟩, rfl⟩
  exact used_spec c.macros hwm (circuitDefs c) hok.functional allQ hq hms false _ ctx b s u sem hrel hws hs hu he

/-- **C13_exact against the specification.** `get_used_qubit_indices(circuit)` returns exactly the fundamental qubits
on which some gate application of the MEANING of the circuit acts. -/
theorem C13_exact_spec (c : Circuit) (hwf : ExpandMacros.WellFormed c = true) (hok : SpecOK c)
    (u allQ : Used) (sem : Sem.Sem) (h : usedCircuit c = .ok u) (hq : allQubits c.registers = .ok allQ)
    (hs : Sem.evalStmt [] (Sem.denoteMacros [] c.macros) [] c.body = .ok sem) :
    ∀ r i, Mem u r i ↔ ∃ app ∈ sem.flat, ActsOn (circuitDefs c) allQ app r i := by
  obtain ⟨allQ', h1, h2, h3⟩ := usedCircuitV_ok false c u h
  rw [hq] at h1; cases h1
  have hwf' := hwf
  simp only [ExpandMacros.WellFormed, Bool.and_eq_true] at hwf'
  obtain ⟨⟨⟨⟨_, hwb⟩, _⟩, _⟩, _⟩ := hwf'
  refine C13_exact_spec_stmt c hwf hok allQ h2 [] [] ctxRel_nil c.body hwb ?_ u sem h3 hs
  intro x hx
  obtain ⟨h1, h2⟩ := hok.body x hx
  refine ⟨?_, h1, h2⟩
  simp only [circuitDefs, List.mem_map, List.mem_append]
  exact ⟨x, Or.inl hx, rfl⟩

/-- the `bridge` hypothesis of `C13_exact_partial`, discharged -/
theorem C13_exact_bridge (c : Circuit) (hwf : ExpandMacros.WellFormed c = true) (hok : SpecOK c)
    (u allQ : Used) (sem : Sem.Sem) (h : usedCircuit c = .ok u) (hq : allQubits c.registers = .ok allQ)
    (hs : Sem.evalStmt [] (Sem.denoteMacros [] c.macros) [] c.body = .ok sem) :
    ∀ r i, Acts allQ c.macros [] c.body r i ↔ ∃ app ∈ sem.flat, ActsOn (circuitDefs c) allQ app r i := by
  intro r i
  obtain ⟨allQ', h1, h2⟩ := C13_exact c u h
  rw [hq] at h1; cases h1
  exact (h2 r i).symm.trans (C13_exact_spec c hwf hok u allQ sem h hq hs r i)

/-! ### Branch order: parallel blocks anywhere in the circuit, macro bodies included -/

/-- `c'` is `c` with the branches of any parallel blocks — of the body AND of the macro bodies — permuted. -/
structure PermParC (c c' : Circuit) : Prop where
  body : PermPar c.body c'.body
  macros : MacrosPerm c.macros c'.macros
  registers : c'.registers = c.registers

theorem PermParC.symm {c c' : Circuit} (h : PermParC c c') : PermParC c' c :=
  ⟨permPar_symm h.body, h.macros.symm, h.registers.symm⟩

theorem defaultFuel_permC {c c' : Circuit} (hp : PermParC c c') :
    defaultFuel c'.macros c'.body = defaultFuel c.macros c.body := by
  simp only [defaultFuel, ← stmtDepth_perm hp.body, ← macros_depth_sum hp.macros]

/-- **C13 (branch order, used sets; macro bodies included).** The analysis of the permuted circuit is defined and
returns the same sets — the walk goes through the (permuted) callee bodies at every macro call. -/
theorem C13_orderC_used (c c' : Circuit) (hp : PermParC c c') (u : Used) (h : usedCircuit c = .ok u) :
    ∃ u', usedCircuit c' = .ok u' ∧ ∀ r i, Mem u r i ↔ Mem u' r i := by
  obtain ⟨allQ, h1, h2, h3⟩ := usedCircuitV_ok false c u h
  obtain ⟨u1, hu1⟩ := ok_macros allQ hp.macros _ [] c.body ⟨u, h3⟩
  obtain ⟨u', hu'⟩ := ok_perm allQ c'.macros hp.body _ [] ⟨u1, hu1⟩
  refine ⟨u', ?_, fun r i => ?_⟩
  · simp only [usedCircuit, usedCircuitV, hp.registers, h1, bind, Except.bind, defaultFuel_permC hp]
    exact hu'
  · rw [usedStmtF_mem_iff false allQ h2 _ _ _ _ _ h3, usedStmtF_mem_iff false allQ h2 _ _ _ _ _ hu',
      acts_macros_iff allQ hp.macros]
    exact acts_perm allQ c'.macros hp.body [] r i

/-- **C13 (branch order, acceptance; macro bodies included).** -/
theorem C13_orderC_accept (c c' : Circuit) (hp : PermParC c c') (u : Used) (h : usedCircuit c = .ok u) :
    checkDisjoint c = .ok () ↔ checkDisjoint c' = .ok () := by
  obtain ⟨u', hu', _⟩ := C13_orderC_used c c' hp u h
  obtain ⟨allQ, h1, h2, _⟩ := C13_reject c u h
  obtain ⟨allQ', h1', h2', _⟩ := C13_reject c' u' hu'
  have : allQ' = allQ := by
    rw [hp.registers, h1] at h1'; cases h1'; rfl
  subst this
  rw [h2, h2']
  have hc : Conflict allQ' c.macros [] c.body ↔ Conflict allQ' c'.macros [] c'.body :=
    ⟨fun x => (conflict_perm allQ' c'.macros hp.body []).1 (conflict_macros allQ' hp.macros x),
     fun x => conflict_macros allQ' hp.macros.symm ((conflict_perm allQ' c'.macros hp.body []).2 x)⟩
  have hr : Repeat allQ' c.macros [] c.body ↔ Repeat allQ' c'.macros [] c'.body :=
    ⟨fun x => (repeat_perm allQ' c'.macros hp.body []).1 (repeat_macros allQ' hp.macros x),
     fun x => repeat_macros allQ' hp.macros.symm ((repeat_perm allQ' c'.macros hp.body []).2 x)⟩
  exact and_congr (not_congr hc) (not_congr hr)

/-- … and the rejection, when there is one, is of the same kind unless both kinds are present -/
theorem C13_orderC_reject (c c' : Circuit) (hp : PermParC c c') (u : Used) (h : usedCircuit c = .ok u) :
    (∃ e, checkDisjoint c = .error e) ↔ (∃ e, checkDisjoint c' = .error e) := by
  have hacc := C13_orderC_accept c c' hp u h
  constructor
  · rintro ⟨e, he⟩
    cases hc : checkDisjoint c' with
    | error e' => exact ⟨e', rfl⟩
    | ok x => cases x; rw [hacc.2 hc] at he; cases he
  · rintro ⟨e, he⟩
    cases hc : checkDisjoint c with
    | error e' => exact ⟨e', rfl⟩
    | ok x => cases x; rw [hacc.1 hc] at he; cases he

/-! #### the state vector: any permutation of any number of pairwise independent branches -/

open Jaqal.Emulator in
theorem indep_symm {R : Type} {a b : Option (Nat → Nat → R) × List Nat} (h : Indep a b) : Indep b a :=
  ⟨h.2.1, h.1, fun q hq hq' => h.2.2 q hq' hq⟩

open Jaqal.Emulator in
/-- **C13 (branch order, state vector; any number of branches, wherever the block sits).** The serialised gates of the
branches of a parallel block — in the body or in an expanded macro body: `pre` / `post` are whatever is executed before
and after — may be written in any order when the branches are pairwise independent (which the disjointness check
establishes, `C13_indep_of_disjoint`). -/
theorem C13_order_state_perm {R : Type} [CommSemiring R]
    (bs bs' : List (List (Option (Nat → Nat → R) × List Nat))) (hp : bs.Perm bs')
    (hind : bs.Pairwise (fun l₁ l₂ => ∀ a ∈ l₁, ∀ b ∈ l₂, Indep a b))
    (pre post : List (Option (Nat → Nat → R) × List Nat)) :
    runGatesFn (pre ++ bs'.flatten ++ post) = runGatesFn (pre ++ bs.flatten ++ post) := by
  induction hp generalizing pre with
  | nil => rfl
  | cons x _ ih =>
    have := ih (List.pairwise_cons.1 hind).2 (pre ++ x)
    simpa [List.flatten_cons, List.append_assoc] using this
  | swap x y l =>
    -- `y :: x :: l` against `x :: y :: l`
    obtain ⟨hy, _⟩ := List.pairwise_cons.1 hind
    have hyx : ∀ a ∈ y, ∀ b ∈ x, Indep a b := hy x List.mem_cons_self
    have := C03_interleave pre (l.flatten ++ post) y x (x ++ y) (interleave_swap y x) hyx
    simpa [List.flatten_cons, List.append_assoc] using this
  | trans h1 _ ih1 ih2 =>
    have hind2 := (h1.pairwise_iff (fun {l₁ l₂} h a ha b hb => indep_symm (h b hb a ha))).1 hind
    rw [ih2 hind2 pre, ih1 hind pre]

/-! ### `SpecOK` from the builder: `C13_exact_spec` for parser-produced circuits, unconditionally -/

mutual
  theorem stmtGates_spec (ms : List Macro) : ∀ (s : Stmt) (x : String × GateDef × List (String × Val)), x ∈ stmtGates s →
      x.2.1 ∈ Builder.gateDefsOf s ∧ (Builder.gateWF ms s → x.1 = x.2.1.name) ∧
        (FillIn.StmtIn s → ∀ a ∈ x.2.2, FillIn.InT a.2 = true)
    | .gate n gd args, x, hx => by
      simp only [stmtGates, List.mem_singleton] at hx
      subst hx
      exact ⟨by simp [Builder.gateDefsOf], fun hg => hg.1, fun ht => ht⟩
    | .block _ _ _ body, x, hx => by
      simp only [stmtGates] at hx
      obtain ⟨h1, h2, h3⟩ := stmtsGates_spec ms body x hx
      exact ⟨by simpa [Builder.gateDefsOf] using h1, fun hg => h2 (by simpa [Builder.gateWF] using hg),
        fun ht => h3 (by simp only [FillIn.StmtIn] at ht; exact ht.2)⟩
    | .loop _ b, x, hx => by
      simp only [stmtGates] at hx
      obtain ⟨h1, h2, h3⟩ := stmtGates_spec ms b x hx
      exact ⟨by simpa [Builder.gateDefsOf] using h1, fun hg => h2 (by simpa [Builder.gateWF] using hg),
        fun ht => h3 (by simp only [FillIn.StmtIn] at ht; exact ht.2)⟩
  theorem stmtsGates_spec (ms : List Macro) : ∀ (l : List Stmt) (x : String × GateDef × List (String × Val)),
      x ∈ stmtsGates l → x.2.1 ∈ Builder.gateDefsOfList l ∧ (Builder.gateWFL ms l → x.1 = x.2.1.name) ∧
        (FillIn.StmtsIn l → ∀ a ∈ x.2.2, FillIn.InT a.2 = true)
    | [], x, hx => by simp [stmtsGates] at hx
    | s :: r, x, hx => by
      simp only [stmtsGates, List.mem_append] at hx
      rcases hx with hx | hx
      · obtain ⟨h1, h2, h3⟩ := stmtGates_spec ms s x hx
        exact ⟨by simp [Builder.gateDefsOfList, h1], fun hg => h2 hg.1, fun ht => h3 ht.1⟩
      · obtain ⟨h1, h2, h3⟩ := stmtsGates_spec ms r x hx
        exact ⟨by simp [Builder.gateDefsOfList, h1], fun hg => h2 hg.2, fun ht => h3 ht.2⟩
end

/-- a typed value (`FillIn.InT`, what `built_typed` gives for every gate argument of a circuit built from text) is a `GoodArg` -/
theorem goodArg_of_InT {v : Val} (h : FillIn.InT v = true) : GoodArg v := by
  cases v with
  | int _ => trivial
  | flt _ => trivial
  | const n x => cases x <;> trivial
  | param _ _ => trivial
  | qubit n s i =>
    simp only [FillIn.InT, Bool.and_eq_true, Bool.or_eq_true] at h
    refine ⟨?_, ?_⟩
    · rcases h.1 with h1 | h1
      · cases s <;> first | exact h1 | simp [Builder.RegT] at h1
      · cases s <;> trivial
    · rcases h.2 with h1 | h1
      · obtain ⟨k, hk⟩ := isIntC_intOf h1
        cases i <;> first | trivial | exact ⟨k, hk⟩
      · cases i <;> trivial
  | regF n sz => exact (by simpa [FillIn.InT] using h : Builder.RegT (.regF n sz) = true)
  | regA n src => exact (by simpa [FillIn.InT] using h : Builder.RegT (.regA n src) = true)
  | regS n src a b c => exact (by simpa [FillIn.InT] using h : Builder.RegT (.regS n src a b c) = true)
  | none => simp [FillIn.InT, Builder.RegT] at h
  | str _ => simp [FillIn.InT, Builder.RegT] at h

/-- **`builder_specOK`.** A circuit `parse_jaqal_string` (no pass requested) makes of parser output satisfies `SpecOK`,
given only that the native gate definitions in force are not tagged as macros (in the by-value model a `GateDef` handed in
through the configuration could carry any tag; Python's are `GateDefinition` objects, never `Macro`s). -/
theorem builder_specOK (cfg : Builder.Config) (sx : Sx) (c : Circuit) (hp : Builder.ParserSx (Builder.BSx.ofSx sx))
    (h : Builder.parseBuild cfg sx = .ok c) (hnat : ∀ gd ∈ c.natives, gd.tag ≠ .macro) : SpecOK c := by
  have hb := Builder.parseBuild_build h
  obtain ⟨g, hk⟩ := Builder.built_known cfg _ c hb
  obtain ⟨hgb, hgm⟩ := Builder.built_gateShape _ _ _ hb
  have ht := Builder.built_typed cfg _ c hp hb
  have known : ∀ gd ∈ circuitDefs c, Builder.GKnown g gd := by
    intro gd hgd
    simp only [circuitDefs, List.mem_map, List.mem_append, List.mem_flatMap] at hgd
    obtain ⟨x, hx | ⟨m, hm, hx⟩, rfl⟩ := hgd
    · exact hk.body _ (stmtGates_spec c.macros c.body x hx).1
    · exact hk.macros m hm _ (stmtGates_spec c.macros m.body x hx).1
  have one : ∀ (s : Stmt), Builder.StmtKnown g s → Builder.gateWF c.macros s → FillIn.StmtIn s → ∀ x ∈ stmtGates s,
      (x.2.1.tag = .macro ↔ ExpandMacros.isMacro c.macros x.1 = true) ∧ ∀ a ∈ x.2.2, GoodArg a.2 := by
    intro s hks hgs hts x hx
    obtain ⟨h1, h2, h3⟩ := stmtGates_spec c.macros s x hx
    refine ⟨?_, fun a ha => goodArg_of_InT (h3 hts a ha)⟩
    rw [h2 hgs]
    exact hk.tag hnat (hks _ h1)
  exact ⟨fun a ha b hb hn => Builder.KnownTable.functional (known a ha) (known b hb) hn,
    one c.body hk.body hgb ht.body, fun m hm => one m.body (hk.macros m hm) (hgm m hm) (ht.macros m hm)⟩

/-- **C13_exact for parser-produced circuits, unconditionally**: for every circuit `parse_jaqal_string` returns on which
the used-qubit analysis and the specification's evaluation succeed, the analysis returns exactly the fundamental qubits
some gate application of the circuit's meaning acts on. -/
theorem C13_exact_parsed (cfg : Builder.Config) (sx : Sx) (c : Circuit) (hp : Builder.ParserSx (Builder.BSx.ofSx sx))
    (h : Builder.parseBuild cfg sx = .ok c) (hnat : ∀ gd ∈ c.natives, gd.tag ≠ .macro)
    (u allQ : Used) (sem : Sem.Sem) (hu : usedCircuit c = .ok u) (hq : allQubits c.registers = .ok allQ)
    (hs : Sem.evalStmt [] (Sem.denoteMacros [] c.macros) [] c.body = .ok sem) :
    ∀ r i, Mem u r i ↔ ∃ app ∈ sem.flat, ActsOn (circuitDefs c) allQ app r i :=
  C13_exact_spec c (Builder.parsed_wellFormed cfg sx c hp h) (builder_specOK cfg sx c hp h hnat) u allQ sem hu hq hs

/-! ### Non-vacuity -/
section Examples

def aliasA' : Val := .regS "a" R4 (.int 0) (.int 4) (.int 2)
def aliasB' : Val := .regS "b" aliasA' (.const "k" (.int 1)) (.int 2) (.int 1)
def gIdx : GateDef := gM "mg" ["g", "k"]

/-- `macro foo a b { X a }  macro bar b a { foo a b }  macro mg g k { X g[k] ; I_X g[0] }`
`bar r[0] r[2] ; mg a 1 ; RG b ; prepare_all` with `map a r[0:4:2]; map b a[k:2:1]`, `let k 1` -/
def e1 : Circuit := {
  registers := [R4, aliasA', aliasB'],
  macros := [
    { name := "foo", params := [("a", .none), ("b", .none)], body := seq [X (.param "a" .none)] },
    { name := "bar", params := [("b", .none), ("a", .none)],
      body := seq [.gate "foo" (gM "foo" ["a", "b"]) [("a", .param "a" .none), ("b", .param "b" .none)]] },
    { name := "mg", params := [("g", .none), ("k", .none)],
      body := seq [X (.qubit "g[k]" (.param "g" .none) (.param "k" .none)),
                   .gate "I_X" gIX [("q", .qubit "g[0]" (.param "g" .none) (.int 0))]] }],
  body := seq [.gate "bar" (gM "bar" ["b", "a"]) [("b", qv 0), ("a", qv 2)],
               .gate "mg" gIdx [("g", aliasA'), ("k", .int 1)],
               .gate "RG" gRG [("g", aliasB')],
               .gate "prepare_all" gP []] }

theorem e1_wellFormed : ExpandMacros.WellFormed e1 = true := by rfl

theorem goodIdx_of_intOf {v : Val} {k : Int} (h : intOf v = some k) : GoodIdx v := by
  cases v <;> first | trivial | exact ⟨k, h⟩

theorem e1_specOK : SpecOK e1 := by
  refine ⟨by unfold Functional; decide, ?_, ?_⟩
  · intro x hx
    simp only [e1, seq, stmtGates, stmtsGates, List.append_nil, List.cons_append, List.nil_append, List.mem_cons,
      List.not_mem_nil, or_false] at hx
    rcases hx with rfl | rfl | rfl | rfl
    · refine ⟨by decide, ?_⟩
      intro a ha
      simp only [List.mem_cons, List.not_mem_nil, or_false] at ha
      rcases ha with rfl | rfl <;> exact ⟨(by show Builder.RegT R4 = true; rfl), goodIdx_of_intOf rfl⟩
    · refine ⟨by decide, ?_⟩
      intro a ha
      simp only [List.mem_cons, List.not_mem_nil, or_false] at ha
      rcases ha with rfl | rfl
      · show Builder.RegT aliasA' = true; rfl
      · trivial
    · refine ⟨by decide, ?_⟩
      intro a ha
      simp only [List.mem_cons, List.not_mem_nil, or_false] at ha
      subst ha
      show Builder.RegT aliasB' = true; rfl
    · exact ⟨by decide, by simp⟩
  · intro m hm x hx
    simp only [e1, List.mem_cons, List.not_mem_nil, or_false] at hm
    rcases hm with rfl | rfl | rfl
    · simp only [seq, X, stmtGates, stmtsGates, List.append_nil, List.mem_cons, List.not_mem_nil, or_false] at hx
      subst hx
      refine ⟨by decide, ?_⟩
      intro a ha
      simp only [List.mem_cons, List.not_mem_nil, or_false] at ha
      subst ha; trivial
    · simp only [seq, stmtGates, stmtsGates, List.append_nil, List.mem_cons, List.not_mem_nil, or_false] at hx
      subst hx
      refine ⟨by decide, ?_⟩
      intro a ha
      simp only [List.mem_cons, List.not_mem_nil, or_false] at ha
      rcases ha with rfl | rfl <;> trivial
    · simp only [seq, X, stmtGates, stmtsGates, List.append_nil, List.cons_append, List.nil_append, List.mem_cons,
        List.not_mem_nil, or_false] at hx
      rcases hx with rfl | rfl
      · refine ⟨by decide, ?_⟩
        intro a ha
        simp only [List.mem_cons, List.not_mem_nil, or_false] at ha
        subst ha; exact ⟨trivial, trivial⟩
      · refine ⟨by decide, ?_⟩
        intro a ha
        simp only [List.mem_cons, List.not_mem_nil, or_false] at ha
        subst ha; exact ⟨trivial, goodIdx_of_intOf rfl⟩

example : usedCircuit e1 = .ok [("r", [2, 0, 1, 3])] := by rfl
example : (Sem.evalStmt [] (Sem.denoteMacros [] e1.macros) [] e1.body).map Sem.Sem.flat =
    .ok [("X", [.qubit ("r", 2)]), ("X", [.qubit ("r", 2)]), ("I_X", [.qubit ("r", 0)]), ("RG", [.reg [("r", 2)]]),
         ("prepare_all", [])] := by rfl

/-- the theorem applied: every hypothesis of `C13_exact_spec` holds on `e1` (nested macros swapping parameter names, a
register parameter indexed by an integer parameter, a strided alias, an alias of an alias with a let bound, a register
argument, an idle and a busy gate) -/
example : ∀ r i, Mem [("r", [2, 0, 1, 3])] r i ↔
    ∃ app ∈ ([("X", [.qubit ("r", 2)]), ("X", [.qubit ("r", 2)]), ("I_X", [.qubit ("r", 0)]), ("RG", [.reg [("r", 2)]]),
              ("prepare_all", [])] : List Sem.GateApp),
      ActsOn (circuitDefs e1) [("r", [0, 1, 2, 3])] app r i :=
  C13_exact_spec e1 e1_wellFormed e1_specOK [("r", [2, 0, 1, 3])] [("r", [0, 1, 2, 3])]
    (.blk false false 1 [.blk false false 1 [.blk false false 1 [.gate "X" [.qubit ("r", 2)]]],
      .blk false false 1 [.gate "X" [.qubit ("r", 2)], .gate "I_X" [.qubit ("r", 0)]],
      .gate "RG" [.reg [("r", 2)]], .gate "prepare_all" []])
    (by rfl) (by rfl) (by rfl)

/-- a parallel block INSIDE a macro body: `macro mp a b { < X a | X b | { X r[3] } > }  mp r[0] r[1]`, and the same
with the branches rotated -/
def mpBody (l : List Stmt) : Stmt := seq [par l]
def e2 (l : List Stmt) : Circuit := {
  registers := [R4],
  macros := [{ name := "mp", params := [("a", .none), ("b", .none)], body := mpBody l }],
  body := seq [.gate "mp" (gM "mp" ["a", "b"]) [("a", qv 0), ("b", qv 1)]] }
def brs : List Stmt := [X (.param "a" .none), X (.param "b" .none), seq [X (qv 3)]]
def brs' : List Stmt := [seq [X (qv 3)], X (.param "a" .none), X (.param "b" .none)]

example : PermParC (e2 brs) (e2 brs') :=
  ⟨.refl _,
   .cons ⟨rfl, rfl, PermPar.inBlock (pre := []) (post := [])
     (PermPar.here (List.perm_append_comm (l₁ := [X (.param "a" .none), X (.param "b" .none)]) (l₂ := [seq [X (qv 3)]])))⟩ .nil,
   rfl⟩
example : usedCircuit (e2 brs) = .ok [("r", [0, 1, 3])] := by rfl
example : usedCircuit (e2 brs') = .ok [("r", [3, 0, 1])] := by rfl
example : checkDisjoint (e2 brs) = .ok () ∧ checkDisjoint (e2 brs') = .ok () := ⟨by rfl, by rfl⟩

/-- `builder_specOK` / `parsed_wellFormed` on an accepted program (`C14`'s `progOK`: a register, a reversed strided alias, a
macro and a call through the alias, anonymous gates): every hypothesis of `C13_exact_parsed` about the circuit holds -/
theorem Builder.progOKnat : ((Builder.parseBuild {} Builder.progOK).toOption.map (·.natives)) = some [] := by decide

theorem Builder.progOKsx : Builder.ParserSx (Builder.BSx.ofSx Builder.progOK) :=
  ⟨_, rfl, by decide⟩

example : ∃ c, Builder.parseBuild {} Builder.progOK = .ok c ∧ SpecOK c ∧ ExpandMacros.WellFormed c = true := by
  cases h : Builder.parseBuild {} Builder.progOK with
  | error e => have := Builder.progOKnat; rw [h] at this; cases this
  | ok c =>
    have hn : c.natives = [] := by
      have := Builder.progOKnat; rw [h] at this; simpa [Except.toOption] using this
    exact ⟨c, rfl, builder_specOK {} _ c Builder.progOKsx h (by rw [hn]; intro gd hgd; cases hgd),
      Builder.parsed_wellFormed {} _ c Builder.progOKsx h⟩

end Examples

end Jaqal.UsedQubits

#print axioms Jaqal.UsedQubits.C13_exact_spec_stmt
#print axioms Jaqal.UsedQubits.C13_exact_spec
#print axioms Jaqal.UsedQubits.C13_exact_bridge
#print axioms Jaqal.UsedQubits.builder_specOK
#print axioms Jaqal.UsedQubits.C13_exact_parsed
#print axioms Jaqal.UsedQubits.C13_orderC_used
#print axioms Jaqal.UsedQubits.C13_orderC_accept
#print axioms Jaqal.UsedQubits.C13_orderC_reject
#print axioms Jaqal.UsedQubits.C13_order_state_perm
