import Mathlib.Data.List.Forall2
import Mathlib.Data.List.Perm.Basic
import JaqalModel.Model.GateDef
import JaqalModel.Model.Emulator
import JaqalProofs.Lemmas.GateDef
import JaqalProofs.Lemmas.GateDefSets
import JaqalProofs.Props.C03
/-!
# C18 — gate definitions check calls; idle and stretched variants

Model: `JaqalModel/Model/GateDef.lean` (`Parameter.validate`, `AbstractGate.call`, `add_idle_gates`,
`stretched_gates`, the emulator's per-gate argument split).

* `C18_fits_table`   — `fits` (= `Parameter.validate` does not raise) is the specification table `FitsSpec`
* `C18_accept`       — a positional call is accepted iff the parameter names are distinct, the arity matches and
                       every argument fits its parameter's kind; the statement it returns
* `C18_kw`, `C18_kw_conv` — keyword arguments in any order give the result of the positional call, and every accepted
                       keyword call is such a positional call; `C18_mixed` — mixed calls are rejected
* `C18_reject_class` — a rejected call (positional, keyword, mixed) is rejected with `JaqalError`, never another class
                       (`C18_reject_class_old_counterexample`: the `AttributeError` of the code before commit c898fbf)
* `C18_idle*`        — `add_idle_gates`: what the dictionary contains, in which order; the idle gate has the same
                       parameters, no used qubits, no unitary, and no effect on the emulator's state (`C03_idle`)
* `C18_stretch*`     — a stretched gate has its parent's parameters plus a trailing `stretch : FLOAT`, and its unitary
                       on `args ++ [s]` is its own parent's on `args`, for every `s`; what `stretched_gates` returns
* `C18_stretch_late_binding_counterexample` — the wrapper that closed over the loop variable (before the repair)
                       violates `C18_stretch` on a two-gate set
-/
namespace Jaqal.GateDef

/-! ## The specification table (independent of `validate`) -/

/-- the number a `Constant` stands for, through constants defined by constants -/
def constNum? : Val → Option Num
  | .int i => some (.int i)
  | .flt d => some (.flt d)
  | .const _ v => constNum? v
  | _ => none

/-- the number is an integer: an `int`, or a float with an integral value -/
def Integral : Num → Prop
  | .int _ => True
  | .flt d => d.isIntegral = true

/-- **Specification.** Which values fit a parameter of which kind.
* qubit: a qubit, or a parameter of kind qubit / untyped
* register: a register (fundamental, alias, slice), or a parameter of kind register / untyped
* float: any number, any numeric constant, parameters of kind int / float / untyped
* integer: ints, integral floats, constants with an integral value, parameters of kind int / untyped
* untyped: anything -/
inductive FitsSpec : Kind → Val → Prop
  | untyped (v : Val) : FitsSpec .none v
  | qubit (n : String) (s i : Val) : FitsSpec .qubit (.qubit n s i)
  | qubitParam (n : String) (k : Kind) : k = .qubit ∨ k = .none → FitsSpec .qubit (.param n k)
  | regF (n : String) (s : Val) : FitsSpec .register (.regF n s)
  | regA (n : String) (s : Val) : FitsSpec .register (.regA n s)
  | regS (n : String) (s a b c : Val) : FitsSpec .register (.regS n s a b c)
  | regParam (n : String) (k : Kind) : k = .register ∨ k = .none → FitsSpec .register (.param n k)
  | floatInt (i : Int) : FitsSpec .float (.int i)
  | floatFlt (d : Dec) : FitsSpec .float (.flt d)
  | floatConst (n : String) (x : Val) (num : Num) : constNum? x = some num → FitsSpec .float (.const n x)
  | floatParam (n : String) (k : Kind) : k = .int ∨ k = .float ∨ k = .none → FitsSpec .float (.param n k)
  | intInt (i : Int) : FitsSpec .int (.int i)
  | intFlt (d : Dec) : d.isIntegral = true → FitsSpec .int (.flt d)
  | intConst (n : String) (x : Val) (num : Num) : constNum? x = some num → Integral num → FitsSpec .int (.const n x)
  | intParam (n : String) (k : Kind) : k = .int ∨ k = .none → FitsSpec .int (.param n k)

theorem constKind_spec (x : Val) :
    (∃ i, constNum? x = some (.int i) ∧ constKind x = .int ∧ constIntegral x = true) ∨
    (∃ d, constNum? x = some (.flt d) ∧ constKind x = .float ∧ constIntegral x = d.isIntegral) ∨
    (constNum? x = none ∧ constKind x = .none) := by
  induction x with
  | int v => left; exact ⟨v, rfl, rfl, rfl⟩
  | flt d => right; left; exact ⟨d, rfl, rfl, rfl⟩
  | const n v ih => simpa [constNum?, constKind, constIntegral] using ih
  | _ => right; right; exact ⟨rfl, rfl⟩

/-- **C18 (table).** `Parameter(kind).validate(value)` accepts exactly the values of the specification
table — for every kind and every value. -/
theorem C18_fits_table (k : Kind) (v : Val) : fits k v = true ↔ FitsSpec k v := by
  constructor
  · intro h
    cases v with
    | const n x =>
      rcases constKind_spec x with ⟨i, h1, h2, h3⟩ | ⟨d, h1, h2, h3⟩ | ⟨h1, h2⟩
      · cases k <;>
        simp [fits, validate, isNamedQubit, isRegister, avKindIn, avKind?, Val.isNum, typeErr,
          pure, Except.pure, throw, throwThe, MonadExceptOf.throw, h2, h3] at h <;>
        first
          | exact .untyped _
          | exact .floatConst _ _ _ h1
          | exact .intConst _ _ _ h1 trivial
      · cases k <;>
        simp [fits, validate, isNamedQubit, isRegister, avKindIn, avKind?, Val.isNum, typeErr,
          pure, Except.pure, throw, throwThe, MonadExceptOf.throw, h2, h3] at h <;>
        first
          | exact .untyped _
          | exact .floatConst _ _ _ h1
          | exact .intConst _ _ _ h1 (by
              cases hd : d.isIntegral with
              | true => exact hd
              | false => simp [hd] at h)
      · cases k <;>
        simp [fits, validate, isNamedQubit, isRegister, avKindIn, avKind?, Val.isNum, typeErr,
          pure, Except.pure, throw, throwThe, MonadExceptOf.throw, h2] at h <;>
        exact .untyped _
    | param n kk =>
      cases k <;> cases kk <;>
      simp [fits, validate, isNamedQubit, isRegister, avKindIn, avKind?, Val.isNum, typeErr,
        pure, Except.pure, throw, throwThe, MonadExceptOf.throw] at h <;>
      first
        | exact .untyped _
        | exact .qubitParam _ _ (by simp)
        | exact .regParam _ _ (by simp)
        | exact .floatParam _ _ (by simp)
        | exact .intParam _ _ (by simp)
    | flt d =>
      cases k <;>
      simp [fits, validate, isNamedQubit, isRegister, avKindIn, avKind?, Val.isNum, typeErr,
        pure, Except.pure, throw, throwThe, MonadExceptOf.throw] at h <;>
      first
        | exact .untyped _
        | exact .floatFlt _
        | exact .intFlt _ (by
            cases hd : d.isIntegral with
            | true => rfl
            | false => simp [hd] at h)
    | _ =>
      cases k <;>
      simp [fits, validate, isNamedQubit, isRegister, avKindIn, avKind?, Val.isNum, typeErr,
        pure, Except.pure, throw, throwThe, MonadExceptOf.throw] at h <;>
      first
        | exact .untyped _ | exact .qubit _ _ _ | exact .regF _ _ | exact .regA _ _ | exact .regS _ _ _ _ _
        | exact .floatInt _ | exact .intInt _
  · intro h
    cases h with
    | floatConst n x num h1 =>
      rcases constKind_spec x with ⟨i, g1, g2, g3⟩ | ⟨d, g1, g2, g3⟩ | ⟨g1, g2⟩ <;>
      simp [fits, validate, avKindIn, avKind?, Val.isNum, pure, Except.pure, g2, g1] at h1 ⊢
    | intConst n x num h1 hi =>
      rcases constKind_spec x with ⟨i, g1, g2, g3⟩ | ⟨d, g1, g2, g3⟩ | ⟨g1, g2⟩
      · simp [fits, validate, avKindIn, avKind?, pure, Except.pure, g2]
      · rw [g1] at h1; cases h1
        simp only [Integral] at hi
        simp [fits, validate, avKindIn, avKind?, pure, Except.pure, g2, g3, hi]
      · rw [g1] at h1; cases h1
    | qubitParam n k hk => rcases hk with rfl | rfl <;> simp [fits, validate, isNamedQubit, avKindIn, avKind?, pure, Except.pure]
    | regParam n k hk => rcases hk with rfl | rfl <;> simp [fits, validate, isRegister, avKindIn, avKind?, pure, Except.pure]
    | floatParam n k hk => rcases hk with rfl | rfl | rfl <;> simp [fits, validate, Val.isNum, avKindIn, avKind?, pure, Except.pure]
    | intParam n k hk => rcases hk with rfl | rfl <;> simp [fits, validate, avKindIn, avKind?, pure, Except.pure]
    | intFlt d hd => simp [fits, validate, hd, pure, Except.pure]
    | _ => simp [fits, validate, isNamedQubit, isRegister, Val.isNum, pure, Except.pure]

/-! ## Calls -/


theorem callPos_ok_iff (gd : GateDef) (args : List Val) (s : Stmt) :
    callPos gd args = .ok s ↔
      (gd.params.map (·.1)).Nodup ∧ List.Forall₂ (fun p a => fits p.2 a = true) gd.params args ∧
      s = .gate gd.name gd ((gd.params.map (·.1)).zip args) := by
  unfold callPos
  by_cases hlen : args.length > gd.params.length
  · simp only [hlen, ↓reduceIte, bind, Except.bind, throw, throwThe, MonadExceptOf.throw, reduceCtorEq, false_iff,
      not_and]
    intro _ hf
    have := hf.length_eq
    omega
  · simp only [hlen, ↓reduceIte, pure, Except.pure, bind, Except.bind]
    rw [finish_ok_iff]
    have hz : ((gd.params.map (·.1)).zip args).length = args.length := by
      simp only [List.length_zip, List.length_map]; omega
    constructor
    · rintro ⟨h1, h2, h3⟩
      have hle := length_odUpdate_le [] ((gd.params.map (·.1)).zip args)
      simp only [List.length_nil, Nat.zero_add] at hle
      have hal : args.length = gd.params.length := by omega
      have hnd := (nodup_of_length_odUpdate [] ((gd.params.map (·.1)).zip args) (by simp; omega)).1
      rw [keys_zip _ _ (by simpa using hal)] at hnd
      have hb : odUpdate [] ((gd.params.map (·.1)).zip args) = (gd.params.map (·.1)).zip args := by
        rw [odUpdate_fresh] <;> simp [keys_zip _ _ (show args.length = (gd.params.map (·.1)).length by simpa using hal), hnd]
      rw [hb] at h2 h3
      refine ⟨hnd, ?_, h3⟩
      rw [validateAll_ok_iff] at h2
      exact (forall_zip_iff (fun k a => fits k a = true) gd.params args hal hnd).mp h2
    · rintro ⟨hnd, hf, rfl⟩
      have hal : args.length = gd.params.length := hf.length_eq.symm
      have hb : odUpdate [] ((gd.params.map (·.1)).zip args) = (gd.params.map (·.1)).zip args := by
        rw [odUpdate_fresh] <;> simp [keys_zip _ _ (show args.length = (gd.params.map (·.1)).length by simpa using hal), hnd]
      rw [hb]
      refine ⟨by omega, ?_, rfl⟩
      rw [validateAll_ok_iff]
      exact (forall_zip_iff (fun k a => fits k a = true) gd.params args hal hnd).mpr hf

/-- **C18 (acceptance).** A positional call is accepted exactly when the definition's parameter names are
distinct (a definition with a repeated name can never be called) and the arguments match the parameters one
to one (same number), each fitting the declared kind. -/
theorem C18_accept (gd : GateDef) (args : List Val) :
    (∃ s, callPos gd args = .ok s) ↔
      (gd.params.map (·.1)).Nodup ∧ List.Forall₂ (fun p a => fits p.2 a = true) gd.params args := by
  constructor
  · rintro ⟨s, h⟩; exact ⟨((callPos_ok_iff gd args s).mp h).1, ((callPos_ok_iff gd args s).mp h).2.1⟩
  · rintro ⟨h1, h2⟩; exact ⟨_, (callPos_ok_iff gd args _).mpr ⟨h1, h2, rfl⟩⟩

/-- The same with explicit positions: the number of arguments matches and the `i`-th argument fits the `i`-th
parameter's kind. -/
theorem C18_accept_index (gd : GateDef) (args : List Val) :
    (∃ s, callPos gd args = .ok s) ↔
      (gd.params.map (·.1)).Nodup ∧ args.length = gd.params.length ∧
      ∀ (i : Nat) (h1 : i < gd.params.length) (h2 : i < args.length), fits (gd.params[i]).2 args[i] = true := by
  rw [C18_accept, List.forall₂_iff_get]
  constructor
  · rintro ⟨h, hl, hf⟩; exact ⟨h, hl.symm, fun i h1 h2 => hf i h1 h2⟩
  · rintro ⟨h, hl, hf⟩; exact ⟨h, hl.symm, fun i h1 h2 => hf i h1 h2⟩

/-- The statement an accepted call returns: the gate's name, the definition, the arguments bound to the
parameter names in order. -/
theorem C18_accept_stmt (gd : GateDef) (args : List Val) (s : Stmt) (h : callPos gd args = .ok s) :
    s = .gate gd.name gd ((gd.params.map (·.1)).zip args) :=
  ((callPos_ok_iff gd args s).mp h).2.2

/-- `Parameter.validate` fails only with the `JaqalError` of a failed type check. -/
theorem validate_error_cls (k : Kind) (v : Val) (e : Err) (h : validate k v = .error e) : e = typeErr := by
  cases k <;> cases v <;>
    simp [validate, isNamedQubit, isRegister, avKindIn, avKind?, Val.isNum, pure, Except.pure, throw, throwThe,
      MonadExceptOf.throw] at h <;> (try split at h) <;> (try split at h) <;> (try split at h) <;> (try split at h) <;> simp_all

/-- **C18 (keyword = positional).** With distinct parameter names, passing the arguments by keyword — in any
order — gives exactly the result of the positional call (the same statement, or the same error). -/
theorem C18_kw (gd : GateDef) (args : List Val) (kw : List (String × Val))
    (hn : (gd.params.map (·.1)).Nodup) (hl : args.length = gd.params.length)
    (hp : kw.Perm ((gd.params.map (·.1)).zip args)) :
    callKw gd kw = callPos gd args := by
  have hkeys : ((gd.params.map (·.1)).zip args).map (·.1) = (gd.params.map (·.1)) := keys_zip _ _ (by simpa using hl)
  have hkn : (kw.map (·.1)).Nodup := by
    exact (hp.map (·.1)).nodup_iff.mpr (by rw [hkeys]; exact hn)
  have hdup : hasDupKey kw = false := (hasDupKey_eq_false_iff kw).mpr hkn
  unfold callKw callPos
  simp only [hdup, Bool.false_eq_true, ↓reduceIte, pure, Except.pure, bind, Except.bind, show ¬ args.length > gd.params.length by omega]
  by_cases he : kw.isEmpty = true
  · have : kw = [] := List.isEmpty_iff.mp he
    subst this
    have hz : (gd.params.map (·.1)).zip args = [] := hp.symm.eq_nil
    simp [hz, odUpdate]
  · simp only [he, Bool.false_eq_true, ↓reduceIte]
    have hk : ∀ x ∈ (gd.params.map (·.1)).zip args, odGet? kw x.1 = some x.2 := by
      intro x hx
      exact odGet?_of_mem_nodup kw x.1 x.2 hkn (hp.symm.subset hx)
    rw [popAll_ok gd.params args kw [] hl hn hk]
    have hrest : kw.filter (fun e => e.1 ∉ gd.params.map (·.1)) = [] := by
      rw [List.filter_eq_nil_iff]
      intro e he'
      have : e ∈ (gd.params.map (·.1)).zip args := hp.subset he'
      have := (List.of_mem_zip (a := e.1) (b := e.2) this).1
      simpa using this
    rw [hrest]; rfl

/-- **C18 (keyword = positional, converse).** Every accepted keyword call is the positional call of the same
arguments put in parameter order: a keyword call cannot produce anything a positional call does not. -/
theorem C18_kw_conv (gd : GateDef) (kw : List (String × Val)) (s : Stmt) (h : callKw gd kw = .ok s) :
    ∃ args, callPos gd args = .ok s ∧ kw.Perm ((gd.params.map (·.1)).zip args) := by
  unfold callKw at h
  by_cases hd : hasDupKey kw = true
  · simp [hd, bind, Except.bind, throw, throwThe, MonadExceptOf.throw] at h
  have hkn : (kw.map (·.1)).Nodup := (hasDupKey_eq_false_iff kw).mp (by simpa using hd)
  simp only [hd, Bool.false_eq_true, ↓reduceIte, pure, Except.pure, bind, Except.bind] at h
  by_cases he : kw.isEmpty = true
  · have : kw = [] := List.isEmpty_iff.mp he
    subst this
    simp only [List.isEmpty_nil, ↓reduceIte] at h
    have hl := ((finish_ok_iff gd [] s).mp h).1
    have hp : gd.params = [] := List.eq_nil_of_length_eq_zero (by simpa using hl)
    refine ⟨[], ?_, by simp [hp]⟩
    unfold callPos
    simpa [hp, odUpdate, bind, Except.bind, pure, Except.pure] using h
  · simp only [he, Bool.false_eq_true, ↓reduceIte] at h
    cases hpop : popAll gd.params kw [] with
    | error e => simp [hpop] at h
    | ok br =>
      obtain ⟨b, rest⟩ := br
      simp only [hpop] at h
      obtain ⟨hn, args, hl, hk⟩ := popAll_inv gd.params kw [] b rest hpop
      rw [popAll_ok gd.params args kw [] hl hn hk] at hpop
      simp only [Except.ok.injEq, Prod.mk.injEq] at hpop
      obtain ⟨hb, hr⟩ := hpop
      subst hb
      by_cases hre : rest.isEmpty = true
      · have hrest : rest = [] := List.isEmpty_iff.mp hre
        subst hrest
        simp only [List.isEmpty_nil, Bool.not_true, Bool.false_eq_true, ↓reduceIte] at h
        refine ⟨args, ?_, ?_⟩
        · unfold callPos
          simp only [show ¬ args.length > gd.params.length by omega, ↓reduceIte, pure, Except.pure, bind, Except.bind]
          exact h
        · have hzn : (((gd.params.map (·.1)).zip args).map (·.1)).Nodup := by
            rw [keys_zip _ _ (by simpa using hl)]; exact hn
          apply (List.perm_ext_iff_of_nodup (hkn.of_map _) (hzn.of_map _)).mpr
          intro e
          constructor
          · intro hek
            have hin : e.1 ∈ gd.params.map (·.1) := by
              have := List.filter_eq_nil_iff.mp hr e hek
              simpa using this
            obtain ⟨a, ha⟩ := mem_keys_zip _ args (by simpa using hl) e.1 hin
            have h1 := mem_of_odGet? kw e.1 a (hk _ ha)
            have h2 := odGet?_of_mem_nodup kw e.1 a hkn h1
            have h3 := odGet?_of_mem_nodup kw e.1 e.2 hkn hek
            rw [h2] at h3
            cases h3
            exact ha
          · intro hez
            exact mem_of_odGet? kw e.1 e.2 (hk e hez)
      · simp [hre, throw, throwThe, MonadExceptOf.throw] at h

/-- A call mixing positional and keyword arguments is always rejected with a `JaqalError`. -/
theorem C18_mixed (gd : GateDef) (args : List Val) (kw : List (String × Val)) :
    ∃ r, callMixed gd args kw = .error (.jaqal r) := ⟨_, rfl⟩

/-! ## Idle gates -/
section Idle
variable {U : Type}

/-- **C18 (idle, exact, general).** `add_idle_gates` performs, in the order of the input dictionary, the writes
`key ↦ gate` and — unless the gate is called `prepare_all` / `measure_all` — `"I_" ++ name ↦ IdleGateDefinition(gate)`
(`idleWrites`); by `odGet?_odUpdate` a key holds the LAST value written to it and sits at the position of its
FIRST write. -/
theorem C18_idle_writes (s : GateSet U) : addIdleGates s = odUpdate [] (idleWrites s) := addIdleGates_eq s

theorem C18_idle_lookup (s : GateSet U) (k : String) :
    odGet? (addIdleGates s) k = odGet? (idleWrites s).reverse k := by
  rw [addIdleGates_eq, odGet?_odUpdate]
  cases odGet? (idleWrites s).reverse k <;> rfl

/-- **C18 (idle, exact).** When the written keys are pairwise distinct (the keys of the input, and the idle names
they give rise to), the result is exactly: each gate followed by its idle gate, in input order. -/
theorem C18_idle_exact (s : GateSet U) (h : ((idleWrites s).map (·.1)).Nodup) :
    addIdleGates s = idleWrites s := by
  rw [addIdleGates_eq, odUpdate_fresh _ _ h (by simp)]; rfl

/-- **C18 (idle).** For every gate of the set other than `prepare_all` / `measure_all` the result holds, under
`"I_" ++ name`, an idle gate with the same parameter list, the gate as parent, no used qubits and no unitary;
the gate itself is kept under its key. -/
theorem C18_idle (s : GateSet U) (h : ((idleWrites s).map (·.1)).Nodup) (e : String × GDef U) (he : e ∈ s)
    (hs : isSpecial e.2.name = false) :
    odGet? (addIdleGates s) e.1 = some e.2 ∧
    odGet? (addIdleGates s) ("I_" ++ e.2.name) = some (idleOf e.2) ∧
    (idleOf e.2).name = "I_" ++ e.2.name ∧ (idleOf e.2).params = e.2.params ∧ (idleOf e.2).parent? = some e.2 ∧
    usedQubits (idleOf e.2) = [] ∧ (idleOf e.2).unitary = none ∧ (idleOf e.2).tag = .idle := by
  rw [C18_idle_exact s h]
  refine ⟨?_, ?_, rfl, rfl, rfl, rfl, rfl, rfl⟩
  · apply odGet?_of_mem_nodup _ _ _ h
    exact List.mem_flatMap.mpr ⟨e, he, by simp [idleWritesOf]⟩
  · apply odGet?_of_mem_nodup _ _ _ h
    exact List.mem_flatMap.mpr ⟨e, he, by simp [idleWritesOf, hs]⟩

/-- `prepare_all` and `measure_all` get no idle gate: every idle gate of the result was already in the input or is
the idle gate of an input gate with another name. -/
theorem C18_idle_special (s : GateSet U) (e : String × GDef U) (he : e ∈ addIdleGates s) :
    e ∈ s ∨ ∃ e' ∈ s, isSpecial e'.2.name = false ∧ e = ("I_" ++ e'.2.name, idleOf e'.2) := by
  rw [addIdleGates_eq] at he
  rcases mem_odUpdate _ _ _ he with h | h
  · simp at h
  · obtain ⟨e', he', h⟩ := List.mem_flatMap.mp h
    unfold idleWritesOf at h
    by_cases hs : isSpecial e'.2.name = true
    · simp only [hs, ↓reduceIte, List.mem_singleton] at h; left; exact h ▸ he'
    · simp only [hs, Bool.false_eq_true, ↓reduceIte, List.mem_cons, List.not_mem_nil, or_false] at h
      rcases h with h | h
      · left; exact h ▸ he'
      · right; exact ⟨e', he', by simpa using hs, h⟩

/-- The emulator skips an idle gate (it has no unitary) … -/
theorem C18_idle_emu (qidx : Val → M Nat) (g : GDef U) (vals : List Val) :
    emuEntry qidx (idleOf g) vals = .ok (none, []) := rfl

/-- … so (by `C03_idle`) an idle gate anywhere in a subcircuit has no effect on the state: the state after
`pre ++ [idle gate] ++ post` is the state after `pre ++ post`. -/
theorem C18_idle_state {R : Type} [Add R] [Mul R] [Zero R] [One R] (qidx : Val → M Nat) (g : GDef (Nat → Nat → R))
    (vals : List Val) (entry : Option (Nat → Nat → R) × List Nat) (h : emuEntry qidx (idleOf g) vals = .ok entry)
    (pre post : List (Option (Nat → Nat → R) × List Nat)) :
    Emulator.runGatesFn (pre ++ entry :: post) = Emulator.runGatesFn (pre ++ post) := by
  rw [C18_idle_emu] at h
  cases h
  exact Emulator.C03_idle_step pre post []

end Idle

/-! ## Stretched gates -/
section Stretch
variable {U : Type}

/-- **C18 (stretch, one gate).** The stretched copy of a gate: the name gets the suffix, the class is kept, the parameter
list is the parent's plus a trailing `stretch : FLOAT`, and the unitary — present iff the parent has one — applied to
`args ++ [s]` is the PARENT'S OWN unitary applied to `args`, for every value `s` of the stretch factor. -/
theorem C18_stretch_gate (sfx : Option String) (g : GDef U) :
    (stretchOf sfx g).name = g.name ++ sfxStr sfx ∧
    (stretchOf sfx g).tag = g.tag ∧
    (stretchOf sfx g).params = g.params ++ [("stretch", Kind.float)] ∧
    (g.unitary = none → (stretchOf sfx g).unitary = none) ∧
    (∀ u, g.unitary = some u → ∃ u', (stretchOf sfx g).unitary = some u' ∧ ∀ args s, u' (args ++ [s]) = u args) := by
  refine ⟨stretchOf_name sfx g, stretchOf_tag sfx g, stretchOf_params sfx g, ?_, ?_⟩
  · intro h; rw [stretchOf_unitary, h]; rfl
  · intro u h
    refine ⟨dropStretch u, by rw [stretchOf_unitary, h]; rfl, ?_⟩
    intro args s
    simp [dropStretch]

theorem splitArgs_stretch (qidx : Val → M Nat) (ps : List (String × Kind)) (vals : List Val) (s : Val)
    (hl : vals.length = ps.length) :
    splitArgs qidx (ps ++ [stretchParam]) (vals ++ [s]) =
      (splitArgs qidx ps vals).map (fun r => (r.1 ++ [s], r.2)) := by
  induction ps generalizing vals with
  | nil =>
    cases vals with
    | nil => rfl
    | cons v vs => simp at hl
  | cons p ps ih =>
    cases vals with
    | nil => simp at hl
    | cons v vs =>
      simp only [List.length_cons, Nat.add_right_cancel_iff] at hl
      simp only [List.cons_append, splitArgs, ih vs hl]
      cases classical p.2 with
      | error e => rfl
      | ok c =>
        cases c with
        | true =>
          cases splitArgs qidx ps vs with
          | error e => rfl
          | ok r => rfl
        | false =>
          cases qidx v with
          | error e => rfl
          | ok i =>
            cases splitArgs qidx ps vs with
            | error e => rfl
            | ok r => rfl

/-- **C18 (stretch, action).** In the emulator a statement of the stretched gate with arguments `vals ++ [s]` is
applied as the same matrix on the same qubits as the parent's statement with arguments `vals` — whatever `s` is. -/
theorem C18_stretch_emu (qidx : Val → M Nat) (sfx : Option String) (g : GDef U) (vals : List Val) (s : Val)
    (hl : vals.length = g.params.length) :
    emuEntry qidx (stretchOf sfx g) (vals ++ [s]) = emuEntry qidx g vals := by
  unfold emuEntry
  rw [stretchOf_unitary, stretchOf_params]
  cases hu : g.unitary with
  | none => rfl
  | some u =>
    simp only [Option.map_some, splitArgs_stretch qidx g.params vals s hl]
    cases splitArgs qidx g.params vals with
    | error e => rfl
    | ok r => simp [Except.map, bind, Except.bind, pure, Except.pure, dropStretch]

theorem stretchedGates_false (sfx : Option String) (gs : GateSet U) :
    stretchedGates sfx false gs = stretchLoop sfx (gs.map (·.2)) [] := by
  unfold stretchedGates
  cases stretchLoop sfx (gs.map (·.2)) [] <;> rfl

/-- `update=True`: the new gates are written over the input dictionary (`gates.update(new_gates)`). -/
theorem C18_stretch_update (sfx : Option String) (gs : GateSet U) :
    stretchedGates sfx true gs = (stretchedGates sfx false gs).map (odUpdate gs) := by
  unfold stretchedGates
  cases stretchLoop sfx (gs.map (·.2)) [] <;> rfl

/-- **C18 (stretch, soundness; no hypothesis on the gate set).** Every entry of the result is keyed by a distinct
key and is either the stretched copy of a source (a non-idle member, or the parent of an idle member), keyed by its
name, or the idle gate built on the stretched copy of the parent of an idle member `g`, keyed `g.name ++ suffix`. -/
theorem C18_stretch_sound (sfx : Option String) (gs : GateSet U) (r : GateSet U)
    (h : stretchedGates sfx false gs = .ok r) :
    (r.map (·.1)).Nodup ∧
    ∀ e ∈ r, ∃ g ∈ gs.map (·.2),
      e = ((source g).name ++ sfxStr sfx, stretchOf sfx (source g)) ∨
      (g.isIdle = true ∧ e.1 = g.name ++ sfxStr sfx ∧
        mkIdle (stretchOf sfx (source g)) (some (g.name ++ sfxStr sfx)) = .ok e.2) := by
  rw [stretchedGates_false] at h
  obtain ⟨hinv, hnd, _⟩ := stretchLoop_inv sfx (gs.map (·.2)) (gs.map (·.2)) [] r (fun _ hg => hg) h
    (by intro e he; simp at he) (by simp)
  refine ⟨hnd, ?_⟩
  intro e he
  obtain ⟨g, hg, ws, hw, hm, _⟩ := hinv e he
  refine ⟨g, hg, ?_⟩
  rcases stretchWrites_ok sfx g ws hw with ⟨_, rfl⟩ | ⟨hi, i, hmk, rfl⟩
  · left; simpa using hm
  · simp only [List.mem_cons, List.not_mem_nil, or_false] at hm
    rcases hm with rfl | rfl
    · left; rfl
    · right; exact ⟨hi, rfl, hmk⟩

/-- **C18 (stretch, the dictionary).** When names identify the gates (`NamesOK`), the result holds for EVERY member
`g` of the set, under `source-name ++ suffix`, the stretched copy of `g`'s source — the member itself, or the parent of
an idle member — and for every idle member, under `g.name ++ suffix`, an idle gate whose parent is that stretched copy
(same parameters, no used qubits, no unitary). -/
theorem C18_stretch_set (sfx : Option String) (gs : GateSet U) (r : GateSet U)
    (H : NamesOK sfx (gs.map (·.2))) (h : stretchedGates sfx false gs = .ok r) (g : GDef U) (hg : g ∈ gs.map (·.2)) :
    odGet? r ((source g).name ++ sfxStr sfx) = some (stretchOf sfx (source g)) ∧
    (g.isIdle = true → ∃ i, odGet? r (g.name ++ sfxStr sfx) = some i ∧ i.isIdle = true ∧
      i.parent? = some (stretchOf sfx (source g)) ∧ i.params = (source g).params ++ [("stretch", Kind.float)] ∧
      usedQubits i = [] ∧ i.unitary = none) := by
  obtain ⟨hnd, hsound⟩ := C18_stretch_sound sfx gs r h
  rw [stretchedGates_false] at h
  have hdone := stretchLoop_done sfx (gs.map (·.2)) H (gs.map (·.2)) [] r (fun _ hg => hg) h
    (by intro e he; simp at he) (by simp) g hg
  constructor
  · obtain ⟨e, he, hek⟩ := List.mem_map.mp hdone.1
    obtain ⟨g', hg', h1 | ⟨hi', h2, _⟩⟩ := hsound e he
    · subst h1
      have hn : (source g').name = (source g).name := append_right_cancel_str _ _ _ hek
      have := H.src g' hg' g hg hn
      rw [this] at he
      exact odGet?_of_mem_nodup r _ _ hnd he
    · have hn : g'.name = (source g).name := append_right_cancel_str _ _ _ (h2 ▸ hek)
      exact absurd hn (H.idle_src g' hg' g hg hi')
  · intro hi
    obtain ⟨e, he, hek⟩ := List.mem_map.mp (hdone.2 hi)
    obtain ⟨g', hg', h1 | ⟨hi', h2, h3⟩⟩ := hsound e he
    · subst h1
      have hn : (source g').name = g.name := append_right_cancel_str _ _ _ hek
      exact absurd hn.symm (H.idle_src g hg g' hg' hi)
    · have hn : g'.name = g.name := append_right_cancel_str _ _ _ (h2 ▸ hek)
      have := H.idle g' hg' g hg hi' hi hn
      subst this
      obtain ⟨p1, p2, p3, p4, p5, _⟩ := mkIdle_props _ _ _ h3
      refine ⟨e.2, ?_, p5, p2, by rw [p1, stretchOf_params]; rfl, p3, p4⟩
      have : e = (g'.name ++ sfxStr sfx, e.2) := by rw [← h2]
      rw [this] at he
      exact odGet?_of_mem_nodup r _ _ hnd he

/-- **C18 (stretch).** For every gate `g` of the set that has a unitary `u` (a member, or the parent of an idle
member), the gate stored under `g.name ++ suffix` has the parameters of `g` plus a trailing `stretch : FLOAT`, and its
unitary applied to `args ++ [s]` is `u args` — `g`'s OWN unitary on all arguments but the last — for every `s`.
A gate without a unitary stays without. -/
theorem C18_stretch (sfx : Option String) (gs : GateSet U) (r : GateSet U)
    (H : NamesOK sfx (gs.map (·.2))) (h : stretchedGates sfx false gs = .ok r) (g : GDef U) (hg : g ∈ gs.map (·.2)) :
    ∃ g', odGet? r ((source g).name ++ sfxStr sfx) = some g' ∧
      g'.params = (source g).params ++ [("stretch", Kind.float)] ∧ g'.tag = (source g).tag ∧
      ((source g).unitary = none → g'.unitary = none) ∧
      ∀ u, (source g).unitary = some u → ∃ u', g'.unitary = some u' ∧ ∀ args s, u' (args ++ [s]) = u args := by
  obtain ⟨_, h2, h3, h4, h5⟩ := C18_stretch_gate sfx (source g)
  exact ⟨_, (C18_stretch_set sfx gs r H h g hg).1, h3, h2, h4, h5⟩

/-- **The usual composition** `stretched_gates(add_idle_gates(S), suffix=…)`: for a dictionary `S` of non-idle gates
keyed by their names, whose names and idle names `I_<name>` are pairwise distinct and — for a non-empty suffix — none of
which is another one followed by the suffix, the hypothesis `NamesOK` of `C18_stretch` / `C18_stretch_set` holds. -/
theorem C18_namesOK_of_idle_set (sfx : Option String) (S : GateSet U)
    (hact : ∀ e ∈ S, e.2.isIdle = false) (hkey : ∀ e ∈ S, e.1 = e.2.name)
    (hnd : ((idleWrites S).map (·.1)).Nodup)
    (hsfx : sfxStr sfx ≠ "" → ∀ x ∈ (idleWrites S).map (·.1), ∀ y ∈ (idleWrites S).map (·.1), x ≠ y ++ sfxStr sfx) :
    NamesOK sfx ((addIdleGates S).map (·.2)) := by
  rw [C18_idle_exact S hnd]
  -- every write is keyed by the name of the gate written
  have hname : ∀ w ∈ idleWrites S, w.1 = w.2.name := by
    intro w hw
    obtain ⟨e, he, hw⟩ := List.mem_flatMap.mp hw
    unfold idleWritesOf at hw
    rcases List.mem_cons.mp hw with rfl | hw
    · exact hkey _ he
    · by_cases hs : isSpecial e.2.name = true
      · simp [hs] at hw
      · simp only [hs, Bool.false_eq_true, ↓reduceIte, List.mem_singleton] at hw
        subst hw; rfl
  have hinj : ∀ w ∈ idleWrites S, ∀ w' ∈ idleWrites S, w.2.name = w'.2.name → w = w' := by
    intro w hw w' hw' h
    exact List.inj_on_of_nodup_map hnd hw hw' (by rw [hname w hw, hname w' hw', h])
  -- the source of every member is itself a (non-idle) member
  have hsrc : ∀ w ∈ idleWrites S, ∃ w' ∈ idleWrites S, w'.2 = source w.2 ∧ w'.2.isIdle = false := by
    intro w hw
    obtain ⟨e, he, hw'⟩ := List.mem_flatMap.mp hw
    have hemem : e ∈ idleWrites S := List.mem_flatMap.mpr ⟨e, he, by simp [idleWritesOf]⟩
    unfold idleWritesOf at hw'
    rcases List.mem_cons.mp hw' with rfl | hw'
    · exact ⟨_, hw, (source_of_not_idle _ (hact _ he)).symm, hact _ he⟩
    · by_cases hs : isSpecial e.2.name = true
      · simp [hs] at hw'
      · simp only [hs, Bool.false_eq_true, ↓reduceIte, List.mem_singleton] at hw'
        subst hw'
        exact ⟨e, hemem, rfl, hact _ he⟩
  have hmem : ∀ g ∈ (idleWrites S).map (·.2), ∃ w ∈ idleWrites S, w.2 = g := by
    intro g hg; obtain ⟨w, hw, rfl⟩ := List.mem_map.mp hg; exact ⟨w, hw, rfl⟩
  constructor
  · intro g hg g' hg' h
    obtain ⟨w, hw, rfl⟩ := hmem g hg
    obtain ⟨w', hw', rfl⟩ := hmem g' hg'
    obtain ⟨v, hv, hv1, _⟩ := hsrc w hw
    obtain ⟨v', hv', hv1', _⟩ := hsrc w' hw'
    rw [← hv1, ← hv1'] at h ⊢
    rw [hinj v hv v' hv' h]
  · intro g hg g' hg' _ _ h
    obtain ⟨w, hw, rfl⟩ := hmem g hg
    obtain ⟨w', hw', rfl⟩ := hmem g' hg'
    rw [hinj w hw w' hw' h]
  · intro g hg g' hg' hi h
    obtain ⟨w, hw, rfl⟩ := hmem g hg
    obtain ⟨w', hw', rfl⟩ := hmem g' hg'
    obtain ⟨v', hv', hv1', hv2'⟩ := hsrc w' hw'
    rw [← hv1'] at h
    have := hinj w hw v' hv' h
    rw [this, hv2'] at hi
    cases hi
  · intro hne g hg g' hg'
    obtain ⟨w, hw, rfl⟩ := hmem g hg
    obtain ⟨w', hw', rfl⟩ := hmem g' hg'
    obtain ⟨v', hv', hv1', _⟩ := hsrc w' hw'
    have key : ∀ a ∈ idleWrites S, a.2.name ∈ (idleWrites S).map (·.1) := fun a ha =>
      List.mem_map.mpr ⟨a, ha, hname a ha⟩
    refine ⟨?_, fun _ => hsfx hne _ (key w hw) _ (key w' hw')⟩
    rw [← hv1']
    exact hsfx hne _ (key w hw) _ (key v' hv')

/-! ### The wrapper before the repair -/

/-- The loop variable `gate` after the loop of `stretched_gates`: the last member, unwrapped unless its iteration
hit `continue`. -/
def loopVarAfter (sfx : Option String) : List (GDef U) → GateSet U → Option (GDef U) → M (Option (GDef U))
  | [], _, v => pure v
  | g :: gs, acc, _ => do
    let acc' ← stretchStep sfx acc g
    loopVarAfter sfx gs acc' (some (if odHas acc g.name then g else source g))

/-- `lambda *args: gate.ideal_unitary(args[:-1])` evaluated after the loop (`err` stands for the `TypeError` of
calling `None`); the second defect of that line — the arguments passed as one tuple — is not modelled. -/
def lateWrapper (err : U) (final : Option (GDef U)) : List Val → U :=
  fun args => match final.bind GDef.unitary with
    | some u => u args.dropLast
    | none => err

def lateBind (err : U) (final : Option (GDef U)) : GDef U → GDef U
  | .active n b p u => .active n b p (u.map (fun _ => lateWrapper err final))
  | .idle n p par u => .idle n p (match par with
      | .active n' b' p' u' => .active n' b' p' (u'.map (fun _ => lateWrapper err final))
      | x => x) u

/-- `stretched_gates` with the wrapper as it was before commit b6cdb11 (closure over the loop variable). -/
def stretchedGatesOld (err : U) (sfx : Option String) (gates : GateSet U) : M (GateSet U) := do
  let newGates ← stretchLoop sfx (gates.map (·.2)) []
  let final ← loopVarAfter sfx (gates.map (·.2)) [] none
  pure (newGates.map (fun e => (e.1, lateBind err final e.2)))

end Stretch

/-! ## Examples (non-vacuity) and the counterexample for the old wrapper -/

def exA : GDef Nat := .active "A" false [("q", .qubit), ("t", .float)] (some (fun args => 100 + args.length))
def exB : GDef Nat := .active "B" false [("q", .qubit)] (some (fun args => 200 + args.length))
def exN : GDef Nat := .active "N" true [] none
def exSet : GateSet Nat := [("A", exA), ("B", exB)]

/-- the value `ideal_unitary(*args)` of the gate stored under `key`, if any -/
def unitaryAt (r : M (GateSet Nat)) (key : String) (args : List Val) : Option Nat :=
  match r with
  | .ok d => ((odGet? d key).bind GDef.unitary).map (· args)
  | .error _ => none

/-- **Counterexample for the old wrapper.** On the two-gate set `{A, B}` the old code's stretched `A` answers with
`B`'s unitary (the last gate of the loop): `A(0.5, 1.7)` yields `201` instead of `A`'s `101` … -/
theorem C18_stretch_late_binding_counterexample :
    unitaryAt (stretchedGatesOld 0 none exSet) "A" [.flt ⟨false, 5, -1⟩, .flt ⟨false, 17, -1⟩] = some 201 ∧
    exA.unitary.map (· [.flt ⟨false, 5, -1⟩]) = some 101 := by decide

/-- … while the repaired code yields `A`'s own value, as `C18_stretch` states. -/
theorem C18_stretch_repaired_example :
    unitaryAt (stretchedGates none false exSet) "A" [.flt ⟨false, 5, -1⟩, .flt ⟨false, 17, -1⟩] = some 101 ∧
    unitaryAt (stretchedGates (some "_s") false exSet) "B_s" [.flt ⟨false, 17, -1⟩] = some 200 := by decide

/-! ### the exception class of a rejection -/

/-- The INT branch of `Parameter.validate` BEFORE commit c898fbf (documentation): `float(value.value)` was evaluated
for every `AnnotatedValue` of kind FLOAT, and a `Parameter` has no `value`. -/
def validateIntOld (v : Val) : M Unit :=
  if (match v with | .flt d => d.isIntegral | .int _ => true | _ => false) then pure ()
  else if avKindIn v [.int, .none] then pure ()
  else if avKindIn v [.float] then
    match v with
    | .const _ x => if constIntegral x then pure () else throw typeErr
    | _ => throw (.other "AttributeError")
  else throw typeErr

/-- … so `GateDefinition("G", [Parameter("k", INT)])(Parameter("x", FLOAT))` raised `AttributeError` (found by this
component's differential test, repaired since); the current `validate` fails the type check instead. -/
theorem C18_reject_class_old_counterexample :
    validateIntOld (.param "x" .float) = .error (.other "AttributeError") ∧
    validate .int (.param "x" .float) = .error (.jaqal "type-check") := ⟨rfl, rfl⟩

theorem validateAll_error (ps : List (String × Kind)) (bound : List (String × Val)) (e : Err)
    (h : validateAll ps bound = .error e) :
    (∃ p ∈ ps, ∃ v, odGet? bound p.1 = some v ∧ validate p.2 v = .error e) ∨
    (e = .other "KeyError" ∧ ∃ p ∈ ps, odGet? bound p.1 = none) := by
  induction ps with
  | nil => simp [validateAll, pure, Except.pure] at h
  | cons p ps ih =>
    obtain ⟨n, k⟩ := p
    unfold validateAll at h
    cases hg : odGet? bound n with
    | none =>
      simp only [hg, Except.error.injEq] at h
      right; exact ⟨h.symm, (n, k), by simp, hg⟩
    | some v =>
      simp only [hg] at h
      cases hv : validate k v with
      | error e' =>
        simp only [hv, bind, Except.bind, Except.error.injEq] at h
        left; exact ⟨(n, k), by simp, v, hg, h ▸ hv⟩
      | ok u =>
        simp only [hv, bind, Except.bind] at h
        rcases ih h with ⟨p, hp, v', h1, h2⟩ | ⟨h1, p, hp, h2⟩
        · left; exact ⟨p, by simp [hp], v', h1, h2⟩
        · right; exact ⟨h1, p, by simp [hp], h2⟩

theorem bound_eq_zip (gd : GateDef) (args : List Val) (h1 : ¬ args.length > gd.params.length)
    (h2 : gd.params.length = (odUpdate [] ((gd.params.map (·.1)).zip args)).length) :
    args.length = gd.params.length ∧ (gd.params.map (·.1)).Nodup ∧
    odUpdate [] ((gd.params.map (·.1)).zip args) = (gd.params.map (·.1)).zip args := by
  have hz : ((gd.params.map (·.1)).zip args).length = args.length := by
    simp only [List.length_zip, List.length_map]; omega
  have hle := length_odUpdate_le [] ((gd.params.map (·.1)).zip args)
  simp only [List.length_nil, Nat.zero_add] at hle
  have hal : args.length = gd.params.length := by omega
  have hnd := (nodup_of_length_odUpdate [] ((gd.params.map (·.1)).zip args) (by simp; omega)).1
  rw [keys_zip _ _ (by simpa using hal)] at hnd
  refine ⟨hal, hnd, ?_⟩
  rw [odUpdate_fresh] <;> simp [keys_zip _ _ (show args.length = (gd.params.map (·.1)).length by simpa using hal), hnd]

/-- the tail of `call` fails only with `JaqalError`, provided every parameter is bound once the count matches
(which the two callers guarantee: the `KeyError` branch of the model is unreachable) -/
theorem finish_error_jaqal (gd : GateDef) (bound : List (String × Val)) (e : Err)
    (hk : gd.params.length = bound.length → ∀ p ∈ gd.params, p.1 ∈ bound.map (·.1))
    (h : finish gd bound = .error e) : ∃ r, e = .jaqal r := by
  unfold finish at h
  by_cases hc : gd.params.length = bound.length
  · simp only [hc, ne_eq, not_true_eq_false, ↓reduceIte, bind, Except.bind] at h
    cases hva : validateAll gd.params bound with
    | ok u => simp [hva, pure, Except.pure] at h
    | error e' =>
      simp only [hva, Except.error.injEq] at h
      subst h
      rcases validateAll_error _ _ _ hva with ⟨p, _, v, _, h2⟩ | ⟨_, p, hp, h2⟩
      · exact ⟨_, validate_error_cls p.2 v e' h2⟩
      · exfalso
        rw [odGet?_eq_none_iff] at h2
        exact h2 (hk hc p hp)
  · simp only [hc, ne_eq, not_false_eq_true, ↓reduceIte, bind, Except.bind, throw, throwThe, MonadExceptOf.throw,
      Except.error.injEq] at h
    exact ⟨_, h.symm⟩

theorem popAll_error (ps : List (String × Kind)) (kw acc : List (String × Val)) (e : Err)
    (h : popAll ps kw acc = .error e) : e = .jaqal "missing-parameter" := by
  induction ps generalizing kw acc with
  | nil => simp [popAll, pure, Except.pure] at h
  | cons p ps ih =>
    obtain ⟨n, k⟩ := p
    unfold popAll at h
    cases hg : odGet? kw n with
    | none => simp only [hg, Except.error.injEq] at h; exact h.symm
    | some v => simp only [hg] at h; exact ih _ _ h

theorem callPos_error_jaqal (gd : GateDef) (args : List Val) (e : Err) (h : callPos gd args = .error e) :
    ∃ r, e = .jaqal r := by
  unfold callPos at h
  by_cases hlen : args.length > gd.params.length
  · simp only [hlen, ↓reduceIte, bind, Except.bind, throw, throwThe, MonadExceptOf.throw, Except.error.injEq] at h
    exact ⟨_, h.symm⟩
  · simp only [hlen, ↓reduceIte, bind, Except.bind, pure, Except.pure] at h
    refine finish_error_jaqal gd _ e ?_ h
    intro hc p hp
    obtain ⟨hal, _, hb⟩ := bound_eq_zip gd args hlen hc
    rw [hb, keys_zip _ _ (by simpa using hal)]
    exact List.mem_map.mpr ⟨p, hp, rfl⟩

theorem callKw_error_jaqal (gd : GateDef) (kw : List (String × Val)) (e : Err) (hkn : (kw.map (·.1)).Nodup)
    (h : callKw gd kw = .error e) : ∃ r, e = .jaqal r := by
  unfold callKw at h
  have hd : hasDupKey kw = false := (hasDupKey_eq_false_iff kw).mpr hkn
  simp only [hd, Bool.false_eq_true, ↓reduceIte, pure, Except.pure, bind, Except.bind] at h
  by_cases he : kw.isEmpty = true
  · simp only [he, ↓reduceIte] at h
    refine finish_error_jaqal gd [] e ?_ h
    intro hc p hp
    have : gd.params = [] := List.eq_nil_of_length_eq_zero (by simpa using hc)
    rw [this] at hp; cases hp
  · simp only [he, Bool.false_eq_true, ↓reduceIte] at h
    cases hpop : popAll gd.params kw [] with
    | error e' =>
      simp only [hpop, Except.error.injEq] at h
      subst h
      exact ⟨_, popAll_error _ _ _ _ hpop⟩
    | ok br =>
      obtain ⟨b, rest⟩ := br
      simp only [hpop] at h
      obtain ⟨hn, args, hl, hk⟩ := popAll_inv gd.params kw [] b rest hpop
      rw [popAll_ok gd.params args kw [] hl hn hk] at hpop
      simp only [Except.ok.injEq, Prod.mk.injEq] at hpop
      obtain ⟨hb, _⟩ := hpop
      subst hb
      by_cases hre : rest.isEmpty = true
      · simp only [hre, Bool.not_true, Bool.false_eq_true, ↓reduceIte] at h
        refine finish_error_jaqal gd _ e ?_ h
        intro _ p hp
        have hkeys : ((gd.params.map (·.1)).zip args).map (·.1) = gd.params.map (·.1) := keys_zip _ _ (by simpa using hl)
        rw [odUpdate_fresh _ _ (by rw [hkeys]; exact hn) (by simp), List.nil_append, hkeys]
        exact List.mem_map.mpr ⟨p, hp, rfl⟩
      · simp only [hre, Bool.not_false, ↓reduceIte, throw, throwThe, MonadExceptOf.throw, Except.error.injEq] at h
        exact ⟨_, h.symm⟩

/-- **C18 (exception class).** A call that is rejected — positional, keyword, mixed, or through the dispatcher
`call` — is rejected with a `JaqalError`, never with another exception. (Keyword arguments form a `dict`: their
names are distinct; a repeated keyword is a `TypeError` of the Python call site and never reaches `call`.) -/
theorem C18_reject_class (gd : GateDef) (args : List Val) (kw : List (String × Val)) (e : Err) :
    (callPos gd args = .error e → ∃ r, e = .jaqal r) ∧
    ((kw.map (·.1)).Nodup → callKw gd kw = .error e → ∃ r, e = .jaqal r) ∧
    (callMixed gd args kw = .error e → ∃ r, e = .jaqal r) ∧
    ((kw.map (·.1)).Nodup → call gd args kw = .error e → ∃ r, e = .jaqal r) := by
  refine ⟨callPos_error_jaqal gd args e, fun hn => callKw_error_jaqal gd kw e hn, ?_, ?_⟩
  · intro h; exact ⟨_, (Except.error.inj h).symm⟩
  · intro hn h
    have hd : hasDupKey kw = false := (hasDupKey_eq_false_iff kw).mpr hn
    unfold call at h
    split at h
    · exact callPos_error_jaqal gd args e h
    · split at h
      · exact callKw_error_jaqal gd kw e hn h
      · split at h
        · simp only [hd, Bool.false_eq_true, ↓reduceIte] at h
          exact ⟨_, (Except.error.inj h).symm⟩
        · refine finish_error_jaqal gd [] e ?_ h
          intro hc p hp
          have : gd.params = [] := List.eq_nil_of_length_eq_zero (by simpa using hc)
          rw [this] at hp; cases hp

/-! ### non-vacuity -/

def exGd : GateDef := { name := "R", tag := .native, params := [("q", .qubit), ("k", .int), ("t", .float)], hasUnitary := true }
def exQ : Val := .qubit "r[1]" (.regF "r" (.int 3)) (.int 1)
def exC : Val := .const "two" (.const "c" (.flt ⟨false, 2, 0⟩))      -- let c 2.0 ; a constant defined by it

-- the table: integral floats and float constants with an integral value fit INT, fractional ones do not
example : fits .int (.flt ⟨false, 2, 0⟩) = true ∧ fits .int (.flt ⟨false, 25, -1⟩) = false ∧ fits .int exC = true ∧
    fits .int (.const "h" (.flt ⟨false, 5, -1⟩)) = false ∧ fits .float (.const "h" (.flt ⟨false, 5, -1⟩)) = true ∧
    fits .qubit exQ = true ∧ fits .qubit (.param "p" .none) = true ∧ fits .qubit (.param "p" .register) = false ∧
    fits .register exQ = false ∧ fits .none (.str "anything") = true := by decide
example : FitsSpec .int exC := .intConst _ _ (.flt ⟨false, 2, 0⟩) rfl rfl
example : ¬ FitsSpec .int (.param "p" .float) := by intro h; cases h; simp_all

-- an accepted call (right arity, every argument fits), by position and by keyword in another order
example : ∃ s, callPos exGd [exQ, exC, .int 1] = .ok s := ⟨_, rfl⟩
example : (exGd.params.map (·.1)).Nodup ∧ List.Forall₂ (fun p a => fits p.2 a = true) exGd.params [exQ, exC, .int 1] :=
  (C18_accept exGd _).mp ⟨_, rfl⟩
example : callKw exGd [("t", .int 1), ("q", exQ), ("k", exC)] = callPos exGd [exQ, exC, .int 1] :=
  C18_kw exGd _ _ (by decide) rfl (by
    show List.Perm [("t", Val.int 1), ("q", exQ), ("k", exC)] [("q", exQ), ("k", exC), ("t", Val.int 1)]
    exact (List.Perm.swap _ _ _).trans (List.Perm.cons _ (List.Perm.swap _ _ _)))
-- rejected calls: wrong arity (both ways), a misfit, an unknown keyword, mixed arguments, a repeated parameter name
example : callPos exGd [exQ, exC] = .error (.jaqal "bad-argument-count") := rfl
example : callPos exGd [exQ, exC, .int 1, .int 2] = .error (.jaqal "too-many-parameters") := rfl
example : callPos exGd [exQ, .flt ⟨false, 25, -1⟩, .int 1] = .error (.jaqal "type-check") := rfl
example : callKw exGd [("t", .int 1), ("q", exQ), ("kk", exC)] = .error (.jaqal "missing-parameter") := rfl
example : callKw exGd [("t", .int 1), ("q", exQ), ("k", exC), ("z", .int 0)] = .error (.jaqal "invalid-parameters") := rfl
example : call exGd [exQ] [("k", exC), ("t", .int 1)] = .error (.jaqal "mixed-parameters") := rfl
example : ¬ ∃ s, callPos { name := "D", tag := .native, params := [("a", .none), ("a", .none)] } [.int 1, .int 2] = .ok s := by
  rw [C18_accept]; simp

-- idle gates: a set with a parametrised gate, a gate without unitary, a busy gate and prepare_all
def exSet2 : GateSet Nat := [("A", exA), ("N", exN), ("prepare_all", .active "prepare_all" true [] none)]
example : ((idleWrites exSet2).map (·.1)).Nodup := by decide
example : (addIdleGates exSet2).map (·.1) = ["A", "I_A", "N", "I_N", "prepare_all"] := by decide
example : (odGet? (addIdleGates exSet2) "I_A").map (fun g => (g.params, usedQubits g, g.unitary.isSome)) =
    some ([("q", .qubit), ("t", .float)], [], false) := by decide
example : usedQubits exA = [.param "q"] ∧ usedQubits exN = [.all] := by decide

-- stretched gates of a set that contains an idle gate listed BEFORE its parent (the `continue` branch is taken)
def exSet3 : GateSet Nat := [("I_A", idleOf exA), ("A", exA), ("B", exB)]

theorem exSet3_namesOK (sfx : Option String) (hs : sfx = none ∨ sfx = some "_s") : NamesOK sfx (exSet3.map (·.2)) := by
  have key : ∀ g ∈ exSet3.map (·.2), g = idleOf exA ∨ g = exA ∨ g = exB := by
    intro g hg; simpa [exSet3] using hg
  constructor
  · intro g hg g' hg' h
    rcases key g hg with rfl | rfl | rfl <;> rcases key g' hg' with rfl | rfl | rfl <;>
      first | rfl | (exfalso; revert h; simp [source, idleOf, exA, exB, GDef.name])
  · intro g hg g' hg' hi hi' _
    rcases key g hg with rfl | rfl | rfl <;> rcases key g' hg' with rfl | rfl | rfl <;>
      first | rfl | (exfalso; revert hi hi'; simp [idleOf, exA, exB, GDef.isIdle])
  · intro g hg g' hg' hi
    rcases key g hg with rfl | rfl | rfl <;> rcases key g' hg' with rfl | rfl | rfl <;>
      first | (exfalso; revert hi; simp [exA, exB, GDef.isIdle]; done) | (simp [source, idleOf, exA, exB, GDef.name] <;> decide)
  · intro hne g hg g' hg'
    rcases hs with rfl | rfl
    · exact absurd rfl hne
    · rcases key g hg with rfl | rfl | rfl <;> rcases key g' hg' with rfl | rfl | rfl <;>
        (simp [source, idleOf, exA, exB, GDef.name, GDef.isIdle, sfxStr]; try decide)

example : ∃ r, stretchedGates (some "_s") false exSet3 = .ok r ∧ r.map (·.1) = ["A_s", "I_A_s", "B_s"] :=
  ⟨_, rfl, by decide⟩
example : ∃ r, stretchedGates none false exSet3 = .ok r ∧ r.map (·.1) = ["A", "I_A", "B"] := ⟨_, rfl, by decide⟩
-- the usual composition on the example set: hypotheses of `C18_namesOK_of_idle_set` hold
example : NamesOK (some "_s") ((addIdleGates exSet2).map (·.2)) :=
  C18_namesOK_of_idle_set (some "_s") exSet2 (by decide) (by decide) (by decide) (fun _ => by decide)
-- the emulator's view: the stretched gate with arguments (q, 0.5, 1.7) is applied as A's matrix for (q, 0.5) on q's index;
-- the idle gate is skipped
example : emuEntry (fun _ => pure 1) (stretchOf (some "_s") exA) [exQ, .flt ⟨false, 5, -1⟩, .flt ⟨false, 17, -1⟩] =
    .ok (some 101, [1]) := rfl
example : emuEntry (fun _ => pure 1) exA [exQ, .flt ⟨false, 5, -1⟩] = .ok (some 101, [1]) := rfl
example : emuEntry (fun _ => pure 1) (idleOf exA) [exQ, .flt ⟨false, 5, -1⟩] = .ok (none, []) := rfl
-- a stretched idle gate whose stretched parent would be called `prepare_all`: the constructor's JaqalError escapes
example : stretchedGates (some "_all") false [("I_prepare", idleOf (.active "prepare" false [] (none : Option (List Val → Nat))))]
    = .error (.jaqal "no-idle-gate") := rfl

end Jaqal.GateDef

#print axioms Jaqal.GateDef.C18_fits_table
#print axioms Jaqal.GateDef.C18_accept
#print axioms Jaqal.GateDef.C18_accept_index
#print axioms Jaqal.GateDef.C18_accept_stmt
#print axioms Jaqal.GateDef.C18_kw
#print axioms Jaqal.GateDef.C18_kw_conv
#print axioms Jaqal.GateDef.C18_mixed
#print axioms Jaqal.GateDef.C18_idle_writes
#print axioms Jaqal.GateDef.C18_idle_lookup
#print axioms Jaqal.GateDef.C18_idle_exact
#print axioms Jaqal.GateDef.C18_idle
#print axioms Jaqal.GateDef.C18_idle_special
#print axioms Jaqal.GateDef.C18_idle_emu
#print axioms Jaqal.GateDef.C18_idle_state
#print axioms Jaqal.GateDef.C18_stretch_gate
#print axioms Jaqal.GateDef.C18_stretch_emu
#print axioms Jaqal.GateDef.C18_stretch_update
#print axioms Jaqal.GateDef.C18_stretch_sound
#print axioms Jaqal.GateDef.C18_stretch_set
#print axioms Jaqal.GateDef.C18_stretch
#print axioms Jaqal.GateDef.C18_namesOK_of_idle_set
#print axioms Jaqal.GateDef.C18_stretch_late_binding_counterexample
#print axioms Jaqal.GateDef.C18_stretch_repaired_example
#print axioms Jaqal.GateDef.C18_reject_class
#print axioms Jaqal.GateDef.C18_reject_class_old_counterexample
