import JaqalProofs.Lemmas.RefsStages
import JaqalProofs.Props.ParsedC10
/-!
# C14 stage by stage — a reference that cannot be honoured is refused by the FIRST stage at which its value is known

`Props/C14.lean` says what is checked when the circuit is BUILT (literal indices, slices, sizes); `Props/C14Run.lean` what holds of
the gates that RUN.  Here: the two stages in between, `fill_in_let` (let values, overriding values) and `expand_macros` (macro
arguments), and the capstone over `run_jaqal_circuit`'s order `expand_subcircuits`, `fill_in_let ov`, `expand_macros`.

`KnownRefsOK c` (`Lemmas/RefsStages.lean`; declarative, no builder, no pass): every value occurring anywhere in `c` — register and
alias declarations, gate arguments, loop and subcircuit counts, in the body and in every macro body — is `Builder.ValOK`: a qubit is
taken from a register or a parameter, an alias from a register or a parameter, and every reference / slice / size ALL of whose
ingredients are integer literals (through an alias chain all of whose links are literal, `Builder.litSize`) is in range
`0 .. size-1` / inside its source with a non-zero step / ≥ 1.  `NoConstRefs c`: no let-constant is left in any of these positions.

* **`C14_stage_let`** — parsed `c`, any override list: `fillInLet ov c = .ok c' → KnownRefsOK c' ∧ NoConstRefs c'`.  Every index,
  size and slice bound that was a let is now a literal, so everything the literals, lets and overrides determine has been validated
  against the NEW sizes.  (`let_knownRefs`: the same for every `Legal` circuit that is `KnownRefsOK`, hence in any order of passes.)
* **`C14_stage_let_rejects`** (gate arguments, body and macro bodies) / **`C14_stage_let_rejects_register`** (declarations) — in the
  order of `run_jaqal_circuit` (`c1 = expand_subcircuits c`): if a value of `c1` that is DETERMINED BY LITERALS AND LETS
  (`closedRef`: not a macro parameter, and no reference whose source or index is one) has no value in the specification under the
  overrides (`Sem.evalArg (normOv ov) [] v = .error _`: index outside the register / alias, slice leaving its source, zero step,
  size < 1, non-integer index …), then `fillInLet ov c1` fails, with `JaqalError` (`Builder.Good`: the class lemma of the rebuild
  also allows the `ImportError` of a `usepulses`, which the rebuild — `autoload := false` — never raises; not re-proved here).
  `letVal_rejects` is the statement for one value.
* **`C14_stage_macros`** — parsed `c` (`C14_stage_macros_legal`: any `Legal`, `KnownRefsOK` circuit, e.g. parsed-then-filled):
  `expandMacros p c = .ok c' → KnownRefsOK c' ∧ noCalls c.macros c'.body` — every reference a macro argument determines has been
  rebuilt by `alias_from[index]` and so validated; no macro call is left.
* **`C14_stage_macros_rejects`** — filled circuit `c2` of a parsed program: if the specification cannot evaluate `c2` (macro calls by
  substitution: a substituted index outside its register, a qubit where a register is indexed, …), `expandMacros false c2` fails
  with `JaqalError`.  `C14_macro_index_rejected`, `C14_macro_kind_rejected`: the two concrete ways, on one value.
* **`C14_stage_order`** — both orders of the two passes on a parsed circuit end in `KnownRefsOK ∧ NoConstRefs` with no macro call
  left (`C10_legal_seq_parsed`).
* **`C14_latest_when_known`** — see there for what "determined" means.
-/
namespace Jaqal.Stages
open Jaqal Jaqal.Builder Jaqal.FillIn Jaqal.RunModel Jaqal.Sem

/-! ### 0. What the parser hands over -/

/-- every parsed circuit is `KnownRefsOK` (`C14_sound_all` through `parseProgram`) -/
theorem parsed_knownRefs {cfg : Config} {txt : String} {c : Circuit} (hp : Pipeline.parseProgram cfg txt = .ok c) :
    KnownRefsOK c := by
  obtain ⟨hb, hm, hr⟩ := parsed_valOK cfg txt c hp
  exact ⟨hr, hb, hm⟩

/-! ### 1. `fill_in_let` -/

/-- `fill_in_let` on any legal circuit: what was valid is valid again — against the new sizes —, and no constant is left -/
theorem let_knownRefs {ov : List (String × Num)} {c c' : Circuit} (hL : Passes.Legal c) (hk : KnownRefsOK c)
    (h : fillInLet ov c = .ok c') : KnownRefsOK c' ∧ NoConstRefs c' := by
  obtain ⟨h1, h2, h3⟩ := C05_revalidate ov c c' hL.wf2 h hk.body hk.macros hk.registers
  obtain ⟨n1, n2, n3⟩ := C05_no_consts ov c c' hL.wf2 h
  exact ⟨⟨h3, h1, h2⟩, ⟨n3, n1, n2⟩⟩

/-- **C14, stage `fill_in_let` (acceptance).** -/
theorem C14_stage_let (cfg : Config) (txt : String) (ov : List (String × Num)) (c c' : Circuit)
    (hp : Pipeline.parseProgram cfg txt = .ok c) (h : fillInLet ov c = .ok c') : KnownRefsOK c' ∧ NoConstRefs c' :=
  let_knownRefs (Passes.parsed_legal cfg txt c hp) (parsed_knownRefs hp) h

/-- **One value.** A typed (`InT`: what the builder makes of parser output) valid value that is determined by literals and lets
and has NO value in the specification under the overrides is refused by the visitor. -/
theorem letVal_rejects {ov : List (String × Num)} {rv : Bool} {v : Val} (ht : InT v = true) (hok : ValOK v)
    (hdet : ∀ w, letVal ov rv v = .ok w → closedRef w = true) {e : Err} (hbad : evalArg (normOv ov) [] v = .error e) :
    ∀ w, letVal ov rv v ≠ .ok w := by
  intro w hw
  have ho := (letVal_typed (ov := ov) (rv := rv) v ht).2 w hw
  obtain ⟨sa, hsa⟩ := out_closed_eval ho (hdet w hw) (letVal_ok v rv w hok hw)
  rw [(letVal_sem v rv w hw []).2.2.2, hbad] at hsa
  cases hsa

/-- `LetFiller` keeps a value determined by literals and lets one -/
theorem letVal_closedRef {ov : List (String × Num)} {v w : Val} (ht : InT v = true) (hc : closedRef v = true)
    (h : letVal ov false v = .ok w) : closedRef w = true := by
  simp only [closedRef, Bool.and_eq_true, Bool.not_eq_true'] at hc ⊢
  refine ⟨letVal_noParRef ht hc.1 h, ?_⟩
  cases v with
  | param _ _ => simp [Builder.isParam] at hc
  | int _ => simp only [letVal, pure, Except.pure, Except.ok.injEq] at h; subst h; rfl
  | flt _ => simp only [letVal, pure, Except.pure, Except.ok.injEq] at h; subst h; rfl
  | none => simp only [letVal, pure, Except.pure, Except.ok.injEq] at h; subst h; rfl
  | str _ => simp only [letVal, pure, Except.pure, Except.ok.injEq] at h; subst h; rfl
  | const n d =>
    simp only [letVal] at h
    rcases Passes.resolveConstant_numeric h with ⟨k, rfl⟩ | ⟨d', rfl⟩ <;> rfl
  | qubit n s i =>
    simp only [letVal] at h
    obtain ⟨nf, _, h⟩ := bind_ok h
    split at h
    · obtain ⟨ni, _, h⟩ := bind_ok h
      obtain ⟨n', hq⟩ := constIndexQubit_mk h
      rw [mkQubit_eq hq]; rfl
    · rw [mkQubit_eq h]; rfl
  | regF n s =>
    have hT : RegT (.regF n s) = true := by simpa [InT] using ht
    exact letVal_reg_notParam hT h
  | regA n s =>
    have hT : RegT (.regA n s) = true := by simpa [InT] using ht
    exact letVal_reg_notParam hT h
  | regS n s a b c =>
    have hT : RegT (.regS n s a b c) = true := by simpa [InT] using ht
    exact letVal_reg_notParam hT h

/-- what the rejection theorems need of the subcircuit-expanded image of a parsed program -/
theorem parsed_subs_facts {cfg : Config} {txt : String} {c c1 : Circuit} (hp : Pipeline.parseProgram cfg txt = .ok c)
    (h1 : ExpandSubcircuits.expandSubcircuits none none c = .ok c1) : Passes.Legal c1 ∧ KnownRefsOK c1 ∧ TypedC c1 := by
  obtain ⟨b, hb⟩ := parseProgram_body hp
  exact ⟨Passes.C10_legal_preserved_subs c c1 (Passes.parsed_legal cfg txt c hp) h1,
    subs_knownRefs ⟨_, _, hb⟩ (parsed_knownRefs hp) h1,
    ExpandSubcircuits.expandSubcircuits_typed (parseProgram_typed hp) h1⟩

/-- **C14, stage `fill_in_let` (rejection), gate arguments.** `c1` = the parsed program with its subcircuit blocks spelled out
(the circuit `run_jaqal_circuit` hands to `fill_in_let`).  If an argument `a` of a gate statement of the body or of a macro body
is determined by literals and lets (`closedRef`) and its value under the overrides cannot be honoured — the specification's
`evalArg (normOv ov) [] a` is an error —, `fill_in_let ov` refuses the circuit. -/
theorem C14_stage_let_rejects (cfg : Config) (txt : String) (ov : List (String × Num)) (c c1 : Circuit)
    (hp : Pipeline.parseProgram cfg txt = .ok c) (h1 : ExpandSubcircuits.expandSubcircuits none none c = .ok c1)
    (g : GateRec) (hg : g ∈ gatesOf c1.body ∨ ∃ m ∈ c1.macros, g ∈ gatesOf m.body)
    (a : String × Val) (ha : a ∈ g.2.2) (hdet : closedRef a.2 = true) (e : Err)
    (hbad : evalArg (normOv ov) [] a.2 = .error e) :
    ∃ e', fillInLet ov c1 = .error e' ∧ Good e' := by
  obtain ⟨hL, hk, hT⟩ := parsed_subs_facts hp h1
  cases hf : fillInLet ov c1 with
  | error e' => exact ⟨e', rfl, fillInClass_all cfg ov txt c c1 hp h1 e' hf⟩
  | ok c2 =>
    exfalso
    obtain ⟨bs, regs, hbs, _, hr⟩ := fillInLet_rebuilt hL.wf2 hf
    have hQ : ∀ v v', letVal ov false v = .ok v' → ∃ w, letVal ov false v = .ok w := fun v v' h => ⟨v', h⟩
    -- the statement the gate sits in, with its typing and validity
    have key : ∀ (s : Stmt), StmtIn s → AllVals ValOK s → AllVals (fun v => ∃ w, letVal ov false v = .ok w) s →
        g ∈ gatesOf s → False := by
      intro s hin hok hvis hgs
      have h3 := allVals_gates s (allVals_inT s hin hok) g hgs a ha
      obtain ⟨w, hw⟩ := allVals_gates s hvis g hgs a ha
      exact letVal_rejects h3.1 h3.2 (fun w' hw' => letVal_closedRef h3.1 hdet hw') hbad w hw
    rcases hg with hg | ⟨m, hm, hg⟩
    · obtain ⟨ss, _, hrel⟩ := hr.body
      have hvis : AllVals (fun v => ∃ w, letVal ov false v = .ok w) c1.body := by
        rw [hbs]
        simp only [AllVals]
        exact ⟨fun hx => (by cases hx), Rel_ins hQ hQ bs ss hrel⟩
      exact key c1.body hT.body hk.body hvis hg
    · have : ∀ {ms ms' : List Macro}, List.Forall₂ (fun m m' => MacroRel (letVal ov false) (letVal ov false) m m') ms ms' →
          ∀ m ∈ ms, AllVals (fun v => ∃ w, letVal ov false v = .ok w) m.body := by
        intro ms ms' hh
        induction hh with
        | nil => intro m hm; cases hm
        | @cons m0 m0' _ _ hmm _ ih =>
          intro m hm
          rcases List.mem_cons.1 hm with rfl | hm
          · exact Rel_in hQ hQ _ _ hmm.2.2
          · exact ih m hm
      exact key m.body (hT.macros m hm) (hk.macros m hm) (this hr.macros m hm) hg

/-- **C14, stage `fill_in_let` (rejection), declarations.** A `register` / `map` declaration (a register, a whole-register alias
or a slice) whose value under the overrides cannot be honoured — size < 1, slice leaving its source, zero step, along the whole
alias chain — makes `fill_in_let ov` refuse the circuit, whether or not a gate uses it. -/
theorem C14_stage_let_rejects_register (cfg : Config) (txt : String) (ov : List (String × Num)) (c c1 : Circuit)
    (hp : Pipeline.parseProgram cfg txt = .ok c) (h1 : ExpandSubcircuits.expandSubcircuits none none c = .ok c1)
    (v : Val) (hv : v ∈ c1.registers) (hreg : Builder.isRegister v = true) (e : Err)
    (hbad : evalArg (normOv ov) [] v = .error e) :
    ∃ e', fillInLet ov c1 = .error e' ∧ Good e' := by
  obtain ⟨hL, hk, hT⟩ := parsed_subs_facts hp h1
  cases hf : fillInLet ov c1 with
  | error e' => exact ⟨e', rfl, fillInClass_all cfg ov txt c c1 hp h1 e' hf⟩
  | ok c2 =>
    exfalso
    obtain ⟨bs, regs, _, hregs, _⟩ := fillInLet_rebuilt hL.wf2 hf
    obtain ⟨w, hw⟩ := UsedQubits.mapM_all_ok hregs v hv
    have hin := hT.registers v hv
    have hRT : RegT v = true := by cases v <;> simp [Builder.isRegister] at hreg <;> simpa [InT] using hin
    refine letVal_rejects hin (hk.registers v hv) (fun w' hw' => ?_) hbad w hw
    simp only [closedRef, Bool.and_eq_true, Bool.not_eq_true']
    exact ⟨noParRef_of_notQubit (letVal_notQubit (RegT_notQubit hRT) hw'), letVal_reg_notParam hRT hw'⟩

/-! ### 2. `expand_macros` -/

/-- **C14, stage `expand_macros` (acceptance), any legal circuit** — parsed, or parsed and then put through any passes
(`C10_legal_seq_parsed`), e.g. `fill_in_let` -/
theorem C14_stage_macros_legal {p : Bool} {c c' : Circuit} (hL : Passes.Legal c) (hk : KnownRefsOK c)
    (h : ExpandMacros.expandMacros p c = .ok c') : KnownRefsOK c' ∧ ExpandMacros.noCalls c.macros c'.body = true :=
  ⟨expand_knownRefs hL.wf1 hk h, ExpandMacros.C04_no_calls p c c' h⟩

/-- **C14, stage `expand_macros` (acceptance).** -/
theorem C14_stage_macros (cfg : Config) (txt : String) (p : Bool) (c c' : Circuit)
    (hp : Pipeline.parseProgram cfg txt = .ok c) (h : ExpandMacros.expandMacros p c = .ok c') :
    KnownRefsOK c' ∧ ExpandMacros.noCalls c.macros c'.body = true :=
  C14_stage_macros_legal (Passes.parsed_legal cfg txt c hp) (parsed_knownRefs hp) h

/-- … and for the circuit `fill_in_let` returned of a parsed program, in `run_jaqal_circuit`'s order -/
theorem C14_stage_macros_filled (cfg : Config) (txt : String) (ov : List (String × Num)) (p : Bool) (c c1 c2 x : Circuit)
    (hp : Pipeline.parseProgram cfg txt = .ok c) (h1 : ExpandSubcircuits.expandSubcircuits none none c = .ok c1)
    (h2 : fillInLet ov c1 = .ok c2) (h : ExpandMacros.expandMacros p c2 = .ok x) :
    KnownRefsOK x ∧ ExpandMacros.noCalls c2.macros x.body = true := by
  obtain ⟨hL, hk, _⟩ := parsed_subs_facts hp h1
  exact C14_stage_macros_legal (Passes.C10_legal_preserved_let' ov c1 c2 hL h2) (let_knownRefs hL hk h2).1 h

/-- **C14, stage `expand_macros` (rejection).** `c2` = what `fill_in_let ov` returned of a parsed program (subcircuit blocks
spelled out).  If the specification cannot evaluate `c2` — `Sem.meaning` expands a call by evaluating the macro body under the
bindings of the call: an index substituted out of range, a slice argument that leaves a register, a number or a qubit indexed as
a register, an unbound name —, then `expand_macros` refuses it, with `JaqalError`. -/
theorem C14_stage_macros_rejects (cfg : Config) (txt : String) (ov : List (String × Num)) (c c1 c2 : Circuit)
    (hp : Pipeline.parseProgram cfg txt = .ok c) (h1 : ExpandSubcircuits.expandSubcircuits none none c = .ok c1)
    (h2 : fillInLet ov c1 = .ok c2) (e : Err) (hbad : meaning [] c2 = .error e) :
    ∃ r, ExpandMacros.expandMacros false c2 = .error (.jaqal r) := by
  have hff := parsed_filled hp h1 h2
  cases hx : ExpandMacros.expandMacros false c2 with
  | error err =>
    obtain ⟨r, rfl⟩ := ExpandMacros.C04_total_class false c2 hff.wf err hx
    exact ⟨r, rfl⟩
  | ok x =>
    exfalso
    have hwf : ExpandMacros.wfMacrosFrom c2.macros [] c2.macros = true := by
      have := hff.wf
      simp only [ExpandMacros.WellFormed, Bool.and_eq_true] at this
      exact this.1.1.1.1
    obtain ⟨y, hy⟩ := filled_meaning hff.pre hwf hff.vsBody hff.vsMacros hff.it1Body hff.it1Macros hx
    simp only [meaning, hy, bind, Except.bind, pure, Except.pure] at hbad
    cases hbad

/-- the same against the SOURCE: if the program (subcircuit blocks spelled out) has no meaning under the overriding values, one of
the two passes refuses it — `fill_in_let` (`JaqalError`; see the header for `Good`) or, failing that, `expand_macros`
(`JaqalError`) -/
theorem C14_stage_source_rejects (cfg : Config) (txt : String) (ov : List (String × Num)) (c c1 : Circuit)
    (hp : Pipeline.parseProgram cfg txt = .ok c) (h1 : ExpandSubcircuits.expandSubcircuits none none c = .ok c1)
    (e : Err) (hbad : meaning (normOv ov) c1 = .error e) :
    (∃ e', fillInLet ov c1 = .error e' ∧ Good e') ∨
      ∃ c2 r, fillInLet ov c1 = .ok c2 ∧ ExpandMacros.expandMacros false c2 = .error (.jaqal r) := by
  obtain ⟨hL, _, _⟩ := parsed_subs_facts hp h1
  cases h2 : fillInLet ov c1 with
  | error e' => exact Or.inl ⟨e', rfl, fillInClass_all cfg ov txt c c1 hp h1 e' h2⟩
  | ok c2 =>
    refine Or.inr ⟨c2, ?_⟩
    have hm := C05_meaning ov c1 c2 hL.wf2 h2
    obtain ⟨r, hr⟩ := C14_stage_macros_rejects cfg txt ov c c1 c2 hp h1 h2 e (by rw [hm]; exact hbad)
    exact ⟨r, rfl, hr⟩

/-- a literal register passes through the substitution unchanged -/
theorem substVal_lit {args : List (String × Val)} {src : Val} {k : Int} (hk : litSize src = some k) :
    ExpandMacros.substVal args src = .ok src := by
  have := litSize_isRegister hk
  cases src <;> simp [Builder.isRegister] at this <;> rfl

/-- **the substituted index is out of range**: inside a macro body, `src[p]` with `src` a register of literal size `k` and the
parameter `p` bound by the call to the integer `i` outside `0 .. k-1` — the expansion of the call raises `JaqalError` -/
theorem C14_macro_index_rejected (args : List (String × Val)) (nm p : String) (kd : Kind) (src : Val) (i k : Int)
    (hl : ExpandMacros.lookupArg args p = some (.int i)) (hk : litSize src = some k) (hout : i < 0 ∨ k ≤ i) :
    ∃ r, ExpandMacros.substVal args (.qubit nm src (.param p kd)) = .error (.jaqal r) := by
  have hr := litSize_isRegister hk
  have harr : ExpandMacros.isArrayLike src = true := by cases src <;> simp [Builder.isRegister] at hr <;> rfl
  have hsa : ExpandMacros.avKind? src = none := by cases src <;> simp [Builder.isRegister] at hr <;> rfl
  have hnn : (src == Val.none) = false := by cases src <;> simp [Builder.isRegister] at hr <;> rfl
  obtain ⟨n, hn⟩ : ∃ n, src.name? = some n := by cases src <;> simp [Builder.isRegister] at hr <;> exact ⟨_, rfl⟩
  have hsz : ExpandMacros.sizeForCheck src = .ok (some k) := by
    unfold ExpandMacros.sizeForCheck
    rw [resolveSize_lit src k hk]
    rfl
  have hchk : ExpandMacros.checkQubit src (.int i) = .error (.jaqal "index-out-of-range") := by
    have hb : (decide (i < 0) || decide (i ≥ k)) = true := by
      rcases hout with h | h <;> simp [h]
    have hnone : (Val.int i == Val.none || src == Val.none) = false := by rw [hnn]; rfl
    unfold ExpandMacros.checkQubit
    simp only [hnone, Bool.false_eq_true, if_false]
    have hia : ExpandMacros.avKind? (Val.int i) = none := rfl
    rw [hia, hsa]
    simp only [hsz, bind, Except.bind, hb, if_true]
  have hget : ExpandMacros.getItem src (.int i) = .error (.jaqal "index-out-of-range") := by
    unfold ExpandMacros.getItem
    cases src <;> simp [Builder.isRegister] at hr <;>
      simp only [hn] <;> simp [hchk, bind, Except.bind]
  simp only [ExpandMacros.substVal, substVal_lit hk, harr, hl, bind, Except.bind, Bool.not_true, Bool.false_eq_true, if_false]
  by_cases hfit : GateDef.fits kd (.int i) = true
  · simp only [hfit, if_true, pure, Except.pure, ExpandMacros.filterFloat, hget]
    exact ⟨_, rfl⟩
  · simp only [hfit, Bool.false_eq_true, if_false]
    exact ⟨_, rfl⟩

/-- **the argument has the wrong kind**: a parameter bound by the call to a value that does not fit its declared kind -/
theorem C14_macro_kind_rejected (args : List (String × Val)) (p : String) (k : Kind) (a : Val)
    (hl : ExpandMacros.lookupArg args p = some a) (hfit : GateDef.fits k a = false) :
    ExpandMacros.substVal args (.param p k) = .error (.jaqal "type-check") := by
  simp [ExpandMacros.substVal, hl, hfit]

/-- … and a parameter that is INDEXED in the macro body but bound by the call to something that is no register (a qubit, a
number): `JaqalError`, whatever the index -/
theorem C14_macro_not_register_rejected (args : List (String × Val)) (nm r : String) (k : Kind) (idx a : Val)
    (hl : ExpandMacros.lookupArg args r = some a) (hna : ExpandMacros.isArrayLike a = false) :
    ∃ rr, ExpandMacros.substVal args (.qubit nm (.param r k) idx) = .error (.jaqal rr) := by
  by_cases hfit : GateDef.fits k a = true
  · exact ⟨"not-a-register", by simp [ExpandMacros.substVal, hl, hfit, hna, bind, Except.bind, pure, Except.pure]⟩
  · exact ⟨"type-check", by simp [ExpandMacros.substVal, hl, hfit, bind, Except.bind]⟩

/-! ### 3. Both orders -/

/-- **C14, both orders of the two passes** on a parsed circuit: `fill_in_let` then `expand_macros`, or `expand_macros` then
`fill_in_let` — either way the result is `KnownRefsOK`; after `… ; expand_macros` no macro call is left, after `… ; fill_in_let` no
let-constant is left.  (`C14_stage_order_full` below: both at once in both orders.) -/
theorem C14_stage_order (cfg : Config) (txt : String) (ov : List (String × Num)) (p : Bool) (c : Circuit)
    (hp : Pipeline.parseProgram cfg txt = .ok c) :
    (∀ c1 c2, fillInLet ov c = .ok c1 → ExpandMacros.expandMacros p c1 = .ok c2 →
      KnownRefsOK c1 ∧ NoConstRefs c1 ∧ KnownRefsOK c2 ∧ ExpandMacros.noCalls c1.macros c2.body = true) ∧
    (∀ c1 c2, ExpandMacros.expandMacros p c = .ok c1 → fillInLet ov c1 = .ok c2 →
      KnownRefsOK c1 ∧ ExpandMacros.noCalls c.macros c1.body = true ∧ KnownRefsOK c2 ∧ NoConstRefs c2) := by
  have hL := Passes.parsed_legal cfg txt c hp
  have hk := parsed_knownRefs hp
  refine ⟨fun c1 c2 h1 h2 => ?_, fun c1 c2 h1 h2 => ?_⟩
  · have hL1 : Passes.Legal c1 := Passes.C10_legal_seq_parsed cfg txt [.let_ ov] c c1 hp (by simp [Passes.applySeq, Passes.apply, h1, Except.bind, pure, Except.pure])
    obtain ⟨k1, n1⟩ := let_knownRefs hL hk h1
    obtain ⟨k2, nc⟩ := C14_stage_macros_legal hL1 k1 h2
    exact ⟨k1, n1, k2, nc⟩
  · have hL1 : Passes.Legal c1 := Passes.C10_legal_seq_parsed cfg txt [.macros p] c c1 hp (by simp [Passes.applySeq, Passes.apply, h1, Except.bind, pure, Except.pure])
    obtain ⟨k1, nc⟩ := C14_stage_macros_legal hL hk h1
    obtain ⟨k2, n2⟩ := let_knownRefs hL1 k1 h2
    exact ⟨k1, nc, k2, n2⟩

/-- NOT proved: both facts at once in both orders — after `fill_in_let ; expand_macros` also no let-constant is left (the
substitution of constant-free arguments into constant-free bodies makes no constant: the induction of
`Lemmas/RefsStages.lean: replStmt_valOK` once more, for `FillIn.noConst`), and after `expand_macros ; fill_in_let` also no macro call
is left (`C05_frame`: the rebuild keeps the gate names, `noCalls` reads nothing else).  In `run_jaqal_circuit`'s own order the
stronger `C14_refs_after_passes` holds (`FlatT`: no constant, no parameter, no call). -/
def C14_stage_order_full : Prop :=
  ∀ (cfg : Config) (txt : String) (ov : List (String × Num)) (p : Bool) (c : Circuit),
    Pipeline.parseProgram cfg txt = .ok c →
    (∀ c1 c2, fillInLet ov c = .ok c1 → ExpandMacros.expandMacros p c1 = .ok c2 →
      KnownRefsOK c2 ∧ NoConstRefs c2 ∧ ExpandMacros.noCalls c1.macros c2.body = true) ∧
    (∀ c1 c2, ExpandMacros.expandMacros p c = .ok c1 → fillInLet ov c1 = .ok c2 →
      KnownRefsOK c2 ∧ NoConstRefs c2 ∧ ExpandMacros.noCalls c.macros c2.body = true)

/-! ### 4. The capstone: nothing with a determined bad reference reaches the emulator -/

mutual
  theorem os_gates : ∀ (s : Stmt), OS s → ∀ g ∈ gatesOf s, ∀ a ∈ g.2.2, VOK a.2
    | .gate n gd args, h, g, hg, a, ha => by
      simp only [gatesOf, List.mem_singleton] at hg
      subst hg
      exact h a ha
    | .block _ _ _ body, h, g, hg, a, ha => by
      simp only [gatesOf] at hg
      exact osl_gates body h.2.2 g hg a ha
    | .loop _ b, h, g, hg, a, ha => by
      simp only [gatesOf] at hg
      exact os_gates b h g hg a ha
  theorem osl_gates : ∀ (l : List Stmt), OSL l → ∀ g ∈ gatesOfList l, ∀ a ∈ g.2.2, VOK a.2
    | [], _, g, hg, _, _ => by simp [gatesOfList] at hg
    | s :: r, h, g, hg, a, ha => by
      simp only [gatesOfList, List.mem_append] at hg
      rcases hg with hg | hg
      · exact os_gates s h.1 g hg a ha
      · exact osl_gates r h.2 g hg a ha
end

/-- a closed typed argument with a value in the specification is honoured by the library's resolution, inside every level -/
theorem honoured_of_eval {v : Val} {sa : SArg} (ht : argT v = true) (h : evalArg [] [] v = .ok sa)
    (hq : isQuantum v = true) : ArgHonoured Within v := by
  have hag := argAgree_spec ht h
  apply ArgHonoured.within ht
  cases v with
  | qubit n s i =>
    simp only [evalArg] at h
    obtain ⟨q, _, h⟩ := bind_ok h
    simp only [pure, Except.pure, Except.ok.injEq] at h
    subst h
    exact Or.inl ⟨q.1, q.2, qubitHonoured_of_resolve hag⟩
  | regF n sz =>
    simp only [evalArg] at h
    obtain ⟨qs, _, h⟩ := bind_ok h
    simp only [pure, Except.pure, Except.ok.injEq] at h
    subst h
    exact Or.inr (regIndices_ok rfl hag.1)
  | regA n src =>
    simp only [evalArg] at h
    obtain ⟨qs, _, h⟩ := bind_ok h
    simp only [pure, Except.pure, Except.ok.injEq] at h
    subst h
    exact Or.inr (regIndices_ok rfl hag.1)
  | regS n src a b c =>
    simp only [evalArg] at h
    obtain ⟨qs, _, h⟩ := bind_ok h
    simp only [pure, Except.pure, Except.ok.injEq] at h
    subst h
    exact Or.inr (regIndices_ok rfl hag.1)
  | int _ => simp [isQuantum, Resolve.isRegister] at hq
  | flt _ => simp [isQuantum, Resolve.isRegister] at hq
  | const _ _ => simp [isQuantum, Resolve.isRegister] at hq
  | param _ _ => simp [isQuantum, Resolve.isRegister] at hq
  | none => simp [isQuantum, Resolve.isRegister] at hq
  | str _ => simp [isQuantum, Resolve.isRegister] at hq

/-- every reference of the circuit handed to the emulator is DETERMINED (`argT`: a number, a register sized and sliced by
integers, or a qubit of such a register with an integer index — no macro parameter, no macro call: `FlatT`) and HONOURED: it has a
value in the specification, the library's resolution computes that value (`ArgAgree`), and the index lies inside the size of
every level of its alias chain (`ArgHonoured Within`) -/
def AllRefsHonoured (x : Circuit) : Prop :=
  ∀ g ∈ gatesOf x.body, ∀ a ∈ g.2.2, argT a.2 = true ∧ (∃ sa, evalArg [] [] a.2 = .ok sa ∧ ArgAgree a.2 sa) ∧
    (isQuantum a.2 = true → ArgHonoured Within a.2)

/-- **What reaches the emulator.** For a parsed program and any override list: if the three passes succeed, the circuit they
produce is flat and typed, `KnownRefsOK`, and ALL its references are determined and honoured. -/
theorem C14_refs_after_passes (cfg : Config) (txt : String) (ov : List (String × Num)) (c x : Circuit)
    (hp : Pipeline.parseProgram cfg txt = .ok c) (hx : expandAll ov c = .ok x) :
    FlatT x = true ∧ KnownRefsOK x ∧ AllRefsHonoured x := by
  have hf := flatOf_all cfg ov txt c x hp hx
  unfold expandAll at hx
  obtain ⟨c1, h1, hx⟩ := bind_ok hx
  obtain ⟨c2, h2, hx⟩ := bind_ok hx
  have hff := parsed_filled hp h1 h2
  have hos := expand_vok hff.pre hff.vsBody hff.vsMacros hx
  refine ⟨hf, (C14_stage_macros_filled cfg txt ov false c c1 c2 x hp h1 h2 hx).1, ?_⟩
  intro g hg a ha
  have ht := FlatT_args hf g hg a ha
  obtain ⟨sa, hsa⟩ := evOK_of_vok ht (os_gates x.body hos g hg a ha)
  exact ⟨ht, ⟨sa, hsa, argAgree_spec ht hsa⟩, honoured_of_eval ht hsa⟩

/-- **C14, capstone: refused at the latest when the value becomes known.**  `run_jaqal_circuit` applies `expand_subcircuits`,
`fill_in_let ov`, `expand_macros` and then executes.  If the run of a parsed program is refused, then

* a pass refused it — `fill_in_let` (class `Good`: `JaqalError`, see the header) or `expand_macros` (`JaqalError`), or
  `expand_subcircuits` (which reads no reference) —, or
* the three passes succeeded, and then EVERY reference of the circuit handed to the emulator is determined and honoured
  (`AllRefsHonoured`): the refusal (a `JaqalError`) is not about a reference — nothing with a bad reference reaches the emulator.

"Determined": a reference is determined at `fill_in_let` when it is `closedRef` (no macro parameter as its source or index; its
value is `Sem.evalArg (normOv ov) []` of it) — a bad one is refused THERE (`C14_stage_let_rejects`, `…_register`); every other
reference (through a macro parameter) is determined when the call is expanded — a bad one is refused by `expand_macros`
(`C14_stage_macros_rejects`, `C14_macro_index_rejected`, `C14_macro_kind_rejected`); after the three passes nothing is left
undetermined (`argT`).  Literal references were checked when the circuit was built (`C14_sound`). -/
theorem C14_latest_when_known (cfg : Config) (txt : String) (ov : List (String × Num)) (c : Circuit) (e : Err)
    (hp : Pipeline.parseProgram cfg txt = .ok c) (hrun : runCircuit ov c = .error e) :
    ExpandSubcircuits.expandSubcircuits none none c = .error e ∨
    (∃ c1, ExpandSubcircuits.expandSubcircuits none none c = .ok c1 ∧ fillInLet ov c1 = .error e ∧ Good e) ∨
    (∃ c1 c2 r, ExpandSubcircuits.expandSubcircuits none none c = .ok c1 ∧ fillInLet ov c1 = .ok c2 ∧
      ExpandMacros.expandMacros false c2 = .error e ∧ e = .jaqal r) ∨
    (∃ x r, expandAll ov c = .ok x ∧ execute x = .error e ∧ e = .jaqal r ∧ FlatT x = true ∧ KnownRefsOK x ∧
      AllRefsHonoured x) := by
  cases h1 : ExpandSubcircuits.expandSubcircuits none none c with
  | error e1 =>
    left
    simp only [runCircuit, expandAll, h1, bind, Except.bind] at hrun
    cases hrun; rfl
  | ok c1 =>
    right
    cases h2 : fillInLet ov c1 with
    | error e2 =>
      left
      simp only [runCircuit, expandAll, h1, h2, bind, Except.bind] at hrun
      cases hrun
      exact ⟨c1, rfl, h2, fillInClass_all cfg ov txt c c1 hp h1 e h2⟩
    | ok c2 =>
      right
      cases h3 : ExpandMacros.expandMacros false c2 with
      | error e3 =>
        left
        simp only [runCircuit, expandAll, h1, h2, h3, bind, Except.bind] at hrun
        cases hrun
        obtain ⟨r, hr⟩ := ExpandMacros.C04_total_class false c2 (parsed_filled hp h1 h2).wf e h3
        exact ⟨c1, c2, r, rfl, h2, h3, hr⟩
      | ok x =>
        right
        have hx : expandAll ov c = .ok x := by simp only [expandAll, h1, h2, h3, bind, Except.bind]
        have hex : execute x = .error e := by
          simpa only [runCircuit, hx, bind, Except.bind] using hrun
        obtain ⟨hf, hk, hh⟩ := C14_refs_after_passes cfg txt ov c x hp hx
        obtain ⟨r, hr⟩ := execute_jaqal hf hex
        exact ⟨x, r, hx, hex, hr, hf, hk, hh⟩

/-- … in particular the premise of `C14_bad_qubit_not_honoured` / `C14_run_bad_ref_rejected` (a qubit argument whose chain is not
allowed at some level) is never met by a circuit the passes produced: the emulator is never the first to see a bad reference -/
theorem C14_emulator_never_first (cfg : Config) (txt : String) (ov : List (String × Num)) (c x : Circuit)
    (hp : Pipeline.parseProgram cfg txt = .ok c) (hx : expandAll ov c = .ok x) :
    ∀ g ∈ gatesOf x.body, ∀ a ∈ g.2.2, ∀ n s i, a.2 = .qubit n s i → QubitChain Within a.2 := by
  intro g hg a ha n s i hq
  obtain ⟨_, _, hh⟩ := (C14_refs_after_passes cfg txt ov c x hp hx).2.2 g hg a ha
  rcases hh (by rw [hq]; simp [isQuantum]) with ⟨r, k, h⟩ | h
  · exact h.chain
  · have := h.1
    rw [hq] at this
    simp [Resolve.isRegister] at this

/-! ### Non-vacuity (evaluated) -/
section Examples

/-- the stage of `run_jaqal_circuit` at which a text (gate set `exCfg`: `X`, `prepare_all`, `measure_all`) is refused -/
def stageOf (ov : List (String × Num)) (txt : String) : String :=
  match Pipeline.parseProgram exCfg txt with
  | .error _ => "parse"
  | .ok c =>
    match ExpandSubcircuits.expandSubcircuits none none c with
    | .error _ => "expand_subcircuits"
    | .ok c1 =>
      match fillInLet ov c1 with
      | .error (.jaqal _) => "fill_in_let: JaqalError"
      | .error _ => "fill_in_let: other"
      | .ok c2 =>
        match ExpandMacros.expandMacros false c2 with
        | .error (.jaqal _) => "expand_macros: JaqalError"
        | .error _ => "expand_macros: other"
        | .ok x => match execute x with | .ok _ => "ran" | .error _ => "execute"

/-- `let k 0; register q[2]; prepare_all; X q[k]; measure_all` -/
def exLet : String := "let k 0\nregister q[2]\nprepare_all\nX q[k]\nmeasure_all\n"
-- an index by a let: accepted as written and with the override `k = 1`; overridden out of range it is refused by `fill_in_let`
example : stageOf [] exLet = "ran" := by decide +kernel
example : stageOf [("k", .int 2)] exLet = "fill_in_let: JaqalError" := by decide +kernel

/-- `register q[2]; macro m i { X q[i] }; prepare_all; m <arg>; measure_all` -/
def exMac (arg : String) : String := "register q[2]\nmacro m i { X q[i] }\nprepare_all\nm " ++ arg ++ "\nmeasure_all\n"
-- an index by a macro argument: `m 2` is accepted by the parser and by `fill_in_let`, refused by `expand_macros`; `m 1` runs
example : stageOf [] (exMac "1") = "ran" := by decide +kernel
example : stageOf [] (exMac "2") = "expand_macros: JaqalError" := by decide +kernel

-- a strided alias of a strided alias (`Props/C14Run.lean: exAlias`: `a = q[1:6:2]`, `b = a[0:3:2]`, `X b[k]`): `b` has 2 elements
example : stageOf [("k", .int 1)] exAlias = "ran" := by decide +kernel
example : stageOf [("k", .int 2)] exAlias = "fill_in_let: JaqalError" := by decide +kernel
-- … indexed through a macro argument
example : stageOf [] "register q[6]\nmap a q[1:6:2]\nmap b a[0:3:2]\nmacro m i { X b[i] }\nprepare_all\nm 2\nmeasure_all\n" =
    "expand_macros: JaqalError" := by decide +kernel
-- … and a slice bound that is a let, overridden so that the alias of the alias leaves its source: a DECLARATION refused by
-- `fill_in_let` although no gate uses it
example : stageOf [("n", .int 5)] "let n 2\nregister q[6]\nmap a q[1:6:2]\nmap b a[0:n:2]\nprepare_all\nX q[0]\nmeasure_all\n" =
    "fill_in_let: JaqalError" := by decide +kernel

/-- the hypotheses of `C14_stage_let_rejects`, evaluated on `exLet` under `k = 2`: some gate argument of the spelled-out circuit is
determined by literals and lets and has no value in the specification -/
def exBadArgs (ov : List (String × Num)) (txt : String) : Option (List (Bool × Bool)) :=
  match Pipeline.parseProgram exCfg txt with
  | .ok c =>
    match ExpandSubcircuits.expandSubcircuits none none c with
    | .ok c1 => some (((gatesOf c1.body).flatMap (·.2.2)).map (fun a =>
        (closedRef a.2, match evalArg (normOv ov) [] a.2 with | .error _ => true | .ok _ => false)))
    | .error _ => none
  | .error _ => none
example : exBadArgs [("k", .int 2)] exLet = some [(true, true)] := by decide +kernel

/-- the hypothesis of `C14_stage_macros_rejects`, evaluated on `exMac "2"`: the filled circuit has no meaning -/
def exNoMeaning (ov : List (String × Num)) (txt : String) : Option Bool :=
  match Pipeline.parseProgram exCfg txt with
  | .ok c =>
    match ExpandSubcircuits.expandSubcircuits none none c with
    | .ok c1 => match fillInLet ov c1 with
      | .ok c2 => some (match meaning [] c2 with | .error _ => true | .ok _ => false)
      | .error _ => none
    | .error _ => none
  | .error _ => none
example : exNoMeaning [] (exMac "2") = some true := by decide +kernel

-- the value-level rejections
example : ∃ r, ExpandMacros.substVal [("i", .int 2)] (.qubit "q[i]" (.regF "q" (.int 2)) (.param "i" .none)) = .error (.jaqal r) :=
  C14_macro_index_rejected _ _ _ _ _ 2 2 rfl rfl (Or.inr (by omega))
example : ExpandMacros.substVal [("i", .int 1)] (.qubit "q[i]" (.regF "q" (.int 2)) (.param "i" .none)) =
    .ok (.qubit "q[1]" (.regF "q" (.int 2)) (.int 1)) := by decide +kernel

-- `KnownRefsOK` is decidable (`knownRefsB_iff`): the conclusion of `C14_stage_let`, evaluated on `exLet` under `k = 1`
example : (match Pipeline.parseProgram exCfg exLet with
    | .ok c => (match fillInLet [("k", .int 1)] c with | .ok c' => decide (KnownRefsOK c') | .error _ => false)
    | .error _ => false) = true := by decide +kernel

end Examples

end Jaqal.Stages

#print axioms Jaqal.Stages.C14_stage_let
#print axioms Jaqal.Stages.C14_stage_let_rejects
#print axioms Jaqal.Stages.C14_stage_let_rejects_register
#print axioms Jaqal.Stages.C14_stage_macros
#print axioms Jaqal.Stages.C14_stage_macros_legal
#print axioms Jaqal.Stages.C14_stage_macros_filled
#print axioms Jaqal.Stages.C14_stage_macros_rejects
#print axioms Jaqal.Stages.C14_stage_source_rejects
#print axioms Jaqal.Stages.C14_macro_index_rejected
#print axioms Jaqal.Stages.C14_macro_kind_rejected
#print axioms Jaqal.Stages.C14_macro_not_register_rejected
#print axioms Jaqal.Stages.C14_stage_order
#print axioms Jaqal.Stages.C14_refs_after_passes
#print axioms Jaqal.Stages.C14_latest_when_known
#print axioms Jaqal.Stages.C14_emulator_never_first
