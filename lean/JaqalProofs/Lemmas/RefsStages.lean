import JaqalProofs.Props.C03Run
/-!
Lemmas for `Props/C14Stages.lean`: what the constructors check on literals (`Builder.ValOK`, C14) stage by stage.

* `KnownRefsOK` — the declarative predicate on a circuit: every value occurring in it (register declarations, gate arguments,
  loop counts and subcircuit counts of the body and of every macro body) is `ValOK`; `refOKb` is its boolean checker
  (`refOKb_iff`), so `KnownRefsOK` of a concrete circuit is decidable.
* `substVal_valOK` … `expand_knownRefs` — `expand_macros` keeps `ValOK`: a parameter is replaced by an argument of the call
  (valid at the call site), a qubit reference is rebuilt by `alias_from[index]`, i.e. passes `NamedQubit.__init__` again
  (`checkQubit_lit`: a literal index into a register of literal size is checked against that size).
* `Rel_in` — the facts about the values `fill_in_let` returns, pulled back to the values it was given.
-/
namespace Jaqal.Stages
open Jaqal Jaqal.Builder Jaqal.ExpandMacros Jaqal.FillIn

/-! ### The predicate -/

/-- Every qubit reference and alias slice occurring anywhere in the circuit — register / alias declarations, gate arguments,
loop and subcircuit counts of the body and of every macro body — is `Builder.ValOK`: taken from a register or a parameter, and,
when ALL its ingredients are integer literals (the index, the bounds of the slice, the size of the source resolved through an
alias chain all of whose links are literal: `Builder.litSize`), in range `0 .. size-1` / inside its source with a non-zero
step; a fundamental register of literal size has size ≥ 1.  The predicate mentions neither the builder nor a pass. -/
structure KnownRefsOK (c : Circuit) : Prop where
  registers : ∀ v ∈ c.registers, ValOK v
  body : AllVals ValOK c.body
  macros : ∀ m ∈ c.macros, AllVals ValOK m.body

/-- no let-constant is left in a reference: no qubit index, register size or slice bound (along the whole alias chain) and no
gate argument / count is a constant (`FillIn.noConst`) -/
structure NoConstRefs (c : Circuit) : Prop where
  registers : ∀ v ∈ c.registers, noConst v = true
  body : AllVals (fun v => noConst v = true) c.body
  macros : ∀ m ∈ c.macros, AllVals (fun v => noConst v = true) m.body

/-! ### `expand_macros` keeps `ValOK` -/

theorem isArrayLike_class {s : Val} (h : isArrayLike s = true) : Builder.isRegister s = true ∨ Builder.isParam s = true := by
  cases s <;> simp [isArrayLike] at h <;> first | exact Or.inl rfl | exact Or.inr rfl

/-- `NamedQubit.__init__` on a literal index and a source of literal size: the index is in range -/
theorem checkQubit_lit {s : Val} {i k : Int} (hk : litSize s = some k) (h : checkQubit s (.int i) = .ok ()) :
    0 ≤ i ∧ i < k := by
  have hr := litSize_isRegister hk
  have hsa : avKind? s = none := by cases s <;> simp [Builder.isRegister] at hr <;> rfl
  have hia : avKind? (Val.int i) = none := rfl
  have hsz : sizeForCheck s = .ok (some k) := by
    unfold sizeForCheck
    rw [resolveSize_lit s k hk]
    rfl
  unfold checkQubit at h
  split at h
  · cases h
  · rw [hia, hsa] at h
    simp only [hsz, bind, Except.bind] at h
    by_cases hc : (decide (i < 0) || decide (i ≥ k)) = true
    · simp only [hc, if_true] at h
      cases h
    · simp only [Bool.or_eq_true, decide_eq_true_eq, not_or, Int.not_lt, ge_iff_le, Int.not_le] at hc
      exact hc

theorem getItem_valOK {s i w : Val} (hs : ValOK s) (hc : Builder.isRegister s = true ∨ Builder.isParam s = true)
    (h : ExpandMacros.getItem s i = .ok w) : ValOK w := by
  unfold ExpandMacros.getItem at h
  split at h
  · cases h
  · cases h
  · obtain ⟨u, hu, h⟩ := bind_ok h
    obtain ⟨nm, _, h⟩ := bind_ok h
    simp only [pure, Except.pure, Except.ok.injEq] at h
    subst h
    refine ⟨hs, hc, ?_⟩
    intro j k hj hk
    subst hj
    cases u
    exact checkQubit_lit hk hu
  · cases h

/-- a value of a macro body with the arguments of a call substituted: valid if the arguments and the value were -/
theorem substVal_valOK {args : List (String × Val)} (hargs : ∀ e ∈ args, ValOK e.2) :
    ∀ (v w : Val), ValOK v → substVal args v = .ok w → ValOK w := by
  intro v
  induction v with
  | param n k =>
    intro w _ h
    simp only [substVal] at h
    cases hl : lookupArg args n with
    | none => rw [hl] at h; simp only [pure, Except.pure, Except.ok.injEq] at h; subst h; trivial
    | some a =>
      rw [hl] at h
      simp only at h
      split at h
      · simp only [pure, Except.pure, Except.ok.injEq] at h
        subst h
        unfold lookupArg at hl
        cases hf : args.find? (fun x => x.1 == n) with
        | none => rw [hf] at hl; cases hl
        | some e =>
          rw [hf] at hl
          simp only [Option.map_some, Option.some.injEq] at hl
          subst hl
          exact hargs e (List.mem_of_find?_eq_some hf)
      · cases h
  | qubit nm src idx ihs _ =>
    intro w hv h
    simp only [ValOK] at hv
    simp only [substVal] at h
    obtain ⟨s, hs, h⟩ := bind_ok h
    split at h
    · cases h
    · rename_i ha
      obtain ⟨i, _, h⟩ := bind_ok h
      have ha' : isArrayLike s = true := by simpa using ha
      exact getItem_valOK (ihs s hv.1 hs) (isArrayLike_class ha') h
  | int _ => intro w hv h; simp only [substVal, pure, Except.pure, Except.ok.injEq] at h; subst h; exact hv
  | flt _ => intro w hv h; simp only [substVal, pure, Except.pure, Except.ok.injEq] at h; subst h; exact hv
  | const _ _ _ => intro w hv h; simp only [substVal, pure, Except.pure, Except.ok.injEq] at h; subst h; exact hv
  | regF _ _ _ => intro w hv h; simp only [substVal, pure, Except.pure, Except.ok.injEq] at h; subst h; exact hv
  | regA _ _ _ => intro w hv h; simp only [substVal, pure, Except.pure, Except.ok.injEq] at h; subst h; exact hv
  | regS _ _ _ _ _ _ _ _ _ => intro w hv h; simp only [substVal, pure, Except.pure, Except.ok.injEq] at h; subst h; exact hv
  | none => intro w hv h; simp only [substVal, pure, Except.pure, Except.ok.injEq] at h; subst h; exact hv
  | str _ => intro w hv h; simp only [substVal, pure, Except.pure, Except.ok.injEq] at h; subst h; exact hv

theorem substArgs_valOK {args : List (String × Val)} (hargs : ∀ e ∈ args, ValOK e.2) :
    ∀ (gargs new : List (String × Val)), (∀ a ∈ gargs, ValOK a.2) → substArgs args gargs = .ok new →
      new.map (·.1) = gargs.map (·.1) ∧ ∀ a ∈ new, ValOK a.2
  | [], new, _, h => by simp only [substArgs, pure, Except.pure, Except.ok.injEq] at h; subst h; simp
  | (n, v) :: rest, new, hg, h => by
    simp only [substArgs] at h
    obtain ⟨v', h1, h⟩ := bind_ok h
    obtain ⟨rest', h2, h⟩ := bind_ok h
    simp only [pure, Except.pure, Except.ok.injEq] at h
    subst h
    obtain ⟨i1, i2⟩ := substArgs_valOK hargs rest rest' (fun a ha => hg a (by simp [ha])) h2
    refine ⟨by simp [i1], ?_⟩
    intro a ha
    rcases List.mem_cons.1 ha with rfl | ha
    · exact substVal_valOK hargs v v' (hg (n, v) (by simp)) h1
    · exact i2 a ha

theorem allValsList_append {Q : Val → Prop} : ∀ (a b : List Stmt), AllValsList Q a → AllValsList Q b → AllValsList Q (a ++ b)
  | [], _, _, hb => hb
  | _ :: r, b, ha, hb => ⟨ha.1, allValsList_append r b ha.2 hb⟩

theorem allVals_spliceInto {Q : Val → Prop} (par : Bool) (s : Stmt) (r : List Stmt) (hs : AllVals Q s)
    (hr : AllValsList Q r) : AllValsList Q (spliceInto par s r) := by
  unfold spliceInto
  split
  · split
    · simp only [AllVals] at hs
      exact allValsList_append _ _ hs.2 hr
    · exact ⟨hs, hr⟩
  · exact ⟨hs, hr⟩

/-- the property of `call` (= `replace_gate`) the induction needs -/
def CallOK (call : Stmt → M Stmt) : Prop :=
  ∀ (n : String) (gd : GateDef) (a : List (String × Val)) (g' : Stmt),
    (∀ e ∈ a, ValOK e.2) → call (.gate n gd a) = .ok g' → AllVals ValOK g'

section expand
variable (ms : List Macro)

mutual
  theorem replStmt_valOK (call : Stmt → M Stmt) (hc : CallOK call) (args : List (String × Val))
      (hargs : ∀ e ∈ args, ValOK e.2) :
      ∀ (s s' : Stmt), wfStmt ms s = true → AllVals ValOK s → replStmt call args s = .ok s' → AllVals ValOK s'
    | .gate n gd gargs, s', hw, hv, h => by
      simp only [replStmt] at h
      obtain ⟨new, hnew, h⟩ := bind_ok h
      obtain ⟨g, hg, h⟩ := bind_ok h
      obtain ⟨hnn, hna⟩ := substArgs_valOK hargs gargs new hv hnew
      have hw' := hw
      simp only [wfStmt, wfGate, Bool.and_eq_true, beq_iff_eq, decide_eq_true_eq] at hw'
      obtain ⟨⟨⟨⟨hname, hnames⟩, hnd⟩, hok⟩, hmac⟩ := hw'
      have hnames' : new.map (·.1) = gd.params.map (·.1) := by rw [hnn, hnames]
      have := callKw_ok hg hnames' hnd
      subst this
      exact hc gd.name gd new s' hna h
    | .loop c body, s', hw, hv, h => by
      simp only [replStmt] at h
      obtain ⟨c', hc', h⟩ := bind_ok h
      obtain ⟨b', hb', h⟩ := bind_ok h
      obtain ⟨rfl, _⟩ := mkLoop_ok h
      simp only [wfStmt, Bool.and_eq_true] at hw
      simp only [AllVals] at hv ⊢
      exact ⟨substVal_valOK hargs c c' hv.1 hc', replStmt_valOK call hc args hargs body b' hw.2 hv.2 hb'⟩
    | .block par sub it body, s', hw, hv, h => by
      simp only [replStmt] at h
      obtain ⟨stmts, hs, h⟩ := bind_ok h
      obtain ⟨it', hit', h⟩ := bind_ok h
      rw [mkBlock_ok h]
      simp only [wfStmt, Bool.and_eq_true] at hw
      simp only [AllVals] at hv ⊢
      exact ⟨fun hsub => substVal_valOK hargs it it' (hv.1 hsub) hit',
        replList_valOK call hc args hargs par body stmts hw.2 hv.2 hs⟩
  theorem replList_valOK (call : Stmt → M Stmt) (hc : CallOK call) (args : List (String × Val))
      (hargs : ∀ e ∈ args, ValOK e.2) (par : Bool) :
      ∀ (l l' : List Stmt), wfStmtList ms l = true → AllValsList ValOK l → replList call args par l = .ok l' →
        AllValsList ValOK l'
    | [], l', _, _, h => by simp only [replList, pure, Except.pure] at h; cases h; trivial
    | s :: r, l', hw, hv, h => by
      simp only [replList] at h
      obtain ⟨s', hs', h⟩ := bind_ok h
      obtain ⟨r', hr', h⟩ := bind_ok h
      simp only [pure, Except.pure, Except.ok.injEq] at h
      subst h
      simp only [wfStmtList, Bool.and_eq_true] at hw
      exact allVals_spliceInto par s' r' (replStmt_valOK call hc args hargs s s' hw.1 hv.1 hs')
        (replList_valOK call hc args hargs par r r' hw.2 hv.2 hr')
end

/-- `replace_gate` with any fuel: the expansion of a call with valid arguments is valid, given that every macro body is -/
theorem replaceGate_valOK (hwf : ∀ m ∈ ms, wfStmt ms m.body = true) (hvm : ∀ m ∈ ms, AllVals ValOK m.body) :
    ∀ (fuel : Nat), CallOK (replaceGate ms fuel) := by
  intro fuel
  induction fuel with
  | zero =>
    intro n gd a g' ha h
    simp only [replaceGate] at h
    cases hf : findMacro ms n with
    | none => rw [hf] at h; simp only [pure, Except.pure] at h; cases h; exact ha
    | some m => rw [hf] at h; simp only at h; split at h <;> cases h
  | succ f ih =>
    intro n gd a g' ha h
    simp only [replaceGate] at h
    cases hf : findMacro ms n with
    | none => rw [hf] at h; simp only [pure, Except.pure] at h; cases h; exact ha
    | some m =>
      rw [hf] at h; simp only at h
      split at h
      · cases h
      · have hmem : m ∈ ms := List.mem_of_find?_eq_some hf
        exact replStmt_valOK ms (replaceGate ms f) ih a ha m.body g' (hwf m hmem) (hvm m hmem) h

mutual
  theorem expStmt_valOK (call : Stmt → M Stmt) (hc : CallOK call) :
      ∀ (s s' : Stmt), AllVals ValOK s → expStmt call s = .ok s' → AllVals ValOK s'
    | .gate n gd gargs, s', hv, h => by
      simp only [expStmt] at h
      exact hc n gd gargs s' hv h
    | .loop c body, s', hv, h => by
      simp only [expStmt] at h
      obtain ⟨b', hb', h⟩ := bind_ok h
      obtain ⟨rfl, _⟩ := mkLoop_ok h
      simp only [AllVals] at hv ⊢
      exact ⟨hv.1, expStmt_valOK call hc body b' hv.2 hb'⟩
    | .block par sub it body, s', hv, h => by
      simp only [expStmt] at h
      obtain ⟨stmts, hs, h⟩ := bind_ok h
      rw [mkBlock_ok h]
      simp only [AllVals] at hv ⊢
      exact ⟨hv.1, expList_valOK call hc par body stmts hv.2 hs⟩
  theorem expList_valOK (call : Stmt → M Stmt) (hc : CallOK call) (par : Bool) :
      ∀ (l l' : List Stmt), AllValsList ValOK l → expList call par l = .ok l' → AllValsList ValOK l'
    | [], l', _, h => by simp only [expList, pure, Except.pure] at h; cases h; trivial
    | s :: r, l', hv, h => by
      simp only [expList] at h
      obtain ⟨s', hs', h⟩ := bind_ok h
      obtain ⟨r', hr', h⟩ := bind_ok h
      simp only [pure, Except.pure, Except.ok.injEq] at h
      subst h
      exact allVals_spliceInto par s' r' (expStmt_valOK call hc s s' hv.1 hs') (expList_valOK call hc par r r' hv.2 hr')
end

end expand

theorem iterStmts_valOK : ∀ (s : Stmt) (l : List Stmt), AllVals ValOK s → iterStmts s = .ok l → AllValsList ValOK l
  | .gate _ _ _, l, _, h => by cases h
  | .block _ _ _ b, l, hv, h => by
    simp only [iterStmts, pure, Except.pure, Except.ok.injEq] at h; subst h; simp only [AllVals] at hv; exact hv.2
  | .loop _ b, l, hv, h => by
    simp only [iterStmts] at h; simp only [AllVals] at hv; exact iterStmts_valOK b l hv.2 h

/-- **`expand_macros` keeps `KnownRefsOK`**, for every circuit whose gate statements bind one argument per parameter of their
definition (`ExpandMacros.WellFormed`: all the builder produces, kept by the passes) -/
theorem expand_knownRefs {p : Bool} {c x : Circuit} (hw : ExpandMacros.WellFormed c = true) (hk : KnownRefsOK c)
    (h : expandMacros p c = .ok x) : KnownRefsOK x := by
  simp only [ExpandMacros.WellFormed, Bool.and_eq_true] at hw
  have hwm : ∀ m ∈ c.macros, wfStmt c.macros m.body = true := Passes.wfMacrosFrom_mem (ms := c.macros) [] c.macros hw.1.1.1.1
  unfold expandMacros at h
  obtain ⟨body, hbody, h⟩ := bind_ok h
  obtain ⟨stmts, hstmts, h⟩ := bind_ok h
  simp only [pure, Except.pure, Except.ok.injEq] at h
  subst h
  have hcall := replaceGate_valOK c.macros hwm hk.macros c.macros.length
  have hb := expStmt_valOK _ hcall c.body body hk.body hbody
  have hl : AllValsList ValOK stmts := by
    cases body with
    | block par sub it b =>
      simp only [statementsOf, pure, Except.pure, Except.ok.injEq] at hstmts; subst hstmts
      simp only [AllVals] at hb; exact hb.2
    | gate _ _ _ => cases hstmts
    | loop cnt b =>
      simp only [statementsOf] at hstmts; simp only [AllVals] at hb; exact iterStmts_valOK b stmts hb.2 hstmts
  refine ⟨hk.registers, ⟨fun hx => (by cases hx), hl⟩, ?_⟩
  intro m hm
  cases p with
  | true => exact hk.macros m (by simpa using hm)
  | false => simp at hm

/-! ### `expand_subcircuits` keeps `KnownRefsOK` -/

open Jaqal.ExpandSubcircuits Jaqal.RunModel in
/-- the subcircuit blocks are spelled out with `prepare_all` / `measure_all` statements, which have no argument -/
theorem subs_knownRefs {c c1 : Circuit} (hb : ∃ it b, c.body = .block false false it b) (hk : KnownRefsOK c)
    (hc1 : expandSubcircuits none none c = .ok c1) : KnownRefsOK c1 := by
  obtain ⟨it, b, hb⟩ := hb
  obtain ⟨stmts, hs, _, _, _, _, hc1eq⟩ := ExpandSubcircuits.expand_ok hc1
  have hpg : AllVals ValOK (prepStmt none c) := by intro a ha; cases ha
  have hmg : AllVals ValOK (measStmt none c) := by intro a ha; cases ha
  refine ⟨?_, ?_, ?_⟩
  · rw [hc1eq]; exact hk.registers
  · have h1 := allVals_spell (prepStmt none c) (measStmt none c) hpg hmg c.body hk.body
    rw [hb] at h1 hs
    simp only [spell, Bool.false_eq_true, if_false, ExpandSubcircuits.statementsOf, pure, Except.pure, Except.ok.injEq] at hs h1
    subst hs
    rw [hc1eq]
    simp only [AllVals] at h1 ⊢
    exact ⟨fun hx => (by cases hx), h1.2⟩
  · rw [hc1eq]
    intro m hm
    obtain ⟨m0, hm0, rfl⟩ := List.mem_map.1 hm
    exact allVals_spell _ _ hpg hmg m0.body (hk.macros m0 hm0)

/-! ### `fill_in_let`: from the values it returns back to the values it was given -/

mutual
  /-- every value of a statement the rebuild relates to another one has been visited successfully -/
  theorem Rel_in {F G : Val → M Val} {Q : Val → Prop} (hF : ∀ v v', F v = .ok v' → Q v) (hG : ∀ v v', G v = .ok v' → Q v) :
      ∀ (s s' : Stmt), Rel F G s s' → AllVals Q s
    | .gate n gd args, .gate n' gd' args', h => by
      simp only [Rel] at h
      simp only [AllVals]
      intro a ha
      have : ∀ {l : List (String × Val)} {l' : List (String × Val)},
          List.Forall₂ (fun a a' => F a.2 = .ok a'.2) l l' → ∀ a ∈ l, Q a.2 := by
        intro l l' hh
        induction hh with
        | nil => intro a ha; cases ha
        | cons hab _ ih =>
          intro a ha
          rcases List.mem_cons.1 ha with rfl | ha
          · exact hF _ _ hab
          · exact ih a ha
      exact this h.2 a ha
    | .block par sub it body, .block par' sub' it' body', h => by
      simp only [Rel] at h
      obtain ⟨_, _, hit, hbody⟩ := h
      simp only [AllVals]
      refine ⟨?_, Rel_ins hF hG body body' hbody⟩
      intro hs
      subst hs
      simp only [if_true] at hit
      obtain ⟨c, hc, _⟩ := hit
      exact hG _ _ hc
    | .loop c b, .loop c' b', h => by
      simp only [Rel] at h
      simp only [AllVals]
      exact ⟨hF _ _ h.1, Rel_in hF hG b b' h.2⟩
    | .gate _ _ _, .block _ _ _ _, h | .gate _ _ _, .loop _ _, h
    | .block _ _ _ _, .gate _ _ _, h | .block _ _ _ _, .loop _ _, h
    | .loop _ _, .gate _ _ _, h | .loop _ _, .block _ _ _ _, h => by simp [Rel] at h
  theorem Rel_ins {F G : Val → M Val} {Q : Val → Prop} (hF : ∀ v v', F v = .ok v' → Q v) (hG : ∀ v v', G v = .ok v' → Q v) :
      ∀ (l l' : List Stmt), RelList F G l l' → AllValsList Q l
    | [], [], _ => trivial
    | s :: ss, s' :: ss', h => by
      simp only [RelList] at h
      exact ⟨Rel_in hF hG s s' h.1, Rel_ins hF hG ss ss' h.2⟩
    | [], _ :: _, h | _ :: _, [], h => by simp [RelList] at h
end

open Jaqal.RunModel in
mutual
  theorem allVals_gates {Q : Val → Prop} : ∀ (s : Stmt), AllVals Q s → ∀ g ∈ gatesOf s, ∀ a ∈ g.2.2, Q a.2
    | .gate n gd args, h, g, hg, a, ha => by
      simp only [gatesOf, List.mem_singleton] at hg
      subst hg
      exact h a ha
    | .block _ _ _ body, h, g, hg, a, ha => by
      simp only [AllVals] at h
      simp only [gatesOf] at hg
      exact allValsList_gates body h.2 g hg a ha
    | .loop _ b, h, g, hg, a, ha => by
      simp only [AllVals] at h
      simp only [gatesOf] at hg
      exact allVals_gates b h.2 g hg a ha
  theorem allValsList_gates {Q : Val → Prop} : ∀ (l : List Stmt), AllValsList Q l → ∀ g ∈ gatesOfList l, ∀ a ∈ g.2.2, Q a.2
    | [], _, g, hg, _, _ => by simp [gatesOfList] at hg
    | s :: r, h, g, hg, a, ha => by
      simp only [AllValsList] at h
      simp only [gatesOfList, List.mem_append] at hg
      rcases hg with hg | hg
      · exact allVals_gates s h.1 g hg a ha
      · exact allValsList_gates r h.2 g hg a ha
end

/-! ### A typed constant-free validated value without macro parameters has a value in the specification -/

/-- the value is not a macro parameter and not a reference whose source or index is one: its meaning is determined by literals
and lets alone -/
def closedRef (v : Val) : Bool := noParRef v && !Builder.isParam v

open Jaqal.RunModel Jaqal.Sem in
theorem out_closed_eval {w : Val} (ho : OutT w = true) (hc : closedRef w = true) (hok : ValOK w) :
    ∃ sa, evalArg [] [] w = .ok sa := by
  simp only [closedRef, Bool.and_eq_true, Bool.not_eq_true'] at hc
  have hP : ValP [] w = true := by
    cases w with
    | qubit n src idx =>
      simp only [OutT, Bool.and_eq_true, Bool.or_eq_true] at ho
      have hn := hc.1
      simp only [noParRef, Bool.and_eq_true, Bool.not_eq_true'] at hn
      have hs : RegL src = true := by
        rcases ho.1 with h | h
        · exact h
        · rw [hn.1] at h; cases h
      have hi : isIntL idx = true := by
        rcases ho.2 with h | h
        · exact h
        · rw [hn.2] at h; cases h
      simp [ValP, hs, hi]
    | param n k => simp [Builder.isParam] at hc
    | int _ => rfl
    | flt _ => rfl
    | const _ _ => simpa [ValP, OutT] using ho
    | regF _ _ => simpa [ValP, OutT] using ho
    | regA _ _ => simpa [ValP, OutT] using ho
    | regS _ _ _ _ _ => simpa [ValP, OutT] using ho
    | none => simpa [ValP, OutT] using ho
    | str _ => simpa [ValP, OutT] using ho
  exact evOK_of_vok (ValP_nil_argT hP) (vok_of_valOK hP hok)


/-! ### `KnownRefsOK` is decidable -/

/-- a slice with literal bounds of a source of size `k`: non-zero step, non-negative start, first and last element inside -/
def sliceOKb (ia ib is k : Int) : Bool :=
  decide (is ≠ 0) && decide (0 ≤ ia) &&
    (decide (rangeLenI ia ib is ≤ 0) ||
      (decide (ia < k) && decide (0 ≤ ia + (rangeLenI ia ib is - 1) * is) &&
        decide (ia + (rangeLenI ia ib is - 1) * is < k)))

theorem sliceOKb_iff (ia ib is k : Int) : sliceOKb ia ib is k = true ↔
    (is ≠ 0 ∧ 0 ≤ ia ∧ ∀ j, 0 ≤ j → j < rangeLenI ia ib is → 0 ≤ ia + j * is ∧ ia + j * is < k) := by
  generalize hlen : rangeLenI ia ib is = len
  simp only [sliceOKb, hlen, Bool.and_eq_true, Bool.or_eq_true, decide_eq_true_eq]
  constructor
  · rintro ⟨⟨hs, ha⟩, hd⟩
    refine ⟨hs, ha, fun j hj0 hj => ?_⟩
    rcases hd with hd | ⟨⟨h1, h2⟩, h3⟩
    · omega
    · have e : (len - 1 - j) * is = (len - 1) * is - j * is := by ring
      rcases Int.lt_or_gt_of_ne hs with hneg | hpos
      · have a1 : j * is ≤ 0 := Int.mul_nonpos_of_nonneg_of_nonpos hj0 (by omega)
        have a2 : (len - 1 - j) * is ≤ 0 := Int.mul_nonpos_of_nonneg_of_nonpos (by omega) (by omega)
        constructor <;> linarith
      · have a1 : 0 ≤ j * is := Int.mul_nonneg hj0 (by omega)
        have a2 : 0 ≤ (len - 1 - j) * is := Int.mul_nonneg (by omega) (by omega)
        constructor <;> linarith
  · rintro ⟨hs, ha, hall⟩
    refine ⟨⟨hs, ha⟩, ?_⟩
    by_cases hl : len ≤ 0
    · exact Or.inl hl
    · right
      have h0 := hall 0 (by omega) (by omega)
      have h1 := hall (len - 1) (by omega) (by omega)
      simp only [Int.zero_mul, Int.add_zero] at h0
      exact ⟨⟨h0.2, h1.1⟩, h1.2⟩

/-- the boolean checker of `Builder.ValOK` -/
def refOKb : Val → Bool
  | .qubit _ src idx => refOKb src && (Builder.isRegister src || Builder.isParam src) &&
      (match idx with
       | .int i => (match litSize src with
         | some k => decide (0 ≤ i) && decide (i < k)
         | Option.none => true)
       | _ => true)
  | .regF _ size => (match size with
      | .int k => decide (1 ≤ k)
      | _ => true)
  | .regA _ src => refOKb src && (Builder.isRegister src || Builder.isParam src)
  | .regS _ src a b s => refOKb src && (Builder.isRegister src || Builder.isParam src) &&
      (match a with
       | .int ia => (match b with
         | .int ib => (match s with
           | .int is => (match litSize src with
             | some k => sliceOKb ia ib is k
             | Option.none => true)
           | _ => true)
         | _ => true)
       | _ => true)
  | _ => true

theorem refOKb_iff : ∀ v : Val, refOKb v = true ↔ ValOK v := by
  intro v
  induction v with
  | qubit n src idx ihs _ =>
    simp only [refOKb, ValOK, Bool.and_eq_true, Bool.or_eq_true, ihs]
    rw [and_assoc]
    refine and_congr Iff.rfl (and_congr Iff.rfl ?_)
    cases idx <;> cases hl : litSize src <;> simp
  | regF n size _ =>
    simp only [refOKb, ValOK]
    cases size <;> simp
  | regA n src ih =>
    simp only [refOKb, ValOK, Bool.and_eq_true, Bool.or_eq_true, ih]
  | regS n src a b s ihs _ _ _ =>
    simp only [refOKb, ValOK, Bool.and_eq_true, Bool.or_eq_true, ihs]
    rw [and_assoc]
    refine and_congr Iff.rfl (and_congr Iff.rfl ?_)
    cases a with
    | int ia =>
      cases b with
      | int ib =>
        cases s with
        | int is =>
          cases hl : litSize src with
          | none => simp
          | some k =>
            simp only [sliceOKb_iff]
            constructor
            · intro h ia' ib' is' k' e1 e2 e3 e4
              cases e1; cases e2; cases e3; cases e4
              exact h
            · intro h
              exact h ia ib is k rfl rfl rfl rfl
        | _ => simp
      | _ => simp
    | _ => simp
  | int _ => simp [refOKb, ValOK]
  | flt _ => simp [refOKb, ValOK]
  | const _ _ _ => simp [refOKb, ValOK]
  | param _ _ => simp [refOKb, ValOK]
  | none => simp [refOKb, ValOK]
  | str _ => simp [refOKb, ValOK]

instance (v : Val) : Decidable (ValOK v) := decidable_of_iff _ (refOKb_iff v)

/-- the boolean checker of `KnownRefsOK` -/
def knownRefsB (c : Circuit) : Bool :=
  c.registers.all refOKb && FillIn.allValsB refOKb c.body && c.macros.all (fun m => FillIn.allValsB refOKb m.body)

theorem knownRefsB_iff (c : Circuit) : knownRefsB c = true ↔ KnownRefsOK c := by
  simp only [knownRefsB, Bool.and_eq_true, List.all_eq_true, FillIn.allValsB_iff refOKb_iff, refOKb_iff]
  exact ⟨fun h => ⟨h.1.1, h.1.2, h.2⟩, fun h => ⟨⟨h.registers, h.body⟩, h.macros⟩⟩

instance (c : Circuit) : Decidable (KnownRefsOK c) := decidable_of_iff _ (knownRefsB_iff c)

/-- non-vacuity: `register r[4]; map a r[3:0:-1]`, `g a[2]` is `KnownRefsOK`, `g a[3]` is not (the alias has 3 elements) -/
def exCirc (i : Int) : Circuit :=
  { registers := [.regF "r" (.int 4), .regS "a" (.regF "r" (.int 4)) (.int 3) (.int 0) (.int (-1))],
    body := .block false false (.int 1)
      [.gate "g" (anonDef "g" 1) [("p0", .qubit "a[i]" (.regS "a" (.regF "r" (.int 4)) (.int 3) (.int 0) (.int (-1))) (.int i))]] }
example : KnownRefsOK (exCirc 2) := by decide +kernel
example : ¬ KnownRefsOK (exCirc 3) := by decide +kernel

end Jaqal.Stages
