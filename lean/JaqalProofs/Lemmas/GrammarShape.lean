import JaqalProofs.Props.C16ParseBuild
/-!
# The shape of what the PARSER returns, as strict as the grammar: loop and macro bodies are blocks

`ParserSx` (`Lemmas/BuilderTotal.lean`) is what the totality proof of the builder needs; it lets a loop body be any statement.
The grammar (`Spec/Grammar.lean`: `LOOP let_or_int gate_block`, `MACRO … gate_block`) only derives blocks there.  `GrammarSx` is
`ParserSx` with that extra, and `parseText_grammarSx : parseText txt = .ok sx → GrammarSx (ofSx sx)`.
-/
namespace Jaqal.Builder
open Jaqal Jaqal.Lexer Jaqal.Parser Jaqal.Grammar

/-- `["sequential_block", …]` or `["parallel_block", …]` -/
def isBlockE : BSx → Bool
  | .list (.str cmd :: _) => cmd = "sequential_block" || cmd = "parallel_block"
  | _ => false

mutual
/-- `isPStmt` with loop bodies that are blocks -/
def isGStmt : BSx → Bool
  | .list (.str cmd :: args) =>
    if cmd = "gate" then
      match args with
      | .str _ :: gargs => gargs.all isGateArg
      | _ => false
    else if cmd = "loop" then
      match args with
      | [count, block] => isIntOrId count && isBlockE block && isGStmt block
      | _ => false
    else if cmd = "sequential_block" ∨ cmd = "parallel_block" then isGStmts args
    else if cmd = "subcircuit_block" then
      match args with
      | count :: stmts => (isIntOrId count) && isGStmts stmts
      | [] => false
    else false
  | _ => false
def isGStmts : List BSx → Bool
  | [] => true
  | s :: ss => isGStmt s && isGStmts ss
end

theorem isGStmts_mem : ∀ {l : List BSx}, isGStmts l = true → ∀ x ∈ l, isGStmt x = true := by
  intro l
  induction l with
  | nil => intro _ x hx; cases hx
  | cons a as ih =>
    intro h x hx
    simp only [isGStmts, Bool.and_eq_true] at h
    rcases List.mem_cons.1 hx with rfl | hx
    · exact h.1
    · exact ih h.2 x hx

/-- a body statement at top level: a statement, or a macro definition whose body is a block -/
def isGBody : BSx → Bool
  | .list (.str "macro" :: .str _ :: rest) =>
    (rest.dropLast.all isStr) &&
      (match rest.getLast? with
       | some b => isBlockE b && isGStmt b
       | Option.none => false)
  | e => isGStmt e

/-- a top-level child: a header statement, a body statement, or a `branch` statement (which the builder always refuses) -/
def GChild (c : BSx) : Prop :=
  isPHeader c = true ∨ isGBody c = true ∨ ∃ xs, c = .list (.str "branch" :: xs)

def GrammarSx (e : BSx) : Prop :=
  ∃ cs, e = .list (.str "circuit" :: cs) ∧ ∀ c ∈ cs, GChild c

/-! ### `isGStmt` implies `isPStmt` -/

theorem isGStmt_isPStmt : ∀ (f : Nat) (e : BSx), e.depth ≤ f → isGStmt e = true → isPStmt e = true := by
  intro f
  induction f with
  | zero =>
    intro e hd h
    cases e with
    | list l => simp [BSx.depth] at hd
    | _ => simp [isGStmt] at h
  | succ f ih =>
    intro e hd h
    cases e with
    | list l =>
      simp only [BSx.depth, Nat.add_le_add_iff_right] at hd
      have hall : ∀ (xs : List BSx), BSx.depthList xs ≤ f → isGStmts xs = true → isPStmts xs = true := by
        intro xs
        induction xs with
        | nil => intro _ _; rfl
        | cons x xs ihx =>
          intro hdx hx
          simp only [isGStmts, Bool.and_eq_true] at hx
          obtain ⟨d1, d2⟩ := depthList_cons_le hdx
          simp only [isPStmts, Bool.and_eq_true]
          exact ⟨ih x d1 hx.1, ihx d2 hx.2⟩
      unfold isGStmt at h
      unfold isPStmt
      split at h
      · rename_i cmd args heq
        cases heq
        obtain ⟨_, hda⟩ := depthList_cons_le hd
        simp only []
        by_cases h1 : cmd = "gate"
        · simp only [h1, if_true] at h ⊢
          split at h
          · exact h
          · cases h
        simp only [h1, if_false] at h ⊢
        by_cases h2 : cmd = "loop"
        · simp only [h2, if_true] at h ⊢
          split at h
          · rename_i count block
            simp only [Bool.and_eq_true] at h
            obtain ⟨_, hdb'⟩ := depthList_cons_le hda
            obtain ⟨hdb, _⟩ := depthList_cons_le hdb'
            simp only [Bool.and_eq_true]
            exact ⟨h.1.1, ih block hdb h.2⟩
          · cases h
        simp only [h2, if_false] at h ⊢
        by_cases h3 : cmd = "sequential_block" ∨ cmd = "parallel_block"
        · simp only [h3, if_true] at h ⊢
          exact hall args hda h
        simp only [h3, if_false] at h ⊢
        by_cases h4 : cmd = "subcircuit_block"
        · simp only [h4, if_true] at h ⊢
          split at h
          · rename_i count stmts
            simp only [Bool.and_eq_true] at h
            obtain ⟨_, hds⟩ := depthList_cons_le hda
            simp only [Bool.and_eq_true]
            exact ⟨h.1, hall stmts hds h.2⟩
          · cases h
        · simp [h4] at h
      · cases h
    | _ => simp [isGStmt] at h

theorem isGBody_isPBody {e : BSx} (h : isGBody e = true) : isPBody e = true := by
  unfold isGBody at h
  unfold isPBody
  split at h
  · rename_i n rest
    simp only [Bool.and_eq_true] at h ⊢
    refine ⟨h.1, ?_⟩
    cases hl : rest.getLast? with
    | none => simp [hl] at h
    | some b =>
      simp only [hl, Bool.and_eq_true] at h
      exact isGStmt_isPStmt _ b (Nat.le_refl _) h.2.2
  · rename_i hne
    have hp := isGStmt_isPStmt _ e (Nat.le_refl _) h
    split
    · rename_i n rest
      exact absurd rfl (hne n rest)
    · exact hp

/-! ### The grammar derives these shapes -/

theorem gate_shapeG {ts : List Tok} {x : Sx} (h : Gate ts x) : isGStmt (BSx.ofSx x) = true := by
  cases h with
  | mk g has =>
    simp only [BSx.ofSx, BSx.ofSxList]
    unfold isGStmt
    simp only [if_true]
    exact gateArgs_shape has

/-- what each phrase of the block grammar yields -/
def BlockG : Ph → Sx → Prop
  | .seqStmts, x => ∃ xs, x = .list xs ∧ isGStmts (BSx.ofSxList xs) = true
  | .parStmts, x => ∃ xs, x = .list xs ∧ isGStmts (BSx.ofSxList xs) = true
  | .seqBlock, x => isGStmt (BSx.ofSx x) = true ∧ isBlockE (BSx.ofSx x) = true
  | .parBlock, x => isGStmt (BSx.ofSx x) = true ∧ isBlockE (BSx.ofSx x) = true
  | .gateBlock, x => isGStmt (BSx.ofSx x) = true ∧ isBlockE (BSx.ofSx x) = true
  | _, x => isGStmt (BSx.ofSx x) = true

theorem isGStmt_seq {l : List BSx} (h : isGStmts l = true) : isGStmt (.list (.str "sequential_block" :: l)) = true := by
  unfold isGStmt
  simp only [show ("sequential_block" = "gate") = False from by decide,
    show ("sequential_block" = "loop") = False from by decide, if_false, true_or, if_true]
  exact h

theorem isGStmt_par {l : List BSx} (h : isGStmts l = true) : isGStmt (.list (.str "parallel_block" :: l)) = true := by
  unfold isGStmt
  simp only [show ("parallel_block" = "gate") = False from by decide,
    show ("parallel_block" = "loop") = False from by decide, if_false, or_true, if_true]
  exact h

theorem isGStmt_sub {c : BSx} {l : List BSx} (hc : isIntOrId c = true) (h : isGStmts l = true) :
    isGStmt (.list (.str "subcircuit_block" :: c :: l)) = true := by
  unfold isGStmt
  simp only [show ("subcircuit_block" = "gate") = False from by decide,
    show ("subcircuit_block" = "loop") = False from by decide,
    show ("subcircuit_block" = "sequential_block" ∨ "subcircuit_block" = "parallel_block") = False from by decide,
    if_false, if_true, hc, h, Bool.and_self]

theorem isGStmt_loop {c b : BSx} (hc : isIntOrId c = true) (hb : isBlockE b = true) (h : isGStmt b = true) :
    isGStmt (.list [.str "loop", c, b]) = true := by
  unfold isGStmt
  simp only [show ("loop" = "gate") = False from by decide, if_false, if_true, hc, hb, h, Bool.and_self]

theorem block_shapeG {ph : Ph} {ts : List Tok} {x : Sx} (h : Block ph ts x) : BlockG ph x := by
  induction h with
  | seqBlock _ _ ih =>
    obtain ⟨xs', hx, hs⟩ := ih
    cases hx
    simp only [BlockG, BSx.ofSx, BSx.ofSxList]
    exact ⟨isGStmt_seq hs, by simp [isBlockE]⟩
  | parBlock _ _ ih =>
    obtain ⟨xs', hx, hs⟩ := ih
    cases hx
    simp only [BlockG, BSx.ofSx, BSx.ofSxList]
    exact ⟨isGStmt_par hs, by simp [isBlockE]⟩
  | gateBlockSeq _ ih => exact ih
  | gateBlockPar _ ih => exact ih
  | seqGate hg => exact gate_shapeG hg
  | seqPar _ ih => exact ih.1
  | seqLoop hc _ ih =>
    simp only [BlockG, BSx.ofSx, BSx.ofSxList]
    exact isGStmt_loop (letOrInt_shape hc) ih.2 ih.1
  | seqSub _ _ ih =>
    obtain ⟨xs', hx, hs⟩ := ih
    cases hx
    simp only [BlockG, BSx.ofSx, BSx.ofSxList]
    exact isGStmt_sub rfl hs
  | seqSubN hc _ _ ih =>
    obtain ⟨xs', hx, hs⟩ := ih
    cases hx
    simp only [BlockG, BSx.ofSx, BSx.ofSxList]
    exact isGStmt_sub (letOrInt_shape hc) hs
  | parGate hg => exact gate_shapeG hg
  | parSeq _ ih => exact ih.1
  | seqNil => exact ⟨[], rfl, rfl⟩
  | seqOne _ ih => exact ⟨_, rfl, by simp only [BSx.ofSxList, isGStmts, Bool.and_true]; exact ih⟩
  | seqCons _ _ _ ih1 ih2 =>
    obtain ⟨xs', hx, hs⟩ := ih2
    cases hx
    exact ⟨_, rfl, by simp only [BSx.ofSxList, isGStmts, Bool.and_eq_true]; exact ⟨ih1, hs⟩⟩
  | parNil => exact ⟨[], rfl, rfl⟩
  | parOne _ ih => exact ⟨_, rfl, by simp only [BSx.ofSxList, isGStmts, Bool.and_true]; exact ih⟩
  | parCons _ _ _ ih1 ih2 =>
    obtain ⟨xs', hx, hs⟩ := ih2
    cases hx
    exact ⟨_, rfl, by simp only [BSx.ofSxList, isGStmts, Bool.and_eq_true]; exact ⟨ih1, hs⟩⟩

theorem isGBody_of_stmt {e : BSx} (h : isGStmt e = true) : isGBody e = true := by
  unfold isGBody
  split
  · rename_i n rest
    unfold isGStmt at h
    simp [show ¬ ("macro" = "gate") from by decide, show ¬ ("macro" = "loop") from by decide,
      show ¬ ("macro" = "sequential_block") from by decide, show ¬ ("macro" = "parallel_block") from by decide,
      show ¬ ("macro" = "subcircuit_block") from by decide] at h
  · exact h

/-- a `branch` statement is refused by the builder whatever its cases: for the shapes it only matters that it is no macro -/
theorem body_shapeG {ts : List Tok} {x : Sx} (h : Body ts x) :
    isGBody (BSx.ofSx x) = true ∨ ∃ xs, BSx.ofSx x = .list (.str "branch" :: xs) := by
  cases h with
  | stmt hb => exact Or.inl (isGBody_of_stmt (block_shapeG hb))
  | seqBlock hb => exact Or.inl (isGBody_of_stmt (block_shapeG hb).1)
  | macroDef name params hb =>
    left
    obtain ⟨hbody, hblk⟩ : BlockG .gateBlock _ := block_shapeG hb
    simp only [BSx.ofSx, BSx.ofSxList, ofSxList_append, ofSxList_map_str]
    unfold isGBody
    simp only [List.dropLast_concat, List.getLast?_concat, Bool.and_eq_true]
    refine ⟨?_, hblk, hbody⟩
    rw [List.all_eq_true]
    intro b hb'
    obtain ⟨p, _, rfl⟩ := List.mem_map.1 hb'
    rfl
  | @branch pad cs xs _ hc =>
    exact Or.inr ⟨BSx.ofSxList xs, by simp only [BSx.ofSx, BSx.ofSxList]⟩

theorem stmts_shapeG {ph : Phase} {ts : List Tok} {xs : List Sx} (h : Stmts ph ts xs) :
    ∀ c ∈ BSx.ofSxList xs, GChild c := by
  induction h with
  | nil => intro c hc; cases hc
  | lastHeader hh =>
    intro c hc
    simp only [BSx.ofSxList, List.mem_singleton] at hc
    subst hc; exact Or.inl (header_shape hh)
  | lastBody hb =>
    intro c hc
    simp only [BSx.ofSxList, List.mem_singleton] at hc
    subst hc; exact Or.inr (body_shapeG hb)
  | consHeader hh _ _ ih =>
    intro c hc
    simp only [BSx.ofSxList, List.mem_cons] at hc
    rcases hc with rfl | hc
    · exact Or.inl (header_shape hh)
    · exact ih c hc
  | consBody hb _ _ ih =>
    intro c hc
    simp only [BSx.ofSxList, List.mem_cons] at hc
    rcases hc with rfl | hc
    · exact Or.inr (body_shapeG hb)
    · exact ih c hc

theorem derives_grammarSx {ts : List Tok} {sx : Sx} (h : Derives ts sx) : GrammarSx (BSx.ofSx sx) := by
  cases h with
  | circuit _ hs => exact ⟨_, by simp only [BSx.ofSx, BSx.ofSxList], stmts_shapeG hs⟩

theorem parseText_grammarSx {txt : String} {sx : Sx} (h : parseText txt = .ok sx) : GrammarSx (BSx.ofSx sx) := by
  unfold parseText at h
  split at h
  · rename_i ts _
    cases hp : parse ts with
    | ok x => rw [hp] at h; simp only [] at h; cases h; exact derives_grammarSx (Jaqal.C02.C02_sound hp)
    | error e => rw [hp] at h; cases h
  · rename_i ts le _
    cases hp : parse ts with
    | ok x => rw [hp] at h; cases h
    | error e => rw [hp] at h; simp only [] at h; split at h <;> cases h

end Jaqal.Builder

#print axioms Jaqal.Builder.parseText_grammarSx
