import JaqalProofs.Lemmas.RunModelExec
import JaqalProofs.Props.C06
/-!
Lemmas for C14 over the run model (`Props/C14Run.lean`): what a SUCCESSFUL executing stage says about the qubit references of
the gates it reads, and which class its failures have.

* `Allows` / `Within` — the bounds check of one level of `Register.resolve_qubit`; `RegChain C r i` — the index `i` passes the
  check `C` at EVERY level of the alias chain `r` (mirrors `Resolve.resolveReg []` level by level: the size of the level, the
  index handed down `start + i * step`); `QubitChain C v` — the same for a qubit reference (`NamedQubit.resolve_qubit`: the source
  is a register, the index an int or an integral float).
* `resolveReg_ok_iff`, `resolveQubit_ok_iff` — resolution succeeds EXACTLY when the chain is in range at every level.
* `QubitHonoured`, `RegHonoured`, `ArgHonoured` — a qubit / register argument that resolves, level by level in range, to an index
  of the fundamental register at the end of its chain (`qubitHonoured_of_resolve`, `regHonoured_of_loop`).
* `RegChain.within`, `ArgHonoured.within` — for a typed argument (`argT`: sizes and bounds are ints or integer lets) every level
  HAS a size, so the check is `0 ≤ i < size` at every level (`Within`), not "if the level has a size".
* `EmuHonoured` / `traceTokens_honoured` — what `_make_subcircuit` has resolved when it returns; `UsedHonoured` /
  `usedStmtF_honoured` — what the used-qubit walk of `DiscoverSubcircuits` has resolved when it returns.
* `skeleton_gates` — the gate table of the skeleton holds gate statements of the circuit.
* `NoImp` / `execute_noImport` — the executing stage never fails with `ImportError` (no branch of it raises one), hence
  `execute_jaqal`: on a flat typed circuit every failure of `execute` is a `JaqalError`, exactly.
-/
namespace Jaqal.RunModel
open Jaqal Jaqal.Builder Jaqal.Resolve

/-! ### One level of `Register.resolve_qubit` -/

/-- `size is not None and (idx < 0 or idx >= size)` does not raise, for the level size `sz` (resolved through its lets) -/
def Allows (sz : Val) (idx : Int) : Prop :=
  (∃ k, resolveAV [] (avFuel []) sz = .ok (.int k) ∧ 0 ≤ idx ∧ idx < k) ∨ resolveAV [] (avFuel []) sz = .ok .none

/-- the level has a size and `0 ≤ idx < size` -/
def Within (sz : Val) (idx : Int) : Prop :=
  ∃ k, resolveAV [] (avFuel []) sz = .ok (.int k) ∧ 0 ≤ idx ∧ idx < k

theorem Within.allows {sz : Val} {i : Int} (h : Within sz i) : Allows sz i := Or.inl h

theorem Allows.within {sz : Val} {i : Int} (hi : isIntC sz = true) (h : Allows sz i) : Within sz i := by
  rcases h with h | h
  · exact h
  · obtain ⟨k, hk⟩ := resolveAV_intC hi
    rw [hk] at h; cases h

/-- the index `idx` passes the check `C` at EVERY level of the alias chain, the index handed to the source of a slice being
`start + idx * step` (`Register.resolve_qubit`, level by level) -/
def RegChain (C : Val → Int → Prop) : Val → Int → Prop
  | .regF _ size, idx => C size idx
  | .regA n src, idx => (∃ sz, resolveSize [] (.regA n src) = .ok sz ∧ C sz idx) ∧ RegChain C src idx
  | .regS n src a b s, idx =>
    (∃ sz, resolveSize [] (.regS n src a b s) = .ok sz ∧ C sz idx) ∧
      ∃ ia is, resolveInt [] (startOr0 a) = .ok ia ∧ resolveInt [] (stepOr1 s) = .ok is ∧ RegChain C src (ia + idx * is)
  | _, _ => False

theorem sizeGate_ok_iff {α : Type} {i : Int} {szr : M Val} {cont : M α} {q : α} :
    FillIn.sizeGate i szr cont = .ok q ↔
      ((∃ k, szr = .ok (.int k) ∧ 0 ≤ i ∧ i < k) ∨ szr = .ok .none) ∧ cont = .ok q := by
  unfold FillIn.sizeGate
  cases szr with
  | error e => simp
  | ok v =>
    cases v with
    | int k =>
      by_cases hc : i < 0 ∨ i ≥ k
      · simp only [hc, if_true]
        constructor
        · intro h; cases h
        · rintro ⟨⟨k', hk', h0, h1⟩ | h, _⟩
          · cases hk'; omega
          · cases h
      · simp only [hc, if_false]
        constructor
        · intro h; exact ⟨Or.inl ⟨k, rfl, by omega, by omega⟩, h⟩
        · intro h; exact h.2
    | none => simp
    | _ => simp

theorem bindAV_int {m : M Val} {k : Int} :
    (m >>= resolveAV [] (avFuel [])) = .ok (.int k) ↔ ∃ sz, m = .ok sz ∧ resolveAV [] (avFuel []) sz = .ok (.int k) := by
  cases m with
  | error e => simp [bind, Except.bind]
  | ok sz => simp [bind, Except.bind]

theorem bindAV_none {m : M Val} :
    (m >>= resolveAV [] (avFuel [])) = .ok .none ↔ ∃ sz, m = .ok sz ∧ resolveAV [] (avFuel []) sz = .ok .none := by
  cases m with
  | error e => simp [bind, Except.bind]
  | ok sz => simp [bind, Except.bind]

theorem levelGate_iff {m : M Val} {i : Int} :
    ((∃ k, (m >>= resolveAV [] (avFuel [])) = .ok (.int k) ∧ 0 ≤ i ∧ i < k) ∨ (m >>= resolveAV [] (avFuel [])) = .ok .none) ↔
      ∃ sz, m = .ok sz ∧ Allows sz i := by
  constructor
  · rintro (⟨k, hk, h0, h1⟩ | h)
    · obtain ⟨sz, hm, hs⟩ := bindAV_int.1 hk
      exact ⟨sz, hm, Or.inl ⟨k, hs, h0, h1⟩⟩
    · obtain ⟨sz, hm, hs⟩ := bindAV_none.1 h
      exact ⟨sz, hm, Or.inr hs⟩
  · rintro ⟨sz, hm, ⟨k, hs, h0, h1⟩ | hs⟩
    · exact Or.inl ⟨k, bindAV_int.2 ⟨sz, hm, hs⟩, h0, h1⟩
    · exact Or.inr (bindAV_none.2 ⟨sz, hm, hs⟩)

theorem bind2_ok_iff {α : Type} {x y : M Int} {k : Int → Int → M α} {q : α} :
    (do let a ← x; let b ← y; k a b : M α) = .ok q ↔ ∃ a b, x = .ok a ∧ y = .ok b ∧ k a b = .ok q := by
  cases x with
  | error e => simp [bind, Except.bind]
  | ok a =>
    cases y with
    | error e => simp [bind, Except.bind]
    | ok b => simp [bind, Except.bind]

/-- **resolution of a register element succeeds exactly when the index is allowed at every level of the chain** -/
theorem resolveReg_ok_iff : ∀ (r : Val) (i : Int), (∃ q, resolveReg [] r i = .ok q) ↔ RegChain Allows r i
  | .regF n sz, i => by
    simp only [RegChain, FillIn.resolveReg_regF_eq]
    constructor
    · rintro ⟨q, h⟩
      exact (FillIn.baseGate_ok h).2
    · intro h
      unfold Allows at h
      unfold FillIn.baseGate
      rcases h with ⟨k, hk, h0, h1⟩ | h
      · rw [hk]; simp only []
        rw [if_neg (by omega)]
        exact ⟨_, rfl⟩
      · rw [h]; exact ⟨_, rfl⟩
  | .regA n src, i => by
    simp only [RegChain, FillIn.resolveReg_regA_eq, sizeGate_ok_iff, levelGate_iff, exists_and_left]
    rw [resolveReg_ok_iff src i]
  | .regS n src a b s, i => by
    simp only [RegChain, FillIn.resolveReg_regS_eq, sizeGate_ok_iff, levelGate_iff, bind2_ok_iff]
    constructor
    · rintro ⟨q, hl, ia, is, ha, hs, hq⟩
      exact ⟨hl, ia, is, ha, hs, (resolveReg_ok_iff src _).1 ⟨q, hq⟩⟩
    · rintro ⟨hl, ia, is, ha, hs, hc⟩
      obtain ⟨q, hq⟩ := (resolveReg_ok_iff src _).2 hc
      exact ⟨q, hl, ia, is, ha, hs, hq⟩
  | .int _, _ | .flt _, _ | .const _ _, _ | .param _ _, _ | .qubit _ _ _, _ | .none, _ | .str _, _ => by
    simp [RegChain, resolveReg]

/-- the resolved pair: the fundamental register at the end of the chain, and an index its own check allows -/
theorem resolveReg_fund {r : Val} {i : Int} {q : String × Int} (h : resolveReg [] r i = .ok q) :
    ∃ fsz, UsedQubits.fundOf r = some (.regF q.1 fsz) ∧ Allows fsz q.2 := by
  obtain ⟨n, sz, hf, hn, hc⟩ := FillIn.resolveReg_in_range h
  subst hn
  exact ⟨sz, hf, hc⟩

theorem fundOf_RegT : ∀ {r : Val} {n : String} {fsz : Val}, RegT r = true → UsedQubits.fundOf r = some (.regF n fsz) →
    isIntC fsz = true
  | .regF _ _, _, _, h, hf => by
    simp only [UsedQubits.fundOf, Option.some.injEq, Val.regF.injEq] at hf
    obtain ⟨_, rfl⟩ := hf
    simpa [RegT] using h
  | .regA _ src, _, _, h, hf => fundOf_RegT (r := src) (by simpa [RegT] using h) (by simpa [UsedQubits.fundOf] using hf)
  | .regS _ src _ _ _, _, _, h, hf => by
    simp only [RegT, Bool.and_eq_true] at h
    exact fundOf_RegT (r := src) h.1.1.1 (by simpa [UsedQubits.fundOf] using hf)
  | .int _, _, _, h, _ | .flt _, _, _, h, _ | .const _ _, _, _, h, _ | .param _ _, _, _, h, _ | .qubit _ _ _, _, _, h, _
  | .none, _, _, h, _ | .str _, _, _, h, _ => by simp [RegT] at h

/-- on a typed register every level has a size: allowed means `0 ≤ i < size` at every level -/
theorem RegChain.within : ∀ {r : Val} {i : Int}, RegT r = true → RegChain Allows r i → RegChain Within r i
  | .regF _ sz, i, h, hc => Allows.within (by simpa [RegT] using h) hc
  | .regA n src, i, h, hc => by
    obtain ⟨⟨sz, hsz, ha⟩, hrest⟩ := hc
    have hs : RegT src = true := by simpa [RegT] using h
    refine ⟨⟨sz, hsz, ?_⟩, RegChain.within hs hrest⟩
    rcases resolveSize_RegT _ h with ⟨sz', hsz', hi⟩ | ⟨e, he⟩
    · rw [hsz] at hsz'; cases hsz'; exact Allows.within hi ha
    · rw [hsz] at he; cases he
  | .regS n src a b s, i, h, hc => by
    obtain ⟨⟨sz, hsz, ha⟩, ia, is, h1, h2, hrest⟩ := hc
    have hs : RegT src = true := by
      simp only [RegT, Bool.and_eq_true] at h
      exact h.1.1.1
    refine ⟨⟨sz, hsz, ?_⟩, ia, is, h1, h2, RegChain.within hs hrest⟩
    rcases resolveSize_RegT _ h with ⟨sz', hsz', hi⟩ | ⟨e, he⟩
    · rw [hsz] at hsz'; cases hsz'; exact Allows.within hi ha
    · rw [hsz] at he; cases he
  | .int _, _, h, _ | .flt _, _, h, _ | .const _ _, _, h, _ | .param _ _, _, h, _ | .qubit _ _ _, _, h, _
  | .none, _, h, _ | .str _, _, h, _ => by simp [RegT] at h

/-! ### Qubit references -/

/-- the Python int a qubit index stands for (`NamedQubit.resolve_qubit`): an int, or an integral float -/
def indexOf (idx : Val) : Option Int :=
  match resolveAV [] (avFuel []) idx with
  | .ok (.int k) => some k
  | .ok (.flt d) => if d.isIntegral then some d.toInt else none
  | _ => none

/-- the source of the reference is a register, its index an integer, and that index passes `C` at every level of the chain -/
def QubitChain (C : Val → Int → Prop) : Val → Prop
  | .qubit _ src idx =>
    ∃ r i, resolveAV [] (avFuel []) src = .ok r ∧ Resolve.isRegister r = true ∧ indexOf idx = some i ∧ RegChain C r i
  | _ => False

theorem resolveQubit_eq (n : String) (src idx : Val) (q : String × Int) :
    resolveQubit [] (.qubit n src idx) = .ok q ↔
      ∃ r i, resolveAV [] (avFuel []) src = .ok r ∧ Resolve.isRegister r = true ∧ indexOf idx = some i ∧
        resolveReg [] r i = .ok q := by
  rw [resolveQubit]
  unfold indexOf
  cases hi : resolveAV [] (avFuel []) idx with
  | error e => simp [bind, Except.bind]
  | ok iv =>
    cases hr : resolveAV [] (avFuel []) src with
    | error e => simp [bind, Except.bind]
    | ok r =>
      by_cases hreg : Resolve.isRegister r = true
      · simp only [bind, Except.bind, hreg, Bool.not_true, Bool.false_eq_true, if_false, Except.ok.injEq]
        cases iv with
        | int k => simp [hreg]
        | flt d =>
          by_cases hd : d.isIntegral = true
          · simp [hd, hreg]
          · simp [hd]
        | _ => simp
      · simp [bind, Except.bind, hreg, throw, throwThe, MonadExceptOf.throw]

/-- **a qubit reference resolves exactly when its index is allowed at every level of its chain** -/
theorem resolveQubit_ok_iff (v : Val) : (∃ q, resolveQubit [] v = .ok q) ↔ QubitChain Allows v := by
  cases v with
  | qubit n src idx =>
    simp only [QubitChain, resolveQubit_eq]
    constructor
    · rintro ⟨q, r, i, h1, h2, h3, h4⟩
      exact ⟨r, i, h1, h2, h3, (resolveReg_ok_iff r i).1 ⟨q, h4⟩⟩
    · rintro ⟨r, i, h1, h2, h3, h4⟩
      obtain ⟨q, hq⟩ := (resolveReg_ok_iff r i).2 h4
      exact ⟨q, r, i, h1, h2, h3, hq⟩
  | _ => simp [QubitChain, resolveQubit]

/-- A qubit argument the run honours: it resolves to index `k` of the register `r`; the index written in the program passes the
check `C` at every level of the alias chain; `r` is the fundamental register at the end of the chain and `k` passes ITS check. -/
structure QubitHonoured (C : Val → Int → Prop) (v : Val) (r : String) (k : Int) : Prop where
  resolves : resolveQubit [] v = .ok (r, k)
  chain : QubitChain C v
  fund : ∃ n src idx reg fsz, v = .qubit n src idx ∧ resolveAV [] (avFuel []) src = .ok reg ∧
    UsedQubits.fundOf reg = some (.regF r fsz) ∧ C fsz k

theorem qubitHonoured_of_resolve {v : Val} {r : String} {k : Int} (h : resolveQubit [] v = .ok (r, k)) :
    QubitHonoured Allows v r k := by
  refine ⟨h, (resolveQubit_ok_iff v).1 ⟨_, h⟩, ?_⟩
  cases v with
  | qubit n src idx =>
    obtain ⟨reg, i, h1, _, _, h4⟩ := (resolveQubit_eq n src idx (r, k)).1 h
    obtain ⟨fsz, hf, hc⟩ := resolveReg_fund h4
    exact ⟨n, src, idx, reg, fsz, rfl, h1, hf, hc⟩
  | _ => simp [resolveQubit] at h

/-- A register argument the run honours: it has a size `n`, and each of its elements `0 … n-1` resolves, in range at every
level, to an index of the fundamental register at the end of the chain. -/
def RegHonoured (C : Val → Int → Prop) (v : Val) : Prop :=
  Resolve.isRegister v = true ∧ ∃ sz n, resolveSize [] v = .ok sz ∧ UsedQubits.pyInt sz = .ok n ∧
    ∀ i : Int, 0 ≤ i → i < n → ∃ r k, resolveReg [] v i = .ok (r, k) ∧ RegChain C v i ∧
      ∃ fsz, UsedQubits.fundOf v = some (.regF r fsz) ∧ C fsz k

/-- an argument at a position where a qubit or a register is read -/
def ArgHonoured (C : Val → Int → Prop) (v : Val) : Prop := (∃ r k, QubitHonoured C v r k) ∨ RegHonoured C v

def isQuantum (v : Val) : Bool :=
  Resolve.isRegister v || (match v with | .qubit _ _ _ => true | _ => false)

theorem ArgHonoured.isQuantum {C : Val → Int → Prop} {v : Val} (h : ArgHonoured C v) : isQuantum v = true := by
  rcases h with ⟨r, k, h⟩ | h
  · obtain ⟨n, src, idx, _, _, rfl, _⟩ := h.fund
    simp [RunModel.isQuantum]
  · simp [RunModel.isQuantum, h.1]

/-- an argument whose resolution fails is not honoured -/
theorem not_honoured_of_error {v : Val} {e : Err} (h : resolveQubit [] v = .error e)
    (hq : ∃ n s i, v = .qubit n s i) : ¬ ArgHonoured Allows v := by
  rintro (⟨r, k, hh⟩ | hh)
  · rw [hh.resolves] at h; cases h
  · obtain ⟨n, s, i, rfl⟩ := hq
    have := hh.1
    simp [Resolve.isRegister] at this

theorem regHonoured_of_loop {v : Val} {sz : Val} {n : Int} (hr : Resolve.isRegister v = true) (hsz : resolveSize [] v = .ok sz)
    (hn : UsedQubits.pyInt sz = .ok n) (hl : ∀ j : Nat, j < n.toNat → ∃ q, resolveReg [] v (0 + (j : Int)) = .ok q) :
    RegHonoured Allows v := by
  refine ⟨hr, sz, n, hsz, hn, fun i h0 h1 => ?_⟩
  obtain ⟨q, hq⟩ := hl i.toNat (by omega)
  have hi : (0 : Int) + (i.toNat : Int) = i := by omega
  rw [hi] at hq
  obtain ⟨fsz, hf, hc⟩ := resolveReg_fund hq
  exact ⟨q.1, q.2, hq, (resolveReg_ok_iff v i).1 ⟨q, hq⟩, fsz, hf, hc⟩

theorem regLoop_ok {r : Val} : ∀ (n : Nat) (i : Int) (l : List Int), regLoop r i n = .ok l →
    ∀ j : Nat, j < n → ∃ q, resolveReg [] r (i + (j : Int)) = .ok q
  | 0, _, _, _, j, hj => by omega
  | n + 1, i, l, h, j, hj => by
    simp only [regLoop] at h
    obtain ⟨q, hq, h⟩ := bind_ok h
    obtain ⟨rest, hrest, _⟩ := bind_ok h
    cases j with
    | zero => exact ⟨q, by simpa using hq⟩
    | succ j =>
      obtain ⟨q', hq'⟩ := regLoop_ok n (i + 1) rest hrest j (by omega)
      exact ⟨q', by rw [← hq']; congr 1; push_cast; omega⟩

theorem regIndices_ok {v : Val} {l : List Int} (hr : Resolve.isRegister v = true) (h : regIndices v = .ok l) :
    RegHonoured Allows v := by
  unfold regIndices at h
  obtain ⟨sz, hsz, h⟩ := bind_ok h
  obtain ⟨k, hk, h⟩ := bind_ok h
  exact regHonoured_of_loop hr hsz hk (regLoop_ok _ 0 l h)

/-- the emulator's reading of a non-classical argument: a success means the argument is honoured -/
theorem quantumToken_ok {v : Val} {t : String} (h : quantumToken v = .ok t) : ArgHonoured Allows v := by
  cases v with
  | qubit n s i =>
    simp only [quantumToken] at h
    obtain ⟨⟨r, k⟩, hq, _⟩ := bind_ok h
    exact Or.inl ⟨r, k, qubitHonoured_of_resolve hq⟩
  | regF n s =>
    simp only [quantumToken] at h
    obtain ⟨l, hl, _⟩ := bind_ok h
    exact Or.inr (regIndices_ok rfl hl)
  | regA n s =>
    simp only [quantumToken] at h
    obtain ⟨l, hl, _⟩ := bind_ok h
    exact Or.inr (regIndices_ok rfl hl)
  | regS n s a b c =>
    simp only [quantumToken] at h
    obtain ⟨l, hl, _⟩ := bind_ok h
    exact Or.inr (regIndices_ok rfl hl)
  | _ => simp [quantumToken, throw, throwThe, MonadExceptOf.throw] at h

/-- … and the token written for a qubit names exactly the index it resolves to -/
theorem quantumToken_qubit {n : String} {s i : Val} {t : String} (h : quantumToken (.qubit n s i) = .ok t) :
    ∃ r k, resolveQubit [] (.qubit n s i) = .ok (r, k) ∧ t = "q" ++ toString k := by
  simp only [quantumToken] at h
  obtain ⟨⟨r, k⟩, hq, h⟩ := bind_ok h
  simp only [pure, Except.pure, Except.ok.injEq] at h
  exact ⟨r, k, hq, h.symm⟩

/-! ### Typed arguments: every level has a size -/

theorem QubitHonoured.within {v : Val} {r : String} {k : Int} (ht : argT v = true) (h : QubitHonoured Allows v r k) :
    QubitHonoured Within v r k := by
  obtain ⟨n, src, idx, reg, fsz, rfl, hreg, hf, hc⟩ := h.fund
  simp only [argT, Bool.and_eq_true] at ht
  have hsrc : resolveAV [] (avFuel []) src = .ok src := resolveAV_reg (RegT_isRegister' ht.1)
  rw [hsrc] at hreg; cases hreg
  refine ⟨h.resolves, ?_, n, src, idx, src, fsz, rfl, hsrc, hf, Allows.within (fundOf_RegT ht.1 hf) hc⟩
  obtain ⟨r', i, h1, h2, h3, h4⟩ := h.chain
  rw [hsrc] at h1; cases h1
  exact ⟨src, i, hsrc, h2, h3, RegChain.within ht.1 h4⟩

theorem RegHonoured.within {v : Val} (ht : argT v = true) (h : RegHonoured Allows v) : RegHonoured Within v := by
  obtain ⟨hr, sz, n, hsz, hn, hall⟩ := h
  have hT : RegT v = true := by cases v <;> simp [Resolve.isRegister] at hr <;> simpa [argT] using ht
  refine ⟨hr, sz, n, hsz, hn, fun i h0 h1 => ?_⟩
  obtain ⟨r, k, hq, hc, fsz, hf, hb⟩ := hall i h0 h1
  exact ⟨r, k, hq, RegChain.within hT hc, fsz, hf, Allows.within (fundOf_RegT hT hf) hb⟩

theorem ArgHonoured.within {v : Val} (ht : argT v = true) (h : ArgHonoured Allows v) : ArgHonoured Within v := by
  rcases h with ⟨r, k, h⟩ | h
  · exact Or.inl ⟨r, k, h.within ht⟩
  · exact Or.inr (h.within ht)

/-! ### `_make_subcircuit`: what has been resolved when a gate is emitted -/

/-- the arguments the emulator resolves: those zipped with a parameter of kind QUBIT or REGISTER of the native definition -/
def quantumArgs : List (String × Kind) → List (String × Val) → List Val
  | (_, k) :: ps, (_, v) :: as =>
    match k with
    | .qubit => v :: quantumArgs ps as
    | .register => v :: quantumArgs ps as
    | _ => quantumArgs ps as
  | _, _ => []

theorem emuArgs_ok : ∀ (ps : List (String × Kind)) (as : List (String × Val)) (ts : List String), emuArgs ps as = .ok ts →
    ∀ v ∈ quantumArgs ps as, ArgHonoured Allows v
  | [], as, _, _, v, hv => by cases as <;> simp [quantumArgs] at hv
  | _ :: _, [], _, _, v, hv => by simp [quantumArgs] at hv
  | (pn, k) :: ps, (an, w) :: as, ts, h, v, hv => by
    simp only [emuArgs] at h
    obtain ⟨t, ht, h⟩ := bind_ok h
    obtain ⟨ts', hts, _⟩ := bind_ok h
    have ih := emuArgs_ok ps as ts' hts v
    cases k with
    | qubit =>
      simp only [quantumArgs, List.mem_cons] at hv
      rcases hv with rfl | hv
      · exact quantumToken_ok (t := t) (by simpa [emuArg] using ht)
      · exact ih hv
    | register =>
      simp only [quantumArgs, List.mem_cons] at hv
      rcases hv with rfl | hv
      · exact quantumToken_ok (t := t) (by simpa [emuArg] using ht)
      · exact ih hv
    | int => exact ih (by simpa [quantumArgs] using hv)
    | float => exact ih (by simpa [quantumArgs] using hv)
    | none => exact ih (by simpa [quantumArgs] using hv)

/-- What `_make_subcircuit` has established of a gate when it emits it: the gate's name is a native gate, and if that
definition has a unitary every argument at a QUBIT / REGISTER position of it is honoured. -/
def EmuHonoured (C : Val → Int → Prop) (natives : List GateDef) (g : GateRec) : Prop :=
  ∃ gdn, natives.find? (·.name == g.1) = some gdn ∧
    (gdn.hasUnitary = true → ∀ v ∈ quantumArgs gdn.params g.2.2, ArgHonoured C v)

theorem gateToken_ok {natives : List GateDef} {name : String} {args : List (String × Val)} {t : String}
    (h : gateToken natives name args = .ok t) (gd : GateDef) : EmuHonoured Allows natives (name, gd, args) := by
  unfold gateToken at h
  split at h
  · cases h
  · rename_i gdn hgdn
    obtain ⟨ts, hts, _⟩ := bind_ok h
    refine ⟨gdn, hgdn, fun hu => ?_⟩
    simp only [gateArgs, hu, if_true] at hts
    exact emuArgs_ok _ _ ts hts

theorem traceTokens_honoured (natives : List GateDef) (tbl : List GateRec) : ∀ (gs : List Walk.GK) (ts : List String),
    traceTokens natives tbl gs = .ok ts →
    ∀ id, Walk.GK.other id ∈ gs → ∃ g, tbl[id]? = some g ∧ EmuHonoured Allows natives g
  | [], _, _, id, hid => by cases hid
  | k :: rest, ts, h, id, hid => by
    simp only [traceTokens] at h
    obtain ⟨t, ht, h⟩ := bind_ok h
    obtain ⟨ts', hts, _⟩ := bind_ok h
    rcases List.mem_cons.1 hid with rfl | hid
    · simp only [gkToken] at ht
      split at ht
      · rename_i name gd args hg
        exact ⟨_, hg, gateToken_ok ht gd⟩
      · cases ht
    · exact traceTokens_honoured natives tbl rest ts' hts id hid

theorem makeSubcircuit_ok {c : Circuit} {body : List Walk.Stmt} {tbl : List GateRec} {tr : Walk.Addr × Walk.Addr}
    {ts : List String} (h : makeSubcircuit c body tbl tr = .ok ts) :
    ∃ gs, Walk.serialize tr body = some gs ∧ traceTokens c.natives tbl gs = .ok ts := by
  unfold makeSubcircuit at h
  obtain ⟨n, _, h⟩ := bind_ok h
  obtain ⟨_, _, h⟩ := bind_ok h
  split at h
  · cases h
  · rename_i gs hgs
    exact ⟨gs, hgs, h⟩

theorem makeSubcircuits_ok {c : Circuit} {body : List Walk.Stmt} {tbl : List GateRec} :
    ∀ (l : List (Walk.Addr × Walk.Addr)) (toks : List (List String)), makeSubcircuits c body tbl l = .ok toks →
    ∀ tr ∈ l, ∃ ts, ts ∈ toks ∧ makeSubcircuit c body tbl tr = .ok ts
  | [], _, _, tr, htr => by cases htr
  | t :: rest, toks, h, tr, htr => by
    simp only [makeSubcircuits] at h
    obtain ⟨ts, hts, h⟩ := bind_ok h
    obtain ⟨tss, htss, h⟩ := bind_ok h
    simp only [pure, Except.pure, Except.ok.injEq] at h
    subst h
    rcases List.mem_cons.1 htr with rfl | htr
    · exact ⟨ts, List.mem_cons_self .., hts⟩
    · obtain ⟨ts', hm, hok⟩ := makeSubcircuits_ok rest tss htss tr htr
      exact ⟨ts', List.mem_cons_of_mem _ hm, hok⟩

/-- every gate of every discovered trace has been looked up and its quantum arguments resolved when `makeSubcircuits` returns -/
theorem makeSubcircuits_honoured {c : Circuit} {body : List Walk.Stmt} {tbl : List GateRec}
    {traces : List (Walk.Addr × Walk.Addr)} {toks : List (List String)} (hd : Walk.discover body = .ok traces)
    (h : makeSubcircuits c body tbl traces = .ok toks) :
    ∀ tr ∈ traces, ∀ id, Walk.GK.other id ∈ Walk.segment tr body → ∃ g, tbl[id]? = some g ∧ EmuHonoured Allows c.natives g := by
  intro tr htr id hid
  obtain ⟨ts, _, hts⟩ := makeSubcircuits_ok traces toks h tr htr
  obtain ⟨gs, hgs, hts⟩ := makeSubcircuit_ok hts
  rw [Walk.C03_serialize body traces hd tr htr] at hgs
  cases hgs
  exact traceTokens_honoured c.natives tbl _ ts hts id hid

/-! ### The used-qubit walk of `DiscoverSubcircuits`: what has been resolved when it returns -/

/-- What the used-qubit walk has established of a gate statement bound to a native definition: every parameter the definition
declares as (possibly) a qubit has its argument, and if that argument is a qubit or a register it is honoured. -/
def UsedHonoured (C : Val → Int → Prop) (g : GateRec) : Prop :=
  g.2.1.tag = .native → ∀ p ∈ UsedQubits.usedParams g.2.1, ∃ a, g.2.2.lookup p = some a ∧ (isQuantum a = true → ArgHonoured C a)

theorem visitRegLoop_ok {r : Val} : ∀ (n : Nat) (acc : UsedQubits.Used) (i : Int) (u : UsedQubits.Used),
    UsedQubits.visitRegLoop [] r acc i n = .ok u → ∀ j : Nat, j < n → ∃ q, resolveReg [] r (i + (j : Int)) = .ok q
  | 0, _, _, _, _, j, hj => by omega
  | n + 1, acc, i, u, h, j, hj => by
    simp only [UsedQubits.visitRegLoop] at h
    obtain ⟨q, hq, h⟩ := bind_ok h
    cases j with
    | zero => exact ⟨q, by simpa using hq⟩
    | succ j =>
      obtain ⟨q', hq'⟩ := visitRegLoop_ok n _ (i + 1) u h j (by omega)
      exact ⟨q', by rw [← hq']; congr 1; push_cast; omega⟩

theorem visitRegister_ok {v : Val} {u : UsedQubits.Used} (hr : Resolve.isRegister v = true)
    (h : UsedQubits.visitRegister [] v = .ok u) : RegHonoured Allows v := by
  unfold UsedQubits.visitRegister at h
  obtain ⟨sz, hsz, h⟩ := bind_ok h
  obtain ⟨k, hk, h⟩ := bind_ok h
  exact regHonoured_of_loop hr hsz hk (visitRegLoop_ok _ [] 0 u h)

theorem visitVal_ok {a : Val} {u : UsedQubits.Used} (h : UsedQubits.visitVal [] (UsedQubits.valFuel []) a = .ok u)
    (hq : isQuantum a = true) : ArgHonoured Allows a := by
  have h' : UsedQubits.visitVal [] 1 a = .ok u := h
  cases a with
  | qubit n s i =>
    unfold UsedQubits.visitVal at h'
    obtain ⟨⟨r, k⟩, hres, _⟩ := bind_ok h'
    exact Or.inl ⟨r, k, qubitHonoured_of_resolve hres⟩
  | regF n s => unfold UsedQubits.visitVal at h'; exact Or.inr (visitRegister_ok rfl h')
  | regA n s => unfold UsedQubits.visitVal at h'; exact Or.inr (visitRegister_ok rfl h')
  | regS n s a b c => unfold UsedQubits.visitVal at h'; exact Or.inr (visitRegister_ok rfl h')
  | _ => simp [isQuantum, Resolve.isRegister] at hq

theorem visitUsedParams_ok (vp : Bool) (args : List (String × Val)) : ∀ (ps : List String) (acc u : UsedQubits.Used),
    UsedQubits.visitUsedParams vp [] args acc ps = .ok u →
    ∀ p ∈ ps, ∃ a, args.lookup p = some a ∧ (isQuantum a = true → ArgHonoured Allows a)
  | [], _, _, _, p, hp => by cases hp
  | p :: rest, acc, u, h, p', hp' => by
    unfold UsedQubits.visitUsedParams at h
    cases hl : args.lookup p with
    | none => rw [hl] at h; cases h
    | some a =>
      rw [hl] at h
      simp only [] at h
      obtain ⟨u1, hu1, h⟩ := bind_ok h
      split at h
      · cases h
      · obtain ⟨acc', _, h⟩ := bind_ok h
        rcases List.mem_cons.1 hp' with rfl | hp'
        · exact ⟨a, hl, visitVal_ok hu1⟩
        · exact visitUsedParams_ok vp args rest acc' u h p' hp'

theorem foldBlock_ok (visit : Stmt → M UsedQubits.Used) (d : Bool) : ∀ (body : List Stmt) (acc u : UsedQubits.Used),
    UsedQubits.foldBlock visit d acc body = .ok u → ∀ s ∈ body, ∃ u', visit s = .ok u'
  | [], _, _, _, s, hs => by cases hs
  | s0 :: rest, acc, u, h, s, hs => by
    unfold UsedQubits.foldBlock at h
    obtain ⟨u0, hu0, h⟩ := bind_ok h
    obtain ⟨acc', _, h⟩ := bind_ok h
    rcases List.mem_cons.1 hs with rfl | hs
    · exact ⟨u0, hu0⟩
    · exact foldBlock_ok visit d rest acc' u h s hs

theorem mem_gatesOfList {g : GateRec} : ∀ {l : List Stmt}, g ∈ gatesOfList l → ∃ s ∈ l, g ∈ gatesOf s
  | [], h => by simp [gatesOfList] at h
  | s :: r, h => by
    simp only [gatesOfList, List.mem_append] at h
    rcases h with h | h
    · exact ⟨s, List.mem_cons_self .., h⟩
    · obtain ⟨s', hs', hg⟩ := mem_gatesOfList h
      exact ⟨s', List.mem_cons_of_mem _ hs', hg⟩

/-- the walk over a statement (empty context: the body of an expanded circuit) has honoured every native gate statement in it -/
theorem usedStmtF_honoured (vp : Bool) (allQ : UsedQubits.Used) (ms : List Macro) : ∀ (fuel : Nat) (s : Stmt) (u : UsedQubits.Used),
    UsedQubits.usedStmtF vp allQ ms fuel [] s = .ok u → ∀ g ∈ gatesOf s, UsedHonoured Allows g
  | 0, s, u, h, _, _ => by cases s <;> simp [UsedQubits.usedStmtF] at h
  | fuel + 1, .gate name gd args, u, h, g, hg => by
    simp only [gatesOf, List.mem_singleton] at hg
    subst hg
    intro htag
    simp only [] at htag
    unfold UsedQubits.usedStmtF at h
    rw [htag] at h
    exact visitUsedParams_ok vp args _ [] u h
  | fuel + 1, .block par sub it body, u, h, g, hg => by
    unfold UsedQubits.usedStmtF at h
    simp only [gatesOf] at hg
    obtain ⟨s, hs, hgs⟩ := mem_gatesOfList hg
    obtain ⟨u', hu'⟩ := foldBlock_ok _ _ body [] u h s hs
    exact usedStmtF_honoured vp allQ ms fuel s u' hu' g hgs
  | fuel + 1, .loop c b, u, h, g, hg => by
    unfold UsedQubits.usedStmtF at h
    simp only [gatesOf] at hg
    exact usedStmtF_honoured vp allQ ms fuel b u h g hg

theorem checkDisjoint_honoured {x : Circuit} (h : UsedQubits.checkDisjoint x = .ok ()) :
    ∀ g ∈ gatesOf x.body, UsedHonoured Allows g := by
  unfold UsedQubits.checkDisjoint UsedQubits.usedCircuitV at h
  obtain ⟨u, hu, _⟩ := bind_ok h
  obtain ⟨allQ, _, hu⟩ := bind_ok hu
  exact usedStmtF_honoured true allQ x.macros _ x.body u hu

/-! ### The gate table of the skeleton -/

mutual
  theorem skelStmt_gates : ∀ (s : Stmt) (tbl : List GateRec) (s' : Walk.Stmt) (t : List GateRec),
      skelStmt tbl s = .ok (s', t) → ∀ g ∈ t, g ∈ tbl ∨ g ∈ gatesOf s
    | .gate name gd args, tbl, s', t, h, g, hg => by
      simp only [skelStmt] at h
      split at h
      · cases h
        rcases List.mem_append.1 hg with hg | hg
        · exact Or.inl hg
        · exact Or.inr (by simpa [gatesOf] using hg)
      · cases h; exact Or.inl hg
    | .block par sub it body, tbl, s', t, h, g, hg => by
      simp only [skelStmt] at h
      obtain ⟨⟨b, t'⟩, hb, h⟩ := bind_ok h
      cases h
      simpa only [gatesOf] using skelList_gates body tbl b t' hb g hg
    | .loop count (.block par sub it b), tbl, s', t, h, g, hg => by
      simp only [skelStmt] at h
      obtain ⟨n, _, h⟩ := bind_ok h
      obtain ⟨⟨b', t'⟩, hb, h⟩ := bind_ok h
      cases h
      simpa only [gatesOf] using skelList_gates b tbl b' t' hb g hg
    | .loop count (.gate _ _ _), tbl, s', t, h, _, _ => by
      simp only [skelStmt] at h
      obtain ⟨n, _, h⟩ := bind_ok h
      cases h
    | .loop count (.loop _ _), tbl, s', t, h, _, _ => by
      simp only [skelStmt] at h
      obtain ⟨n, _, h⟩ := bind_ok h
      cases h
  theorem skelList_gates : ∀ (l : List Stmt) (tbl : List GateRec) (l' : List Walk.Stmt) (t : List GateRec),
      skelList tbl l = .ok (l', t) → ∀ g ∈ t, g ∈ tbl ∨ g ∈ gatesOfList l
    | [], tbl, l', t, h, g, hg => by
      simp only [skelList] at h
      cases h
      exact Or.inl hg
    | s :: rest, tbl, l', t, h, g, hg => by
      simp only [skelList] at h
      obtain ⟨⟨s', t1⟩, hs, h⟩ := bind_ok h
      obtain ⟨⟨r', t2⟩, hr, h⟩ := bind_ok h
      cases h
      simp only [gatesOfList, List.mem_append]
      rcases skelList_gates rest t1 r' t2 hr g hg with hg | hg
      · rcases skelStmt_gates s tbl s' t1 hs g hg with hg | hg
        · exact Or.inl hg
        · exact Or.inr (Or.inl hg)
      · exact Or.inr (Or.inr hg)
end

/-- the gate table of the skeleton holds gate statements of the circuit -/
theorem skeleton_gates {c : Circuit} {body : List Walk.Stmt} {tbl : List GateRec} (h : skeleton c = .ok (body, tbl)) :
    ∀ g ∈ tbl, g ∈ gatesOf c.body := by
  unfold skeleton at h
  split at h
  · rename_i par sub it b hb
    intro g hg
    rw [hb]
    rcases skelList_gates b [] body tbl h g hg with hg | hg
    · cases hg
    · simpa only [gatesOf] using hg
  · cases h

/-! ### The executing stage never raises `ImportError`

`Builder.Good` (the class the lemmas of `RunModelExec.lean` speak of) is "`JaqalError` or `ImportError`" — the latter is raised by
the `usepulses` loader of the builder only.  No branch of the executing stage produces it; so a `Good` failure of `execute` is a
`JaqalError`. -/

def NoImp (e : Err) : Prop := e ≠ .importErr

syntax "ni_step" : tactic
macro_rules | `(tactic| ni_step) => `(tactic| dsimp only)
macro_rules | `(tactic| ni_step) => `(tactic| assumption)
macro_rules | `(tactic| ni_step) => `(tactic| split)
macro_rules | `(tactic| ni_step) => `(tactic| with_reducible refine Cls.bind ?_ (fun _ _ => ?_))
macro_rules | `(tactic| ni_step) => `(tactic| exact Cls.throw (fun h => Err.noConfusion h))
macro_rules | `(tactic| ni_step) => `(tactic| exact Cls.err (fun h => Err.noConfusion h))
macro_rules | `(tactic| ni_step) => `(tactic| exact Cls.ok _)
macro_rules | `(tactic| ni_step) => `(tactic| exact Cls.pure _)
/-- close `Cls NoImp m` goals by walking through `m` -/
macro "ni" : tactic => `(tactic| repeat' ni_step)

theorem resolveAV_ni (ctx : Resolve.Ctx) : ∀ (fuel : Nat) (v : Val), Cls NoImp (resolveAV ctx fuel v)
  | 0, _ => by unfold resolveAV; ni
  | fuel + 1, v => by
    unfold resolveAV
    ni
    all_goals exact resolveAV_ni ctx fuel _
macro_rules | `(tactic| ni_step) => `(tactic| exact resolveAV_ni _ _ _)

theorem resolveInt_ni (ctx : Resolve.Ctx) (v : Val) : Cls NoImp (resolveInt ctx v) := by unfold resolveInt; ni
macro_rules | `(tactic| ni_step) => `(tactic| exact resolveInt_ni _ _)

theorem rangeLen_ni (a b s : Int) : Cls NoImp (rangeLen a b s) := by unfold rangeLen; ni
macro_rules | `(tactic| ni_step) => `(tactic| exact rangeLen_ni _ _ _)

theorem resolveSize_ni : ∀ (v : Val) (ctx : Resolve.Ctx), Cls NoImp (resolveSize ctx v)
  | .regF _ _, _ => by unfold resolveSize; ni
  | .regA _ src, ctx => by
    unfold resolveSize
    ni
    all_goals exact resolveSize_ni src []
  | .regS _ _ _ _ _, _ => by unfold resolveSize; ni
  | .int _, _ | .flt _, _ | .const _ _, _ | .param _ _, _ | .qubit _ _ _, _ | .none, _ | .str _, _ => by
    unfold resolveSize; ni
macro_rules | `(tactic| ni_step) => `(tactic| exact resolveSize_ni _ _)

theorem resolveReg_ni : ∀ (v : Val) (ctx : Resolve.Ctx) (i : Int), Cls NoImp (resolveReg ctx v i)
  | .regF _ _, _, _ => by unfold resolveReg; ni
  | .regA _ src, ctx, i => by
    unfold resolveReg
    ni
    all_goals exact resolveReg_ni src ctx _
  | .regS _ src _ _ _, ctx, i => by
    unfold resolveReg
    ni
    all_goals exact resolveReg_ni src ctx _
  | .int _, _, _ | .flt _, _, _ | .const _ _, _, _ | .param _ _, _, _ | .qubit _ _ _, _, _ | .none, _, _ | .str _, _, _ => by
    unfold resolveReg; ni
macro_rules | `(tactic| ni_step) => `(tactic| exact resolveReg_ni _ _ _)

theorem resolveQubit_ni (ctx : Resolve.Ctx) (v : Val) : Cls NoImp (resolveQubit ctx v) := by unfold resolveQubit; ni
macro_rules | `(tactic| ni_step) => `(tactic| exact resolveQubit_ni _ _)

theorem pyInt_ni (v : Val) : Cls NoImp (UsedQubits.pyInt v) := by unfold UsedQubits.pyInt; ni
macro_rules | `(tactic| ni_step) => `(tactic| exact pyInt_ni _)

theorem regLoop_ni (r : Val) : ∀ (n : Nat) (i : Int), Cls NoImp (regLoop r i n)
  | 0, _ => by unfold regLoop; ni
  | n + 1, i => by
    unfold regLoop
    ni
    all_goals exact regLoop_ni r n _
macro_rules | `(tactic| ni_step) => `(tactic| exact regLoop_ni _ _ _)

theorem regIndices_ni (r : Val) : Cls NoImp (regIndices r) := by unfold regIndices; ni
macro_rules | `(tactic| ni_step) => `(tactic| exact regIndices_ni _)

theorem quantumToken_ni (v : Val) : Cls NoImp (quantumToken v) := by unfold quantumToken; ni
macro_rules | `(tactic| ni_step) => `(tactic| exact quantumToken_ni _)

theorem emuArg_ni (k : Kind) (v : Val) : Cls NoImp (emuArg k v) := by unfold emuArg; ni
macro_rules | `(tactic| ni_step) => `(tactic| exact emuArg_ni _ _)

theorem emuArgs_ni : ∀ (ps : List (String × Kind)) (as : List (String × Val)), Cls NoImp (emuArgs ps as)
  | [], _ => by unfold emuArgs; ni
  | _ :: _, [] => by unfold emuArgs; ni
  | (_, k) :: ps, (_, v) :: as => by
    unfold emuArgs
    ni
    all_goals exact emuArgs_ni ps as
macro_rules | `(tactic| ni_step) => `(tactic| exact emuArgs_ni _ _)

theorem gateArgs_ni (gd : GateDef) (args : List (String × Val)) : Cls NoImp (gateArgs gd args) := by unfold gateArgs; ni
macro_rules | `(tactic| ni_step) => `(tactic| exact gateArgs_ni _ _)

theorem gateToken_ni (natives : List GateDef) (name : String) (args : List (String × Val)) :
    Cls NoImp (gateToken natives name args) := by unfold gateToken; ni
macro_rules | `(tactic| ni_step) => `(tactic| exact gateToken_ni _ _ _)

theorem gkToken_ni (natives : List GateDef) (tbl : List GateRec) (k : Walk.GK) : Cls NoImp (gkToken natives tbl k) := by
  unfold gkToken; ni
macro_rules | `(tactic| ni_step) => `(tactic| exact gkToken_ni _ _ _)

theorem traceTokens_ni (natives : List GateDef) (tbl : List GateRec) : ∀ (gs : List Walk.GK), Cls NoImp (traceTokens natives tbl gs)
  | [] => by unfold traceTokens; ni
  | _ :: rest => by
    unfold traceTokens
    ni
    all_goals exact traceTokens_ni natives tbl rest
macro_rules | `(tactic| ni_step) => `(tactic| exact traceTokens_ni _ _ _)

theorem nQubits_ni (c : Circuit) : Cls NoImp (nQubits c) := by unfold nQubits; ni
macro_rules | `(tactic| ni_step) => `(tactic| exact nQubits_ni _)

theorem allocate_ni (v : Val) : Cls NoImp (allocate v) := by unfold allocate; ni
macro_rules | `(tactic| ni_step) => `(tactic| exact allocate_ni _)

theorem makeSubcircuit_ni (c : Circuit) (body : List Walk.Stmt) (tbl : List GateRec) (tr : Walk.Addr × Walk.Addr) :
    Cls NoImp (makeSubcircuit c body tbl tr) := by unfold makeSubcircuit; ni
macro_rules | `(tactic| ni_step) => `(tactic| exact makeSubcircuit_ni _ _ _ _)

theorem makeSubcircuits_ni (c : Circuit) (body : List Walk.Stmt) (tbl : List GateRec) :
    ∀ (l : List (Walk.Addr × Walk.Addr)), Cls NoImp (makeSubcircuits c body tbl l)
  | [] => by unfold makeSubcircuits; ni
  | _ :: rest => by
    unfold makeSubcircuits
    ni
    all_goals exact makeSubcircuits_ni c body tbl rest
macro_rules | `(tactic| ni_step) => `(tactic| exact makeSubcircuits_ni _ _ _ _)

theorem mergeKey_ni (d : Bool) (tgt : UsedQubits.Used) (kv : String × List Int) : Cls NoImp (UsedQubits.mergeKey d tgt kv) := by
  unfold UsedQubits.mergeKey; ni
macro_rules | `(tactic| ni_step) => `(tactic| exact mergeKey_ni _ _ _)

theorem mergeInto_ni (d : Bool) : ∀ (src tgt : UsedQubits.Used), Cls NoImp (UsedQubits.mergeInto d tgt src)
  | [], _ => by unfold UsedQubits.mergeInto; ni
  | _ :: rest, tgt => by
    unfold UsedQubits.mergeInto
    ni
    all_goals exact mergeInto_ni d rest _
macro_rules | `(tactic| ni_step) => `(tactic| exact mergeInto_ni _ _ _)

theorem visitRegLoop_ni (ctx : Resolve.Ctx) (r : Val) : ∀ (n : Nat) (acc : UsedQubits.Used) (i : Int),
    Cls NoImp (UsedQubits.visitRegLoop ctx r acc i n)
  | 0, _, _ => by unfold UsedQubits.visitRegLoop; ni
  | n + 1, acc, i => by
    unfold UsedQubits.visitRegLoop
    ni
    all_goals exact visitRegLoop_ni ctx r n _ _
macro_rules | `(tactic| ni_step) => `(tactic| exact visitRegLoop_ni _ _ _ _ _)

theorem visitRegister_ni (ctx : Resolve.Ctx) (r : Val) : Cls NoImp (UsedQubits.visitRegister ctx r) := by
  unfold UsedQubits.visitRegister; ni
macro_rules | `(tactic| ni_step) => `(tactic| exact visitRegister_ni _ _)

theorem visitVal_ni (ctx : Resolve.Ctx) : ∀ (fuel : Nat) (v : Val), Cls NoImp (UsedQubits.visitVal ctx fuel v)
  | 0, v => by cases v <;> (unfold UsedQubits.visitVal; ni)
  | fuel + 1, v => by
    cases v <;> (unfold UsedQubits.visitVal; ni)
    all_goals exact visitVal_ni ctx fuel _
macro_rules | `(tactic| ni_step) => `(tactic| exact visitVal_ni _ _ _)

theorem bindArgument_ni (ctx : Resolve.Ctx) (arg : Val) : Cls NoImp (UsedQubits.bindArgument ctx arg) := by
  unfold UsedQubits.bindArgument
  ni
  all_goals first
    | exact Cls.err (resolveAV_ni _ _ _ _ (by assumption))
    | exact Cls.err (resolveQubit_ni _ _ _ (by assumption))
macro_rules | `(tactic| ni_step) => `(tactic| exact bindArgument_ni _ _)

theorem bindArguments_ni (ctx : Resolve.Ctx) : ∀ (l : List (String × Val)), Cls NoImp (UsedQubits.bindArguments ctx l)
  | [] => by unfold UsedQubits.bindArguments; ni
  | (_, _) :: rest => by
    unfold UsedQubits.bindArguments
    ni
    all_goals exact bindArguments_ni ctx rest
macro_rules | `(tactic| ni_step) => `(tactic| exact bindArguments_ni _ _)

theorem visitUsedParams_ni (vp : Bool) (ctx : Resolve.Ctx) (args : List (String × Val)) : ∀ (ps : List String) (acc : UsedQubits.Used),
    Cls NoImp (UsedQubits.visitUsedParams vp ctx args acc ps)
  | [], _ => by unfold UsedQubits.visitUsedParams; ni
  | _ :: rest, acc => by
    unfold UsedQubits.visitUsedParams
    ni
    all_goals exact visitUsedParams_ni vp ctx args rest _
macro_rules | `(tactic| ni_step) => `(tactic| exact visitUsedParams_ni _ _ _ _ _)

theorem foldBlock_ni (visit : Stmt → M UsedQubits.Used) (d : Bool) (hv : ∀ s, Cls NoImp (visit s)) :
    ∀ (body : List Stmt) (acc : UsedQubits.Used), Cls NoImp (UsedQubits.foldBlock visit d acc body)
  | [], _ => by unfold UsedQubits.foldBlock; ni
  | s :: rest, acc => by
    unfold UsedQubits.foldBlock
    ni
    · exact hv s
    · exact foldBlock_ni visit d hv rest _

theorem usedStmtF_ni (vp : Bool) (allQ : UsedQubits.Used) (ms : List Macro) : ∀ (fuel : Nat) (ctx : Resolve.Ctx) (s : Stmt),
    Cls NoImp (UsedQubits.usedStmtF vp allQ ms fuel ctx s)
  | 0, _, _ => by unfold UsedQubits.usedStmtF; ni
  | fuel + 1, ctx, .gate name gd args => by
    unfold UsedQubits.usedStmtF
    ni
    all_goals exact usedStmtF_ni vp allQ ms fuel _ _
  | fuel + 1, ctx, .block par sub it body => by
    unfold UsedQubits.usedStmtF
    exact foldBlock_ni _ _ (fun s => usedStmtF_ni vp allQ ms fuel ctx s) body []
  | fuel + 1, ctx, .loop c b => by
    unfold UsedQubits.usedStmtF
    exact usedStmtF_ni vp allQ ms fuel ctx b
macro_rules | `(tactic| ni_step) => `(tactic| exact usedStmtF_ni _ _ _ _ _ _)

theorem allQubits_ni : ∀ (regs : List Val) (acc : UsedQubits.Used), Cls NoImp (UsedQubits.allQubits regs acc)
  | [], _ => by unfold UsedQubits.allQubits; ni
  | v :: rest, acc => by
    cases v <;> (unfold UsedQubits.allQubits; ni)
    all_goals exact allQubits_ni rest _
macro_rules | `(tactic| ni_step) => `(tactic| exact allQubits_ni _ _)

theorem checkDisjoint_ni (c : Circuit) : Cls NoImp (UsedQubits.checkDisjoint c) := by
  unfold UsedQubits.checkDisjoint UsedQubits.usedCircuitV; ni
macro_rules | `(tactic| ni_step) => `(tactic| exact checkDisjoint_ni _)

theorem loopCount_ni (v : Val) : Cls NoImp (loopCount v) := by unfold loopCount; ni
macro_rules | `(tactic| ni_step) => `(tactic| exact loopCount_ni _)

mutual
  theorem skelStmt_ni : ∀ (s : Stmt) (tbl : List GateRec), Cls NoImp (skelStmt tbl s)
    | .gate _ _ _, _ => by unfold skelStmt; ni
    | .block _ _ _ body, tbl => by
      unfold skelStmt
      ni
      all_goals exact skelList_ni body tbl
    | .loop _ (.block _ _ _ b), tbl => by
      unfold skelStmt
      ni
      all_goals exact skelList_ni b tbl
    | .loop _ (.gate _ _ _), _ => by unfold skelStmt; ni
    | .loop _ (.loop _ _), _ => by unfold skelStmt; ni
  theorem skelList_ni : ∀ (l : List Stmt) (tbl : List GateRec), Cls NoImp (skelList tbl l)
    | [], _ => by unfold skelList; ni
    | s :: rest, tbl => by
      unfold skelList
      ni
      · exact skelStmt_ni s tbl
      · exact skelList_ni rest _
end

theorem skeleton_ni (c : Circuit) : Cls NoImp (skeleton c) := by
  unfold skeleton
  ni
  all_goals exact skelList_ni _ _
macro_rules | `(tactic| ni_step) => `(tactic| exact skeleton_ni _)

theorem tooLarge_ni : ∀ (regs : List Val), Cls NoImp (tooLarge regs)
  | [] => by unfold tooLarge; ni
  | v :: rest => by
    cases v <;> (unfold tooLarge; ni)
    all_goals exact tooLarge_ni rest
macro_rules | `(tactic| ni_step) => `(tactic| exact tooLarge_ni _)

/-- **the executing stage never fails with `ImportError`** -/
theorem execute_noImport (x : Circuit) : Cls NoImp (execute x) := by
  unfold execute
  ni
  all_goals (rename_i e _; cases e <;> exact Cls.throw (fun h => Err.noConfusion h))

/-- on a flat typed circuit (what `expandAll` returns for every text: `flatOf_all`) every failure of `execute` is a `JaqalError` -/
theorem execute_jaqal {x : Circuit} (hf : FlatT x = true) {e : Err} (h : execute x = .error e) : ∃ r, e = .jaqal r := by
  rcases execute_class x (flatT_execClass hf) e h with hr | hi
  · exact hr
  · exact absurd hi (execute_noImport x e h)

end Jaqal.RunModel
