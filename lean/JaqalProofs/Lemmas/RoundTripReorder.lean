import JaqalProofs.Lemmas.RoundTripProgram
import JaqalProofs.Lemmas.RoundTripTable
/-!
# C01, builder layer: a build replayed in another context and against another gate table

`build_circuit` reads a context only through `context.get` and the three block-context markers, and `context.get`
returning nothing always ends in an exception.  So

* two contexts with the same bindings (whatever the order of insertion) are interchangeable (`buildAny_ctxEq`);
* a build that succeeded succeeds with the same result in any context that binds more (`buildVal_mono`);
* **`buildAny_transfer`**: a successful build of a statement, a header value or a macro definition can be replayed in a
  larger context and from another gate table, as long as both tables lie inside a common reference table `G` and the
  new one lacks only anonymous definitions of `G`: the same object is built, and the new table stays inside `G`.
  The nesting check of `build_gate` gives the same answer in both tables because gate tables are acyclic
  (`Lemmas/RoundTripTable.lean`).
-/
set_option linter.unusedSimpArgs false
set_option linter.unusedVariables false
namespace Jaqal.RoundTrip
open Jaqal Jaqal.Builder Jaqal.Pipeline

/-! ## contexts with the same bindings -/

/-- same `context.get`, same block-context markers -/
def CtxEq (a b : Ctx) : Prop := a.get = b.get ∧ a.inSeq = b.inSeq ∧ a.inPar = b.inPar ∧ a.inSub = b.inSub

theorem CtxEq.refl (a : Ctx) : CtxEq a a := ⟨rfl, rfl, rfl, rfl⟩
theorem CtxEq.symm {a b : Ctx} (h : CtxEq a b) : CtxEq b a := ⟨h.1.symm, h.2.1.symm, h.2.2.1.symm, h.2.2.2.symm⟩
theorem CtxEq.trans {a b c : Ctx} (h1 : CtxEq a b) (h2 : CtxEq b c) : CtxEq a c :=
  ⟨h1.1.trans h2.1, h1.2.1.trans h2.2.1, h1.2.2.1.trans h2.2.2.1, h1.2.2.2.trans h2.2.2.2⟩

theorem buildVal_ctxEq {a b : Ctx} (h : a.get = b.get) : ∀ (f : Nat) (e : BSx), buildVal a f e = buildVal b f e := by
  intro f
  induction f with
  | zero =>
    intro e
    cases e with
    | val v => cases v <;> rfl
    | _ => simp [buildVal, lookupId, h]
  | succ f ih =>
    intro e
    cases e with
    | list l =>
      show valStep a.get (buildVal a f) l = valStep b.get (buildVal b f) l
      rw [h]
      exact valStep_congr (fun x _ => ih x) (fun _ _ => rfl)
    | val v => cases v <;> rfl
    | _ => simp [buildVal, lookupId, h]

theorem get_withParams {a b : Ctx} (h : a.get = b.get) (ps : List (String × Kind)) :
    (a.withParams ps).get = (b.withParams ps).get := by
  funext n
  have hn := congrFun h n
  simp only [Ctx.get] at hn ⊢
  simp only [Ctx.withParams, List.lookup_append, hn]

theorem buildGate_ctxEq (cfg : Config) {a b : Ctx} (h : CtxEq a b) (recV : BSx → M Val) (args : List BSx) (st : St) :
    buildGate cfg .off a recV args st = buildGate cfg .off b recV args st := by
  unfold buildGate
  split
  · rfl
  · simp only [nestingCheck, h.2.2.1, h.2.2.2, buildGateMemo, if_true]
  · rfl

theorem buildAny_ctxEq (cfg : Config) : ∀ (f : Nat) (a b : Ctx), CtxEq a b →
    buildAny cfg .off f a = buildAny cfg .off f b := by
  intro f
  induction f with
  | zero =>
    intro a b h
    funext e st
    cases e <;> simp [buildAny, buildVal_ctxEq h.1]
  | succ f ih =>
    intro a b h
    funext e st
    cases e with
    | list l =>
      rw [buildAny_list, buildAny_list]
      obtain ⟨va, s1, p1, u1⟩ := a
      obtain ⟨vb, s2, p2, u2⟩ := b
      obtain ⟨hg, hs, hp, hu⟩ := h
      dsimp only at hs hp hu
      subst hs hp hu
      have h : CtxEq ⟨va, s1, p1, u1⟩ ⟨vb, s1, p1, u1⟩ := ⟨hg, rfl, rfl, rfl⟩
      have e1 := ih ⟨va, true, p1, u1⟩ ⟨vb, true, p1, u1⟩ ⟨hg, rfl, rfl, rfl⟩
      have e2 := ih ⟨va, s1, true, u1⟩ ⟨vb, s1, true, u1⟩ ⟨hg, rfl, rfl, rfl⟩
      have e3 := ih ⟨va, s1, p1, true⟩ ⟨vb, s1, p1, true⟩ ⟨hg, rfl, rfl, rfl⟩
      have e4 := ih _ _ h
      have eP : ∀ ps, buildAny cfg .off f (Ctx.withParams ⟨va, s1, p1, u1⟩ ps)
          = buildAny cfg .off f (Ctx.withParams ⟨vb, s1, p1, u1⟩ ps) :=
        fun ps => ih _ _ ⟨get_withParams h.1 ps, rfl, rfl, rfl⟩
      have eV : buildVal ⟨va, s1, p1, u1⟩ f = buildVal ⟨vb, s1, p1, u1⟩ f := funext (buildVal_ctxEq h.1 f)
      have eG : ∀ args st, buildGate cfg .off ⟨va, s1, p1, u1⟩ (buildVal ⟨vb, s1, p1, u1⟩ f) args st
          = buildGate cfg .off ⟨vb, s1, p1, u1⟩ (buildVal ⟨vb, s1, p1, u1⟩ f) args st :=
        fun args st => buildGate_ctxEq cfg h _ args st
      unfold anyStep
      simp only [e1, e2, e3, e4, eP, eV, eG, hg]
    | _ => simp [buildAny, buildVal_ctxEq h.1]

/-! ## a larger context: whatever succeeds, succeeds with the same result

`context.get` returning nothing always ends in an exception, so a build that succeeded looked up only names that were
bound; binding more names cannot change it. -/

/-- `y` succeeds with the result of `x` whenever `x` succeeds -/
def MLe {α : Type} (x y : M α) : Prop := ∀ r, x = .ok r → y = .ok r

theorem MLe.refl {α : Type} (x : M α) : MLe x x := fun _ h => h

theorem MLe.bind {α β : Type} {x y : M α} {f g : α → M β} (h1 : MLe x y) (h2 : ∀ a, MLe (f a) (g a)) :
    MLe (x >>= f) (y >>= g) := by
  intro r h
  obtain ⟨a, ha, hf⟩ := bind_ok h
  rw [h1 a ha]
  exact h2 a r hf

theorem MLe.mapM {α β : Type} {f g : α → M β} : ∀ (l : List α), (∀ x ∈ l, MLe (f x) (g x)) → MLe (l.mapM f) (l.mapM g)
  | [], _ => by simp only [List.mapM_nil]; exact MLe.refl _
  | x :: xs, h => by
    simp only [List.mapM_cons]
    exact MLe.bind (h x (by simp)) (fun a => MLe.bind (MLe.mapM xs (fun y hy => h y (by simp [hy]))) (fun _ => MLe.refl _))

/-- `b` binds at least what `a` binds, to the same values -/
def GetLe (get get' : String → Option Val) : Prop := ∀ x w, get x = some w → get' x = some w

theorem mapSource_mono {get get' : String → Option Val} (hg : GetLe get get') (e : BSx) :
    MLe (mapSource get e) (mapSource get' e) := by
  cases e with
  | str s =>
    intro r h
    simp only [mapSource] at h ⊢
    cases hs : get s with
    | none => rw [hs] at h; simp [throw_eq] at h
    | some v => rw [hs] at h; rw [hg s v hs]; exact h
  | _ => exact MLe.refl _

theorem valStep_mono {get get' : String → Option Val} {rec rec' : BSx → M Val} {l : List BSx}
    (hg : GetLe get get') (hr : ∀ x ∈ l, MLe (rec x) (rec' x)) : MLe (valStep get rec l) (valStep get' rec' l) := by
  unfold valStep
  split
  · exact MLe.refl _
  · rename_i cmd args
    split
    · split
      · rename_i name size
        exact MLe.bind (MLe.refl _) (fun _ => MLe.bind (hr size (by simp)) (fun _ => MLe.refl _))
      · exact MLe.refl _
    · split
      · exact MLe.refl _
      · split
        · split
          · rename_i ident index
            exact MLe.bind (hr ident (by simp)) (fun _ => MLe.bind (hr index (by simp)) (fun _ => MLe.refl _))
          · exact MLe.refl _
        · split
          · split
            · rename_i name srcE rest
              refine MLe.bind (mapSource_mono hg srcE) (fun src => ?_)
              split
              · exact MLe.refl _
              · rename_i idxE
                exact MLe.bind (MLe.refl _) (fun _ => MLe.bind (hr idxE (by simp)) (fun _ => MLe.refl _))
              · rename_i a b c
                exact MLe.bind (MLe.refl _) (fun _ => MLe.bind (hr a (by simp)) (fun _ =>
                  MLe.bind (hr b (by simp)) (fun _ => MLe.bind (MLe.refl _) (fun _ =>
                    MLe.bind (hr c (by simp)) (fun _ => MLe.refl _)))))
              · exact MLe.refl _
            · exact MLe.refl _
          · exact MLe.refl _
  · exact MLe.refl _

theorem buildVal_mono {a b : Ctx} (h : GetLe a.get b.get) : ∀ (f : Nat) (e : BSx), MLe (buildVal a f e) (buildVal b f e) := by
  intro f
  induction f with
  | zero =>
    intro e
    cases e with
    | str s =>
      intro r hr
      simp only [buildVal, lookupId] at hr ⊢
      cases hs : a.get s with
      | none => rw [hs] at hr; simp [throw_eq] at hr
      | some v => rw [hs] at hr; rw [h s v hs]; exact hr
    | val v => cases v <;> exact MLe.refl _
    | list l => intro r hr; simp [buildVal, throw_eq] at hr
    | _ => exact MLe.refl _
  | succ f ih =>
    intro e
    cases e with
    | str s =>
      intro r hr
      simp only [buildVal, lookupId] at hr ⊢
      cases hs : a.get s with
      | none => rw [hs] at hr; simp [throw_eq] at hr
      | some v => rw [hs] at hr; rw [h s v hs]; exact hr
    | val v => cases v <;> exact MLe.refl _
    | list l =>
      show MLe (valStep a.get (buildVal a f) l) (valStep b.get (buildVal b f) l)
      exact valStep_mono h (fun x _ => ih x)
    | _ => exact MLe.refl _

theorem getLe_withParams {a b : Ctx} (h : GetLe a.get b.get) (ps : List (String × Kind)) :
    GetLe (a.withParams ps).get (b.withParams ps).get := by
  intro x w hx
  simp only [Ctx.get, Ctx.withParams, List.lookup_append] at hx ⊢
  cases hl : List.lookup x (List.map (fun p => (p.1, Val.param p.1 p.2)) ps.reverse) with
  | some v => rw [hl] at hx; exact hx
  | none =>
    rw [hl] at hx
    simp only [Option.none_or] at hx ⊢
    exact h x w hx

/-! ## the same statement built against another gate table

`G` is a reference table (in the applications: the table at the end of the run being compared with).  A build whose
resulting table lies inside `G` can be replayed from any table `gn` inside `G` that has all of `G` except anonymous
definitions: it finds the same definitions (an anonymous definition is determined by the name and the number of
arguments of any successful call), so it makes the same statements, and its table stays inside `G`. -/

def CtxLe (a b : Ctx) : Prop := GetLe a.get b.get ∧ a.inSeq = b.inSeq ∧ a.inPar = b.inPar ∧ a.inSub = b.inSub

theorem CtxLe.refl (a : Ctx) : CtxLe a a := ⟨fun _ _ h => h, rfl, rfl, rfl⟩

/-- invariants of a builder state -/
structure TI (st : St) : Prop where
  k : KInv st
  r : RInv st.gctx

theorem TI.post {cfg : Config} {st st1 : St} {o : Obj} (hi : TI st) (hp : KPost cfg st o st1) : TI st1 :=
  ⟨hp.inv, hi.r.grow hp.ext hp.anon⟩

/-- `g` lies inside the reference table and lacks only anonymous definitions -/
structure TRel (cfg : Config) (G : GCtx) (g : GCtx) : Prop where
  sub : GExt g G
  anon : AnonExt cfg g G

theorem TRel.grow {cfg : Config} {G g g' : GCtx} (h : TRel cfg G g) (hx : GExt g g') (hs : GExt g' G) : TRel cfg G g' := by
  refine ⟨hs, ?_⟩
  intro n e he
  rcases h.anon n e he with h0 | h0
  · exact Or.inl (hx n e h0)
  · exact Or.inr h0

/-- every name the old run added is bound in the new table -/
def Cover (go go' gn' : GCtx) : Prop :=
  ∀ n, (go'.lookup n).isSome = true → (go.lookup n).isSome = true ∨ (gn'.lookup n).isSome = true

theorem Cover.refl (go gn : GCtx) : Cover go go gn := fun _ h => Or.inl h

theorem Cover.trans {g0 g1 g2 n1 n2 : GCtx} (h1 : Cover g0 g1 n1) (h2 : Cover g1 g2 n2) (hx : GExt n1 n2) : Cover g0 g2 n2 := by
  intro n hn
  rcases h2 n hn with h | h
  · rcases h1 n h with h | h
    · exact Or.inl h
    · right
      cases hl : n1.lookup n with
      | none => rw [hl] at h; cases h
      | some v => rw [hx n v hl]; rfl
  · exact Or.inr h

theorem agree_of_ref {cfg : Config} {G go gn : GCtx} (ho : GExt go G) (hn : TRel cfg G gn) : Agree go gn := by
  intro n e he
  have hG := ho n e he
  cases hl : gn.lookup n with
  | some e' =>
    have := hn.sub n e' hl
    rw [hG] at this
    cases this
    exact Or.inl rfl
  | none =>
    right
    refine ⟨rfl, ?_⟩
    rcases hn.anon n e hG with h0 | ⟨_, k, hk⟩
    · rw [hl] at h0; cases h0
    · intro M hM; rw [hM] at hk; cases hk

theorem callDef_arity {gd : GateDef} {vals : List Val} {s : Stmt} (h : callDef gd vals = .ok s) :
    gd.params.length = vals.length := by
  unfold callDef at h
  by_cases h1 : vals.length > gd.params.length
  · simp [h1, throw_eq, bind, Except.bind] at h
  · simp only [h1, if_false, pure_bind] at h
    generalize hb : (List.foldl (fun acc p => odSet p.1 p.2 acc) [] ((gd.params.map (·.1)).zip vals)) = bound at h
    by_cases h2 : gd.params.length ≠ bound.length
    · simp [h2, throw_eq, bind, Except.bind] at h
    · have h3 := (foldl_odSet_full ((gd.params.map (·.1)).zip vals) []).1
      rw [hb] at h3
      simp only [List.length_nil, List.length_zip, List.length_map, Nat.zero_add] at h3
      omega

theorem anonDef_params (n : String) (k : Nat) : (anonDef n k).params.length = k := by
  simp [anonDef]

theorem lookup_isSome_cons {β : Type} {k n : String} {e : β} {g : List (String × β)} :
    (List.lookup n ((k, e) :: g)).isSome = true ↔ n = k ∨ (List.lookup n g).isSome = true := by
  by_cases h : n = k
  · subst h; simp [lookup_cons_self]
  · rw [lookup_cons_ne h]; simp [h]

theorem gext_cons {k : String} {e : GEntry} {g G : GCtx} (hg : GExt g G) (hk : G.lookup k = some e) :
    GExt ((k, e) :: g) G := by
  intro n e' hn
  by_cases h : n = k
  · subst h; rw [lookup_cons_self] at hn; cases hn; exact hk
  · rw [lookup_cons_ne h] at hn; exact hg n e' hn

theorem getGateDef_transfer {cfg : Config} {G go go' gn : GCtx} {name : String} {vals : List Val} {gd : GateDef} {s : Stmt}
    (h : getGateDef cfg name vals.length go = .ok (gd, go')) (hcall : callDef gd vals = .ok s)
    (hG : GExt go' G) (hn : TRel cfg G gn) :
    ∃ gn', getGateDef cfg name vals.length gn = .ok (gd, gn') ∧ GExt gn' G ∧ Cover go go' gn' := by
  unfold getGateDef at h
  cases hl : go.lookup name with
  | some e =>
    simp only [hl, pure, Except.pure, Except.ok.injEq, Prod.mk.injEq] at h
    obtain ⟨rfl, rfl⟩ := h
    have hGe := hG name e hl
    cases hl2 : gn.lookup name with
    | some e' =>
      have := hn.sub name e' hl2
      rw [hGe] at this
      cases this
      exact ⟨gn, by simp [getGateDef, hl2, pure, Except.pure], hn.sub, Cover.refl _ _⟩
    | none =>
      rcases hn.anon name e hGe with h0 | ⟨ha, k, hk⟩
      · rw [hl2] at h0; cases h0
      · subst hk
        have hk : k = vals.length := by
          have := callDef_arity hcall
          simpa [GEntry.toDef, anonDef_params] using this
        subst hk
        refine ⟨(name, .gdef (anonDef name vals.length)) :: gn, by simp [getGateDef, hl2, ha, pure, Except.pure, GEntry.toDef],
          gext_cons hn.sub hGe, Cover.refl _ _⟩
  | none =>
    simp only [hl] at h
    by_cases ha : cfg.anonymousAllowed = true
    · simp only [ha, if_true, pure, Except.pure, Except.ok.injEq, Prod.mk.injEq] at h
      obtain ⟨rfl, rfl⟩ := h
      have hGe := hG name _ lookup_cons_self
      cases hl2 : gn.lookup name with
      | some e' =>
        have := hn.sub name e' hl2
        rw [hGe] at this
        cases this
        refine ⟨gn, by simp [getGateDef, hl2, pure, Except.pure, GEntry.toDef], hn.sub, ?_⟩
        intro n hn'
        rcases lookup_isSome_cons.1 hn' with rfl | h0
        · right; rw [hl2]; rfl
        · exact Or.inl h0
      | none =>
        refine ⟨(name, .gdef (anonDef name vals.length)) :: gn, by simp [getGateDef, hl2, ha, pure, Except.pure],
          gext_cons hn.sub hGe, ?_⟩
        intro n hn'
        rcases lookup_isSome_cons.1 hn' with rfl | h0
        · right; rw [lookup_cons_self]; rfl
        · exact Or.inl h0
    · simp [ha, throw_eq] at h

theorem mapM_length {α β : Type} {f : α → M β} : ∀ {l : List α} {r : List β}, l.mapM f = .ok r → r.length = l.length
  | [], r, h => by simp only [List.mapM_nil, pure, Except.pure, Except.ok.injEq] at h; subst h; rfl
  | x :: xs, r, h => by
    simp only [List.mapM_cons] at h
    obtain ⟨a, _, h1⟩ := bind_ok h
    obtain ⟨as, has, h2⟩ := bind_ok h1
    cases h2
    simp [mapM_length has]

theorem getGateDef_ext {cfg : Config} {name : String} {k : Nat} {g g' : GCtx} {gd : GateDef}
    (h : getGateDef cfg name k g = .ok (gd, g')) : GExt g g' := by
  unfold getGateDef at h
  cases hl : g.lookup name with
  | some e => simp only [hl, pure, Except.pure, Except.ok.injEq, Prod.mk.injEq] at h; rw [← h.2]; exact GExt.refl _
  | none =>
    simp only [hl] at h
    by_cases ha : cfg.anonymousAllowed = true
    · simp only [ha, if_true, pure, Except.pure, Except.ok.injEq, Prod.mk.injEq] at h
      rw [← h.2]
      intro n e hn
      have : n ≠ name := by rintro rfl; rw [hl] at hn; cases hn
      rw [lookup_cons_ne this]; exact hn
    · simp [ha, throw_eq] at h

theorem buildGate_transfer {cfg : Config} {G : GCtx} {co cn : Ctx} {recVo recVn : BSx → M Val} {args : List BSx}
    {so so' sn : St} {s : Stmt} (hf : co.inPar = cn.inPar ∧ co.inSub = cn.inSub)
    (hrec : ∀ x ∈ args, MLe (recVo x) (recVn x))
    (h : buildGate cfg .off co recVo args so = .ok (s, so')) (hio : TI so) (hin : TI sn)
    (hG : GExt so'.gctx G) (hn : TRel cfg G sn.gctx) :
    ∃ sn', buildGate cfg .off cn recVn args sn = .ok (s, sn') ∧ GExt sn'.gctx G ∧ Cover so.gctx so'.gctx sn'.gctx := by
  unfold buildGate at h ⊢
  split at h
  · simp [throw_eq] at h
  · rename_i name gargs
    obtain ⟨_, hnc, h⟩ := bind_ok h
    simp only [buildGateMemo, if_true] at h ⊢
    obtain ⟨⟨s', g'⟩, hb, h1⟩ := bind_ok h
    simp only [pure, Except.pure, Except.ok.injEq, Prod.mk.injEq] at h1
    obtain ⟨rfl, rfl⟩ := h1
    simp only [] at hG ⊢
    unfold buildGateFresh at hb
    obtain ⟨⟨gd, g1⟩, hgd, hb1⟩ := bind_ok hb
    obtain ⟨vals, hvals, hb2⟩ := bind_ok hb1
    obtain ⟨s1, hcall, hb3⟩ := bind_ok hb2
    simp only [pure, Except.pure, Except.ok.injEq, Prod.mk.injEq] at hb3
    obtain ⟨rfl, rfl⟩ := hb3
    have hlen := mapM_length hvals
    rw [← hlen] at hgd
    obtain ⟨gn', hgn, hsub, hcov⟩ := getGateDef_transfer hgd hcall hG hn
    have hvals' := MLe.mapM gargs (fun x hx => hrec x (by simp [hx])) vals hvals
    -- the nesting check
    have hnest : macroHasSub so.gctx (so.gctx.length + 1) name = macroHasSub sn.gctx (sn.gctx.length + 1) name := by
      have hso : GExt so.gctx G := (getGateDef_ext hgd).trans hG
      cases hl : so.gctx.lookup name with
      | some e =>
        obtain ⟨ρ1, h1⟩ := hio.r
        obtain ⟨ρ2, h2⟩ := hin.r
        exact nesting_eq h1 h2 (agree_of_ref hso hn) name (by rw [hl]; rfl)
      | none =>
        have e1 : macroHasSub so.gctx (so.gctx.length + 1) name = false :=
          macroHasSub_not_macro (by intro M hM; rw [hl] at hM; cases hM) _
        have e2 : macroHasSub sn.gctx (sn.gctx.length + 1) name = false := by
          apply macroHasSub_not_macro
          intro M hM
          -- the old run made an anonymous definition, which `G` holds
          unfold getGateDef at hgd
          simp only [hl] at hgd
          by_cases ha : cfg.anonymousAllowed = true
          · simp only [ha, if_true, pure, Except.pure, Except.ok.injEq, Prod.mk.injEq] at hgd
            have hGe := hG name _ (by rw [← hgd.2]; exact lookup_cons_self)
            have := hn.sub name _ hM
            rw [hGe] at this
            cases this
          · simp [ha, throw_eq] at hgd
        rw [e1, e2]
    have hnc' : nestingCheck cn sn.gctx name = .ok () := by
      unfold nestingCheck at hnc ⊢
      rw [← hf.1, ← hf.2, ← hnest]
      exact hnc
    refine ⟨{ memo := sn.memo, gctx := gn' }, ?_, hsub, hcov⟩
    rw [hnc']
    unfold buildGateFresh
    rw [← hlen, hgn]
    simp only [bind, Except.bind, hvals', hcall, pure, Except.pure]
  · simp [throw_eq] at h

/-- what a block member, a loop body or a top-level value can be -/
def GoodObj (g : GCtx) : Obj → Prop
  | .stmt _ => True
  | .val _ => True
  | .usepulses _ => True
  | .macro m => g.lookup m.name = none
  | .case => False

/-- the replay statement for one builder function -/
def Transfers (cfg : Config) (G : GCtx) (Fo Fn : St → M (Obj × St)) : Prop :=
  ∀ so so' sn o, Fo so = .ok (o, so') → GoodObj sn.gctx o → TI so → TI sn → GExt so'.gctx G → TRel cfg G sn.gctx →
    ∃ sn', Fn sn = .ok (o, sn') ∧ GExt sn'.gctx G ∧ Cover so.gctx so'.gctx sn'.gctx

def Knows (cfg : Config) (F : St → M (Obj × St)) : Prop :=
  ∀ s s1 o, KInv s → F s = .ok (o, s1) → KPost cfg s o s1

theorem asStmts_cons {o : Obj} {os : List Obj} {ss : List Stmt} (h : asStmts (o :: os) = .ok ss) :
    ∃ s ss', o = .stmt s ∧ asStmts os = .ok ss' := by
  cases o with
  | stmt s0 =>
    simp only [asStmts] at h
    obtain ⟨r, hr, _⟩ := bind_ok h
    exact ⟨s0, r, rfl, hr⟩
  | _ => simp [asStmts, throw_eq] at h

theorem mapMSt_transfer {cfg : Config} {G : GCtx} {Fo Fn : BSx → St → M (Obj × St)} : ∀ (l : List BSx),
    (∀ x ∈ l, Transfers cfg G (Fo x) (Fn x)) → (∀ x ∈ l, Knows cfg (Fo x)) → (∀ x ∈ l, Knows cfg (Fn x)) →
    ∀ (so so' sn : St) (os : List Obj) (ss : List Stmt), mapMSt Fo l so = .ok (os, so') → asStmts os = .ok ss →
      TI so → TI sn → GExt so'.gctx G → TRel cfg G sn.gctx →
      ∃ sn', mapMSt Fn l sn = .ok (os, sn') ∧ GExt sn'.gctx G ∧ Cover so.gctx so'.gctx sn'.gctx := by
  intro l
  induction l with
  | nil =>
    intro _ _ _ so so' sn os ss h _ _ _ hG hn
    simp only [mapMSt, pure, Except.pure, Except.ok.injEq, Prod.mk.injEq] at h
    obtain ⟨rfl, rfl⟩ := h
    exact ⟨sn, rfl, hn.sub, Cover.refl _ _⟩
  | cons x xs ih =>
    intro htr hko hkn so so' sn os ss h hss hio hin hG hn
    simp only [mapMSt] at h
    obtain ⟨⟨o, s1⟩, hp, h1⟩ := bind_ok h
    obtain ⟨⟨os', s2⟩, hq, h2⟩ := bind_ok h1
    simp only [pure, Except.pure, Except.ok.injEq, Prod.mk.injEq] at h2
    obtain ⟨rfl, rfl⟩ := h2
    obtain ⟨s0, ss', rfl, hss'⟩ := asStmts_cons hss
    have hp1 := hko x (by simp) so s1 _ hio.k hp
    have hio1 : TI s1 := hio.post hp1
    obtain ⟨hx2, _, _, _⟩ := mapMSt_known (cfg := cfg) xs s1 s2 os' (fun y hy => hko y (by simp [hy])) hp1.inv hq
    obtain ⟨sn1, hn1, hsub1, hcov1⟩ := htr x (by simp) so s1 sn _ hp trivial hio hin (hx2.trans hG) hn
    have hq1 := hkn x (by simp) sn sn1 _ hin.k hn1
    have hin1 : TI sn1 := hin.post hq1
    obtain ⟨sn2, hn2, hsub2, hcov2⟩ := ih (fun y hy => htr y (by simp [hy])) (fun y hy => hko y (by simp [hy]))
      (fun y hy => hkn y (by simp [hy])) s1 s2 sn1 os' ss' hq hss' hio1 hin1 hG (hn.grow hq1.ext hsub1)
    obtain ⟨hy2, _, _, _⟩ := mapMSt_known (cfg := cfg) xs sn1 sn2 os' (fun y hy => hkn y (by simp [hy])) hq1.inv hn2
    refine ⟨sn2, ?_, hsub2, hcov1.trans hcov2 hy2⟩
    simp only [mapMSt, hn1, hn2, bind, Except.bind, pure, Except.pure]

theorem subCount_mono {r r' : BSx → M Val} (h : ∀ e, MLe (r e) (r' e)) (e : BSx) : MLe (subCount r e) (subCount r' e) := by
  unfold subCount
  split
  · exact MLe.refl _
  · exact MLe.refl _
  · exact h _

theorem anyStep_transfer_macro {cfg : Config} {G : GCtx} {recAo recAn : Ctx → BSx → St → M (Obj × St)} {co cn : Ctx}
    {recVo recVn : BSx → M Val} {nameE : BSx} {rest : List BSx} (hc : CtxLe co cn)
    (hlen : ¬ ((nameE :: rest).length < 2))
    (hrec : ∀ c c' x, x ∈ rest → CtxLe c c' → Transfers cfg G (recAo c x) (recAn c' x)) :
    Transfers cfg G (anyStep cfg .off recAo recVo co (.str "macro" :: nameE :: rest))
      (anyStep cfg .off recAn recVn cn (.str "macro" :: nameE :: rest)) := by
  intro so so' sn o h hgo hio hin hG hn
  rw [anyStep_macro _ _ _ _ _ _ _ _ hlen] at h ⊢
  obtain ⟨name, hname, h2⟩ := bind_ok h
  by_cases hl : (so.gctx.lookup name).isSome = true
  · simp [hl, throw_eq, bind, Except.bind] at h2
  · simp only [hl, Bool.false_eq_true, if_false] at h2
    obtain ⟨params, hparams, h3⟩ := bind_ok h2
    cases hlast : rest.getLast? with
    | none => rw [hlast] at h3; simp [throw_eq] at h3
    | some blockE =>
      rw [hlast] at h3
      simp only [] at h3
      obtain ⟨⟨b, s1⟩, hp, h4⟩ := bind_ok h3
      cases b with
      | stmt s0 =>
        cases s0 with
        | block par sub it body =>
          simp only [pure, Except.pure, Except.ok.injEq, Prod.mk.injEq] at h4
          obtain ⟨rfl, rfl⟩ := h4
          have hfresh : sn.gctx.lookup name = none := hgo
          have hmem : blockE ∈ rest := List.mem_of_getLast? hlast
          obtain ⟨sn', hb, hsub, hcov⟩ := hrec (co.withParams params) (cn.withParams params) blockE hmem
            ⟨getLe_withParams hc.1 params, hc.2.1, hc.2.2.1, hc.2.2.2⟩ so _ sn _ hp trivial hio hin hG hn
          refine ⟨sn', ?_, hsub, hcov⟩
          simp only [hname, hfresh, hparams, hlast, hb, bind, Except.bind, pure, Except.pure, Option.isSome_none,
            Bool.false_eq_true, if_false]
        | _ => simp [throw_eq] at h4
      | _ => simp [throw_eq] at h4

theorem anyStep_transfer {cfg : Config} {G : GCtx} {recAo recAn : Ctx → BSx → St → M (Obj × St)} {co cn : Ctx} {f : Nat}
    {l : List BSx} (hc : CtxLe co cn)
    (hrec : ∀ c c' x, x ∈ l → CtxLe c c' → Transfers cfg G (recAo c x) (recAn c' x))
    (hko : ∀ c x, x ∈ l → Knows cfg (recAo c x)) (hkn : ∀ c x, x ∈ l → Knows cfg (recAn c x)) :
    Transfers cfg G (anyStep cfg .off recAo (buildVal co f) co l) (anyStep cfg .off recAn (buildVal cn f) cn l) := by
  intro so so' sn o h hgo hio hin hG hn
  have hV : ∀ e, MLe (buildVal co f e) (buildVal cn f e) := buildVal_mono hc.1 f
  by_cases hm : ∃ nameE rest, l = .str "macro" :: nameE :: rest ∧ ¬ ((nameE :: rest).length < 2)
  · obtain ⟨nameE, rest, rfl, hlen⟩ := hm
    exact anyStep_transfer_macro hc hlen (fun c c' x hx => hrec c c' x (by simp [hx])) so so' sn o h hgo hio hin hG hn
  unfold anyStep at h ⊢
  match l, hrec, hko, hkn, hm, h with
  | [], _, _, _, _, h => simp [throw_eq] at h
  | .str cmd :: args, hrec, hko, hkn, hm, h =>
    have hrec' : ∀ c c' x, x ∈ args → CtxLe c c' → Transfers cfg G (recAo c x) (recAn c' x) :=
      fun c c' x hx => hrec c c' x (by simp [hx])
    have hko' : ∀ c x, x ∈ args → Knows cfg (recAo c x) := fun c x hx => hko c x (by simp [hx])
    have hkn' : ∀ c x, x ∈ args → Knows cfg (recAn c x) := fun c x hx => hkn c x (by simp [hx])
    have hblock : ∀ (c c' : Ctx) (as : List BSx), CtxLe c c' → (∀ x ∈ as, x ∈ args) →
        ∀ (os : List Obj) (s1 : St) (ss : List Stmt), mapMSt (recAo c) as so = .ok (os, s1) → asStmts os = .ok ss →
        GExt s1.gctx G → ∃ sn', mapMSt (recAn c') as sn = .ok (os, sn') ∧ GExt sn'.gctx G ∧ Cover so.gctx s1.gctx sn'.gctx := by
      intro c c' as hcc has os s1 ss hmap hss hG1
      exact mapMSt_transfer as (fun x hx => hrec' c c' x (has x hx) hcc) (fun x hx => hko' c x (has x hx))
        (fun x hx => hkn' c' x (has x hx)) so s1 sn os ss hmap hss hio hin hG1 hn
    by_cases h1 : cmd = "gate"
    · simp only [h1, if_true] at h ⊢
      obtain ⟨⟨s, s1⟩, hp, h2⟩ := bind_ok h
      simp only [pure, Except.pure, Except.ok.injEq, Prod.mk.injEq] at h2
      obtain ⟨rfl, rfl⟩ := h2
      obtain ⟨sn', hb, hsub, hcov⟩ := buildGate_transfer ⟨hc.2.2.1, hc.2.2.2⟩ (fun x _ => hV x) hp hio hin hG hn
      exact ⟨sn', by simp only [hb, bind, Except.bind, pure, Except.pure], hsub, hcov⟩
    simp only [h1, if_false] at h ⊢
    by_cases h2 : cmd = "sequential_block" ∨ cmd = "block"
    · simp only [h2, if_true] at h ⊢
      obtain ⟨⟨os, s1⟩, hp, h3⟩ := bind_ok h
      obtain ⟨ss, hss, h4⟩ := bind_ok h3
      simp only [pure, Except.pure, Except.ok.injEq, Prod.mk.injEq] at h4
      obtain ⟨rfl, rfl⟩ := h4
      obtain ⟨sn', hb, hsub, hcov⟩ := hblock { co with inSeq := true } { cn with inSeq := true } args
        ⟨hc.1, rfl, hc.2.2.1, hc.2.2.2⟩ (fun _ hx => hx) os _ ss hp hss hG
      exact ⟨sn', by simp only [hb, hss, bind, Except.bind, pure, Except.pure], hsub, hcov⟩
    simp only [h2, if_false] at h ⊢
    by_cases h3 : cmd = "parallel_block"
    · simp only [h3, if_true] at h ⊢
      obtain ⟨⟨os, s1⟩, hp, h3⟩ := bind_ok h
      obtain ⟨ss, hss, h4⟩ := bind_ok h3
      simp only [pure, Except.pure, Except.ok.injEq, Prod.mk.injEq] at h4
      obtain ⟨rfl, rfl⟩ := h4
      obtain ⟨sn', hb, hsub, hcov⟩ := hblock { co with inPar := true } { cn with inPar := true } args
        ⟨hc.1, hc.2.1, rfl, hc.2.2.2⟩ (fun _ hx => hx) os _ ss hp hss hG
      exact ⟨sn', by simp only [hb, hss, bind, Except.bind, pure, Except.pure], hsub, hcov⟩
    simp only [h3, if_false] at h ⊢
    by_cases h4 : cmd = "unscheduled_block"
    · simp only [h4, if_true] at h ⊢
      obtain ⟨⟨os, s1⟩, hp, h3⟩ := bind_ok h
      obtain ⟨ss, hss, h4⟩ := bind_ok h3
      simp only [pure, Except.pure, Except.ok.injEq, Prod.mk.injEq] at h4
      obtain ⟨rfl, rfl⟩ := h4
      obtain ⟨sn', hb, hsub, hcov⟩ := hblock co cn args hc (fun _ hx => hx) os _ ss hp hss hG
      exact ⟨sn', by simp only [hb, hss, bind, Except.bind, pure, Except.pure], hsub, hcov⟩
    simp only [h4, if_false] at h ⊢
    by_cases h5 : cmd = "subcircuit_block"
    · simp only [h5, if_true] at h ⊢
      split at h
      · simp [throw_eq] at h
      · rename_i hflag
        have hflag' : ¬ (cn.inSub || cn.inPar) = true := by rw [← hc.2.2.1, ← hc.2.2.2]; exact hflag
        simp only [hflag', if_false]
        obtain ⟨⟨os, s1⟩, hp, h2⟩ := bind_ok h
        split at h2
        · simp [throw_eq] at h2
        · rename_i countE tl
          obtain ⟨count, hcount, h3⟩ := bind_ok h2
          obtain ⟨_, hval, h4⟩ := bind_ok h3
          obtain ⟨ss, hss, h5⟩ := bind_ok h4
          simp only [pure, Except.pure, Except.ok.injEq, Prod.mk.injEq] at h5
          obtain ⟨rfl, rfl⟩ := h5
          obtain ⟨sn', hb, hsub, hcov⟩ := hblock { co with inSub := true } { cn with inSub := true } (countE :: tl).tail
            ⟨hc.1, hc.2.1, hc.2.2.1, rfl⟩ (fun x hx => List.mem_of_mem_tail hx) os _ ss hp hss hG
          have hcount' := subCount_mono hV countE count hcount
          exact ⟨sn', by simp only [hb, hcount', hval, hss, bind, Except.bind, pure, Except.pure, Bool.false_eq_true, if_false], hsub, hcov⟩
    simp only [h5, if_false] at h ⊢
    by_cases h6 : cmd = "loop"
    · simp only [h6, if_true] at h ⊢
      split at h
      · rename_i countE blockE
        obtain ⟨count, hcount, h2⟩ := bind_ok h
        obtain ⟨⟨b, s1⟩, hp, h3⟩ := bind_ok h2
        have hcount' := hV countE count hcount
        cases b with
        | stmt s0 =>
          simp only [] at h3
          obtain ⟨_, hval, h4⟩ := bind_ok h3
          simp only [pure, Except.pure, Except.ok.injEq, Prod.mk.injEq] at h4
          obtain ⟨rfl, rfl⟩ := h4
          obtain ⟨sn', hb, hsub, hcov⟩ := hrec' co cn blockE (by simp) hc so _ sn _ hp trivial hio hin hG hn
          exact ⟨sn', by simp only [hcount', hb, hval, bind, Except.bind, pure, Except.pure], hsub, hcov⟩
        | val v =>
          cases v with
          | none =>
            simp only [] at h3
            obtain ⟨_, hval, h4⟩ := bind_ok h3
            simp only [pure, Except.pure, Except.ok.injEq, Prod.mk.injEq] at h4
            obtain ⟨rfl, rfl⟩ := h4
            obtain ⟨sn', hb, hsub, hcov⟩ := hrec' co cn blockE (by simp) hc so _ sn _ hp trivial hio hin hG hn
            exact ⟨sn', by simp only [hcount', hb, hval, bind, Except.bind, pure, Except.pure], hsub, hcov⟩
          | _ => simp [throw_eq] at h3
        | _ => simp [throw_eq] at h3
      · simp [throw_eq] at h
    simp only [h6, if_false] at h ⊢
    by_cases h7 : cmd = "case"
    · simp only [h7, if_true] at h
      split at h
      · obtain ⟨_, _, h2⟩ := bind_ok h
        obtain ⟨p, hp, h3⟩ := bind_ok h2
        simp only [pure, Except.pure, Except.ok.injEq, Prod.mk.injEq] at h3
        rw [← h3.1] at hgo
        exact hgo.elim
      · simp [throw_eq] at h
    simp only [h7, if_false] at h ⊢
    by_cases h8 : cmd = "branch"
    · simp only [h8, if_true] at h
      obtain ⟨a, _, h2⟩ := bind_ok h
      simp [throw_eq] at h2
    simp only [h8, if_false] at h ⊢
    by_cases h9 : cmd = "macro"
    · simp only [h9, if_true] at h
      split at h
      · simp [throw_eq] at h
      · rename_i hlen
        split at h
        · rename_i nameE rest
          exact absurd ⟨nameE, rest, by rw [h9], hlen⟩ hm
        · simp [throw_eq] at h
    simp only [h9, if_false] at h ⊢
    by_cases h10 : cmd = "usepulses"
    · simp only [h10, if_true] at h ⊢
      split at h
      · split at h
        · simp [throw_eq, bind, Except.bind] at h
        · rename_i hstar
          split at h
          · simp only [pure, Except.pure, Except.ok.injEq, Prod.mk.injEq] at h
            obtain ⟨rfl, rfl⟩ := h
            refine ⟨sn, ?_, hn.sub, Cover.refl _ _⟩
            simp only [hstar, pure, Except.pure]
            rfl
          · simp [throw_eq] at h
      · simp [throw_eq] at h
    simp only [h10, if_false] at h ⊢
    by_cases h11 : cmd = "circuit"
    · simp [h11, throw_eq] at h
    simp only [h11, if_false] at h ⊢
    obtain ⟨v, hv, h2⟩ := bind_ok h
    simp only [pure, Except.pure, Except.ok.injEq, Prod.mk.injEq] at h2
    obtain ⟨rfl, rfl⟩ := h2
    have hv' := valStep_mono (l := .str cmd :: args) hc.1 (fun x _ => hV x) v hv
    exact ⟨sn, by simp only [hv', bind, Except.bind, pure, Except.pure], hn.sub, Cover.refl _ _⟩
  | .int _ :: _, _, _, _, _, h | .flt _ :: _, _, _, _, _, h | .none :: _, _, _, _, _, h | .list _ :: _, _, _, _, _, h
  | .val _ :: _, _, _, _, _, h =>
    simp [throw_eq] at h

theorem buildAny_knows {cfg : Config} (f : Nat) (c : Ctx) (x : BSx) : Knows cfg (buildAny cfg .off f c x) :=
  fun s s1 o hi h => buildAny_known f c x s s1 o hi h

/-- **Replay**: a successful build of a statement or value, replayed in a larger context against another table. -/
theorem buildAny_transfer (cfg : Config) (G : GCtx) : ∀ (f : Nat) (co cn : Ctx) (e : BSx), CtxLe co cn →
    Transfers cfg G (buildAny cfg .off f co e) (buildAny cfg .off f cn e) := by
  intro f
  induction f with
  | zero =>
    intro co cn e hc so so' sn o h hgo hio hin hG hn
    cases e with
    | list l => simp [buildAny, throw_eq] at h
    | _ =>
      rw [buildAny_atom _ _ _ _ _ _ (by intro l; simp)] at h ⊢
      obtain ⟨v, hv, h2⟩ := bind_ok h
      simp only [pure, Except.pure, Except.ok.injEq, Prod.mk.injEq] at h2
      obtain ⟨rfl, rfl⟩ := h2
      have hv' := buildVal_mono hc.1 0 _ v hv
      exact ⟨sn, by simp only [hv', bind, Except.bind, pure, Except.pure], hn.sub, Cover.refl _ _⟩
  | succ f ih =>
    intro co cn e hc
    cases e with
    | list l =>
      intro so so' sn o h hgo hio hin hG hn
      rw [buildAny_list] at h
      obtain ⟨sn', hb, r⟩ := anyStep_transfer hc (fun c c' x _ hcc => ih c c' x hcc) (fun c x _ => buildAny_knows f c x)
        (fun c x _ => buildAny_knows f c x) so so' sn o h hgo hio hin hG hn
      exact ⟨sn', by rw [buildAny_list]; exact hb, r⟩
    | _ =>
      intro so so' sn o h hgo hio hin hG hn
      rw [buildAny_atom _ _ _ _ _ _ (by intro l; simp)] at h ⊢
      obtain ⟨v, hv, h2⟩ := bind_ok h
      simp only [pure, Except.pure, Except.ok.injEq, Prod.mk.injEq] at h2
      obtain ⟨rfl, rfl⟩ := h2
      have hv' := buildVal_mono hc.1 (f + 1) _ v hv
      exact ⟨sn, by simp only [hv', bind, Except.bind, pure, Except.pure], hn.sub, Cover.refl _ _⟩

end Jaqal.RoundTrip
