import JaqalProofs.Lemmas.ParserSound
/-! Completeness of the recursive-descent parser model w.r.t. the grammar: every derivable token string is
accepted, with the tree of the derivation. -/
namespace Jaqal.Parser
open Jaqal.Lexer Jaqal.Grammar

theorem toks_eq_nil {pts : List PTok} (h : toks pts = []) : pts = [] := by
  simpa [toks] using h

theorem toks_eq_cons {pts : List PTok} {t ts} (h : toks pts = t :: ts) :
    ∃ p r, pts = p :: r ∧ p.tok = t ∧ toks r = ts := by
  cases pts with
  | nil => simp [toks] at h
  | cons p r =>
    simp only [toks, List.map_cons, List.cons.injEq] at h
    exact ⟨p, r, rfl, h.1, h.2⟩

theorem toks_eq_append {pts : List PTok} {a b} (h : toks pts = a ++ b) :
    ∃ pa pb, pts = pa ++ pb ∧ toks pa = a ∧ toks pb = b := by
  obtain ⟨pa, pb, h1, h2, h3⟩ := List.map_eq_append_iff.1 h
  exact ⟨pa, pb, h1, h2, h3⟩

theorem toks_length (pts : List PTok) : (toks pts).length = pts.length := by simp [toks]

/-! ## Separator skipping -/

theorem skipSeq_append {pad r : List PTok} (hp : SeqPad (toks pad)) (hr : NoSeqHead r) :
    skipSeq (pad ++ r) = r := by
  induction pad with
  | nil =>
    cases r with
    | nil => rfl
    | cons p r => simp only [NoSeqHead] at hr; simp [skipSeq, hr]
  | cons p pad ih =>
    have h1 : isSeqSep p.tok = true := (isSeqSep_iff _).2 (hp p.tok (by simp [toks]))
    have h2 : SeqPad (toks pad) := fun t ht => hp t (by simp only [toks, List.map_cons, List.mem_cons]; exact Or.inr ht)
    simp only [List.cons_append, skipSeq, h1, if_true]
    exact ih h2

theorem skipPar_append {pad r : List PTok} (hp : ParPad (toks pad)) (hr : NoParHead r) :
    skipPar (pad ++ r) = r := by
  induction pad with
  | nil =>
    cases r with
    | nil => rfl
    | cons p r => simp only [NoParHead] at hr; simp [skipPar, hr]
  | cons p pad ih =>
    have h1 : isParSep p.tok = true := (isParSep_iff _).2 (hp p.tok (by simp [toks]))
    have h2 : ParPad (toks pad) := fun t ht => hp t (by simp only [toks, List.map_cons, List.mem_cons]; exact Or.inr ht)
    simp only [List.cons_append, skipPar, h1, if_true]
    exact ih h2

/-! ## Gate arguments -/

/-- A token that can begin a `gate_arg`. -/
def isArgStart : Tok → Bool
  | .IDENTIFIER _ => true
  | .NUMBER _ => true
  | .INT _ => true
  | _ => false

/-- The rest of the input does not continue a gate statement. -/
def ArgStop : List PTok → Prop
  | [] => True
  | p :: _ => isArgStart p.tok = false ∧ p.tok ≠ .lbrack

theorem gateArgs_head {as xs} (h : GateArgs as xs) : as = [] ∨ ∃ t r, as = t :: r ∧ isArgStart t = true := by
  cases h with
  | nil => exact Or.inl rfl
  | cons ha _ => right; cases ha <;> exact ⟨_, _, rfl, rfl⟩

/-- After the arguments comes neither an argument nor `[`. -/
theorem argStop_append {as xs} (h : GateArgs as xs) {pts rest : List PTok} (hp : toks pts = as)
    (hs : ArgStop rest) : ∀ q r2, pts ++ rest = q :: r2 → q.tok ≠ .lbrack := by
  intro q r2 e
  rcases gateArgs_head h with rfl | ⟨t, r, rfl, ht⟩
  · rw [toks_eq_nil hp] at e
    simp only [List.nil_append] at e
    subst e; exact hs.2
  · obtain ⟨p, r', rfl, hpt, -⟩ := toks_eq_cons hp
    simp only [List.cons_append, List.cons.injEq] at e
    rw [← e.1, hpt]; intro hc; rw [hc] at ht; cases ht

theorem pGateArgs_complete {as xs} (h : GateArgs as xs) : ∀ {pts rest : List PTok}, toks pts = as →
    ArgStop rest → pGateArgs (pts ++ rest) = .ok (xs, rest) := by
  induction h with
  | nil =>
    intro pts rest hp hs
    rw [toks_eq_nil hp]
    cases rest with
    | nil => rfl
    | cons p r =>
      simp only [List.nil_append]
      unfold pGateArgs
      obtain ⟨h1, h2⟩ := hs
      split <;> simp_all [isArgStart]
  | @cons a as x xs ha has ih =>
    intro pts rest hp hs
    obtain ⟨pa, pas, rfl, hpa, hpas⟩ := toks_eq_append hp
    have ih' := ih hpas hs
    have hnb := argStop_append has hpas hs
    cases ha with
    | ident s =>
      obtain ⟨p, r, rfl, hpt, hr⟩ := toks_eq_cons hpa
      rw [toks_eq_nil hr]
      simp only [List.cons_append, List.nil_append]
      rw [pGateArgs]
      simp only [hpt]
      cases hcase : pas ++ rest with
      | nil =>
        rw [hcase] at ih'
        simp only [pGateArgs] at ih'
        cases ih'
        rfl
      | cons q r2 =>
        simp only [hnb q r2 hcase, if_false]
        rw [← hcase, ih']
    | number d =>
      obtain ⟨p, r, rfl, hpt, hr⟩ := toks_eq_cons hpa
      rw [toks_eq_nil hr]
      simp only [List.cons_append, List.nil_append]
      rw [pGateArgs]
      simp only [hpt, ih']
    | int v =>
      obtain ⟨p, r, rfl, hpt, hr⟩ := toks_eq_cons hpa
      rw [toks_eq_nil hr]
      simp only [List.cons_append, List.nil_append]
      rw [pGateArgs]
      simp only [hpt, ih']
    | itemIdent a i =>
      obtain ⟨p1, r, rfl, h1, hr⟩ := toks_eq_cons hpa
      obtain ⟨p2, r, rfl, h2, hr⟩ := toks_eq_cons hr
      obtain ⟨p3, r, rfl, h3, hr⟩ := toks_eq_cons hr
      obtain ⟨p4, r, rfl, h4, hr⟩ := toks_eq_cons hr
      rw [toks_eq_nil hr]
      simp only [List.cons_append, List.nil_append]
      rw [pGateArgs]
      simp only [h1, h2, h3, h4, if_true, ih', sxArrayItem]
    | itemInt a v =>
      obtain ⟨p1, r, rfl, h1, hr⟩ := toks_eq_cons hpa
      obtain ⟨p2, r, rfl, h2, hr⟩ := toks_eq_cons hr
      obtain ⟨p3, r, rfl, h3, hr⟩ := toks_eq_cons hr
      obtain ⟨p4, r, rfl, h4, hr⟩ := toks_eq_cons hr
      rw [toks_eq_nil hr]
      simp only [List.cons_append, List.nil_append]
      rw [pGateArgs]
      simp only [h1, h2, h3, h4, if_true, ih', sxArrayItem]

/-- A token that begins a statement inside a block. -/
def isStart : Tok → Bool
  | .IDENTIFIER _ => true
  | .lt => true
  | .lbrace => true
  | .LOOP => true
  | .SUBCIRCUIT => true
  | _ => false

/-- The rest of the input begins with a separator or a closing bracket, or is empty. -/
def Follow : List PTok → Prop
  | [] => True
  | p :: _ => p.tok = .NL ∨ p.tok = .semi ∨ p.tok = .bar ∨ p.tok = .rbrace ∨ p.tok = .gt

theorem Follow.argStop {rest : List PTok} (h : Follow rest) : ArgStop rest := by
  cases rest with
  | nil => trivial
  | cons p r =>
    simp only [Follow] at h
    simp only [ArgStop]
    rcases h with h | h | h | h | h <;> simp [h, isArgStart]

theorem head_lift {ts : List Tok} {ph ph' : Ph} (hne : ph ≠ .seqStmts ∧ ph ≠ .parStmts)
    (ih : (ts = [] ∧ (ph = .seqStmts ∨ ph = .parStmts)) ∨ ∃ t r, ts = t :: r ∧ isStart t = true) :
    (ts = [] ∧ (ph' = .seqStmts ∨ ph' = .parStmts)) ∨ ∃ t r, ts = t :: r ∧ isStart t = true := by
  rcases ih with ⟨_, h | h⟩ | h
  · exact absurd h hne.1
  · exact absurd h hne.2
  · exact Or.inr h

theorem block_head {ph ts x} (h : Block ph ts x) :
    (ts = [] ∧ (ph = .seqStmts ∨ ph = .parStmts)) ∨ ∃ t r, ts = t :: r ∧ isStart t = true := by
  induction h with
  | seqBlock _ _ _ => exact Or.inr ⟨_, _, rfl, rfl⟩
  | parBlock _ _ _ => exact Or.inr ⟨_, _, rfl, rfl⟩
  | gateBlockSeq _ ih => exact head_lift (by decide) ih
  | gateBlockPar _ ih => exact head_lift (by decide) ih
  | seqGate hg => cases hg; exact Or.inr ⟨_, _, rfl, rfl⟩
  | seqPar _ ih => exact head_lift (by decide) ih
  | seqLoop _ _ _ => exact Or.inr ⟨_, _, rfl, rfl⟩
  | seqSub _ _ _ => exact Or.inr ⟨_, _, rfl, rfl⟩
  | seqSubN _ _ _ _ => exact Or.inr ⟨_, _, rfl, rfl⟩
  | parGate hg => cases hg; exact Or.inr ⟨_, _, rfl, rfl⟩
  | parSeq _ ih => exact head_lift (by decide) ih
  | seqNil => exact Or.inl ⟨rfl, Or.inl rfl⟩
  | seqOne _ ih => exact head_lift (by decide) ih
  | seqCons _ _ _ ih _ =>
    rcases ih with ⟨_, h | h⟩ | ⟨t, r, rfl, ht⟩
    · cases h
    · cases h
    · exact Or.inr ⟨t, _, rfl, ht⟩
  | parNil => exact Or.inl ⟨rfl, Or.inr rfl⟩
  | parOne _ ih => exact head_lift (by decide) ih
  | parCons _ _ _ ih _ =>
    rcases ih with ⟨_, h | h⟩ | ⟨t, r, rfl, ht⟩
    · cases h
    · cases h
    · exact Or.inr ⟨t, _, rfl, ht⟩

/-- A statement list followed by its closing bracket does not begin with a separator. -/
theorem noSepHead_of_block {ph x} {pb : List PTok} (h : Block ph (toks pb) x) {q : PTok}
    (hq : q.tok = .rbrace ∨ q.tok = .gt) (rest : List PTok) :
    NoSeqHead (pb ++ q :: rest) ∧ NoParHead (pb ++ q :: rest) := by
  rcases block_head h with ⟨h0, -⟩ | ⟨t, r, h1, ht⟩
  · rw [toks_eq_nil h0]
    simp only [List.nil_append, NoSeqHead, NoParHead, isSeqSep, isParSep]
    rcases hq with hq | hq <;> simp [hq]
  · obtain ⟨p, r', rfl, hpt, -⟩ := toks_eq_cons h1
    simp only [List.cons_append, NoSeqHead, NoParHead, isSeqSep, isParSep, hpt]
    cases t <;> simp_all [isStart]

/-- A statement begins with a token that is no separator and no closing bracket. -/
theorem stmt_head {ph x} {pts : List PTok} (h : Block ph (toks pts) x) (hph : ph ≠ .seqStmts ∧ ph ≠ .parStmts) :
    ∃ p r, pts = p :: r ∧ isStart p.tok = true := by
  rcases block_head h with ⟨-, h | h⟩ | ⟨t, r, h1, ht⟩
  · exact absurd h hph.1
  · exact absurd h hph.2
  · obtain ⟨p, r', rfl, hpt, -⟩ := toks_eq_cons h1
    exact ⟨p, r', rfl, hpt ▸ ht⟩

/-- The token string begins with a gate name (so it is a gate statement, if it is a statement). -/
def GateHead (ts : List Tok) : Prop := ∃ g r, ts = .IDENTIFIER g :: r

def Complete : Ph → List Tok → Sx → Prop
  | .seqStmt, ts, x => ∀ (pts rest : List PTok) (n : Nat), toks pts = ts → (GateHead ts → Follow rest) → 2 * ts.length ≤ n →
      pSeqStmt n (pts ++ rest) = .ok (x, rest)
  | .parStmt, ts, x => ∀ (pts rest : List PTok) (n : Nat), toks pts = ts → (GateHead ts → Follow rest) → 2 * ts.length ≤ n →
      pParStmt n (pts ++ rest) = .ok (x, rest)
  | .gateBlock, ts, x => ∀ (pts rest : List PTok) (n : Nat), toks pts = ts → 2 * ts.length ≤ n →
      pGateBlock n (pts ++ rest) = .ok (x, rest)
  | .seqStmts, ts, x => ∀ (pts : List PTok) (q : PTok) (rest : List PTok) (n : Nat), toks pts = ts →
      q.tok = .rbrace → 2 * ts.length + 1 ≤ n →
      ∃ xs, x = .list xs ∧ pSeqStmts n (pts ++ q :: rest) = .ok (xs, rest)
  | .parStmts, ts, x => ∀ (pts : List PTok) (q : PTok) (rest : List PTok) (n : Nat), toks pts = ts →
      q.tok = .gt → 2 * ts.length + 1 ≤ n →
      ∃ xs, x = .list xs ∧ pParStmts n (pts ++ q :: rest) = .ok (xs, rest)
  | .seqBlock, ts, x => ∀ (pts rest : List PTok) (n : Nat), toks pts = ts → 2 * ts.length ≤ n + 3 →
      ∃ p r xs, pts = p :: r ∧ p.tok = .lbrace ∧ x = .list (.str "sequential_block" :: xs) ∧
        pSeqStmts n (skipSeq (r ++ rest)) = .ok (xs, rest)
  | .parBlock, ts, x => ∀ (pts rest : List PTok) (n : Nat), toks pts = ts → 2 * ts.length ≤ n + 3 →
      ∃ p r xs, pts = p :: r ∧ p.tok = .lt ∧ x = .list (.str "parallel_block" :: xs) ∧
        pParStmts n (skipPar (r ++ rest)) = .ok (xs, rest)

/-- `"{" pad body "}"` : what the parser does after the opening brace. -/
theorem curly_complete {pad body : List Tok} {xs : List Sx} (hpad : SeqPad pad)
    (hbody : Block .seqStmts body (.list xs)) (ih : Complete .seqStmts body (.list xs))
    {r rest : List PTok} {n : Nat} (hr : toks r = pad ++ body ++ [.rbrace])
    (hn : 2 * body.length + 1 ≤ n) : pSeqStmts n (skipSeq (r ++ rest)) = .ok (xs, rest) := by
  obtain ⟨r1, pq, rfl, h1, hq⟩ := toks_eq_append hr
  obtain ⟨ppad, pbody, rfl, hppad, hpbody⟩ := toks_eq_append h1
  obtain ⟨q, e, rfl, hqt, he⟩ := toks_eq_cons hq
  rw [toks_eq_nil he]
  subst hppad hpbody
  have hns := (noSepHead_of_block hbody (Or.inl hqt) rest).1
  have : ppad ++ pbody ++ [q] ++ rest = ppad ++ (pbody ++ q :: rest) := by simp
  rw [this, skipSeq_append hpad hns]
  obtain ⟨xs', hx, hres⟩ := ih pbody q rest n rfl hqt hn
  cases hx
  exact hres

theorem angle_complete {pad body : List Tok} {xs : List Sx} (hpad : ParPad pad)
    (hbody : Block .parStmts body (.list xs)) (ih : Complete .parStmts body (.list xs))
    {r rest : List PTok} {n : Nat} (hr : toks r = pad ++ body ++ [.gt])
    (hn : 2 * body.length + 1 ≤ n) : pParStmts n (skipPar (r ++ rest)) = .ok (xs, rest) := by
  obtain ⟨r1, pq, rfl, h1, hq⟩ := toks_eq_append hr
  obtain ⟨ppad, pbody, rfl, hppad, hpbody⟩ := toks_eq_append h1
  obtain ⟨q, e, rfl, hqt, he⟩ := toks_eq_cons hq
  rw [toks_eq_nil he]
  subst hppad hpbody
  have hns := (noSepHead_of_block hbody (Or.inr hqt) rest).2
  have : ppad ++ pbody ++ [q] ++ rest = ppad ++ (pbody ++ q :: rest) := by simp
  rw [this, skipPar_append hpad hns]
  obtain ⟨xs', hx, hres⟩ := ih pbody q rest n rfl hqt hn
  cases hx
  exact hres


theorem pLetOrInt_complete {t x} (h : LetOrInt t x) {p : PTok} (hp : p.tok = t) (r : List PTok) :
    pLetOrInt (p :: r) = .ok (x, r) := by
  cases h <;> simp [pLetOrInt, hp]

theorem isStart_facts {t : Tok} (h : isStart t = true) :
    t ≠ .rbrace ∧ t ≠ .gt ∧ isSeqSep t = false ∧ isParSep t = false := by
  cases t <;> simp_all [isStart, isSeqSep, isParSep]

theorem block_complete {ph ts x} (h : Block ph ts x) : Complete ph ts x := by
  induction h with
  | @seqBlock pad body xs hpad hbody ih =>
    intro pts rest n hp hn
    obtain ⟨p, r, rfl, hpt, hr⟩ := toks_eq_cons hp
    refine ⟨p, r, xs, rfl, hpt, rfl, curly_complete hpad hbody ih hr ?_⟩
    simp only [List.length_cons, List.length_append, List.length_nil] at hn
    omega
  | @parBlock pad body xs hpad hbody ih =>
    intro pts rest n hp hn
    obtain ⟨p, r, rfl, hpt, hr⟩ := toks_eq_cons hp
    refine ⟨p, r, xs, rfl, hpt, rfl, angle_complete hpad hbody ih hr ?_⟩
    simp only [List.length_cons, List.length_append, List.length_nil] at hn
    omega
  | @gateBlockSeq ts x hb ih =>
    intro pts rest n hp hn
    cases n with
    | zero =>
      obtain ⟨p, r, rfl, -⟩ := stmt_head (hp ▸ hb) (by decide)
      rw [← hp, toks_length] at hn; simp at hn
    | succ n =>
      obtain ⟨p, r, xs, rfl, hpt, rfl, hres⟩ := ih pts rest n hp (by omega)
      rw [pGateBlock.eq_def]
      simp only [List.cons_append, hpt, hres, sxSeq]
  | @gateBlockPar ts x hb ih =>
    intro pts rest n hp hn
    cases n with
    | zero =>
      obtain ⟨p, r, rfl, -⟩ := stmt_head (hp ▸ hb) (by decide)
      rw [← hp, toks_length] at hn; simp at hn
    | succ n =>
      obtain ⟨p, r, xs, rfl, hpt, rfl, hres⟩ := ih pts rest n hp (by omega)
      rw [pGateBlock.eq_def]
      simp only [List.cons_append, hpt, hres, sxPar]
  | @seqGate ts x hg =>
    intro pts rest n hp hf hn
    cases hg with
    | @mk g as xs has =>
      obtain ⟨p, r, rfl, hpt, hr⟩ := toks_eq_cons hp
      cases n with
      | zero => simp at hn
      | succ n =>
        rw [pSeqStmt.eq_def]
        simp only [List.cons_append, hpt, pGateArgs_complete has hr (hf ⟨g, as, rfl⟩).argStop, sxGate]
  | @seqPar ts x hb ih =>
    intro pts rest n hp hf hn
    cases n with
    | zero =>
      obtain ⟨p, r, rfl, -⟩ := stmt_head (hp ▸ hb) (by decide)
      rw [← hp, toks_length] at hn; simp at hn
    | succ n =>
      obtain ⟨p, r, xs, rfl, hpt, rfl, hres⟩ := ih pts rest n hp (by omega)
      rw [pSeqStmt.eq_def]
      simp only [List.cons_append, hpt, hres, sxPar]
  | @seqLoop c cx b bx hc hb ih =>
    intro pts rest n hp hf hn
    obtain ⟨p, r, rfl, hpt, hr⟩ := toks_eq_cons hp
    obtain ⟨pc, pb, rfl, hpc, hpb⟩ := toks_eq_cons hr
    cases n with
    | zero => simp at hn
    | succ n =>
      rw [pSeqStmt.eq_def]
      simp only [List.cons_append, hpt, pLetOrInt_complete hc hpc]
      rw [ih pb rest n hpb (by simp only [List.length_cons] at hn; omega)]
      simp only [sxLoop]
  | @seqSub pad body xs hpad hbody ih =>
    intro pts rest n hp hf hn
    obtain ⟨p, r, rfl, hpt, hr⟩ := toks_eq_cons hp
    obtain ⟨q, r, rfl, hqt, hr⟩ := toks_eq_cons hr
    cases n with
    | zero => simp at hn
    | succ n =>
      rw [pSeqStmt.eq_def]
      simp only [List.cons_append, hpt, hqt, if_true]
      rw [curly_complete hpad hbody ih hr (by
        simp only [List.length_cons, List.length_append, List.length_nil] at hn; omega)]
      simp only [sxSub]
  | @seqSubN c cx pad body xs hc hpad hbody ih =>
    intro pts rest n hp hf hn
    obtain ⟨p, r, rfl, hpt, hr⟩ := toks_eq_cons hp
    obtain ⟨pc, r, rfl, hpc, hr⟩ := toks_eq_cons hr
    obtain ⟨q, r, rfl, hqt, hr⟩ := toks_eq_cons hr
    cases n with
    | zero => simp at hn
    | succ n =>
      have hne : pc.tok ≠ .lbrace := by rw [hpc]; cases hc <;> simp
      rw [pSeqStmt.eq_def]
      simp only [List.cons_append, hpt, hne, if_false, pLetOrInt_complete hc hpc, expect, hqt, if_true]
      rw [curly_complete hpad hbody ih hr (by
        simp only [List.length_cons, List.length_append, List.length_nil] at hn; omega)]
      simp only [sxSub]
  | @parGate ts x hg =>
    intro pts rest n hp hf hn
    cases hg with
    | @mk g as xs has =>
      obtain ⟨p, r, rfl, hpt, hr⟩ := toks_eq_cons hp
      cases n with
      | zero => simp at hn
      | succ n =>
        rw [pParStmt.eq_def]
        simp only [List.cons_append, hpt, pGateArgs_complete has hr (hf ⟨g, as, rfl⟩).argStop, sxGate]
  | @parSeq ts x hb ih =>
    intro pts rest n hp hf hn
    cases n with
    | zero =>
      obtain ⟨p, r, rfl, -⟩ := stmt_head (hp ▸ hb) (by decide)
      rw [← hp, toks_length] at hn; simp at hn
    | succ n =>
      obtain ⟨p, r, xs, rfl, hpt, rfl, hres⟩ := ih pts rest n hp (by omega)
      rw [pParStmt.eq_def]
      simp only [List.cons_append, hpt, hres, sxSeq]
  | seqNil =>
    intro pts q rest n hp hq hn
    rw [toks_eq_nil hp]
    cases n with
    | zero => simp at hn
    | succ n =>
      refine ⟨[], rfl, ?_⟩
      rw [pSeqStmts.eq_def]
      simp only [List.nil_append, hq, if_true]
  | @seqOne s x hs ih =>
    intro pts q rest n hp hq hn
    cases n with
    | zero => simp at hn
    | succ n =>
      refine ⟨[x], rfl, ?_⟩
      obtain ⟨p, r, rfl, hstart⟩ := stmt_head (hp ▸ hs) (by decide)
      have hres := ih (p :: r) (q :: rest) n hp (fun _ => by simp [Follow, hq]) (by omega)
      rw [pSeqStmts.eq_def]
      simp only [List.cons_append] at hres ⊢
      simp only [(isStart_facts hstart).1, if_false, hres, hq, if_true]
  | @seqCons s x sep rest' xs hs hsep hrest ih1 ih2 =>
    intro pts q rest n hp hq hn
    cases n with
    | zero => simp at hn
    | succ n =>
      obtain ⟨p1, prest, rfl, h1, hprest⟩ := toks_eq_append hp
      obtain ⟨ps, psep, rfl, hps, hpsep⟩ := toks_eq_append h1
      obtain ⟨p, r, rfl, hstart⟩ := stmt_head (hps ▸ hs) (by decide)
      obtain ⟨hsep1, hsep2⟩ := hsep
      cases psep with
      | nil => rw [← hpsep] at hsep1; simp [toks] at hsep1
      | cons qs psep' =>
        have hqs : isSeqSep qs.tok = true := (isSeqSep_iff _).2 (hsep2 _ (by rw [← hpsep]; simp [toks]))
        have hpad : SeqPad (toks psep') := fun t ht => hsep2 t (by
          rw [← hpsep]; simp only [toks, List.map_cons, List.mem_cons]; exact Or.inr ht)
        have hlen : s.length + (sep.length + rest'.length) = (s ++ sep ++ rest').length := by simp
        have hsl : 1 ≤ sep.length := by rw [← hpsep]; simp [toks]
        have hfol : Follow (qs :: psep' ++ prest ++ q :: rest) := by
          simp only [List.cons_append, Follow]
          simp only [isSeqSep, Bool.or_eq_true, decide_eq_true_eq] at hqs
          rcases hqs with h | h <;> simp [h]
        have hres := ih1 (p :: r) (qs :: psep' ++ prest ++ q :: rest) n hps (fun _ => hfol) (by omega)
        have hne : qs.tok ≠ .rbrace := by
          simp only [isSeqSep, Bool.or_eq_true, decide_eq_true_eq] at hqs
          rcases hqs with h | h <;> simp [h]
        obtain ⟨xs', hx, hres2⟩ := ih2 prest q rest n hprest hq (by omega)
        cases hx
        refine ⟨x :: xs, rfl, ?_⟩
        have e : p :: r ++ qs :: psep' ++ prest ++ q :: rest = (p :: r) ++ (qs :: psep' ++ prest ++ q :: rest) := by
          simp
        rw [pSeqStmts.eq_def, e]
        simp only [List.cons_append] at hres ⊢
        simp only [(isStart_facts hstart).1, if_false, hres, hne, hqs, if_true]
        have hns := (noSepHead_of_block (hprest ▸ hrest) (Or.inl hq) rest).1
        have e2 : psep' ++ prest ++ q :: rest = psep' ++ (prest ++ q :: rest) := by simp
        rw [e2, skipSeq_append hpad hns, hres2]
  | parNil =>
    intro pts q rest n hp hq hn
    rw [toks_eq_nil hp]
    cases n with
    | zero => simp at hn
    | succ n =>
      refine ⟨[], rfl, ?_⟩
      rw [pParStmts.eq_def]
      simp only [List.nil_append, hq, if_true]
  | @parOne s x hs ih =>
    intro pts q rest n hp hq hn
    cases n with
    | zero => simp at hn
    | succ n =>
      refine ⟨[x], rfl, ?_⟩
      obtain ⟨p, r, rfl, hstart⟩ := stmt_head (hp ▸ hs) (by decide)
      have hres := ih (p :: r) (q :: rest) n hp (fun _ => by simp [Follow, hq]) (by omega)
      rw [pParStmts.eq_def]
      simp only [List.cons_append] at hres ⊢
      simp only [(isStart_facts hstart).2.1, if_false, hres, hq, if_true]
  | @parCons s x sep rest' xs hs hsep hrest ih1 ih2 =>
    intro pts q rest n hp hq hn
    cases n with
    | zero => simp at hn
    | succ n =>
      obtain ⟨p1, prest, rfl, h1, hprest⟩ := toks_eq_append hp
      obtain ⟨ps, psep, rfl, hps, hpsep⟩ := toks_eq_append h1
      obtain ⟨p, r, rfl, hstart⟩ := stmt_head (hps ▸ hs) (by decide)
      obtain ⟨hsep1, hsep2⟩ := hsep
      cases psep with
      | nil => rw [← hpsep] at hsep1; simp [toks] at hsep1
      | cons qs psep' =>
        have hqs : isParSep qs.tok = true := (isParSep_iff _).2 (hsep2 _ (by rw [← hpsep]; simp [toks]))
        have hpad : ParPad (toks psep') := fun t ht => hsep2 t (by
          rw [← hpsep]; simp only [toks, List.map_cons, List.mem_cons]; exact Or.inr ht)
        have hlen : s.length + (sep.length + rest'.length) = (s ++ sep ++ rest').length := by simp
        have hsl : 1 ≤ sep.length := by rw [← hpsep]; simp [toks]
        have hfol : Follow (qs :: psep' ++ prest ++ q :: rest) := by
          simp only [List.cons_append, Follow]
          simp only [isParSep, Bool.or_eq_true, decide_eq_true_eq] at hqs
          rcases hqs with h | h <;> simp [h]
        have hres := ih1 (p :: r) (qs :: psep' ++ prest ++ q :: rest) n hps (fun _ => hfol) (by omega)
        have hne : qs.tok ≠ .gt := by
          simp only [isParSep, Bool.or_eq_true, decide_eq_true_eq] at hqs
          rcases hqs with h | h <;> simp [h]
        obtain ⟨xs', hx, hres2⟩ := ih2 prest q rest n hprest hq (by omega)
        cases hx
        refine ⟨x :: xs, rfl, ?_⟩
        have e : p :: r ++ qs :: psep' ++ prest ++ q :: rest = (p :: r) ++ (qs :: psep' ++ prest ++ q :: rest) := by
          simp
        rw [pParStmts.eq_def, e]
        simp only [List.cons_append] at hres ⊢
        simp only [(isStart_facts hstart).2.1, if_false, hres, hne, hqs, if_true]
        have hns := (noSepHead_of_block (hprest ▸ hrest) (Or.inr hq) rest).2
        have e2 : psep' ++ prest ++ q :: rest = psep' ++ (prest ++ q :: rest) := by simp
        rw [e2, skipPar_append hpad hns, hres2]

theorem pCases_complete {cs xs} (h : Cases cs xs) : ∀ (pts : List PTok) (q : PTok) (rest : List PTok) (n : Nat),
    toks pts = cs → q.tok = .rbrace → 2 * cs.length + 1 ≤ n → pCases n (pts ++ q :: rest) = .ok (xs, rest) := by
  induction h with
  | nil =>
    intro pts q rest n hp hq hn
    rw [toks_eq_nil hp]
    cases n with
    | zero => simp at hn
    | succ n => simp only [pCases, List.nil_append, hq]
  | @one s x hs =>
    intro pts q rest n hp hq hn
    cases hs with
    | @mk v b bx hb =>
      obtain ⟨p, r, rfl, hpt, hr⟩ := toks_eq_cons hp
      obtain ⟨pc, pb, rfl, hpc, hpb⟩ := toks_eq_cons hr
      cases n with
      | zero => simp at hn
      | succ n =>
        have := block_complete hb pb (q :: rest) n hpb (by simp only [List.length_cons] at hn; omega)
        simp only [pCases, List.cons_append, hpt, expect, hpc, if_true, this, hq, sxCase]
  | @cons s x sep rest' xs hs hsep hrest ih =>
    intro pts q rest n hp hq hn
    cases n with
    | zero => simp at hn
    | succ n =>
      obtain ⟨p1, prest, rfl, h1, hprest⟩ := toks_eq_append hp
      obtain ⟨ps, psep, rfl, hps, hpsep⟩ := toks_eq_append h1
      obtain ⟨hsep1, hsep2⟩ := hsep
      cases psep with
      | nil => rw [← hpsep] at hsep1; simp [toks] at hsep1
      | cons qs psep' =>
        have hqs : isSeqSep qs.tok = true := (isSeqSep_iff _).2 (hsep2 _ (by rw [← hpsep]; simp [toks]))
        have hpad : SeqPad (toks psep') := fun t ht => hsep2 t (by
          rw [← hpsep]; simp only [toks, List.map_cons, List.mem_cons]; exact Or.inr ht)
        have hlen : s.length + (sep.length + rest'.length) = (s ++ sep ++ rest').length := by simp
        have hsl : 1 ≤ sep.length := by rw [← hpsep]; simp [toks]
        have hne : qs.tok ≠ .rbrace := by
          simp only [isSeqSep, Bool.or_eq_true, decide_eq_true_eq] at hqs
          rcases hqs with h | h <;> simp [h]
        have hres2 := ih prest q rest n hprest hq (by omega)
        cases hs with
        | @mk v b bx hb =>
          obtain ⟨p, r, rfl, hpt, hr⟩ := toks_eq_cons hps
          obtain ⟨pc, pb, rfl, hpc, hpb⟩ := toks_eq_cons hr
          have := block_complete hb pb (qs :: (psep' ++ (prest ++ q :: rest))) n hpb (by
            simp only [List.length_cons] at hn hlen; omega)
          have e : p :: pc :: pb ++ qs :: psep' ++ prest ++ q :: rest
              = p :: pc :: (pb ++ qs :: (psep' ++ (prest ++ q :: rest))) := by simp
          rw [e]
          simp only [pCases, expect, hpt, hpc, if_true, this, hne, if_false, hqs]
          have hns : NoSeqHead (prest ++ q :: rest) := by
            cases hrest with
            | nil => rw [toks_eq_nil hprest]; simp [NoSeqHead, isSeqSep, hq]
            | one hc =>
              cases hc; obtain ⟨p', r', rfl, hp', -⟩ := toks_eq_cons hprest
              simp [NoSeqHead, isSeqSep, hp']
            | cons hc _ _ =>
              cases hc; obtain ⟨p', r', rfl, hp', -⟩ := toks_eq_cons hprest
              simp [NoSeqHead, isSeqSep, hp']
          rw [skipSeq_append hpad hns, hres2]
          simp only [sxCase]


theorem pSliceStep_complete {s sx} (h : OptStep s sx) (start stop : Sx) {pts : List PTok}
    (hp : toks pts = s ++ [.rbrack]) (rest : List PTok) :
    pSliceStep start stop (pts ++ rest) = .ok ([start, stop, sx], rest) := by
  cases h with
  | none =>
    obtain ⟨p, r, rfl, hpt, hr⟩ := toks_eq_cons hp
    rw [toks_eq_nil hr]
    simp [pSliceStep, hpt]
  | @some t x ht =>
    obtain ⟨p1, r, rfl, h1, hr⟩ := toks_eq_cons hp
    obtain ⟨p2, r, rfl, h2, hr⟩ := toks_eq_cons hr
    obtain ⟨p3, r, rfl, h3, hr⟩ := toks_eq_cons hr
    rw [toks_eq_nil hr]
    simp [pSliceStep, h1, pLetOrInt_complete ht h2, expect, h3]

theorem pSliceStop_complete {b bx s sx} (hb : OptLetOrInt b bx) (hs : OptStep s sx) (start : Sx)
    {pts : List PTok} (hp : toks pts = b ++ (s ++ [.rbrack])) (rest : List PTok) :
    pSliceStop start (pts ++ rest) = .ok ([start, bx, sx], rest) := by
  cases hb with
  | none =>
    simp only [List.nil_append] at hp
    have := pSliceStep_complete hs start .none hp rest
    cases hs with
    | none =>
      obtain ⟨p, r, rfl, hpt, hr⟩ := toks_eq_cons hp
      simp only [pSliceStop, List.cons_append, hpt] at this ⊢
      exact this
    | some ht =>
      obtain ⟨p, r, rfl, hpt, hr⟩ := toks_eq_cons hp
      simp only [pSliceStop, List.cons_append, hpt] at this ⊢
      exact this
  | @some t x ht =>
    obtain ⟨p, r, rfl, hpt, hr⟩ := toks_eq_cons hp
    have := pSliceStep_complete hs start bx hr rest
    cases ht with
    | ident s => simp only [pSliceStop, List.cons_append, hpt]; exact this
    | int v => simp only [pSliceStop, List.cons_append, hpt]; exact this

theorem pMapIndex_complete {c idx} (h : MapIndex c idx) {pts : List PTok} (hp : toks pts = c)
    (rest : List PTok) : pMapIndex (pts ++ rest) = .ok (idx, rest) := by
  cases h with
  | @index i ix hi =>
    obtain ⟨p1, r, rfl, h1, hr⟩ := toks_eq_cons hp
    obtain ⟨p2, r, rfl, h2, hr⟩ := toks_eq_cons hr
    rw [toks_eq_nil hr]
    have hne : p1.tok ≠ .colon := by rw [h1]; cases hi <;> simp
    simp [pMapIndex, hne, pLetOrInt_complete hi h1, h2]
  | @slice a ax b bx c cx ha hb hc =>
    cases ha with
    | none =>
      obtain ⟨p1, r, rfl, h1, hr⟩ := toks_eq_cons hp
      simp only [pMapIndex, List.cons_append, h1, if_true]
      exact pSliceStop_complete hb hc .none hr rest
    | @some t x ht =>
      obtain ⟨p1, r, rfl, h1, hr⟩ := toks_eq_cons hp
      obtain ⟨p2, r, rfl, h2, hr⟩ := toks_eq_cons hr
      have hne : p1.tok ≠ .colon := by rw [h1]; cases ht <;> simp
      have hne2 : p2.tok ≠ .rbrack := by rw [h2]; simp
      simp only [pMapIndex, List.cons_append, hne, if_false, pLetOrInt_complete ht h1, h2, if_true]
      simp only [reduceCtorEq, if_false]
      exact pSliceStop_complete hb hc ax hr rest

/-- After a top-level statement: a separator or the end. -/
def TopFollow : List PTok → Prop
  | [] => True
  | p :: _ => isSeqSep p.tok = true

theorem header_complete {s x} (h : Header s x) {pts : List PTok} (hp : toks pts = s) {rest : List PTok}
    (hf : TopFollow rest) (n : Nat) : pTopStmt (n+1) (pts ++ rest) = .ok (.header x, rest) := by
  cases h with
  | @register nm sz szx hsz hpos =>
    obtain ⟨p1, r, rfl, h1, hr⟩ := toks_eq_cons hp
    obtain ⟨p2, r, rfl, h2, hr⟩ := toks_eq_cons hr
    obtain ⟨p3, r, rfl, h3, hr⟩ := toks_eq_cons hr
    obtain ⟨p4, r, rfl, h4, hr⟩ := toks_eq_cons hr
    obtain ⟨p5, r, rfl, h5, hr⟩ := toks_eq_cons hr
    rw [toks_eq_nil hr]
    simp only [pTopStmt, List.cons_append, List.nil_append, h1, pIdent, h2, expect, h3, if_true,
      pLetOrInt_complete hsz h4, h5]
    cases hsz with
    | ident s => simp [sxRegister]
    | int v =>
      have := hpos v rfl
      simp only [sxRegister]
      rw [if_neg (by omega)]
  | letInt nm v =>
    obtain ⟨p1, r, rfl, h1, hr⟩ := toks_eq_cons hp
    obtain ⟨p2, r, rfl, h2, hr⟩ := toks_eq_cons hr
    obtain ⟨p3, r, rfl, h3, hr⟩ := toks_eq_cons hr
    rw [toks_eq_nil hr]
    simp only [pTopStmt, List.cons_append, List.nil_append, h1, pIdent, h2, h3, sxLet]
  | letNumber nm d =>
    obtain ⟨p1, r, rfl, h1, hr⟩ := toks_eq_cons hp
    obtain ⟨p2, r, rfl, h2, hr⟩ := toks_eq_cons hr
    obtain ⟨p3, r, rfl, h3, hr⟩ := toks_eq_cons hr
    rw [toks_eq_nil hr]
    simp only [pTopStmt, List.cons_append, List.nil_append, h1, pIdent, h2, h3, sxLet]
  | mapWhole nm src =>
    obtain ⟨p1, r, rfl, h1, hr⟩ := toks_eq_cons hp
    obtain ⟨p2, r, rfl, h2, hr⟩ := toks_eq_cons hr
    obtain ⟨p3, r, rfl, h3, hr⟩ := toks_eq_cons hr
    rw [toks_eq_nil hr]
    simp only [pTopStmt, List.cons_append, List.nil_append, h1, pIdent, h2, h3]
    cases rest with
    | nil => simp [sxMap]
    | cons q r =>
      have : q.tok ≠ .lbrack := by
        simp only [TopFollow, isSeqSep, Bool.or_eq_true, decide_eq_true_eq] at hf
        rcases hf with h | h <;> simp [h]
      simp [this, sxMap]
  | @mapIndex nm src i ix hi =>
    obtain ⟨p1, r, rfl, h1, hr⟩ := toks_eq_cons hp
    obtain ⟨p2, r, rfl, h2, hr⟩ := toks_eq_cons hr
    obtain ⟨p3, r, rfl, h3, hr⟩ := toks_eq_cons hr
    obtain ⟨p4, r, rfl, h4, hr⟩ := toks_eq_cons hr
    simp only [pTopStmt, List.cons_append, h1, pIdent, h2, h3, h4, if_true,
      pMapIndex_complete (MapIndex.index hi) hr rest, sxMap]
  | @mapSlice nm src a ax b bx c cx ha hb hc =>
    obtain ⟨p1, r, rfl, h1, hr⟩ := toks_eq_cons hp
    obtain ⟨p2, r, rfl, h2, hr⟩ := toks_eq_cons hr
    obtain ⟨p3, r, rfl, h3, hr⟩ := toks_eq_cons hr
    obtain ⟨p4, r, rfl, h4, hr⟩ := toks_eq_cons hr
    simp only [pTopStmt, List.cons_append, h1, pIdent, h2, h3, h4, if_true,
      pMapIndex_complete (MapIndex.slice ha hb hc) hr rest, sxMap]
  | usepulses m =>
    obtain ⟨p1, r, rfl, h1, hr⟩ := toks_eq_cons hp
    obtain ⟨p2, r, rfl, h2, hr⟩ := toks_eq_cons hr
    obtain ⟨p3, r, rfl, h3, hr⟩ := toks_eq_cons hr
    obtain ⟨p4, r, rfl, h4, hr⟩ := toks_eq_cons hr
    rw [toks_eq_nil hr]
    simp only [pTopStmt, List.cons_append, List.nil_append, h1, h2, expect, h3, h4, if_true, sxUsepulses]
  | usepulsesDot m =>
    obtain ⟨p1, r, rfl, h1, hr⟩ := toks_eq_cons hp
    obtain ⟨p2, r, rfl, h2, hr⟩ := toks_eq_cons hr
    obtain ⟨p3, r, rfl, h3, hr⟩ := toks_eq_cons hr
    obtain ⟨p4, r, rfl, h4, hr⟩ := toks_eq_cons hr
    rw [toks_eq_nil hr]
    simp only [pTopStmt, List.cons_append, List.nil_append, h1, h2, expect, h3, h4, if_true, sxUsepulses]


theorem TopFollow.follow {rest : List PTok} (h : TopFollow rest) : Follow rest := by
  cases rest with
  | nil => trivial
  | cons p r =>
    simp only [TopFollow, isSeqSep, Bool.or_eq_true, decide_eq_true_eq] at h
    simp only [Follow]
    rcases h with h | h <;> simp [h]

/-- First token of a statement allowed in `{ }`. -/
def isSeqStart : Tok → Bool
  | .IDENTIFIER _ => true
  | .lt => true
  | .LOOP => true
  | .SUBCIRCUIT => true
  | _ => false

theorem seqStmt_head {ts x} (h : Block .seqStmt ts x) : ∃ t r, ts = t :: r ∧ isSeqStart t = true := by
  cases h with
  | seqGate hg => cases hg; exact ⟨_, _, rfl, rfl⟩
  | seqPar hb => cases hb; exact ⟨_, _, rfl, rfl⟩
  | seqLoop _ _ => exact ⟨_, _, rfl, rfl⟩
  | seqSub _ _ => exact ⟨_, _, rfl, rfl⟩
  | seqSubN _ _ _ => exact ⟨_, _, rfl, rfl⟩

theorem pTopStmt_seqStart {p : PTok} (h : isSeqStart p.tok = true) (n : Nat) (r : List PTok) :
    pTopStmt (n+1) (p :: r) =
      match pSeqStmt n (p :: r) with
      | .error e => .error e
      | .ok (x, r1) => .ok (.body x, r1) := by
  cases hp : p.tok <;> simp_all [isSeqStart, pTopStmt] <;> (split <;> simp_all)

theorem gateBlock_head {ts x} (h : Block .gateBlock ts x) : ∃ t r, ts = t :: r ∧ (t = .lbrace ∨ t = .lt) := by
  cases h with
  | gateBlockSeq hb => cases hb; exact ⟨_, _, rfl, Or.inl rfl⟩
  | gateBlockPar hb => cases hb; exact ⟨_, _, rfl, Or.inr rfl⟩

theorem pIdents_complete (params : List String) : ∀ {pp : List PTok}, toks pp = params.map Tok.IDENTIFIER →
    ∀ {q : PTok} (r : List PTok), (∀ s, q.tok ≠ .IDENTIFIER s) → pIdents (pp ++ q :: r) = (params, q :: r) := by
  induction params with
  | nil =>
    intro pp hp q r hq
    rw [toks_eq_nil hp]
    simp only [List.nil_append]
    rw [pIdents]
    split
    · rename_i s hs; exact absurd hs (hq s)
    · rfl
  | cons a params ih =>
    intro pp hp q r hq
    obtain ⟨p, pp', rfl, hpt, hpp'⟩ := toks_eq_cons hp
    simp only [List.cons_append, pIdents, hpt, ih hpp' r hq]

theorem cases_noSeqHead {cs xs} (h : Cases cs xs) {pcs : List PTok} (hp : toks pcs = cs) {q : PTok}
    (hq : q.tok = .rbrace) (rest : List PTok) : NoSeqHead (pcs ++ q :: rest) := by
  cases h with
  | nil => rw [toks_eq_nil hp]; simp [NoSeqHead, isSeqSep, hq]
  | one hc =>
    cases hc; obtain ⟨p', r', rfl, hp', -⟩ := toks_eq_cons hp
    simp [NoSeqHead, isSeqSep, hp']
  | cons hc _ _ =>
    cases hc; obtain ⟨p', r', rfl, hp', -⟩ := toks_eq_cons hp
    simp [NoSeqHead, isSeqSep, hp']

theorem body_complete {s x} (h : Body s x) {pts : List PTok} (hp : toks pts = s) {rest : List PTok}
    (hf : GateHead s → Follow rest) {n : Nat} (hn : 2 * s.length + 1 ≤ n) :
    pTopStmt n (pts ++ rest) = .ok (.body x, rest) := by
  cases n with
  | zero => simp at hn
  | succ n =>
  cases h with
  | stmt hb =>
    obtain ⟨t, r, rfl, ht⟩ := seqStmt_head hb
    obtain ⟨p, r', rfl, hpt, hr⟩ := toks_eq_cons hp
    have := block_complete hb (p :: r') rest n hp hf (by omega)
    simp only [List.cons_append] at this ⊢
    rw [pTopStmt_seqStart (hpt ▸ ht), this]
  | seqBlock hb =>
    obtain ⟨p, r, xs, rfl, hpt, rfl, hres⟩ := block_complete hb pts rest n hp (by omega)
    simp only [pTopStmt, List.cons_append, hpt, hres, sxSeq]
  | @macroDef name params b bx hb =>
    obtain ⟨p1, r, rfl, h1, hr⟩ := toks_eq_cons hp
    obtain ⟨p2, r, rfl, h2, hr⟩ := toks_eq_cons hr
    obtain ⟨pp, pb, rfl, hpp, hpb⟩ := toks_eq_append hr
    obtain ⟨t, tb, rfl, ht⟩ := gateBlock_head hb
    obtain ⟨q, pb', rfl, hq, hpb'⟩ := toks_eq_cons hpb
    have hq' : ∀ s, q.tok ≠ .IDENTIFIER s := by
      intro s; rw [hq]; rcases ht with rfl | rfl <;> simp
    have hres := block_complete hb (q :: pb') rest n hpb (by
      simp only [List.length_cons, List.length_append, List.length_map] at hn ⊢; omega)
    have e : p1 :: p2 :: (pp ++ q :: pb') ++ rest = p1 :: p2 :: (pp ++ q :: (pb' ++ rest)) := by simp
    rw [e]
    simp only [List.cons_append] at hres
    simp only [pTopStmt, h1, pIdent, h2, pIdents_complete params hpp (pb' ++ rest) hq', hres, sxMacro]
    simp
  | @branch pad cs xs hpad hcs =>
    obtain ⟨p1, r, rfl, h1, hr⟩ := toks_eq_cons hp
    obtain ⟨p2, r, rfl, h2, hr⟩ := toks_eq_cons hr
    obtain ⟨r1, pq, rfl, hr1, hq⟩ := toks_eq_append hr
    obtain ⟨ppad, pcs, rfl, hppad, hpcs⟩ := toks_eq_append hr1
    obtain ⟨q, e, rfl, hqt, he⟩ := toks_eq_cons hq
    rw [toks_eq_nil he]
    have hns := cases_noSeqHead hcs hpcs hqt rest
    have e : p1 :: p2 :: (ppad ++ pcs ++ [q]) ++ rest = p1 :: p2 :: (ppad ++ (pcs ++ q :: rest)) := by simp
    rw [e]
    simp only [pTopStmt, h1, expect, h2, if_true, skipSeq_append (hppad ▸ hpad) hns]
    rw [pCases_complete hcs pcs q rest n hpcs hqt (by
      simp only [List.length_cons, List.length_append, List.length_nil] at hn; omega)]
    simp only [sxBranch]


theorem header_head {s x} (h : Header s x) : ∃ t r, s = t :: r ∧ isSeqSep t = false := by
  cases h <;> exact ⟨_, _, rfl, rfl⟩

theorem body_head {s x} (h : Body s x) : ∃ t r, s = t :: r ∧ isSeqSep t = false := by
  cases h with
  | stmt hb =>
    obtain ⟨t, r, rfl, ht⟩ := seqStmt_head hb
    exact ⟨t, r, rfl, by cases t <;> simp_all [isSeqStart, isSeqSep]⟩
  | seqBlock hb => cases hb; exact ⟨_, _, rfl, rfl⟩
  | macroDef _ _ _ => exact ⟨_, _, rfl, rfl⟩
  | branch _ _ => exact ⟨_, _, rfl, rfl⟩

theorem stmts_noSeqHead {ph ts xs} (h : Stmts ph ts xs) {pts : List PTok} (hp : toks pts = ts) :
    NoSeqHead pts := by
  have key : ∀ {s : List Tok} {rest : List Tok}, (∃ t r, s = t :: r ∧ isSeqSep t = false) →
      toks pts = s ++ rest → NoSeqHead pts := by
    intro s rest ⟨t, r, hs, ht⟩ hp
    subst hs
    obtain ⟨p, r', rfl, hpt, -⟩ := toks_eq_cons hp
    simp only [NoSeqHead, hpt, ht]
  cases h with
  | nil => rw [toks_eq_nil hp]; trivial
  | lastHeader hh => exact key (header_head hh) (rest := []) (by simpa using hp)
  | lastBody hb => exact key (body_head hb) (rest := []) (by simpa using hp)
  | consHeader hh _ _ => exact key (header_head hh) (by simpa using hp)
  | consBody hb _ _ => exact key (body_head hb) (by simpa using hp)

theorem pTop_complete {ph ts xs} (h : Stmts ph ts xs) : ∀ (pts : List PTok) (n : Nat), toks pts = ts →
    2 * ts.length + 2 ≤ n → pTop n (decide (ph = .body)) pts = .ok xs := by
  induction h with
  | nil =>
    intro pts n hp hn
    rw [toks_eq_nil hp]
    cases n with
    | zero => simp at hn
    | succ n => simp [pTop]
  | @lastHeader s x hh =>
    intro pts n hp hn
    cases n with
    | zero => simp at hn
    | succ n =>
    cases n with
    | zero => simp at hn
    | succ n =>
      obtain ⟨t, r, hs, -⟩ := header_head hh
      obtain ⟨p, r', rfl, -, -⟩ := toks_eq_cons (hs ▸ hp)
      have := header_complete hh hp (rest := []) trivial n
      simp only [List.append_nil] at this
      simp [pTop, this, topAction]
  | @lastBody ph s x hb =>
    intro pts n hp hn
    cases n with
    | zero => simp at hn
    | succ n =>
      obtain ⟨t, r, hs, -⟩ := body_head hb
      obtain ⟨p, r', rfl, -, -⟩ := toks_eq_cons (hs ▸ hp)
      have := body_complete hb hp (rest := []) (fun _ => trivial) (n := n) (by omega)
      simp only [List.append_nil] at this
      simp [pTop, this, topAction]
  | @consHeader s x sep rest xs hh hsep hrest ih =>
    intro pts n hp hn
    cases n with
    | zero => simp at hn
    | succ n =>
    cases n with
    | zero => simp at hn
    | succ n =>
      obtain ⟨p1, prest, rfl, h1, hprest⟩ := toks_eq_append hp
      obtain ⟨ps, psep, rfl, hps, hpsep⟩ := toks_eq_append h1
      obtain ⟨t, r, hs, -⟩ := header_head hh
      obtain ⟨p, r', rfl, -, -⟩ := toks_eq_cons (hs ▸ hps)
      obtain ⟨hsep1, hsep2⟩ := hsep
      cases psep with
      | nil => rw [← hpsep] at hsep1; simp [toks] at hsep1
      | cons qs psep' =>
        have hqs : isSeqSep qs.tok = true := (isSeqSep_iff _).2 (hsep2 _ (by rw [← hpsep]; simp [toks]))
        have hpad : SeqPad (toks psep') := fun t ht => hsep2 t (by
          rw [← hpsep]; simp only [toks, List.map_cons, List.mem_cons]; exact Or.inr ht)
        have hlen : s.length + (sep.length + rest.length) = (s ++ sep ++ rest).length := by simp
        have hsl : 1 ≤ sep.length := by rw [← hpsep]; simp [toks]
        have := header_complete hh hps (rest := qs :: (psep' ++ prest)) hqs n
        have e : p :: r' ++ qs :: psep' ++ prest = p :: (r' ++ qs :: (psep' ++ prest)) := by simp
        rw [e]
        simp only [List.cons_append] at this
        rw [pTop]
        simp only [this, hqs, if_true, topAction]
        simp only [Bool.false_eq_true, if_false, reduceCtorEq, decide_false]
        rw [skipSeq_append hpad (stmts_noSeqHead hrest hprest)]
        have := ih prest (n+1) hprest (by omega)
        simp only [reduceCtorEq, decide_false] at this
        rw [this]
  | @consBody ph s x sep rest xs hb hsep hrest ih =>
    intro pts n hp hn
    cases n with
    | zero => simp at hn
    | succ n =>
      obtain ⟨p1, prest, rfl, h1, hprest⟩ := toks_eq_append hp
      obtain ⟨ps, psep, rfl, hps, hpsep⟩ := toks_eq_append h1
      obtain ⟨t, r, hs, -⟩ := body_head hb
      obtain ⟨p, r', rfl, -, -⟩ := toks_eq_cons (hs ▸ hps)
      obtain ⟨hsep1, hsep2⟩ := hsep
      cases psep with
      | nil => rw [← hpsep] at hsep1; simp [toks] at hsep1
      | cons qs psep' =>
        have hqs : isSeqSep qs.tok = true := (isSeqSep_iff _).2 (hsep2 _ (by rw [← hpsep]; simp [toks]))
        have hpad : SeqPad (toks psep') := fun t ht => hsep2 t (by
          rw [← hpsep]; simp only [toks, List.map_cons, List.mem_cons]; exact Or.inr ht)
        have hlen : s.length + (sep.length + rest.length) = (s ++ sep ++ rest).length := by simp
        have hsl : 1 ≤ sep.length := by rw [← hpsep]; simp [toks]
        have := body_complete hb hps (rest := qs :: (psep' ++ prest)) (fun _ => TopFollow.follow (rest := qs :: (psep' ++ prest)) hqs) (n := n) (by omega)
        have e : p :: r' ++ qs :: psep' ++ prest = p :: (r' ++ qs :: (psep' ++ prest)) := by simp
        rw [e]
        simp only [List.cons_append] at this
        rw [pTop]
        simp only [this, hqs, if_true, topAction]
        rw [skipSeq_append hpad (stmts_noSeqHead hrest hprest)]
        have := ih prest n hprest (by omega)
        simp only [decide_true] at this
        rw [this]

theorem parse_complete {ts : List PTok} {t} (h : Derives (toks ts) t) : parse ts = .ok t := by
  generalize hts : toks ts = tt at h
  cases h with
  | @circuit pad body xs hpad hbody =>
    obtain ⟨ppad, pbody, rfl, hppad, hpbody⟩ := toks_eq_append hts
    have h1 := skipSeq_append (hppad ▸ hpad) (stmts_noSeqHead hbody hpbody)
    have h2 := pTop_complete hbody pbody (fuelFor (ppad ++ pbody)) hpbody (by
      rw [← hpbody]; simp [fuelFor, toks]; omega)
    simp only [reduceCtorEq, decide_false] at h2
    simp only [parse, h1, h2, sxCircuit]


end Jaqal.Parser
