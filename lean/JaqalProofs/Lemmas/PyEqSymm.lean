import JaqalProofs.Lemmas.PyEq
import Batteries.Data.List.Perm
/-! Symmetry of the model of Python `==`: unconditional on values and statements; on circuits it needs only that
the lists representing dictionaries have distinct keys. -/
namespace Jaqal.PyEq
open Jaqal

theorem beq_symm' {α} [BEq α] [LawfulBEq α] (a b : α) : (a == b) = (b == a) := by
  by_cases h : a = b
  · subst h; rfl
  · have h' : ¬ b = a := fun e => h e.symm
    rw [beq_eq_false_iff_ne.mpr h, beq_eq_false_iff_ne.mpr h']

theorem veq_symm (x y : Num) : Num.veq x y = Num.veq y x := by
  cases x <;> cases y <;> simp [Num.veq, Bool.and_comm]
  · exact beq_symm' _ _
  · rename_i a b; rw [beq_symm' a b]

/-- `a == b` is `b == a` for ALL values of the model -/
theorem valEq_symm : ∀ a b : Val, valEq a b = valEq b a := by
  intro a
  induction a with
  | int x => intro b; cases b <;> simp [valEq, veq_symm]
  | flt x => intro b; cases b <;> simp [valEq, veq_symm]
  | none => intro b; cases b <;> simp [valEq]
  | str s => intro b; cases b <;> simp [valEq, beq_symm' s]
  | param n k => intro b; cases b <;> simp [valEq]; rw [beq_symm' n, beq_symm' k]
  | const n v ih => intro b; cases b <;> simp [valEq]; rw [beq_symm' n, ih]
  | qubit n src idx _ ih2 =>
    intro b
    cases b <;> simp [valEq]
    rename_i n' src' idx'
    rw [beq_symm' n, ih2]
    cases src.name? <;> cases src'.name? <;> simp
    rename_i s s'; rw [beq_symm' s]
  | regF n size ih => intro b; cases b <;> simp [valEq]; rw [beq_symm' n, ih]
  | regA n src ih => intro b; cases b <;> simp [valEq]; rw [beq_symm' n, ih]
  | regS n src st sp se ih ih1 ih2 ih3 =>
    intro b; cases b <;> simp [valEq]; rw [beq_symm' n, ih, ih1, ih2, ih3]

theorem argsEq_symm : ∀ as bs : List (String × Val), argsEq as bs = argsEq bs as
  | [], [] => rfl
  | a :: as, [] => by simp only [argsEq]; rw [valEq_symm, argsEq_symm as []]
  | [], b :: bs => by simp only [argsEq]; rw [valEq_symm, argsEq_symm [] bs]
  | a :: as, b :: bs => by simp only [argsEq]; rw [valEq_symm, argsEq_symm as bs]

mutual
  theorem stmtEq_symm : ∀ s t : Stmt, stmtEq s t = stmtEq t s
    | .gate n _ args, .gate n' _ args' => by simp only [stmtEq]; rw [beq_symm' n, argsEq_symm]
    | .gate .., .block .. => by simp [stmtEq]
    | .gate .., .loop .. => by simp [stmtEq]
    | .block .., .gate .. => by simp [stmtEq]
    | .loop .., .gate .. => by simp [stmtEq]
    | .block .., .loop .. => by simp [stmtEq]
    | .loop .., .block .. => by simp [stmtEq]
    | .block par sub it body, .block par' sub' it' body' => by
      simp only [stmtEq]
      rw [beq_symm' par, beq_symm' sub, valEq_symm it, beq_symm' body.length, stmtsEq_symm body body']
    | .loop c b, .loop c' b' => by simp only [stmtEq]; rw [valEq_symm c, stmtEq_symm b b']
  theorem stmtsEq_symm : ∀ as bs : List Stmt, stmtsEq as bs = stmtsEq bs as
    | [], [] => rfl
    | [], _ :: _ => by simp [stmtsEq]
    | _ :: _, [] => by simp [stmtsEq]
    | a :: as, b :: bs => by simp only [stmtsEq]; rw [stmtEq_symm a b, stmtsEq_symm as bs]
end

theorem paramsEq_symm (a b : List (String × Kind)) : paramsEq a b = paramsEq b a := beq_symm' a b

theorem macroEq_symm (a b : Macro) : macroEq a b = macroEq b a := by
  unfold macroEq; rw [beq_symm' a.name, paramsEq_symm, stmtEq_symm]

theorem gateDefEq_symm (a b : GateDef) : gateDefEq a b = gateDefEq b a := by
  unfold gateDefEq; rw [beq_symm' a.name, paramsEq_symm]

theorem listEqB_symm {α} (eq : α → α → Bool) (h : ∀ x y, eq x y = eq y x) :
    ∀ a b : List α, listEqB eq a b = listEqB eq b a
  | [], [] => rfl
  | [], _ :: _ => rfl
  | _ :: _, [] => rfl
  | x :: xs, y :: ys => by simp [listEqB, h x y, listEqB_symm eq h xs ys]

/-! ## dictionaries -/

theorem keys_subset_symm {α} (key : α → Option String) (a b : List α) (hnda : (a.map key).Nodup)
    (hlen : a.length = b.length) (hsub : ∀ x ∈ a, ∃ y ∈ b, key y = key x) :
    ∀ y ∈ b, ∃ x ∈ a, key x = key y := by
  have hs : a.map key ⊆ b.map key := by
    intro k hk
    obtain ⟨x, hx, rfl⟩ := List.mem_map.mp hk
    obtain ⟨y, hy, hky⟩ := hsub x hx
    exact hky ▸ List.mem_map_of_mem hy
  have hperm : (a.map key).Perm (b.map key) :=
    (List.subperm_of_subset hnda hs).perm_of_length_le (by simp [hlen])
  intro y hy
  have : key y ∈ a.map key := hperm.mem_iff.mpr (List.mem_map_of_mem hy)
  obtain ⟨x, hx, hk⟩ := List.mem_map.mp this
  exact ⟨x, hx, hk⟩

/-- `dict.__eq__` on two dictionaries: `True` one way implies `True` the other way -/
theorem dictEq_flip {α} (key : α → Option String) (eq : α → α → Bool) (heq : ∀ x y, eq x y = eq y x)
    (a b : List α) (hnda : (a.map key).Nodup) (hndb : (b.map key).Nodup)
    (h : dictEq key eq a b = true) : dictEq key eq b a = true := by
  obtain ⟨hlen, hall⟩ := dictEq_true h
  refine dictEq_of hnda hlen.symm (fun y hy => ?_)
  obtain ⟨x, hx, hk⟩ := keys_subset_symm key a b hnda hlen
    (fun x hx => by obtain ⟨y, hy, hk, _⟩ := hall x hx; exact ⟨y, hy, hk⟩) y hy
  obtain ⟨y', hy', hk', he⟩ := hall x hx
  have : y' = y := key_inj_of_nodup key b hndb y' hy' y hy (hk'.trans hk)
  subst this
  exact ⟨x, hx, hk, by rw [heq]; exact he⟩

theorem dictEq_symm {α} (key : α → Option String) (eq : α → α → Bool) (heq : ∀ x y, eq x y = eq y x)
    (a b : List α) (hnda : (a.map key).Nodup) (hndb : (b.map key).Nodup) :
    dictEq key eq a b = dictEq key eq b a := by
  cases h1 : dictEq key eq a b <;> cases h2 : dictEq key eq b a <;> try rfl
  · rw [dictEq_flip key eq heq b a hndb hnda h2] at h1; exact h1.symm
  · rw [dictEq_flip key eq heq a b hnda hndb h1] at h2; exact h2

theorem circuitEq_symm (a b : Circuit) (ha : DictKeys a) (hb : DictKeys b) : circuitEq a b = circuitEq b a := by
  unfold circuitEq
  rw [dictEq_symm _ _ valEq_symm _ _ ha.constKeys hb.constKeys,
    dictEq_symm _ _ macroEq_symm _ _ ha.macroKeys hb.macroKeys,
    dictEq_symm _ _ gateDefEq_symm _ _ ha.nativeKeys hb.nativeKeys,
    dictEq_symm _ _ valEq_symm _ _ ha.regKeys hb.regKeys,
    stmtEq_symm a.body b.body,
    listEqB_symm usepulsesEq (fun x y => by unfold usepulsesEq; rw [beq_symm' x.1, beq_symm' x.2])]

end Jaqal.PyEq
