import JaqalProofs.Lemmas.PyEq
/-! Symmetry of the model of Python `==` on circuits over one fundamental register. -/
namespace Jaqal.PyEq
open Jaqal

/-- Values as the parser builds them in a circuit whose (only) fundamental register is called `f`:
every fundamental register below is called `f`, no alias and no named qubit is called `f`, parameters are
untyped (macro parameters), constants hold numbers. -/
def over (f : String) : Val → Bool
  | .const _ v => constKind v != .none && over f v
  | .param _ k => k == .none
  | .qubit n src idx => n != f && over f src && over f idx
  | .regF n size => n == f && over f size
  | .regA n src => n != f && over f src
  | .regS n src a b c => n != f && over f src && over f a && over f b && over f c
  | _ => true

theorem beq_symm' {α} [BEq α] [LawfulBEq α] (a b : α) : (a == b) = (b == a) := by
  by_cases h : a = b
  · subst h; rfl
  · have h' : ¬ b = a := fun e => h e.symm
    rw [beq_eq_false_iff_ne.mpr h, beq_eq_false_iff_ne.mpr h']

theorem veq_symm (x y : Num) : Num.veq x y = Num.veq y x := by
  cases x <;> cases y <;> simp [Num.veq, Bool.and_comm]
  · exact beq_symm' _ _
  · rename_i a b; rw [beq_symm' a b]

/-- `a == b` and `b == a` both return, and return the same -/
def Sym (a b : Val) : Prop := ∃ r, valEq a b = .ok r ∧ valEq b a = .ok r

theorem Sym.false_of {a b : Val} (h1 : valEq a b = .ok false) (h2 : valEq b a = .ok false) : Sym a b := ⟨false, h1, h2⟩

theorem valEq_regF_of_noSize {n sz b} (h : sizeAttr b = .ok none) : valEq (.regF n sz) b = .ok false := by
  simp only [valEq]
  split
  · rfl
  · split
    · simp [h, bind, Except.bind, pure, Except.pure]
    · rfl

theorem sizeAttr_noReg {b : Val}
    (h : match b with | .regF .. => False | .regA .. => False | .regS .. => False | _ => True) :
    sizeAttr b = .ok none := by
  cases b <;> first | exact h.elim | simp [sizeAttr, Resolve.resolveSize, pure, Except.pure]

theorem valEq_regF_ne {n sz b n'} (h : b.name? = some n') (hne : n ≠ n') : valEq (.regF n sz) b = .ok false := by
  simp only [valEq, h]
  split
  · rename_i e; exact absurd (by simpa using e) hne
  · rfl

/-- both directions are `False` by unfolding -/
macro "ff" : tactic => `(tactic|
  exact Sym.false_of
    (by first | exact valEq_regF_of_noSize (sizeAttr_noReg trivial) | simp [valEq, pure, Except.pure])
    (by first | exact valEq_regF_of_noSize (sizeAttr_noReg trivial) | simp [valEq, pure, Except.pure]))

theorem valEq_symm (f : String) : ∀ a b : Val, over f a = true → over f b = true → Sym a b := by
  intro a
  induction a with
  | int x =>
    intro b _ _
    cases b <;> simp [Sym, valEq, pure, Except.pure, veq_symm, Val.name?]
  | flt x =>
    intro b _ _
    cases b <;> simp [Sym, valEq, pure, Except.pure, veq_symm, Val.name?]
  | none =>
    intro b _ _
    cases b <;> simp [Sym, valEq, pure, Except.pure, Val.name?]
  | str s =>
    intro b _ _
    cases b <;> simp [Sym, valEq, pure, Except.pure, Val.name?, beq_symm' s]
  | param n k =>
    intro b ha hb
    cases b <;> simp [Sym, valEq, pure, Except.pure, Val.name?, sizeAttr, Resolve.resolveSize, bind, Except.bind]
    · simp only [over, Bool.and_eq_true, bne_iff_ne, beq_iff_eq] at ha hb
      intro _ h; exact hb.1 (h ▸ ha)
    · rw [beq_symm' n, beq_symm' k]
  | const n v ih =>
    intro b ha hb
    simp only [over, Bool.and_eq_true, bne_iff_ne] at ha
    cases b with
    | const n' v' =>
      simp only [over, Bool.and_eq_true, bne_iff_ne] at hb
      by_cases hn : n = n'
      · subst hn
        obtain ⟨r, h1, h2⟩ := ih v' ha.2 hb.2
        exact ⟨r, by simp [valEq, h1], by simp [valEq, h2]⟩
      · exact Sym.false_of (by simp [valEq, hn, pure, Except.pure]) (by simp [valEq, Ne.symm hn, pure, Except.pure])
    | param n' k' =>
      simp only [over, beq_iff_eq] at hb
      refine Sym.false_of (by simp [valEq, pure, Except.pure]) ?_
      simp only [valEq, pure, Except.pure, Except.ok.injEq, Bool.and_eq_false_imp, beq_iff_eq, beq_eq_false_iff_ne]
      intro _ h; exact ha.1 (h ▸ hb)
    | _ => ff
  | qubit n src idx ih1 ih2 =>
    intro b ha hb
    simp only [over, Bool.and_eq_true, bne_iff_ne] at ha
    cases b with
    | qubit n' src' idx' =>
      simp only [over, Bool.and_eq_true, bne_iff_ne] at hb
      by_cases hn : n = n'
      · subst hn
        obtain ⟨r, h1, h2⟩ := ih2 idx' ha.2 hb.2
        cases hs : src.name? <;> cases hs' : src'.name?
        · exact Sym.false_of (by simp [valEq, hs, hs', pure, Except.pure]) (by simp [valEq, hs, hs', pure, Except.pure])
        · exact Sym.false_of (by simp [valEq, hs, hs', pure, Except.pure]) (by simp [valEq, hs, hs', pure, Except.pure])
        · exact Sym.false_of (by simp [valEq, hs, hs', pure, Except.pure]) (by simp [valEq, hs, hs', pure, Except.pure])
        · rename_i s s'
          by_cases hss : s = s'
          · subst hss
            exact ⟨r, by simp [valEq, hs, hs', h1], by simp [valEq, hs, hs', h2]⟩
          · exact Sym.false_of (by simp [valEq, hs, hs', hss, pure, Except.pure])
              (by simp [valEq, hs, hs', Ne.symm hss, pure, Except.pure])
      · exact Sym.false_of (by simp [valEq, hn, pure, Except.pure]) (by simp [valEq, Ne.symm hn, pure, Except.pure])
    | regA n' src' =>
      simp only [over, Bool.and_eq_true, bne_iff_ne] at hb
      refine Sym.false_of (by simp [valEq, pure, Except.pure]) ?_
      obtain ⟨r, _, h2⟩ := ih1 src' ha.1.2 hb.2
      by_cases hn : n' = n <;> simp [valEq, hn, h2, pure, Except.pure, bind, Except.bind]
    | regS n' src' a' b' c' =>
      simp only [over, Bool.and_eq_true, bne_iff_ne] at hb
      refine Sym.false_of (by simp [valEq, pure, Except.pure]) ?_
      obtain ⟨r, _, h2⟩ := ih1 src' ha.1.2 hb.1.1.1.2
      by_cases hn : n' = n <;> simp [valEq, hn, h2, pure, Except.pure, bind, Except.bind]
    | _ => ff
  | regF n size ih =>
    intro b ha hb
    simp only [over, Bool.and_eq_true, beq_iff_eq] at ha
    obtain ⟨rfl, ha2⟩ := ha
    cases b with
    | regF n' size' =>
      simp only [over, Bool.and_eq_true, beq_iff_eq] at hb
      obtain ⟨rfl, hb2⟩ := hb
      obtain ⟨r, h1, h2⟩ := ih size' ha2 hb2
      exact ⟨r, by simp [valEq, Val.name?, sizeAttr, Resolve.resolveSize, pure, Except.pure, bind, Except.bind, h1],
        by simp [valEq, Val.name?, sizeAttr, Resolve.resolveSize, pure, Except.pure, bind, Except.bind, h2]⟩
    | regA n' src' =>
      simp only [over, Bool.and_eq_true, bne_iff_ne] at hb
      exact Sym.false_of (valEq_regF_ne rfl (Ne.symm hb.1)) (by simp [valEq, hb.1, pure, Except.pure])
    | regS n' src' a' b' c' =>
      simp only [over, Bool.and_eq_true, bne_iff_ne] at hb
      exact Sym.false_of (valEq_regF_ne rfl (Ne.symm hb.1.1.1.1)) (by simp [valEq, hb.1.1.1.1, pure, Except.pure])
    | _ => ff
  | regA n src ih =>
    intro b ha hb
    simp only [over, Bool.and_eq_true, bne_iff_ne] at ha
    cases b with
    | regF n' size' =>
      simp only [over, Bool.and_eq_true, beq_iff_eq] at hb
      obtain ⟨rfl, _⟩ := hb
      exact Sym.false_of (by simp [valEq, ha.1, pure, Except.pure]) (valEq_regF_ne rfl (Ne.symm ha.1))
    | regA n' src' =>
      simp only [over, Bool.and_eq_true, bne_iff_ne] at hb
      by_cases hn : n = n'
      · subst hn
        obtain ⟨r, h1, h2⟩ := ih src' ha.2 hb.2
        exact ⟨r, by simp [valEq, h1], by simp [valEq, h2]⟩
      · exact Sym.false_of (by simp [valEq, hn, pure, Except.pure]) (by simp [valEq, Ne.symm hn, pure, Except.pure])
    | regS n' src' a' b' c' =>
      simp only [over, Bool.and_eq_true, bne_iff_ne] at hb
      obtain ⟨r, h1, h2⟩ := ih src' ha.2 hb.1.1.1.2
      refine Sym.false_of ?_ ?_
      · by_cases hn : n = n' <;> simp [valEq, hn, h1, pure, Except.pure, bind, Except.bind]
      · by_cases hn : n' = n <;> simp [valEq, hn, h2, pure, Except.pure, bind, Except.bind]
    | qubit n' src' idx' =>
      simp only [over, Bool.and_eq_true, bne_iff_ne] at hb
      obtain ⟨r, h1, _⟩ := ih src' ha.2 hb.1.2
      refine Sym.false_of ?_ (by simp [valEq, pure, Except.pure])
      by_cases hn : n = n' <;> simp [valEq, hn, h1, pure, Except.pure, bind, Except.bind]
    | _ => ff
  | regS n src st sp se ih ih1 ih2 ih3 =>
    intro b ha hb
    simp only [over, Bool.and_eq_true, bne_iff_ne] at ha
    obtain ⟨⟨⟨⟨hnf, hsrc⟩, hst⟩, hsp⟩, hse⟩ := ha
    cases b with
    | regF n' size' =>
      simp only [over, Bool.and_eq_true, beq_iff_eq] at hb
      obtain ⟨rfl, _⟩ := hb
      exact Sym.false_of (by simp [valEq, hnf, pure, Except.pure]) (valEq_regF_ne rfl (Ne.symm hnf))
    | regA n' src' =>
      simp only [over, Bool.and_eq_true, bne_iff_ne] at hb
      obtain ⟨r, h1, h2⟩ := ih src' hsrc hb.2
      refine Sym.false_of ?_ ?_
      · by_cases hn : n = n' <;> simp [valEq, hn, h1, pure, Except.pure, bind, Except.bind]
      · by_cases hn : n' = n <;> simp [valEq, hn, h2, pure, Except.pure, bind, Except.bind]
    | regS n' src' a' b' c' =>
      simp only [over, Bool.and_eq_true, bne_iff_ne] at hb
      obtain ⟨⟨⟨⟨_, hsrc'⟩, hst'⟩, hsp'⟩, hse'⟩ := hb
      by_cases hn : n = n'
      · subst hn
        obtain ⟨r0, h01, h02⟩ := ih src' hsrc hsrc'
        obtain ⟨r1, h11, h12⟩ := ih1 a' hst hst'
        obtain ⟨r2, h21, h22⟩ := ih2 b' hsp hsp'
        obtain ⟨r3, h31, h32⟩ := ih3 c' hse hse'
        refine ⟨r0 && r1 && r2 && r3, ?_, ?_⟩
        · cases r0 <;> cases r1 <;> cases r2 <;> cases r3 <;> simp [valEq, h01, h11, h21, h31]
        · cases r0 <;> cases r1 <;> cases r2 <;> cases r3 <;> simp [valEq, h02, h12, h22, h32]
      · exact Sym.false_of (by simp [valEq, hn, pure, Except.pure]) (by simp [valEq, Ne.symm hn, pure, Except.pure])
    | qubit n' src' idx' =>
      simp only [over, Bool.and_eq_true, bne_iff_ne] at hb
      obtain ⟨r, h1, _⟩ := ih src' hsrc hb.1.2
      refine Sym.false_of ?_ (by simp [valEq, pure, Except.pure])
      by_cases hn : n = n' <;> simp [valEq, hn, h1, pure, Except.pure, bind, Except.bind]
    | _ => ff

/-! ## statements -/

/-- two computations that both return, and return the same -/
def Agree (x y : M Bool) : Prop := ∃ r, x = .ok r ∧ y = .ok r

theorem Agree.andM {x x' y y' : M Bool} (h1 : Agree x x') (h2 : Agree y y') : Agree (andM x y) (andM x' y') := by
  obtain ⟨r1, rfl, rfl⟩ := h1
  obtain ⟨r2, rfl, rfl⟩ := h2
  cases r1 <;> simp [Agree]

theorem Agree.ok (r : Bool) : Agree (.ok r) (.ok r) := ⟨r, rfl, rfl⟩

theorem argsEq_symm (f : String) : ∀ as bs : List (String × Val),
    (as.all fun a => over f a.2) = true → (bs.all fun a => over f a.2) = true → Agree (argsEq as bs) (argsEq bs as)
  | [], [], _, _ => by simp [argsEq, Agree, pure, Except.pure]
  | a :: as, [], h, _ => by
    simp only [List.all_cons, Bool.and_eq_true] at h
    simp only [argsEq]
    exact Agree.andM (valEq_symm f a.2 .none h.1 rfl) (argsEq_symm f as [] h.2 rfl)
  | [], b :: bs, _, h => by
    simp only [List.all_cons, Bool.and_eq_true] at h
    simp only [argsEq]
    exact Agree.andM (valEq_symm f .none b.2 rfl h.1) (argsEq_symm f [] bs rfl h.2)
  | a :: as, b :: bs, h, h' => by
    simp only [List.all_cons, Bool.and_eq_true] at h h'
    simp only [argsEq]
    exact Agree.andM (valEq_symm f a.2 b.2 h.1 h'.1) (argsEq_symm f as bs h.2 h'.2)

mutual
  def overStmt (f : String) : Stmt → Bool
    | .gate _ _ args => args.all (fun a => over f a.2)
    | .block _ _ it body => over f it && overStmts f body
    | .loop c b => over f c && overStmt f b
  def overStmts (f : String) : List Stmt → Bool
    | [] => true
    | s :: rest => overStmt f s && overStmts f rest
end

mutual
  theorem stmtEq_symm (f : String) : ∀ s t : Stmt, overStmt f s = true → overStmt f t = true →
      Agree (stmtEq s t) (stmtEq t s)
    | .gate n _ args, .gate n' _ args', h, h' => by
      simp only [overStmt] at h h'
      simp only [stmtEq]
      by_cases hn : n = n'
      · subst hn; simpa using argsEq_symm f args args' h h'
      · have hn' : ¬ n' = n := fun e => hn e.symm
        simp [hn, hn', Agree, pure, Except.pure]
    | .gate .., .block .., _, _ => by simp [stmtEq, Agree, pure, Except.pure]
    | .gate .., .loop .., _, _ => by simp [stmtEq, Agree, pure, Except.pure]
    | .block .., .gate .., _, _ => by simp [stmtEq, Agree, pure, Except.pure]
    | .loop .., .gate .., _, _ => by simp [stmtEq, Agree, pure, Except.pure]
    | .block par sub it body, .block par' sub' it' body', h, h' => by
      simp only [overStmt, Bool.and_eq_true] at h h'
      simp only [stmtEq]
      by_cases hp : par = par' ∧ sub = sub'
      · obtain ⟨rfl, rfl⟩ := hp
        simp only [beq_self_eq_true, Bool.and_self, ↓reduceIte]
        refine Agree.andM (valEq_symm f it it' h.1 h'.1) ?_
        by_cases hl : body.length = body'.length
        · simpa [hl] using stmtsEq_symm f body body' h.2 h'.2
        · have hl' : ¬ body'.length = body.length := fun e => hl e.symm
          simp [hl, hl', Agree, pure, Except.pure]
      · have h1 : (par == par' && sub == sub') = false := by
          simp only [Bool.and_eq_false_imp, beq_iff_eq, beq_eq_false_iff_ne]
          intro e1 e2; exact hp ⟨e1, e2⟩
        have h2 : (par' == par && sub' == sub) = false := by
          simp only [Bool.and_eq_false_imp, beq_iff_eq, beq_eq_false_iff_ne]
          intro e1 e2; exact hp ⟨e1.symm, e2.symm⟩
        simp [h1, h2, Agree, pure, Except.pure]
    | .block par sub it body, .loop c b, h, h' => by
      simp only [overStmt, Bool.and_eq_true] at h h'
      obtain ⟨r, _, h2⟩ := valEq_symm f it c h.1 h'.1
      simp [stmtEq, h2, Agree, pure, Except.pure, bind, Except.bind]
    | .loop c b, .block par sub it body, h, h' => by
      simp only [overStmt, Bool.and_eq_true] at h h'
      obtain ⟨r, h1, _⟩ := valEq_symm f c it h.1 h'.1
      simp [stmtEq, h1, Agree, pure, Except.pure, bind, Except.bind]
    | .loop c b, .loop c' b', h, h' => by
      simp only [overStmt, Bool.and_eq_true] at h h'
      simp only [stmtEq]
      exact Agree.andM (valEq_symm f c c' h.1 h'.1) (stmtEq_symm f b b' h.2 h'.2)
  theorem stmtsEq_symm (f : String) : ∀ as bs : List Stmt, overStmts f as = true → overStmts f bs = true →
      Agree (stmtsEq as bs) (stmtsEq bs as)
    | [], [], _, _ => by simp [stmtsEq, Agree, pure, Except.pure]
    | [], _ :: _, _, _ => by simp [stmtsEq, Agree, pure, Except.pure]
    | _ :: _, [], _, _ => by simp [stmtsEq, Agree, pure, Except.pure]
    | a :: as, b :: bs, h, h' => by
      simp only [overStmts, Bool.and_eq_true] at h h'
      simp only [stmtsEq]
      exact Agree.andM (stmtEq_symm f a b h.1 h'.1) (stmtsEq_symm f as bs h.2 h'.2)
end

/-! ## dictionaries -/

theorem key_inj_of_nodup {α} (key : α → Option String) : ∀ (b : List α), (b.map key).Nodup →
    ∀ y ∈ b, ∀ y' ∈ b, key y = key y' → y = y'
  | [], _, y, hy, _, _, _ => by simp at hy
  | z :: zs, hnd, y, hy, y', hy', hk => by
    simp only [List.map_cons, List.nodup_cons] at hnd
    rcases List.mem_cons.mp hy with rfl | hy1 <;> rcases List.mem_cons.mp hy' with rfl | hy2
    · rfl
    · exact absurd (hk ▸ List.mem_map_of_mem hy2) hnd.1
    · exact absurd (hk ▸ List.mem_map_of_mem hy1) hnd.1
    · exact key_inj_of_nodup key zs hnd.2 y hy1 y' hy2 hk

/-- what the loop of `dict.__eq__` computes when no element comparison raises -/
theorem dictEq_go_spec {α} (key : α → Option String) (eq : α → α → M Bool) (b : List α)
    (hnd : (b.map key).Nodup) :
    ∀ a : List α, (∀ x ∈ a, ∀ y ∈ b, ∃ r, eq x y = .ok r) →
      ∃ r, dictEq.go key eq b a = .ok r ∧
        (r = true ↔ ∀ x ∈ a, ∃ y ∈ b, key y = key x ∧ eq x y = .ok true)
  | [], _ => ⟨true, rfl, by simp⟩
  | x :: xs, hok => by
    obtain ⟨r, hr, hspec⟩ := dictEq_go_spec key eq b hnd xs (fun x' hx' => hok x' (by simp [hx']))
    cases hf : b.find? (fun y => key y == key x) with
    | none =>
      refine ⟨false, by simp [dictEq.go, hf, pure, Except.pure], ?_⟩
      simp only [Bool.false_eq_true, false_iff]
      intro hall
      obtain ⟨y, hy, hk, _⟩ := hall x (by simp)
      exact absurd (by simpa using hk) (by simpa using List.find?_eq_none.mp hf y hy)
    | some y =>
      have hy : y ∈ b := List.mem_of_find?_eq_some hf
      have hky : key y = key x := by simpa using List.find?_some hf
      obtain ⟨r0, hr0⟩ := hok x (by simp) y hy
      refine ⟨r0 && r, by cases r0 <;> simp [dictEq.go, hf, hr0, hr], ?_⟩
      simp only [Bool.and_eq_true, List.mem_cons, forall_eq_or_imp]
      constructor
      · rintro ⟨rfl, hr'⟩
        exact ⟨⟨y, hy, hky, hr0⟩, hspec.mp hr'⟩
      · rintro ⟨⟨y', hy', hk', he'⟩, hrest⟩
        have : y' = y := key_inj_of_nodup key b hnd y' hy' y hy (hk'.trans hky.symm)
        subst this
        exact ⟨by rw [hr0] at he'; exact Except.ok.inj he', hspec.mpr hrest⟩

theorem keys_subset_symm {α} (key : α → Option String) (a b : List α) (hnda : (a.map key).Nodup)
    (hlen : a.length = b.length) (hsub : ∀ x ∈ a, ∃ y ∈ b, key y = key x) :
    ∀ y ∈ b, ∃ x ∈ a, key x = key y := by
  have hs : a.map key ⊆ b.map key := by
    intro k hk
    obtain ⟨x, hx, rfl⟩ := List.mem_map.mp hk
    obtain ⟨y, hy, hky⟩ := hsub x hx
    exact hky ▸ List.mem_map_of_mem hy
  have hperm : (a.map key).Perm (b.map key) :=
    (List.subperm_of_subset hnda hs).perm_of_length_le (by simp [hlen])
  intro y hy
  have : key y ∈ a.map key := hperm.mem_iff.mpr (List.mem_map_of_mem hy)
  obtain ⟨x, hx, hk⟩ := List.mem_map.mp this
  exact ⟨x, hx, hk⟩

theorem dictEq_symm {α} (key : α → Option String) (eq : α → α → M Bool) (a b : List α)
    (hnda : (a.map key).Nodup) (hndb : (b.map key).Nodup)
    (hag : ∀ x ∈ a, ∀ y ∈ b, Agree (eq x y) (eq y x)) :
    Agree (dictEq key eq a b) (dictEq key eq b a) := by
  by_cases hlen : a.length = b.length
  · have hlen' : b.length = a.length := hlen.symm
    have e1 : ¬ (a.length != b.length) = true := by simpa using hlen
    have e2 : ¬ (b.length != a.length) = true := by simpa using hlen'
    unfold dictEq
    rw [if_neg e1, if_neg e2]
    obtain ⟨r1, h1, s1⟩ := dictEq_go_spec key eq b hndb a (fun x hx y hy => by
      obtain ⟨r, h, _⟩ := hag x hx y hy; exact ⟨r, h⟩)
    obtain ⟨r2, h2, s2⟩ := dictEq_go_spec key eq a hnda b (fun y hy x hx => by
      obtain ⟨r, _, h⟩ := hag x hx y hy; exact ⟨r, h⟩)
    have flip : ∀ (a b : List α), (a.map key).Nodup → (b.map key).Nodup → a.length = b.length →
        (∀ x ∈ a, ∀ y ∈ b, Agree (eq x y) (eq y x)) →
        (∀ x ∈ a, ∃ y ∈ b, key y = key x ∧ eq x y = .ok true) →
        (∀ y ∈ b, ∃ x ∈ a, key x = key y ∧ eq y x = .ok true) := by
      intro a b hnda hndb hlen hag hall y hy
      obtain ⟨x, hx, hk⟩ := keys_subset_symm key a b hnda hlen
        (fun x hx => by obtain ⟨y, hy, hk, _⟩ := hall x hx; exact ⟨y, hy, hk⟩) y hy
      obtain ⟨y', hy', hk', he⟩ := hall x hx
      have : y' = y := key_inj_of_nodup key b hndb y' hy' y hy (hk'.trans hk)
      subst this
      obtain ⟨r, e1, e2⟩ := hag x hx y' hy
      rw [e1] at he
      exact ⟨x, hx, hk, by rw [e2]; exact he⟩
    have hiff : r1 = true ↔ r2 = true := by
      rw [s1, s2]
      constructor
      · exact flip a b hnda hndb hlen hag
      · exact flip b a hndb hnda hlen' (fun y hy x hx => by
          obtain ⟨r, e1, e2⟩ := hag x hx y hy; exact ⟨r, e2, e1⟩)
    refine ⟨r1, h1, ?_⟩
    rw [h2]
    cases r1 <;> cases r2 <;> simp_all
  · have hlen' : ¬ b.length = a.length := fun e => hlen e.symm
    have e1 : (a.length != b.length) = true := by simpa using hlen
    have e2 : (b.length != a.length) = true := by simpa using hlen'
    unfold dictEq
    rw [if_pos e1, if_pos e2]
    exact Agree.ok false

/-! ## circuits -/

/-- A circuit over one fundamental register `f`, as the parser builds it (`parse_jaqal_string` rejects a second
`register` statement): dictionaries have distinct keys; every fundamental register mentioned anywhere is `f`
and nothing else is called `f`; parameters in value positions are untyped; constants are numeric. -/
structure OverC (f : String) (c : Circuit) : Prop where
  constKeys : (c.constants.map Val.name?).Nodup
  regKeys : (c.registers.map Val.name?).Nodup
  macroKeys : (c.macros.map (fun m => some m.name)).Nodup
  nativeKeys : (c.natives.map (fun g => some g.name)).Nodup
  consts : ∀ v ∈ c.constants, over f v = true
  regs : ∀ v ∈ c.registers, over f v = true
  macros : ∀ m ∈ c.macros, overStmt f m.body = true
  body : overStmt f c.body = true
  regsNamed : ∀ n, Val.regA n .none ∉ c.registers

theorem Agree.eq {x y : M Bool} (h : Agree x y) : x = y := by
  obtain ⟨r, rfl, rfl⟩ := h; rfl

theorem listEqB_symm {α} (eq : α → α → Bool) (h : ∀ x y, eq x y = eq y x) :
    ∀ a b : List α, listEqB eq a b = listEqB eq b a
  | [], [] => rfl
  | [], _ :: _ => rfl
  | _ :: _, [] => rfl
  | x :: xs, y :: ys => by simp [listEqB, h x y, listEqB_symm eq h xs ys]

theorem paramsEq_symm (a b : List (String × Kind)) : paramsEq a b = paramsEq b a := beq_symm' a b

theorem macroEq_symm (f : String) (a b : Macro) (ha : overStmt f a.body = true) (hb : overStmt f b.body = true) :
    Agree (macroEq a b) (macroEq b a) := by
  unfold macroEq
  rw [beq_symm' b.name a.name, paramsEq_symm b.params a.params]
  split
  · exact stmtEq_symm f a.body b.body ha hb
  · exact Agree.ok false

theorem circuitEq_symm (f : String) (a b : Circuit) (ha : OverC f a) (hb : OverC f b) :
    circuitEq a b = circuitEq b a := by
  apply Agree.eq
  unfold circuitEq
  refine Agree.andM (dictEq_symm _ _ _ _ ha.constKeys hb.constKeys
    (fun x hx y hy => valEq_symm f x y (ha.consts x hx) (hb.consts y hy))) ?_
  refine Agree.andM (dictEq_symm _ _ _ _ ha.macroKeys hb.macroKeys
    (fun x hx y hy => macroEq_symm f x y (ha.macros x hx) (hb.macros y hy))) ?_
  refine Agree.andM (dictEq_symm _ _ _ _ ha.nativeKeys hb.nativeKeys
    (fun x _ y _ => by
      have : gateDefEq x y = gateDefEq y x := by
        unfold gateDefEq; rw [beq_symm' x.name, paramsEq_symm]
      simp [this, Agree, pure, Except.pure])) ?_
  refine Agree.andM (dictEq_symm _ _ _ _ ha.regKeys hb.regKeys
    (fun x hx y hy => valEq_symm f x y (ha.regs x hx) (hb.regs y hy))) ?_
  refine Agree.andM (stmtEq_symm f a.body b.body ha.body hb.body) ?_
  rw [listEqB_symm usepulsesEq (fun x y => by unfold usepulsesEq; rw [beq_symm' x.1, beq_symm' x.2])]
  exact Agree.ok _

/-- `dict.__eq__` returned `True`: every entry of `a` has an equal entry under the same key in `b` -/
theorem dictEq_go_true {α} (key : α → Option String) (eq : α → α → M Bool) (b : List α) :
    ∀ a : List α, dictEq.go key eq b a = .ok true → ∀ x ∈ a, ∃ y ∈ b, key y = key x ∧ eq x y = .ok true
  | [], _, x, hx => by simp at hx
  | z :: zs, h, x, hx => by
    simp only [dictEq.go] at h
    cases hf : b.find? (fun y => key y == key z) with
    | none => simp [hf, pure, Except.pure] at h
    | some y =>
      rw [hf] at h
      obtain ⟨h1, h2⟩ := andM_eq_true.mp h
      rcases List.mem_cons.mp hx with rfl | hx'
      · exact ⟨y, List.mem_of_find?_eq_some hf, by simpa using List.find?_some hf, h1⟩
      · exact dictEq_go_true key eq b zs h2 x hx'

theorem dictEq_true {α} {key : α → Option String} {eq : α → α → M Bool} {a b : List α}
    (h : dictEq key eq a b = .ok true) :
    a.length = b.length ∧ ∀ x ∈ a, ∃ y ∈ b, key y = key x ∧ eq x y = .ok true := by
  unfold dictEq at h
  by_cases hl : a.length = b.length
  · have e1 : ¬ (a.length != b.length) = true := by simpa using hl
    rw [if_neg e1] at h
    exact ⟨hl, dictEq_go_true key eq b a h⟩
  · have e1 : (a.length != b.length) = true := by simpa using hl
    rw [if_pos e1] at h
    simp [pure, Except.pure] at h

theorem circuitEq_true_regs {a b : Circuit} (h : circuitEq a b = .ok true) :
    dictEq Val.name? valEq a.registers b.registers = .ok true := by
  unfold circuitEq at h
  exact (andM_eq_true.mp (andM_eq_true.mp (andM_eq_true.mp (andM_eq_true.mp h).2).2).2).1

/-- circuits over DIFFERENT fundamental registers never compare equal (in either order: swap the roles) -/
theorem circuitEq_ne_of_fundamental_ne {f f' : String} {a b : Circuit} (ha : OverC f a) (hb : OverC f' b)
    (hne : f ≠ f') {s' : Val} (hfb : Val.regF f' s' ∈ b.registers) :
    circuitEq a b ≠ .ok true := by
  intro h
  obtain ⟨hlen, hall⟩ := dictEq_true (circuitEq_true_regs h)
  obtain ⟨x, hx, hk⟩ := keys_subset_symm Val.name? a.registers b.registers ha.regKeys hlen
    (fun x hx => by obtain ⟨y, hy, hk, _⟩ := hall x hx; exact ⟨y, hy, hk⟩) _ hfb
  obtain ⟨y', hy', hk', he⟩ := hall x hx
  have : y' = Val.regF f' s' := key_inj_of_nodup Val.name? b.registers hb.regKeys y' hy' _ hfb (hk'.trans hk)
  subst this
  have hov := ha.regs x hx
  -- `x` is called `f'`, so it is not the fundamental register of `a`; nothing else equals a fundamental register
  cases x with
  | regF n sz =>
    simp only [over, Bool.and_eq_true, beq_iff_eq] at hov
    simp only [Val.name?, Option.some.injEq] at hk
    exact hne (hov.1 ▸ hk)
  | regA n src =>
    simp only [Val.name?, Option.some.injEq] at hk
    subst hk
    have hsrc : src ≠ .none := fun e => ha.regsNamed n (e ▸ hx)
    simp only [valEq, beq_self_eq_true, ↓reduceIte] at he
    cases src <;> first | exact hsrc rfl | simp [valEq, Val.name?, pure, Except.pure] at he
  | regS n src a b c =>
    by_cases hn : n = f' <;> simp [valEq, hn, pure, Except.pure, bind, Except.bind] at he
    cases hv : valEq src Val.none <;> simp [hv] at he
  | _ => simp [valEq, pure, Except.pure] at he

end Jaqal.PyEq
