import JaqalProofs.Lemmas.BuiltTyped
import JaqalProofs.Lemmas.GrammarShape
import JaqalProofs.Props.C07
/-!
# Parameter scoping and block bodies of a circuit built from text

`built_scoped : GrammarSx e → build cfg e = .ok c → ScopedC c`:
* no parameter occurs in the body of the circuit; the parameters occurring in the body of a macro are the macro's own
  (`ParIn`: a gate argument that is a parameter, or a qubit whose source or index is one; loop counts);
* the body of every loop is a block (the grammar has `LOOP let_or_int gate_block`; `GrammarSx`, `Lemmas/GrammarShape.lean`).

The induction is done WITHOUT the gate memo (`buildNoMemo`, mode `off`): a memoised statement is shared between scopes, so a
memo invariant cannot speak about one scope; `C07_memo_transparent` (`build = buildNoMemo`) transfers the result.
-/
namespace Jaqal.Builder
open Jaqal Jaqal.FillIn

/-! ### Scoped values -/

def parOK (S : String → Bool) : Val → Bool
  | .param n _ => S n
  | _ => true

/-- the parameters that occur in the value (as the value itself, or as the source / the index of a qubit) satisfy `S` -/
def ParIn (S : String → Bool) : Val → Bool
  | .qubit _ src idx => parOK S src && parOK S idx
  | v => parOK S v

mutual
  def ScS (S : String → Bool) : Stmt → Prop
    | .gate _ _ args => ∀ a ∈ args, ParIn S a.2 = true
    | .block _ _ _ body => ScSL S body
    | .loop c b => parOK S c = true ∧ (∃ par sub it bb, b = .block par sub it bb) ∧ ScS S b
  def ScSL (S : String → Bool) : List Stmt → Prop
    | [] => True
    | s :: r => ScS S s ∧ ScSL S r
end

def CtxS (S : String → Bool) (ctx : Ctx) : Prop := ∀ n v, ctx.get n = some v → parOK S v = true

/-- a context value (typed: `ValT`) whose parameter, if it is one, is in scope -/
theorem ctxval_parIn {S : String → Bool} {v : Val} (ht : ValT v = true) (hp : parOK S v = true) : ParIn S v = true := by
  cases v with
  | qubit n s i =>
    simp only [ValT, Bool.and_eq_true] at ht
    have h1 : parOK S s = true := by cases s <;> simp [RegT] at ht <;> rfl
    have h2 : parOK S i = true := by
      have := ht.2
      cases i <;> simp [isIntC] at this <;> rfl
    simp [ParIn, h1, h2]
  | _ => simpa [ParIn] using hp

theorem idx_parOK {S : String → Bool} {ctx : Ctx} (hs : CtxS S ctx) {v : Val} (h : IdxOK ctx v) : parOK S v = true := by
  rcases h with ⟨i, rfl⟩ | ⟨n, hn⟩
  · rfl
  · exact hs n v hn

theorem buildVal_intOrId_scoped {S : String → Bool} {ctx : Ctx} (hs : CtxS S ctx) {f : Nat} {e : BSx}
    (he : isIntOrId e = true) {v : Val} (h : buildVal ctx f e = .ok v) : parOK S v = true :=
  idx_parOK hs ((buildVal_intOrId (ctx := ctx) (f := f) he).2 v h)

theorem buildVal_gateArg_scoped {S : String → Bool} {ctx : Ctx} (hc : CtxT ctx) (hs : CtxS S ctx) {f : Nat} {a : BSx}
    (ha : isGateArg a = true) {v : Val} (h : buildVal ctx f a = .ok v) : ParIn S v = true := by
  cases a with
  | str s =>
    have : buildVal ctx f (.str s) = lookupId ctx s := by cases f <;> rfl
    rw [this] at h
    unfold lookupId at h
    cases hg : ctx.get s with
    | none => simp [hg, throw_eq] at h
    | some w => simp only [hg, pure, Except.pure] at h; cases h; exact ctxval_parIn (hc s _ hg) (hs s _ hg)
  | int i => have : buildVal ctx f (.int i) = .ok (.int i) := by cases f <;> rfl
             rw [this] at h; cases h; rfl
  | flt d => have : buildVal ctx f (.flt d) = .ok (.flt d) := by cases f <;> rfl
             rw [this] at h; cases h; rfl
  | none => simp [isGateArg] at ha
  | val _ => simp [isGateArg] at ha
  | list l =>
    cases f with
    | zero => simp [buildVal, throw_eq] at h
    | succ f =>
      have h' : valStep ctx.get (buildVal ctx f) l = .ok v := h
      unfold isGateArg at ha
      split at ha
      · rename_i heq; cases heq
      · rename_i heq; cases heq
      · rename_i heq; cases heq
      · rename_i an idxE heq
        cases heq
        simp only [valStep, show ("array_item" = "register") = False from by decide,
          show ("array_item" = "let") = False from by decide, if_false, if_true] at h'
        have hA : buildVal ctx f (.str an) = lookupId ctx an := by cases f <;> rfl
        rw [hA] at h'
        unfold lookupId at h'
        cases hg : ctx.get an with
        | none => simp [hg, throw_eq, bind, Except.bind] at h'
        | some arr =>
          simp only [hg, pure_bind] at h'
          obtain ⟨iv, hiv, h'⟩ := bind_ok h'
          have hidx := (buildVal_intOrId (ctx := ctx) (f := f) ha).2 iv hiv
          rw [asIntegerV_idx hc hidx] at h'
          by_cases hr : (!(isRegister arr || isParam arr)) = true
          · simp [hr, throw_eq, bind, Except.bind] at h'
          · simp only [hr, Bool.false_eq_true, if_false] at h'
            have hq : ∃ nm, v = .qubit nm arr iv := by
              unfold getItem at h'
              split at h'
              · simp [throw_eq] at h'
              · split at h'
                · exact ⟨_, mkQubit_eq h'⟩
                · obtain ⟨_, _, h'⟩ := bind_ok h'
                  simp [throw_eq] at h'
            obtain ⟨nm, rfl⟩ := hq
            simp [ParIn, hs an arr hg, idx_parOK hs hidx]
      · cases ha

/-! ### Statements (no memo) -/

/-- on success the object is a scoped statement -/
def ScPost (S : String → Bool) (r : M (Obj × St)) : Prop := ∀ o s1, r = .ok (o, s1) → ∃ s, o = .stmt s ∧ ScS S s

theorem callDef_scoped {S : String → Bool} {gd : GateDef} {vals : List Val} {s : Stmt} (h : callDef gd vals = .ok s)
    (hv : ∀ v ∈ vals, ParIn S v = true) : ScS S s := by
  obtain ⟨args, rfl, hvals, _, _⟩ := callDef_full h
  intro a ha
  exact hv a.2 (by rw [← hvals]; exact List.mem_map_of_mem ha)

theorem buildGate_scoped {S : String → Bool} {cfg : Config} {ctx : Ctx} (hc : CtxT ctx) (hs : CtxS S ctx) {f : Nat}
    {name : String} {gargs : List BSx} (hg : ∀ a ∈ gargs, isGateArg a = true) {st st1 : St} {s : Stmt}
    (h : buildGate cfg .off ctx (buildVal ctx f) (.str name :: gargs) st = .ok (s, st1)) : ScS S s := by
  simp only [buildGate] at h
  obtain ⟨_, _, h⟩ := bind_ok h
  unfold buildGateMemo at h
  simp only [if_true] at h
  obtain ⟨p, hb, h1⟩ := bind_ok h
  obtain ⟨s', g'⟩ := p
  cases h1
  obtain ⟨e, _, _, hcall⟩ := buildGateFresh_ok hb
  obtain ⟨vals, hm, hcd⟩ := bind_ok hcall
  refine callDef_scoped hcd (fun v hv => ?_)
  obtain ⟨x, hx, hxv⟩ := mapM_ok hm v hv
  exact buildVal_gateArg_scoped hc hs (hg x hx) hxv

theorem asStmts_scoped {S : String → Bool} : ∀ {os : List Obj} {ss : List Stmt}, asStmts os = .ok ss →
    (∀ o ∈ os, ∃ s, o = .stmt s ∧ ScS S s) → ScSL S ss := by
  intro os
  induction os with
  | nil => intro ss h _; simp [asStmts, pure, Except.pure] at h; subst h; trivial
  | cons o os ih =>
    intro ss h ho
    cases o with
    | stmt s0 =>
      simp only [asStmts] at h
      obtain ⟨r, hr, h1⟩ := bind_ok h
      cases h1
      obtain ⟨s, hs, hin⟩ := ho (.stmt s0) (by simp)
      cases hs
      exact ⟨hin, ih hr (fun o' ho' => ho o' (by simp [ho']))⟩
    | _ => simp [asStmts, throw_eq] at h

theorem mapMSt_scoped {S : String → Bool} {fA : BSx → St → M (Obj × St)} : ∀ (l : List BSx) (st st1 : St) (os : List Obj),
    (∀ x ∈ l, ∀ s, ScPost S (fA x s)) → mapMSt fA l st = .ok (os, st1) → ∀ o ∈ os, ∃ s, o = .stmt s ∧ ScS S s := by
  intro l
  induction l with
  | nil =>
    intro st st1 os _ h
    simp only [mapMSt, pure, Except.pure] at h
    cases h
    intro o ho; cases ho
  | cons x xs ih =>
    intro st st1 os hf h
    simp only [mapMSt] at h
    obtain ⟨p, hp, h1⟩ := bind_ok h
    obtain ⟨o, s1⟩ := p
    obtain ⟨q, hq, h2⟩ := bind_ok h1
    obtain ⟨os', s2⟩ := q
    cases h2
    intro o' ho'
    rcases List.mem_cons.1 ho' with rfl | ho'
    · exact hf x (by simp) st o' s1 hp
    · exact ih s1 _ os' (fun y hy => hf y (by simp [hy])) hq o' ho'

theorem block_scoped {S : String → Bool} {fA : BSx → St → M (Obj × St)} {l : List BSx} {st : St} {par sub : Bool} {it : Val}
    (h : ∀ x ∈ l, ∀ s, ScPost S (fA x s)) :
    ScPost S (mapMSt fA l st >>= fun p => do
      let ss ← asStmts p.1
      pure (Obj.stmt (Stmt.block par sub it ss), p.2)) := by
  intro o s1 hr
  obtain ⟨p, hp, h2⟩ := bind_ok hr
  obtain ⟨os, s2⟩ := p
  obtain ⟨ss, hss, h3⟩ := bind_ok h2
  simp only [pure, Except.pure, Except.ok.injEq, Prod.mk.injEq] at h3
  obtain ⟨rfl, rfl⟩ := h3
  exact ⟨_, rfl, asStmts_scoped hss (mapMSt_scoped l st s2 os h hp)⟩

theorem ctxS_flags {S : String → Bool} {ctx : Ctx} (hc : CtxS S ctx) (a b c : Bool) :
    CtxS S { ctx with inSeq := a, inPar := b, inSub := c } := fun n v hv => hc n v hv

/-- a block expression is built to a block statement -/
theorem buildAny_blockE {cfg : Config} {mode : KeyMode} {f : Nat} {ctx : Ctx} {b : BSx} {st s1 : St} {o : Obj}
    (hb : isBlockE b = true) (h : buildAny cfg mode f ctx b st = .ok (o, s1)) :
    ∃ par sub it bb, o = .stmt (.block par sub it bb) := by
  cases b with
  | list l =>
    cases l with
    | nil => simp [isBlockE] at hb
    | cons hd args =>
      cases hd with
      | str cmd =>
        cases f with
        | zero => simp [buildAny, throw_eq] at h
        | succ f =>
          have h' : anyStep cfg mode (buildAny cfg mode f) (buildVal ctx f) ctx (.str cmd :: args) st = .ok (o, s1) := h
          simp only [isBlockE, Bool.or_eq_true, decide_eq_true_eq] at hb
          rcases hb with rfl | rfl
          · simp only [anyStep, show ("sequential_block" = "gate") = False from by decide, if_false, if_true, true_or] at h'
            obtain ⟨p, _, h'⟩ := bind_ok h'
            obtain ⟨ss, _, h'⟩ := bind_ok h'
            simp only [pure, Except.pure, Except.ok.injEq, Prod.mk.injEq] at h'
            exact ⟨_, _, _, _, h'.1.symm⟩
          · simp only [anyStep, show ("parallel_block" = "gate") = False from by decide, if_false,
              show ("parallel_block" = "sequential_block" ∨ "parallel_block" = "block") = False from by decide,
              if_true] at h'
            obtain ⟨p, _, h'⟩ := bind_ok h'
            obtain ⟨ss, _, h'⟩ := bind_ok h'
            simp only [pure, Except.pure, Except.ok.injEq, Prod.mk.injEq] at h'
            exact ⟨_, _, _, _, h'.1.symm⟩
      | _ => simp [isBlockE] at hb
  | _ => simp [isBlockE] at hb

/-- **statements** -/
theorem buildAny_scoped (S : String → Bool) (cfg : Config) : ∀ (f : Nat) (ctx : Ctx) (e : BSx) (st : St), CtxT ctx → CtxS S ctx →
    isGStmt e = true → ScPost S (buildAny cfg .off f ctx e st) := by
  intro f
  induction f with
  | zero =>
    intro ctx e st _ _ h
    cases e with
    | list l => intro o s1 hr; simp [buildAny, throw_eq] at hr
    | _ => simp [isGStmt] at h
  | succ f ih =>
    intro ctx e st hc hs h
    cases e with
    | list l =>
      show ScPost S (anyStep cfg .off (buildAny cfg .off f) (buildVal ctx f) ctx l st)
      unfold isGStmt at h
      split at h
      · rename_i cmd args heq
        cases heq
        by_cases h1 : cmd = "gate"
        · subst h1
          simp only [if_true] at h
          split at h
          · rename_i name gargs
            have hg : ∀ a ∈ gargs, isGateArg a = true := by simpa [List.all_eq_true] using h
            simp only [anyStep, if_true]
            intro o s1 hr
            obtain ⟨p, hp, h2⟩ := bind_ok hr
            obtain ⟨s, st'⟩ := p
            simp only [pure, Except.pure, Except.ok.injEq, Prod.mk.injEq] at h2
            obtain ⟨rfl, rfl⟩ := h2
            exact ⟨_, rfl, buildGate_scoped hc hs hg hp⟩
          · cases h
        simp only [h1, if_false] at h
        by_cases h2 : cmd = "loop"
        · subst h2
          simp only [if_true] at h
          split at h
          · rename_i count block
            simp only [Bool.and_eq_true] at h
            simp only [anyStep, show ("loop" = "gate") = False from by decide,
              show ("loop" = "sequential_block" ∨ "loop" = "block") = False from by decide,
              show ("loop" = "parallel_block") = False from by decide,
              show ("loop" = "unscheduled_block") = False from by decide,
              show ("loop" = "subcircuit_block") = False from by decide, if_false, if_true]
            intro o s1 hr
            obtain ⟨cnt, hcnt, h3⟩ := bind_ok hr
            obtain ⟨p, hp, h4⟩ := bind_ok h3
            obtain ⟨o', s2⟩ := p
            obtain ⟨s, rfl, hsc⟩ := ih ctx block st hc hs h.2 o' s2 hp
            obtain ⟨par, sub, it, bb, hblk⟩ := buildAny_blockE h.1.2 hp
            cases hblk
            obtain ⟨_, _, h5⟩ := bind_ok h4
            simp only [pure, Except.pure, Except.ok.injEq, Prod.mk.injEq] at h5
            obtain ⟨rfl, rfl⟩ := h5
            exact ⟨_, rfl, buildVal_intOrId_scoped hs h.1.1 hcnt, ⟨_, _, _, _, rfl⟩, hsc⟩
          · cases h
        simp only [h2, if_false] at h
        by_cases h3 : cmd = "sequential_block" ∨ cmd = "parallel_block"
        · simp only [h3, if_true] at h
          have hmem : ∀ x ∈ args, ∀ (c : Ctx), CtxT c → CtxS S c → ∀ s, ScPost S (buildAny cfg .off f c x s) :=
            fun x hx c hcc hcs s => ih c x s hcc hcs (isGStmts_mem h x hx)
          rcases h3 with h3 | h3
          · subst h3
            simp only [anyStep, show ("sequential_block" = "gate") = False from by decide, if_false,
              if_true, true_or]
            exact block_scoped (fun x hx s => hmem x hx _ (ctxT_flags hc true ctx.inPar ctx.inSub)
              (ctxS_flags hs true ctx.inPar ctx.inSub) s)
          · subst h3
            simp only [anyStep, show ("parallel_block" = "gate") = False from by decide, if_false,
              show ("parallel_block" = "sequential_block" ∨ "parallel_block" = "block") = False from by decide,
              if_true]
            exact block_scoped (fun x hx s => hmem x hx _ (ctxT_flags hc ctx.inSeq true ctx.inSub)
              (ctxS_flags hs ctx.inSeq true ctx.inSub) s)
        simp only [h3, if_false] at h
        by_cases h4 : cmd = "subcircuit_block"
        · subst h4
          simp only [if_true] at h
          split at h
          · rename_i count stmts
            simp only [Bool.and_eq_true] at h
            have hkids : ∀ x ∈ stmts, ∀ s, ScPost S (buildAny cfg .off f { ctx with inSub := true } x s) :=
              fun x hx s => ih _ x s (ctxT_flags hc ctx.inSeq ctx.inPar true) (ctxS_flags hs ctx.inSeq ctx.inPar true)
                (isGStmts_mem h.2 x hx)
            simp only [anyStep, show ("subcircuit_block" = "gate") = False from by decide, if_false,
              show ("subcircuit_block" = "sequential_block" ∨ "subcircuit_block" = "block") = False from by decide,
              show ("subcircuit_block" = "parallel_block") = False from by decide,
              show ("subcircuit_block" = "unscheduled_block") = False from by decide, if_true, List.tail_cons]
            by_cases hflag : (ctx.inSub || ctx.inPar) = true
            · simp only [hflag, if_true]
              intro o s1 hr; cases hr
            · simp only [hflag, Bool.false_eq_true, if_false]
              intro o s1 hr
              obtain ⟨p, hp, h5⟩ := bind_ok hr
              obtain ⟨os, s2⟩ := p
              obtain ⟨cnt, _, h6⟩ := bind_ok h5
              obtain ⟨_, _, h7⟩ := bind_ok h6
              obtain ⟨ss, hss, h8⟩ := bind_ok h7
              simp only [pure, Except.pure, Except.ok.injEq, Prod.mk.injEq] at h8
              obtain ⟨rfl, rfl⟩ := h8
              exact ⟨_, rfl, asStmts_scoped hss (mapMSt_scoped stmts st s2 os hkids hp)⟩
          · cases h
        · simp [h4] at h
      · cases h
    | _ => simp [isGStmt] at h

/-! ### `rebuild_macro_in_context` -/

mutual
theorem rebuildStmt_scoped (S : String → Bool) (g : GCtx) : ∀ (s : Stmt) (ch : Bool) (s' : Stmt),
    rebuildStmt g s = .ok (ch, s') → ScS S s → ScS S s' ∧ ((∃ a b c d, s = .block a b c d) → ∃ a b c d, s' = .block a b c d)
  | .gate name gd args, ch, s', h, hs => by
    refine ⟨?_, fun ⟨a, b, c, d, hh⟩ => by cases hh⟩
    simp only [rebuildStmt] at h
    split at h
    · split at h
      · split at h
        · cases h; exact hs
        · simp [throw_eq] at h
      · obtain ⟨s2, hcall, h2⟩ := bind_ok h
        cases h2
        refine callDef_scoped hcall (fun v hv => ?_)
        obtain ⟨a, ha, rfl⟩ := List.mem_map.1 hv
        exact hs a ha
    · cases h; exact hs
  | .block par sub it body, ch, s', h, hs => by
    simp only [rebuildStmt] at h
    obtain ⟨p, hp, h2⟩ := bind_ok h
    obtain ⟨c, body'⟩ := p
    simp only [ScS] at hs
    have := rebuildList_scoped S g body c body' hp hs
    split at h2
    · cases h2; exact ⟨this, fun _ => ⟨_, _, _, _, rfl⟩⟩
    · cases h2; exact ⟨hs, fun _ => ⟨_, _, _, _, rfl⟩⟩
  | .loop c b, ch, s', h, hs => by
    refine ⟨?_, fun ⟨a, b, c, d, hh⟩ => by cases hh⟩
    simp only [rebuildStmt] at h
    obtain ⟨p, hp, h2⟩ := bind_ok h
    obtain ⟨c1, b'⟩ := p
    obtain ⟨h1, hblk, h3⟩ := hs
    have := rebuildStmt_scoped S g b c1 b' hp h3
    split at h2
    · cases h2; exact ⟨h1, this.2 hblk, this.1⟩
    · cases h2; exact ⟨h1, hblk, h3⟩
theorem rebuildList_scoped (S : String → Bool) (g : GCtx) : ∀ (l : List Stmt) (ch : Bool) (l' : List Stmt),
    rebuildList g l = .ok (ch, l') → ScSL S l → ScSL S l'
  | [], ch, l', h, _ => by simp only [rebuildList, pure, Except.pure] at h; cases h; trivial
  | s :: ss, ch, l', h, hs => by
    simp only [rebuildList] at h
    obtain ⟨p, hp, h2⟩ := bind_ok h
    obtain ⟨c1, s'⟩ := p
    obtain ⟨q, hq, h3⟩ := bind_ok h2
    obtain ⟨c2, ss'⟩ := q
    cases h3
    exact ⟨(rebuildStmt_scoped S g s c1 _ hp hs.1).1, rebuildList_scoped S g ss c2 ss' hq hs.2⟩
end

theorem rebuildMacro_scoped {S : String → Bool} {g : GCtx} {m m' : Macro} (h : rebuildMacro g m = .ok m')
    (hm : ScS S m.body) : ScS S m'.body ∧ m'.params = m.params := by
  unfold rebuildMacro at h
  obtain ⟨p, hp, h2⟩ := bind_ok h
  obtain ⟨ch, b⟩ := p
  have := (rebuildStmt_scoped S g m.body ch b hp hm).1
  simp only [pure, Except.pure] at h2
  cases h2
  split
  · exact ⟨this, rfl⟩
  · exact ⟨hm, rfl⟩

/-! ### Top-level children -/

def noPar : String → Bool := fun _ => false
def inNames (ps : List (String × Kind)) : String → Bool := fun n => decide (n ∈ ps.map (·.1))

/-- what a header statement is built to -/
theorem buildAny_header_obj {cfg : Config} {mode : KeyMode} {f : Nat} {ctx : Ctx} {c : BSx} {st s1 : St} {o : Obj}
    (ht : TopT ctx) (hh : isPHeader c = true) (hd : c.depth ≤ f) (h : buildAny cfg mode f ctx c st = .ok (o, s1)) :
    s1 = st ∧ ((∃ v, o = .val v ∧ ValT v = true ∧ isParam v = false) ∨ ∃ n, o = .usepulses n) := by
  unfold isPHeader at hh
  by_cases hv : isPHeaderV c = true
  · cases c with
    | list l =>
      cases f with
      | zero => simp [BSx.depth] at hd
      | succ f =>
        have hp := valStep_header (f := f) ht hv
        have hfall : anyStep cfg mode (buildAny cfg mode f) (buildVal ctx f) ctx l st =
            (valStep ctx.get (buildVal ctx f) l >>= fun v => pure (Obj.val v, st)) := by
          unfold isPHeaderV at hv
          split at hv <;> first
            | (rename_i heq; cases heq; simp [anyStep])
            | cases hv
        have h' : anyStep cfg mode (buildAny cfg mode f) (buildVal ctx f) ctx l st = .ok (o, s1) := h
        rw [hfall] at h'
        obtain ⟨v, hvv, h2⟩ := bind_ok h'
        cases h2
        exact ⟨rfl, Or.inl ⟨v, rfl, (hp.2 v hvv).1, (hp.2 v hvv).2⟩⟩
    | _ => simp [isPHeaderV] at hv
  · simp only [hv, Bool.false_or] at hh
    split at hh
    · rename_i n'
      cases f with
      | zero => simp [BSx.depth] at hd
      | succ f =>
        have : buildAny cfg mode (f+1) ctx (.list [.str "usepulses", .str n', .str "*"]) st
            = .ok (.usepulses n', st) := by
          show anyStep cfg mode (buildAny cfg mode f) (buildVal ctx f) ctx [.str "usepulses", .str n', .str "*"] st = _
          simp [anyStep, isStar, pure, Except.pure]
        rw [this] at h
        cases h
        exact ⟨rfl, Or.inr ⟨n', rfl⟩⟩
    · cases hh

theorem withParams_ctxS {ctx : Ctx} (ht : TopT ctx) (ps : List (String × Kind)) : CtxS (inNames ps) (ctx.withParams ps) := by
  intro n v h
  simp only [Ctx.get, Ctx.withParams] at h
  rcases lookup_append_some h with h1 | h1
  · -- one of the parameters
    have : ∀ (l : List (String × Kind)),
        (l.map (fun p => (p.1, Val.param p.1 p.2))).lookup n = some v → ∃ q ∈ l, v = .param q.1 q.2 := by
      intro l
      induction l with
      | nil => intro h; simp at h
      | cons q qs ih =>
        intro h
        simp only [List.map_cons, List.lookup] at h
        by_cases hkk : (n == q.1) = true
        · simp only [hkk, Option.some.injEq] at h
          exact ⟨q, by simp, h.symm⟩
        · simp only [hkk] at h
          obtain ⟨q', hq', hv⟩ := ih h
          exact ⟨q', by simp [hq'], hv⟩
    obtain ⟨q, hq, rfl⟩ := this ps.reverse h1
    simp only [parOK, inNames, decide_eq_true_eq]
    exact List.mem_map_of_mem (by simpa using hq)
  · have := (ht n v h1).2
    cases v <;> simp [isParam] at this <;> rfl

/-- the typed, scoped object a top-level child is built to (no memo) -/
def ChildSc (st : St) (o : Obj) (s1 : St) : Prop :=
  (∃ v, o = .val v ∧ ValT v = true ∧ isParam v = false ∧ s1 = st) ∨ (∃ n, o = .usepulses n ∧ s1 = st) ∨
  (∃ s, o = .stmt s ∧ ScS noPar s) ∨
  (∃ m, o = .macro m ∧ ScS (inNames m.params) m.body)

theorem buildAny_child_scoped {cfg : Config} {f : Nat} {ctx : Ctx} {c : BSx} {st s1 : St} {o : Obj}
    (ht : TopT ctx) (hshape : GChild c) (hd : c.depth ≤ f)
    (h : buildAny cfg .off f ctx c st = .ok (o, s1)) : ChildSc st o s1 := by
  have htS : CtxS noPar ctx := by
    intro n v hv
    have := (ht n v hv).2
    cases v <;> simp [isParam] at this <;> rfl
  rcases hshape with hh | hb | ⟨xs, rfl⟩
  · obtain ⟨rfl, hv | hn⟩ := buildAny_header_obj ht hh hd h
    · obtain ⟨v, rfl, h1, h2⟩ := hv
      exact Or.inl ⟨v, rfl, h1, h2, rfl⟩
    · obtain ⟨n, rfl⟩ := hn
      exact Or.inr (Or.inl ⟨n, rfl, rfl⟩)
  · have hstmt : isGStmt c = true → ChildSc st o s1 := by
      intro hs
      obtain ⟨s, rfl, hin⟩ := buildAny_scoped noPar cfg f ctx c st ht.ctxT htS hs o s1 h
      exact Or.inr (Or.inr (Or.inl ⟨s, rfl, hin⟩))
    unfold isGBody at hb
    split at hb
    · rename_i n rest
      simp only [Bool.and_eq_true] at hb
      cases f with
      | zero => simp [BSx.depth] at hd
      | succ f =>
        have h' : anyStep cfg .off (buildAny cfg .off f) (buildVal ctx f) ctx (.str "macro" :: .str n :: rest) st
            = .ok (o, s1) := h
        simp only [anyStep, show ("macro" = "gate") = False from by decide, if_false,
          show ("macro" = "sequential_block" ∨ "macro" = "block") = False from by decide,
          show ("macro" = "parallel_block") = False from by decide,
          show ("macro" = "unscheduled_block") = False from by decide,
          show ("macro" = "subcircuit_block") = False from by decide,
          show ("macro" = "loop") = False from by decide,
          show ("macro" = "case") = False from by decide,
          show ("macro" = "branch") = False from by decide, if_true] at h'
        by_cases hlen : (List.length (BSx.str n :: rest)) < 2
        · simp only [hlen, if_true] at h'
          simp [throw_eq] at h'
        · simp only [hlen, if_false, strOf, pure_bind] at h'
          by_cases hdef : (List.lookup n st.gctx).isSome = true
          · simp only [if_pos hdef] at h'
            simp [throw_eq, bind, Except.bind] at h'
          · simp only [if_neg hdef] at h'
            obtain ⟨ps, hps, hk⟩ := mapM_macroParam _ hb.1
            simp only [hps, bind, Except.bind] at h'
            cases hlast : rest.getLast? with
            | none => simp [hlast] at hb
            | some blockE =>
              simp only [hlast, Bool.and_eq_true] at hb h'
              cases hr2 : buildAny cfg .off f (ctx.withParams ps) blockE st with
              | error e' => rw [hr2] at h'; cases h'
              | ok p =>
                rw [hr2] at h'
                simp only [] at h'
                obtain ⟨o', s2⟩ := p
                obtain ⟨s, rfl, hin⟩ := buildAny_scoped (inNames ps) cfg f (ctx.withParams ps) blockE st
                  (withParams_ctxT ht.ctxT hk) (withParams_ctxS ht ps) hb.2.2 o' s2 hr2
                split at h'
                · rename_i par sub it body hbeq
                  simp only [pure, Except.pure, Except.ok.injEq, Prod.mk.injEq] at h'
                  obtain ⟨rfl, rfl⟩ := h'
                  cases hbeq
                  exact Or.inr (Or.inr (Or.inr ⟨_, rfl, hin⟩))
                · cases h'
    · exact hstmt hb
  · -- a branch statement is always refused
    exfalso
    cases f with
    | zero => simp [buildAny, throw_eq] at h
    | succ f =>
      have h' : anyStep cfg .off (buildAny cfg .off f) (buildVal ctx f) ctx (.str "branch" :: xs) st = .ok (o, s1) := h
      simp only [anyStep, show ("branch" = "gate") = False from by decide, if_false,
        show ("branch" = "sequential_block" ∨ "branch" = "block") = False from by decide,
        show ("branch" = "parallel_block") = False from by decide,
        show ("branch" = "unscheduled_block") = False from by decide,
        show ("branch" = "subcircuit_block") = False from by decide,
        show ("branch" = "loop") = False from by decide,
        show ("branch" = "case") = False from by decide, if_true] at h'
      obtain ⟨p, _, h6⟩ := bind_ok h'
      cases h6

/-! ### The loop of `build_circuit` (no memo) -/

structure ScInv (acc : Acc) : Prop where
  top : TopT acc.ctx
  stmts : ∀ s ∈ acc.stmts, ScS noPar s
  macros : ∀ m ∈ acc.macros, ScS (inNames m.params) m.body

theorem stepTail_scoped {cfg : Config} {mode : KeyMode} {inject : Option (List (String × GateDef))} {acc a1 : Acc}
    {o : Obj} {st : St} (ha : ScInv acc) (ho : ChildSc acc.st o st) (h : stepTail cfg mode inject acc o st = .ok a1) :
    ScInv a1 := by
  have htop : TopT a1.ctx := by
    refine stepTail_topT ha.top ?_ h
    intro v hv
    rcases ho with ⟨v', hv', h1, h2, _⟩ | ⟨n, hn, _⟩ | ⟨s, hs, _⟩ | ⟨m, hm, _⟩
    · rw [hv] at hv'; cases hv'; exact ⟨h1, h2⟩
    · rw [hv] at hn; cases hn
    · rw [hv] at hs; cases hs
    · rw [hv] at hm; cases hm
  rcases ho with ⟨v, rfl, hvt, hvp, rfl⟩ | ⟨n, rfl, rfl⟩ | ⟨s, rfl, hs⟩ | ⟨m, rfl, hmb⟩
  · refine ⟨htop, ?_, ?_⟩ <;>
      (cases v <;> simp only [stepTail, throw_eq] at h <;> first
        | cases h
        | (obtain ⟨c, _, h2⟩ := bind_ok h
           cases h2
           first
             | exact ha.stmts
             | exact ha.macros))
  · simp only [stepTail] at h
    by_cases hauto : cfg.autoload = true
    · simp only [hauto, if_true] at h
      split at h
      · simp [throw_eq] at h
      · split at h
        · cases h
        · simp only [pure, Except.pure] at h
          cases h
          exact ⟨htop, ha.stmts, ha.macros⟩
    · simp only [hauto, Bool.false_eq_true, if_false, pure, Except.pure] at h
      cases h
      exact ⟨htop, ha.stmts, ha.macros⟩
  · simp only [stepTail, pure, Except.pure] at h
    cases h
    refine ⟨htop, ?_, ha.macros⟩
    intro x hx
    rcases List.mem_append.1 hx with hx | hx
    · exact ha.stmts x hx
    · simp only [List.mem_singleton] at hx; subst hx; exact hs
  · simp only [stepTail] at h
    obtain ⟨m', hm', h2⟩ := bind_ok h
    obtain ⟨hsh, hpar⟩ := rebuildMacro_scoped hm' hmb
    by_cases hl : (List.lookup m'.name st.gctx).isSome = true
    · simp [hl, throw_eq, bind, Except.bind] at h2
    · simp [hl, pure, Except.pure] at h2
      rw [← h2]
      refine ⟨by rw [← h2] at htop; exact htop, ha.stmts, ?_⟩
      intro x hx
      rcases List.mem_append.1 hx with hx | hx
      · exact ha.macros x hx
      · simp only [List.mem_singleton] at hx; subst hx; rw [hpar]; exact hsh

theorem circuitLoop_scoped {cfg : Config} {inject : Option (List (String × GateDef))} {fuel : Nat} :
    ∀ (cs : List BSx) (acc a1 : Acc), ScInv acc → (∀ c ∈ cs, GChild c ∧ c.depth ≤ fuel) →
      circuitLoop cfg .off inject fuel acc cs = .ok a1 → ScInv a1 := by
  intro cs
  induction cs with
  | nil => intro acc a1 ha _ h; simp only [circuitLoop, pure, Except.pure] at h; cases h; exact ha
  | cons c cs ih =>
    intro acc a1 ha hcs h
    simp only [circuitLoop, circuitStep] at h
    obtain ⟨a2, hstep, h2⟩ := bind_ok h
    obtain ⟨p, hp, h3⟩ := bind_ok hstep
    obtain ⟨o, st⟩ := p
    obtain ⟨hshape, hdep⟩ := hcs c (by simp)
    have hchild := buildAny_child_scoped ha.top hshape hdep hp
    exact ih a2 a1 (stepTail_scoped ha hchild h3) (fun d hd => hcs d (by simp [hd])) h2

/-! ### The theorem -/

/-- no parameter in the body, only its own in a macro body; loop bodies are blocks -/
structure ScopedC (c : Circuit) : Prop where
  body : ScS noPar c.body
  macros : ∀ m ∈ c.macros, ScS (inNames m.params) m.body

/-- **`built_scoped`** -/
theorem built_scoped (cfg : Config) (e : BSx) (c : Circuit) (hp : GrammarSx e) (hb : build cfg e = .ok c) : ScopedC c := by
  obtain ⟨cs, rfl, hcs⟩ := hp
  rw [C07_memo_transparent] at hb
  unfold buildNoMemo buildWith at hb
  obtain ⟨inject, _, h1⟩ := bind_ok hb
  simp only [buildCore] at h1
  obtain ⟨acc, hloop, h3⟩ := bind_ok h1
  simp only [pure, Except.pure] at h3
  cases h3
  have hinv : ScInv acc := by
    refine circuitLoop_scoped cs _ acc ?_ ?_ hloop
    · exact ⟨(fun n v h => by simp [Ctx.get] at h), (fun s hs => by cases hs), (fun m hm => by cases hm)⟩
    · intro c hc
      refine ⟨hcs c hc, ?_⟩
      simp only [BSx.depth, BSx.depthList]
      have := depth_le_of_mem hc
      omega
  refine ⟨?_, hinv.macros⟩
  simp only [Acc.toCircuit, ScS]
  have : ∀ l : List Stmt, (∀ s ∈ l, ScS noPar s) → ScSL noPar l := by
    intro l
    induction l with
    | nil => intro _; trivial
    | cons x xs ih => intro h; exact ⟨h x (by simp), ih (fun s hs => h s (by simp [hs]))⟩
  exact this _ hinv.stmts

end Jaqal.Builder

#print axioms Jaqal.Builder.built_scoped
