import JaqalProofs.Lemmas.BuilderRefs
/-! Lemmas for the name clauses of C14: constant / register / alias names are pairwise distinct; every gate
statement's definition is bound in the gate context; the gate context of a parser-shaped circuit consists of the native
gates, the circuit's macros and (when no gate set is in force) anonymous definitions. -/
namespace Jaqal.Builder
open Jaqal

/-! ### Names of constants, registers and aliases are pairwise distinct -/

def nameOf (v : Val) : String := v.name?.getD ""

theorem lookup_none_not_mem {β : Type} {n : String} : ∀ {l : List (String × β)}, l.lookup n = none → n ∉ l.map (·.1) := by
  intro l
  induction l with
  | nil => intro _ h; cases h
  | cons p ps ih =>
    intro h hm
    obtain ⟨k, v⟩ := p
    simp only [List.lookup] at h
    by_cases hk : (n == k) = true
    · simp [hk] at h
    · simp only [hk] at h
      simp only [List.map_cons, List.mem_cons] at hm
      rcases hm with rfl | hm
      · simp at hk
      · exact ih h hm

structure NamesInv (acc : Acc) : Prop where
  nodup : (acc.ctx.vars.map (·.1)).Nodup
  perm : List.Perm ((acc.constants ++ acc.registers).map nameOf) (acc.ctx.vars.map (·.1))

theorem addVar_vars {ctx ctx' : Ctx} {n : String} {v : Val} (h : addVar ctx n v = .ok ctx') :
    ctx'.vars = (n, v) :: ctx.vars ∧ n ∉ ctx.vars.map (·.1) := by
  unfold addVar at h
  split at h
  · simp [throw_eq] at h
  · rename_i hs
    simp only [pure, Except.pure] at h
    cases h
    refine ⟨rfl, lookup_none_not_mem ?_⟩
    cases hl : ctx.get n with
    | none => exact hl
    | some w => simp [hl] at hs

theorem stepTail_names {cfg : Config} {mode : KeyMode} {inject : Option (List (String × GateDef))} {acc a1 : Acc} {o : Obj} {st : St}
    (ha : NamesInv acc) (h : stepTail cfg mode inject acc o st = .ok a1) : NamesInv a1 := by
  have hreg : ∀ (n : String) (v : Val) (c : Ctx), nameOf v = n → addVar acc.ctx n v = .ok c →
      NamesInv { acc with ctx := c, st := st, registers := acc.registers ++ [v] } := by
    intro n v c hn hc
    obtain ⟨hv, hnot⟩ := addVar_vars hc
    refine ⟨?_, ?_⟩
    · simp only [hv, List.map_cons, List.nodup_cons]; exact ⟨hnot, ha.nodup⟩
    · simp only [hv, List.map_cons, ← List.append_assoc, List.map_append, List.map_nil, hn]
      exact (List.perm_append_singleton _ _).trans (List.Perm.cons _ (by simpa using ha.perm))
  have hconst : ∀ (n : String) (v : Val) (c : Ctx), nameOf v = n → addVar acc.ctx n v = .ok c →
      NamesInv { acc with ctx := c, st := st, constants := acc.constants ++ [v] } := by
    intro n v c hn hc
    obtain ⟨hv, hnot⟩ := addVar_vars hc
    refine ⟨?_, ?_⟩
    · simp only [hv, List.map_cons, List.nodup_cons]; exact ⟨hnot, ha.nodup⟩
    · simp only [hv, List.map_cons, List.map_append, List.map_nil, hn, List.append_assoc, List.singleton_append]
      exact List.perm_middle.trans (List.Perm.cons _ (by simpa using ha.perm))
  cases o with
  | val v =>
    cases v <;> simp only [stepTail, throw_eq] at h <;> first
      | cases h
      | (obtain ⟨c, hc, h2⟩ := bind_ok h
         cases h2
         first
           | exact hreg _ _ c rfl hc
           | exact hconst _ _ c rfl hc)
  | «macro» m =>
    simp only [stepTail] at h
    obtain ⟨m', _, h2⟩ := bind_ok h
    by_cases hl : (List.lookup m'.name st.gctx).isSome = true
    · simp [hl, throw_eq, bind, Except.bind] at h2
    · simp [hl, pure, Except.pure] at h2
      rw [← h2]; exact ⟨ha.nodup, ha.perm⟩
  | stmt s => simp only [stepTail, pure, Except.pure] at h; cases h; exact ⟨ha.nodup, ha.perm⟩
  | case => simp [stepTail, throw_eq] at h
  | usepulses n =>
    rcases stepTail_usepulses_ok h with ⟨_, rfl⟩ | ⟨_, _, gs, _, rfl⟩
    · exact ⟨ha.nodup, ha.perm⟩
    · exact ⟨ha.nodup, ha.perm⟩

theorem circuitLoop_names {cfg : Config} {mode : KeyMode} {inject : Option (List (String × GateDef))} {fuel : Nat} :
    ∀ (cs : List BSx) (acc a1 : Acc), NamesInv acc → circuitLoop cfg mode inject fuel acc cs = .ok a1 → NamesInv a1 := by
  intro cs
  induction cs with
  | nil => intro acc a1 ha h; simp only [circuitLoop, pure, Except.pure] at h; cases h; exact ha
  | cons c cs ih =>
    intro acc a1 ha h
    simp only [circuitLoop, circuitStep] at h
    obtain ⟨a2, hstep, h2⟩ := bind_ok h
    obtain ⟨p, _, h3⟩ := bind_ok hstep
    exact ih a2 a1 (stepTail_names ha h3) h2


/-! ### Every gate statement's definition is bound in the gate context -/

mutual
def gateDefsOf : Stmt → List GateDef
  | .gate _ gd _ => [gd]
  | .block _ _ _ body => gateDefsOfList body
  | .loop _ b => gateDefsOf b
def gateDefsOfList : List Stmt → List GateDef
  | [] => []
  | s :: ss => gateDefsOf s ++ gateDefsOfList ss
end

theorem mem_gateDefsOfList {gd : GateDef} : ∀ {ss : List Stmt}, gd ∈ gateDefsOfList ss ↔ ∃ s ∈ ss, gd ∈ gateDefsOf s := by
  intro ss
  induction ss with
  | nil => simp [gateDefsOfList]
  | cons s ss ih => simp [gateDefsOfList, ih]

/-- the gate context binds the definition's name to (an entry that is) this definition -/
def GKnown (g : GCtx) (gd : GateDef) : Prop := ∃ e, g.lookup gd.name = some e ∧ e.toDef = gd
def StmtKnown (g : GCtx) (s : Stmt) : Prop := ∀ gd ∈ gateDefsOf s, GKnown g gd
def ObjKnown (g : GCtx) : Obj → Prop
  | .stmt s => StmtKnown g s
  | .macro m => StmtKnown g m.body
  | _ => True
def MemoKnown (g : GCtx) (m : Memo) : Prop := ∀ k s, (k, s) ∈ m → StmtKnown g s
/-- every entry is filed under its own name -/
def GKeys (g : GCtx) : Prop := ∀ n e, g.lookup n = some e → e.toDef.name = n
/-- entries of `g'` that are not entries of `g` are anonymous definitions (and those exist only when allowed) -/
def AnonExt (cfg : Config) (g g' : GCtx) : Prop :=
  ∀ n e, g'.lookup n = some e → g.lookup n = some e ∨ (cfg.anonymousAllowed = true ∧ ∃ k, e = .gdef (anonDef n k))

theorem AnonExt.refl (cfg : Config) (g : GCtx) : AnonExt cfg g g := fun _ _ h => Or.inl h
theorem AnonExt.trans {cfg : Config} {a b c : GCtx} (h1 : AnonExt cfg a b) (h2 : AnonExt cfg b c) : AnonExt cfg a c := by
  intro n e h
  rcases h2 n e h with h | h
  · exact h1 n e h
  · exact Or.inr h

theorem GKnown.ext {g g' : GCtx} {gd : GateDef} (hx : GExt g g') (h : GKnown g gd) : GKnown g' gd := by
  obtain ⟨e, he, hd⟩ := h
  exact ⟨e, hx _ _ he, hd⟩
theorem StmtKnown.ext {g g' : GCtx} {s : Stmt} (hx : GExt g g') (h : StmtKnown g s) : StmtKnown g' s :=
  fun gd hgd => (h gd hgd).ext hx
theorem ObjKnown.ext {g g' : GCtx} {o : Obj} (hx : GExt g g') (h : ObjKnown g o) : ObjKnown g' o := by
  cases o <;> first | exact StmtKnown.ext hx h | trivial
theorem MemoKnown.ext {g g' : GCtx} {m : Memo} (hx : GExt g g') (h : MemoKnown g m) : MemoKnown g' m :=
  fun k s hk => (h k s hk).ext hx

structure KInv (st : St) : Prop where
  keys : GKeys st.gctx
  memo : MemoKnown st.gctx st.memo

structure KPost (cfg : Config) (st : St) (o : Obj) (st1 : St) : Prop where
  ext : GExt st.gctx st1.gctx
  anon : AnonExt cfg st.gctx st1.gctx
  inv : KInv st1
  obj : ObjKnown st1.gctx o

theorem callDef_shape {gd : GateDef} {vals : List Val} {s : Stmt} (h : callDef gd vals = .ok s) :
    gateDefsOf s = [gd] := by
  unfold callDef at h
  simp only [bind, Except.bind] at h
  split at h
  · simp [throw_eq] at h
  · simp only [pure, Except.pure] at h
    split at h
    · simp [throw_eq] at h
    · split at h
      · simp at h
      · cases h; rfl

theorem buildGateFresh_known {cfg : Config} {recV : BSx → M Val} {name : String} {args : List BSx} {g g' : GCtx}
    {s : Stmt} (hk : GKeys g) (h : buildGateFresh cfg recV name args g = .ok (s, g')) :
    GExt g g' ∧ AnonExt cfg g g' ∧ GKeys g' ∧ StmtKnown g' s := by
  obtain ⟨e, hl, hx, hcall⟩ := buildGateFresh_ok h
  obtain ⟨vals, _, hc⟩ := bind_ok hcall
  have hshape := callDef_shape hc
  -- the two ways `get_gate_definition` ends
  unfold buildGateFresh getGateDef at h
  cases hlk : List.lookup name g with
  | some e0 =>
    simp only [hlk] at h
    obtain ⟨q, hq, h2⟩ := bind_ok h
    simp only [pure, Except.pure] at hq
    cases hq
    obtain ⟨vs, _, h3⟩ := bind_ok h2
    obtain ⟨s2, _, h4⟩ := bind_ok h3
    cases h4
    have he : e = e0 := by rw [hlk] at hl; cases hl; rfl
    subst he
    refine ⟨GExt.refl _, AnonExt.refl _ _, hk, ?_⟩
    intro gd hgd
    rw [hshape] at hgd
    simp only [List.mem_singleton] at hgd
    subst hgd
    exact ⟨e, by rw [hk name e hlk]; exact hlk, rfl⟩
  | none =>
    simp only [hlk] at h
    by_cases ha : cfg.anonymousAllowed = true
    · simp only [ha, if_true] at h
      obtain ⟨q, hq, h2⟩ := bind_ok h
      simp only [pure, Except.pure] at hq
      cases hq
      obtain ⟨vs, _, h3⟩ := bind_ok h2
      obtain ⟨s2, _, h4⟩ := bind_ok h3
      cases h4
      have hl' : List.lookup name ((name, GEntry.gdef (anonDef name args.length)) :: g)
          = some (GEntry.gdef (anonDef name args.length)) := by simp [List.lookup]
      have he : e = GEntry.gdef (anonDef name args.length) := by rw [hl'] at hl; cases hl; rfl
      subst he
      refine ⟨hx, ?_, ?_, ?_⟩
      · intro n e' hn
        simp only [List.lookup] at hn
        by_cases hnn : (n == name) = true
        · simp only [hnn, Option.some.injEq] at hn
          have : n = name := by simpa using hnn
          subst this
          exact Or.inr ⟨ha, args.length, hn.symm⟩
        · simp only [hnn] at hn; exact Or.inl hn
      · intro n e' hn
        simp only [List.lookup] at hn
        by_cases hnn : (n == name) = true
        · simp only [hnn, Option.some.injEq] at hn
          have : n = name := by simpa using hnn
          subst this; subst hn; rfl
        · simp only [hnn] at hn; exact hk n e' hn
      · intro gd hgd
        rw [hshape] at hgd
        simp only [List.mem_singleton] at hgd
        subst hgd
        exact ⟨_, hl', rfl⟩
    · simp [ha, bind, Except.bind, throw_eq] at h

theorem buildGate_known {cfg : Config} {mode : KeyMode} {ctx : Ctx} {recV : BSx → M Val} {args : List BSx} {st st1 : St}
    {s : Stmt} (hi : KInv st) (h : buildGate cfg mode ctx recV args st = .ok (s, st1)) :
    KPost cfg st (.stmt s) st1 := by
  unfold buildGate at h
  split at h
  · simp [throw_eq] at h
  · rename_i name gargs
    obtain ⟨_, _, h⟩ := bind_ok h
    unfold buildGateMemo at h
    by_cases hoff : mode = .off
    · simp only [hoff, if_true] at h
      obtain ⟨p, hb, h1⟩ := bind_ok h
      obtain ⟨s', g'⟩ := p
      cases h1
      obtain ⟨hx, han, hk', hs⟩ := buildGateFresh_known hi.keys hb
      exact ⟨hx, han, ⟨hk', hi.memo.ext hx⟩, hs⟩
    · simp only [hoff, if_false] at h
      cases hfind : Memo.find mode.numByValue st.memo (mkKey mode ctx name gargs) with
      | some g =>
        simp only [hfind, pure, Except.pure] at h
        cases h
        obtain ⟨k, hk, _⟩ := Memo.find_some hfind
        exact ⟨GExt.refl _, AnonExt.refl _ _, hi, hi.memo k _ hk⟩
      | none =>
        simp only [hfind] at h
        obtain ⟨p, hb, h1⟩ := bind_ok h
        obtain ⟨s', g'⟩ := p
        cases h1
        obtain ⟨hx, han, hk', hs⟩ := buildGateFresh_known hi.keys hb
        refine ⟨hx, han, ⟨hk', ?_⟩, hs⟩
        intro k s0 hk
        rcases List.mem_cons.1 hk with heq | hk
        · cases heq; exact hs
        · exact (hi.memo k s0 hk).ext hx
  · simp [throw_eq] at h


theorem KPost.refl {cfg : Config} {st : St} {o : Obj} (hi : KInv st) (ho : ObjKnown st.gctx o) : KPost cfg st o st :=
  ⟨GExt.refl _, AnonExt.refl _ _, hi, ho⟩

theorem asStmts_known {g : GCtx} : ∀ {os : List Obj} {ss : List Stmt}, asStmts os = .ok ss →
    (∀ o ∈ os, ObjKnown g o) → ∀ s ∈ ss, StmtKnown g s := by
  intro os
  induction os with
  | nil => intro ss h _ s hs; simp [asStmts, pure, Except.pure] at h; subst h; cases hs
  | cons o os ih =>
    intro ss h ho s hs
    cases o with
    | stmt s0 =>
      simp only [asStmts] at h
      obtain ⟨r, hr, h1⟩ := bind_ok h
      cases h1
      rcases List.mem_cons.1 hs with rfl | hs
      · exact ho (.stmt s) (by simp)
      · exact ih hr (fun o' ho' => ho o' (by simp [ho'])) s hs
    | _ => simp [asStmts, throw_eq] at h

theorem block_known {g : GCtx} {par sub : Bool} {it : Val} {ss : List Stmt} (h : ∀ s ∈ ss, StmtKnown g s) :
    StmtKnown g (.block par sub it ss) := by
  intro gd hgd
  simp only [gateDefsOf] at hgd
  obtain ⟨s, hs, hg⟩ := mem_gateDefsOfList.1 hgd
  exact h s hs gd hg

theorem mapMSt_known {cfg : Config} {fA : BSx → St → M (Obj × St)} : ∀ (l : List BSx) (st st1 : St) (os : List Obj),
    (∀ x ∈ l, ∀ s s1 o, KInv s → fA x s = .ok (o, s1) → KPost cfg s o s1) →
    KInv st → mapMSt fA l st = .ok (os, st1) →
    GExt st.gctx st1.gctx ∧ AnonExt cfg st.gctx st1.gctx ∧ KInv st1 ∧ ∀ o ∈ os, ObjKnown st1.gctx o := by
  intro l
  induction l with
  | nil =>
    intro st st1 os _ hi h
    simp only [mapMSt, pure, Except.pure] at h
    cases h
    exact ⟨GExt.refl _, AnonExt.refl _ _, hi, fun o ho => (by cases ho)⟩
  | cons x xs ih =>
    intro st st1 os hf hi h
    simp only [mapMSt] at h
    obtain ⟨p, hp, h1⟩ := bind_ok h
    obtain ⟨o, s1⟩ := p
    obtain ⟨q, hq, h2⟩ := bind_ok h1
    obtain ⟨os', s2⟩ := q
    cases h2
    have hp1 := hf x (by simp) st s1 o hi hp
    obtain ⟨hx2, ha2, hi2, hos⟩ := ih s1 _ os' (fun y hy => hf y (by simp [hy])) hp1.inv hq
    refine ⟨hp1.ext.trans hx2, hp1.anon.trans ha2, hi2, ?_⟩
    intro o' ho'
    rcases List.mem_cons.1 ho' with rfl | ho'
    · exact hp1.obj.ext hx2
    · exact hos o' ho'

theorem anyStep_known {cfg : Config} {mode : KeyMode} {recA : Ctx → BSx → St → M (Obj × St)} {recV : BSx → M Val}
    {ctx : Ctx} {l : List BSx} {st st1 : St} {o : Obj}
    (hrec : ∀ c x, x ∈ l → ∀ s s1 o, KInv s → recA c x s = .ok (o, s1) → KPost cfg s o s1)
    (hi : KInv st) (h : anyStep cfg mode recA recV ctx l st = .ok (o, st1)) : KPost cfg st o st1 := by
  unfold anyStep at h
  match l, hrec, h with
  | [], _, h => simp [throw_eq] at h
  | .str cmd :: args, hrec, h =>
    have hrec' : ∀ c x, x ∈ args → ∀ s s1 o, KInv s → recA c x s = .ok (o, s1) → KPost cfg s o s1 :=
      fun c x hx => hrec c x (by simp [hx])
    have hblock : ∀ (c : Ctx) (as : List BSx) (par sub : Bool) (it : Val), (∀ x ∈ as, x ∈ args) →
        ∀ (os : List Obj) (s1 : St) (ss : List Stmt), mapMSt (recA c) as st = .ok (os, s1) → asStmts os = .ok ss →
        KPost cfg st (.stmt (.block par sub it ss)) s1 := by
      intro c as par sub it has os s1 ss hmap hss
      obtain ⟨hx, han, hi1, hos⟩ := mapMSt_known as st s1 os (fun x hx => hrec' c x (has x hx)) hi hmap
      exact ⟨hx, han, hi1, block_known (asStmts_known hss hos)⟩
    by_cases h1 : cmd = "gate"
    · simp only [h1, if_true] at h
      obtain ⟨p, hp, h2⟩ := bind_ok h
      cases h2
      exact buildGate_known hi hp
    simp only [h1, if_false] at h
    by_cases h2 : cmd = "sequential_block" ∨ cmd = "block"
    · simp only [h2, if_true] at h
      obtain ⟨p, hp, h3⟩ := bind_ok h
      obtain ⟨ss, hss, h4⟩ := bind_ok h3
      cases h4
      exact hblock { ctx with inSeq := true } args false false (.int 1) (fun _ hx => hx) p.1 p.2 _
        (by cases p; exact hp) hss
    simp only [h2, if_false] at h
    by_cases h3 : cmd = "parallel_block"
    · simp only [h3, if_true] at h
      obtain ⟨p, hp, h3⟩ := bind_ok h
      obtain ⟨ss, hss, h4⟩ := bind_ok h3
      cases h4
      exact hblock { ctx with inPar := true } args true false (.int 1) (fun _ hx => hx) p.1 p.2 _
        (by cases p; exact hp) hss
    simp only [h3, if_false] at h
    by_cases h4 : cmd = "unscheduled_block"
    · simp only [h4, if_true] at h
      obtain ⟨p, hp, h3⟩ := bind_ok h
      obtain ⟨ss, hss, h4⟩ := bind_ok h3
      cases h4
      exact hblock ctx args false false (.int 1) (fun _ hx => hx) p.1 p.2 _ (by cases p; exact hp) hss
    simp only [h4, if_false] at h
    by_cases h5 : cmd = "subcircuit_block"
    · simp only [h5, if_true] at h
      split at h
      · simp [throw_eq] at h
      · obtain ⟨p, hp, h2⟩ := bind_ok h
        split at h2
        · simp [throw_eq] at h2
        · obtain ⟨count, _, h3⟩ := bind_ok h2
          obtain ⟨_, _, h4⟩ := bind_ok h3
          obtain ⟨ss, hss, h5⟩ := bind_ok h4
          cases h5
          exact hblock { ctx with inSub := true } _ false true count (fun x hx => List.mem_of_mem_tail hx) p.1 p.2 _
            (by cases p; exact hp) hss
    simp only [h5, if_false] at h
    by_cases h6 : cmd = "loop"
    · simp only [h6, if_true] at h
      split at h
      · rename_i countE blockE
        obtain ⟨count, _, h2⟩ := bind_ok h
        obtain ⟨p, hp, h3⟩ := bind_ok h2
        have hpost := hrec' ctx blockE (by simp) st p.2 p.1 hi (by cases p; exact hp)
        split at h3
        · rename_i b hb
          obtain ⟨_, _, h4⟩ := bind_ok h3
          cases h4
          refine ⟨hpost.ext, hpost.anon, hpost.inv, ?_⟩
          have := hpost.obj
          rw [hb] at this
          exact this
        · obtain ⟨_, _, h4⟩ := bind_ok h3
          cases h4
          refine ⟨hpost.ext, hpost.anon, hpost.inv, ?_⟩
          intro gd hgd
          simp [gateDefsOf, gateDefsOfList] at hgd
        · simp [throw_eq] at h3
      · simp [throw_eq] at h
    simp only [h6, if_false] at h
    by_cases h7 : cmd = "case"
    · simp only [h7, if_true] at h
      split at h
      · rename_i stateE blockE
        obtain ⟨_, _, h2⟩ := bind_ok h
        obtain ⟨p, hp, h3⟩ := bind_ok h2
        cases h3
        have hpost := hrec' ctx blockE (by simp) st p.2 p.1 hi (by cases p; exact hp)
        exact ⟨hpost.ext, hpost.anon, hpost.inv, trivial⟩
      · simp [throw_eq] at h
    simp only [h7, if_false] at h
    by_cases h8 : cmd = "branch"
    · simp only [h8, if_true] at h
      obtain ⟨a, _, h2⟩ := bind_ok h
      simp [throw_eq] at h2
    simp only [h8, if_false] at h
    by_cases h9 : cmd = "macro"
    · simp only [h9, if_true] at h
      split at h
      · simp [throw_eq] at h
      · split at h
        · rename_i nameE rest _
          obtain ⟨a, _, h2⟩ := bind_ok h
          split at h2
          · simp [throw_eq, bind, Except.bind] at h2
          · obtain ⟨params, _, h3⟩ := bind_ok h2
            split at h3
            · simp [throw_eq] at h3
            · rename_i blockE hlast
              obtain ⟨p, hp, h4⟩ := bind_ok h3
              have hmem : blockE ∈ rest := List.mem_of_getLast? hlast
              have hpost := hrec' (ctx.withParams params) blockE (by simp [hmem]) st p.2 p.1 hi (by cases p; exact hp)
              split at h4
              · rename_i par sub it body hb
                cases h4
                refine ⟨hpost.ext, hpost.anon, hpost.inv, ?_⟩
                have := hpost.obj
                rw [hb] at this
                exact this
              · simp [throw_eq] at h4
        · simp [throw_eq] at h
    simp only [h9, if_false] at h
    by_cases h10 : cmd = "usepulses"
    · simp only [h10, if_true] at h
      split at h
      · split at h
        · simp [throw_eq, bind, Except.bind] at h
        · split at h
          · cases h; exact KPost.refl hi trivial
          · simp [throw_eq] at h
      · simp [throw_eq] at h
    simp only [h10, if_false] at h
    by_cases h11 : cmd = "circuit"
    · simp [h11, throw_eq] at h
    simp only [h11, if_false] at h
    obtain ⟨v, _, h2⟩ := bind_ok h
    cases h2
    exact KPost.refl hi trivial
  | .int _ :: _, _, h | .flt _ :: _, _, h | .none :: _, _, h | .list _ :: _, _, h | .val _ :: _, _, h =>
    simp [throw_eq] at h

theorem buildAny_known {cfg : Config} {mode : KeyMode} : ∀ (f : Nat) (ctx : Ctx) (e : BSx) (st st1 : St) (o : Obj),
    KInv st → buildAny cfg mode f ctx e st = .ok (o, st1) → KPost cfg st o st1 := by
  intro f
  induction f with
  | zero =>
    intro ctx e st st1 o hi h
    cases e with
    | list l => simp [buildAny, throw_eq] at h
    | _ =>
      rw [buildAny_atom _ _ _ _ _ _ (by intro l; simp)] at h
      obtain ⟨v, _, h2⟩ := bind_ok h
      cases h2
      exact KPost.refl hi trivial
  | succ f ih =>
    intro ctx e st st1 o hi h
    cases e with
    | list l =>
      refine anyStep_known ?_ hi (show anyStep cfg mode (buildAny cfg mode f) (buildVal ctx f) ctx l st = _ from h)
      intro c x _ s s1 o' his hr
      exact ih c x s s1 o' his hr
    | _ =>
      rw [buildAny_atom _ _ _ _ _ _ (by intro l; simp)] at h
      obtain ⟨v, _, h2⟩ := bind_ok h
      cases h2
      exact KPost.refl hi trivial


/-! ### Dictionaries -/

theorem dictSet_mem {β : Type} {k : String} {v : β} : ∀ {l : List (String × β)} {p : String × β},
    p ∈ dictSet k v l → p = (k, v) ∨ p ∈ l := by
  intro l
  induction l with
  | nil => intro p h; simp [dictSet] at h; exact Or.inl h
  | cons q qs ih =>
    intro p h
    obtain ⟨k', v'⟩ := q
    simp only [dictSet] at h
    by_cases hk : (k' == k) = true
    · rw [if_pos hk] at h
      rcases List.mem_cons.1 h with h | h
      · exact Or.inl h
      · exact Or.inr (by simp [h])
    · rw [if_neg hk] at h
      rcases List.mem_cons.1 h with h | h
      · exact Or.inr (by simp [h])
      · rcases ih h with h | h
        · exact Or.inl h
        · exact Or.inr (by simp [h])

theorem dictSet_keys {β : Type} (k : String) (v : β) : ∀ (l : List (String × β)),
    (dictSet k v l).map (·.1) = if k ∈ l.map (·.1) then l.map (·.1) else l.map (·.1) ++ [k] := by
  intro l
  induction l with
  | nil => simp [dictSet]
  | cons q qs ih =>
    obtain ⟨k', v'⟩ := q
    simp only [dictSet]
    by_cases hk : (k' == k) = true
    · have : k' = k := by simpa using hk
      subst this
      simp [hk]
    · have hne : ¬ k' = k := by simpa using hk
      rw [if_neg hk]
      simp only [List.map_cons, ih, List.mem_cons]
      by_cases hm : k ∈ qs.map (·.1)
      · simp [hm]
      · have : ¬ (k = k' ∨ k ∈ List.map (fun x => x.1) qs) := by
          intro h; rcases h with h | h
          · exact hne h.symm
          · exact hm h
        have hne' : ¬ k = k' := fun h => hne h.symm
        simp [hm, hne']

theorem dictSet_nodup {β : Type} (k : String) (v : β) (l : List (String × β)) (h : (l.map (·.1)).Nodup) :
    ((dictSet k v l).map (·.1)).Nodup := by
  rw [dictSet_keys]
  by_cases hm : k ∈ l.map (·.1)
  · simp only [hm, if_true]; exact h
  · simp only [hm, if_false]
    rw [List.nodup_append]
    refine ⟨h, by simp, ?_⟩
    intro a ha b hb
    simp only [List.mem_singleton] at hb
    subst hb
    intro hab; subst hab; exact hm ha

def wrapG (p : String × GateDef) : String × GEntry := (p.1, .gdef p.2)

theorem dictSet_map (k : String) (v : GateDef) : ∀ (l : List (String × GateDef)),
    dictSet k (GEntry.gdef v) (l.map wrapG) = (dictSet k v l).map wrapG := by
  intro l
  induction l with
  | nil => rfl
  | cons q qs ih =>
    obtain ⟨k', v'⟩ := q
    simp only [List.map_cons, wrapG, dictSet]
    by_cases hk : (k' == k) = true
    · simp [hk, wrapG]
    · rw [if_neg hk, if_neg hk]
      simp only [List.map_cons, wrapG]
      rw [← ih]

theorem updateGates_map (inject : Option (List (String × GateDef))) : ∀ (gs : List GateDef) (l : List (String × GateDef)),
    updateGates GEntry.gdef inject gs (l.map wrapG) = (updateGates id inject gs l).map wrapG := by
  intro gs
  induction gs with
  | nil => intro l; rfl
  | cons g gs ih =>
    intro l
    simp only [updateGates, List.foldl_cons] at ih ⊢
    cases inject with
    | none => simp only [id]; rw [dictSet_map]; exact ih _
    | some inj =>
      cases inj with
      | nil => simp only [id]; rw [dictSet_map]; exact ih _
      | cons i is =>
        simp only [id]
        by_cases hg : (List.lookup g.name (i :: is)).isSome = true
        · rw [if_pos hg, if_pos hg]; exact ih _
        · rw [if_neg hg, if_neg hg, dictSet_map]; exact ih _

/-- dictionary well-formedness of the native-gate table: distinct keys, every gate filed under its name -/
structure NatOK (l : List (String × GateDef)) : Prop where
  keys : ∀ p ∈ l, p.2.name = p.1
  nodup : (l.map (·.1)).Nodup

theorem NatOK.dictSet {l : List (String × GateDef)} (h : NatOK l) (g : GateDef) : NatOK (dictSet g.name g l) := by
  refine ⟨?_, dictSet_nodup _ _ _ h.nodup⟩
  intro p hp
  rcases dictSet_mem hp with rfl | hp
  · rfl
  · exact h.keys p hp

theorem updateGates_natOK (inject : Option (List (String × GateDef))) : ∀ (gs : List GateDef)
    (l : List (String × GateDef)), NatOK l → NatOK (updateGates id inject gs l) := by
  intro gs
  induction gs with
  | nil => intro l h; exact h
  | cons g gs ih =>
    intro l h
    simp only [updateGates, List.foldl_cons] at ih ⊢
    cases inject with
    | none => exact ih _ (h.dictSet g)
    | some inj =>
      cases inj with
      | nil => exact ih _ (h.dictSet g)
      | cons i is =>
        simp only []
        by_cases hg : (List.lookup g.name (i :: is)).isSome = true
        · rw [if_pos hg]; exact ih _ h
        · rw [if_neg hg]; exact ih _ (h.dictSet g)

theorem normNatives_natOK {gs : List GateDef} {d : List (String × GateDef)} (h : normNatives gs = .ok d) : NatOK d := by
  unfold normNatives at h
  simp only [] at h
  split at h
  · simp [throw_eq] at h
  · simp only [pure, Except.pure] at h
    cases h
    have : ∀ (gs : List GateDef) (l : List (String × GateDef)), NatOK l →
        NatOK (gs.foldl (fun acc g => dictSet g.name g acc) l) := by
      intro gs
      induction gs with
      | nil => intro l h; exact h
      | cons g gs ih => intro l h; exact ih _ (h.dictSet g)
    exact this gs [] ⟨fun p hp => (by cases hp), by simp⟩

theorem lookup_map_wrapG {n : String} {e : GEntry} : ∀ {l : List (String × GateDef)},
    (l.map wrapG).lookup n = some e → ∃ g, e = .gdef g ∧ (n, g) ∈ l := by
  intro l
  induction l with
  | nil => intro h; simp at h
  | cons q qs ih =>
    intro h
    obtain ⟨k, v⟩ := q
    simp only [List.map_cons, wrapG, List.lookup] at h
    by_cases hk : (n == k) = true
    · simp only [hk, Option.some.injEq] at h
      have : n = k := by simpa using hk
      subst this
      exact ⟨v, h.symm, by simp⟩
    · simp only [hk] at h
      obtain ⟨g, hg, hm⟩ := ih h
      exact ⟨g, hg, by simp [hm]⟩

theorem lookup_isSome_of_mem_keys {β : Type} {n : String} : ∀ {l : List (String × β)}, n ∈ l.map (·.1) →
    (l.lookup n).isSome = true := by
  intro l
  induction l with
  | nil => intro h; cases h
  | cons q qs ih =>
    intro h
    obtain ⟨k, v⟩ := q
    simp only [List.lookup]
    by_cases hk : (n == k) = true
    · simp [hk]
    · simp only [hk]
      simp only [List.map_cons, List.mem_cons] at h
      rcases h with rfl | h
      · simp at hk
      · exact ih h



/-- a header child is built to a value or a `usepulses` statement, and leaves the state alone -/
theorem buildAny_header {cfg : Config} {mode : KeyMode} {f : Nat} {ctx : Ctx} {c : BSx} {st s1 : St} {o : Obj}
    (hp : headerChild c = true) (h : buildAny cfg mode f ctx c st = .ok (o, s1)) :
    s1 = st ∧ ((∃ v, o = .val v) ∨ ∃ n, o = .usepulses n) := by
  have hval : ∀ (m : M Val), (m >>= fun v => pure (Obj.val v, st)) = Except.ok (o, s1) →
      s1 = st ∧ ((∃ v, o = .val v) ∨ ∃ n, o = .usepulses n) := by
    intro m hm
    obtain ⟨a, _, h2⟩ := bind_ok hm
    cases h2; exact ⟨rfl, Or.inl ⟨a, rfl⟩⟩
  cases c with
  | list l =>
    cases f with
    | zero => simp [buildAny, throw_eq] at h
    | succ f =>
      have h' : anyStep cfg mode (buildAny cfg mode f) (buildVal ctx f) ctx l st = .ok (o, s1) := h
      match l, hp, h' with
      | [], hp, _ => simp [headerChild, headCmd] at hp
      | .str cmd :: args, hp, h' =>
        simp only [headerChild, headCmd, Bool.or_eq_true, decide_eq_true_eq] at hp
        rcases hp with ((hc | hc) | hc) | hc <;> subst hc
        · simp [anyStep] at h'; exact hval _ h'
        · simp [anyStep] at h'; exact hval _ h'
        · simp [anyStep] at h'; exact hval _ h'
        · simp only [anyStep, show ("usepulses" = "gate") = False from by decide, if_false,
            show ("usepulses" = "sequential_block" ∨ "usepulses" = "block") = False from by decide,
            show ("usepulses" = "parallel_block") = False from by decide,
            show ("usepulses" = "unscheduled_block") = False from by decide,
            show ("usepulses" = "subcircuit_block") = False from by decide,
            show ("usepulses" = "loop") = False from by decide,
            show ("usepulses" = "case") = False from by decide,
            show ("usepulses" = "branch") = False from by decide,
            show ("usepulses" = "macro") = False from by decide, if_true] at h'
          split at h'
          · split at h'
            · simp [throw_eq, bind, Except.bind] at h'
            · split at h'
              · cases h'; exact ⟨rfl, Or.inr ⟨_, rfl⟩⟩
              · simp [throw_eq] at h'
          · simp [throw_eq] at h'
      | .int _ :: _, hp, _ | .flt _ :: _, hp, _ | .none :: _, hp, _ | .list _ :: _, hp, _ | .val _ :: _, hp, _ =>
        simp [headerChild, headCmd] at hp
  | _ => simp [headerChild, headCmd] at hp

/-! ### `rebuild_macro_in_context` keeps definitions known -/

mutual
theorem rebuildStmt_known (g : GCtx) (hk : GKeys g) : ∀ (s : Stmt) (ch : Bool) (s' : Stmt),
    rebuildStmt g s = .ok (ch, s') → StmtKnown g s → StmtKnown g s'
  | .gate name gd args, ch, s', h, hs => by
    simp only [rebuildStmt] at h
    split at h
    · rename_i m hl
      split at h
      · split at h
        · cases h; exact hs
        · simp [throw_eq] at h
      · obtain ⟨s2, hcall, h2⟩ := bind_ok h
        cases h2
        intro gd' hgd'
        rw [callDef_shape hcall] at hgd'
        simp only [List.mem_singleton] at hgd'
        subst hgd'
        have := hk name _ hl
        exact ⟨.macro m, by rw [this]; exact hl, rfl⟩
    · cases h; exact hs
  | .block par sub it body, ch, s', h, hs => by
    simp only [rebuildStmt] at h
    obtain ⟨p, hp, h2⟩ := bind_ok h
    obtain ⟨c, body'⟩ := p
    have hb : ∀ s ∈ body, StmtKnown g s := by
      intro s hsm gd hgd
      exact hs gd (by simp only [gateDefsOf]; exact mem_gateDefsOfList.2 ⟨s, hsm, hgd⟩)
    have := rebuildList_known g hk body c body' hp hb
    split at h2
    · cases h2; exact block_known this
    · cases h2; exact hs
  | .loop c b, ch, s', h, hs => by
    simp only [rebuildStmt] at h
    obtain ⟨p, hp, h2⟩ := bind_ok h
    obtain ⟨c1, b'⟩ := p
    have := rebuildStmt_known g hk b c1 b' hp (fun gd hgd => hs gd (by simpa [gateDefsOf] using hgd))
    split at h2
    · cases h2; intro gd hgd; exact this gd (by simpa [gateDefsOf] using hgd)
    · cases h2; exact hs
theorem rebuildList_known (g : GCtx) (hk : GKeys g) : ∀ (l : List Stmt) (ch : Bool) (l' : List Stmt),
    rebuildList g l = .ok (ch, l') → (∀ s ∈ l, StmtKnown g s) → ∀ s ∈ l', StmtKnown g s
  | [], ch, l', h, _ => by simp only [rebuildList, pure, Except.pure] at h; cases h; intro s hs; cases hs
  | s :: ss, ch, l', h, hs => by
    simp only [rebuildList] at h
    obtain ⟨p, hp, h2⟩ := bind_ok h
    obtain ⟨c1, s'⟩ := p
    obtain ⟨q, hq, h3⟩ := bind_ok h2
    obtain ⟨c2, ss'⟩ := q
    cases h3
    intro x hx
    rcases List.mem_cons.1 hx with rfl | hx
    · exact rebuildStmt_known g hk s c1 _ hp (hs s (by simp))
    · exact rebuildList_known g hk ss c2 ss' hq (fun y hy => hs y (by simp [hy])) x hx
end

theorem rebuildMacro_known {g : GCtx} (hk : GKeys g) {m m' : Macro} (h : rebuildMacro g m = .ok m')
    (hm : StmtKnown g m.body) : StmtKnown g m'.body ∧ m'.name = m.name ∧ m'.params = m.params := by
  unfold rebuildMacro at h
  obtain ⟨p, hp, h2⟩ := bind_ok h
  obtain ⟨ch, b⟩ := p
  have := rebuildStmt_known g hk m.body ch b hp hm
  simp only [pure, Except.pure] at h2
  cases h2
  split
  · exact ⟨this, rfl, rfl⟩
  · exact ⟨hm, rfl, rfl⟩


/-! ### The header phase of a parser-shaped circuit -/

structure HInv (acc : Acc) : Prop where
  memo : acc.st.memo = []
  stmts : acc.stmts = []
  macros : acc.macros = []
  gctx : acc.st.gctx = acc.natives.map wrapG
  nat : NatOK acc.natives

theorem stepTail_header {cfg : Config} {mode : KeyMode} {inject : Option (List (String × GateDef))} {acc a1 : Acc} {o : Obj}
    (ha : HInv acc) (ho : (∃ v, o = .val v) ∨ ∃ n, o = .usepulses n)
    (h : stepTail cfg mode inject acc o acc.st = .ok a1) : HInv a1 := by
  rcases ho with ⟨v, rfl⟩ | ⟨n, rfl⟩
  · cases v <;> simp only [stepTail, throw_eq] at h <;> first
      | cases h
      | (obtain ⟨c, _, h2⟩ := bind_ok h
         cases h2
         exact ⟨ha.memo, ha.stmts, ha.macros, ha.gctx, ha.nat⟩)
  · rcases stepTail_usepulses_ok h with ⟨_, rfl⟩ | ⟨_, _, gs, _, rfl⟩
    · exact ⟨ha.memo, ha.stmts, ha.macros, ha.gctx, ha.nat⟩
    · refine ⟨?_, ha.stmts, ha.macros, ?_, updateGates_natOK inject gs _ ha.nat⟩
      · show (if mode = KeyMode.noReset then acc.st.memo else []) = []
        split
        · exact ha.memo
        · rfl
      · simp only []
        rw [ha.gctx, updateGates_map]

theorem circuitLoop_header {cfg : Config} {mode : KeyMode} {inject : Option (List (String × GateDef))} {fuel : Nat} :
    ∀ (cs : List BSx) (acc a1 : Acc), HInv acc → (∀ c ∈ cs, headerChild c = true) →
    circuitLoop cfg mode inject fuel acc cs = .ok a1 → HInv a1 := by
  intro cs
  induction cs with
  | nil => intro acc a1 ha _ h; simp only [circuitLoop, pure, Except.pure] at h; cases h; exact ha
  | cons c cs ih =>
    intro acc a1 ha hcs h
    simp only [circuitLoop, circuitStep] at h
    obtain ⟨a2, hstep, h2⟩ := bind_ok h
    obtain ⟨p, hp, h3⟩ := bind_ok hstep
    obtain ⟨o, st⟩ := p
    obtain ⟨hst, ho⟩ := buildAny_header (hcs c (by simp)) hp
    subst hst
    exact ih a2 a1 (stepTail_header ha ho h3) (fun d hd => hcs d (by simp [hd])) h2

theorem circuitLoop_append {cfg : Config} {mode : KeyMode} {inject : Option (List (String × GateDef))} {fuel : Nat} :
    ∀ (as bs : List BSx) (acc : Acc), circuitLoop cfg mode inject fuel acc (as ++ bs) =
      (circuitLoop cfg mode inject fuel acc as >>= fun a => circuitLoop cfg mode inject fuel a bs) := by
  intro as
  induction as with
  | nil => intro bs acc; rfl
  | cons a as ih =>
    intro bs acc
    simp only [List.cons_append, circuitLoop]
    cases circuitStep cfg mode inject fuel acc a with
    | error e => rfl
    | ok a2 => exact ih bs a2

/-! ### The body phase -/

structure BInv (cfg : Config) (acc : Acc) : Prop where
  k : KInv acc.st
  stmts : ∀ s ∈ acc.stmts, StmtKnown acc.st.gctx s
  macros : ∀ m ∈ acc.macros, StmtKnown acc.st.gctx m.body
  shape : ∀ n e, acc.st.gctx.lookup n = some e →
    (∃ g, e = .gdef g ∧ (n, g) ∈ acc.natives) ∨ (∃ m ∈ acc.macros, e = .macro m) ∨
      (cfg.anonymousAllowed = true ∧ ∃ k, e = .gdef (anonDef n k))
  nat : NatOK acc.natives
  mnames : (acc.macros.map (·.name) ++ acc.natives.map (·.1)).Nodup
  bound : ∀ n ∈ acc.macros.map (·.name) ++ acc.natives.map (·.1), (acc.st.gctx.lookup n).isSome = true

theorem HInv.toBInv {cfg : Config} {acc : Acc} (h : HInv acc) : BInv cfg acc := by
  refine ⟨⟨?_, ?_⟩, ?_, ?_, ?_, h.nat, ?_, ?_⟩
  · intro n e hl
    rw [h.gctx] at hl
    obtain ⟨g, rfl, hm⟩ := lookup_map_wrapG hl
    exact h.nat.keys _ hm
  · rw [h.memo]; intro k s hk; cases hk
  · rw [h.stmts]; intro s hs; cases hs
  · rw [h.macros]; intro m hm; cases hm
  · intro n e hl
    rw [h.gctx] at hl
    obtain ⟨g, rfl, hm⟩ := lookup_map_wrapG hl
    exact Or.inl ⟨g, rfl, hm⟩
  · rw [h.macros]; simpa using h.nat.nodup
  · intro n hn
    rw [h.macros] at hn
    simp only [List.map_nil, List.nil_append] at hn
    rw [h.gctx]
    apply lookup_isSome_of_mem_keys
    simpa [wrapG, List.map_map] using hn

theorem stepTail_body {cfg : Config} {mode : KeyMode} {inject : Option (List (String × GateDef))} {acc a1 : Acc} {o : Obj} {st : St}
    (ha : BInv cfg acc) (hp : KPost cfg acc.st o st) (hnu : ∀ n, o ≠ .usepulses n)
    (h : stepTail cfg mode inject acc o st = .ok a1) : BInv cfg a1 := by
  have hshape : ∀ n e, st.gctx.lookup n = some e →
      (∃ g, e = .gdef g ∧ (n, g) ∈ acc.natives) ∨ (∃ m ∈ acc.macros, e = .macro m) ∨
        (cfg.anonymousAllowed = true ∧ ∃ k, e = .gdef (anonDef n k)) := by
    intro n e hl
    rcases hp.anon n e hl with hl | hl
    · exact ha.shape n e hl
    · exact Or.inr (Or.inr hl)
  have hbound : ∀ n ∈ acc.macros.map (·.name) ++ acc.natives.map (·.1), (st.gctx.lookup n).isSome = true := by
    intro n hn
    have := ha.bound n hn
    cases hl : List.lookup n acc.st.gctx with
    | none => simp [hl] at this
    | some e => simp [hp.ext n e hl]
  have hsame : BInv cfg { acc with st := st } :=
    ⟨hp.inv, fun s hs => (ha.stmts s hs).ext hp.ext, fun m hm => (ha.macros m hm).ext hp.ext, hshape, ha.nat,
      ha.mnames, hbound⟩
  cases o with
  | val v =>
    cases v <;> simp only [stepTail, throw_eq] at h <;> first
      | cases h
      | (obtain ⟨c, _, h2⟩ := bind_ok h
         cases h2
         exact ⟨hsame.k, hsame.stmts, hsame.macros, hsame.shape, hsame.nat, hsame.mnames, hsame.bound⟩)
  | «macro» m =>
    simp only [stepTail] at h
    obtain ⟨m', hm', h2⟩ := bind_ok h
    obtain ⟨hmk, hname, _⟩ := rebuildMacro_known hp.inv.keys hm' hp.obj
    by_cases hl : (List.lookup m'.name st.gctx).isSome = true
    · simp [hl, throw_eq, bind, Except.bind] at h2
    · simp [hl, pure, Except.pure] at h2
      have hnone : List.lookup m'.name st.gctx = none := by
        cases hq : List.lookup m'.name st.gctx with
        | none => rfl
        | some e => simp [hq] at hl
      have hx : GExt st.gctx ((m'.name, GEntry.macro m') :: st.gctx) := by
        intro n e hn
        simp only [List.lookup]
        by_cases hnn : n = m'.name
        · subst hnn; rw [hnone] at hn; cases hn
        · have : (n == m'.name) = false := by simpa using hnn
          simp [this, hn]
      have hnotin : m'.name ∉ acc.macros.map (·.name) ++ acc.natives.map (·.1) := by
        intro hin
        have := hbound _ hin
        rw [hnone] at this; cases this
      rw [← h2]
      refine ⟨⟨?_, hsame.k.memo.ext hx⟩, fun s hs => (hsame.stmts s hs).ext hx, ?_, ?_, ha.nat, ?_, ?_⟩
      · intro n e hn
        simp only [List.lookup] at hn
        by_cases hnn : (n == m'.name) = true
        · simp only [hnn, Option.some.injEq] at hn
          have : n = m'.name := by simpa using hnn
          subst hn; rw [this]; rfl
        · simp only [hnn] at hn; exact hsame.k.keys n e hn
      · intro x hxm
        rcases List.mem_append.1 hxm with hxm | hxm
        · exact (hsame.macros x hxm).ext hx
        · simp only [List.mem_singleton] at hxm; subst hxm; exact hmk.ext hx
      · intro n e hn
        simp only [List.lookup] at hn
        by_cases hnn : (n == m'.name) = true
        · simp only [hnn, Option.some.injEq] at hn
          exact Or.inr (Or.inl ⟨m', by simp, hn.symm⟩)
        · simp only [hnn] at hn
          rcases hshape n e hn with h1 | ⟨mm, hmm, he⟩ | h3
          · exact Or.inl h1
          · exact Or.inr (Or.inl ⟨mm, by simp [hmm], he⟩)
          · exact Or.inr (Or.inr h3)
      · simp only [List.map_append, List.map_cons, List.map_nil, List.append_assoc, List.singleton_append]
        have : List.Perm (acc.macros.map (·.name) ++ m'.name :: acc.natives.map (·.1))
            (m'.name :: (acc.macros.map (·.name) ++ acc.natives.map (·.1))) := List.perm_middle
        rw [this.nodup_iff, List.nodup_cons]
        exact ⟨hnotin, ha.mnames⟩
      · intro n hn
        simp only [List.map_append, List.map_cons, List.map_nil, List.append_assoc, List.singleton_append,
          List.mem_append, List.mem_cons] at hn
        simp only [List.lookup]
        by_cases hnn : (n == m'.name) = true
        · simp [hnn]
        · simp only [hnn]
          have hne : n ≠ m'.name := by simpa using hnn
          apply hbound
          rcases hn with hn | hn | hn
          · exact List.mem_append.2 (Or.inl hn)
          · exact absurd hn hne
          · exact List.mem_append.2 (Or.inr hn)
  | stmt s =>
    simp only [stepTail, pure, Except.pure] at h
    cases h
    refine ⟨hsame.k, ?_, hsame.macros, hsame.shape, hsame.nat, hsame.mnames, hsame.bound⟩
    intro x hxm
    rcases List.mem_append.1 hxm with hxm | hxm
    · exact hsame.stmts x hxm
    · simp only [List.mem_singleton] at hxm; subst hxm; exact hp.obj
  | case => simp [stepTail, throw_eq] at h
  | usepulses n => exact absurd rfl (hnu n)

theorem circuitLoop_body {cfg : Config} {mode : KeyMode} {inject : Option (List (String × GateDef))} {fuel : Nat} :
    ∀ (cs : List BSx) (acc a1 : Acc), BInv cfg acc → (∀ c ∈ cs, bodyChild c = true) →
    circuitLoop cfg mode inject fuel acc cs = .ok a1 → BInv cfg a1 := by
  intro cs
  induction cs with
  | nil => intro acc a1 ha _ h; simp only [circuitLoop, pure, Except.pure] at h; cases h; exact ha
  | cons c cs ih =>
    intro acc a1 ha hcs h
    simp only [circuitLoop, circuitStep] at h
    obtain ⟨a2, hstep, h2⟩ := bind_ok h
    obtain ⟨p, hp, h3⟩ := bind_ok hstep
    obtain ⟨o, st⟩ := p
    have hpost := buildAny_known fuel acc.ctx c acc.st st o ha.k hp
    have hnu : ∀ n, o ≠ .usepulses n := by
      intro n hn
      subst hn
      have h1 := buildAny_usepulses hp
      have h2 := bodyChild_notUse (hcs c (by simp))
      simp [notUse, h1] at h2
    exact ih a2 a1 (stepTail_body ha hpost hnu h3) (fun d hd => hcs d (by simp [hd])) h2



/-- an expression that is built to a value or to a `usepulses` statement leaves the builder's state alone -/
theorem anyStep_pure_obj {cfg : Config} {mode : KeyMode} {recA : Ctx → BSx → St → M (Obj × St)} {recV : BSx → M Val}
    {ctx : Ctx} {l : List BSx} {st s1 : St} {o : Obj}
    (h : anyStep cfg mode recA recV ctx l st = .ok (o, s1))
    (ho : (∃ v, o = .val v) ∨ ∃ n, o = .usepulses n) : s1 = st := by
  have hno : ∀ {P : Prop} (s : Stmt), o = Obj.stmt s → P := by
    intro P s hs; rcases ho with ⟨v, hv⟩ | ⟨n, hn⟩ <;> (rw [hs] at *; first | cases hv | cases hn)
  have hnom : ∀ {P : Prop} (m : Macro), o = Obj.macro m → P := by
    intro P m hs; rcases ho with ⟨v, hv⟩ | ⟨n, hn⟩ <;> (rw [hs] at *; first | cases hv | cases hn)
  have hnoc : ∀ {P : Prop}, o = Obj.case → P := by
    intro P hs; rcases ho with ⟨v, hv⟩ | ⟨n, hn⟩ <;> (rw [hs] at *; first | cases hv | cases hn)
  unfold anyStep at h
  match l, h with
  | [], h => simp [throw_eq] at h
  | .str cmd :: args, h =>
    by_cases h1 : cmd = "gate"
    · simp only [h1, if_true] at h
      obtain ⟨a, _, h2⟩ := bind_ok h
      simp only [pure, Except.pure, Except.ok.injEq, Prod.mk.injEq] at h2
      exact hno _ h2.1.symm
    simp only [h1, if_false] at h
    by_cases h2 : cmd = "sequential_block" ∨ cmd = "block"
    · simp only [h2, if_true] at h
      obtain ⟨a, _, h2⟩ := bind_ok h
      obtain ⟨b, _, h3⟩ := bind_ok h2
      simp only [pure, Except.pure, Except.ok.injEq, Prod.mk.injEq] at h3
      exact hno _ h3.1.symm
    simp only [h2, if_false] at h
    by_cases h3 : cmd = "parallel_block"
    · simp only [h3, if_true] at h
      obtain ⟨a, _, h2⟩ := bind_ok h
      obtain ⟨b, _, h3⟩ := bind_ok h2
      simp only [pure, Except.pure, Except.ok.injEq, Prod.mk.injEq] at h3
      exact hno _ h3.1.symm
    simp only [h3, if_false] at h
    by_cases h4 : cmd = "unscheduled_block"
    · simp only [h4, if_true] at h
      obtain ⟨a, _, h2⟩ := bind_ok h
      obtain ⟨b, _, h3⟩ := bind_ok h2
      simp only [pure, Except.pure, Except.ok.injEq, Prod.mk.injEq] at h3
      exact hno _ h3.1.symm
    simp only [h4, if_false] at h
    by_cases h5 : cmd = "subcircuit_block"
    · simp only [h5, if_true] at h
      split at h
      · simp [throw_eq] at h
      · obtain ⟨a, _, h2⟩ := bind_ok h
        split at h2
        · simp [throw_eq] at h2
        · obtain ⟨b, _, h3⟩ := bind_ok h2
          obtain ⟨c, _, h4⟩ := bind_ok h3
          obtain ⟨d, _, h5⟩ := bind_ok h4
          simp only [pure, Except.pure, Except.ok.injEq, Prod.mk.injEq] at h5
          exact hno _ h5.1.symm
    simp only [h5, if_false] at h
    by_cases h6 : cmd = "loop"
    · simp only [h6, if_true] at h
      split at h
      · obtain ⟨a, _, h2⟩ := bind_ok h
        obtain ⟨b, _, h3⟩ := bind_ok h2
        split at h3
        · obtain ⟨c, _, h4⟩ := bind_ok h3
          simp only [pure, Except.pure, Except.ok.injEq, Prod.mk.injEq] at h4
          exact hno _ h4.1.symm
        · obtain ⟨c, _, h4⟩ := bind_ok h3
          simp only [pure, Except.pure, Except.ok.injEq, Prod.mk.injEq] at h4
          exact hno _ h4.1.symm
        · simp [throw_eq] at h3
      · simp [throw_eq] at h
    simp only [h6, if_false] at h
    by_cases h7 : cmd = "case"
    · simp only [h7, if_true] at h
      split at h
      · obtain ⟨a, _, h2⟩ := bind_ok h
        obtain ⟨b, _, h3⟩ := bind_ok h2
        simp only [pure, Except.pure, Except.ok.injEq, Prod.mk.injEq] at h3
        exact hnoc h3.1.symm
      · simp [throw_eq] at h
    simp only [h7, if_false] at h
    by_cases h8 : cmd = "branch"
    · simp only [h8, if_true] at h
      obtain ⟨a, _, h2⟩ := bind_ok h
      simp [throw_eq] at h2
    simp only [h8, if_false] at h
    by_cases h9 : cmd = "macro"
    · simp only [h9, if_true] at h
      split at h
      · simp [throw_eq] at h
      · split at h
        · obtain ⟨a, _, h2⟩ := bind_ok h
          split at h2
          · simp [throw_eq, bind, Except.bind] at h2
          · obtain ⟨b, _, h3⟩ := bind_ok h2
            split at h3
            · simp [throw_eq] at h3
            · obtain ⟨c, _, h4⟩ := bind_ok h3
              split at h4
              · simp only [pure, Except.pure, Except.ok.injEq, Prod.mk.injEq] at h4
                exact hnom _ h4.1.symm
              · simp [throw_eq] at h4
        · simp [throw_eq] at h
    simp only [h9, if_false] at h
    by_cases h10 : cmd = "usepulses"
    · simp only [h10, if_true] at h
      split at h
      · split at h
        · simp [throw_eq, bind, Except.bind] at h
        · split at h
          · cases h; rfl
          · simp [throw_eq] at h
      · simp [throw_eq] at h
    simp only [h10, if_false] at h
    by_cases h11 : cmd = "circuit"
    · simp [h11, throw_eq] at h
    simp only [h11, if_false] at h
    obtain ⟨a, _, h2⟩ := bind_ok h
    cases h2; rfl
  | .int _ :: _, h | .flt _ :: _, h | .none :: _, h | .list _ :: _, h | .val _ :: _, h => simp [throw_eq] at h

theorem buildAny_pure_obj {cfg : Config} {mode : KeyMode} {f : Nat} {ctx : Ctx} {c : BSx} {st s1 : St} {o : Obj}
    (h : buildAny cfg mode f ctx c st = .ok (o, s1)) (ho : (∃ v, o = .val v) ∨ ∃ n, o = .usepulses n) : s1 = st := by
  cases c with
  | list l =>
    cases f with
    | zero => simp [buildAny, throw_eq] at h
    | succ f => exact anyStep_pure_obj (show anyStep cfg mode (buildAny cfg mode f) (buildVal ctx f) ctx l st = _ from h) ho
  | _ =>
    rw [buildAny_atom _ _ _ _ _ _ (by intro l; simp)] at h
    obtain ⟨a, _, h2⟩ := bind_ok h
    cases h2; rfl


/-! ### The gate-table invariant for arbitrary S-expressions (`mode ≠ noReset`): pulse definitions can only be loaded
while no statement and no macro has been built, i.e. while the gate context still is the native-gate table -/

structure GInv (cfg : Config) (acc : Acc) : Prop where
  b : BInv cfg acc
  h : acc.stmts = [] → acc.macros = [] → HInv acc

theorem stepTail_general {cfg : Config} {mode : KeyMode} (hmode : mode ≠ .noReset)
    {inject : Option (List (String × GateDef))} {acc a1 : Acc} {o : Obj} {st : St}
    (ha : GInv cfg acc) (hp : KPost cfg acc.st o st)
    (hpure : ((∃ v, o = .val v) ∨ ∃ n, o = .usepulses n) → st = acc.st)
    (h : stepTail cfg mode inject acc o st = .ok a1) : GInv cfg a1 := by
  by_cases hu : ∃ n, o = .usepulses n
  · obtain ⟨n, rfl⟩ := hu
    have hst := hpure (Or.inr ⟨n, rfl⟩)
    subst hst
    rcases stepTail_usepulses_ok h with ⟨_, rfl⟩ | ⟨_, hempty, gs, _, rfl⟩
    · refine ⟨⟨ha.b.k, ha.b.stmts, ha.b.macros, ha.b.shape, ha.b.nat, ha.b.mnames, ha.b.bound⟩, ?_⟩
      intro h1 h2
      have := ha.h h1 h2
      exact ⟨this.memo, this.stmts, this.macros, this.gctx, this.nat⟩
    · obtain ⟨h1, h2⟩ := hempty hmode
      have hH := ha.h h1 h2
      have hH' : HInv { acc with st := { memo := if mode = .noReset then acc.st.memo else [],
                                          gctx := updateGates GEntry.gdef inject gs acc.st.gctx },
                                 usepulses := acc.usepulses ++ [n],
                                 natives := updateGates id inject gs acc.natives } := by
        refine ⟨?_, hH.stmts, hH.macros, ?_, updateGates_natOK inject gs _ hH.nat⟩
        · show (if mode = KeyMode.noReset then acc.st.memo else []) = []
          split
          · exact hH.memo
          · rfl
        · simp only []
          rw [hH.gctx, updateGates_map]
      exact ⟨hH'.toBInv, fun _ _ => hH'⟩
  · have hnu : ∀ n, o ≠ .usepulses n := fun n hn => hu ⟨n, hn⟩
    refine ⟨stepTail_body ha.b hp hnu h, ?_⟩
    intro h1 h2
    -- only a value leaves both lists empty
    cases o with
    | val v =>
      have hst := hpure (Or.inl ⟨v, rfl⟩)
      subst hst
      have hs0 : a1.stmts = acc.stmts ∧ a1.macros = acc.macros := by
        cases v <;> simp only [stepTail, throw_eq] at h <;> first
          | cases h
          | (obtain ⟨c, _, h2'⟩ := bind_ok h; cases h2'; exact ⟨rfl, rfl⟩)
      exact stepTail_header (ha.h (hs0.1 ▸ h1) (hs0.2 ▸ h2)) (Or.inl ⟨v, rfl⟩) h
    | «macro» m =>
      simp only [stepTail] at h
      obtain ⟨m', _, h3⟩ := bind_ok h
      by_cases hl : (List.lookup m'.name st.gctx).isSome = true
      · simp [hl, throw_eq, bind, Except.bind] at h3
      · simp [hl, pure, Except.pure] at h3
        rw [← h3] at h2
        simp at h2
    | stmt s =>
      simp only [stepTail, pure, Except.pure] at h
      cases h
      simp at h1
    | case => simp [stepTail, throw_eq] at h
    | usepulses n => exact absurd rfl (hnu n)

theorem circuitLoop_general {cfg : Config} {mode : KeyMode} (hmode : mode ≠ .noReset)
    {inject : Option (List (String × GateDef))} {fuel : Nat} :
    ∀ (cs : List BSx) (acc a1 : Acc), GInv cfg acc → circuitLoop cfg mode inject fuel acc cs = .ok a1 → GInv cfg a1 := by
  intro cs
  induction cs with
  | nil => intro acc a1 ha h; simp only [circuitLoop, pure, Except.pure] at h; cases h; exact ha
  | cons c cs ih =>
    intro acc a1 ha h
    simp only [circuitLoop, circuitStep] at h
    obtain ⟨a2, hstep, h2⟩ := bind_ok h
    obtain ⟨p, hp, h3⟩ := bind_ok hstep
    obtain ⟨o, st⟩ := p
    have hpost := buildAny_known fuel acc.ctx c acc.st st o ha.b.k hp
    exact ih a2 a1 (stepTail_general hmode ha hpost (fun ho => buildAny_pure_obj hp ho) h3) h2


end Jaqal.Builder
